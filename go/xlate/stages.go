package main

import (
	"fmt"
	"go/ast"
	"go/token"
	"os"
	"path/filepath"
	"strconv"
	"strings"
)

// family stages:  <function.go> <stage file>   (pipe/function.go pipe/pipe.go  |  pipe/fork/function.go pipe/fork/fork.go)
//
// Target language: the loop-body monad of lean/Golem/Model/StageDSL.lean.  For every consumer stage
//
//	func Stage[A, B any](ctx, [par int,] in <-chan A | in ...<-chan A, [f F[A,B] | fmap FF[A,B] | m monoid.Monoid[A] | n int]) (<-chan X [, <-chan Y]) {
//		[var wg sync.WaitGroup]
//		ch := make(chan T[, cap]) | ch := f.errch(cap) ...
//		[if n <= 0 { close(out); return out }]
//		go func() { W }()                                          -- one worker            (pipe)
//		w := func([c <-chan A]) { W } ; wg.Add(k) ; for … { go w([c]) }  -- par / per-input workers (fork, Join)
//		[go func() { wg.Wait(); close(..) … }()]                   -- closer
//		return ch…
//	}
//	W ::= [acc := m.Empty()] defer close(ch)… | defer wg.Done() | defer func(){ ch <- acc; close(ch) | wg.Done() }()
//	      var … ; [sel := func(x bool, err error) chan<- A { if c { return ch1 }; return ch2 }]
//	      for a = range in { BODY }  |  for x := range c { BODY }  |  for range in { BODY }
//
// it emits `namespace <Stage>`: `body` (BODY as a `BodyM` do-block), `init`, `final`, `cfg : Cfg`
// (workers, closer, capacities, close order) and, for the `n <= 0` guard, `early`.  The two
// function.go contribute `<type>_errch` / `<type>_catch`.  One-line wrappers `return pkg.F(args…)`
// become `def <Name>.delegate : String × List String`.
//
// A function outside the fragment is skipped with a comment and listed in `rejected`; the theorems
// that mention it then fail to elaborate (a broken tie for the properties that cite that stage only).
func init() { families["stages"] = stagesFamily }

type stReject struct{ msg string }

func sfail(n ast.Node, format string, args ...any) {
	panic(stReject{fmt.Sprintf("%s: %s", fset.Position(n.Pos()), fmt.Sprintf(format, args...))})
}

type stChan struct {
	name string
	idx  int
	elem string // Lean element type: α β ε Unit
	cap  string // Lean capacity expression over inCap par nIn errch
}

type stFn struct {
	fd           *ast.FuncDecl
	name         string
	chans        map[string]*stChan
	order        []*stChan // in order of make
	sumOut       bool
	valTy        string // γ
	inName       string
	variadic     bool
	parName      string
	fName        string // F / FF parameter
	fKind        string // "F" | "FF" | ""
	fResTy       string // Lean type of f's value result (β, Bool, α)
	monoid       string
	nName        string
	loopVar      string
	stateVar     string
	stateTy      string
	stateInit    string
	ghost        bool // σ = List α (visit log)
	usesCatch    bool
	usesF        bool
	usesComb     bool
	boundErr     map[string]bool
	errVars      map[string]bool
	boolVars     map[string]bool
	valVars      map[string]string // scratch value variables -> Lean expr
	closures     []string          // emitted `let sel := …` lines
	closNames    map[string]bool
	tyMap        map[string]string // Go type param -> Lean type
	inCatch      bool
	collectorOps []string
	sumRight     string             // element type injected with Sum.inr ("ε", or "Unit" for token channels); "" = "ε"
	chanVars     map[string]*stChan // local variables holding one of the stage's channels
	declChanVars map[string]bool    // `var dst chan<- A` seen in the worker
	rcount       int
	inHelper     bool // translating the inlined body of a guard helper: `return false` is the goroutine's return
	helperTail   *ast.ReturnStmt
	pre          []string        // lines to emit before the statement being translated (counted user-function calls)
	needRet      bool            // the next statement must be a bare return (after `if catch { continue }`)
	timed        bool            // sources family: sleep / recvSel / afterSel / forN are available
	durNames     map[string]bool // int / time.Duration parameters usable as Nat values
}

func leanTy(fn *stFn, e ast.Expr) string {
	switch x := e.(type) {
	case *ast.Ident:
		if t, ok := fn.tyMap[x.Name]; ok {
			return t
		}
		switch x.Name {
		case "error":
			return "ε"
		case "bool":
			return "Bool"
		case "int":
			return "Int"
		}
	case *ast.StructType:
		if x.Fields == nil || len(x.Fields.List) == 0 {
			return "Unit"
		}
	}
	sfail(e, "unsupported type %s", src(e))
	return ""
}

// ---------------------------------------------------------------- expressions

func (fn *stFn) chanIdx(e ast.Expr) (string, *stChan) {
	switch x := e.(type) {
	case *ast.Ident:
		if c, ok := fn.chans[x.Name]; ok {
			return fmt.Sprint(c.idx), c
		}
		if c, ok := fn.chanVars[x.Name]; ok {
			return id(x.Name), c
		}
		if fn.inCatch && x.Name == "exx" {
			return "exx", &stChan{name: "exx", elem: "ε"}
		}
	case *ast.CallExpr:
		// sel(f.Apply(a)) : a local closure choosing among channels of one element type
		if h, ok := x.Fun.(*ast.Ident); ok && fn.closNames[h.Name] && len(x.Args) == 1 {
			if ap, ok := fn.applyCall(x.Args[0]); ok {
				fn.rcount++
				r := fmt.Sprintf("r__%d", fn.rcount)
				fn.pre = append(fn.pre, fmt.Sprintf("let %s ← applyF (%s)", r, ap))
				ap = r
				var c0 *stChan
				for _, c := range fn.order {
					if c0 == nil || c.elem != "ε" {
						c0 = c
						break
					}
				}
				return fmt.Sprintf("(%s (%s).1 (%s).2)", id(h.Name), ap, ap), c0
			}
		}
	}
	sfail(e, "unsupported channel expression %s", src(e))
	return "", nil
}

func (fn *stFn) chanIdxOpt(e ast.Expr) (string, *stChan) {
	if x, ok := e.(*ast.Ident); ok {
		if c, ok := fn.chans[x.Name]; ok {
			return fmt.Sprint(c.idx), c
		}
	}
	return "", nil
}

// f.Apply(a)  ->  "f a"
func (fn *stFn) applyCall(e ast.Expr) (string, bool) {
	c, ok := e.(*ast.CallExpr)
	if !ok {
		return "", false
	}
	s, ok := c.Fun.(*ast.SelectorExpr)
	if !ok || s.Sel.Name != "Apply" {
		return "", false
	}
	r, ok := s.X.(*ast.Ident)
	if !ok || r.Name != fn.fName || fn.fKind != "F" || len(c.Args) != 1 {
		return "", false
	}
	fn.usesF = true
	return id(fn.fName) + " " + fn.val(c.Args[0], false), true
}

// value expression (pure); monadic = may mention the state variable as (← getS)
func (fn *stFn) val(e ast.Expr, monadic bool) string {
	switch x := e.(type) {
	case *ast.ParenExpr:
		return "(" + fn.val(x.X, monadic) + ")"
	case *ast.Ident:
		if x.Name == fn.loopVar && fn.loopVar != "" {
			return "a"
		}
		if x.Name == fn.stateVar && fn.stateVar != "" {
			if !monadic {
				sfail(e, "state variable %s used outside a statement", x.Name)
			}
			return "(← getS)"
		}
		if v, ok := fn.valVars[x.Name]; ok {
			return v
		}
		if fn.boundErr[x.Name] {
			return id(x.Name)
		}
		if fn.boolVars[x.Name] {
			return id(x.Name)
		}
		if fn.durNames[x.Name] {
			return id(x.Name)
		}
	case *ast.BasicLit:
		if x.Kind == token.INT {
			return x.Value
		}
	case *ast.CompositeLit:
		if st, ok := x.Type.(*ast.StructType); ok && (st.Fields == nil || len(st.Fields.List) == 0) && len(x.Elts) == 0 {
			return "()"
		}
	case *ast.CallExpr:
		if s, ok := x.Fun.(*ast.SelectorExpr); ok {
			if r, ok := s.X.(*ast.Ident); ok && r.Name == fn.monoid && fn.monoid != "" {
				if s.Sel.Name == "Combine" && len(x.Args) == 2 {
					fn.usesComb = true
					return "(mCombine " + fn.val(x.Args[0], monadic) + " " + fn.val(x.Args[1], monadic) + ")"
				}
				if s.Sel.Name == "Empty" && len(x.Args) == 0 {
					return "mEmpty"
				}
			}
		}
	case *ast.BinaryExpr:
		switch x.Op {
		case token.SUB, token.ADD:
			return "(" + fn.val(x.X, monadic) + " " + x.Op.String() + " " + fn.val(x.Y, monadic) + ")"
		}
	}
	sfail(e, "unsupported value expression %s", src(e))
	return ""
}

func isNil(e ast.Expr) bool {
	i, ok := e.(*ast.Ident)
	return ok && i.Name == "nil"
}

// boolean condition
func (fn *stFn) cond(e ast.Expr, monadic bool) string {
	switch x := e.(type) {
	case *ast.ParenExpr:
		return "(" + fn.cond(x.X, monadic) + ")"
	case *ast.UnaryExpr:
		if x.Op == token.NOT {
			return "(!" + fn.cond(x.X, monadic) + ")"
		}
	case *ast.Ident:
		if fn.boolVars[x.Name] {
			return id(x.Name)
		}
	case *ast.BinaryExpr:
		switch x.Op {
		case token.LAND:
			return "(" + fn.cond(x.X, monadic) + " && " + fn.cond(x.Y, monadic) + ")"
		case token.LOR:
			return "(" + fn.cond(x.X, monadic) + " || " + fn.cond(x.Y, monadic) + ")"
		case token.EQL, token.NEQ:
			if i, ok := x.X.(*ast.Ident); ok && isNil(x.Y) && fn.errVars[i.Name] {
				if fn.boundErr[i.Name] {
					sfail(e, "%s is known to be non-nil here", i.Name)
				}
				if x.Op == token.EQL {
					return id(i.Name) + ".isNone"
				}
				return id(i.Name) + ".isSome"
			}
			op := "=="
			if x.Op == token.NEQ {
				op = "!="
			}
			return "(" + fn.val(x.X, monadic) + " " + op + " " + fn.val(x.Y, monadic) + ")"
		case token.LEQ, token.LSS, token.GEQ, token.GTR:
			return "(decide (" + fn.val(x.X, monadic) + " " + x.Op.String() + " " + fn.val(x.Y, monadic) + "))"
		}
	}
	sfail(e, "unsupported condition %s", src(e))
	return ""
}

func (fn *stFn) inj(c *stChan, v string) string {
	if !fn.sumOut {
		return v
	}
	right := fn.sumRight
	if right == "" {
		right = "ε"
	}
	if c.elem == right {
		return "(Sum.inr " + v + ")"
	}
	return "(Sum.inl " + v + ")"
}

// ---------------------------------------------------------------- statements

func isCtxDone(e ast.Expr) bool {
	u, ok := e.(*ast.UnaryExpr)
	if !ok || u.Op != token.ARROW {
		return false
	}
	c, ok := u.X.(*ast.CallExpr)
	if !ok || len(c.Args) != 0 {
		return false
	}
	s, ok := c.Fun.(*ast.SelectorExpr)
	if !ok || s.Sel.Name != "Done" {
		return false
	}
	r, ok := s.X.(*ast.Ident)
	return ok && r.Name == "ctx"
}

func isBareReturn(b []ast.Stmt, inCatch bool) bool {
	if len(b) != 1 {
		return false
	}
	r, ok := b[0].(*ast.ReturnStmt)
	if !ok {
		return false
	}
	if inCatch {
		if len(r.Results) != 1 {
			return false
		}
		i, ok := r.Results[0].(*ast.Ident)
		return ok && i.Name == "false"
	}
	return len(r.Results) == 0
}

// f.catch(ctx, err, exx)
func (fn *stFn) catchCall(e ast.Expr) (string, bool) {
	c, ok := e.(*ast.CallExpr)
	if !ok {
		return "", false
	}
	s, ok := c.Fun.(*ast.SelectorExpr)
	if !ok || s.Sel.Name != "catch" {
		return "", false
	}
	r, ok := s.X.(*ast.Ident)
	if !ok || r.Name != fn.fName || len(c.Args) != 3 {
		return "", false
	}
	if a0, ok := c.Args[0].(*ast.Ident); !ok || a0.Name != "ctx" {
		sfail(e, "catch: first argument is not ctx")
	}
	er, ok := c.Args[1].(*ast.Ident)
	if !ok || !fn.boundErr[er.Name] {
		sfail(e, "catch: the error argument is not known to be non-nil")
	}
	ci, ch := fn.chanIdx(c.Args[2])
	if ch.elem != "ε" {
		sfail(e, "catch: %s is not an error channel", src(c.Args[2]))
	}
	fn.usesCatch = true
	return "«catch» " + id(er.Name) + " " + ci, true
}

func ind(n int) string { return strings.Repeat("  ", n) }

// block translates statements; `last` says whether the block's end is the end of the loop body
func (fn *stFn) block(stmts []ast.Stmt, depth int, last bool) []string {
	out := []string{}
	for i, st := range stmts {
		if fn.needRet {
			fn.needRet = false
			if !isBareReturn([]ast.Stmt{st}, false) {
				sfail(st, "`if catch { continue }` must be followed by a bare return")
			}
		}
		out = append(out, fn.stmt(st, depth, last && i == len(stmts)-1)...)
	}
	if fn.needRet {
		sfail(stmts[len(stmts)-1], "`if catch { continue }` must be followed by a bare return")
	}
	if len(out) == 0 {
		out = append(out, ind(depth)+"pure ()")
	}
	return out
}

func (fn *stFn) bindApply(lhs []ast.Expr, rhs ast.Expr, depth int) ([]string, bool) {
	c, ok := rhs.(*ast.CallExpr)
	if !ok {
		return nil, false
	}
	s, ok := c.Fun.(*ast.SelectorExpr)
	if !ok || s.Sel.Name != "Apply" {
		return nil, false
	}
	r, ok := s.X.(*ast.Ident)
	if !ok || r.Name != fn.fName {
		return nil, false
	}
	names := []string{}
	for _, l := range lhs {
		i, ok := l.(*ast.Ident)
		if !ok {
			sfail(l, "unsupported assignment target %s", src(l))
		}
		names = append(names, i.Name)
	}
	if fn.fKind == "F" && len(names) == 2 && len(c.Args) == 1 && fn.timed && names[0] == fn.stateVar && fn.stateVar != "" {
		// seed, err = f.Apply(seed): both results are assigned, whatever err is
		fn.usesF = true
		fn.errVars[names[1]] = true
		delete(fn.boundErr, names[1])
		return []string{
			fmt.Sprintf("%slet r__ ← applyF (%s %s)", ind(depth), id(fn.fName), fn.val(c.Args[0], true)),
			fmt.Sprintf("%ssetS r__.1", ind(depth)),
			fmt.Sprintf("%slet %s := r__.2", ind(depth), id(names[1])),
		}, true
	}
	if fn.fKind == "F" && len(names) == 2 && len(c.Args) == 1 {
		out := []string{}
		fn.rcount++
		ap := fmt.Sprintf("r__%d", fn.rcount)
		if a0, ok := c.Args[0].(*ast.Ident); ok && a0.Name == fn.stateVar && fn.stateVar != "" {
			// the argument is the loop-carried variable: read it once, before anything is assigned
			fn.usesF = true
			out = append(out, fmt.Sprintf("%slet %s ← applyF (%s (← getS))", ind(depth), ap, id(fn.fName)))
		} else {
			call, _ := fn.applyCall(rhs)
			out = append(out, fmt.Sprintf("%slet %s ← applyF (%s)", ind(depth), ap, call))
		}
		if names[0] != "_" {
			if fn.fResTy == "Bool" {
				fn.boolVars[names[0]] = true
			} else {
				fn.valVars[names[0]] = id(names[0])
			}
			out = append(out, fmt.Sprintf("%slet %s := (%s).1", ind(depth), id(names[0]), ap))
		}
		if names[1] != "_" {
			fn.errVars[names[1]] = true
			delete(fn.boundErr, names[1])
			out = append(out, fmt.Sprintf("%slet %s := (%s).2", ind(depth), id(names[1]), ap))
		}
		return out, true
	}
	if fn.fKind == "FF" && len(names) == 1 && len(c.Args) == 3 {
		if a0, ok := c.Args[0].(*ast.Ident); !ok || a0.Name != "ctx" {
			sfail(rhs, "arrow: first argument is not ctx")
		}
		ci, ch := fn.chanIdx(c.Args[2])
		if ch.elem == "ε" {
			sfail(rhs, "arrow writes to the error channel")
		}
		injf := "id"
		if fn.sumOut {
			injf = "Sum.inl"
		}
		fn.usesF = true
		fn.errVars[names[0]] = true
		delete(fn.boundErr, names[0])
		return []string{fmt.Sprintf("%slet %s ← arrow (%s %s) %s %s", ind(depth), id(names[0]), id(fn.fName), fn.val(c.Args[1], false), ci, injf)}, true
	}
	sfail(rhs, "unsupported use of %s.Apply", fn.fName)
	return nil, false
}

func (fn *stFn) stmt(st ast.Stmt, depth int, last bool) []string {
	save := fn.pre
	fn.pre = nil
	lines := fn.stmt0(st, depth, last)
	pre := []string{}
	for _, l := range fn.pre {
		pre = append(pre, ind(depth)+l)
	}
	fn.pre = save
	return append(pre, lines...)
}

func (fn *stFn) stmt0(st ast.Stmt, depth int, last bool) []string {
	p := ind(depth)
	switch x := st.(type) {
	case *ast.EmptyStmt:
		return nil
	case *ast.ReturnStmt:
		if fn.inCatch {
			if len(x.Results) == 1 {
				if i, ok := x.Results[0].(*ast.Ident); ok && (i.Name == "true" || i.Name == "false") {
					return []string{p + "return " + i.Name}
				}
			}
			sfail(st, "catch: unsupported return %s", src(st))
		}
		if fn.inHelper {
			if len(x.Results) == 1 && src(x.Results[0]) == "false" {
				return []string{p + "ret"}
			}
			sfail(st, "guard helper: only `return false` may leave the helper early")
		}
		if len(x.Results) != 0 {
			sfail(st, "return with values inside a worker")
		}
		return []string{p + "ret"}
	case *ast.BranchStmt:
		if x.Tok == token.CONTINUE && x.Label == nil && !fn.inCatch && !fn.inHelper {
			return []string{p + "next"}
		}
	case *ast.SendStmt:
		ci, ch := fn.chanIdx(x.Chan)
		return []string{fmt.Sprintf("%splainSend %s %s", p, ci, fn.inj(ch, fn.val(x.Value, true)))}
	case *ast.IncDecStmt:
		if i, ok := x.X.(*ast.Ident); ok && i.Name == fn.stateVar && fn.stateVar != "" {
			op := "-"
			if x.Tok == token.INC {
				op = "+"
			}
			return []string{fmt.Sprintf("%ssetS ((← getS) %s 1)", p, op)}
		}
	case *ast.ForStmt:
		// for i := 0; i < n; i++ { B }   (sources family)
		if fn.timed && x.Init != nil && x.Cond != nil && x.Post != nil {
			in, ok1 := x.Init.(*ast.AssignStmt)
			cd, ok2 := x.Cond.(*ast.BinaryExpr)
			po, ok3 := x.Post.(*ast.IncDecStmt)
			up := ok1 && ok2 && ok3 && in.Tok == token.DEFINE && len(in.Lhs) == 1 && len(in.Rhs) == 1 && src(in.Rhs[0]) == "0" &&
				cd.Op == token.LSS && src(cd.X) == src(in.Lhs[0]) && po.Tok == token.INC && src(po.X) == src(in.Lhs[0])
			// for n := N; n > 0; n-- { B }  runs B exactly N times as well
			down := ok1 && ok2 && ok3 && in.Tok == token.DEFINE && len(in.Lhs) == 1 && len(in.Rhs) == 1 &&
				cd.Op == token.GTR && src(cd.X) == src(in.Lhs[0]) && src(cd.Y) == "0" && po.Tok == token.DEC && src(po.X) == src(in.Lhs[0])
			if up || down {
				cnt := src(in.Lhs[0])
				bound := cd.Y
				if down {
					bound = in.Rhs[0]
				}
				bad := false
				ast.Inspect(x.Body, func(n ast.Node) bool {
					switch y := n.(type) {
					case *ast.BranchStmt:
						bad = true
					case *ast.Ident:
						if y.Name == cnt {
							bad = true
						}
					}
					return true
				})
				if bad {
					sfail(st, "counted loop: break/continue/goto or a use of the counter inside the body")
				}
				out := []string{fmt.Sprintf("%sforN %s (do", p, fn.val(bound, true))}
				out = append(out, fn.block(x.Body.List, depth+2, false)...)
				out[len(out)-1] += ")"
				return out
			}
		}
	case *ast.ExprStmt:
		if r, n, args, ok := callName(x.X); ok && fn.timed && r == "time" && n == "Sleep" && len(args) == 1 {
			return []string{fmt.Sprintf("%ssleep %s", p, fn.val(args[0], true))}
		}
		// f.Apply(x) with the results dropped
		if ap, ok := fn.applyCall(x.X); ok {
			_ = ap
			fn.ghost = true
			c := x.X.(*ast.CallExpr)
			return []string{fmt.Sprintf("%svisit %s", p, fn.val(c.Args[0], false))}
		}
	case *ast.DeclStmt:
		// var x T inside the loop body: a scratch variable, assigned before it is read
		if gd, ok := x.Decl.(*ast.GenDecl); ok && gd.Tok == token.VAR {
			okAll := true
			for _, sp := range gd.Specs {
				if vs, ok := sp.(*ast.ValueSpec); !ok || len(vs.Values) != 0 {
					okAll = false
				} else if _, isChan := vs.Type.(*ast.ChanType); isChan {
					if fn.declChanVars == nil {
						fn.declChanVars = map[string]bool{}
					}
					for _, n := range vs.Names {
						fn.declChanVars[n.Name] = true
					}
				}
			}
			if okAll {
				return nil
			}
		}
	case *ast.AssignStmt:
		if len(x.Rhs) == 1 && len(x.Lhs) == 1 {
			// dst := rout  /  dst = lout : a local variable holding one of the stage's channels
			if l, ok := x.Lhs[0].(*ast.Ident); ok {
				if r, ok := x.Rhs[0].(*ast.Ident); ok {
					if c, isCh := fn.chans[r.Name]; isCh {
						if x.Tok == token.DEFINE {
							if fn.chanVars == nil {
								fn.chanVars = map[string]*stChan{}
							}
							fn.chanVars[l.Name] = &stChan{name: l.Name, elem: c.elem}
							return []string{fmt.Sprintf("%slet mut %s := %d", p, id(l.Name), c.idx)}
						}
						// `var dst chan<- A` in the worker's prologue, assigned here for the first time in this iteration:
						// a per-iteration local as long as this assignment dominates every use (a use that it does not
						// dominate is an unbound Lean variable: the tie fails closed)
						if _, known := fn.chanVars[l.Name]; !known && x.Tok == token.ASSIGN && fn.declChanVars[l.Name] {
							if fn.chanVars == nil {
								fn.chanVars = map[string]*stChan{}
							}
							fn.chanVars[l.Name] = &stChan{name: l.Name, elem: c.elem}
							return []string{fmt.Sprintf("%slet mut %s := %d", p, id(l.Name), c.idx)}
						}
						if cv, ok := fn.chanVars[l.Name]; ok && x.Tok == token.ASSIGN {
							if cv.elem != c.elem {
								sfail(st, "channel variable assigned a channel of another element type")
							}
							return []string{fmt.Sprintf("%s%s := %d", p, id(l.Name), c.idx)}
						}
					}
				}
			}
		}
		if len(x.Rhs) == 1 {
			if out, ok := fn.bindApply(x.Lhs, x.Rhs[0], depth); ok {
				return out
			}
			if len(x.Lhs) == 1 {
				if i, ok := x.Lhs[0].(*ast.Ident); ok && i.Name == fn.stateVar && fn.stateVar != "" {
					switch x.Tok {
					case token.ASSIGN:
						return []string{fmt.Sprintf("%ssetS %s", p, fn.val(x.Rhs[0], true))}
					case token.SUB_ASSIGN:
						return []string{fmt.Sprintf("%ssetS ((← getS) - %s)", p, fn.val(x.Rhs[0], true))}
					case token.ADD_ASSIGN:
						return []string{fmt.Sprintf("%ssetS ((← getS) + %s)", p, fn.val(x.Rhs[0], true))}
					}
				}
			}
		}
	case *ast.IfStmt:
		return fn.ifStmt(x, depth, last)
	case *ast.SwitchStmt:
		// a tagless switch is an if-chain
		if x.Tag == nil && x.Init == nil {
			var chain ast.Stmt
			cls := x.Body.List
			for k := len(cls) - 1; k >= 0; k-- {
				cc := cls[k].(*ast.CaseClause)
				for _, b := range cc.Body {
					if br, ok := b.(*ast.BranchStmt); ok && (br.Tok == token.FALLTHROUGH || br.Tok == token.BREAK) {
						sfail(b, "switch: fallthrough / break are not supported")
					}
				}
				if cc.List == nil {
					if k != len(cls)-1 {
						sfail(cc, "switch: default must be the last clause")
					}
					chain = &ast.BlockStmt{List: cc.Body}
					continue
				}
				if len(cc.List) != 1 {
					sfail(cc, "switch: one condition per case")
				}
				is := &ast.IfStmt{If: cc.Pos(), Cond: cc.List[0], Body: &ast.BlockStmt{Lbrace: cc.Pos(), List: cc.Body}}
				if chain != nil {
					is.Else = chain
				}
				chain = is
			}
			switch c := chain.(type) {
			case *ast.IfStmt:
				return fn.ifStmt(c, depth, last)
			case *ast.BlockStmt:
				return fn.block(c.List, depth, last)
			}
			return nil
		}
	case *ast.SelectStmt:
		var send *ast.SendStmt
		var sendBody, doneBody, defBody, recvBody []ast.Stmt
		hasDone, hasDef := false, false
		recvArm := ""
		for _, cl := range x.Body.List {
			cc := cl.(*ast.CommClause)
			switch c := cc.Comm.(type) {
			case nil:
				hasDef, defBody = true, cc.Body
			case *ast.SendStmt:
				if send != nil {
					sfail(st, "select with two send arms")
				}
				send, sendBody = c, cc.Body
			case *ast.ExprStmt:
				if fn.timed && !isCtxDone(c.X) && recvArm == "" {
					if u, ok := c.X.(*ast.UnaryExpr); ok && u.Op == token.ARROW {
						if r, n, args, ok := callName(u.X); ok && r == "time" && n == "After" && len(args) == 1 {
							recvArm, recvBody = "afterSel "+fn.val(args[0], true), cc.Body
							continue
						}
						if ci, _ := fn.chanIdxOpt(u.X); ci != "" {
							recvArm, recvBody = "recvSel "+ci, cc.Body
							continue
						}
					}
				}
				if !isCtxDone(c.X) || hasDone {
					sfail(st, "unsupported select arm %s", src(c))
				}
				hasDone, doneBody = true, cc.Body
			default:
				sfail(st, "unsupported select arm %s", src(cc.Comm))
			}
		}
		switch {
		case recvArm != "" && send == nil && hasDone && !hasDef:
			if len(recvBody) != 0 || !isBareReturn(doneBody, fn.inHelper) {
				sfail(st, "select{recv|Done}: the receive arm must be empty and the Done arm a bare return")
			}
			return []string{p + recvArm}
		case recvArm != "":
			sfail(st, "unsupported select shape")
		case send != nil && hasDone && !hasDef:
			if len(sendBody) != 0 || !isBareReturn(doneBody, fn.inCatch || fn.inHelper) {
				sfail(st, "select{send|Done}: the send arm must be empty and the Done arm a bare return")
			}
			ci, ch := fn.chanIdx(send.Chan)
			return []string{fmt.Sprintf("%sselSend %s %s", p, ci, fn.inj(ch, fn.val(send.Value, true)))}
		case send == nil && hasDone && hasDef:
			if len(defBody) != 0 || !isBareReturn(doneBody, false) || fn.inCatch {
				sfail(st, "poll: unsupported arms")
			}
			if !last {
				sfail(st, "a ctx.Done poll is only supported as the last statement of the loop body")
			}
			return []string{p + "pollDone"}
		}
		sfail(st, "unsupported select shape")
	}
	sfail(st, "unsupported statement %s", src(st))
	return nil
}

// sel-send helpers: unexported top-level functions of the exact shape
//
//	func h[..](ctx context.Context, ch chan<- T, v T) bool { select { case ch <- v: return true; case <-ctx.Done(): return false } }
//
// (found by a pre-scan of the file); `if !h(ctx, ch, v) { return }` is then the same `selSend ch v` as the inlined select.
var selHelpers = map[string]bool{}

func scanSelHelpers(f *ast.File) {
	for _, d := range f.Decls {
		fd, ok := d.(*ast.FuncDecl)
		if !ok || fd.Recv != nil || fd.Name.IsExported() || fd.Body == nil || len(fd.Body.List) != 1 {
			continue
		}
		ps := []string{}
		for _, p := range fd.Type.Params.List {
			for _, n := range p.Names {
				ps = append(ps, n.Name)
			}
		}
		if len(ps) != 3 || ps[0] != "ctx" || fd.Type.Results == nil || len(fd.Type.Results.List) != 1 || src(fd.Type.Results.List[0].Type) != "bool" {
			continue
		}
		sel, ok := fd.Body.List[0].(*ast.SelectStmt)
		if !ok || len(sel.Body.List) != 2 {
			continue
		}
		okSend, okDone := false, false
		for _, cl := range sel.Body.List {
			cc := cl.(*ast.CommClause)
			if len(cc.Body) != 1 {
				continue
			}
			r, isRet := cc.Body[0].(*ast.ReturnStmt)
			if !isRet || len(r.Results) != 1 {
				continue
			}
			switch c := cc.Comm.(type) {
			case *ast.SendStmt:
				if src(c.Chan) == ps[1] && src(c.Value) == ps[2] && src(r.Results[0]) == "true" {
					okSend = true
				}
			case *ast.ExprStmt:
				if isCtxDone(c.X) && src(r.Results[0]) == "false" {
					okDone = true
				}
			}
		}
		if okSend && okDone {
			selHelpers[fd.Name.Name] = true
		}
	}
}

// !h(ctx, ch, v)  for a sel-send helper h
func (fn *stFn) selHelperCall(e ast.Expr) (ch, v ast.Expr, ok bool) {
	c, isCall := e.(*ast.CallExpr)
	if !isCall || len(c.Args) != 3 {
		return
	}
	h, isId := c.Fun.(*ast.Ident)
	if !isId || !selHelpers[h.Name] || src(c.Args[0]) != "ctx" {
		return
	}
	return c.Args[1], c.Args[2], true
}

func (fn *stFn) ifStmt(x *ast.IfStmt, depth int, last bool) []string {
	p := ind(depth)
	out := []string{}
	if x.Init != nil {
		as, ok := x.Init.(*ast.AssignStmt)
		if !ok || len(as.Rhs) != 1 {
			sfail(x.Init, "unsupported if-initialiser %s", src(x.Init))
		}
		b, ok := fn.bindApply(as.Lhs, as.Rhs[0], depth)
		if !ok {
			sfail(x.Init, "unsupported if-initialiser %s", src(x.Init))
		}
		out = append(out, b...)
	}
	elseLines := func() []string {
		switch e := x.Else.(type) {
		case nil:
			return nil
		case *ast.BlockStmt:
			return append([]string{p + "else"}, fn.block(e.List, depth+1, last)...)
		case *ast.IfStmt:
			return append([]string{p + "else"}, fn.ifStmt(e, depth+1, last)...)
		}
		sfail(x.Else, "unsupported else")
		return nil
	}
	if u, ok := x.Cond.(*ast.UnaryExpr); ok && u.Op == token.NOT {
		// if !f.catch(ctx, err, exx) { return }
		if cc, ok := fn.catchCall(u.X); ok {
			if x.Else != nil || !isBareReturn(x.Body.List, false) {
				sfail(x, "a failed catch must be followed by a bare return")
			}
			return append(out, p+"if !(← "+cc+") then", ind(depth+1)+"ret")
		}
		// if !send(ctx, ch, v) { return }   (sel-send helper)
		if ch, v, ok := fn.selHelperCall(u.X); ok {
			if x.Else != nil || !isBareReturn(x.Body.List, false) || fn.inCatch {
				sfail(x, "a failed guarded send must be followed by a bare return")
			}
			ci, c := fn.chanIdx(ch)
			return append(out, fmt.Sprintf("%sselSend %s %s", p, ci, fn.inj(c, fn.val(v, true))))
		}
		// if !h(args…) { return }  for an unexported guard helper of the same file: its body is inlined, `return false`
		// being the goroutine's return and the final `return true` the fall-through
		if call, ok := u.X.(*ast.CallExpr); ok && !fn.inCatch && !fn.inHelper && x.Else == nil && isBareReturn(x.Body.List, false) {
			if hb := resolveCall(currentFile, call, true); hb != nil && len(hb.List) > 0 {
				// a helper that is one select whose communication arm ends with `return true`
				if sel, ok := hb.List[0].(*ast.SelectStmt); ok && len(hb.List) == 1 {
					n := 0
					for _, cl := range sel.Body.List {
						cc := cl.(*ast.CommClause)
						if len(cc.Body) == 1 {
							if r, ok := cc.Body[0].(*ast.ReturnStmt); ok && len(r.Results) == 1 && src(r.Results[0]) == "true" && cc.Comm != nil {
								cc.Body = nil
								n++
							}
						}
					}
					if n == 1 {
						fn.inHelper = true
						lines := fn.block(hb.List, depth, false)
						fn.inHelper = false
						return append(out, lines...)
					}
				}
				tail, ok := hb.List[len(hb.List)-1].(*ast.ReturnStmt)
				if ok && len(tail.Results) == 1 && src(tail.Results[0]) == "true" {
					fn.inHelper, fn.helperTail = true, tail
					lines := fn.block(hb.List[:len(hb.List)-1], depth, false)
					fn.inHelper, fn.helperTail = false, nil
					return append(out, lines...)
				}
			}
		}
	}
	// if f.catch(ctx, err, exx) { continue } ; return
	if cc, ok := fn.catchCall(x.Cond); ok {
		if x.Else != nil || len(x.Body.List) != 1 {
			sfail(x, "unsupported use of catch")
		}
		if br, ok := x.Body.List[0].(*ast.BranchStmt); !ok || br.Tok != token.CONTINUE || br.Label != nil {
			sfail(x, "unsupported use of catch")
		}
		fn.needRet = true
		return append(out, p+"if (← "+cc+") then", ind(depth+1)+"next")
	}
	if b, ok := x.Cond.(*ast.BinaryExpr); ok {
		// if err != nil && !f.catch(ctx, err, exx) { return }
		if b.Op == token.LAND {
			if l, ok := b.X.(*ast.BinaryExpr); ok && l.Op == token.NEQ && isNil(l.Y) {
				if i, ok := l.X.(*ast.Ident); ok && fn.errVars[i.Name] && !fn.boundErr[i.Name] {
					if u, ok := b.Y.(*ast.UnaryExpr); ok && u.Op == token.NOT {
						fn.boundErr[i.Name] = true
						cc, isCatch := fn.catchCall(u.X)
						delete(fn.boundErr, i.Name)
						if isCatch {
							if x.Else != nil || !isBareReturn(x.Body.List, false) {
								sfail(x, "a failed catch must be followed by a bare return")
							}
							return append(out, fmt.Sprintf("%sif let some %s := %s then", p, id(i.Name), id(i.Name)),
								ind(depth+1)+"if !(← "+cc+") then", ind(depth+2)+"ret")
						}
					}
				}
			}
		}
		// if err != nil { A } [else { B }]   /   if err == nil { A } else { B }: the branch with the non-nil error binds it
		if (b.Op == token.NEQ || b.Op == token.EQL) && isNil(b.Y) {
			if i, ok := b.X.(*ast.Ident); ok && fn.errVars[i.Name] && !fn.boundErr[i.Name] && (b.Op == token.NEQ || x.Else != nil) {
				some := func() []string {
					fn.boundErr[i.Name] = true
					defer delete(fn.boundErr, i.Name)
					if b.Op == token.NEQ {
						return fn.block(x.Body.List, depth+1, last && x.Else == nil)
					}
					switch e := x.Else.(type) {
					case *ast.BlockStmt:
						return fn.block(e.List, depth+1, last)
					case *ast.IfStmt:
						return fn.ifStmt(e, depth+1, last)
					}
					sfail(x.Else, "unsupported else")
					return nil
				}
				out = append(out, fmt.Sprintf("%sif let some %s := %s then", p, id(i.Name), id(i.Name)))
				out = append(out, some()...)
				if b.Op == token.NEQ {
					out = append(out, elseLines()...)
				} else {
					out = append(out, p+"else")
					out = append(out, fn.block(x.Body.List, depth+1, last)...)
				}
				return out
			}
		}
	}
	out = append(out, p+"if "+fn.cond(x.Cond, true)+" then")
	out = append(out, fn.block(x.Body.List, depth+1, last && x.Else == nil)...)
	return append(out, elseLines()...)
}

// ---------------------------------------------------------------- closures choosing a channel

func (fn *stFn) closure(name string, lit *ast.FuncLit) {
	params := []string{}
	saveB, saveE := map[string]bool{}, map[string]bool{}
	for k, v := range fn.boolVars {
		saveB[k] = v
	}
	for k, v := range fn.errVars {
		saveE[k] = v
	}
	for _, f := range lit.Type.Params.List {
		t, ok := f.Type.(*ast.Ident)
		if !ok {
			sfail(f, "closure parameter type %s", src(f.Type))
		}
		for _, n := range f.Names {
			switch t.Name {
			case "bool":
				params = append(params, fmt.Sprintf("(%s : Bool)", id(n.Name)))
				fn.boolVars[n.Name] = true
			case "error":
				params = append(params, fmt.Sprintf("(%s : Option ε)", id(n.Name)))
				fn.errVars[n.Name] = true
			default:
				sfail(f, "closure parameter type %s", src(f.Type))
			}
		}
	}
	// if c { return ch1 } … return chN
	expr := ""
	closeP := 0
	for i, st := range lit.Body.List {
		if i == len(lit.Body.List)-1 {
			r, ok := st.(*ast.ReturnStmt)
			if !ok || len(r.Results) != 1 {
				sfail(st, "closure must end with `return ch`")
			}
			ci, _ := fn.chanIdx(r.Results[0])
			expr += ci
			break
		}
		is, ok := st.(*ast.IfStmt)
		if !ok || is.Init != nil || is.Else != nil || len(is.Body.List) != 1 {
			sfail(st, "closure: unsupported statement %s", src(st))
		}
		r, ok := is.Body.List[0].(*ast.ReturnStmt)
		if !ok || len(r.Results) != 1 {
			sfail(st, "closure: unsupported statement %s", src(st))
		}
		ci, _ := fn.chanIdx(r.Results[0])
		expr += "(if " + fn.cond(is.Cond, false) + " then " + ci + " else "
		closeP++
	}
	expr += strings.Repeat(")", closeP)
	fn.boolVars, fn.errVars = saveB, saveE
	fn.closNames[name] = true
	fn.closures = append(fn.closures, fmt.Sprintf("let %s := fun %s => %s", id(name), strings.Join(params, " "), expr))
}

// `go worker(a1, …, an)` where worker is an unexported top-level function of the same file and every argument is a
// plain identifier: the goroutine body is the function's body with its parameters renamed to the arguments
// (a fresh parse of the file is renamed in place, so the caller's AST is not touched).
func resolveGoCall(path string, call *ast.CallExpr) *ast.BlockStmt {
	return resolveCall(path, call, false)
}

// wantBool: the callee must return exactly one bool (a guard helper used as `if !h(…) { return }`); otherwise nothing
func resolveCall(path string, call *ast.CallExpr, wantBool bool) *ast.BlockStmt {
	return resolveCallEx(path, call, wantBool, nil)
}

// after != nil: the statements of the caller that follow a `go h(args)`. A parameter the callee assigns is a copy of the
// argument; renaming it to the argument is still faithful when the caller never mentions that variable again.
func resolveCallEx(path string, call *ast.CallExpr, wantBool bool, after []ast.Stmt) *ast.BlockStmt {
	h, ok := call.Fun.(*ast.Ident)
	if !ok {
		return nil
	}
	args := []string{}
	for _, a := range call.Args {
		// `&wg`: a pointer to a local (methods are called on the pointer and on the variable alike)
		if u, ok := a.(*ast.UnaryExpr); ok && u.Op == token.AND {
			a = u.X
		}
		i, ok := a.(*ast.Ident)
		if !ok {
			return nil
		}
		args = append(args, i.Name)
	}
	f := parse(path)
	for _, d := range f.Decls {
		fd, ok := d.(*ast.FuncDecl)
		if !ok || fd.Recv != nil || fd.Name.Name != h.Name || fd.Name.IsExported() || fd.Body == nil {
			continue
		}
		if wantBool {
			if fd.Type.Results == nil || len(fd.Type.Results.List) != 1 || len(fd.Type.Results.List[0].Names) != 0 || src(fd.Type.Results.List[0].Type) != "bool" {
				return nil
			}
		} else if fd.Type.Results != nil && len(fd.Type.Results.List) != 0 {
			return nil
		}
		params := []string{}
		for _, p := range fd.Type.Params.List {
			for _, n := range p.Names {
				params = append(params, n.Name)
			}
		}
		if len(params) != len(args) {
			return nil
		}
		ren := map[string]string{}
		for k, pn := range params {
			ren[pn] = args[k]
		}
		// no local declaration may capture an argument name; parameters are not assigned (they are copies in Go)
		bad := false
		deadAfter := func(arg string) bool {
			if after == nil {
				return false
			}
			dead := true
			for _, s := range after {
				ast.Inspect(s, func(n ast.Node) bool {
					if i, ok := n.(*ast.Ident); ok && i.Name == arg {
						dead = false
					}
					return true
				})
			}
			return dead
		}
		isParam := map[string]bool{}
		for _, pn := range params {
			isParam[pn] = true
		}
		ast.Inspect(fd.Body, func(n ast.Node) bool {
			switch y := n.(type) {
			case *ast.AssignStmt:
				for _, l := range y.Lhs {
					if i, ok := l.(*ast.Ident); ok && isParam[i.Name] && !deadAfter(ren[i.Name]) {
						bad = true
					}
				}
			case *ast.IncDecStmt:
				if i, ok := y.X.(*ast.Ident); ok && isParam[i.Name] && !deadAfter(ren[i.Name]) {
					bad = true
				}
			case *ast.UnaryExpr:
				if y.Op == token.AND {
					if i, ok := y.X.(*ast.Ident); ok && isParam[i.Name] {
						bad = true
					}
				}
			}
			return true
		})
		ast.Inspect(fd.Body, func(n ast.Node) bool {
			if as, ok := n.(*ast.AssignStmt); ok && as.Tok == token.DEFINE {
				for _, l := range as.Lhs {
					if i, ok := l.(*ast.Ident); ok {
						for _, a := range args {
							if i.Name == a && ren[i.Name] == "" {
								bad = true
							}
						}
					}
				}
			}
			return true
		})
		if bad {
			return nil
		}
		ast.Inspect(fd.Body, func(n ast.Node) bool {
			if i, ok := n.(*ast.Ident); ok {
				if to, ok := ren[i.Name]; ok {
					i.Name = to
				}
			}
			return true
		})
		return fd.Body
	}
	return nil
}

var currentFile string

// true when the go.mod next to (or above) the translated file asks for go >= 1.22 (loop variables are per iteration)
var goPerIterationLoopVars bool

func detectGoVersion(path string) {
	goPerIterationLoopVars = false
	dir := filepath.Dir(path)
	for i := 0; i < 6; i++ {
		b, err := os.ReadFile(filepath.Join(dir, "go.mod"))
		if err == nil {
			for _, l := range strings.Split(string(b), "\n") {
				f := strings.Fields(l)
				if len(f) == 2 && f[0] == "go" {
					p := strings.Split(f[1], ".")
					if len(p) >= 2 {
						maj, _ := strconv.Atoi(p[0])
						min, _ := strconv.Atoi(p[1])
						goPerIterationLoopVars = maj > 1 || (maj == 1 && min >= 22)
					}
				}
			}
			return
		}
		dir = filepath.Dir(dir)
	}
}

// ---------------------------------------------------------------- one stage function

func chanElemOfType(e ast.Expr) (ast.Expr, bool, bool) { // elem, isChan, variadic
	variadic := false
	if el, ok := e.(*ast.Ellipsis); ok {
		e, variadic = el.Elt, true
	}
	c, ok := e.(*ast.ChanType)
	if !ok {
		return nil, false, variadic
	}
	return c.Value, true, variadic
}

func callName(e ast.Expr) (recv, name string, args []ast.Expr, ok bool) {
	c, isCall := e.(*ast.CallExpr)
	if !isCall {
		return
	}
	switch f := c.Fun.(type) {
	case *ast.Ident:
		return "", f.Name, c.Args, true
	case *ast.SelectorExpr:
		if r, isId := f.X.(*ast.Ident); isId {
			return r.Name, f.Sel.Name, c.Args, true
		}
	}
	return
}

func (fn *stFn) capExpr(e ast.Expr) string {
	switch x := e.(type) {
	case *ast.BasicLit:
		if x.Kind == token.INT {
			return x.Value
		}
	case *ast.Ident:
		if x.Name == fn.parName && fn.parName != "" {
			return "par"
		}
	case *ast.CallExpr:
		if r, n, args, ok := callName(x); ok && r == "" && len(args) == 1 {
			if a, ok := args[0].(*ast.Ident); ok && a.Name == fn.inName {
				if n == "cap" && !fn.variadic {
					return "inCap"
				}
				if n == "len" && fn.variadic {
					return "nIn"
				}
			}
		}
	case *ast.BinaryExpr:
		if x.Op == token.ADD || x.Op == token.MUL || x.Op == token.SUB {
			return "(" + fn.capExpr(x.X) + " " + x.Op.String() + " " + fn.capExpr(x.Y) + ")"
		}
	}
	sfail(e, "unsupported capacity expression %s", src(e))
	return ""
}

type stWorker struct {
	body    *ast.BlockStmt
	param   string // per-input closure parameter
	workers string // one | par | perInput
}

func stage(fd *ast.FuncDecl) string {
	fd = prepass(currentFile, fd)
	fn := &stFn{fd: fd, name: fd.Name.Name, chans: map[string]*stChan{}, boundErr: map[string]bool{}, errVars: map[string]bool{},
		boolVars: map[string]bool{}, valVars: map[string]string{}, closNames: map[string]bool{}, tyMap: map[string]string{}}
	tps := typeParams(fd)
	lt := []string{"α", "β"}
	if len(tps) > 2 {
		sfail(fd, "more than two type parameters")
	}
	for i, t := range tps {
		fn.tyMap[t] = lt[i]
	}
	// parameters
	for _, p := range fd.Type.Params.List {
		for _, n := range p.Names {
			if el, isChan, variadic := chanElemOfType(p.Type); isChan {
				if fn.inName != "" {
					sfail(p, "two input channels")
				}
				fn.inName, fn.variadic = n.Name, variadic
				if leanTy(fn, el) != "α" {
					sfail(p, "input element type is not the first type parameter")
				}
				continue
			}
			ts := src(p.Type)
			switch {
			case ts == "context.Context":
				if n.Name != "ctx" {
					sfail(p, "context parameter must be called ctx")
				}
			case ts == "int" && n.Name == "par":
				fn.parName = "par"
			case ts == "int":
				if fn.nName != "" {
					sfail(p, "two int parameters")
				}
				fn.nName = n.Name
			case strings.HasPrefix(ts, "F["), strings.HasPrefix(ts, "FF["):
				ix, ok := p.Type.(*ast.IndexListExpr)
				if !ok || len(ix.Indices) != 2 {
					sfail(p, "unsupported morphism type %s", ts)
				}
				fn.fName = n.Name
				fn.fKind = ts[:strings.Index(ts, "[")]
				fn.fResTy = leanTy(fn, ix.Indices[1])
			case strings.HasPrefix(ts, "monoid.Monoid["):
				fn.monoid = n.Name
			default:
				sfail(p, "unsupported parameter %s %s", n.Name, ts)
			}
		}
	}
	if fn.inName == "" {
		sfail(fd, "no input channel")
	}
	var early ast.Expr
	var earlyBody []ast.Stmt
	var worker *stWorker
	closures := map[string]*stWorker{}
	var closer []string
	closerKind := ""
	hasWG := false
	addArg := ""
	var retChans []string
	stmts := fd.Body.List
	// channel numbering: returned channels first (return order), then the others in order of creation
	if len(stmts) > 0 {
		if r, ok := stmts[len(stmts)-1].(*ast.ReturnStmt); ok {
			for _, e := range r.Results {
				if i, ok := e.(*ast.Ident); ok {
					retChans = append(retChans, i.Name)
				} else {
					sfail(e, "returns something that is not a channel made here")
				}
			}
		} else {
			sfail(fd, "function does not end with a return")
		}
	}
	made := []string{}
	for _, st := range stmts {
		if as, ok := st.(*ast.AssignStmt); ok && as.Tok == token.DEFINE && len(as.Lhs) == 1 && len(as.Rhs) == 1 {
			if r, n, _, ok := callName(as.Rhs[0]); ok && ((r == "" && n == "make") || n == "errch") {
				made = append(made, as.Lhs[0].(*ast.Ident).Name)
			}
		}
	}
	number := map[string]int{}
	for _, n := range retChans {
		if _, dup := number[n]; dup {
			sfail(fd, "channel returned twice")
		}
		number[n] = len(number)
	}
	for _, n := range made {
		if _, ok := number[n]; !ok {
			number[n] = len(number)
		}
	}
	for i := 0; i < len(stmts); i++ {
		st := stmts[i]
		switch x := st.(type) {
		case *ast.DeclStmt:
			if src(x) == "var wg sync.WaitGroup" {
				hasWG = true
				continue
			}
		case *ast.AssignStmt:
			// wg := new(sync.WaitGroup)  /  wg := &sync.WaitGroup{}
			if x.Tok == token.DEFINE && len(x.Lhs) == 1 && len(x.Rhs) == 1 && src(x.Lhs[0]) == "wg" &&
				(src(x.Rhs[0]) == "new(sync.WaitGroup)" || src(x.Rhs[0]) == "&sync.WaitGroup{}") {
				hasWG = true
				continue
			}
			if x.Tok == token.DEFINE && len(x.Lhs) == 1 && len(x.Rhs) == 1 {
				nm := x.Lhs[0].(*ast.Ident).Name
				if r, n, args, ok := callName(x.Rhs[0]); ok {
					if r == "" && n == "make" && (len(args) == 1 || len(args) == 2) {
						ct, ok := args[0].(*ast.ChanType)
						if !ok {
							sfail(st, "make of a non-channel")
						}
						c := &stChan{name: nm, elem: leanTy(fn, ct.Value), cap: "0", idx: number[nm]}
						if len(args) == 2 {
							c.cap = fn.capExpr(args[1])
						}
						fn.chans[nm] = c
						fn.order = append(fn.order, c)
						continue
					}
					if r == fn.fName && fn.fName != "" && n == "errch" && len(args) == 1 {
						c := &stChan{name: nm, elem: "ε", cap: "errch " + fn.capExpr(args[0]), idx: number[nm]}
						fn.chans[nm] = c
						fn.order = append(fn.order, c)
						continue
					}
				}
				if lit, ok := x.Rhs[0].(*ast.FuncLit); ok {
					// a closure choosing a channel, shared by the workers (it only reads its arguments and the channels)
					if lit.Type.Results != nil && len(lit.Type.Results.List) == 1 {
						if _, isChan, _ := chanElemOfType(lit.Type.Results.List[0].Type); isChan {
							fn.closure(nm, lit)
							continue
						}
					}
					w := &stWorker{body: lit.Body}
					if lit.Type.Params != nil && len(lit.Type.Params.List) == 1 && len(lit.Type.Params.List[0].Names) == 1 {
						if _, isChan, _ := chanElemOfType(lit.Type.Params.List[0].Type); isChan {
							w.param = lit.Type.Params.List[0].Names[0].Name
						} else {
							sfail(st, "worker closure parameter is not a channel")
						}
					} else if lit.Type.Params != nil && len(lit.Type.Params.List) != 0 {
						sfail(st, "unsupported worker closure signature")
					}
					closures[nm] = w
					continue
				}
			}
		case *ast.IfStmt:
			if x.Init == nil && x.Else == nil && early == nil && worker == nil {
				early, earlyBody = x.Cond, x.Body.List
				continue
			}
		case *ast.ExprStmt:
			if r, n, args, ok := callName(x.X); ok && r == "wg" && n == "Add" && len(args) == 1 && hasWG {
				addArg = src(args[0])
				continue
			}
		case *ast.ForStmt:
			// for i := 1; i <= par; i++ { go w() }      |      … { wg.Add(1); go w() }
			perWorkerAdd := false
			if worker == nil && len(x.Body.List) == 2 && src(x.Body.List[0]) == "wg.Add(1)" && addArg == "" && hasWG {
				perWorkerAdd = true
			}
			if worker == nil && (len(x.Body.List) == 1 || perWorkerAdd) {
				if g, ok := x.Body.List[len(x.Body.List)-1].(*ast.GoStmt); ok {
					var w *stWorker
					if h, ok := g.Call.Fun.(*ast.Ident); ok && closures[h.Name] != nil && len(g.Call.Args) == 0 {
						w = closures[h.Name]
					}
					// go func() { … }(): the worker written in place (the loop variable is not visible to it: no parameter)
					if lit, ok := g.Call.Fun.(*ast.FuncLit); ok && len(g.Call.Args) == 0 && (lit.Type.Params == nil || len(lit.Type.Params.List) == 0) {
						usesI := false
						cnt, _ := isParLoop(src(x.Init) + "; " + src(x.Cond) + "; " + src(x.Post))
						ast.Inspect(lit.Body, func(n ast.Node) bool {
							if i, ok := n.(*ast.Ident); ok && i.Name == cnt {
								usesI = true
							}
							return true
						})
						if !usesI {
							w = &stWorker{body: lit.Body}
						}
					}
					if w != nil {
						hd := src(x.Init) + "; " + src(x.Cond) + "; " + src(x.Post)
						if _, ok := isParLoop(hd); !ok {
							sfail(st, "worker start loop %q does not start exactly par workers", hd)
						}
						if addArg != "par" && !perWorkerAdd {
							sfail(st, "wg.Add(%s) does not match the par workers started", addArg)
						}
						if perWorkerAdd {
							addArg = "par" // one Add(1) per started worker, each before its `go`
						}
						worker = w
						worker.workers = "par"
						continue
					}
				}
			}
		case *ast.RangeStmt:
			// for _, c := range in { go w(c) }
			if worker == nil && len(x.Body.List) == 1 && fn.variadic && src(x.X) == fn.inName {
				if g, ok := x.Body.List[0].(*ast.GoStmt); ok {
					if h, ok := g.Call.Fun.(*ast.Ident); ok && closures[h.Name] != nil && len(g.Call.Args) == 1 {
						k, kok := x.Key.(*ast.Ident)
						v, vok := x.Value.(*ast.Ident)
						if !kok || !vok || k.Name != "_" || src(g.Call.Args[0]) != v.Name || x.Tok != token.DEFINE {
							sfail(st, "unsupported per-input start loop")
						}
						if addArg != "len("+fn.inName+")" {
							sfail(st, "wg.Add(%s) does not match the workers started", addArg)
						}
						worker = closures[h.Name]
						worker.workers = "perInput"
						continue
					}
				}
			}
			// for _, c := range in { wg.Add(1); go w(c) }   |   … { go func(c <-chan A) { … }(c) }
			if worker == nil && fn.variadic && src(x.X) == fn.inName && (len(x.Body.List) == 1 || len(x.Body.List) == 2) {
				k, kok := x.Key.(*ast.Ident)
				v, vok := x.Value.(*ast.Ident)
				g, gok := x.Body.List[len(x.Body.List)-1].(*ast.GoStmt)
				addOK := (len(x.Body.List) == 1 && addArg == "len("+fn.inName+")") ||
					(len(x.Body.List) == 2 && src(x.Body.List[0]) == "wg.Add(1)" && addArg == "" && hasWG)
				// go copyTo(ctx, wg, c, out): an unexported top-level worker; its channel parameter is the loop variable
				if kok && vok && gok && k.Name == "_" && x.Tok == token.DEFINE && addOK && len(g.Call.Args) >= 2 {
					uses := false
					for _, a := range g.Call.Args {
						if src(a) == v.Name {
							uses = true
						}
					}
					if uses {
						if bd := resolveGoCall(currentFile, g.Call); bd != nil {
							worker = &stWorker{body: bd, param: v.Name, workers: "perInput"}
							continue
						}
					}
				}
				if kok && vok && gok && k.Name == "_" && x.Tok == token.DEFINE && addOK && len(g.Call.Args) == 1 && src(g.Call.Args[0]) == v.Name {
					if h, ok := g.Call.Fun.(*ast.Ident); ok && closures[h.Name] != nil {
						worker = closures[h.Name]
						worker.workers = "perInput"
						continue
					}
					if lit, ok := g.Call.Fun.(*ast.FuncLit); ok && lit.Type.Params != nil && len(lit.Type.Params.List) == 1 && len(lit.Type.Params.List[0].Names) == 1 {
						if _, isChan, _ := chanElemOfType(lit.Type.Params.List[0].Type); isChan {
							worker = &stWorker{body: lit.Body, param: lit.Type.Params.List[0].Names[0].Name, workers: "perInput"}
							continue
						}
					}
				}
				// go func() { … c … }(): the literal captures the loop variable, which is a fresh variable per iteration
				// (the module's go directive is >= 1.22: checked by the caller of this family through goVersionOK)
				if kok && vok && gok && k.Name == "_" && x.Tok == token.DEFINE && addOK && len(g.Call.Args) == 0 && goPerIterationLoopVars {
					if lit, ok := g.Call.Fun.(*ast.FuncLit); ok && (lit.Type.Params == nil || len(lit.Type.Params.List) == 0) {
						worker = &stWorker{body: lit.Body, param: v.Name, workers: "perInput"}
						continue
					}
				}
			}
		case *ast.GoStmt:
			if lit, ok := x.Call.Fun.(*ast.FuncLit); ok && len(x.Call.Args) == 0 {
				b := lit.Body.List
				// `defer close(ch)…; wg.Wait()` is the same closer as `wg.Wait(); close(ch)…` (deferred closes run LIFO)
				if len(b) >= 2 && src(b[len(b)-1]) == "wg.Wait()" {
					allDefer := true
					re := []ast.Stmt{b[len(b)-1]}
					for k := len(b) - 2; k >= 0; k-- {
						d, ok := b[k].(*ast.DeferStmt)
						if !ok {
							allDefer = false
							break
						}
						re = append(re, &ast.ExprStmt{X: d.Call})
					}
					if allDefer {
						b = re
					}
				}
				if len(b) > 0 && src(b[0]) == "wg.Wait()" {
					// the closer may be started before the workers once the whole count has been added (wg.Add(total) precedes it)
					if (worker == nil && addArg == "") || closerKind != "" {
						sfail(st, "closer goroutine before the workers and before wg.Add, or two closers")
					}
					closerKind = "waitGroup"
					if fn.name == "Fold" && len(b) > 1 {
						plain := true
						for _, s := range b[1:] {
							if _, n, _, ok := callNameStmt(s); !ok || n != "close" {
								plain = false
							}
						}
						if !plain {
							closer = fn.collector(b[1:])
							continue
						}
					}
					for _, s := range b[1:] {
						_, n, args, ok := callNameStmt(s)
						if !ok || n != "close" || len(args) != 1 {
							sfail(s, "closer: unsupported statement %s", src(s))
						}
						ci, _ := fn.chanIdx(args[0])
						closer = append(closer, ci)
					}
					continue
				}
				if worker == nil && !hasWG {
					worker = &stWorker{body: lit.Body, workers: "one"}
					continue
				}
			}
			if worker == nil && !hasWG {
				if b := resolveGoCall(currentFile, x.Call); b != nil {
					worker = &stWorker{body: b, workers: "one"}
					continue
				}
			}
		case *ast.ReturnStmt:
			if i != len(stmts)-1 {
				sfail(st, "return before the end")
			}
			for _, r := range x.Results {
				id, ok := r.(*ast.Ident)
				if !ok || fn.chans[id.Name] == nil {
					sfail(r, "returns something that is not a channel made here")
				}
			}
			continue
		}
		sfail(st, "unsupported statement %s", src(st))
	}
	if worker == nil {
		sfail(fd, "no worker goroutine found")
	}
	if hasWG != (closerKind == "waitGroup") {
		sfail(fd, "WaitGroup without closer goroutine or the reverse")
	}
	if len(fn.order) != len(number) {
		sfail(fd, "channel bookkeeping: %d made, %d numbered", len(fn.order), len(number))
	}
	elems := map[string]bool{}
	for _, c := range fn.order {
		elems[c.elem] = true
	}
	switch {
	case len(elems) == 1:
		for e := range elems {
			fn.valTy = e
		}
	case len(elems) == 2 && elems["ε"]:
		fn.sumOut = true
		for e := range elems {
			if e != "ε" {
				fn.valTy = "(" + e + " ⊕ ε)"
			}
		}
	default:
		sfail(fd, "channels of more than one value type")
	}

	// ---- worker
	if worker.param != "" {
		fn.inName = worker.param
	}
	// deferred operations: one list per defer statement (source order inside it); they run in LIFO order of the defers
	type dop struct{ kind, ch, val string } // kind: send | close | done
	defers := [][]dop{}
	var loopBody []ast.Stmt
	var loopNode ast.Stmt
	wb := worker.body.List
	for i, st := range wb {
		switch x := st.(type) {
		case *ast.DeferStmt:
			if _, n, args, ok := callName(x.Call); ok {
				if r, _, _, _ := callName(x.Call); r == "" && n == "close" && len(args) == 1 && !hasWG {
					ci, _ := fn.chanIdx(args[0])
					defers = append(defers, []dop{{"close", ci, ""}})
					continue
				}
				if src(x.Call) == "wg.Done()" && hasWG {
					defers = append(defers, []dop{{"done", "", ""}})
					continue
				}
			}
			if lit, ok := x.Call.Fun.(*ast.FuncLit); ok && len(x.Call.Args) == 0 {
				ops := []dop{}
				for _, s := range lit.Body.List {
					if snd, ok := s.(*ast.SendStmt); ok {
						ci, ch := fn.chanIdx(snd.Chan)
						v, ok := snd.Value.(*ast.Ident)
						if !ok || v.Name != fn.stateVar || fn.stateVar == "" {
							sfail(s, "deferred send of something that is not the accumulator")
						}
						ops = append(ops, dop{"send", ci, fn.inj(ch, "s")})
						continue
					}
					if src(s) == "wg.Done()" && hasWG {
						ops = append(ops, dop{"done", "", ""})
						continue
					}
					if _, n, args, ok := callNameStmt(s); ok && n == "close" && len(args) == 1 && !hasWG {
						ci, _ := fn.chanIdx(args[0])
						ops = append(ops, dop{"close", ci, ""})
						continue
					}
					sfail(s, "deferred function: unsupported statement %s", src(s))
				}
				defers = append(defers, ops)
				continue
			}
		case *ast.DeclStmt:
			if gd, ok := x.Decl.(*ast.GenDecl); ok && gd.Tok == token.VAR {
				okAll := true
				for _, sp := range gd.Specs {
					if vs, ok := sp.(*ast.ValueSpec); !ok || len(vs.Values) != 0 {
						okAll = false
					} else if _, isChan := vs.Type.(*ast.ChanType); isChan {
						if fn.declChanVars == nil {
							fn.declChanVars = map[string]bool{}
						}
						for _, n := range vs.Names {
							fn.declChanVars[n.Name] = true
						}
					}
				}
				if okAll {
					continue
				}
			}
		case *ast.AssignStmt:
			if x.Tok == token.DEFINE && len(x.Lhs) == 1 && len(x.Rhs) == 1 {
				nm := x.Lhs[0].(*ast.Ident).Name
				if lit, ok := x.Rhs[0].(*ast.FuncLit); ok {
					fn.closure(nm, lit)
					continue
				}
				if r, n, args, ok := callName(x.Rhs[0]); ok && r == fn.monoid && fn.monoid != "" && n == "Empty" && len(args) == 0 && fn.stateVar == "" {
					fn.stateVar, fn.stateTy, fn.stateInit = nm, "α", "mEmpty"
					continue
				}
			}
		case *ast.RangeStmt:
			if i != len(wb)-1 {
				sfail(st, "statements after the worker loop")
			}
			if src(x.X) != fn.inName {
				sfail(x, "worker ranges over %s, not over the input", src(x.X))
			}
			if x.Value != nil {
				sfail(x, "two-variable range over a channel")
			}
			if x.Key != nil {
				fn.loopVar = x.Key.(*ast.Ident).Name
			}
			loopNode, loopBody = x, x.Body.List
			continue
		case *ast.ForStmt:
			// for { a, ok := <-in; if !ok { return }; BODY }   ==   for a = range in { BODY }
			if i == len(wb)-1 && x.Init == nil && x.Cond == nil && x.Post == nil && len(x.Body.List) >= 2 {
				as, ok1 := x.Body.List[0].(*ast.AssignStmt)
				gd, ok2 := x.Body.List[1].(*ast.IfStmt)
				if ok1 && ok2 && len(as.Lhs) == 2 && len(as.Rhs) == 1 && gd.Init == nil && gd.Else == nil {
					u, okU := as.Rhs[0].(*ast.UnaryExpr)
					if okU && u.Op == token.ARROW && src(u.X) == fn.inName && src(gd.Cond) == "!"+src(as.Lhs[1]) &&
						(isBareReturn(gd.Body.List, false) || (len(gd.Body.List) == 1 && src(gd.Body.List[0]) == "break")) {
						if v, ok := as.Lhs[0].(*ast.Ident); ok && v.Name != "_" {
							fn.loopVar = v.Name
						}
						// the second result must not be used again
						okName := src(as.Lhs[1])
						for _, rest := range x.Body.List[2:] {
							ast.Inspect(rest, func(n ast.Node) bool {
								if id, ok := n.(*ast.Ident); ok && id.Name == okName {
									sfail(rest, "the `ok` of the receive is used after its test")
								}
								return true
							})
						}
						loopNode, loopBody = x, x.Body.List[2:]
						continue
					}
				}
			}
		}
		sfail(st, "worker: unsupported statement %s", src(st))
	}
	if loopNode == nil {
		sfail(fd, "worker has no range loop")
	}
	// execution order of the deferred operations
	exec := []dop{}
	for k := len(defers) - 1; k >= 0; k-- {
		exec = append(exec, defers[k]...)
	}
	closesDef := []string{}
	final := []string{}
	nDone := 0
	for k, o := range exec {
		switch o.kind {
		case "send":
			if len(closesDef) != 0 || nDone != 0 {
				sfail(fd, "a deferred send runs after a deferred close / wg.Done()")
			}
			final = append(final, fmt.Sprintf("(%s, %s)", o.ch, o.val))
		case "close":
			closesDef = append(closesDef, o.ch)
		case "done":
			nDone++
			if k != len(exec)-1 {
				sfail(fd, "wg.Done() is not the last deferred operation")
			}
		}
	}
	if hasWG && nDone != 1 {
		sfail(fd, "worker calls wg.Done() %d times", nDone)
	}
	// the int parameter mutated in the loop is the loop-carried counter
	if fn.nName != "" && fn.stateVar == "" {
		fn.stateVar, fn.stateTy, fn.stateInit = fn.nName, "Int", "n"
	}
	body := fn.block(loopBody, 1, true)
	sigma := "Unit"
	initV := "()"
	switch {
	case fn.stateVar != "" && fn.ghost:
		sfail(fd, "both a loop-carried variable and dropped user calls")
	case fn.stateVar != "":
		sigma, initV = fn.stateTy, fn.stateInit
	case fn.ghost:
		sigma, initV = "List α", "[]"
	}

	// ---- emit
	var sb strings.Builder
	fmt.Fprintf(&sb, "namespace %s\n", fn.name)
	params := []string{}
	if fn.usesF {
		if fn.fKind == "F" {
			params = append(params, fmt.Sprintf("(%s : α → %s × Option ε)", id(fn.fName), fn.fResTy))
		} else {
			params = append(params, fmt.Sprintf("(%s : α → List %s × Option ε)", id(fn.fName), fn.fResTy))
		}
	}
	if fn.usesCatch {
		params = append(params, fmt.Sprintf("(«catch» : ε → Nat → BodyM %s %s Bool)", paren(sigma), fn.valTy))
	}
	if fn.usesComb {
		params = append(params, "(mCombine : α → α → α)")
	}
	fmt.Fprintf(&sb, "def body %s (a : α) : BodyM %s %s Unit := do\n", strings.Join(params, " "), paren(sigma), fn.valTy)
	for _, c := range fn.closures {
		fmt.Fprintf(&sb, "  %s\n", c)
	}
	for _, l := range body {
		sb.WriteString(l + "\n")
	}
	switch initV {
	case "n":
		fmt.Fprintf(&sb, "def init (n : Int) : Int := n\n")
	case "mEmpty":
		fmt.Fprintf(&sb, "def init (mEmpty : α) : α := mEmpty\n")
	default:
		fmt.Fprintf(&sb, "def init : %s := %s\n", sigma, initV)
	}
	fmt.Fprintf(&sb, "def final (s : %s) : List (Nat × %s) := [%s]\n", sigma, fn.valTy, strings.Join(final, ", "))
	caps := make([]string, len(fn.order))
	for _, c := range fn.order {
		caps[c.idx] = c.cap
	}
	closes := []string{}
	ck := "deferred"
	if closerKind == "waitGroup" {
		ck = "waitGroup"
		closes = closer
		if len(closesDef) != 0 {
			sfail(fd, "both deferred closes and a closer goroutine")
		}
	} else {
		closes = closesDef
	}
	fmt.Fprintf(&sb, "def cfg : Cfg := { workers := .%s, closer := .%s, caps := fun inCap par nIn errch => [%s], closes := [%s] }\n",
		worker.workers, ck, strings.Join(caps, ", "), strings.Join(closes, ", "))
	if early != nil {
		// if n <= 0 { close(out); return out }
		saveS := fn.stateVar
		fn.stateVar = ""
		fn.valVars[fn.nName] = "n"
		c := fn.cond(early, false)
		delete(fn.valVars, fn.nName)
		fn.stateVar = saveS
		ec := []string{}
		for j, s := range earlyBody {
			if j == len(earlyBody)-1 {
				r, ok := s.(*ast.ReturnStmt)
				if !ok || len(r.Results) != len(retChans) {
					sfail(s, "early exit must return the channels")
				}
				for k, e := range r.Results {
					if src(e) != retChans[k] {
						sfail(s, "early exit returns other channels than the normal exit")
					}
				}
				break
			}
			_, n, args, ok := callNameStmt(s)
			if !ok || n != "close" || len(args) != 1 {
				sfail(s, "early exit: unsupported statement %s", src(s))
			}
			ci, _ := fn.chanIdx(args[0])
			ec = append(ec, ci)
		}
		fmt.Fprintf(&sb, "def early (n : Int) : Bool := %s\n", c)
		fmt.Fprintf(&sb, "def earlyCloses : List Nat := [%s]\n", strings.Join(ec, ", "))
	}
	if fn.name == "Fold" && closerKind == "waitGroup" && len(fn.collectorOps) > 0 {
		fmt.Fprintf(&sb, "def collector : List CollOp := [%s]\n", strings.Join(fn.collectorOps, ", "))
	}
	fmt.Fprintf(&sb, "end %s\n\n", fn.name)
	return sb.String()
}

// collector of fork.Fold (after wg.Wait()):
//
//	acc := m.Empty(); for i := 1; i <= par; i++ { acc = m.Combine(acc, <-vals) }; done <- acc; close(vals); close(done)
//
// -> a list of CollOp facts (Model/StageDSL.lean); returns the close order
func (fn *stFn) collector(b []ast.Stmt) []string {
	closes := []string{}
	acc := ""
	for _, s := range b {
		switch x := s.(type) {
		case *ast.AssignStmt:
			if x.Tok == token.DEFINE && len(x.Lhs) == 1 && len(x.Rhs) == 1 && acc == "" {
				if r, n, args, ok := callName(x.Rhs[0]); ok && r == fn.monoid && n == "Empty" && len(args) == 0 {
					acc = x.Lhs[0].(*ast.Ident).Name
					fn.collectorOps = append(fn.collectorOps, ".accEmpty")
					continue
				}
			}
		case *ast.ForStmt:
			hd := src(x.Init) + "; " + src(x.Cond) + "; " + src(x.Post)
			body := x.Body.List
			// v := <-ch; acc = m.Combine(acc, v)   is   acc = m.Combine(acc, <-ch)
			if len(body) == 2 {
				if d, ok := body[0].(*ast.AssignStmt); ok && d.Tok == token.DEFINE && len(d.Lhs) == 1 && len(d.Rhs) == 1 {
					if u, ok := d.Rhs[0].(*ast.UnaryExpr); ok && u.Op == token.ARROW {
						if as, ok := body[1].(*ast.AssignStmt); ok && as.Tok == token.ASSIGN && len(as.Rhs) == 1 {
							if _, _, args, ok := callName(as.Rhs[0]); ok && len(args) == 2 && src(args[1]) == src(d.Lhs[0]) && src(args[0]) != src(d.Lhs[0]) {
								c2 := *as.Rhs[0].(*ast.CallExpr)
								c2.Args = []ast.Expr{args[0], u}
								body = []ast.Stmt{&ast.AssignStmt{Lhs: as.Lhs, Tok: as.Tok, Rhs: []ast.Expr{&c2}}}
							}
						}
					}
				}
			}
			if _, okp := isParLoop(hd); okp && len(body) == 1 && acc != "" {
				if as, ok := body[0].(*ast.AssignStmt); ok && as.Tok == token.ASSIGN && len(as.Lhs) == 1 && len(as.Rhs) == 1 && src(as.Lhs[0]) == acc {
					if r, n, args, ok := callName(as.Rhs[0]); ok && r == fn.monoid && n == "Combine" && len(args) == 2 && src(args[0]) == acc {
						if u, ok := args[1].(*ast.UnaryExpr); ok && u.Op == token.ARROW {
							ci, _ := fn.chanIdx(u.X)
							fn.collectorOps = append(fn.collectorOps, ".foldRecvPar "+ci)
							continue
						}
					}
				}
			}
		case *ast.RangeStmt:
			// for v := range vals { acc = m.Combine(acc, v) }
			if k, ok := x.Key.(*ast.Ident); ok && x.Value == nil && x.Tok == token.DEFINE && len(x.Body.List) == 1 && acc != "" {
				if as, ok := x.Body.List[0].(*ast.AssignStmt); ok && as.Tok == token.ASSIGN && len(as.Lhs) == 1 && len(as.Rhs) == 1 && src(as.Lhs[0]) == acc {
					if r, n, args, ok := callName(as.Rhs[0]); ok && r == fn.monoid && n == "Combine" && len(args) == 2 && src(args[0]) == acc && src(args[1]) == k.Name && k.Name != acc {
						ci, _ := fn.chanIdx(x.X)
						fn.collectorOps = append(fn.collectorOps, ".foldRange "+ci)
						continue
					}
				}
			}
		case *ast.SendStmt:
			if src(x.Value) == acc && acc != "" {
				ci, _ := fn.chanIdx(x.Chan)
				fn.collectorOps = append(fn.collectorOps, ".sendAcc "+ci)
				continue
			}
		case *ast.ExprStmt:
			if _, n, args, ok := callName(x.X); ok && n == "close" && len(args) == 1 {
				ci, _ := fn.chanIdx(args[0])
				fn.collectorOps = append(fn.collectorOps, ".close "+ci)
				closes = append(closes, ci)
				continue
			}
		}
		sfail(s, "collector: unsupported statement %s", src(s))
	}
	return closes
}

func paren(s string) string {
	if strings.Contains(s, " ") {
		return "(" + s + ")"
	}
	return s
}

func callNameStmt(s ast.Stmt) (string, string, []ast.Expr, bool) {
	e, ok := s.(*ast.ExprStmt)
	if !ok {
		return "", "", nil, false
	}
	return callName(e.X)
}

// ---------------------------------------------------------------- function.go

// method table of function.go: own methods, methods promoted from embedded (anonymous) struct fields, and one-line
// delegations `return X{}.m(args…)` / `return r.field.m(args…)` / `return r.Embedded.m(args…)` to the method of the
// same name of another type of the file with the parameters passed on in order: the effective declaration of T.m
type catchEntry struct {
	tn string
	fd *ast.FuncDecl
}

func recvTypeName(fd *ast.FuncDecl) string {
	if fd.Recv == nil || len(fd.Recv.List) != 1 {
		return ""
	}
	rt := fd.Recv.List[0].Type
	if s, ok := rt.(*ast.StarExpr); ok {
		rt = s.X
	}
	switch ix := rt.(type) {
	case *ast.IndexListExpr:
		rt = ix.X
	case *ast.IndexExpr:
		rt = ix.X
	}
	if tn, ok := rt.(*ast.Ident); ok {
		return tn.Name
	}
	return ""
}

func typeExprName(e ast.Expr) string {
	switch x := e.(type) {
	case *ast.Ident:
		return x.Name
	case *ast.IndexExpr:
		return typeExprName(x.X)
	case *ast.IndexListExpr:
		return typeExprName(x.X)
	case *ast.StarExpr:
		return typeExprName(x.X)
	}
	return ""
}

func catchEntries(f *ast.File) []catchEntry {
	methods := map[string]map[string]*ast.FuncDecl{}
	fieldType := map[string]map[string]string{} // struct type -> field name (or embedded type name) -> type name
	embeds := map[string][]string{}
	order := []string{}
	seen := map[string]bool{}
	note := func(t string) {
		if t != "" && !seen[t] {
			seen[t] = true
			order = append(order, t)
		}
	}
	for _, d := range f.Decls {
		switch x := d.(type) {
		case *ast.FuncDecl:
			if t := recvTypeName(x); t != "" {
				if methods[t] == nil {
					methods[t] = map[string]*ast.FuncDecl{}
				}
				methods[t][x.Name.Name] = x
				note(t)
			}
		case *ast.GenDecl:
			if x.Tok != token.TYPE {
				continue
			}
			for _, sp := range x.Specs {
				ts := sp.(*ast.TypeSpec)
				st, ok := ts.Type.(*ast.StructType)
				if !ok {
					continue
				}
				fieldType[ts.Name.Name] = map[string]string{}
				for _, fl := range st.Fields.List {
					tn := typeExprName(fl.Type)
					if len(fl.Names) == 0 {
						embeds[ts.Name.Name] = append(embeds[ts.Name.Name], tn)
						fieldType[ts.Name.Name][tn] = tn
					}
					for _, n := range fl.Names {
						fieldType[ts.Name.Name][n.Name] = tn
					}
				}
				note(ts.Name.Name)
			}
		}
	}
	var lookup func(t, m string, depth int) *ast.FuncDecl
	lookup = func(t, m string, depth int) *ast.FuncDecl {
		if depth > 3 {
			return nil
		}
		if fd := methods[t][m]; fd != nil {
			return fd
		}
		for _, e := range embeds[t] {
			if fd := lookup(e, m, depth+1); fd != nil {
				return fd
			}
		}
		return nil
	}
	// delegation: the body is `return <recv-ish>.m(p1, …, pk)` with exactly the parameters in order
	var effective func(t, m string, depth int) *ast.FuncDecl
	effective = func(t, m string, depth int) *ast.FuncDecl {
		fd := lookup(t, m, 0)
		if fd == nil || depth > 3 || fd.Body == nil || len(fd.Body.List) != 1 {
			return fd
		}
		r, ok := fd.Body.List[0].(*ast.ReturnStmt)
		if !ok || len(r.Results) != 1 {
			return fd
		}
		call, ok := r.Results[0].(*ast.CallExpr)
		if !ok {
			return fd
		}
		sel, ok := call.Fun.(*ast.SelectorExpr)
		if !ok || sel.Sel.Name != m {
			return fd
		}
		params := []string{}
		for _, p := range fd.Type.Params.List {
			for _, n := range p.Names {
				params = append(params, n.Name)
			}
		}
		if len(params) != len(call.Args) {
			return fd
		}
		for i, a := range call.Args {
			if id, ok := a.(*ast.Ident); !ok || id.Name != params[i] {
				return fd
			}
		}
		target := ""
		switch x := sel.X.(type) {
		case *ast.CompositeLit: // abort{}.catch(…)
			if len(x.Elts) == 0 {
				target = typeExprName(x.Type)
			}
		case *ast.SelectorExpr: // r.field.catch(…)
			if id, ok := x.X.(*ast.Ident); ok && len(fd.Recv.List[0].Names) == 1 && id.Name == fd.Recv.List[0].Names[0].Name {
				target = fieldType[recvTypeName(fd)][x.Sel.Name]
			}
		}
		if target == "" || lookup(target, m, 0) == nil {
			return fd
		}
		return effective(target, m, depth+1)
	}
	out := []catchEntry{}
	for _, t := range order {
		for _, m := range []string{"errch", "pipef", "catch"} {
			if fd := effective(t, m, 0); fd != nil {
				out = append(out, catchEntry{t, fd})
			}
		}
	}
	return out
}

func catchFamily(f *ast.File) string {
	var sb strings.Builder
	for _, ent := range catchEntries(f) {
		fd := ent.fd
		tn := ast.NewIdent(ent.tn)
		func() {
			defer func() {
				if r := recover(); r != nil {
					if u, ok := r.(stReject); ok {
						fmt.Fprintf(&sb, "-- %s.%s: untranslatable: %s\n\n", tn.Name, fd.Name.Name, u.msg)
						rejected = append(rejected, tn.Name+"."+fd.Name.Name+": "+u.msg)
						return
					}
					panic(r)
				}
			}()
			switch fd.Name.Name {
			case "errch":
				// return make(chan error, <cap | 1>)
				if len(fd.Body.List) != 1 {
					sfail(fd, "errch: not a single return")
				}
				r, ok := fd.Body.List[0].(*ast.ReturnStmt)
				if !ok || len(r.Results) != 1 {
					sfail(fd, "errch: not a single return")
				}
				_, n, args, ok := callName(r.Results[0])
				if !ok || n != "make" || len(args) != 2 || src(args[0]) != "chan error" {
					sfail(fd, "errch: expected `return make(chan error, c)`")
				}
				pn := "_"
				if len(fd.Type.Params.List) == 1 && len(fd.Type.Params.List[0].Names) == 1 {
					pn = fd.Type.Params.List[0].Names[0].Name
				}
				var c string
				switch a := args[1].(type) {
				case *ast.BasicLit:
					c = a.Value
				case *ast.Ident:
					if a.Name != pn || pn == "_" {
						sfail(fd, "errch: capacity %s", a.Name)
					}
					c = "cap"
				default:
					sfail(fd, "errch: capacity %s", src(args[1]))
				}
				fmt.Fprintf(&sb, "def %s_errch (cap : Nat) : Nat := %s\n\n", tn.Name, c)
			case "pipef":
				// return pipe.Lift(f) | pipe.Try(f)
				if len(fd.Body.List) != 1 {
					sfail(fd, "pipef: not a single return")
				}
				r, ok := fd.Body.List[0].(*ast.ReturnStmt)
				if !ok || len(r.Results) != 1 {
					sfail(fd, "pipef: not a single return")
				}
				rc, n, args, ok := callName(r.Results[0])
				recv := ""
				if len(fd.Recv.List[0].Names) == 1 {
					recv = fd.Recv.List[0].Names[0].Name
				}
				if !ok || rc != "pipe" || len(args) != 1 || (src(args[0]) != recv && !strings.HasPrefix(src(args[0]), recv+".")) {
					sfail(fd, "pipef: expected `return pipe.X(f)`")
				}
				fmt.Fprintf(&sb, "def %s_pipef : String := %q\n\n", tn.Name, "pipe."+n)
			case "catch":
				fn := &stFn{fd: fd, name: tn.Name + ".catch", chans: map[string]*stChan{}, boundErr: map[string]bool{"err": true}, errVars: map[string]bool{"err": true},
					boolVars: map[string]bool{}, valVars: map[string]string{}, closNames: map[string]bool{}, tyMap: map[string]string{}, inCatch: true, sumOut: true}
				ps := []string{}
				for _, p := range fd.Type.Params.List {
					for _, n := range p.Names {
						ps = append(ps, n.Name+" "+src(p.Type))
					}
				}
				sig := strings.Join(ps, ", ")
				if sig != "ctx context.Context, err error, exx chan<- error" && sig != "_ context.Context, err error, exx chan<- error" {
					sfail(fd, "catch: unexpected signature (%s)", sig)
				}
				stmts := fd.Body.List
				// `return h(args…)` for an unexported bool helper of the same file: the helper's body, parameters renamed
				if len(stmts) == 1 {
					if r, ok := stmts[0].(*ast.ReturnStmt); ok && len(r.Results) == 1 {
						if call, ok := r.Results[0].(*ast.CallExpr); ok {
							if hb := resolveCall(currentFile, call, true); hb != nil {
								stmts = hb.List
							}
						}
					}
				}
				// `select { case exx <- err: return true; case <-ctx.Done(): return false }`  ==  the same select with an empty
				// send arm, followed by `return true`
				if len(stmts) == 1 {
					if sel, ok := stmts[0].(*ast.SelectStmt); ok && len(sel.Body.List) == 2 {
						n := 0
						for _, cl := range sel.Body.List {
							cc := cl.(*ast.CommClause)
							if _, isSend := cc.Comm.(*ast.SendStmt); isSend && len(cc.Body) == 1 {
								if r, ok := cc.Body[0].(*ast.ReturnStmt); ok && len(r.Results) == 1 && src(r.Results[0]) == "true" {
									cc.Body = nil
									n++
								}
							}
						}
						if n == 1 {
							stmts = append(stmts, &ast.ReturnStmt{Results: []ast.Expr{&ast.Ident{Name: "true"}}})
						}
					}
				}
				body := fn.block(stmts, 1, false)
				fmt.Fprintf(&sb, "def %s_catch (err : ε) (exx : Nat) : %s σ (β ⊕ ε) Bool := do\n%s\n\n", tn.Name, monadName, strings.Join(body, "\n"))
			}
		}()
	}
	return sb.String()
}

var rejected []string

// monad the catch methods are emitted in (BodyM for the stages family, BodyT for the sources family)
var monadName = "BodyM"

func stagesFamily(files []string) string {
	if len(files) != 2 {
		panic(untranslatable{"stages: expected <function.go> <stage file>"})
	}
	ns := "Pipe"
	if strings.Contains(files[1], "/fork/") {
		ns = "Fork"
	}
	var sb strings.Builder
	sb.WriteString(header(strings.Join(files, " ")))
	sb.WriteString("import Golem.Model.StageDSL\nset_option linter.unusedVariables false\n")
	fmt.Fprintf(&sb, "namespace Golem.Gen.%s\nopen Golem.Go Golem.Model.DSL\n\nvariable {σ α β ε : Type}\n\n", ns)
	currentFile = files[0]
	detectGoVersion(files[1])
	sb.WriteString(catchFamily(parse(files[0])))
	f := parse(files[1])
	currentFile = files[1]
	scanSelHelpers(f)
	for _, d := range f.Decls {
		fd, ok := d.(*ast.FuncDecl)
		if !ok || fd.Recv != nil || !fd.Name.IsExported() || fd.Body == nil {
			continue
		}
		// one-line wrappers: return pkg.F(args…)
		if len(fd.Body.List) == 1 {
			if r, ok := fd.Body.List[0].(*ast.ReturnStmt); ok && len(r.Results) == 1 {
				c, ok := r.Results[0].(*ast.CallExpr)
				if ok {
					// only a call into another package is a wrapper (`return pipe.X(args…)`); `return helper(…)` of this package
					// is the stage itself, written with a helper: the pre-pass inlines it
					if _, qualified := c.Fun.(*ast.SelectorExpr); !qualified {
						ok = false
					}
				}
				if ok {
					args := []string{}
					for _, a := range c.Args {
						args = append(args, fmt.Sprintf("%q", src(a)))
					}
					if c.Ellipsis != token.NoPos {
						args[len(args)-1] = fmt.Sprintf("%q", src(c.Args[len(c.Args)-1])+"...")
					}
					fmt.Fprintf(&sb, "def %s.delegate : String × List String := (%q, [%s])\n\n", fd.Name.Name, src(c.Fun), strings.Join(args, ", "))
					continue
				}
			}
		}
		hasIn := false
		for _, p := range fd.Type.Params.List {
			if _, isChan, _ := chanElemOfType(p.Type); isChan {
				hasIn = true
			}
		}
		if !hasIn || stageSkip[fd.Name.Name] {
			fmt.Fprintf(&sb, "-- %s: not a consumer stage (modelled elsewhere)\n\n", fd.Name.Name)
			continue
		}
		func() {
			defer func() {
				if r := recover(); r != nil {
					if u, ok := r.(stReject); ok {
						fmt.Fprintf(&sb, "-- %s: untranslatable: %s\n\n", fd.Name.Name, u.msg)
						rejected = append(rejected, fd.Name.Name+": "+u.msg)
						return
					}
					panic(r)
				}
			}()
			sb.WriteString(stage(fd))
		}()
	}
	q := []string{}
	for _, r := range rejected {
		q = append(q, fmt.Sprintf("%q", r))
	}
	fmt.Fprintf(&sb, "def rejected : List String := [%s]\n\nend Golem.Gen.%s\n", strings.Join(q, ", "), ns)
	return sb.String()
}

// stages with their own network models (Go/Throttle, Go/Sources) or no goroutine of interest
var stageSkip = map[string]bool{"Throttling": true, "ToSeq": true, "StdErr": true}
