package main

import (
	"fmt"
	"go/ast"
	"go/parser"
	"go/token"
	"regexp"
	"strings"
)

// every parameter and the result have the form func(X) Y
func funcShaped(fd *ast.FuncDecl) bool {
	one := func(e ast.Expr) bool {
		ft, ok := e.(*ast.FuncType)
		return ok && ft.Params != nil && len(ft.Params.List) == 1 && len(ft.Params.List[0].Names) <= 1 && ft.Results != nil && len(ft.Results.List) == 1
	}
	if fd.Type.Params == nil || len(fd.Type.Params.List) == 0 || fd.Type.Results == nil || len(fd.Type.Results.List) != 1 || !one(fd.Type.Results.List[0].Type) {
		return false
	}
	for _, p := range fd.Type.Params.List {
		if !one(p.Type) {
			return false
		}
	}
	return true
}

// family pipen: internal/pipe/pipe.go
//
//	func PipeN[A, B, ... any](ab func(A) B, ...) func(A) Z {
//		return func(a A) Z { return yz(...bc(ab(a))...) }
//	}
//
// becomes, for an arbitrary monad m,
//
//	def PipeN {A B ... : Type} (ab : A → m B) ... : A → m Z := fun a => do
//	  let t1 ← ab a
//	  ...
//	  yz tk
func init() { families["pipen"] = pipen }

var pipeName = regexp.MustCompile(`^Pipe([0-9]*)$`)

func funcType(e ast.Expr, what string) (string, string) {
	ft, ok := e.(*ast.FuncType)
	if !ok || ft.Params == nil || len(ft.Params.List) != 1 || len(ft.Params.List[0].Names) > 1 ||
		ft.Results == nil || len(ft.Results.List) != 1 || len(ft.Results.List[0].Names) > 0 {
		fail(fset.Position(e.Pos()), "%s: expected func(X) Y, got %s", what, src(e))
	}
	a, ok1 := ft.Params.List[0].Type.(*ast.Ident)
	b, ok2 := ft.Results.List[0].Type.(*ast.Ident)
	if !ok1 || !ok2 {
		fail(fset.Position(e.Pos()), "%s: expected func(X) Y over type parameters, got %s", what, src(e))
	}
	return a.Name, b.Name
}

func pipen(files []string) string {
	var sb strings.Builder
	sb.WriteString(header(strings.Join(files, " ")))
	sb.WriteString("namespace Golem.Gen.PipeN\n\nvariable {m : Type → Type} [Monad m]\n\n")
	digest := []string{}
	count := 0
	for _, path := range files {
		f := parse(path)
		expandExprMacros(f, nil)
		// the functions a body may delegate to: every Pipe*, and unexported helpers whose parameters and result are
		// all of the form func(X) Y over their type parameters (e.g. `compose`)
		known := map[string]bool{}
		decls := []*ast.FuncDecl{}
		for pass := 0; pass < 2; pass++ { // helpers first: Lean wants definitions before their uses
			for _, d := range f.Decls {
				fd, ok := d.(*ast.FuncDecl)
				if !ok || fd.Recv != nil || fd.Body == nil {
					continue
				}
				isPipe := pipeName.MatchString(fd.Name.Name)
				if isPipe != (pass == 1) {
					continue
				}
				if !isPipe && (fd.Name.IsExported() || !funcShaped(fd)) {
					continue
				}
				known[fd.Name.Name] = true
				decls = append(decls, fd)
			}
		}
		for _, fd := range decls {
			if pipeName.MatchString(fd.Name.Name) {
				count++
			}
			tps := typeParams(fd)
			isTP := map[string]bool{}
			for _, t := range tps {
				isTP[t] = true
			}
			params := []string{}
			scope := map[string]bool{}
			isParam := map[string]bool{}
			for _, p := range fd.Type.Params.List {
				x, y := funcType(p.Type, fd.Name.Name)
				if !isTP[x] || !isTP[y] {
					fail(fset.Position(p.Pos()), "%s: parameter type is not over the type parameters", fd.Name.Name)
				}
				for _, n := range p.Names {
					params = append(params, fmt.Sprintf("(%s : %s → m %s)", id(n.Name), x, y))
					scope[n.Name] = true
					isParam[n.Name] = true
				}
			}
			if fd.Type.Results == nil || len(fd.Type.Results.List) != 1 {
				fail(fset.Position(fd.Pos()), "%s: expected one result", fd.Name.Name)
			}
			rx, ry := funcType(fd.Type.Results.List[0].Type, fd.Name.Name)
			foldLocalClosures(fd)
			methodValueToClosure(f, fd)
			ret0 := singleReturn(fd.Body, fd.Name.Name)
			lit, ok := ret0.(*ast.FuncLit)
			if !ok {
				// `return h(e1, …, en)`: a function-valued expression built from the parameters and calls of known
				// functions of this file (each call of such a function only BUILDS a function; nothing runs yet)
				var fexpr func(e ast.Expr) string
				fexpr = func(e ast.Expr) string {
					switch x := e.(type) {
					case *ast.ParenExpr:
						return fexpr(x.X)
					case *ast.Ident:
						if isParam[x.Name] {
							return id(x.Name)
						}
					case *ast.CallExpr:
						var h *ast.Ident
						switch fx := x.Fun.(type) {
						case *ast.Ident:
							h = fx
						case *ast.IndexExpr: // explicit instantiation h[T](…)
							h, _ = fx.X.(*ast.Ident)
						case *ast.IndexListExpr:
							h, _ = fx.X.(*ast.Ident)
						}
						if h != nil && known[h.Name] && h.Name != fd.Name.Name && x.Ellipsis == token.NoPos {
							parts := []string{h.Name}
							for _, a := range x.Args {
								parts = append(parts, fexpr(a))
							}
							return "(" + strings.Join(parts, " ") + ")"
						}
					}
					fail(fset.Position(e.Pos()), "%s: expected `return func(a A) Z {...}` or a composition of the supplied functions, got %s", fd.Name.Name, src(e))
					return ""
				}
				fmt.Fprintf(&sb, "@[simp] def %s {%s : Type} %s : %s → m %s :=\n  %s\n\n", fd.Name.Name,
					strings.Join(tps, " "), strings.Join(params, " "), rx, ry, fexpr(ret0))
				digest = append(digest, fmt.Sprintf("-- %s := %s", fd.Name.Name, src(ret0)))
				continue
			}
			// a named result `func(a A) (c C) { …; c = E; return }` is `func(a A) C { …; return E }`
			if rl := lit.Type.Results; rl != nil && len(rl.List) == 1 && len(rl.List[0].Names) == 1 && lit.Body != nil && len(lit.Body.List) >= 2 {
				rn := rl.List[0].Names[0].Name
				n := len(lit.Body.List)
				as, ok1 := lit.Body.List[n-2].(*ast.AssignStmt)
				rt, ok2 := lit.Body.List[n-1].(*ast.ReturnStmt)
				mentioned := 0
				ast.Inspect(lit.Body, func(x ast.Node) bool {
					if i, ok := x.(*ast.Ident); ok && i.Name == rn {
						mentioned++
					}
					return true
				})
				if ok1 && ok2 && len(rt.Results) == 0 && as.Tok.String() == "=" && len(as.Lhs) == 1 && len(as.Rhs) == 1 && src(as.Lhs[0]) == rn && mentioned == 1 {
					lit.Body.List = append(lit.Body.List[:n-2], &ast.ReturnStmt{Results: []ast.Expr{as.Rhs[0]}})
					rl.List[0].Names = nil
				}
			}
			lx, ly := funcType(lit.Type, fd.Name.Name)
			if lx != rx || ly != ry || len(lit.Type.Params.List[0].Names) != 1 {
				fail(fset.Position(lit.Pos()), "%s: closure type differs from the declared result", fd.Name.Name)
			}
			arg := lit.Type.Params.List[0].Names[0].Name
			scope[arg] = true
			a := &anf{}
			a.atom = func(e ast.Expr) (string, bool) {
				if i, ok := e.(*ast.Ident); ok && scope[i.Name] {
					return id(i.Name), true
				}
				return "", false
			}
			a.head = func(e ast.Expr) string {
				if i, ok := e.(*ast.Ident); ok && isParam[i.Name] {
					return id(i.Name)
				}
				fail(fset.Position(e.Pos()), "%s: call head %s is not one of the supplied functions", fd.Name.Name, src(e))
				return ""
			}
			// accepted closure bodies: zero or more `x := <expr>` (single assignment of a fresh name) followed by
			// one `return <expr>`; each call becomes a bind in Go's evaluation order
			if lit.Body == nil || len(lit.Body.List) == 0 {
				fail(fset.Position(lit.Pos()), "%s closure: empty body", fd.Name.Name)
			}
			for _, st := range lit.Body.List[:len(lit.Body.List)-1] {
				as, ok := st.(*ast.AssignStmt)
				if !ok || as.Tok.String() != ":=" || len(as.Lhs) != 1 || len(as.Rhs) != 1 {
					fail(fset.Position(st.Pos()), "%s closure: only `x := e` statements may precede the return, got %s", fd.Name.Name, src(st))
				}
				name, ok := as.Lhs[0].(*ast.Ident)
				if !ok || scope[name.Name] || name.Name == "_" {
					fail(fset.Position(st.Pos()), "%s closure: `%s` does not introduce a fresh name", fd.Name.Name, src(st))
				}
				atom := a.expr(as.Rhs[0])
				a.binds = append(a.binds, fmt.Sprintf("let %s := %s", id(name.Name), atom))
				scope[name.Name] = true
			}
			rs, ok := lit.Body.List[len(lit.Body.List)-1].(*ast.ReturnStmt)
			if !ok || len(rs.Results) != 1 {
				fail(fset.Position(lit.Body.Pos()), "%s closure: body does not end in a single-value return", fd.Name.Name)
			}
			body := rs.Results[0]
			lines := a.ret(body)
			fmt.Fprintf(&sb, "@[simp] def %s {%s : Type} %s : %s → m %s := fun %s => do\n", fd.Name.Name,
				strings.Join(tps, " "), strings.Join(params, " "), rx, ry, id(arg))
			for _, l := range lines {
				sb.WriteString("  " + l + "\n")
			}
			sb.WriteString("\n")
			digest = append(digest, fmt.Sprintf("-- %s := %s", fd.Name.Name, src(body)))
		}
	}
	if count == 0 {
		panic(untranslatable{"no Pipe* function found"})
	}
	sb.WriteString("end Golem.Gen.PipeN\n\n-- digest (replay reports only)\n" + strings.Join(digest, "\n") + "\n")
	return sb.String()
}

// `h := func(p P) R { return E }` statements before the final return: every later call `h(x)` is E with p replaced by x
// (p occurs exactly once in E, so x is still evaluated once, at the same point of Go's evaluation order: E's calls
// around p's position are the ones that would have run before and after the call of h's body … they are the body).
func foldLocalClosures(fd *ast.FuncDecl) {
	for len(fd.Body.List) > 1 {
		as, ok := fd.Body.List[0].(*ast.AssignStmt)
		if !ok || as.Tok != token.DEFINE || len(as.Lhs) != 1 || len(as.Rhs) != 1 {
			return
		}
		name, ok := as.Lhs[0].(*ast.Ident)
		lit, ok2 := as.Rhs[0].(*ast.FuncLit)
		if !ok || !ok2 || lit.Type.Params == nil || len(lit.Type.Params.List) != 1 || len(lit.Type.Params.List[0].Names) != 1 || len(lit.Body.List) != 1 {
			return
		}
		r, ok := lit.Body.List[0].(*ast.ReturnStmt)
		if !ok || len(r.Results) != 1 {
			return
		}
		pn := lit.Type.Params.List[0].Names[0].Name
		occ := 0
		ast.Inspect(r.Results[0], func(n ast.Node) bool {
			if i, ok := n.(*ast.Ident); ok && i.Name == pn {
				occ++
			}
			return true
		})
		if occ != 1 {
			return
		}
		body := printNode(r.Results[0])
		rest := &ast.BlockStmt{List: fd.Body.List[1:]}
		bad := false
		mapExprs(rest, func(e ast.Expr) ast.Expr {
			c, ok := e.(*ast.CallExpr)
			if !ok {
				return e
			}
			h, ok := c.Fun.(*ast.Ident)
			if !ok || h.Name != name.Name {
				return e
			}
			if len(c.Args) != 1 {
				bad = true
				return e
			}
			cp, err := parser.ParseExprFrom(fset, name.Name+" (closure)", body, 0)
			if err != nil {
				bad = true
				return e
			}
			arg := c.Args[0]
			holder := &ast.ParenExpr{X: cp}
			mapExprs(holder, func(x ast.Expr) ast.Expr {
				if i, ok := x.(*ast.Ident); ok && i.Name == pn {
					return arg
				}
				return x
			})
			return holder.X
		})
		// any other mention of the closure (as a value) is not supported
		ast.Inspect(rest, func(n ast.Node) bool {
			if i, ok := n.(*ast.Ident); ok && i.Name == name.Name {
				bad = true
			}
			return true
		})
		if bad {
			return
		}
		fd.Body.List = rest.List
	}
}

// `return T[…]{e1, …, en}.m` (a method value on a struct literal; T a struct type of the file, m a method with a value or
// pointer receiver whose body is one `return E`) is `return func(params of m) R { return E[r.fi := ei] }`: the literal
// is an immutable copy of its elements, exactly what a closure capturing them is. The elements must be identifiers.
func methodValueToClosure(f *ast.File, fd *ast.FuncDecl) {
	if len(fd.Body.List) != 1 {
		return
	}
	r, ok := fd.Body.List[0].(*ast.ReturnStmt)
	if !ok || len(r.Results) != 1 {
		return
	}
	sel, ok := r.Results[0].(*ast.SelectorExpr)
	if !ok {
		return
	}
	cl, ok := sel.X.(*ast.CompositeLit)
	if !ok {
		return
	}
	tname := typeExprName(cl.Type)
	var st *ast.StructType
	for _, d := range f.Decls {
		if gd, ok := d.(*ast.GenDecl); ok && gd.Tok == token.TYPE {
			for _, sp := range gd.Specs {
				if ts := sp.(*ast.TypeSpec); ts.Name.Name == tname {
					st, _ = ts.Type.(*ast.StructType)
				}
			}
		}
	}
	if st == nil {
		return
	}
	fields := []string{}
	for _, fl := range st.Fields.List {
		if len(fl.Names) == 0 {
			return
		}
		for _, n := range fl.Names {
			fields = append(fields, n.Name)
		}
	}
	val := map[string]ast.Expr{}
	for i, el := range cl.Elts {
		if kv, ok := el.(*ast.KeyValueExpr); ok {
			k, ok := kv.Key.(*ast.Ident)
			if !ok {
				return
			}
			val[k.Name] = kv.Value
		} else if i < len(fields) {
			val[fields[i]] = el
		}
	}
	for _, fn := range fields {
		if _, isId := val[fn].(*ast.Ident); !isId {
			return
		}
	}
	for _, d := range f.Decls {
		md, ok := d.(*ast.FuncDecl)
		if !ok || md.Recv == nil || md.Name.Name != sel.Sel.Name || recvTypeName(md) != tname || md.Body == nil || len(md.Body.List) != 1 || len(md.Recv.List[0].Names) != 1 {
			continue
		}
		mr, ok := md.Body.List[0].(*ast.ReturnStmt)
		if !ok || len(mr.Results) != 1 {
			return
		}
		// a private copy of the method's result expression and type (receiver type parameters may be named differently:
		// only positional agreement with the literal's type arguments is accepted)
		rparams := []string{}
		rt := md.Recv.List[0].Type
		if s, ok := rt.(*ast.StarExpr); ok {
			rt = s.X
		}
		if il, ok := rt.(*ast.IndexListExpr); ok {
			for _, ix := range il.Indices {
				rparams = append(rparams, src(ix))
			}
		} else if ie, ok := rt.(*ast.IndexExpr); ok {
			rparams = append(rparams, src(ie.Index))
		}
		targs := []string{}
		if il, ok := cl.Type.(*ast.IndexListExpr); ok {
			for _, ix := range il.Indices {
				targs = append(targs, src(ix))
			}
		} else if ie, ok := cl.Type.(*ast.IndexExpr); ok {
			targs = append(targs, src(ie.Index))
		}
		if len(targs) != len(rparams) {
			return
		}
		tren := map[string]string{}
		for i := range targs {
			tren[rparams[i]] = targs[i]
		}
		lit, err := parser.ParseExprFrom(fset, md.Name.Name+" (method)", "func"+printNode(md.Type)[4:]+" { return "+printNode(mr.Results[0])+" }", 0)
		if err != nil {
			return
		}
		recv := md.Recv.List[0].Names[0].Name
		bad := false
		mapExprs(lit.(*ast.FuncLit).Body, func(e ast.Expr) ast.Expr {
			if s2, ok := e.(*ast.SelectorExpr); ok {
				if i, ok := s2.X.(*ast.Ident); ok && i.Name == recv {
					if v, ok := val[s2.Sel.Name]; ok {
						return ast.NewIdent(v.(*ast.Ident).Name)
					}
					bad = true
				}
			}
			return e
		})
		ast.Inspect(lit, func(n ast.Node) bool {
			if i, ok := n.(*ast.Ident); ok {
				if i.Name == recv {
					bad = true
				}
				if to, ok := tren[i.Name]; ok {
					i.Name = to
				}
			}
			return true
		})
		if bad {
			return
		}
		r.Results[0] = lit
		return
	}
}
