package main

import (
	"fmt"
	"go/ast"
	"regexp"
	"strings"
)

// family pipen: internal/pipe/pipe.go
//
//	func PipeN[A, B, ... any](ab func(A) B, ...) func(A) Z {
//		return func(a A) Z { return yz(...bc(ab(a))...) }
//	}
//
// becomes, for an arbitrary monad m,
//
//	def PipeN {A B ... : Type} (ab : A → m B) ... : A → m Z := fun a => do
//	  let t1 ← ab a
//	  ...
//	  yz tk
func init() { families["pipen"] = pipen }

var pipeName = regexp.MustCompile(`^Pipe([0-9]*)$`)

func funcType(e ast.Expr, what string) (string, string) {
	ft, ok := e.(*ast.FuncType)
	if !ok || ft.Params == nil || len(ft.Params.List) != 1 || len(ft.Params.List[0].Names) > 1 ||
		ft.Results == nil || len(ft.Results.List) != 1 || len(ft.Results.List[0].Names) > 0 {
		fail(fset.Position(e.Pos()), "%s: expected func(X) Y, got %s", what, src(e))
	}
	a, ok1 := ft.Params.List[0].Type.(*ast.Ident)
	b, ok2 := ft.Results.List[0].Type.(*ast.Ident)
	if !ok1 || !ok2 {
		fail(fset.Position(e.Pos()), "%s: expected func(X) Y over type parameters, got %s", what, src(e))
	}
	return a.Name, b.Name
}

func pipen(files []string) string {
	var sb strings.Builder
	sb.WriteString(header(strings.Join(files, " ")))
	sb.WriteString("namespace Golem.Gen.PipeN\n\nvariable {m : Type → Type} [Monad m]\n\n")
	digest := []string{}
	count := 0
	for _, path := range files {
		f := parse(path)
		for _, d := range f.Decls {
			fd, ok := d.(*ast.FuncDecl)
			if !ok || fd.Recv != nil || !pipeName.MatchString(fd.Name.Name) {
				continue
			}
			count++
			tps := typeParams(fd)
			isTP := map[string]bool{}
			for _, t := range tps {
				isTP[t] = true
			}
			params := []string{}
			scope := map[string]bool{}
			isParam := map[string]bool{}
			for _, p := range fd.Type.Params.List {
				x, y := funcType(p.Type, fd.Name.Name)
				if !isTP[x] || !isTP[y] {
					fail(fset.Position(p.Pos()), "%s: parameter type is not over the type parameters", fd.Name.Name)
				}
				for _, n := range p.Names {
					params = append(params, fmt.Sprintf("(%s : %s → m %s)", id(n.Name), x, y))
					scope[n.Name] = true
					isParam[n.Name] = true
				}
			}
			if fd.Type.Results == nil || len(fd.Type.Results.List) != 1 {
				fail(fset.Position(fd.Pos()), "%s: expected one result", fd.Name.Name)
			}
			rx, ry := funcType(fd.Type.Results.List[0].Type, fd.Name.Name)
			lit, ok := singleReturn(fd.Body, fd.Name.Name).(*ast.FuncLit)
			if !ok {
				fail(fset.Position(fd.Body.Pos()), "%s: expected `return func(a A) Z {...}`", fd.Name.Name)
			}
			lx, ly := funcType(lit.Type, fd.Name.Name)
			if lx != rx || ly != ry || len(lit.Type.Params.List[0].Names) != 1 {
				fail(fset.Position(lit.Pos()), "%s: closure type differs from the declared result", fd.Name.Name)
			}
			arg := lit.Type.Params.List[0].Names[0].Name
			scope[arg] = true
			a := &anf{}
			a.atom = func(e ast.Expr) (string, bool) {
				if i, ok := e.(*ast.Ident); ok && scope[i.Name] {
					return id(i.Name), true
				}
				return "", false
			}
			a.head = func(e ast.Expr) string {
				if i, ok := e.(*ast.Ident); ok && isParam[i.Name] {
					return id(i.Name)
				}
				fail(fset.Position(e.Pos()), "%s: call head %s is not one of the supplied functions", fd.Name.Name, src(e))
				return ""
			}
			// accepted closure bodies: zero or more `x := <expr>` (single assignment of a fresh name) followed by
			// one `return <expr>`; each call becomes a bind in Go's evaluation order
			if lit.Body == nil || len(lit.Body.List) == 0 {
				fail(fset.Position(lit.Pos()), "%s closure: empty body", fd.Name.Name)
			}
			for _, st := range lit.Body.List[:len(lit.Body.List)-1] {
				as, ok := st.(*ast.AssignStmt)
				if !ok || as.Tok.String() != ":=" || len(as.Lhs) != 1 || len(as.Rhs) != 1 {
					fail(fset.Position(st.Pos()), "%s closure: only `x := e` statements may precede the return, got %s", fd.Name.Name, src(st))
				}
				name, ok := as.Lhs[0].(*ast.Ident)
				if !ok || scope[name.Name] || name.Name == "_" {
					fail(fset.Position(st.Pos()), "%s closure: `%s` does not introduce a fresh name", fd.Name.Name, src(st))
				}
				atom := a.expr(as.Rhs[0])
				a.binds = append(a.binds, fmt.Sprintf("let %s := %s", id(name.Name), atom))
				scope[name.Name] = true
			}
			rs, ok := lit.Body.List[len(lit.Body.List)-1].(*ast.ReturnStmt)
			if !ok || len(rs.Results) != 1 {
				fail(fset.Position(lit.Body.Pos()), "%s closure: body does not end in a single-value return", fd.Name.Name)
			}
			body := rs.Results[0]
			lines := a.ret(body)
			fmt.Fprintf(&sb, "def %s {%s : Type} %s : %s → m %s := fun %s => do\n", fd.Name.Name,
				strings.Join(tps, " "), strings.Join(params, " "), rx, ry, id(arg))
			for _, l := range lines {
				sb.WriteString("  " + l + "\n")
			}
			sb.WriteString("\n")
			digest = append(digest, fmt.Sprintf("-- %s := %s", fd.Name.Name, src(body)))
		}
	}
	if count == 0 {
		panic(untranslatable{"no Pipe* function found"})
	}
	sb.WriteString("end Golem.Gen.PipeN\n\n-- digest (replay reports only)\n" + strings.Join(digest, "\n") + "\n")
	return sb.String()
}
