package main

import (
	"fmt"
	"go/ast"
	"regexp"
	"strings"
)

// family pipen: internal/pipe/pipe.go
//
//	func PipeN[A, B, ... any](ab func(A) B, ...) func(A) Z {
//		return func(a A) Z { return yz(...bc(ab(a))...) }
//	}
//
// becomes, for an arbitrary monad m,
//
//	def PipeN {A B ... : Type} (ab : A → m B) ... : A → m Z := fun a => do
//	  let t1 ← ab a
//	  ...
//	  yz tk
func init() { families["pipen"] = pipen }

var pipeName = regexp.MustCompile(`^Pipe([0-9]*)$`)

func funcType(e ast.Expr, what string) (string, string) {
	ft, ok := e.(*ast.FuncType)
	if !ok || ft.Params == nil || len(ft.Params.List) != 1 || len(ft.Params.List[0].Names) > 1 ||
		ft.Results == nil || len(ft.Results.List) != 1 || len(ft.Results.List[0].Names) > 0 {
		fail(fset.Position(e.Pos()), "%s: expected func(X) Y, got %s", what, src(e))
	}
	a, ok1 := ft.Params.List[0].Type.(*ast.Ident)
	b, ok2 := ft.Results.List[0].Type.(*ast.Ident)
	if !ok1 || !ok2 {
		fail(fset.Position(e.Pos()), "%s: expected func(X) Y over type parameters, got %s", what, src(e))
	}
	return a.Name, b.Name
}

func pipen(files []string) string {
	var sb strings.Builder
	sb.WriteString(header(strings.Join(files, " ")))
	sb.WriteString("namespace Golem.Gen.PipeN\n\nvariable {m : Type → Type} [Monad m]\n\n")
	digest := []string{}
	count := 0
	for _, path := range files {
		f := parse(path)
		for _, d := range f.Decls {
			fd, ok := d.(*ast.FuncDecl)
			if !ok || fd.Recv != nil || !pipeName.MatchString(fd.Name.Name) {
				continue
			}
			count++
			tps := typeParams(fd)
			isTP := map[string]bool{}
			for _, t := range tps {
				isTP[t] = true
			}
			params := []string{}
			scope := map[string]bool{}
			for _, p := range fd.Type.Params.List {
				x, y := funcType(p.Type, fd.Name.Name)
				if !isTP[x] || !isTP[y] {
					fail(fset.Position(p.Pos()), "%s: parameter type is not over the type parameters", fd.Name.Name)
				}
				for _, n := range p.Names {
					params = append(params, fmt.Sprintf("(%s : %s → m %s)", id(n.Name), x, y))
					scope[n.Name] = true
				}
			}
			if fd.Type.Results == nil || len(fd.Type.Results.List) != 1 {
				fail(fset.Position(fd.Pos()), "%s: expected one result", fd.Name.Name)
			}
			rx, ry := funcType(fd.Type.Results.List[0].Type, fd.Name.Name)
			lit, ok := singleReturn(fd.Body, fd.Name.Name).(*ast.FuncLit)
			if !ok {
				fail(fset.Position(fd.Body.Pos()), "%s: expected `return func(a A) Z {...}`", fd.Name.Name)
			}
			lx, ly := funcType(lit.Type, fd.Name.Name)
			if lx != rx || ly != ry || len(lit.Type.Params.List[0].Names) != 1 {
				fail(fset.Position(lit.Pos()), "%s: closure type differs from the declared result", fd.Name.Name)
			}
			arg := lit.Type.Params.List[0].Names[0].Name
			scope[arg] = true
			a := &anf{}
			a.atom = func(e ast.Expr) (string, bool) {
				if i, ok := e.(*ast.Ident); ok && scope[i.Name] {
					return id(i.Name), true
				}
				return "", false
			}
			a.head = func(e ast.Expr) string {
				if i, ok := e.(*ast.Ident); ok && scope[i.Name] && i.Name != arg {
					return id(i.Name)
				}
				fail(fset.Position(e.Pos()), "%s: call head %s is not one of the supplied functions", fd.Name.Name, src(e))
				return ""
			}
			body := singleReturn(lit.Body, fd.Name.Name+" closure")
			lines := a.ret(body)
			fmt.Fprintf(&sb, "def %s {%s : Type} %s : %s → m %s := fun %s => do\n", fd.Name.Name,
				strings.Join(tps, " "), strings.Join(params, " "), rx, ry, id(arg))
			for _, l := range lines {
				sb.WriteString("  " + l + "\n")
			}
			sb.WriteString("\n")
			digest = append(digest, fmt.Sprintf("-- %s := %s", fd.Name.Name, src(body)))
		}
	}
	if count == 0 {
		panic(untranslatable{"no Pipe* function found"})
	}
	sb.WriteString("end Golem.Gen.PipeN\n\n-- digest (replay reports only)\n" + strings.Join(digest, "\n") + "\n")
	return sb.String()
}
