package main

import (
	"fmt"
	"go/ast"
	"go/parser"
	"go/printer"
	"path/filepath"
	"strings"
)

// family gotext: <go file>  ->  Gen/<X>Text.lean
//
// The SYNTACTIC tie, used only where no semantic translation exists: the pointer-level queue (queue.go) and the three goroutine-free helpers of pipe.go.  Each listed function is printed
// by go/printer without comments, one trimmed non-empty line per list element:
//
//	def <fn> : List String := ["func New[T any](ctx context.Context, cap int) (<-chan T, chan<- T) {", "eg := make(chan T, cap)", …]
//
// Model/GoText.lean holds the text the hand-written models (Go/Unbound.lean, Model/Queue.lean, Model/Stages.seqChan/
// toSeq) were written against, statement by statement; `*_text` theorems state the equality.  ANY edit of these functions,
// including a harmless one, breaks the equality: the check then falls back to the enlarged lock-step search and
// reports `no-failing-input-found` when that finds nothing.
func init() { families["gotext"] = gotextFamily }

var gotextFns = map[string][]string{
	"queue.go": {"newq"},
	"pipe.go":  {"Seq", "ToSeq", "StdErr"},
}

func gotextFamily(files []string) string {
	var sb strings.Builder
	sb.WriteString(header(strings.Join(files, " ")))
	sb.WriteString("namespace Golem.Gen.PipeText\n\n")
	for _, path := range files {
		want := gotextFns[filepath.Base(path)]
		if want == nil {
			panic(untranslatable{"gotext: no function list for " + path})
		}
		// object resolution on: a local is told from a type or function of the same name by its declaration
		f, err := parser.ParseFile(fset, path, nil, 0)
		if err != nil {
			panic(untranslatable{err.Error()})
		}
		found := map[string]bool{}
		for _, d := range f.Decls {
			fd, ok := d.(*ast.FuncDecl)
			if !ok || fd.Recv != nil {
				continue
			}
			listed := false
			for _, w := range want {
				if w == fd.Name.Name {
					listed = true
				}
			}
			if !listed {
				continue
			}
			found[fd.Name.Name] = true
			normaliseIndexLoops(fd)
			fd = reparseResolved(fd) // names introduced by the rewrite get declaration objects too
			alphaNormalise(fd)
			var pb strings.Builder
			(&printer.Config{Mode: printer.RawFormat, Tabwidth: 1}).Fprint(&pb, fset, fd)
			lines := []string{}
			for _, l := range strings.Split(pb.String(), "\n") {
				l = strings.Join(strings.Fields(l), " ")
				if l != "" {
					lines = append(lines, fmt.Sprintf("%q", l))
				}
			}
			fmt.Fprintf(&sb, "def %s : List String := [\n  %s]\n\n", id(fd.Name.Name)+"_text", strings.Join(lines, ",\n  "))
		}
		for _, w := range want {
			if !found[w] {
				fmt.Fprintf(&sb, "-- %s: not found in %s\n\n", w, filepath.Base(path))
			}
		}
	}
	sb.WriteString("end Golem.Gen.PipeText\n")
	return sb.String()
}

// Canonical names: the type parameters, parameters and locals a function declares itself are renamed T0…, p0…, v0… in
// the order of their declarations (by declaration object, so `queue := &queue[A]{}` renames the variable, not the type).
// Two texts that differ only in the choice of these names print the same.
func alphaNormalise(fd *ast.FuncDecl) {
	names := map[*ast.Object]string{}
	nT, nP, nV := 0, 0, 0
	inside := func(o *ast.Object) bool { return o != nil && o.Pos() >= fd.Pos() && o.Pos() <= fd.End() }
	fields := func(fl *ast.FieldList, prefix string, n *int) {
		if fl == nil {
			return
		}
		for _, f := range fl.List {
			for _, id := range f.Names {
				if id.Obj != nil && id.Name != "_" && names[id.Obj] == "" {
					names[id.Obj] = fmt.Sprintf("%s%d", prefix, *n)
					*n++
				}
			}
		}
	}
	fields(fd.Type.TypeParams, "T", &nT)
	fields(fd.Type.Params, "p", &nP)
	fields(fd.Type.Results, "p", &nP)
	// locals, in source order of their declaring identifiers
	ast.Inspect(fd.Body, func(n ast.Node) bool {
		if id, ok := n.(*ast.Ident); ok && id.Obj != nil && id.Name != "_" && inside(id.Obj) && names[id.Obj] == "" &&
			(id.Obj.Kind == ast.Var || id.Obj.Kind == ast.Con) && id.Obj.Pos() == id.Pos() {
			names[id.Obj] = fmt.Sprintf("v%d", nV)
			nV++
		}
		return true
	})
	ast.Inspect(fd, func(n ast.Node) bool {
		if id, ok := n.(*ast.Ident); ok && id.Obj != nil {
			if to, ok := names[id.Obj]; ok {
				id.Name = to
			}
		}
		return true
	})
}

// print and parse again, WITH object resolution (names of other declarations of the package stay unresolved)
func reparseResolved(fd *ast.FuncDecl) *ast.FuncDecl {
	var sb strings.Builder
	sb.WriteString("package p\n\n")
	save := fd.Doc
	fd.Doc = nil
	err := printer.Fprint(&sb, fset, fd)
	fd.Doc = save
	if err != nil {
		return fd
	}
	f, err := parser.ParseFile(fset, fd.Name.Name+" (rewritten)", sb.String(), 0)
	if err != nil {
		return fd
	}
	for _, d := range f.Decls {
		if nd, ok := d.(*ast.FuncDecl); ok {
			return nd
		}
	}
	return fd
}
