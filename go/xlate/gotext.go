package main

import (
	"fmt"
	"go/ast"
	"go/printer"
	"path/filepath"
	"strings"
)

// family gotext: <go file>  ->  Gen/<X>Text.lean
//
// The SYNTACTIC tie, used only where no semantic translation exists: the pointer-level queue (queue.go) and the three goroutine-free helpers of pipe.go.  Each listed function is printed
// by go/printer without comments, one trimmed non-empty line per list element:
//
//	def <fn> : List String := ["func New[T any](ctx context.Context, cap int) (<-chan T, chan<- T) {", "eg := make(chan T, cap)", …]
//
// Model/GoText.lean holds the text the hand-written models (Go/Unbound.lean, Model/Queue.lean, Model/Stages.seqChan/
// toSeq) were written against, statement by statement; `*_text` theorems state the equality.  ANY edit of these functions,
// including a harmless one, breaks the equality: the check then falls back to the enlarged lock-step search and
// reports `no-failing-input-found` when that finds nothing.
func init() { families["gotext"] = gotextFamily }

var gotextFns = map[string][]string{
	"queue.go": {"newq"},
	"pipe.go":  {"Seq", "ToSeq", "StdErr"},
}

func gotextFamily(files []string) string {
	var sb strings.Builder
	sb.WriteString(header(strings.Join(files, " ")))
	sb.WriteString("namespace Golem.Gen.PipeText\n\n")
	for _, path := range files {
		want := gotextFns[filepath.Base(path)]
		if want == nil {
			panic(untranslatable{"gotext: no function list for " + path})
		}
		f := parse(path)
		found := map[string]bool{}
		for _, d := range f.Decls {
			fd, ok := d.(*ast.FuncDecl)
			if !ok || fd.Recv != nil {
				continue
			}
			listed := false
			for _, w := range want {
				if w == fd.Name.Name {
					listed = true
				}
			}
			if !listed {
				continue
			}
			found[fd.Name.Name] = true
			var pb strings.Builder
			(&printer.Config{Mode: printer.RawFormat, Tabwidth: 1}).Fprint(&pb, fset, fd)
			lines := []string{}
			for _, l := range strings.Split(pb.String(), "\n") {
				l = strings.Join(strings.Fields(l), " ")
				if l != "" {
					lines = append(lines, fmt.Sprintf("%q", l))
				}
			}
			fmt.Fprintf(&sb, "def %s : List String := [\n  %s]\n\n", id(fd.Name.Name)+"_text", strings.Join(lines, ",\n  "))
		}
		for _, w := range want {
			if !found[w] {
				fmt.Fprintf(&sb, "-- %s: not found in %s\n\n", w, filepath.Base(path))
			}
		}
	}
	sb.WriteString("end Golem.Gen.PipeText\n")
	return sb.String()
}
