package main

import (
	"fmt"
	"go/ast"
	"go/token"
	"strings"
)

// family sources:  pipe/function.go pipe/pipe.go  ->  Gen/PipeSources.lean
//
// `Emit`, `Unfold` and `Throttling`: goroutines whose outer loop is not a plain range over the input.
// Target language: Model/SourceDSL.lean (the loop-body monad of the stages plus sleep / recvSel / afterSel / forN).
//
//	func F[..](ctx, …) (<-chan X [, <-chan error]) {
//		ch := make(chan T, c) | ch := f.errch(c) …
//		go func() { defer close(ch)… ; [var …] ; LOOP }()      (one or two goroutines)
//		return ch…
//	}
//	LOOP ::= for i := 0; true; i++ { B }     index loop: `body (a : Nat)`, no loop-carried state
//	       | for { B }                        state loop: the parameter assigned in B (`seed`) is the loop-carried state
//	       | for a = range in { B }           range loop: `body (a : α)`
//
// Per goroutine k (in source order): `body<k>`, `closes<k>`; per function: `caps`.
func init() { families["sources"] = sourcesFamily }

var sourceFns = map[string]bool{"Emit": true, "Unfold": true, "Throttling": true}

func sourceFn(fd *ast.FuncDecl) string {
	fd = prepass(currentFile, fd)
	fn := &stFn{fd: fd, name: fd.Name.Name, chans: map[string]*stChan{}, boundErr: map[string]bool{}, errVars: map[string]bool{},
		boolVars: map[string]bool{}, valVars: map[string]string{}, closNames: map[string]bool{}, tyMap: map[string]string{},
		timed: true, durNames: map[string]bool{}}
	tps := typeParams(fd)
	if len(tps) != 1 {
		sfail(fd, "expected one type parameter")
	}
	fn.tyMap[tps[0]] = "α"
	fArg := ""
	for _, p := range fd.Type.Params.List {
		for _, n := range p.Names {
			ts := src(p.Type)
			switch {
			case ts == "context.Context":
				if n.Name != "ctx" {
					sfail(p, "context parameter must be called ctx")
				}
			case ts == "int" || ts == "time.Duration":
				fn.durNames[n.Name] = true
			case strings.HasPrefix(ts, "F["):
				ix, ok := p.Type.(*ast.IndexListExpr)
				if !ok || len(ix.Indices) != 2 {
					sfail(p, "unsupported morphism type %s", ts)
				}
				fn.fName, fn.fKind = n.Name, "F"
				fn.fResTy = leanTy(fn, ix.Indices[1])
				fArg = src(ix.Indices[0])
			case ts == tps[0]:
				// a value parameter of the element type: the seed
				fn.nName = n.Name
			default:
				if _, isChan, variadic := chanElemOfType(p.Type); isChan && !variadic && fn.inName == "" {
					fn.inName = n.Name
					continue
				}
				sfail(p, "unsupported parameter %s %s", n.Name, ts)
			}
		}
	}
	stmts := fd.Body.List
	if len(stmts) == 0 {
		sfail(fd, "empty body")
	}
	ret, ok := stmts[len(stmts)-1].(*ast.ReturnStmt)
	if !ok {
		sfail(fd, "function does not end with a return")
	}
	number := map[string]int{}
	for _, e := range ret.Results {
		i, ok := e.(*ast.Ident)
		if !ok {
			sfail(e, "returns something that is not a channel made here")
		}
		number[i.Name] = len(number)
	}
	type gor struct{ body *ast.BlockStmt }
	gors := []gor{}
	for sti, st := range stmts[:len(stmts)-1] {
		switch x := st.(type) {
		case *ast.AssignStmt:
			if x.Tok == token.DEFINE && len(x.Lhs) == 1 && len(x.Rhs) == 1 && len(gors) == 0 {
				nm := x.Lhs[0].(*ast.Ident).Name
				if _, ok := number[nm]; !ok {
					number[nm] = len(number)
				}
				if r, n, args, ok := callName(x.Rhs[0]); ok {
					capOf := func(e ast.Expr) string {
						if i, ok := e.(*ast.Ident); ok && fn.durNames[i.Name] {
							return id(i.Name)
						}
						if r, n, a, ok := callName(e); ok && r == "" && n == "cap" && len(a) == 1 && src(a[0]) == fn.inName && fn.inName != "" {
							return "cap"
						}
						sfail(e, "unsupported capacity expression %s", src(e))
						return ""
					}
					if r == "" && n == "make" && len(args) == 2 {
						ct, ok := args[0].(*ast.ChanType)
						if !ok {
							sfail(st, "make of a non-channel")
						}
						c := &stChan{name: nm, elem: leanTy(fn, ct.Value), cap: capOf(args[1]), idx: number[nm]}
						fn.chans[nm], fn.order = c, append(fn.order, c)
						continue
					}
					if r == fn.fName && fn.fName != "" && n == "errch" && len(args) == 1 {
						c := &stChan{name: nm, elem: "ε", cap: "errch " + capOf(args[0]), idx: number[nm]}
						fn.chans[nm], fn.order = c, append(fn.order, c)
						continue
					}
				}
			}
		case *ast.GoStmt:
			if lit, ok := x.Call.Fun.(*ast.FuncLit); ok && len(x.Call.Args) == 0 && (lit.Type.Params == nil || len(lit.Type.Params.List) == 0) {
				gors = append(gors, gor{lit.Body})
				continue
			}
			if b := resolveCallEx(currentFile, x.Call, false, stmts[sti+1:]); b != nil {
				gors = append(gors, gor{b})
				continue
			}
		}
		sfail(st, "unsupported statement %s", src(st))
	}
	if len(gors) == 0 || len(fn.order) != len(number) {
		sfail(fd, "no goroutine, or a returned channel that is not made here")
	}
	elems := map[string]bool{}
	for _, c := range fn.order {
		elems[c.elem] = true
	}
	switch {
	case len(elems) == 2 && elems["ε"] && elems["α"]:
		fn.sumOut, fn.valTy, fn.sumRight = true, "(α ⊕ ε)", "ε"
	case len(elems) == 2 && elems["Unit"] && elems["α"]:
		fn.sumOut, fn.valTy, fn.sumRight = true, "(α ⊕ Unit)", "Unit"
	default:
		sfail(fd, "unsupported combination of channel element types")
	}
	var sb strings.Builder
	fmt.Fprintf(&sb, "namespace %s\n", fn.name)
	allCloses := []string{}
	for k, g := range gors {
		closesRev := []string{}
		var loop ast.Stmt
		for i, st := range g.body.List {
			switch x := st.(type) {
			case *ast.DeferStmt:
				if _, n, args, ok := callName(x.Call); ok && n == "close" && len(args) == 1 {
					ci, _ := fn.chanIdx(args[0])
					closesRev = append(closesRev, ci)
					continue
				}
			case *ast.DeclStmt:
				if gd, ok := x.Decl.(*ast.GenDecl); ok && gd.Tok == token.VAR {
					okAll := true
					for _, sp := range gd.Specs {
						if vs, ok := sp.(*ast.ValueSpec); !ok || len(vs.Values) != 0 {
							okAll = false
						}
					}
					if okAll {
						continue
					}
				}
			case *ast.ForStmt, *ast.RangeStmt:
				if i == len(g.body.List)-1 {
					loop = st
					continue
				}
			}
			sfail(st, "goroutine %d: unsupported statement %s", k, src(st))
		}
		if loop == nil {
			sfail(g.body, "goroutine %d has no loop", k)
		}
		fn.loopVar, fn.stateVar, fn.stateTy = "", "", ""
		fn.usesF, fn.usesCatch = false, false
		var body []ast.Stmt
		elemParam, sigma, kind := "", "Unit", ""
		switch x := loop.(type) {
		case *ast.RangeStmt:
			if src(x.X) != fn.inName || fn.inName == "" || x.Value != nil || x.Key == nil {
				sfail(loop, "unsupported range loop")
			}
			fn.loopVar = x.Key.(*ast.Ident).Name
			elemParam, kind, body = "(a : α)", "range", x.Body.List
		case *ast.ForStmt:
			switch {
			case x.Init == nil && x.Cond == nil && x.Post == nil:
				// state loop: the element-typed parameter is the loop-carried state, if the body assigns it
				assigned := false
				ast.Inspect(x.Body, func(n ast.Node) bool {
					if as, ok := n.(*ast.AssignStmt); ok {
						for _, l := range as.Lhs {
							if i, ok := l.(*ast.Ident); ok && i.Name == fn.nName && fn.nName != "" {
								assigned = true
							}
						}
					}
					return true
				})
				if assigned {
					fn.stateVar, fn.stateTy, sigma = fn.nName, "α", "α"
				}
				kind, body = "state", x.Body.List
			case x.Init != nil && x.Post != nil && (x.Cond == nil || src(x.Cond) == "true"):
				in, ok1 := x.Init.(*ast.AssignStmt)
				po, ok2 := x.Post.(*ast.IncDecStmt)
				if !ok1 || !ok2 || in.Tok != token.DEFINE || len(in.Lhs) != 1 || src(in.Rhs[0]) != "0" || po.Tok != token.INC || src(po.X) != src(in.Lhs[0]) {
					sfail(loop, "unsupported index loop header")
				}
				if fArg != "int" {
					sfail(loop, "index loop over a function that does not take int")
				}
				fn.loopVar = src(in.Lhs[0])
				elemParam, kind, body = "(a : Nat)", "index", x.Body.List
			default:
				sfail(loop, "unsupported loop header")
			}
		}
		lines := fn.block(body, 1, true)
		ps := []string{}
		if fn.usesF {
			arg := "α"
			if kind == "index" {
				arg = "Nat"
			}
			ps = append(ps, fmt.Sprintf("(%s : %s → %s × Option ε)", id(fn.fName), arg, fn.fResTy))
		}
		if fn.usesCatch {
			ps = append(ps, fmt.Sprintf("(«catch» : ε → Nat → BodyT %s %s Bool)", sigma, fn.valTy))
		}
		used := map[string]bool{}
		for _, l := range lines {
			for d := range fn.durNames {
				if strings.Contains(l, " "+id(d)) {
					used[d] = true
				}
			}
		}
		for _, p := range fd.Type.Params.List { // declaration order
			for _, n := range p.Names {
				if used[n.Name] {
					ps = append(ps, fmt.Sprintf("(%s : Nat)", id(n.Name)))
				}
			}
		}
		if elemParam != "" {
			ps = append(ps, elemParam)
		}
		fmt.Fprintf(&sb, "/-- goroutine %d: %s loop -/\ndef body%d %s : BodyT %s %s Unit := do\n%s\n", k, kind, k, strings.Join(ps, " "), sigma, fn.valTy, strings.Join(lines, "\n"))
		fmt.Fprintf(&sb, "def loopKind%d : String := %q\n", k, kind)
		cl := []string{}
		for j := len(closesRev) - 1; j >= 0; j-- {
			cl = append(cl, closesRev[j])
		}
		allCloses = append(allCloses, "["+strings.Join(cl, ", ")+"]")
	}
	caps := make([]string, len(fn.order))
	for _, c := range fn.order {
		caps[c.idx] = c.cap
	}
	capsS := strings.Join(caps, ", ")
	fmt.Fprintf(&sb, "def cfg : SrcCfg := { caps := fun cap ops errch => [%s], closes := [%s] }\n", capsS, strings.Join(allCloses, ", "))
	fmt.Fprintf(&sb, "end %s\n\n", fn.name)
	return sb.String()
}

func sourcesFamily(files []string) string {
	if len(files) != 2 {
		panic(untranslatable{"sources: expected pipe/function.go pipe/pipe.go"})
	}
	monadName = "BodyT"
	var sb strings.Builder
	sb.WriteString(header(strings.Join(files, " ")))
	sb.WriteString("import Golem.Model.SourceDSL\nset_option linter.unusedVariables false\n")
	sb.WriteString("namespace Golem.Gen.PipeSrc\nopen Golem.Go Golem.Model Golem.Model.DSLT\n\nvariable {σ α β ε : Type}\n\n")
	currentFile = files[0]
	sb.WriteString(catchFamily(parse(files[0])))
	f := parse(files[1])
	currentFile = files[1]
	scanSelHelpers(f)
	for _, d := range f.Decls {
		fd, ok := d.(*ast.FuncDecl)
		if !ok || fd.Recv != nil || !sourceFns[fd.Name.Name] || fd.Body == nil {
			continue
		}
		func() {
			defer func() {
				if r := recover(); r != nil {
					if u, ok := r.(stReject); ok {
						fmt.Fprintf(&sb, "-- %s: untranslatable: %s\n\n", fd.Name.Name, u.msg)
						rejected = append(rejected, fd.Name.Name+": "+u.msg)
						return
					}
					panic(r)
				}
			}()
			sb.WriteString(sourceFn(fd))
		}()
	}
	q := []string{}
	for _, r := range rejected {
		q = append(q, fmt.Sprintf("%q", r))
	}
	fmt.Fprintf(&sb, "def rejected : List String := [%s]\n\nend Golem.Gen.PipeSrc\n", strings.Join(q, ", "))
	return sb.String()
}
