package main

import (
	"fmt"
	"go/ast"
	"go/token"
	"regexp"
	"strconv"
	"strings"
)

// family hseqarity ("reflective mode"): the arity-unrolled wiring of
//
//	hseq/hseq.go        New1..9, FMap1..9
//	optics/lens.go      ForProduct1..9
//	optics/reflector.go ForSpectrum1..9
//
// The behaviour of this code depends on its type arguments through reflect, so Go type
// parameters that are only ever used as type arguments become EXPLICIT arguments of type
// `GoType` (the descriptors of Model/Layout), and the generic primitives become the
// hand-modelled functions of Model/Hseq and Model/Lens:
//
//	New[T](names...)      hseqNew T names          ForType[A](seq)     forType seq A
//	NewLens[T, A]         newLens T A              NewReflector[T, A]  newReflector T A
//	ts[k]                 index ts k               attr[0:k]           sliceTo attr k
//
// Everything lives in `Except Panic`; every Go call is a bind in Go's evaluation order.
// Accepted bodies (anything else is untranslatable):
//
//	seq := New[T]();  return Seq[T]{ ForType[A](seq), ... }
//	return fa(ts[0]), fb(ts[1]), ...
//	var seq hseq.Seq[T]; if len(attr) == 0 { seq = e1 } else { seq = e2 }; return hseq.FMapN(seq, f, ...)
func init() { families["hseqarity"] = hseqArity }

var arityName = regexp.MustCompile(`^(New|FMap|ForProduct|ForSpectrum)([1-9])$`)

type hx struct {
	fn     string
	binds  []string
	n      int
	tps    map[string]bool // type parameters of the function being translated
	values map[string]bool // value identifiers in scope
}

func (h *hx) fresh() string { h.n++; return fmt.Sprintf("t%d", h.n) }

func (h *hx) bad(n ast.Node, why string) {
	fail(fset.Position(n.Pos()), "%s: %s: %s", h.fn, why, src(n))
}

// tyArg renders a type argument: it must be a type parameter of the enclosing function.
func (h *hx) tyArg(e ast.Expr) string {
	if i, ok := e.(*ast.Ident); ok && h.tps[i.Name] {
		return i.Name
	}
	h.bad(e, "type argument is not a type parameter")
	return ""
}

// instantiated splits f[T, A...] into the function name (package qualifier dropped) and type arguments.
func (h *hx) instantiated(e ast.Expr) (string, []string, bool) {
	var fun ast.Expr
	var targs []ast.Expr
	switch x := e.(type) {
	case *ast.IndexExpr:
		fun, targs = x.X, []ast.Expr{x.Index}
	case *ast.IndexListExpr:
		fun, targs = x.X, x.Indices
	default:
		fun = e
	}
	name := ""
	switch f := fun.(type) {
	case *ast.Ident:
		name = f.Name
	case *ast.SelectorExpr:
		if p, ok := f.X.(*ast.Ident); ok && (p.Name == "hseq" || p.Name == "optics") {
			name = f.Sel.Name
		}
	}
	if name == "" {
		return "", nil, false
	}
	out := []string{}
	for _, t := range targs {
		// distinguish ts[0] (value index) from F[T] (instantiation): a type argument is a type parameter
		if i, ok := t.(*ast.Ident); !ok || !h.tps[i.Name] {
			return "", nil, false
		}
		out = append(out, h.tyArg(t))
	}
	return name, out, true
}

// atom translates an expression to an atom, emitting binds for everything that can panic or is a call.
func (h *hx) atom(e ast.Expr) string {
	switch x := e.(type) {
	case *ast.ParenExpr:
		return h.atom(x.X)
	case *ast.Ident:
		if h.values[x.Name] {
			return id(x.Name)
		}
	case *ast.BasicLit:
		if x.Kind == token.INT {
			return x.Value
		}
	case *ast.CallExpr:
		t := h.fresh()
		h.binds = append(h.binds, fmt.Sprintf("let %s ← %s", t, h.call(x)))
		return t
	case *ast.SliceExpr:
		// attr[0:k]
		if lo, ok := x.Low.(*ast.BasicLit); ok && lo.Value == "0" && x.High != nil && !x.Slice3 {
			if hi, ok := x.High.(*ast.BasicLit); ok && hi.Kind == token.INT {
				t := h.fresh()
				h.binds = append(h.binds, fmt.Sprintf("let %s ← sliceTo %s %s", t, h.atom(x.X), hi.Value))
				return t
			}
		}
	case *ast.IndexExpr:
		// ts[k] with a literal k, or an instantiated function value NewLens[T]
		if k, ok := x.Index.(*ast.BasicLit); ok && k.Kind == token.INT {
			t := h.fresh()
			h.binds = append(h.binds, fmt.Sprintf("let %s ← index %s %s", t, h.atom(x.X), k.Value))
			return t
		}
		return h.funcValue(e)
	case *ast.IndexListExpr:
		return h.funcValue(e)
	case *ast.CompositeLit:
		// Seq[T]{e1, ..., en}: elements left to right
		if name, _, ok := h.instantiated(x.Type); ok && name == "Seq" {
			els := []string{}
			for _, el := range x.Elts {
				els = append(els, h.atom(el))
			}
			return "[" + strings.Join(els, ", ") + "]"
		}
	}
	h.bad(e, "unsupported expression")
	return ""
}

// funcValue: NewLens[T, A] / NewReflector[T, A] used as a value.
func (h *hx) funcValue(e ast.Expr) string {
	name, targs, ok := h.instantiated(e)
	if ok && len(targs) == 2 {
		switch name {
		case "NewLens":
			return fmt.Sprintf("(newLens %s %s)", targs[0], targs[1])
		case "NewReflector":
			return fmt.Sprintf("(newReflector %s %s)", targs[0], targs[1])
		}
	}
	h.bad(e, "unsupported function value")
	return ""
}

// call renders a call (not yet bound).
func (h *hx) call(c *ast.CallExpr) string {
	// len(x) is handled by cond only
	if i, ok := c.Fun.(*ast.Ident); ok && h.values[i.Name] {
		// fa(ts[0]): call of a function parameter
		if c.Ellipsis != token.NoPos || len(c.Args) != 1 {
			h.bad(c, "function parameter must be applied to one argument")
		}
		return id(i.Name) + " " + h.atom(c.Args[0])
	}
	name, targs, ok := h.instantiated(c.Fun)
	if !ok {
		h.bad(c, "unsupported call head")
	}
	switch {
	case name == "New":
		// New[T](names...): variadic; explicit arguments become a list, a spread slice is passed as is
		if len(targs) != 1 {
			h.bad(c, "New needs exactly its container type argument")
		}
		if c.Ellipsis != token.NoPos {
			if len(c.Args) != 1 {
				h.bad(c, "spread call with more than one argument")
			}
			return fmt.Sprintf("hseqNew %s %s", targs[0], h.atom(c.Args[0]))
		}
		els := []string{}
		for _, a := range c.Args {
			els = append(els, h.atom(a))
		}
		return fmt.Sprintf("hseqNew %s [%s]", targs[0], strings.Join(els, ", "))
	case name == "ForType":
		if len(targs) != 1 || len(c.Args) != 1 || c.Ellipsis != token.NoPos {
			h.bad(c, "ForType[A](seq) expected")
		}
		return fmt.Sprintf("forType %s %s", h.atom(c.Args[0]), targs[0])
	case arityName.MatchString(name):
		if c.Ellipsis != token.NoPos {
			h.bad(c, "variadic spread")
		}
		args := append([]string{}, targs...)
		for _, a := range c.Args {
			args = append(args, h.atom(a))
		}
		if strings.HasPrefix(name, "New") && len(c.Args) == 0 {
			return name + " " + strings.Join(args, " ")
		}
		return name + " " + strings.Join(args, " ")
	}
	h.bad(c, "call of a function outside the translated fragment")
	return ""
}

// block translates an expression into a do-block (binds + final call or pure).
func (h *hx) exprBlock(e ast.Expr, indent string) string {
	save := h.binds
	h.binds = nil
	var last string
	if c, ok := e.(*ast.CallExpr); ok {
		last = h.call(c)
	} else {
		last = "pure " + h.atom(e)
	}
	lines := append(h.binds, last)
	h.binds = save
	if len(lines) == 1 {
		return lines[0]
	}
	return "(do\n" + indent + "  " + strings.Join(lines, "\n"+indent+"  ") + ")"
}

func hseqArity(files []string) string {
	var sb strings.Builder
	sb.WriteString(header(strings.Join(files, " ")))
	sb.WriteString("import Golem.Model.Lens\nnamespace Golem.Gen.HseqArity\nopen Golem.Model\n\n")
	digest := []string{}
	seen := map[string]bool{}
	for _, path := range files {
		f := parse(path)
		for _, d := range f.Decls {
			fd, ok := d.(*ast.FuncDecl)
			if !ok || fd.Recv != nil || !arityName.MatchString(fd.Name.Name) {
				continue
			}
			m := arityName.FindStringSubmatch(fd.Name.Name)
			kind, n := m[1], 0
			n, _ = strconv.Atoi(m[2])
			seen[fd.Name.Name] = true
			h := &hx{fn: fd.Name.Name, tps: map[string]bool{}, values: map[string]bool{}}
			tps := typeParams(fd)
			for _, t := range tps {
				h.tps[t] = true
			}
			var sig string
			switch kind {
			case "New":
				if fd.Type.Params != nil && len(fd.Type.Params.List) != 0 {
					h.bad(fd, "NewN takes no value parameters")
				}
				sig = fmt.Sprintf("def %s (%s : GoType) : Except Panic (List Entry) := do", fd.Name.Name, strings.Join(tps, " "))
			case "FMap":
				// (ts Seq[T], fa func(Type[T]) A, ...) (A, B, ...)
				ps := fd.Type.Params.List
				if len(ps) != n+1 || len(tps) != n+1 {
					h.bad(fd, "FMapN: expected ts and N functions")
				}
				params := []string{}
				for i, p := range ps {
					if len(p.Names) != 1 {
						h.bad(p, "one name per parameter expected")
					}
					nm := p.Names[0].Name
					h.values[nm] = true
					if i == 0 {
						if name, _, ok := h.instantiated(p.Type); !ok || name != "Seq" {
							h.bad(p, "first parameter must be Seq[T]")
						}
						params = append(params, fmt.Sprintf("(%s : List Entry)", id(nm)))
						continue
					}
					ft, ok := p.Type.(*ast.FuncType)
					if !ok || len(ft.Params.List) != 1 || ft.Results == nil || len(ft.Results.List) != 1 {
						h.bad(p, "func(Type[T]) X expected")
					}
					if name, _, ok := h.instantiated(ft.Params.List[0].Type); !ok || name != "Type" {
						h.bad(p, "func(Type[T]) X expected")
					}
					params = append(params, fmt.Sprintf("(%s : Entry → Except Panic %s)", id(nm), h.tyArg(ft.Results.List[0].Type)))
				}
				res := []string{}
				for _, r := range fd.Type.Results.List {
					res = append(res, h.tyArg(r.Type))
				}
				sig = fmt.Sprintf("def %s {%s : Type} %s : Except Panic (%s) := do", fd.Name.Name, strings.Join(tps[1:], " "),
					strings.Join(params, " "), strings.Join(res, " × "))
			default: // ForProduct / ForSpectrum
				ps := fd.Type.Params.List
				if len(ps) != 1 || len(ps[0].Names) != 1 {
					h.bad(fd, "expected the single variadic parameter attr ...string")
				}
				if el, ok := ps[0].Type.(*ast.Ellipsis); !ok || src(el.Elt) != "string" {
					h.bad(fd, "expected attr ...string")
				}
				h.values[ps[0].Names[0].Name] = true
				res := make([]string, n)
				for i := range res {
					res[i] = "Lens"
				}
				sig = fmt.Sprintf("def %s (%s : GoType) (%s : List String) : Except Panic (%s) := do", fd.Name.Name,
					strings.Join(tps, " "), id(ps[0].Names[0].Name), strings.Join(res, " × "))
			}
			lines := []string{}
			for _, st := range fd.Body.List {
				switch s := st.(type) {
				case *ast.DeclStmt:
					// var seq hseq.Seq[T]  — assigned in both branches of the following if
					continue
				case *ast.AssignStmt:
					if s.Tok != token.DEFINE || len(s.Lhs) != 1 || len(s.Rhs) != 1 {
						h.bad(s, "only x := e")
					}
					x := s.Lhs[0].(*ast.Ident).Name
					v := h.exprBlock(s.Rhs[0], "  ")
					lines = append(lines, fmt.Sprintf("let %s ← %s", id(x), v))
					h.values[x] = true
				case *ast.IfStmt:
					// if len(attr) == 0 { x = e1 } else { x = e2 }
					be, ok := s.Cond.(*ast.BinaryExpr)
					if !ok || be.Op != token.EQL || s.Init != nil || s.Else == nil {
						h.bad(s, "only if len(x) == 0 {..} else {..}")
					}
					lc, ok1 := be.X.(*ast.CallExpr)
					z, ok2 := be.Y.(*ast.BasicLit)
					if !ok1 || !ok2 || src(lc.Fun) != "len" || z.Value != "0" || len(lc.Args) != 1 {
						h.bad(s, "only if len(x) == 0")
					}
					els, ok := s.Else.(*ast.BlockStmt)
					if !ok || len(s.Body.List) != 1 || len(els.List) != 1 {
						h.bad(s, "one assignment per branch expected")
					}
					a1, ok1 := s.Body.List[0].(*ast.AssignStmt)
					a2, ok2 := els.List[0].(*ast.AssignStmt)
					if !ok1 || !ok2 || a1.Tok != token.ASSIGN || a2.Tok != token.ASSIGN || src(a1.Lhs[0]) != src(a2.Lhs[0]) {
						h.bad(s, "both branches must assign the same variable")
					}
					x := a1.Lhs[0].(*ast.Ident).Name
					lines = append(lines, fmt.Sprintf("let %s ← if %s.length == 0 then %s else %s", id(x), h.atom(lc.Args[0]),
						h.exprBlock(a1.Rhs[0], "    "), h.exprBlock(a2.Rhs[0], "    ")))
					h.values[x] = true
				case *ast.ReturnStmt:
					if len(s.Results) == 1 {
						h.binds = nil
						if c, ok := s.Results[0].(*ast.CallExpr); ok {
							last := h.call(c)
							lines = append(lines, h.binds...)
							lines = append(lines, last)
						} else {
							a := h.atom(s.Results[0])
							lines = append(lines, h.binds...)
							lines = append(lines, "pure "+a)
						}
					} else {
						h.binds = nil
						rs := []string{}
						for _, r := range s.Results {
							rs = append(rs, h.atom(r))
						}
						lines = append(lines, h.binds...)
						lines = append(lines, "pure ("+strings.Join(rs, ", ")+")")
					}
					digest = append(digest, fmt.Sprintf("-- %s := %s", fd.Name.Name, src(s)))
				default:
					h.bad(st, "unsupported statement")
				}
			}
			sb.WriteString(sig + "\n  " + strings.Join(lines, "\n  ") + "\n\n")
		}
	}
	for _, k := range []string{"New", "FMap", "ForProduct", "ForSpectrum"} {
		for i := 1; i <= 9; i++ {
			if !seen[fmt.Sprintf("%s%d", k, i)] {
				panic(untranslatable{fmt.Sprintf("%s%d not found", k, i)})
			}
		}
	}
	sb.WriteString("end Golem.Gen.HseqArity\n\n-- digest (replay reports only)\n" + strings.Join(digest, "\n") + "\n")
	return sb.String()
}
