"""Lock-step correspondence for channel stages (DESIGN section 5): script generation helpers,
running the Go harness under testing/synctest with crash attribution, feeding the observations to the
Lean oracle (`oracle lockstep`), and parsing observations for the direct oracles."""
import os, subprocess, re
from concurrent.futures import ThreadPoolExecutor
import vlib

MOD = 1000003
FOLD_EMPTY = 7


# ---- user-function family (mirrors go/harness/lockstep and lean/Golem/Driver/Lockstep.lean)
def f_map(x):
    return 3 * x + 1


def g_fmap(x):
    return [10 * x + i for i in range(x % 3)]


def pred(fn, x):
    return x % fn != 0


def combine(a, b):
    return (a * 31 + b) % MOD


def regen_stages(ctx, pipe=True, fork=False, sources=False, text=False, cfg=False):
    """T tie for the consumer stages: regenerate Gen/PipeStages.lean / Gen/ForkStages.lean from the working tree
    (go/xlate family `stages`); a stage outside the translatable fragment is listed in `rejected` and the
    `*_gen` theorems that mention it then fail to elaborate (reported by ctx.prove as broken obligations)."""
    import os, re
    for on, out, files in ((pipe, "PipeStages.lean", ["pipe/function.go", "pipe/pipe.go"]),
                           (fork, "ForkStages.lean", ["pipe/fork/function.go", "pipe/fork/fork.go"]),
                           (sources, "PipeSources.lean", ["pipe/function.go", "pipe/pipe.go"])):
        if not on:
            continue
        if ctx.xlate("sources" if out == "PipeSources.lean" else "stages", out, files) is None:
            txt = open(os.path.join(vlib.LEAN, "Golem/Gen", out)).read()
            m = re.search(r"def rejected : List String := \[(.*)\]", txt)
            rej = re.findall(r'"((?:[^"\\]|\\.)*)"', m.group(1)) if m else []
            ctx.cov.setdefault("translator_rejected", []).extend(rej)
            for r in rej:
                ctx.note("stages translator: outside the fragment: " + r)
    if cfg:
        ctx.xlate("cfg", "PipeNewCFG.lean", ["pipe/unbound.go"])
        ctx.xlate("queue", "PipeQueue.lean", ["pipe/queue.go"])
    if text:
        ctx.xlate("gotext", "PipeText.lean", ["pipe/queue.go", "pipe/pipe.go"])


def build(ctx, race=False):
    rep = {"github.com/fogfish/golem/pipe/v2": vlib.REPO + "/pipe", "github.com/fogfish/golem/pure": vlib.REPO + "/pure"}
    return ctx.harness("lockstep", rep, test=True, race=race)


def _run_chunk(binp, tmp, tag, lines, timeout):
    """Runs numbered script lines; returns {idx: tokens} and {idx: crash text}."""
    res, crashes = {}, {}
    todo = list(lines)
    rnd = 0
    solo = False    # one process per script
    hangs = 0
    while todo:
        rnd += 1
        fin = os.path.join(tmp, "ls-%s-%d.in" % (tag, rnd))
        fout = os.path.join(tmp, "ls-%s-%d.out" % (tag, rnd))
        batch, later = (todo[:1], todo[1:]) if solo else (todo, [])
        open(fin, "w").write("\n".join(batch) + "\n")
        if os.path.exists(fout):
            os.remove(fout)
        env = dict(os.environ, LOCKSTEP_IN=fin, LOCKSTEP_OUT=fout)
        try:
            p = subprocess.run([binp, "-test.run", "TestLockstep", "-test.count=1", "-test.timeout=%ds" % timeout],
                               env=env, capture_output=True, text=True, timeout=timeout + 30)
            rc, err = p.returncode, p.stdout[-3000:] + p.stderr[-6000:]
        except subprocess.TimeoutExpired:
            rc, err = -1, "timeout"
        started = None
        done = set()
        if os.path.exists(fout):
            for l in open(fout).read().split("\n"):
                if l.startswith("#"):
                    started = l[1:]
                elif l:
                    idx, _, rest = l.partition(" ")
                    res[idx] = rest.split()
                    done.add(idx)
        if rc == 0:
            if not later:
                break
            todo = later
            continue
        # crash: attribute to the script that had started but not finished
        if started is not None and started not in done:
            pos = next(i for i, l in enumerate(todo) if l.split(" ", 1)[0] == started)
            if not solo and "from outside bubble" in err:
                # An artefact of the harness, not of the script: every script runs in its own synctest bubble but all
                # share one process, and the library kept a timer or channel of an earlier bubble in package-level
                # state. From here on every script gets a process of its own (one bubble per process), starting
                # with the one that tripped.
                solo = True
                todo = todo[pos:]
                continue
            crashes[started] = err
            todo = todo[pos + 1:]
            if "watchdog:" in err:
                hangs += 1
                if hangs >= 2:
                    break   # every hang costs the watchdog's real-time budget: two are evidence enough for this chunk
        else:
            crashes["?"] = err
            break
    return res, crashes


def run_scripts(ctx, binp, scripts, workers=12, timeout=900):
    """scripts: list of script strings (without index). Returns (obs list aligned with scripts, crashes {i: text})."""
    numbered = ["%d %s" % (i, s) for i, s in enumerate(scripts)]
    n = max(1, min(workers, (len(numbered) + 49) // 50))
    chunks = [numbered[i::n] for i in range(n)]
    obs = [None] * len(scripts)
    crashes = {}
    with ThreadPoolExecutor(max_workers=n) as ex:
        futs = [ex.submit(_run_chunk, binp, ctx.tmp, "c%d" % i, ch, timeout) for i, ch in enumerate(chunks)]
        for f in futs:
            r, c = f.result()
            for k, v in r.items():
                obs[int(k)] = v
            for k, v in c.items():
                if k != "?" and "watchdog:" in v:
                    # not a crash of the library: the script does not finish under the virtual clock (synctest cannot advance
                    # time or see the deadlock while a library goroutine waits on package-level state created outside the
                    # bubble). The harness cannot judge this script; it is a broken correspondence, not a failing input.
                    ctx.broken.append({"kind": "correspondence", "detail": "script hangs under testing/synctest (a library goroutine waits on package-level state outside the bubble); "
                                       "the lock-step harness cannot run it", "case": scripts[int(k)]})
                    continue
                crashes[int(k) if k != "?" else -1] = v
    return obs, crashes


def oracle_check(ctx, scripts, obs, sub="lockstep"):
    """Returns list of verdict strings ('ok' / 'MISMATCH …' / None when there is no observation)."""
    feed, pos = [], []
    for i, (s, o) in enumerate(zip(scripts, obs)):
        if o is None:
            continue
        feed.append("%d %s || %s" % (i, s, " ".join(o)))
        pos.append(i)
    out = [None] * len(scripts)
    if not feed:
        return out
    n = 8
    chunks = [feed[i::n] for i in range(n)]
    with ThreadPoolExecutor(max_workers=n) as ex:
        outs = list(ex.map(lambda ch: ctx.oracle(sub, ch) if ch else [], chunks))
    for lines in outs:
        for l in lines:
            idx, _, verdict = l.partition(" ")
            out[int(idx)] = verdict
    return out


def judge_direct(ctx, scripts, evaluate, label, binp=None, stage_name=None):
    """`judge` without the model comparison, for script families the oracle's network cannot express: run the scripts on
    the implementation, attribute crashes, apply the direct oracle. Counted under coverage.direct_oracle_only."""
    if binp is None:
        binp, err = build(ctx)
        if binp is None:
            ctx.broken.append({"kind": "correspondence", "detail": "lock-step harness does not build against /repo/pipe", "log": err})
            return []
    obs, crashes = run_scripts(ctx, binp, scripts)
    traces = []
    for i, s in enumerate(scripts):
        cfg = parse_cfg(s)
        st = stage_name or (cfg.get("pkg", "pipe") + "." + cfg.get("stage", "?"))
        if i in crashes:
            txt = crashes[i]
            cls = "deadlock" if "deadlock" in txt else ("panic" if "panic" in txt else "crash")
            m = re.search(r"panic: ([^\n]*)", txt)
            ctx.violations.append(vlib.Violation("impl", "%s (%s): the library crashed: %s" % (st, label, m.group(1) if m else cls), case=s,
                                                 got=txt[-1500:], key={"stage": cfg.get("stage"), "pkg": cfg.get("pkg", "pipe"), "class": cls}))
            traces.append(None)
            continue
        if obs[i] is None:
            ctx.broken.append({"kind": "correspondence", "detail": "no observation for script", "case": s})
            traces.append(None)
            continue
        tr = Trace(s, obs[i])
        traces.append(tr)
        if not tr.complete:
            ctx.broken.append({"kind": "correspondence", "detail": "observation line does not match the script", "case": s, "impl": " ".join(obs[i])[:2000]})
            continue
        ctx.cov["direct_oracle_only"] = ctx.cov.get("direct_oracle_only", 0) + 1
        ctx.hist("direct_oracle_only_family", label)
        ctx.violations += evaluate(s, tr)
        if i % 97 == 0:
            ctx.sample({"script": s[:600], "observations": " ".join(obs[i])[:1500], "model": "not asked (direct oracle only)"}, limit=10)
    if -1 in crashes:
        ctx.broken.append({"kind": "correspondence", "detail": "harness failed: " + crashes[-1][-800:]})
    return traces


TOK = re.compile(r"^(.*?):([^\[:]*)\[([^\]]*)\]$")


def parse_cfg(script):
    cfg = {}
    for kv in script.split("|")[0].split():
        k, _, v = kv.partition("=")
        cfg[k] = v
    return cfg


class Trace:
    """What the environment saw while replaying a script."""

    def __init__(self, script, tokens):
        self.script = script
        self.cfg = parse_cfg(script)
        self.moves = script.split("|", 1)[1].split() if "|" in script else []
        self.sent = {}        # input -> values whose send completed
        self.recv = {}        # output -> tokens received (v12 / e3 / u)
        self.closed = set()   # outputs observed closed
        self.census = []      # (position, n)
        self.cancel_at = None
        self.closed_in = set()
        self.visits = None
        self.applied = None
        self.released = []
        self.end = None
        self.steps = []       # (move, result, lens)
        self.recv_after_cancel = {}
        toks = list(tokens)
        if toks and toks[-1].startswith("end:"):
            p = toks.pop().split(":")
            self.end = (int(p[1]), int(p[2]))
        toks = toks[1:]  # initial observation
        self.complete = len(toks) == len(self.moves)
        for pos, (mv, t) in enumerate(zip(self.moves, toks)):
            m = TOK.match(t)
            if not m:
                self.complete = False
                break
            res = m.group(2)
            self.steps.append((mv, res, m.group(3)))
            c = mv[0]
            if c == "b":
                # burst: the completed sends of its sub-moves are part of the input
                for sm, sr in zip(mv[1:].split(","), res.split(",")):
                    if sm and sm[0] == "s" and sr == "ok":
                        j, v = (sm[1:].split(":") + [None])[:2] if ":" in sm else ("0", sm[1:])
                        self.sent.setdefault(int(j), []).append(int(v))
            if c == "s":
                j, v = (mv[1:].split(":") + [None])[:2] if ":" in mv else ("0", mv[1:])
                if res == "ok":
                    self.sent.setdefault(int(j), []).append(int(v))
            elif c == "c" and res == "ok":
                self.closed_in.add(int(mv[1:]))
            elif c == "r":
                k = int(mv[1:])
                if res == "closed":
                    self.closed.add(k)
                elif res not in ("empty", "nope"):
                    self.recv.setdefault(k, []).append(res)
                    if self.cancel_at is not None:
                        self.recv_after_cancel.setdefault(k, []).append(res)
            elif c == "x":
                if self.cancel_at is None:
                    self.cancel_at = pos
            elif c == "z":
                self.census.append((pos, int(res)))
            elif c == "v":
                self.visits = [int(x) for x in res.strip("()").split(",") if x]
            elif c == "a":
                self.applied = [int(x) for x in res.strip("()").split(",") if x]
            elif c == "g" and res == "ok":
                self.released.append(int(mv[1:]))

    def values(self, k):
        return [int(t[1:]) for t in self.recv.get(k, []) if t[0] == "v"]

    def errors(self, k):
        return [int(t[1:]) for t in self.recv.get(k, []) if t[0] == "e"]


def drain_moves(outs, rounds):
    """receive moves that drain every output: `rounds` passes over all outputs"""
    m = []
    for _ in range(rounds):
        for k in outs:
            m.append("r%d" % k)
    return m


def interleave(rng, seqs):
    """random interleaving of several move sequences keeping each one's internal order"""
    seqs = [list(s) for s in seqs if s]
    out = []
    while seqs:
        i = rng.randrange(len(seqs))
        out.append(seqs[i].pop(0))
        if not seqs[i]:
            seqs.pop(i)
    return out


# Properties whose statement speaks of goroutines exiting ("goroutines have exited", "never leak", "block forever",
# "stop"): only for these is a goroutine left behind a violation of the property. For the others the census is
# recorded in the evidence and compared with the model (a difference there is a broken correspondence, reported
# as such), but the direct oracle does not call it a violation: the property holds on a tree that keeps a helper
# goroutine around.
CENSUS_PROPS = {"C06", "C07", "C09", "C11"}


def census_claimed(ctx):
    return ctx.prop in CENSUS_PROPS


def judge(ctx, scripts, evaluate, label=None, sub="lockstep", binp=None, record=True):
    """Run scripts on the implementation, check the model admits the observations, apply the
    property's direct oracle `evaluate(script, Trace) -> [Violation]`. Returns list of Traces (or None)."""
    if binp is None:
        binp, err = build(ctx)
        if binp is None:
            ctx.broken.append({"kind": "correspondence", "detail": "lock-step harness does not build against /repo/pipe", "log": err})
            return []
    obs, crashes = run_scripts(ctx, binp, scripts)
    verdicts = oracle_check(ctx, scripts, obs, sub=sub)
    traces = []
    for i, s in enumerate(scripts):
        cfg = parse_cfg(s)
        st = cfg.get("pkg", "pipe") + "." + cfg["stage"]
        ctx.hist("stage", st)
        if i in crashes:
            txt = crashes[i]
            cls = "deadlock" if "deadlock" in txt else ("panic" if "panic" in txt else "crash")
            m = re.search(r"panic: ([^\n]*)", txt)
            ctx.violations.append(vlib.Violation("impl", "%s: the library crashed: %s" % (st, m.group(1) if m else cls), case=s,
                                                 got=txt[-1500:], key={"stage": cfg["stage"], "pkg": cfg.get("pkg", "pipe"), "class": cls}))
            traces.append(None)
            continue
        if obs[i] is None:
            ctx.broken.append({"kind": "correspondence", "detail": "no observation for script", "case": s})
            traces.append(None)
            continue
        tr = Trace(s, obs[i])
        traces.append(tr)
        nsent = sum(len(v) for v in tr.sent.values())
        ctx.hist("completed_sends", nsent)
        if record:
            ctx.count(s, nontrivial=nsent > 0 and (bool(tr.recv) or bool(tr.closed)))
        if verdicts[i] == "ok":
            ctx.cov["traces_validated_against_impl"] += 1
        else:
            ctx.broken.append({"kind": "correspondence", "detail": "model does not admit the implementation's observations", "case": s,
                               "impl": " ".join(obs[i]), "model": verdicts[i]})
        ctx.violations += evaluate(s, tr)
        if tr.end:
            ctx.hist("teardown_outputs_open_goroutines_left", "%d/%d" % tr.end)
        if tr.end and tr.end != (0, 0) and census_claimed(ctx):
            ctx.violations.append(vlib.Violation("impl", "%s: %d output(s) never closed / %d goroutine(s) left after cancel, close and drain" % (st, tr.end[0], tr.end[1]),
                                                 case=s, key={"stage": cfg["stage"], "class": "leak"}))
        if i % 131 == 0:
            ctx.sample({"script": s, "observations": " ".join(obs[i]), "model": verdicts[i]})
    if -1 in crashes:
        ctx.broken.append({"kind": "correspondence", "detail": "harness failed: " + crashes[-1][-800:]})
    return traces


ASSUME = ["Go channel/select/context/WaitGroup semantics as modelled in lean/Golem/Go (validated by every lock-step run)",
          "testing/synctest quiescence detection and virtual clock are faithful; user functions are pure and total",
          "FMap arrows belong to the family 'send each element under select with ctx.Done, return nil on Done'",
          "lock-step explores schedules in which environment moves happen at quiescent points; other interleavings are covered by the theorems only"]


def stress(ctx, names, rounds, key):
    """Free-running -race stress (thorough tier, supporting evidence): builds the harness with the race detector
    and runs TestStress* for `names`. A failure (wrong result or DATA RACE report) is a concrete violation;
    a build problem of the race runtime is recorded, never alarmed on."""
    binp, err = build(ctx, race=True)
    if binp is None:
        ctx.cov["race_stress"] = "race build unavailable: " + (err or "")[-300:]
        return
    p = subprocess.run([binp, "-test.run", "TestStress", "-test.count=1", "-test.timeout=600s"],
                       env=dict(os.environ, STRESS=",".join(names), STRESS_ROUNDS=str(rounds)), capture_output=True, text=True, timeout=700)
    ctx.cov["race_stress"] = {"tests": names, "rounds": rounds, "result": "ok" if p.returncode == 0 else "FAILED"}
    if p.returncode != 0:
        txt = p.stdout + p.stderr
        m = re.search(r"STRESS [^\n]*", txt)
        what = "DATA RACE reported by the race detector" if "DATA RACE" in txt else (m.group(0) if m else "stress run failed")
        ctx.violations.append(vlib.Violation("impl", "free-running stress (-race, GOMAXPROCS up to 16): " + what, case="go test -race -run TestStress (STRESS=%s)" % ",".join(names),
                                             got=txt[-2500:], key=dict(key, **{"class": "stress"})))
