"""Per-property registration; bin/mkmanifest turns this into MANIFEST.json."""
TECH_T = "Lean 4 theorems over definitions regenerated from the Go source (translator) + differential run against the spec"
TECH_H = "Lean 4 theorems over a hand-written executable model + differential correspondence with the real code"
TECH_TH = "Lean 4 theorems over translated definitions and a hand model + differential correspondence"

# id -> dict(built, technique, text, note, design)
PROPS = {
 "C20": dict(built=True, technique=TECH_T, design="6/C20",
   text="pipeN_kleisli / pipeN_pure (N=2..20) are proved by the Lean kernel for every monad and every argument over definitions regenerated from internal/pipe/pipe.go on each run; the real PipeN are run on seeded non-commuting call-logging functions against the KChain specification.",
   note="Trusted: Lean kernel (no axioms used), go/xlate translator (ANF in Go evaluation order), go/parser, the harness. User functions are arbitrary Kleisli arrows."),
}
PENDING_REASON = "no check registered yet in this revision of /verif (design in DESIGN.md section 6); not claimed until its theorems and tie run"
