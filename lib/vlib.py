"""Shared machinery for /verif/bin/check.

One check run = regenerate (T) -> prove (lake + axiom audit) -> correspond (Go harness
vs Lean oracle on the same case lines) -> direct oracle -> verdict + evidence.
See DESIGN.md sections 3, 4 and 7.
"""
import fcntl, hashlib, json, os, random, re, shutil, subprocess, sys, tempfile, time

VERIF = os.path.dirname(os.path.dirname(os.path.abspath(__file__)))
REPO = os.environ.get("VERIF_REPO", "/repo")
LEAN = os.path.join(VERIF, "lean")
BUILD = os.path.join(VERIF, ".build")
ALLOWED_AXIOMS = {"propext", "Classical.choice", "Quot.sound"}
FORBIDDEN = re.compile(r"\b(sorry|admit|native_decide|bv_decide|implemented_by|unsafe)\b|^\s*axiom\s|maxHeartbeats\s+0\b", re.M)
GO = "go1.26"

TRUSTED_BASE = [
    "Lean 4.33.0 kernel (axioms limited to propext, Classical.choice, Quot.sound; audited per theorem by #print axioms)",
    "statements in lean/Golem/Props/*.lean say what the property says",
    "go/xlate translator and go/parser (for regenerated definitions)",
    "correspondence machinery: Go harness, generators, canonicalisation, oracle driver, diff (it samples)",
    "go1.26.8 compiling the harness against /repo's working tree",
]


def goenv():
    e = dict(os.environ)
    e.update(GOFLAGS="-mod=mod", GOPROXY="off", GOTOOLCHAIN="local")
    return e


def run(cmd, cwd=None, env=None, input=None, timeout=None):
    p = subprocess.run(cmd, cwd=cwd, env=env, input=input, capture_output=True, text=True, timeout=timeout)
    return p.returncode, p.stdout, p.stderr


class Lock:
    """Serialises lake invocations (checks may be started in parallel)."""

    def __init__(self, name="lake"):
        os.makedirs(BUILD, exist_ok=True)
        self.path = os.path.join(BUILD, name + ".lock")

    def __enter__(self):
        self.f = open(self.path, "w")
        fcntl.flock(self.f, fcntl.LOCK_EX)
        return self

    def __exit__(self, *a):
        fcntl.flock(self.f, fcntl.LOCK_UN)
        self.f.close()


class Violation:
    def __init__(self, kind, what, case=None, expected=None, got=None, theorem=None, concrete=True, key=None):
        self.kind, self.what, self.case, self.expected, self.got = kind, what, case, expected, got
        self.theorem, self.concrete, self.key = theorem, concrete, key or {}


class Ctx:
    def __init__(self, prop, tier, seed):
        self.prop, self.tier, self.seed = prop, tier, seed
        self.t0 = time.time()
        self.rng = random.Random(seed * 1000003 + int(prop[1:]))
        self.tmp = tempfile.mkdtemp(prefix="verif-%s-" % prop)
        self.obligations = []       # (theorem, axioms or None, ok)
        self.broken = []            # descriptions of broken proof obligations / ties
        self.violations = []        # Violation
        self.known = []             # strings
        self.cov = {"evaluations": 0, "distinct_nontrivial": 0, "rule": "", "samples": [],
                    "traces_validated_against_impl": 0, "distribution": {}}
        self.assumptions = []
        self.log = []
        self.distinct = set()

    def thorough(self):
        return self.tier == "thorough"

    def note(self, s):
        self.log.append(s)
        print("[%s %6.1fs] %s" % (self.prop, time.time() - self.t0, s), flush=True)

    def cleanup(self):
        shutil.rmtree(self.tmp, ignore_errors=True)

    # ------------------------------------------------------------ translation (T)
    def xlate(self, family, out_rel, files):
        """Regenerate lean/Golem/Gen/<out_rel> from /repo. Returns error text or None."""
        with Lock("xlate"):
            xb = os.path.join(BUILD, "xlate")
            srcs = [os.path.join(VERIF, "go/xlate", f) for f in os.listdir(os.path.join(VERIF, "go/xlate"))]
            if not os.path.exists(xb) or any(os.path.getmtime(s) > os.path.getmtime(xb) for s in srcs):
                rc, o, e = run([GO, "build", "-o", xb, "."], cwd=os.path.join(VERIF, "go/xlate"), env=goenv())
                if rc != 0:
                    raise RuntimeError("xlate does not build: " + e)
        self._xlates = getattr(self, "_xlates", [])
        self._xlates.append((family, out_rel, files))
        with Lock():
            err = self._xlate_locked(xb, family, out_rel, files)
        if err is not None:
            self.broken.append({"kind": "translator", "target": family, "detail": err})
            self.note("translator rejected %s: %s" % (family, err))
        return err

    def _xlate_locked(self, xb, family, out_rel, files):
        """run the translator (caller holds the lake lock)"""
        out = os.path.join(LEAN, "Golem/Gen", out_rel)
        os.makedirs(os.path.dirname(out), exist_ok=True)
        rc, o, e = run([xb, family, out] + [os.path.join(REPO, f) for f in files])
        if rc != 0:
            # leave no stale definitions behind: a failed translation must not let old proofs pass
            stub = "-- translation failed: " + e.strip().replace("\n", " ") + "\n#exit\n"
            if not os.path.exists(out) or open(out).read() != stub:
                with open(out, "w") as f:
                    f.write(stub)
            return e.strip()
        return None

    # ------------------------------------------------------------ proof
    def prove(self, modules=None):
        """lake build the property module, then audit axioms of every listed theorem."""
        prop = self.prop
        mods = modules or ["Golem.Props.%s" % prop]
        if not modules and os.path.exists(os.path.join(LEAN, "Golem/Props/%sGen.lean" % prop)):
            mods.append("Golem.Props.%sGen" % prop)   # theorems over definitions regenerated by go/xlate
        if os.environ.get("VERIF_DEV_SKIP_PROOF"):  # development aid only; registered commands never set it
            self.broken.append({"kind": "proof-obligation", "theorem": "<skipped>", "detail": "VERIF_DEV_SKIP_PROOF set"})
            return False
        with Lock():
            # checks may run concurrently (and, during seeded-change validation, against different trees): the Gen/
            # files this property depends on are regenerated again here, inside the lock that covers build and audit
            for (family, out_rel, files) in getattr(self, "_xlates", []):
                self._xlate_locked(os.path.join(BUILD, "xlate"), family, out_rel, files)
            rc, o, e = run(["lake", "build"] + mods, cwd=LEAN)
            build_ok = rc == 0
            if not build_ok:
                self.note("lake build failed for %s" % " ".join(mods))
            rc2, ao, ae = run(["lake", "env", "lean", "Golem/Audit/%s.lean" % prop], cwd=LEAN)
        audit_src = open(os.path.join(LEAN, "Golem/Audit/%s.lean" % prop)).read()
        wanted = re.findall(r"^#print axioms\s+(\S+)", audit_src, re.M)
        seen = {}
        for m in re.finditer(r"'([^']+)' (does not depend on any axioms|depends on axioms: \[([^\]]*)\])", ao.replace("\n ", " ")):
            full = m.group(1)
            axs = [] if m.group(3) is None else [a.strip() for a in m.group(3).split(",")]
            # theorems of Props/<ID>.lean are listed by their short name; the translation-tie theorems of
            # Props/Stage/<X>.lean (same short names in every file) as <X>.<name>
            name = ".".join(full.split(".")[-2:]) if ".Props.Stage." in full else full.split(".")[-1]
            seen[name] = axs
        for w in wanted:
            short = ".".join(w.split(".")[-2:]) if ".Props.Stage." in w else w.split(".")[-1]
            if build_ok and short in seen and set(seen[short]) <= ALLOWED_AXIOMS:
                self.obligations.append((short, seen[short], True))
            else:
                self.obligations.append((short, seen.get(short), False))
                why = "does not check" if short not in seen or not build_ok else "depends on foreign axioms %s" % seen[short]
                self.broken.append({"kind": "proof-obligation", "theorem": short, "detail": why,
                                    "log": (o + e + ae)[-3000:]})
        if not wanted:
            self.broken.append({"kind": "proof-obligation", "theorem": "<none listed>", "detail": "empty audit"})
        # forbidden constructs anywhere in the library sources
        bad = []
        for root, _, files in os.walk(os.path.join(LEAN, "Golem")):
            for fn in files:
                if fn.endswith(".lean"):
                    txt = open(os.path.join(root, fn)).read()
                    txt = re.sub(r"/-.*?-/", "", txt, flags=re.S)
                    txt = re.sub(r"--.*", "", txt)
                    if "/Driver/" in root + "/":
                        txt = re.sub(r"\bpartial\b", "", txt)
                    for m in FORBIDDEN.finditer(txt):
                        bad.append("%s: %s" % (os.path.relpath(os.path.join(root, fn), LEAN), m.group(0).strip()))
        if bad:
            self.broken.append({"kind": "proof-obligation", "theorem": "<source audit>", "detail": "forbidden construct: " + "; ".join(bad[:5])})
        self.note("proof: %d/%d obligations discharged" % (sum(1 for x in self.obligations if x[2]), len(self.obligations)))
        return build_ok

    def leanchecker(self, modules=None):
        mods = modules or ["Golem.Props.%s" % self.prop]
        if not modules and os.path.exists(os.path.join(LEAN, "Golem/Props/%sGen.lean" % self.prop)):
            mods.append("Golem.Props.%sGen" % self.prop)
        with Lock():
            for (family, out_rel, files) in getattr(self, "_xlates", []):
                self._xlate_locked(os.path.join(BUILD, "xlate"), family, out_rel, files)
            run(["lake", "build"] + mods, cwd=LEAN)
            rc, o, e = run(["lake", "env", "leanchecker"] + mods, cwd=LEAN, timeout=1800)
        self.cov["leanchecker"] = "ok" if rc == 0 else "FAILED: " + (o + e)[-500:]
        if rc != 0:
            self.broken.append({"kind": "proof-obligation", "theorem": "<leanchecker>", "detail": (o + e)[-500:]})

    # ------------------------------------------------------------ oracle + harness
    def oracle_bin(self):
        with Lock():
            rc, o, e = run(["lake", "build", "oracle"], cwd=LEAN)
        if rc != 0:
            raise RuntimeError("oracle does not build:\n" + o + e)
        return os.path.join(LEAN, ".lake/build/bin/oracle")

    def oracle(self, sub, lines):
        b = self.oracle_bin()
        rc, o, e = run([b, sub], input="\n".join(lines) + "\n", timeout=3600)
        if rc != 0:
            raise RuntimeError("oracle %s failed rc=%d: %s" % (sub, rc, e[-2000:]))
        return o.split("\n")[:-1] if o.endswith("\n") else o.split("\n")

    def harness(self, name, replaces, stage=None, tags="verif", extra_files=None, race=False, test=False, suffix=""):
        """Copy go/harness/<name> to a temp module wired to /repo by replace directives and build it.
        Returns (binary path, None) or (None, error)."""
        src = os.path.join(VERIF, "go/harness", name)
        dst = os.path.join(self.tmp, "h-" + name + suffix + ("-race" if race else ""))
        if os.path.exists(dst):
            shutil.rmtree(dst)
        shutil.copytree(src, dst)
        if stage:
            stage(dst)
        for rel, txt in (extra_files or {}).items():
            os.makedirs(os.path.dirname(os.path.join(dst, rel)), exist_ok=True)
            open(os.path.join(dst, rel), "w").write(txt)
        gomod = ["module harness", "", "go 1.24", ""]
        sums = []
        for mod, path in replaces.items():
            mv = re.search(r"/v(\d+)$", mod)
            gomod.append("require %s v%s.0.0-00010101000000-000000000000" % (mod, mv.group(1) if mv else "0"))
            gomod.append("replace %s => %s" % (mod, path))
            s = os.path.join(path, "go.sum")
            if os.path.exists(s):
                sums.append(open(s).read())
        open(os.path.join(dst, "go.mod"), "w").write("\n".join(gomod) + "\n")
        open(os.path.join(dst, "go.sum"), "w").write("".join(sums))
        binp = os.path.join(dst, "harness.bin")
        cmd = ([GO, "test", "-c"] if test else [GO, "build"]) + ["-tags", tags, "-o", binp] + (["-race"] if race else []) + ["."]
        rc, o, e = run(cmd, cwd=dst, env=goenv(), timeout=3000)
        if rc != 0:
            return None, (o + e)[-4000:]
        return binp, None

    def run_harness(self, binp, args, lines, timeout=1800, env=None):
        ev = dict(os.environ)
        ev.update(env or {})
        # a harness that runs optics over unsafe pointers may print arbitrary bytes once an optic leaves its field:
        # decode leniently so that such a run is judged, not lost to a UnicodeDecodeError
        p = subprocess.run([binp] + args, input="\n".join(lines) + "\n", capture_output=True, encoding="utf-8", errors="replace", timeout=timeout, env=ev)
        out = p.stdout.split("\n")
        if out and out[-1] == "":
            out.pop()
        return p.returncode, out, p.stderr

    # ------------------------------------------------------------ bookkeeping
    def count(self, key, nontrivial=True):
        self.cov["evaluations"] += 1
        if nontrivial:
            h = hashlib.sha1(key.encode()).digest()[:8]
            self.distinct.add(h)

    def hist(self, name, value):
        d = self.cov["distribution"].setdefault(name, {})
        d[str(value)] = d.get(str(value), 0) + 1

    def sample(self, s, limit=6):
        if len(self.cov["samples"]) < limit:
            self.cov["samples"].append(s)

    def diff(self, cases, impl, model, label="correspondence"):
        """Line-by-line diff of implementation and model outputs. Records the first few disagreements."""
        n = 0
        if len(impl) != len(cases) or len(model) != len(cases):
            self.broken.append({"kind": "correspondence", "detail": "%s: %d cases, %d impl lines, %d model lines" % (label, len(cases), len(impl), len(model))})
            return 1
        for c, i, m in zip(cases, impl, model):
            if i != m:
                n += 1
                if n <= 3:
                    self.broken.append({"kind": "correspondence", "detail": label, "case": c, "impl": i, "model": m})
            else:
                self.cov["traces_validated_against_impl"] += 1
        return n


def load_known():
    p = os.path.join(VERIF, "known_findings.json")
    if not os.path.exists(p):
        return []
    return json.load(open(p)).get("findings", [])


def matches(entry, prop, key):
    if entry.get("property") != prop or entry.get("status") != "known":
        return False
    m = entry.get("match", {})
    return bool(m) and all(str(key.get(k)) == str(v) for k, v in m.items())


def finish(ctx, level_extra=None):
    """Verdict (DESIGN section 7) + evidence. Returns the exit code."""
    prop = ctx.prop
    known = load_known()
    real, knownhits = [], {}
    for v in ctx.violations:
        hit = next((k for k in known if matches(k, prop, v.key)), None)
        if hit is not None:
            knownhits.setdefault(hit["what"], 0)
            knownhits[hit["what"]] += 1
        else:
            real.append(v)
    for what, n in knownhits.items():
        print("KNOWN-FINDING: property=%s %s (reproduced on %d case(s))" % (prop, what, n))
    os.makedirs(os.path.join(VERIF, "replays"), exist_ok=True)
    rc = 0
    stamp = "%s-%s-%d" % (prop, ctx.tier, ctx.seed)
    if real:
        v = real[0]
        path = os.path.join(VERIF, "replays", stamp + "-impl.json")
        json.dump({"property": prop, "kind": "impl-violation", "what": v.what, "case": v.case, "expected": v.expected,
                   "got": v.got, "seed": ctx.seed, "tier": ctx.tier, "others": [x.what for x in real[1:6]],
                   "broken": ctx.broken[:5],
                   "how_to_rerun": "bin/check %s --tier %s --seed %d   (or: bin/check %s --replay <this file>)" % (prop, ctx.tier, ctx.seed, prop)},
                  open(path, "w"), indent=1, default=str)
        print("VIOLATION property=%s replay=%s" % (prop, path))
        rc = 1
    elif ctx.broken:
        b = ctx.broken[0]
        path = os.path.join(VERIF, "replays", stamp + "-broken.json")
        json.dump({"property": prop, "kind": b.get("kind"), "theorem_or_tie": b.get("theorem") or b.get("target") or b.get("detail"),
                   "first": b, "all": ctx.broken[:10], "seed": ctx.seed, "tier": ctx.tier,
                   "note": "a proof obligation or the model/implementation correspondence no longer checks; the failing-input search found no concrete input on which the property fails",
                   "how_to_rerun": "bin/check %s --tier %s --seed %d" % (prop, ctx.tier, ctx.seed)},
                  open(path, "w"), indent=1, default=str)
        print("VIOLATION property=%s replay=%s no-failing-input-found" % (prop, path))
        rc = 1
    ob = len(ctx.obligations)
    dis = sum(1 for x in ctx.obligations if x[2])
    cov = dict(ctx.cov)
    cov["distinct_nontrivial"] = len(ctx.distinct)
    cov.update({
        "obligations": ob, "discharged": dis,
        "checker_cmd": "cd /verif/lean && lake build Golem.Props.%s && lake env lean Golem/Audit/%s.lean" % (prop, prop),
        "trusted_base": TRUSTED_BASE + ctx.assumptions,
        "theorems": [{"name": n, "axioms": a, "ok": ok} for (n, a, ok) in ctx.obligations],
        "known_findings_reproduced": knownhits,
        "broken": ctx.broken[:10],
    })
    cov.update(level_extra or {})
    ev = {"property_id": prop, "tier": ctx.tier, "seed": ctx.seed, "level": "proof", "coverage": cov,
          "assumptions": ctx.assumptions, "wall_s": round(time.time() - ctx.t0, 2), "violations": len(real) + (1 if (not real and ctx.broken) else 0)}
    # runs against a scratch copy (VERIF_REPO set: seeded-change validation) never overwrite the real evidence
    evdir = os.path.join(VERIF, "evidence") if REPO == "/repo" else os.path.join(BUILD, "alt-evidence")
    os.makedirs(evdir, exist_ok=True)
    tmp = os.path.join(evdir, prop + ".json.tmp")
    json.dump(ev, open(tmp, "w"), indent=1, default=str)
    os.replace(tmp, os.path.join(evdir, prop + ".json"))
    ctx.note("done rc=%d evaluations=%d distinct=%d obligations=%d/%d" % (rc, cov["evaluations"], cov["distinct_nontrivial"], dis, ob))
    return rc
