-- Root of the `Golem` library: property theorems (which pull in models, lemmas and generated definitions).
import Golem.Props.C20
