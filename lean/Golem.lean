-- Root of the `Golem` library: property theorems (which pull in models, lemmas and generated definitions).
import Golem.Props.C20
import Golem.Props.C05
import Golem.Props.C17
import Golem.Props.C18
import Golem.Props.C19
import Golem.Lemmas.PoolInv
import Golem.Props.C16
import Golem.Props.C04
import Golem.Props.C06
import Golem.Props.C07
import Golem.Props.C09
import Golem.Props.C12
import Golem.Props.C14
import Golem.Props.C15
import Golem.Props.C10
import Golem.Props.C13
