/-
Helper lemmas for C04: sequences of writes through lenses (`writeAll`), used for the ShapeN
chains and for the `morphism` loops.
-/
import Golem.Model.Optics

namespace Golem.Lemmas.Optics
open Golem.Model.Optics

variable {S : Type}

/-- `w`'s focus keeps holding `w.val` while later writes are either the very same write or
preserve `w`'s focus. -/
theorem writeAll_keep (w : Write S) (hpg : ∀ s a, w.lens.get (w.lens.put s a) = a) :
    ∀ (ws : List (Write S)) (s : S),
      (∀ w' ∈ ws, w' = w ∨ Preserves w'.lens w.lens) →
      w.lens.get s = w.val → w.lens.get (writeAll ws s) = w.val := by
  intro ws
  induction ws with
  | nil => intro s _ h; exact h
  | cons w' ws ih =>
    intro s hall h
    simp only [writeAll]
    apply ih
    · intro x hx; exact hall x (List.mem_cons_of_mem _ hx)
    · rcases hall w' (List.mem_cons_self ..) with rfl | hp
      · exact hpg s _
      · rw [hp s w'.val]; exact h

/-- After a sequence of writes in which every later write is the same write or preserves the
earlier focus, every written focus reads back the value written to it. -/
theorem writeAll_get :
    ∀ (ws : List (Write S)) (s : S),
      (∀ w ∈ ws, ∀ s a, w.lens.get (w.lens.put s a) = a) →
      ws.Pairwise (fun w w' => w' = w ∨ Preserves w'.lens w.lens) →
      ∀ w ∈ ws, w.lens.get (writeAll ws s) = w.val := by
  intro ws
  induction ws with
  | nil => intro s _ _ w hw; cases hw
  | cons w0 ws ih =>
    intro s hpg hpw w hw
    rw [List.pairwise_cons] at hpw
    simp only [writeAll]
    rcases List.mem_cons.mp hw with rfl | hw'
    · exact writeAll_keep w (hpg w (List.mem_cons_self ..)) ws _ hpw.1
        (hpg w (List.mem_cons_self ..) s w.val)
    · exact ih _ (fun x hx => hpg x (List.mem_cons_of_mem _ hx)) hpw.2 w hw'

/-- Frame: an observation preserved by every single write is preserved by the sequence. -/
theorem writeAll_frame {C : Type} (g : Lens S C) :
    ∀ (ws : List (Write S)) (s : S), (∀ w ∈ ws, Preserves w.lens g) →
      g.get (writeAll ws s) = g.get s := by
  intro ws
  induction ws with
  | nil => intro s _; rfl
  | cons w ws ih =>
    intro s h
    simp only [writeAll]
    rw [ih _ (fun x hx => h x (List.mem_cons_of_mem _ hx)), h w (List.mem_cons_self ..)]

/-- Writes that each put back what is already there change nothing. -/
theorem writeAll_id :
    ∀ (ws : List (Write S)) (s : S), (∀ w ∈ ws, w.lens.put s w.val = s) → writeAll ws s = s := by
  intro ws
  induction ws with
  | nil => intro s _; rfl
  | cons w ws ih =>
    intro s h
    simp only [writeAll]
    rw [h w (List.mem_cons_self ..)]
    exact ih s (fun x hx => h x (List.mem_cons_of_mem _ hx))

end Golem.Lemmas.Optics
