/-
Invariants of the pump network of `pipe.New` (`Golem.Go.Unbound`), for every capacity and every
schedule (`Reachable`), the variant of the pump's own moves, and progress after end of stream.
Core Lean only.
-/
import Golem.Go.Unbound
namespace Golem.Go.Unbound
open Golem.Go

variable {α : Type}

/-- control points after `case <-ctx.Done()` and before `flush()` -/
def Pc.afterDone : Pc α → Bool
  | .drain | .drainGot _ | .closeIn | .range | .rangeGot _ => true
  | _ => false

def Pc.ranging : Pc α → Bool
  | .range | .rangeGot _ => true
  | _ => false

/-- control points in and after `flush()` -/
def Pc.flushing : Pc α → Bool
  | .flush | .flushSent | .closeEg | .exited => true
  | _ => false

def Pc.emptied : Pc α → Bool
  | .closeEg | .exited => true
  | _ => false

def Pc.sentPending : Pc α → Bool
  | .mainSent | .flushSent => true
  | _ => false

/-- `pol = true`: the environment keeps to the sender's protocol (`Polite`), see `ReachableP` -/
structure Inv (cap : Nat) (pol : Bool) (p : Net α) : Prop where
  /-- exact accounting: nothing lost, duplicated, reordered or invented -/
  acct : p.delivered ++ p.eg.buf ++ backlog p ++ held p ++ p.inp.buf = p.sent
  capIn : p.inp.cap = cap
  capEg : p.eg.cap = cap
  egRoom : p.eg.buf.length ≤ p.eg.cap
  /-- the receive side is closed exactly when the pump has returned -/
  egClosed : p.eg.closed = true ↔ p.pc = .exited
  /-- `deq` is only called on a non-empty queue -/
  sentNe : p.pc.sentPending = true → p.mq ≠ []
  afterDone : p.pc.afterDone = true → p.cancelled = true
  ranging : p.pc.ranging = true → p.inp.closed = true
  /-- `flush()` starts only when the send side is closed and drained -/
  flushing : p.pc.flushing = true → p.inp.closed = true ∧ p.inp.buf = []
  emptied : p.pc.emptied = true → p.mq = []
  /-- the only panic: `close(in)` meeting a close by the sender that slipped in after the drain loop -/
  panicAt : p.panicked = true → p.pc = .closeIn
  /-- under the sender's protocol `close(in)` finds the channel open … -/
  closeInOpen : pol = true → p.pc = .closeIn → p.inp.closed = false
  /-- … and the pump never panics -/
  noPanic : pol = true → p.panicked = false

set_option linter.unusedSimpArgs false

/-- re-establish every field of `Inv` for a successor that is an explicit record update -/
local macro "finish_inv" h:ident : tactic => `(tactic| (
  obtain ⟨h1, h2, h3, h4, h5, h6, h7, h8, h9, h10, h11, h12, h13⟩ := $h
  refine ⟨?_, h2, h3, ?_, ?_, ?_, ?_, ?_, ?_, ?_, ?_, ?_, ?_⟩ <;>
    simp_all [pushEg, backlog, held, Pc.sentPending, Pc.afterDone, Pc.ranging, Pc.flushing, Pc.emptied] <;>
    try omega))

/-- same, with the accounting equation given -/
local macro "finish_inv_with" h:ident a:ident : tactic => `(tactic| (
  obtain ⟨h1, h2, h3, h4, h5, h6, h7, h8, h9, h10, h11, h12, h13⟩ := $h
  refine ⟨$a, h2, h3, ?_, ?_, ?_, ?_, ?_, ?_, ?_, ?_, ?_, ?_⟩ <;>
    simp_all [pushEg, Pc.sentPending, Pc.afterDone, Pc.ranging, Pc.flushing, Pc.emptied] <;>
    try omega))

theorem inv_init (cap : Nat) (pol : Bool) : Inv cap pol (init cap : Net α) := by
  refine ⟨?_, rfl, rfl, ?_, ?_, ?_, ?_, ?_, ?_, ?_, ?_, ?_, ?_⟩ <;>
    simp [init, backlog, held, Pc.sentPending, Pc.afterDone, Pc.ranging, Pc.flushing, Pc.emptied]

theorem inv_sendEg {cap : Nat} {pol : Bool} {p q : Net α} {v : α} {rest : List α} {next : Pc α}
    (h : Inv cap pol p) (hmq : p.mq = v :: rest)
    (hpc : (p.pc = .main ∧ next = .mainSent) ∨ (p.pc = .flush ∧ next = .flushSent))
    (hq : q ∈ sendEg p v next) : Inv cap pol q := by
  have hnc : ¬ (p.eg.closed = true) := by
    intro hc
    have := h.egClosed.mp hc
    rcases hpc with ⟨e, _⟩ | ⟨e, _⟩ <;> rw [e] at this <;> cases this
  rw [sendEg, if_neg hnc] at hq
  split at hq
  next hroom =>
    simp only [List.mem_singleton] at hq
    subst hq
    rcases hpc with ⟨e, en⟩ | ⟨e, en⟩ <;> subst en
    · finish_inv h
    · finish_inv h
  next => simp at hq

theorem inv_proc {cap : Nat} {pol : Bool} {p q : Net α} (h : Inv cap pol p) (hq : q ∈ procNext p) : Inv cap pol q := by
  unfold procNext at hq
  split at hq
  · simp at hq
  next hnp =>
  unfold pumpNext at hq
  split at hq
  next hpc =>
    -- main
    simp only [List.mem_append] at hq
    rcases hq with (hq | hq) | hq
    · split at hq
      next hc =>
        simp only [List.mem_singleton] at hq; subst hq
        finish_inv h
      next => simp at hq
    · unfold recvIn at hq
      split at hq
      next x rest hb =>
        simp only [List.mem_singleton] at hq; subst hq
        finish_inv h
      next hb =>
        split at hq
        next hcl =>
          simp only [List.mem_singleton] at hq; subst hq
          finish_inv h
        next => simp at hq
    · split at hq
      next v rest hm => exact inv_sendEg h hm (Or.inl ⟨hpc, rfl⟩) hq
      next => simp at hq
  next x hpc =>
    simp only [List.mem_singleton] at hq; subst hq
    finish_inv h
  next hpc =>
    simp only [List.mem_singleton] at hq; subst hq
    finish_inv h
  next hpc =>
    -- drain
    split at hq
    next x rest hb =>
      simp only [List.mem_singleton] at hq; subst hq
      finish_inv h
    next hb =>
      split at hq
      next hcl =>
        simp only [List.mem_singleton] at hq; subst hq
        finish_inv h
      next hcl =>
        simp only [List.mem_singleton] at hq; subst hq
        finish_inv h
  next x hpc =>
    simp only [List.mem_singleton] at hq; subst hq
    finish_inv h
  next hpc =>
    -- closeIn
    split at hq
    next hcl =>
      simp only [List.mem_singleton] at hq; subst hq
      finish_inv h
    next hcl =>
      simp only [List.mem_singleton] at hq; subst hq
      finish_inv h
  next hpc =>
    -- range
    unfold recvIn at hq
    split at hq
    next x rest hb =>
      simp only [List.mem_singleton] at hq; subst hq
      finish_inv h
    next hb =>
      split at hq
      next hcl =>
        simp only [List.mem_singleton] at hq; subst hq
        finish_inv h
      next => simp at hq
  next x hpc =>
    simp only [List.mem_singleton] at hq; subst hq
    finish_inv h
  next hpc =>
    -- flush
    split at hq
    next v rest hm => exact inv_sendEg h hm (Or.inr ⟨hpc, rfl⟩) hq
    next hm =>
      simp only [List.mem_singleton] at hq; subst hq
      finish_inv h
  next hpc =>
    simp only [List.mem_singleton] at hq; subst hq
    finish_inv h
  next hpc =>
    -- closeEg
    split at hq
    next hcl =>
      have := h.egClosed.mp hcl
      rw [hpc] at this; cases this
    next hcl =>
      simp only [List.mem_singleton] at hq; subst hq
      finish_inv h
  next hpc => simp at hq

theorem inv_handoff {cap : Nat} {pol : Bool} {p q : Net α} {v : α} (h : Inv cap pol p)
    (hq : (q, v) ∈ handoff p) : Inv cap pol q := by
  unfold handoff at hq
  split at hq
  · simp at hq
  next hc =>
    simp only [not_or, Decidable.not_not] at hc
    split at hq
    next v' rest hpc hm =>
      simp only [List.mem_singleton, Prod.mk.injEq] at hq
      obtain ⟨hq, hv⟩ := hq
      subst hq
      finish_inv h
    next v' rest hpc hm =>
      simp only [List.mem_singleton, Prod.mk.injEq] at hq
      obtain ⟨hq, hv⟩ := hq
      subst hq
      finish_inv h
    next => simp at hq

theorem inv_env {cap : Nat} {pol : Bool} {p q : Net α} {m : Move α} {o : Obs α} (h : Inv cap pol p)
    (hp : pol = true → Polite p m) (hq : (q, o) ∈ envNext p m) : Inv cap pol q := by
  cases m with
  | send v =>
    simp only [envNext] at hq
    split at hq
    · simp only [List.mem_singleton, Prod.mk.injEq] at hq; rw [hq.1]; exact h
    next hcl =>
      split at hq
      next hroom =>
        simp only [List.mem_singleton, Prod.mk.injEq] at hq
        obtain ⟨hq, _⟩ := hq
        subst hq
        have hacct : p.delivered ++ p.eg.buf ++ backlog p ++ held p ++ (p.inp.buf ++ [v]) = p.sent ++ [v] := by
          rw [← h.acct]; simp
        finish_inv_with h hacct
      next => simp only [List.mem_singleton, Prod.mk.injEq] at hq; rw [hq.1]; exact h
  | close =>
    simp only [envNext] at hq
    split at hq
    · simp only [List.mem_singleton, Prod.mk.injEq] at hq; rw [hq.1]; exact h
    next hcl =>
      simp only [List.mem_singleton, Prod.mk.injEq] at hq
      obtain ⟨hq, _⟩ := hq
      subst hq
      simp only [Polite] at hp
      have hci : pol = true → p.pc ≠ .closeIn := by
        intro hpol e
        have := h.afterDone (by simp [e, Pc.afterDone])
        simp [hp hpol] at this
      have hacct := h.acct
      finish_inv_with h hacct
  | recv =>
    simp only [envNext] at hq
    split at hq
    next v rest hb =>
      simp only [List.mem_singleton, Prod.mk.injEq] at hq
      obtain ⟨hq, _⟩ := hq
      subst hq
      have hacct : (p.delivered ++ [v]) ++ rest ++ backlog p ++ held p ++ p.inp.buf = p.sent := by
        rw [← h.acct, hb]; simp
      finish_inv_with h hacct
    next hb =>
      split at hq
      · simp only [List.mem_singleton, Prod.mk.injEq] at hq; rw [hq.1]; exact h
      · simp only [List.mem_map, Prod.mk.injEq] at hq
        obtain ⟨⟨q', v⟩, hm, hq', _⟩ := hq
        subst hq'
        exact inv_handoff h hm
  | cancel =>
    simp only [envNext, List.mem_singleton, Prod.mk.injEq] at hq
    obtain ⟨hq, _⟩ := hq
    subst hq
    have hacct := h.acct
    finish_inv_with h hacct

theorem inv_reachable {cap : Nat} {p : Net α} (h : Reachable cap p) : Inv cap false p := by
  induction h with
  | init => exact inv_init cap false
  | step _ hs ih =>
    rcases hs with hs | ⟨m, o, hs⟩
    · exact inv_proc ih hs
    · exact inv_env ih (by simp) hs

theorem inv_reachableP {cap : Nat} {p : Net α} (h : ReachableP cap p) : Inv cap true p := by
  induction h with
  | init => exact inv_init cap true
  | step _ hs ih =>
    rcases hs with hs | ⟨m, o, hp, hs⟩
    · exact inv_proc ih hs
    · exact inv_env ih (fun _ => hp) hs

theorem reachable_of_reachableP {cap : Nat} {p : Net α} (h : ReachableP cap p) : Reachable cap p := by
  induction h with
  | init => exact .init
  | step _ hs ih =>
    refine .step ih ?_
    rcases hs with hs | ⟨m, o, _, hs⟩
    · exact Or.inl hs
    · exact Or.inr ⟨m, o, hs⟩

end Golem.Go.Unbound
