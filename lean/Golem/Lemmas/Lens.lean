/- Helper lemmas about the byte memory of `Model/Lens` and about the arity wiring `deriveN`. -/
import Golem.Model.Lens
import Golem.Lemmas.Hseq
namespace Golem.Model

/-! ### byte memory -/

theorem Mem.write_outside (m : Mem) (a : Nat) (bs : List UInt8) (x : Nat) (h : x < a ∨ a + bs.length ≤ x) :
    m.write a bs x = m x := by
  unfold Mem.write
  split
  · rename_i hc; omega
  · rfl

theorem Mem.write_inside (m : Mem) (a : Nat) (bs : List UInt8) (i : Nat) (h : i < bs.length) :
    m.write a bs (a + i) = bs[i] := by
  unfold Mem.write
  have hc : a ≤ a + i ∧ a + i - a < bs.length := by omega
  simp only [hc, and_self, dite_true]
  congr 1; omega

theorem Mem.read_length (m : Mem) (a n : Nat) : (m.read a n).length = n := by simp [Mem.read]

theorem Mem.read_write_same (m : Mem) (a : Nat) (bs : List UInt8) : (m.write a bs).read a bs.length = bs := by
  apply List.ext_getElem
  · simp [Mem.read]
  · intro i h1 h2
    simp only [Mem.read, List.getElem_map, List.getElem_range]
    exact Mem.write_inside m a bs i h2

theorem Mem.read_write_disjoint (m : Mem) (a : Nat) (bs : List UInt8) (b n : Nat)
    (h : b + n ≤ a ∨ a + bs.length ≤ b) : (m.write a bs).read b n = m.read b n := by
  unfold Mem.read
  apply List.map_congr_left
  intro i hi
  simp at hi
  exact Mem.write_outside m a bs (b + i) (by omega)

theorem Mem.write_read_self (m : Mem) (a n : Nat) : m.write a (m.read a n) = m := by
  funext x
  by_cases h : a ≤ x ∧ x - a < n
  · have : x = a + (x - a) := by omega
    rw [this, Mem.write_inside m a (m.read a n) (x - a) (by simp [Mem.read]; omega)]
    simp [Mem.read]
  · exact Mem.write_outside m a _ x (by simp [Mem.read]; omega)

theorem Mem.write_write (m : Mem) (a : Nat) (bs cs : List UInt8) (h : bs.length = cs.length) :
    (m.write a bs).write a cs = m.write a cs := by
  funext x
  by_cases hx : a ≤ x ∧ x - a < cs.length
  · have : x = a + (x - a) := by omega
    rw [this, Mem.write_inside _ a cs (x - a) hx.2, Mem.write_inside _ a cs (x - a) hx.2]
  · rw [Mem.write_outside _ a cs x (by omega), Mem.write_outside _ a cs x (by omega),
      Mem.write_outside _ a bs x (by omega)]

/-! ### FMapN as a zip -/

/-- Apply the i-th function to the i-th entry; more functions than entries is an index panic. -/
def zipE {β : Type} : List Entry → List (Entry → Except Panic β) → Except Panic (List β)
  | _, [] => .ok []
  | [], _ :: _ => .error .index
  | x :: ts, f :: fs =>
    match f x with
    | .error p => .error p
    | .ok b =>
      match zipE ts fs with
      | .error p => .error p
      | .ok bs => .ok (b :: bs)

theorem fmapFrom_zipE {β : Type} (ts : List Entry) (fs : List (Entry → Except Panic β)) (k : Nat) :
    fmapFrom ts k fs = zipE (ts.drop k) fs := by
  induction fs generalizing k with
  | nil => cases h : ts.drop k <;> simp [fmapFrom, zipE]
  | cons f fs ih =>
    simp only [fmapFrom, index]
    cases h : ts.drop k with
    | nil =>
      have : ts[k]? = none := by
        have := List.drop_eq_nil_iff.mp h; simp [this]
      simp [this, zipE]
    | cons x rest =>
      have hk : ts[k]? = some x := by
        have := List.getElem?_drop (xs := ts) (i := k) (j := 0); simp [h] at this; exact this.symm
      have hrest : ts.drop (k + 1) = rest := by
        have : ts.drop (k + 1) = (ts.drop k).drop 1 := by simp [List.drop_drop]
        rw [this, h]; rfl
      simp only [hk, zipE]
      rw [ih (k + 1), hrest]
      rfl

theorem fmapN_zipE {β : Type} (ts : List Entry) (fs : List (Entry → Except Panic β)) :
    fmapN ts fs = zipE ts fs := by simp [fmapN, fmapFrom_zipE]

end Golem.Model

namespace Golem.Model

/-! ### the arity wiring -/

def mkLens (T : GoType) (A : GoType) (e : Entry) : Lens := ⟨e, T, A⟩

def typesMatch (As : List GoType) (es : List Entry) : Bool :=
  (As.zip es).all (fun p => decide (p.2.field.type = p.1))

/-- `FMapN(seq, NewLens[T, A₁], …, NewLens[T, A_N])` on exactly N entries: every guard is checked
left to right; all pass → the positional lenses, else `panic(fmt.Errorf(…))`. -/
theorem zipE_newLens (T : GoType) (hT : T.kind = .struct) : (As : List GoType) → (es : List Entry) → es.length = As.length →
    zipE es (As.map (newLens T)) =
      if typesMatch As es then .ok (List.zipWith (mkLens T) As es) else .error .error
  | [], [], _ => by simp [zipE, typesMatch]
  | [], _ :: _, h => by simp at h
  | _ :: _, [], h => by simp at h
  | A :: As, e :: es, h => by
    have ih := zipE_newLens T hT As es (by simpa using h)
    simp only [List.map_cons, zipE, newLens, hT, ne_eq, not_true_eq_false, if_false, typesMatch, List.zip_cons_cons, List.all_cons, List.zipWith_cons_cons]
    by_cases hA : e.field.type = A
    · simp only [hA, if_true, decide_true, Bool.true_and]
      rw [ih]
      unfold typesMatch
      by_cases hall : ((As.zip es).all fun p => decide (p.snd.field.type = p.fst)) = true
      · simp [hall, mkLens]
      · simp [hall]
    · simp [hA]

theorem zipE_newReflector (T : GoType) (hT : T.kind = .struct) (As : List GoType) (es : List Entry) (h : es.length = As.length) :
    zipE es (As.map (newReflector T)) =
      if typesMatch As es then .ok (List.zipWith (mkLens T) As es) else .error .error :=
  zipE_newLens T hT As es h

theorem mapE_length {α β : Type} (f : α → Except Panic β) (xs : List α) (ys : List β)
    (h : mapE f xs = .ok ys) : ys.length = xs.length :=
  ((mapE_ok_iff f xs ys).mp h).length_eq.symm

theorem forType_type (seq : List Entry) (A : GoType) (e : Entry) (h : forType seq A = .ok e) :
    e.field.type = A ∧ e ∈ seq := by
  rw [forType_find] at h
  cases hf : seq.find? (fun e => decide (e.field.type = A)) with
  | none => simp [hf] at h
  | some x =>
    simp [hf] at h; subst h
    exact ⟨by simpa using List.find?_some hf, List.mem_of_find?_eq_some hf⟩

theorem forName_mem (seq : List Entry) (n : String) (e : Entry) (h : forName seq n = .ok e) : e ∈ seq := by
  rw [forName_find] at h
  cases hf : seq.find? (fun e => e.fieldKey == n) with
  | none => simp [hf] at h
  | some x => simp [hf] at h; subst h; exact List.mem_of_find?_eq_some hf

theorem typesMatch_of_forType (seq : List Entry) : (As : List GoType) → (es : List Entry) →
    Pointwise (fun A e => forType seq A = .ok e) As es → typesMatch As es = true
  | [], [], _ => by simp [typesMatch]
  | A :: As, e :: es, h => by
    cases h with
    | cons h1 h2 =>
      have := typesMatch_of_forType seq As es h2
      unfold typesMatch at this ⊢
      simp [(forType_type seq A e h1).1, this]
  | [], _ :: _, h => by cases h
  | _ :: _, [], h => by cases h

/-- `attr[0]` (arity 1) and `attr[0:N]` agree whenever `N ≤ len(attr)` and `attr` is not empty. -/
theorem attrNames_ok (n : Nat) (attr : List String) (hne : attr ≠ []) (hn : n ≤ attr.length) (h1 : 1 ≤ n) :
    attrNames n attr = .ok (attr.take n) := by
  unfold attrNames
  by_cases h : n = 1
  · subst h
    cases attr with
    | nil => exact absurd rfl hne
    | cons a as => simp [index]
  · simp [h, sliceTo, hn]

theorem attrNames_short (n : Nat) (attr : List String) (hn : attr.length < n) (hne : attr ≠ []) :
    attrNames n attr = .error .slice := by
  unfold attrNames
  have : n ≠ 1 := by
    cases attr with
    | nil => exact absurd rfl hne
    | cons a as => simp at hn; omega
  simp [this, sliceTo]; omega

/-- By type (no names), any container and any constructor: all witness types are looked up first,
then `FMapN` applies the constructors positionally. -/
theorem deriveN_by_type_pre (mk : GoType → GoType → Entry → Except Panic Lens)
    (T : GoType) (seq : List Entry)
    (hseq : unfold (if T.kind = .ptr then T.elem else T) [] 0 = .ok seq) (As : List GoType) :
    deriveN mk T As [] =
      match mapE (forType seq) As with
      | .error p => .error p
      | .ok es => zipE es (As.map (mk T)) := by
  simp only [deriveN, List.isEmpty_nil, if_true, newN, hseqNew, hseq]
  cases hm : mapE (forType seq) As with
  | error p => rfl
  | ok es => simp only [fmapN_zipE]

/-- By name with at least N names, any container and any constructor: the first N names are looked
up first (in order), then `FMapN` applies the constructors positionally. -/
theorem deriveN_by_name_pre (mk : GoType → GoType → Entry → Except Panic Lens)
    (T : GoType) (seq : List Entry)
    (hseq : unfold (if T.kind = .ptr then T.elem else T) [] 0 = .ok seq) (As : List GoType) (attr : List String)
    (hne : attr ≠ []) (h1 : 1 ≤ As.length) (hlen : As.length ≤ attr.length) :
    deriveN mk T As attr =
      match mapE (forName seq) (attr.take As.length) with
      | .error p => .error p
      | .ok es => zipE es (As.map (mk T)) := by
  have hemp : attr.isEmpty = false := by cases attr <;> simp_all
  have htake : (attr.take As.length).isEmpty = false := by
    cases attr with
    | nil => simp_all
    | cons a as =>
      cases hA : As.length with
      | zero => omega
      | succ n => simp
  simp only [deriveN, hemp, attrNames_ok _ attr hne hlen h1, hseqNew, hseq, htake]
  cases hm : mapE (forName seq) (attr.take As.length) with
  | error p => simp
  | ok es => simp only [fmapN_zipE, Bool.false_eq_true, if_false]

/-- By type, struct container: the lookups, then the positional lenses (the guards cannot fail). -/
theorem deriveN_by_type (mk : GoType → GoType → Entry → Except Panic Lens) (hmk : mk = newLens ∨ mk = newReflector)
    (T : GoType) (hT : T.kind = .struct) (seq : List Entry)
    (hseq : unfold (if T.kind = .ptr then T.elem else T) [] 0 = .ok seq) (As : List GoType) :
    deriveN mk T As [] =
      match mapE (forType seq) As with
      | .error p => .error p
      | .ok es => .ok (List.zipWith (mkLens T) As es) := by
  have hmk' : ∀ es, es.length = As.length → zipE es (As.map (mk T)) =
      if typesMatch As es then .ok (List.zipWith (mkLens T) As es) else .error .error := by
    intro es h; rcases hmk with rfl | rfl
    · exact zipE_newLens T hT As es h
    · exact zipE_newReflector T hT As es h
  rw [deriveN_by_type_pre mk T seq hseq As]
  cases hm : mapE (forType seq) As with
  | error p => rfl
  | ok es =>
    simp only
    rw [hmk' es (mapE_length _ _ _ hm)]
    rw [typesMatch_of_forType seq As es ((mapE_ok_iff _ _ _).mp hm)]
    rfl

/-- By name, struct container, at least N names: the first N names are looked up first (in order),
then the type guards are checked left to right. -/
theorem deriveN_by_name (mk : GoType → GoType → Entry → Except Panic Lens) (hmk : mk = newLens ∨ mk = newReflector)
    (T : GoType) (hT : T.kind = .struct) (seq : List Entry)
    (hseq : unfold (if T.kind = .ptr then T.elem else T) [] 0 = .ok seq) (As : List GoType) (attr : List String)
    (hne : attr ≠ []) (h1 : 1 ≤ As.length) (hlen : As.length ≤ attr.length) :
    deriveN mk T As attr =
      match mapE (forName seq) (attr.take As.length) with
      | .error p => .error p
      | .ok es => if typesMatch As es then .ok (List.zipWith (mkLens T) As es) else .error .error := by
  have hmk' : ∀ es, es.length = As.length → zipE es (As.map (mk T)) =
      if typesMatch As es then .ok (List.zipWith (mkLens T) As es) else .error .error := by
    intro es h; rcases hmk with rfl | rfl
    · exact zipE_newLens T hT As es h
    · exact zipE_newReflector T hT As es h
  rw [deriveN_by_name_pre mk T seq hseq As attr hne h1 hlen]
  cases hm : mapE (forName seq) (attr.take As.length) with
  | error p => rfl
  | ok es =>
    have hl : es.length = As.length := by
      rw [mapE_length _ _ _ hm]; simp; omega
    simp only
    rw [hmk' es hl]

/-- A container type parameter that is not a struct: the first constructor call of `FMapN` panics
(or indexing does), so `FMapN` with at least one constructor never returns. -/
theorem zipE_non_struct (mk : GoType → GoType → Entry → Except Panic Lens) (hmk : mk = newLens ∨ mk = newReflector)
    (T : GoType) (hT : T.kind ≠ .struct) (es : List Entry) (A : GoType) (As : List GoType) :
    ∃ p, zipE es ((A :: As).map (mk T)) = .error p := by
  cases es with
  | nil => exact ⟨.index, rfl⟩
  | cons e es =>
    refine ⟨.error, ?_⟩
    rcases hmk with rfl | rfl <;> simp [zipE, newLens, newReflector, hT]

theorem GoType.fields?_of_kind_struct : (t : GoType) → t.kind = .struct → ∃ fs, t.fields? = some fs
  | .struct fs, _ => ⟨fs, rfl⟩
  | .named _ u, h => by simpa [GoType.fields?] using u.fields?_of_kind_struct (by simpa [GoType.kind] using h)
  | .prim _, h | .slice _, h | .ptr _, h | .map _ _, h | .chan _, h | .func _, h | .array _ _, h => by
    simp [GoType.kind] at h

theorem GoType.kind_of_fields? : (t : GoType) → (fs : Fields) → t.fields? = some fs → t.kind = .struct
  | .struct _, _, _ => rfl
  | .named _ u, fs, h => by simpa [GoType.kind] using u.kind_of_fields? fs (by simpa [GoType.fields?] using h)
  | .prim _, _, h | .slice _, _, h | .ptr _, _, h | .map _ _, _, h | .chan _, _, h | .func _, _, h | .array _ _, _, h => by
    simp [GoType.fields?] at h

end Golem.Model

namespace Golem.Model

/-! ### soundness and failure lemmas for `deriveN` (used by Props/C02) -/

theorem Pointwise.forall_right {α β : Type} {R : α → β → Prop} {Q : β → Prop} {xs : List α} {ys : List β}
    (h : Pointwise R xs ys) (hq : ∀ x y, R x y → Q y) : ∀ y ∈ ys, Q y := by
  induction h with
  | nil => simp
  | cons h1 _ ih =>
    intro y hy
    rcases List.mem_cons.mp hy with rfl | hy
    · exact hq _ _ h1
    · exact ih y hy

theorem zipWith_sound (T : GoType) (seq : List Entry) : (As : List GoType) → (es : List Entry) →
    es.length = As.length → (∀ e ∈ es, e ∈ seq) → typesMatch As es = true →
    Pointwise (fun A l => ∃ e ∈ seq, e.field.type = A ∧ l = mkLens T A e) As (List.zipWith (mkLens T) As es)
  | [], [], _, _, _ => .nil
  | [], _ :: _, h, _, _ => by simp at h
  | _ :: _, [], h, _, _ => by simp at h
  | A :: As, e :: es, h, hmem, htm => by
    simp only [typesMatch, List.zip_cons_cons, List.all_cons, Bool.and_eq_true, decide_eq_true_eq] at htm
    exact .cons ⟨e, hmem e (by simp), htm.1, rfl⟩
      (zipWith_sound T seq As es (by simpa using h) (fun x hx => hmem x (by simp [hx])) htm.2)

/-- Whatever `deriveN` returns is, position by position, a lens on an entry of the full listing
whose declared type is identical to the requested focus type. -/
theorem deriveN_sound (mk : GoType → GoType → Entry → Except Panic Lens) (hmk : mk = newLens ∨ mk = newReflector)
    (T : GoType) (hT : T.kind = .struct) (seq : List Entry)
    (hseq : unfold (if T.kind = .ptr then T.elem else T) [] 0 = .ok seq) (As : List GoType) (attr : List String)
    (h1 : 1 ≤ As.length) (ls : List Lens) (hok : deriveN mk T As attr = .ok ls) :
    Pointwise (fun A l => ∃ e ∈ seq, e.field.type = A ∧ l = mkLens T A e) As ls := by
  by_cases hne : attr = []
  · subst hne
    rw [deriveN_by_type mk hmk T hT seq hseq As] at hok
    cases hm : mapE (forType seq) As with
    | error p => simp [hm] at hok
    | ok es =>
      simp [hm] at hok; subst hok
      have hp := (mapE_ok_iff _ _ _).mp hm
      exact zipWith_sound T seq As es (mapE_length _ _ _ hm)
        (hp.forall_right (fun A e h => (forType_type seq A e h).2)) (typesMatch_of_forType seq As es hp)
  · by_cases hlen : As.length ≤ attr.length
    · rw [deriveN_by_name mk hmk T hT seq hseq As attr hne h1 hlen] at hok
      cases hm : mapE (forName seq) (attr.take As.length) with
      | error p => simp [hm] at hok
      | ok es =>
        simp only [hm] at hok
        by_cases htm : typesMatch As es = true
        · simp [htm] at hok; subst hok
          have hp := (mapE_ok_iff _ _ _).mp hm
          have hl : es.length = As.length := by rw [mapE_length _ _ _ hm]; simp; omega
          exact zipWith_sound T seq As es hl (hp.forall_right (fun n e h => forName_mem seq n e h)) htm
        · simp [htm] at hok
    · have : attr.isEmpty = false := by cases attr <;> simp_all
      simp [deriveN, this, attrNames_short As.length attr (by omega) hne] at hok

theorem mapE_forName_missing (seq : List Entry) : (names : List String) →
    (∃ n ∈ names, seq.find? (fun e => e.fieldKey == n) = none) → mapE (forName seq) names = .error .errType
  | [], h => by simp at h
  | a :: as, h => by
    simp only [mapE]
    rw [forName_find]
    cases hf : seq.find? (fun e => e.fieldKey == a) with
    | none => rfl
    | some e =>
      have : ∃ n ∈ as, seq.find? (fun e => e.fieldKey == n) = none := by
        obtain ⟨n, hn, hnone⟩ := h
        rcases List.mem_cons.mp hn with rfl | hn
        · simp [hf] at hnone
        · exact ⟨n, hn, hnone⟩
      simp [mapE_forName_missing seq as this]

theorem mapE_forType_missing (seq : List Entry) : (As : List GoType) →
    (∃ A ∈ As, seq.find? (fun e => decide (e.field.type = A)) = none) → mapE (forType seq) As = .error .errType
  | [], h => by simp at h
  | a :: as, h => by
    simp only [mapE]
    rw [forType_find]
    cases hf : seq.find? (fun e => decide (e.field.type = a)) with
    | none => rfl
    | some e =>
      have : ∃ A ∈ as, seq.find? (fun e => decide (e.field.type = A)) = none := by
        obtain ⟨n, hn, hnone⟩ := h
        rcases List.mem_cons.mp hn with rfl | hn
        · simp [hf] at hnone
        · exact ⟨n, hn, hnone⟩
      simp [mapE_forType_missing seq as this]

theorem typesMatch_false_of_mismatch : (As : List GoType) → (es : List Entry) → (i : Nat) → (A : GoType) → (e : Entry) →
    As[i]? = some A → es[i]? = some e → e.field.type ≠ A → typesMatch As es = false
  | [], _, _, _, _, h, _, _ => by simp at h
  | _ :: _, [], _, _, _, _, h, _ => by simp at h
  | B :: As, f :: es, 0, A, e, h1, h2, hne => by
    simp at h1 h2; subst h1; subst h2
    simp [typesMatch, hne]
  | B :: As, f :: es, i + 1, A, e, h1, h2, hne => by
    simp at h1 h2
    have := typesMatch_false_of_mismatch As es i A e h1 h2 hne
    simp only [typesMatch] at this ⊢
    simp [this]

end Golem.Model
