/-
A small extra invariant of the worker pool: an output that was to be closed and is no longer on
the closer's list has been closed.  Together with `quiescent_drained` / `quiescent_cancelled`
(`toClose = []`) this gives "every returned channel is closed".
-/
import Golem.Lemmas.PoolInv
namespace Golem.Go.Pool
open Golem.Go

variable {σ α β : Type}

/-- `closed` flags of the outputs and the closer's list are only touched by the closer -/
def SameClosing (p q : Pool σ α β) : Prop :=
  q.toClose = p.toClose ∧ (∀ k, (q.outs k).closed = (p.outs k).closed) ∧ q.nW = p.nW ∧ q.gated = p.gated ∧
    ∀ k, (q.outs k).cap = (p.outs k).cap

theorem sameClosing_refl (p : Pool σ α β) : SameClosing p p := ⟨rfl, fun _ => rfl, rfl, rfl, fun _ => rfl⟩

theorem sameClosing_setW (p : Pool σ α β) (i : Nat) (w : Worker σ α β) : SameClosing p (p.setW i w) :=
  ⟨rfl, fun _ => rfl, rfl, rfl, fun _ => rfl⟩

theorem sameClosing_pushOut (p : Pool σ α β) (i k : Nat) (v : β) : SameClosing p (p.pushOut i k v) := by
  refine ⟨rfl, fun k' => ?_, rfl, rfl, fun k' => ?_⟩ <;>
    (simp only [pushOut, upd]; split <;> simp_all)

theorem SameClosing.trans {p q r : Pool σ α β} (h1 : SameClosing p q) (h2 : SameClosing q r) : SameClosing p r :=
  ⟨h2.1.trans h1.1, fun k => (h2.2.1 k).trans (h1.2.1 k), h2.2.2.1.trans h1.2.2.1, h2.2.2.2.1.trans h1.2.2.2.1,
   fun k => (h2.2.2.2.2 k).trans (h1.2.2.2.2 k)⟩

theorem workerNext_sameClosing (st : Stage σ α β) (p q : Pool σ α β) (i : Nat)
    (hq : q ∈ workerNext st p i) : SameClosing p q := by
  unfold workerNext at hq
  cases hctl : (p.ws i).ctl with
  | idle s =>
    simp only [hctl] at hq
    cases hb : (p.ins (p.ws i).inp).buf with
    | nil =>
      simp only [hb] at hq
      split at hq
      · simp only [List.mem_singleton] at hq; subst hq; exact sameClosing_setW _ _ _
      · simp at hq
    | cons a rest =>
      simp only [hb, List.mem_singleton] at hq; subst hq; exact ⟨rfl, fun _ => rfl, rfl, rfl, fun _ => rfl⟩
  | calling s a =>
    simp only [hctl] at hq
    split at hq
    · simp at hq
    · simp only [List.mem_singleton] at hq; subst hq; exact sameClosing_setW _ _ _
  | busy s ems aft =>
    cases ems with
    | nil =>
      cases aft with
      | cont => simp only [hctl, List.mem_singleton] at hq; subst hq; exact sameClosing_setW _ _ _
      | stop => simp only [hctl, List.mem_singleton] at hq; subst hq; exact sameClosing_setW _ _ _
      | poll =>
        simp only [hctl] at hq
        split at hq <;> (simp only [List.mem_singleton] at hq; subst hq; exact sameClosing_setW _ _ _)
    | cons e rest =>
      simp only [hctl, List.mem_append] at hq
      rcases hq with hq | hq
      · split at hq
        · simp only [List.mem_singleton] at hq; subst hq; exact ⟨rfl, fun _ => rfl, rfl, rfl, fun _ => rfl⟩
        · split at hq
          · simp only [List.mem_singleton] at hq; subst hq
            exact (sameClosing_pushOut _ _ _ _).trans (sameClosing_setW _ _ _)
          · simp at hq
      · split at hq
        · simp only [List.mem_singleton] at hq; subst hq; exact sameClosing_setW _ _ _
        · simp at hq
  | exiting s fin why =>
    cases fin with
    | nil => simp only [hctl, List.mem_singleton] at hq; subst hq; exact sameClosing_setW _ _ _
    | cons x rest =>
      obtain ⟨k, v⟩ := x
      simp only [hctl] at hq
      split at hq
      · simp only [List.mem_singleton] at hq; subst hq; exact ⟨rfl, fun _ => rfl, rfl, rfl, fun _ => rfl⟩
      · split at hq
        · simp only [List.mem_singleton] at hq; subst hq
          exact (sameClosing_pushOut _ _ _ _).trans (sameClosing_setW _ _ _)
        · simp at hq
  | exited s why => simp [hctl] at hq

theorem handoff_sameClosing (p : Pool σ α β) (k i : Nat) (q : Pool σ α β) (v : β)
    (hq : (q, v) ∈ handoff p k i) : SameClosing p q := by
  unfold handoff at hq
  cases hctl : (p.ws i).ctl with
  | busy s ems aft =>
    cases ems with
    | nil => simp [hctl] at hq
    | cons e rest =>
      simp only [hctl] at hq
      split at hq
      · simp only [List.mem_singleton, Prod.mk.injEq] at hq; obtain ⟨rfl, _⟩ := hq; exact ⟨rfl, fun _ => rfl, rfl, rfl, fun _ => rfl⟩
      · simp at hq
  | exiting s fin why =>
    cases fin with
    | nil => simp [hctl] at hq
    | cons x rest =>
      obtain ⟨k', v'⟩ := x
      simp only [hctl] at hq
      split at hq
      · simp only [List.mem_singleton, Prod.mk.injEq] at hq; obtain ⟨rfl, _⟩ := hq; exact ⟨rfl, fun _ => rfl, rfl, rfl, fun _ => rfl⟩
      · simp at hq
  | idle s => simp [hctl] at hq
  | calling s a => simp [hctl] at hq
  | exited s why => simp [hctl] at hq

theorem envNext_sameClosing (st : Stage σ α β) (p q : Pool σ α β) (m : Move α) (o : Obs β)
    (hq : (q, o) ∈ envNext st p m) : SameClosing p q := by
  cases m with
  | send j v =>
    simp only [envNext] at hq
    split at hq
    · simp only [List.mem_singleton, Prod.mk.injEq] at hq; obtain ⟨rfl, _⟩ := hq; exact sameClosing_refl _
    · split at hq <;>
        (simp only [List.mem_singleton, Prod.mk.injEq] at hq; obtain ⟨rfl, _⟩ := hq; exact ⟨rfl, fun _ => rfl, rfl, rfl, fun _ => rfl⟩)
  | close j =>
    simp only [envNext] at hq
    split at hq <;>
      (simp only [List.mem_singleton, Prod.mk.injEq] at hq; obtain ⟨rfl, _⟩ := hq; exact ⟨rfl, fun _ => rfl, rfl, rfl, fun _ => rfl⟩)
  | recv k =>
    simp only [envNext] at hq
    split at hq
    · simp only [List.mem_singleton, Prod.mk.injEq] at hq; obtain ⟨rfl, _⟩ := hq
      refine ⟨rfl, fun k' => ?_, rfl, rfl, fun k' => ?_⟩ <;>
        (simp only [upd]; split <;> simp_all)
    · split at hq
      · simp only [List.mem_singleton, Prod.mk.injEq] at hq; obtain ⟨rfl, _⟩ := hq; exact sameClosing_refl _
      · simp only [List.mem_map, List.mem_flatMap, List.mem_range, Prod.exists, Prod.mk.injEq] at hq
        obtain ⟨q', v, ⟨i, _, hh⟩, rfl, _⟩ := hq
        exact handoff_sameClosing p k i q' v hh
  | cancel =>
    simp only [envNext, List.mem_singleton, Prod.mk.injEq] at hq; obtain ⟨rfl, _⟩ := hq; exact ⟨rfl, fun _ => rfl, rfl, rfl, fun _ => rfl⟩
  | release i =>
    simp only [envNext] at hq
    split at hq <;>
      (simp only [List.mem_singleton, Prod.mk.injEq] at hq; obtain ⟨rfl, _⟩ := hq
       first | exact sameClosing_setW _ _ _ | exact sameClosing_refl _)

/-- every output on the original close list is still on the closer's list or already closed -/
def ClosedInv (closes : List Nat) (p : Pool σ α β) : Prop :=
  ∀ k ∈ closes, k ∈ p.toClose ∨ (p.outs k).closed = true

theorem closedInv_step (st : Stage σ α β) (closes : List Nat) {p q : Pool σ α β}
    (h : ClosedInv closes p) (hs : Step st p q) : ClosedInv closes q := by
  have same : SameClosing p q → ClosedInv closes q := by
    intro ⟨h1, h2, _, _, _⟩ k hk
    rcases h k hk with hk | hk
    · left; rw [h1]; exact hk
    · right; rw [h2]; exact hk
  rcases hs with hq | ⟨m, o, hq⟩
  · simp only [procNext, List.mem_append, List.mem_flatMap, List.mem_range] at hq
    rcases hq with ⟨i, _, hq⟩ | hq
    · exact same (workerNext_sameClosing st p q i hq)
    · unfold closerNext at hq
      split at hq
      · simp at hq
      · rename_i k rest hk
        split at hq
        · split at hq
          · simp only [List.mem_singleton] at hq; subst hq; exact same ⟨rfl, fun _ => rfl, rfl, rfl, fun _ => rfl⟩
          · simp only [List.mem_singleton] at hq; subst hq
            intro k' hk'
            rcases h k' hk' with h' | h'
            · rw [hk] at h'
              rcases List.mem_cons.mp h' with rfl | h'
              · right; simp [upd]
              · left; exact h'
            · right; simp only [upd]; split <;> simp_all
        · simp at hq
  · exact same (envNext_sameClosing st p q m o hq)

theorem closedInv_reachable (st : Stage σ α β) (nW : Nat) (inp : Nat → Nat) (s0 : σ) (inCap outCap : Nat → Nat)
    (toClose : List Nat) (gated : Bool) {p : Pool σ α β}
    (hr : Reachable st (Pool.init nW inp s0 inCap outCap toClose gated) p) : ClosedInv toClose p := by
  induction hr with
  | init => intro k hk; left; exact hk
  | step _ hs ih => exact closedInv_step st toClose ih hs

/-- once the closer's list is empty every output it was responsible for is closed -/
theorem all_closed_of_done {closes : List Nat} {p : Pool σ α β} (h : ClosedInv closes p) (hd : p.toClose = []) :
    ∀ k ∈ closes, (p.outs k).closed = true := by
  intro k hk
  rcases h k hk with h' | h'
  · rw [hd] at h'; simp at h'
  · exact h'


/-- the number of workers and the gate flag are configuration: no move changes them -/
theorem step_cfg (st : Stage σ α β) {p q : Pool σ α β} (hs : Step st p q) :
    q.nW = p.nW ∧ q.gated = p.gated ∧ ∀ k, (q.outs k).cap = (p.outs k).cap := by
  rcases hs with hq | ⟨m, o, hq⟩
  · simp only [procNext, List.mem_append, List.mem_flatMap, List.mem_range] at hq
    rcases hq with ⟨i, _, hq⟩ | hq
    · exact (workerNext_sameClosing st p q i hq).2.2
    · unfold closerNext at hq
      split at hq
      · simp at hq
      · split at hq
        · split at hq
          · simp only [List.mem_singleton] at hq; subst hq; exact ⟨rfl, rfl, fun _ => rfl⟩
          · simp only [List.mem_singleton] at hq; subst hq
            refine ⟨rfl, rfl, fun k' => ?_⟩
            simp only [upd]; split <;> simp_all
        · simp at hq
  · exact (envNext_sameClosing st p q m o hq).2.2

theorem reachable_cfg {st : Stage σ α β} {p0 p : Pool σ α β} (hr : Reachable st p0 p) :
    p.nW = p0.nW ∧ p.gated = p0.gated ∧ ∀ k, (p.outs k).cap = (p0.outs k).cap := by
  induction hr with
  | init => exact ⟨rfl, rfl, fun _ => rfl⟩
  | step _ hs ih =>
    have := step_cfg st hs
    exact ⟨this.1.trans ih.1, this.2.1.trans ih.2.1, fun k => (this.2.2 k).trans (ih.2.2 k)⟩

theorem reachable_nW {st : Stage σ α β} {p0 p : Pool σ α β} (hr : Reachable st p0 p) : p.nW = p0.nW :=
  (reachable_cfg hr).1

theorem reachable_gated {st : Stage σ α β} {p0 p : Pool σ α β} (hr : Reachable st p0 p) : p.gated = p0.gated :=
  (reachable_cfg hr).2.1

theorem reachable_outCap {st : Stage σ α β} {p0 p : Pool σ α β} (hr : Reachable st p0 p) (k : Nat) :
    (p.outs k).cap = (p0.outs k).cap := (reachable_cfg hr).2.2 k

end Golem.Go.Pool
