/-
List lemmas for the error modes of `function.go` (C07) and side conditions of the
termination theorems (C06): what `Stage.run` of Map/FMap sends under Lift and under Try.
-/
import Golem.Lemmas.StageSpec
namespace Golem.Lemmas.StageErr
open Golem.Go Golem.Go.Stage Golem.Model Golem.Lemmas.StageSpec

variable {σ α β ε : Type}

def isOk (f : α → Except ε β) (a : α) : Bool := match f a with | .ok _ => true | .error _ => false
def okVal (f : α → Except ε β) (a : α) : Option β := match f a with | .ok b => some b | .error _ => none
def errVal (f : α → Except ε β) (a : α) : Option ε := match f a with | .ok _ => none | .error e => some e

/-- Lift: images of the elements before the first failing one; then that error, once; then nothing -/
theorem map_lift_runFrom (f : α → Except ε β) (r : Run Unit (β ⊕ ε)) (hr : r.stopped = false) (as : List α) :
    onCh 0 (runFrom (mapS .lift f) r as).ems = onCh 0 r.ems ++ ((as.takeWhile (isOk f)).filterMap (okVal f)).map Sum.inl ∧
    onCh 1 (runFrom (mapS .lift f) r as).ems = onCh 1 r.ems ++ (((as.dropWhile (isOk f)).head?.bind (errVal f)).toList.map Sum.inr) ∧
    (runFrom (mapS .lift f) r as).stopped = (as.any fun a => !isOk f a) := by
  induction as generalizing r with
  | nil => simp [hr]
  | cons a as ih =>
    rw [runFrom_cons]
    cases h : f a with
    | ok b =>
      have hs : ((mapS .lift f).runL r a).stopped = false := by simp [runL, hr, mapS, h]
      obtain ⟨h0, h1, h2⟩ := ih _ hs
      refine ⟨?_, ?_, ?_⟩
      · rw [h0]; simp [runL, hr, mapS, h, isOk, okVal, onCh_cons, List.takeWhile_cons]
      · rw [h1]; simp [runL, hr, mapS, h, isOk, onCh_cons, List.dropWhile_cons]
      · rw [h2]; simp [isOk, h]
    | error e =>
      have hs : ((mapS .lift f).runL r a).stopped = true := by simp [runL, hr, mapS, h, catchAfter]
      rw [runFrom_stopped _ _ _ hs]
      refine ⟨?_, ?_, ?_⟩
      · simp [runL, hr, mapS, h, isOk, catchEm, onCh_cons, List.takeWhile_cons]
      · simp [runL, hr, mapS, h, isOk, errVal, catchEm, onCh_cons, List.dropWhile_cons]
      · simp [runL, hr, mapS, h, isOk, catchAfter]

theorem map_lift_out (f : α → Except ε β) (as : List α) :
    onCh 0 ((mapS .lift f).run () as).ems = ((as.takeWhile (isOk f)).filterMap (okVal f)).map Sum.inl ∧
    onCh 1 ((mapS .lift f).run () as).ems = (((as.dropWhile (isOk f)).head?.bind (errVal f)).toList.map Sum.inr) ∧
    ((mapS .lift f).run () as).stopped = (as.any fun a => !isOk f a) := by
  have := map_lift_runFrom f { s := (), ems := [], stopped := false } rfl as
  simpa [run_eq_runFrom] using this

/-- Try: every failing element yields exactly one error and no output, every other element exactly
its output, both streams in input order; the loop never returns -/
theorem map_try_out (f : α → Except ε β) (as : List α) :
    onCh 0 ((mapS .try_ f).run () as).ems = (as.filterMap (okVal f)).map Sum.inl ∧
    onCh 1 ((mapS .try_ f).run () as).ems = (as.filterMap (errVal f)).map Sum.inr ∧
    ((mapS .try_ f).run () as).stopped = false := by
  rw [run_stateless (mapS .try_ f) (fun a => match f a with
        | .ok b => [⟨0, .inl b, .sel⟩]
        | .error e => [⟨1, .inr e, .sel⟩])]
  · refine ⟨?_, ?_, rfl⟩
    · simp only [onCh_flatMap]
      induction as with
      | nil => rfl
      | cons a as ih =>
        simp only [List.flatMap_cons, ih, List.filterMap_cons]
        cases h : f a <;> simp [okVal, h, onCh_cons]
    · simp only [onCh_flatMap]
      induction as with
      | nil => rfl
      | cons a as ih =>
        simp only [List.flatMap_cons, ih, List.filterMap_cons]
        cases h : f a <;> simp [errVal, h, onCh_cons]
  · intro a; simp only [mapS]; cases f a <;> simp [catchEm]
  · intro a; simp only [mapS]; cases f a <;> simp [catchAfter]

/-- FMap under Try with the arrow family "fail before sending anything or send everything" -/
theorem fmap_try_out (g : α → List β × Option ε) (as : List α) :
    onCh 0 ((fmapS .try_ g).run () as).ems = (as.flatMap fun a => (g a).1).map Sum.inl ∧
    onCh 1 ((fmapS .try_ g).run () as).ems = (as.filterMap fun a => (g a).2).map Sum.inr ∧
    ((fmapS .try_ g).run () as).stopped = false := by
  rw [run_stateless (fmapS .try_ g) (fun a => ((g a).1.map fun b => ⟨0, .inl b, .sel⟩) ++
        (match (g a).2 with | none => [] | some e => [⟨1, .inr e, .sel⟩]))]
  · refine ⟨?_, ?_, rfl⟩
    · simp only [onCh_flatMap]
      induction as with
      | nil => rfl
      | cons a as ih =>
        simp only [List.flatMap_cons, ih, List.map_append]
        cases h : (g a).2 <;> simp [onCh_cons]
    · simp only [onCh_flatMap]
      induction as with
      | nil => rfl
      | cons a as ih =>
        simp only [List.flatMap_cons, ih, List.filterMap_cons]
        cases h : (g a).2 <;> simp [onCh_cons]
  · intro a; simp only [fmapS]; cases (g a).2 <;> simp [catchEm]
  · intro a; simp only [fmapS]; cases (g a).2 <;> simp [catchAfter]

/-- a predicate that holds of every send of every loop body holds of every send of the run -/
theorem run_all (st : Stage σ α β) (P : Em β → Prop) (hP : ∀ s a, ∀ e ∈ (st.react s a).2.1, P e)
    (s0 : σ) (as : List α) : ∀ e ∈ (st.run s0 as).ems, P e := by
  suffices ∀ (r : Run σ β), (∀ e ∈ r.ems, P e) → ∀ e ∈ (runFrom st r as).ems, P e by
    exact this _ (by simp)
  induction as with
  | nil => intro r hr; simpa using hr
  | cons a as ih =>
    intro r hr
    rw [runFrom_cons]
    apply ih
    intro e he
    simp only [runL] at he
    split at he
    · exact hr e he
    · simp only [List.mem_append] at he
      rcases he with he | he
      · exact hr e he
      · exact hP _ _ e he

/-- every send of the run is a `select` send when every loop body only performs `select` sends -/
theorem run_all_sel (st : Stage σ α β) (hsel : ∀ s a, ∀ e ∈ (st.react s a).2.1, e.mode = .sel)
    (s0 : σ) (as : List α) : ∀ e ∈ (st.run s0 as).ems, e.mode = .sel := run_all st _ hsel s0 as

end Golem.Lemmas.StageErr
