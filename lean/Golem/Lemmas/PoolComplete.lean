/-
Completion lemmas for pools with any number of workers (fork stages, Join): uncancelled, all
workers gone ⇒ outputs are a permutation of the stage's meaning on the partition of the input.
-/
import Golem.Lemmas.PoolClosed
import Golem.Lemmas.StageSpec
namespace Golem.Go.Pool
open Golem.Go Golem.Go.Stage Golem.Lemmas.StageSpec

variable {σ α β : Type}

theorem run_never_stopped (st : Stage σ α β) (hns : ∀ s a, (st.react s a).2.2 ≠ .stop) (s0 : σ) (as : List α) :
    (st.run s0 as).stopped = false := by
  suffices ∀ r : Run σ β, r.stopped = false → (runFrom st r as).stopped = false from this _ rfl
  induction as with
  | nil => intro r hr; simpa using hr
  | cons a as ih =>
    intro r hr
    rw [runFrom_cons]
    apply ih
    simp only [runL, hr, Bool.false_eq_true, if_false]
    have := hns r.s a
    cases h : (st.react r.s a).2.2 <;> simp_all

/-- an exited worker of an uncancelled pool has performed every send of its sequential meaning -/
theorem exited_out_eq {st : Stage σ α β} {s0 : σ} {inp : Nat → Nat} {p : Pool σ α β}
    (h : Inv st s0 inp p) (hc : p.cancelled = false) (i : Nat) (hx : Ctl.isExited (p.ws i).ctl = true) :
    (p.ws i).out = (st.run s0 (p.ws i).hist).ems ∧ (p.ws i).fout = st.final (st.run s0 (p.ws i).hist).s := by
  have hw := h.worker i
  unfold WInv at hw
  cases hctl : (p.ws i).ctl with
  | exited s why =>
    simp only [hctl] at hw
    obtain ⟨hs, _, hne, _, _, hd, hf⟩ := hw
    refine ⟨hne ?_, by rw [hf, hs]⟩
    intro hwd
    have := hd hwd
    rw [hc] at this; cases this
  | idle s => simp [hctl, Ctl.isExited] at hx
  | calling s a => simp [hctl, Ctl.isExited] at hx
  | busy s e a => simp [hctl, Ctl.isExited] at hx
  | exiting s f w => simp [hctl, Ctl.isExited] at hx

/-- an exited worker of an uncancelled pool whose loop body never returns left through end of input:
its input is closed and drained -/
theorem exited_eof {st : Stage σ α β} {s0 : σ} {inp : Nat → Nat} {p : Pool σ α β}
    (h : Inv st s0 inp p) (hc : p.cancelled = false) (hns : ∀ s a, (st.react s a).2.2 ≠ .stop)
    (i : Nat) (hx : Ctl.isExited (p.ws i).ctl = true) :
    (p.ins (inp i)).closed = true ∧ (p.ins (inp i)).buf = [] := by
  have hw := h.worker i
  have hi := h.inpConst i
  unfold WInv at hw
  cases hctl : (p.ws i).ctl with
  | exited s why =>
    simp only [hctl] at hw
    obtain ⟨_, _, _, hst, heof, hd, _⟩ := hw
    cases why with
    | eof => have := heof rfl; rw [hi] at this; exact this.2
    | stop => have := hst rfl; rw [run_never_stopped st hns] at this; cases this
    | done => have := hd rfl; rw [hc] at this; cases this
  | idle s => simp [hctl, Ctl.isExited] at hx
  | calling s a => simp [hctl, Ctl.isExited] at hx
  | busy s e a => simp [hctl, Ctl.isExited] at hx
  | exiting s f w => simp [hctl, Ctl.isExited] at hx

theorem allExited_worker {p : Pool σ α β} (hx : p.allExited = true) (i : Nat) (hi : i < p.nW) :
    Ctl.isExited (p.ws i).ctl = true := by
  simp only [allExited, List.all_eq_true, List.mem_range] at hx
  exact hx i hi

end Golem.Go.Pool
