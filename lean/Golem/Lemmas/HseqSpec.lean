/-
Specification side of C03 (core Lean only).

`flatten` is the listing the property describes, written without accumulator, offsets or IDs:
depth-first pre-order over the fields, an embedded struct (held by value or through one pointer)
being immediately followed by its own fields.  Each node carries the selector path (field
indices from the outer struct) and whether an embedded POINTER was crossed on the way.

`walk` is the accumulator-free form of `unfold` that also carries the path; it is only a proof
device connecting `unfold` (Model/Hseq) with `flatten` and with `pathLookup` (Model/Layout).
-/
import Golem.Model.Hseq
namespace Golem.Model

structure Node where
  path : List Nat
  via : Bool
  decl : FieldDecl
  deriving DecidableEq, Repr

mutual
/-- Fields of the struct reached from `t` by at most one pointer dereference (`deref`), as nodes
below `pre`; crossing the pointer sets `via`. -/
def flattenInto : GoType → Bool → List Nat → Bool → List Node
  | .ptr u, true, pre, _ => flattenInto u false pre true
  | .named _ u, d, pre, via => flattenInto u d pre via
  | .struct fs, _, pre, via => flattenFields fs 0 pre via
  | _, _, _, _ => []
/-- Pre-order listing of the fields `fs` (the first of which has index `i`) below `pre`. -/
def flattenFields : Fields → Nat → List Nat → Bool → List Node
  | .nil, _, _, _ => []
  | .cons n e tg t rest, i, pre, via =>
    ⟨pre ++ [i], via, ⟨n, e, tg, t⟩⟩ ::
      ((if e && (derefOnce t).kind = .struct then flattenInto t true (pre ++ [i]) via else []) ++
        flattenFields rest (i + 1) pre via)
end

/-- The listing of a struct type. -/
def flatten (S : GoType) : List Node :=
  match S.fields? with
  | some fs => flattenFields fs 0 [] false
  | none => []

structure Item where
  path : List Nat
  via : Bool
  entry : Entry

mutual
def walkInto : GoType → Bool → List Nat → Bool → Nat → Nat → List Item
  | .ptr u, true, pre, _, off, k => walkInto u false pre true off k
  | .named _ u, d, pre, via, off, k => walkInto u d pre via off k
  | .struct fs, _, pre, via, off, k => walkFields fs 0 pre via 0 off k
  | _, _, _, _, _, _ => []
def walkFields : Fields → Nat → List Nat → Bool → Nat → Nat → Nat → List Item
  | .nil, _, _, _, _, _, _ => []
  | .cons n e tg t rest, i, pre, via, cur, offset, k =>
    let fvOffset := alignUp cur t.align
    let entry : Entry :=
      { field := ⟨n, e, tg, t⟩, offset := fvOffset, rootOffs := offset, pureType := derefOnce t, id := k }
    let sub := if e && (derefOnce t).kind = .struct then walkInto t true (pre ++ [i]) via (offset + fvOffset) (k + 1) else []
    ⟨pre ++ [i], via, entry⟩ :: (sub ++ walkFields rest (i + 1) pre via (fvOffset + t.size) offset (k + 1 + sub.length))
end

def Item.node (it : Item) : Node := ⟨it.path, it.via, it.entry.field⟩

/-- `Pointwise R xs ys`: same length and `R xs[i] ys[i]` for every position. -/
inductive Pointwise {α β : Type} (R : α → β → Prop) : List α → List β → Prop
  | nil : Pointwise R [] []
  | cons {a b as bs} : R a b → Pointwise R as bs → Pointwise R (a :: as) (b :: bs)

theorem Pointwise.length_eq {α β : Type} {R : α → β → Prop} {xs : List α} {ys : List β}
    (h : Pointwise R xs ys) : xs.length = ys.length := by
  induction h <;> simp_all

theorem Pointwise.get {α β : Type} {R : α → β → Prop} {xs : List α} {ys : List β}
    (h : Pointwise R xs ys) : ∀ (i : Nat) x y, xs[i]? = some x → ys[i]? = some y → R x y := by
  induction h with
  | nil => simp
  | cons h1 _ ih =>
    intro i x y hx hy
    cases i with
    | zero => simp at hx hy; subst hx; subst hy; exact h1
    | succ i => simp at hx hy; exact ih i x y hx hy

end Golem.Model
