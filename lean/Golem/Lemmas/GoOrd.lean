/- The built-in orders of Model/GoOrd are strict total orders with decidable equality (core only). -/
import Golem.Model.GoOrd
namespace Golem.Lemmas.GoOrd
open Golem.Model.GoOrd

/-- What C17 needs to know about a base type's `==` and `<`. -/
class LawfulGoOrd (T : Type) [GoOrd T] : Prop where
  eq_iff : ∀ a b : T, goEq a b = true ↔ a = b
  lt_irrefl : ∀ a : T, goLt a a = false
  lt_trans : ∀ a b c : T, goLt a b = true → goLt b c = true → goLt a c = true
  lt_total : ∀ a b : T, goLt a b = true ∨ a = b ∨ goLt b a = true

instance : LawfulGoOrd Int where
  eq_iff a b := by simp [goEq]
  lt_irrefl a := by simp [goLt]
  lt_trans a b c := by simp [goLt]; omega
  lt_total a b := by simp [goLt]; omega

theorem u8_lt_irrefl (x : UInt8) : ¬ x < x := by
  rw [UInt8.lt_iff_toNat_lt]; omega
theorem u8_lt_trans {x y z : UInt8} : x < y → y < z → x < z := by
  simp only [UInt8.lt_iff_toNat_lt]; omega
theorem u8_eq_of_not_lt {x y : UInt8} : ¬ x < y → ¬ y < x → x = y := by
  simp only [UInt8.lt_iff_toNat_lt]
  intro h1 h2
  apply UInt8.toNat_inj.mp; omega
theorem u8_eq_of_le {x y : UInt8} : ¬ x < y → x ≤ y → x = y := by
  simp only [UInt8.lt_iff_toNat_lt, UInt8.le_iff_toNat_le]
  intro h1 h2
  apply UInt8.toNat_inj.mp; omega
theorem u8_lt_asymm {x y : UInt8} : x < y → ¬ y < x := by
  simp only [UInt8.lt_iff_toNat_lt]; omega

theorem strEq_iff (a b : GoString) : strEq a b = true ↔ a = b := by
  induction a generalizing b with
  | nil => cases b <;> simp [strEq]
  | cons x xs ih => cases b with
    | nil => simp [strEq]
    | cons y ys => simp [strEq, ih]

theorem strLt_irrefl (a : GoString) : strLt a a = false := by
  induction a with
  | nil => rfl
  | cons x xs ih => simp [strLt, ih]

theorem strLt_trans (a b c : GoString) : strLt a b = true → strLt b c = true → strLt a c = true := by
  induction a generalizing b c with
  | nil =>
    cases b with
    | nil => simp [strLt]
    | cons y ys => cases c <;> simp [strLt]
  | cons x xs ih =>
    cases b with
    | nil => simp [strLt]
    | cons y ys =>
      cases c with
      | nil => simp [strLt]
      | cons z zs =>
        simp only [strLt]
        intro h1 h2
        by_cases hxy : x < y
        · by_cases hyz : y < z
          · simp [u8_lt_trans hxy hyz]
          · simp [hyz] at h2
            have : y = z := u8_eq_of_le hyz h2.1
            subst this; simp [hxy]
        · simp [hxy] at h1
          have : x = y := u8_eq_of_le hxy h1.1
          subst this
          by_cases hyz : x < z
          · simp [hyz]
          · simp [hyz] at h2
            simp [hyz, h2.1, ih ys zs h1.2 h2.2]

theorem strLt_total (a b : GoString) : strLt a b = true ∨ a = b ∨ strLt b a = true := by
  induction a generalizing b with
  | nil => cases b <;> simp [strLt]
  | cons x xs ih =>
    cases b with
    | nil => simp [strLt]
    | cons y ys =>
      simp only [strLt]
      by_cases hxy : x < y
      · simp [hxy]
      · by_cases hyx : y < x
        · simp [hxy, hyx]
        · have : x = y := u8_eq_of_not_lt hxy hyx
          subst this
          simp [hxy]
          exact ih ys

instance : LawfulGoOrd GoString where
  eq_iff := strEq_iff
  lt_irrefl := strLt_irrefl
  lt_trans := strLt_trans
  lt_total := strLt_total

/-- Consequences used by the property theorems. -/
theorem lt_asymm {T : Type} [GoOrd T] [LawfulGoOrd T] (a b : T) : goLt a b = true → goLt b a = false := by
  intro h
  cases hb : goLt b a with
  | false => rfl
  | true =>
    have := LawfulGoOrd.lt_trans a b a h hb
    rw [LawfulGoOrd.lt_irrefl a] at this
    cases this

theorem not_lt_of_eq {T : Type} [GoOrd T] [LawfulGoOrd T] (a : T) : goLt a a = false := LawfulGoOrd.lt_irrefl a

/-- `strLt` is the lexicographic order of Lean's lists of bytes. -/
theorem strLt_iff_lex (a b : GoString) : strLt a b = true ↔ a < b := by
  induction a generalizing b with
  | nil => cases b <;> simp [strLt]
  | cons x xs ih =>
    cases b with
    | nil => simp [strLt]
    | cons y ys =>
      simp only [strLt, List.cons_lt_cons_iff]
      by_cases hxy : x < y
      · simp [hxy]
      · by_cases hyx : y < x
        · have : x ≠ y := by intro h; subst h; exact hxy hyx
          simp [hxy, hyx, this]
        · have : x = y := u8_eq_of_not_lt hxy hyx
          subst this
          simp [hxy, ih]

end Golem.Lemmas.GoOrd
