/-
EAGER time (timers fire exactly when due — the semantics the oracle driver executes and
`testing/synctest` realises) and a consumer that KEEPS UP (receives whatever is available before it
lets the clock advance): Emit hands the result of index `i` over at time `(i+1)·frequency` exactly,
and it is received at that very time.  Also: the executable `quiesce` / `advance` of the driver only
produce states reachable under eager time.  Core Lean only.
-/
import Golem.Lemmas.SourcesSeq
namespace Golem.Go.Sources
open Golem.Go Golem.Model

variable {β ε : Type}

theorem EagerStep.toStep {P : Fn β ε} {p q : Src β ε} (h : EagerStep P p q) : Step P p q := by
  rcases h with h | ⟨k, o, h⟩ | ⟨o, h⟩ | ⟨d, o, _, h⟩
  · exact Or.inl h
  · exact Or.inr ⟨_, o, h⟩
  · exact Or.inr ⟨_, o, h⟩
  · exact Or.inr ⟨_, o, h⟩

theorem KeepUpStep.toEager {P : Fn β ε} {p q : Src β ε} (h : KeepUpStep P p q) : EagerStep P p q := by
  rcases h with h | ⟨k, o, h⟩ | ⟨d, o, ht, _, _, h⟩
  · exact Or.inl h
  · exact Or.inr (Or.inl ⟨k, o, h⟩)
  · exact Or.inr (Or.inr (Or.inr ⟨d, o, ht, h⟩))

theorem EagerReachable.toReachable {P : Fn β ε} {p0 p : Src β ε} (h : EagerReachable P p0 p) : Reachable P p0 p := by
  induction h with
  | init => exact .init
  | step _ hs ih => exact .step ih hs.toStep

theorem KeepUpReachable.toEager {P : Fn β ε} {p0 p : Src β ε} (h : KeepUpReachable P p0 p) : EagerReachable P p0 p := by
  induction h with
  | init => exact .init
  | step _ hs ih => exact .step ih hs.toEager

/-- results of the non-failing indices below `n`, each stamped with its due time `(j+1)·frequency` -/
def okAt (P : Fn β ε) (n : Nat) : List (β × Nat) :=
  (List.range n).filterMap fun j => match P.emitF j with | .ok v => some (v, (j + 1) * P.freq) | .error _ => none

theorem okAt_succ_ok {P : Fn β ε} {n : Nat} {v : β} (h : P.emitF n = .ok v) :
    okAt P (n + 1) = okAt P n ++ [(v, (n + 1) * P.freq)] := by
  simp [okAt, List.range_succ, List.filterMap_append, h]

theorem okAt_succ_err {P : Fn β ε} {n : Nat} {e : ε} (h : P.emitF n = .error e) : okAt P (n + 1) = okAt P n := by
  simp [okAt, List.range_succ, List.filterMap_append, h]

/-- for a function that never fails: one value per tick -/
theorem okAt_pure {P : Fn β ε} (g : Nat → β) (hg : ∀ i, P.emitF i = .ok (g i)) (n : Nat) :
    okAt P n = (List.range n).map fun j => (g j, (j + 1) * P.freq) := by
  induction n with
  | zero => simp [okAt]
  | succ n ih => rw [okAt_succ_ok (hg n), ih]; simp [List.range_succ]

def KeepAt (P : Fn β ε) (now : Nat) : Pc β ε → Prop
  | .eLoop i => now = i * P.freq
  | .eSleep i w => w = (i + 1) * P.freq ∧ i * P.freq ≤ now ∧ now ≤ w
  | .eApply i => now = (i + 1) * P.freq
  | .eOffer i _ => now = (i + 1) * P.freq
  | .eCatch i _ => now = (i + 1) * P.freq
  | _ => True

structure KeepInv (P : Fn β ε) (p : Src β ε) : Prop where
  notCancelled : p.cancelled = false
  at_ : KeepAt P p.now p.pc
  /-- the value of index `j` was sent at time `(j+1)·frequency` -/
  sent : p.emitted = okAt P p.iters
  /-- and received at the time it was sent -/
  pend : ∃ pend, p.delivered ++ pend = p.emitted ∧ ∀ x ∈ pend, x.2 = p.now

theorem keepInv_init (P : Fn β ε) (cap : Nat) : KeepInv P (initEmit P.mode cap) := by
  constructor <;> simp [initEmit, KeepAt, okAt]

theorem pend_nil_of_buf_nil {P : Fn β ε} {p : Src β ε} (hI : Inv P p) (hb : p.out.buf = [])
    {pend : List (β × Nat)} (hp : p.delivered ++ pend = p.emitted) : pend = [] := by
  have h1 := congrArg List.length hI.fifoOut
  have h2 := congrArg List.length hp
  simp [hb] at h1 h2
  exact List.eq_nil_of_length_eq_zero (by omega)

theorem keepInv_trans {P : Fn β ε} {p q : Src β ε} (hI : Inv P p) (hE : EmitInv P p) (hK : KeepInv P p)
    (ht : Trans P p q) : KeepInv P q := by
  obtain ⟨hn, ha, hs, pend, hp, hpt⟩ := hK
  have hat := hE.at_
  cases ht with
  | recvExx | nop => exact ⟨hn, ha, hs, pend, hp, hpt⟩
  | uSend s h | uHand s h | uCallOk s h | uCallErr s e h | uCatchSend s e h | uCatchHand s e h =>
    simp [h, EmitAt] at hat
  | done hc => simp [hn] at hc
  | closeExx h | closeOut h => exact ⟨hn, by simp [KeepAt], hs, pend, hp, hpt⟩
  | loop i h =>
    simp only [h, KeepAt] at ha
    refine ⟨hn, ?_, hs, pend, hp, hpt⟩
    simp only [KeepAt, Nat.add_mul, Nat.one_mul]; omega
  | wake i w h hw =>
    simp only [h, KeepAt] at ha
    refine ⟨hn, ?_, hs, pend, hp, hpt⟩
    simp only [KeepAt]; omega
  | callOk i v h hf | callErr i v h hf =>
    simp only [h, KeepAt] at ha
    exact ⟨hn, by simpa [KeepAt] using ha, hs, pend, hp, hpt⟩
  | eSend i v h hcl hlt =>
    simp only [h, KeepAt] at ha
    simp only [h, EmitAt] at hat
    obtain ⟨rfl, hf, -⟩ := hat
    refine ⟨hn, by simpa [KeepAt] using ha, ?_, pend ++ [(v, p.now)], ?_, ?_⟩
    · simp only []; rw [okAt_succ_ok hf, hs, ha]
    · simp only []; rw [← List.append_assoc, hp]
    · intro x hx
      rcases List.mem_append.1 hx with hx | hx
      · exact hpt x hx
      · simp at hx; subst hx; rfl
  | eHand i v h hcl hb =>
    simp only [h, KeepAt] at ha
    simp only [h, EmitAt] at hat
    obtain ⟨rfl, hf, -⟩ := hat
    have hpn := pend_nil_of_buf_nil hI hb hp
    subst hpn
    refine ⟨hn, by simpa [KeepAt] using ha, ?_, [], ?_, by simp⟩
    · simp only []; rw [okAt_succ_ok hf, hs, ha]
    · simp only []; simp at hp; rw [hp]; simp
  | recvOut v rest hb =>
    have hf := hI.fifoOut
    rw [← hp, hb] at hf
    simp only [List.map_append] at hf
    have hf' := List.append_cancel_left hf
    cases pend with
    | nil => simp at hf'
    | cons x pend' =>
      simp at hf'
      have hx := hpt x (by simp)
      refine ⟨hn, ha, hs, pend', ?_, fun y hy => hpt y (by simp [hy])⟩
      simp only []
      rw [← hp]
      have : x = (v, p.now) := by
        cases x with
        | mk a b => simp at hx hf'; simp [hx, hf'.1]
      rw [this]; simp
  | eCatchSend i e h hcl hlt =>
    simp only [h, KeepAt] at ha
    simp only [h, EmitAt] at hat
    obtain ⟨rfl, hf, -⟩ := hat
    refine ⟨hn, ?_, ?_, pend, hp, hpt⟩
    · cases hm : P.mode <;> simp [afterCatch, hm, KeepAt, ha]
    · simp only []; rw [okAt_succ_err hf, hs]
  | eCatchHand i e h hcl hb =>
    simp only [h, KeepAt] at ha
    simp only [h, EmitAt] at hat
    obtain ⟨rfl, hf, -⟩ := hat
    refine ⟨hn, ?_, ?_, pend, hp, hpt⟩
    · cases hm : P.mode <;> simp [afterCatch, hm, KeepAt, ha]
    · simp only []; rw [okAt_succ_err hf, hs]


theorem canRecv_out_false {P : Fn β ε} {p : Src β ε} (h : canRecv P p 0 = false) : p.out.buf = [] ∧ handOut p = none := by
  unfold canRecv envNext at h
  cases hb : p.out.buf with
  | cons v rest => simp [hb] at h
  | nil =>
    refine ⟨rfl, ?_⟩
    cases hh : handOut p with
    | none => rfl
    | some x => obtain ⟨q, v⟩ := x; simp [hb, hh] at h

theorem canRecv_exx_false {P : Fn β ε} {p : Src β ε} (h : canRecv P p 1 = false) : p.exx.buf = [] ∧ handExx P p = none := by
  unfold canRecv envNext at h
  cases hb : p.exx.buf with
  | cons v rest => simp [hb] at h
  | nil =>
    refine ⟨rfl, ?_⟩
    cases hh : handExx P p with
    | none => rfl
    | some x => obtain ⟨q, v⟩ := x; simp [hb, hh] at h

/-- at rest with nothing to receive on either channel: the goroutine has returned or is asleep -/
theorem rest_keepup_cases {P : Fn β ε} {p : Src β ε} (hI : Inv P p) (hs : procNext P p = [])
    (h0 : canRecv P p 0 = false) (h1 : canRecv P p 1 = false) :
    p.pc = .exited ∨ ∃ i w, p.pc = .eSleep i w ∧ p.now < w := by
  obtain ⟨hb0, hh0⟩ := canRecv_out_false h0
  obtain ⟨hb1, hh1⟩ := canRecv_exx_false h1
  rcases stuck_cases hI hs with he | hsl | ⟨_, ⟨hpc, _⟩ | ⟨hpc, _, _⟩⟩
  · exact Or.inl he
  · exact Or.inr hsl
  · exfalso
    have hc : p.out.closed = false := by
      cases hcl : p.out.closed with
      | false => rfl
      | true => have := hI.outClosed hcl; rcases hpc with ⟨i, v, h⟩ | ⟨s, h⟩ <;> simp [h] at this
    rcases hpc with ⟨i, v, h⟩ | ⟨s, h⟩ <;> simp [handOut, hc, hb0, h] at hh0
  · exfalso
    have hc : p.exx.closed = false := by
      cases hcl : p.exx.closed with
      | false => rfl
      | true => have := hI.exxClosed hcl; rcases hpc with ⟨i, v, h⟩ | ⟨s, e, h⟩ <;> simp [h] at this
    rcases hpc with ⟨i, v, h⟩ | ⟨s, e, h⟩ <;> simp [handExx, hc, hb1, h] at hh1

theorem keepInv_tick {P : Fn β ε} {p : Src β ε} {d : Nat} (hI : Inv P p) (hK : KeepInv P p)
    (ht : tickOk P p d) (h0 : canRecv P p 0 = false) (h1 : canRecv P p 1 = false) :
    KeepInv P { p with now := p.now + d } := by
  obtain ⟨hn, ha, hs, pend, hp, hpt⟩ := hK
  have hpn := pend_nil_of_buf_nil hI (canRecv_out_false h0).1 hp
  subst hpn
  refine ⟨hn, ?_, hs, [], hp, by simp⟩
  rcases rest_keepup_cases hI ht.1 h0 h1 with he | ⟨i, w, hpc, hlt⟩
  · simp [he, KeepAt]
  · have hw := ht.2 w (by simp [wake?, hpc])
    simp only [hpc, KeepAt] at ha ⊢
    omega

theorem keepUp_inv {P : Fn β ε} {cap : Nat} {p : Src β ε} (hr : KeepUpReachable P (initEmit P.mode cap) p) :
    Inv P p ∧ EmitInv P p ∧ KeepInv P p := by
  induction hr with
  | init => exact ⟨inv_initEmit P cap, emitInv_init P cap, keepInv_init P cap⟩
  | step hr' hs ih =>
    obtain ⟨hI, hE, hK⟩ := ih
    have hst : Step P _ _ := hs.toEager.toStep
    refine ⟨inv_step hI hst, emitInv_reachable (.step hr'.toEager.toReachable hst), ?_⟩
    rcases hs with hq | ⟨k, o, hq⟩ | ⟨d, o, ht, h0, h1, hq⟩
    · exact keepInv_trans hI hE hK (proc_trans hI hq)
    · exact keepInv_trans hI hE hK (recv_trans hq)
    · simp [envNext] at hq
      rw [hq.1]
      exact keepInv_tick hI hK ht h0 h1

/-! ### the driver's exploration functions stay within eager time -/

inductive EagerRun (P : Fn β ε) : Src β ε → Src β ε → Prop
  | refl (p) : EagerRun P p p
  | step {p q r} : EagerRun P p q → EagerStep P q r → EagerRun P p r

theorem EagerRun.trans {P : Fn β ε} {p q r : Src β ε} (h1 : EagerRun P p q) (h2 : EagerRun P q r) : EagerRun P p r := by
  induction h2 with
  | refl => exact h1
  | step _ hs ih => exact .step ih hs

theorem EagerRun.head {P : Fn β ε} {p q r : Src β ε} (hs : EagerStep P p q) (h : EagerRun P q r) : EagerRun P p r :=
  EagerRun.trans (.step (.refl p) hs) h

theorem EagerReachable.run {P : Fn β ε} {p0 p q : Src β ε} (h : EagerReachable P p0 p) (hr : EagerRun P p q) :
    EagerReachable P p0 q := by
  induction hr with
  | refl => exact h
  | step _ hs ih => exact .step ih hs

theorem EagerRun.toReachable {P : Fn β ε} {p q : Src β ε} (h : EagerRun P p q) : Reachable P p q :=
  (EagerReachable.run .init h).toReachable

theorem Reachable.trans {P : Fn β ε} {p q r : Src β ε} (h1 : Reachable P p q) (h2 : Reachable P q r) : Reachable P p r := by
  induction h2 with
  | init => exact h1
  | step _ hs ih => exact .step ih hs

/-- `quiesce` follows process moves only -/
theorem quiesce_run {P : Fn β ε} (n : Nat) {p q : Src β ε} (h : q ∈ quiesce P n p) : EagerRun P p q := by
  induction n generalizing p with
  | zero => simp [quiesce] at h; subst h; exact .refl _
  | succ n ih =>
    unfold quiesce at h
    split at h
    · simp at h; subst h; exact .refl _
    · split at h
      · simp at h; subst h; exact .refl _
      next qs hne =>
        rcases List.mem_flatMap.1 h with ⟨r, hr, hq⟩
        exact EagerRun.head (Or.inl hr) (ih hq)

/-- with enough fuel `quiesce` ends in states at rest (or panicked ones, which `Inv` excludes) -/
theorem quiesce_rest {P : Fn β ε} (n : Nat) {p q : Src β ε} (hI : Inv P p) (hv : variant p < n)
    (h : q ∈ quiesce P n p) : procNext P q = [] := by
  induction n generalizing p with
  | zero => omega
  | succ n ih =>
    unfold quiesce at h
    split at h
    next hp => simp [hI.noPanic] at hp
    · split at h
      next hnil => simp at h; subst h; exact hnil
      next qs hne =>
        rcases List.mem_flatMap.1 h with ⟨r, hr, hq⟩
        have := proc_decreases hI hr
        exact ih (inv_proc hI hr) (by omega) hq

/-- run to rest, let `d` ms pass, run to rest again -/
theorem reach_quiesce_tick {P : Fn β ε} {n m d : Nat} {p q1 q2 : Src β ε} (h1 : q1 ∈ quiesce P n p)
    (h2 : q2 ∈ quiesce P m { q1 with now := q1.now + d }) : Reachable P p q2 :=
  Reachable.trans (.step (quiesce_run n h1).toReachable (Or.inr ⟨.tick d, .ok, by simp [envNext]⟩))
    (quiesce_run m h2).toReachable

/-! ### the script move `t<d>` -/

theorem variant_le (p : Src β ε) : variant p ≤ 8 * (p.out.cap + p.exx.cap) + 6 := by
  have hr : p.pc.rank ≤ 6 := by cases p.pc <;> simp [Pc.rank]
  simp only [variant, free]
  omega

theorem reachable_caps {P : Fn β ε} {p0 p : Src β ε} (h0 : Inv P p0) (hr : Reachable P p0 p) :
    p.out.cap = p0.out.cap ∧ p.exx.cap = p0.exx.cap :=
  reachable_induct (fun p => p.out.cap = p0.out.cap ∧ p.exx.cap = p0.exx.cap) h0 ⟨rfl, rfl⟩
    (fun p q _ hJ ht => by cases ht <;> exact hJ) (fun _ hJ => hJ) (fun _ _ hJ => hJ) hr

theorem sendOut_nil_iff {p : Src β ε} {v : β} {next : Pc β ε} {bump : Nat} :
    sendOut p v next bump = [] ↔ p.out.closed = false ∧ ¬ p.out.buf.length < p.out.cap := by
  unfold sendOut
  cases hc : p.out.closed <;> simp

theorem sendExx_nil_iff {p : Src β ε} {e : ε} {next : Pc β ε} :
    sendExx p e next = [] ↔ p.exx.closed = false ∧ ¬ p.exx.buf.length < p.exx.cap := by
  unfold sendExx
  cases hc : p.exx.closed <;> simp

theorem doneArm_nil_iff {p : Src β ε} : doneArm p = [] ↔ p.cancelled = false := by
  unfold doneArm
  cases hc : p.cancelled <;> simp

/-- whether the process can move does not depend on the clock, except for a pending wake-up -/
theorem procNext_nil_now {P : Fn β ε} {p : Src β ε} (t : Nat) (hs : procNext P p = [])
    (hw : ∀ w, wake? p = some w → t < w) : procNext P { p with now := t } = [] := by
  cases hpc : p.pc with
  | eSleep i w =>
    have := hw w (by simp [wake?, hpc])
    simp [procNext, hpc]; omega
  | eLoop i => simp [procNext, hpc] at hs
  | eApply i => simp only [procNext, hpc] at hs; split at hs <;> simp at hs
  | uApply s => simp only [procNext, hpc] at hs; split at hs <;> simp at hs
  | eOffer i v =>
    simp only [procNext, hpc, List.append_eq_nil_iff, sendOut_nil_iff, doneArm_nil_iff] at hs ⊢
    exact hs
  | uOffer s =>
    simp only [procNext, hpc, List.append_eq_nil_iff, sendOut_nil_iff, doneArm_nil_iff] at hs ⊢
    exact hs
  | eCatch i e =>
    simp only [procNext, hpc] at hs ⊢
    cases hm : P.mode <;> simp only [hm, List.append_eq_nil_iff, sendExx_nil_iff, doneArm_nil_iff] at hs ⊢ <;> exact hs
  | uCatch s e =>
    simp only [procNext, hpc] at hs ⊢
    cases hm : P.mode <;> simp only [hm, List.append_eq_nil_iff, sendExx_nil_iff, doneArm_nil_iff] at hs ⊢ <;> exact hs
  | closeExx => simp only [procNext, hpc] at hs; split at hs <;> simp at hs
  | closeOut => simp only [procNext, hpc] at hs; split at hs <;> simp at hs
  | exited => simp [procNext, hpc]

/-- the driver's `t<d>` from a state at rest: every state it returns is reached by EAGER steps — tick
exactly to the next wake-up, process moves to rest, …, tick the remainder — and is at rest again -/
theorem advance_run {P : Fn β ε} (fuel r d : Nat) {p q : Src β ε} (hI : Inv P p) (hrest : procNext P p = [])
    (hfuel : 8 * (p.out.cap + p.exx.cap) + 6 < fuel) (h : q ∈ advance P fuel r d p) :
    EagerRun P p q ∧ procNext P q = [] := by
  induction r generalizing p d with
  | zero => simp [advance] at h
  | succ r ih =>
    have tickStep : ∀ d', (∀ w, wake? p = some w → p.now + d' ≤ w) → EagerStep P p { p with now := p.now + d' } :=
      fun d' hw => Or.inr (Or.inr (Or.inr ⟨d', .ok, ⟨hrest, hw⟩, by simp [envNext]⟩))
    have wakeLater : ∀ w, wake? p = some w → p.now < w := by
      intro w hw
      cases hpc : p.pc <;> simp [wake?, hpc] at hw
      next i w' =>
        subst hw
        simp [procNext, hpc] at hrest
        omega
    unfold advance at h
    split at h
    next w hw =>
      split at h
      next hin =>
        rcases List.mem_flatMap.1 h with ⟨q1, hq1, hq⟩
        have heq : ({ p with now := w } : Src β ε) = { p with now := p.now + (w - p.now) } := by
          have : p.now + (w - p.now) = w := by omega
          rw [this]
        have hs1 : EagerStep P p { p with now := w } := by
          rw [heq]; exact tickStep _ (fun w' hw' => by rw [hw] at hw'; cases hw'; omega)
        have hI1 : Inv P { p with now := w } := inv_step hI hs1.toStep
        have hrun1 := quiesce_run fuel hq1
        have hv : variant ({ p with now := w } : Src β ε) < fuel := Nat.lt_of_le_of_lt (variant_le _) hfuel
        have hrest1 := quiesce_rest fuel hI1 hv hq1
        have hreach : Reachable P p q1 := (EagerRun.head hs1 hrun1).toReachable
        have hIq1 := inv_reachable hI hreach
        have hcaps := reachable_caps hI hreach
        obtain ⟨hrun2, hrest2⟩ := ih (p.now + d - w) hIq1 hrest1 (by rw [hcaps.1, hcaps.2]; exact hfuel) hq
        exact ⟨EagerRun.trans (EagerRun.head hs1 hrun1) hrun2, hrest2⟩
      next hout =>
        simp at h; subst h
        have hlt : ∀ w', wake? p = some w' → p.now + d < w' := by
          intro w' hw''
          have := wakeLater w' hw''
          rw [hw] at hw''; cases hw''
          omega
        exact ⟨.step (.refl _) (tickStep d (fun w' h' => Nat.le_of_lt (hlt w' h'))), procNext_nil_now _ hrest hlt⟩
    next hw =>
      simp at h; subst h
      have hlt : ∀ w', wake? p = some w' → p.now + d < w' := by intro w' h'; rw [hw] at h'; cases h'
      exact ⟨.step (.refl _) (tickStep d (fun w' h' => Nat.le_of_lt (hlt w' h'))), procNext_nil_now _ hrest hlt⟩

end Golem.Go.Sources
