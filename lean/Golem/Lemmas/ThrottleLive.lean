/-
Termination and quiescence of the Throttling network (C06 share): a measure that every process
move decreases (so between two environment moves only finitely many process moves happen, under
every scheduler and every `select` choice), and what a state with no process move looks like after
cancellation / after everything sent has been received.  Core Lean only.
-/
import Golem.Lemmas.ThrottleInv
namespace Golem.Go.Throttle
open Golem.Go

variable {α : Type}

def rankD : DC α → Nat
  | .idle => 2 | .gate _ => 4 | .fwd _ => 3 | .closing _ => 1 | .exited _ => 0

def rankP (ops : Nat) : PC → Nat
  | .push i => if i < ops then 2 else 4
  | .wait _ => 3 | .closing => 1 | .exited => 0

/-- every process move decreases this (for `ops ≥ 1`) -/
def measure (p : Net α) : Nat :=
  if p.panicked then 0
  else 1 + 6 * (3 * p.inp.buf.length + rankD p.dc) + 5 * (p.ctl.cap - p.ctl.buf.length) + rankP p.ops p.pc

theorem pacer_decreases {p q : Net α} (hops : 1 ≤ p.ops) (hp : p.panicked = false) (hq : q ∈ pacerNext p) :
    measure q < measure p := by
  unfold pacerNext at hq
  cases hpc : p.pc with
  | push i =>
    simp only [hpc] at hq
    split at hq
    · rename_i hi
      rw [List.mem_append] at hq
      rcases hq with hq | hq
      · split at hq
        · rw [List.mem_singleton] at hq; subst hq
          simp [measure, hp]; omega
        · split at hq
          · rw [List.mem_singleton] at hq; subst hq
            simp only [measure, hp, hpc, rankP, hi, List.length_append, List.length_singleton]
            simp only [Bool.false_eq_true, if_false, if_true]
            split <;> omega
          · simp at hq
      · split at hq
        · rw [List.mem_singleton] at hq; subst hq
          simp only [measure, hp, hpc, rankP, hi]
          simp
        · simp at hq
    · rename_i hi
      rw [List.mem_singleton] at hq; subst hq
      simp only [measure, hp, hpc, rankP, hi]
      simp
  | wait due =>
    simp only [hpc] at hq
    rw [List.mem_append] at hq
    rcases hq with hq | hq
    · split at hq
      · rw [List.mem_singleton] at hq; subst hq
        have : 0 < p.ops := hops
        simp only [measure, hp, hpc, rankP, this]
        simp
      · simp at hq
    · split at hq
      · rw [List.mem_singleton] at hq; subst hq
        simp only [measure, hp, hpc, rankP]
        simp
      · simp at hq
  | closing =>
    simp only [hpc] at hq
    split at hq
    · rw [List.mem_singleton] at hq; subst hq
      simp [measure, hp]; omega
    · rw [List.mem_singleton] at hq; subst hq
      simp only [measure, hp, hpc, rankP]
      simp
  | exited => simp [hpc] at hq

theorem data_decreases {p q : Net α} (hp : p.panicked = false) (hq : q ∈ dataNext p) :
    measure q < measure p := by
  unfold dataNext at hq
  cases hdc : p.dc with
  | idle =>
    simp only [hdc] at hq
    split at hq
    · rename_i a rest hb
      rw [List.mem_singleton] at hq; subst hq
      simp only [measure, hp, hdc, hb, rankD, List.length_cons]
      simp only [Bool.false_eq_true, if_false]
      omega
    · split at hq
      · rw [List.mem_singleton] at hq; subst hq
        simp only [measure, hp, hdc, rankD]
        simp
      · simp at hq
  | gate a =>
    simp only [hdc] at hq
    rw [List.mem_append] at hq
    rcases hq with hq | hq
    · split at hq
      · rename_i u rest hb
        rw [List.mem_singleton] at hq; subst hq
        simp only [measure, hp, hdc, hb, rankD, List.length_cons]
        simp only [Bool.false_eq_true, if_false]
        omega
      · split at hq
        · rw [List.mem_singleton] at hq; subst hq
          simp only [measure, hp, hdc, rankD]
          simp
        · simp at hq
    · split at hq
      · rw [List.mem_singleton] at hq; subst hq
        simp only [measure, hp, hdc, rankD]
        simp
      · simp at hq
  | fwd a =>
    simp only [hdc] at hq
    rw [List.mem_append] at hq
    rcases hq with hq | hq
    · split at hq
      · rw [List.mem_singleton] at hq; subst hq
        simp [measure, hp]; omega
      · split at hq
        · rw [List.mem_singleton] at hq; subst hq
          simp only [measure, hp, hdc, rankD]
          simp
        · simp at hq
    · split at hq
      · rw [List.mem_singleton] at hq; subst hq
        simp only [measure, hp, hdc, rankD]
        simp
      · simp at hq
  | closing w =>
    simp only [hdc] at hq
    split at hq
    · rw [List.mem_singleton] at hq; subst hq
      simp [measure, hp]; omega
    · rw [List.mem_singleton] at hq; subst hq
      simp only [measure, hp, hdc, rankD]
      simp
  | exited w => simp [hdc] at hq

theorem proc_decreases {p q : Net α} (hops : 1 ≤ p.ops) (hq : q ∈ procNext p) : measure q < measure p := by
  unfold procNext at hq
  cases hp : p.panicked with
  | true => simp [hp] at hq
  | false =>
    simp only [hp, Bool.false_eq_true, if_false, List.mem_append] at hq
    rcases hq with hq | hq
    · exact pacer_decreases hops hp hq
    · exact data_decreases hp hq

/-- process moves change neither the configuration nor the environment-owned flags -/
theorem proc_frame {p q : Net α} (hq : q ∈ procNext p) :
    q.ops = p.ops ∧ q.interval = p.interval ∧ q.out.cap = p.out.cap ∧ q.inp.cap = p.inp.cap ∧
    q.cancelled = p.cancelled ∧ q.inp.closed = p.inp.closed ∧ q.now = p.now ∧ q.sent = p.sent ∧
    q.delivered = p.delivered ∧ q.D = p.D := by
  unfold procNext at hq
  split at hq
  · simp at hq
  · rw [List.mem_append] at hq
    rcases hq with hq | hq
    · unfold pacerNext at hq
      repeat' split at hq
      all_goals (simp at hq)
      all_goals (first | (rcases hq with rfl | rfl <;> simp) | (subst hq; simp))
    · unfold dataNext at hq
      repeat' split at hq
      all_goals (simp at hq)
      all_goals (first | (rcases hq with rfl | rfl <;> simp) | (subst hq; simp))

/-- the configuration is constant along every step -/
theorem step_consts {p q : Net α} (hs : Step p q) :
    q.ops = p.ops ∧ q.interval = p.interval ∧ q.out.cap = p.out.cap ∧ q.inp.cap = p.inp.cap := by
  rcases hs with hq | ⟨m, o, hq⟩
  · have := proc_frame hq
    exact ⟨this.1, this.2.1, this.2.2.1, this.2.2.2.1⟩
  · cases m <;> simp only [envNext] at hq
    all_goals repeat' split at hq
    all_goals (simp at hq)
    all_goals (obtain ⟨rfl, _⟩ := hq; simp)

theorem reach_consts {ops interval c : Nat} {p : Net α} (hr : Reachable (init ops interval c) p) :
    p.ops = ops ∧ p.interval = interval ∧ p.out.cap = c ∧ p.inp.cap = c := by
  induction hr with
  | init => simp [init]
  | step _ hs ih =>
    have := step_consts hs
    exact ⟨this.1.trans ih.1, this.2.1.trans ih.2.1, this.2.2.1.trans ih.2.2.1, this.2.2.2.trans ih.2.2.2⟩

/-- between two environment moves the network makes only finitely many moves, whatever the
scheduler and the `select` choices -/
theorem proc_acc (p : Net α) (hops : 1 ≤ p.ops) : Acc (fun (q p : Net α) => q ∈ procNext p) p := by
  generalize hn : measure p = n
  induction n using Nat.strongRecOn generalizing p with
  | _ n ih =>
    refine Acc.intro p ?_
    intro q hq
    have hlt := proc_decreases hops hq
    exact ih (measure q) (by omega) q (by rw [(proc_frame hq).1]; exact hops) rfl

theorem procStar_frame {p q : Net α} (hs : ProcStar p q) :
    q.ops = p.ops ∧ q.interval = p.interval ∧ q.out.cap = p.out.cap ∧ q.cancelled = p.cancelled ∧
    q.inp.closed = p.inp.closed ∧ q.now = p.now ∧ q.sent = p.sent ∧ q.delivered = p.delivered := by
  induction hs with
  | refl => simp
  | step _ hq ih =>
    have := proc_frame hq
    refine ⟨this.1.trans ih.1, this.2.1.trans ih.2.1, this.2.2.1.trans ih.2.2.1, this.2.2.2.2.1.trans ih.2.2.2.1,
      this.2.2.2.2.2.1.trans ih.2.2.2.2.1, this.2.2.2.2.2.2.1.trans ih.2.2.2.2.2.1,
      this.2.2.2.2.2.2.2.1.trans ih.2.2.2.2.2.2.1, this.2.2.2.2.2.2.2.2.1.trans ih.2.2.2.2.2.2.2⟩

theorem procStar_reachable {p0 p q : Net α} (hr : Reachable p0 p) (hs : ProcStar p q) : Reachable p0 q := by
  induction hs with
  | refl => exact hr
  | step _ hq ih => exact Reachable.step ih (Or.inl hq)

theorem procNext_nil {p : Net α} (hp : p.panicked = false) (hq : procNext p = []) :
    pacerNext p = [] ∧ dataNext p = [] := by
  unfold procNext at hq
  simp only [hp, Bool.false_eq_true, if_false, List.append_eq_nil_iff] at hq
  exact hq

/-- cancelled, input closed, no process move possible ⇒ both goroutines have returned, `out` and
`ctl` are closed -/
theorem quiescent_cancelled {p : Net α} (h : Inv p) (hc : p.cancelled = true) (hcl : p.inp.closed = true)
    (hq : procNext p = []) :
    p.pc = .exited ∧ (∃ w, p.dc = .exited w) ∧ p.out.closed = true ∧ p.ctl.closed = true := by
  obtain ⟨hpn, hdn⟩ := procNext_nil h.noPanic hq
  have hpc : p.pc = .exited := by
    unfold pacerNext at hpn
    cases hpc : p.pc with
    | push i =>
      simp only [hpc, hc, if_true] at hpn
      split at hpn
      · simp at hpn
      · simp at hpn
    | wait due => simp [hpc, hc] at hpn
    | closing =>
      simp only [hpc] at hpn
      split at hpn <;> simp at hpn
    | exited => rfl
  have hdc : ∃ w, p.dc = .exited w := by
    unfold dataNext at hdn
    cases hdc : p.dc with
    | idle =>
      simp only [hdc, hcl, if_true] at hdn
      split at hdn <;> simp at hdn
    | gate a => simp [hdc, hc] at hdn
    | fwd a => simp [hdc, hc] at hdn
    | closing w =>
      simp only [hdc] at hdn
      split at hdn <;> simp at hdn
    | exited w => exact ⟨w, rfl⟩
  obtain ⟨w, hw⟩ := hdc
  have hd := h.data
  simp only [DInv, hw] at hd
  exact ⟨hpc, ⟨w, hw⟩, hd.2, h.pcExited hpc⟩

/-- input closed, everything sent has been received, no process move possible ⇒ the data goroutine
has returned and `out` is closed (cancelled or not; the pacer may still be there) -/
theorem quiescent_drained {p : Net α} (h : Inv p) (hcl : p.inp.closed = true) (hall : p.delivered = p.sent)
    (hq : procNext p = []) : (∃ w, p.dc = .exited w) ∧ p.out.closed = true := by
  obtain ⟨_, hdn⟩ := procNext_nil h.noPanic hq
  have hd := h.data
  have hf := congrArg List.length h.fifoIn
  rw [← hall] at hf
  simp at hf
  unfold dataNext at hdn
  unfold DInv at hd
  cases hdc : p.dc with
  | idle =>
    simp only [hdc, hcl, if_true] at hdn
    split at hdn <;> simp at hdn
  | gate a =>
    simp only [hdc] at hd
    have := congrArg List.length hd.1
    simp at this; omega
  | fwd a =>
    simp only [hdc] at hd
    have := congrArg List.length hd.1
    simp at this; omega
  | closing w =>
    simp only [hdc] at hdn
    split at hdn <;> simp at hdn
  | exited w =>
    simp only [hdc] at hd
    exact ⟨⟨w, rfl⟩, hd.2⟩

/-- not cancelled, the data goroutine waits at the gate, no process move possible ⇒ the pacer sits
in its timer select and the timer is not yet due: letting time pass is all that is needed -/
theorem quiescent_gate_waits_timer {p : Net α} (h : Inv p) (hops : 1 ≤ p.ops) (hnc : p.cancelled = false)
    {a : α} (hg : p.dc = .gate a) (hq : procNext p = []) : ∃ due, p.pc = .wait due ∧ p.now < due := by
  obtain ⟨hpn, hdn⟩ := procNext_nil h.noPanic hq
  have hbuf : p.ctl.buf = [] := by
    unfold dataNext at hdn
    simp only [hg] at hdn
    cases hb : p.ctl.buf with
    | nil => rfl
    | cons u rest => simp [hb] at hdn
  unfold pacerNext at hpn
  cases hpc : p.pc with
  | push i =>
    have hcl : p.ctl.closed = false := by
      cases hc : p.ctl.closed with
      | false => rfl
      | true => have := h.ctlClosed hc; rw [hpc] at this; cases this
    have hcap := h.ctlCap
    simp only [hpc, hcl, hbuf, hnc] at hpn
    split at hpn
    · simp at hpn; omega
    · simp at hpn
  | wait due =>
    simp only [hpc, hnc] at hpn
    refine ⟨due, rfl, ?_⟩
    split at hpn
    · simp at hpn
    · omega
  | closing => have := h.pcCancel (Or.inl hpc); rw [hnc] at this; cases this
  | exited => have := h.pcCancel (Or.inr hpc); rw [hnc] at this; cases this

end Golem.Go.Throttle
