/-
Pure list lemmas: the sequential meaning `Stage.run` of each stage of `Golem/Model/Stages.lean`
is the corresponding list function.  No concurrency here.
-/
import Golem.Model.Stages
namespace Golem.Lemmas.StageSpec
open Golem.Go Golem.Go.Stage Golem.Model

variable {σ α β ε : Type}

def runFrom (st : Stage σ α β) (r : Run σ β) (as : List α) : Run σ β := as.foldl st.runL r

theorem run_eq_runFrom (st : Stage σ α β) (s0 : σ) (as : List α) :
    st.run s0 as = runFrom st { s := s0, ems := [], stopped := false } as := rfl

@[simp] theorem runFrom_nil (st : Stage σ α β) (r : Run σ β) : runFrom st r [] = r := rfl
@[simp] theorem runFrom_cons (st : Stage σ α β) (r : Run σ β) (a : α) (as : List α) :
    runFrom st r (a :: as) = runFrom st (st.runL r a) as := rfl

theorem runFrom_stopped (st : Stage σ α β) (r : Run σ β) (as : List α) (h : r.stopped = true) :
    runFrom st r as = r := by
  induction as generalizing r with
  | nil => rfl
  | cons a as ih => simp [runL, h, ih]

/-- a stage whose body never returns and keeps no state: sends are the concatenation of the per-element sends -/
theorem runFrom_stateless (st : Stage Unit α β) (e : α → List (Em β))
    (he : ∀ a, (st.react () a).2.1 = e a) (hns : ∀ a, (st.react () a).2.2 ≠ .stop)
    (r : Run Unit β) (hr : r.stopped = false) (as : List α) :
    runFrom st r as = { s := (), ems := r.ems ++ as.flatMap e, stopped := false } := by
  induction as generalizing r with
  | nil => cases r; simp_all
  | cons a as ih =>
    have hs : (st.runL r a).stopped = false := by
      simp only [runL, hr, Bool.false_eq_true, if_false]
      have := hns a
      cases h : (st.react () a).2.2 <;> simp_all
    rw [runFrom_cons, ih _ hs]
    simp [runL, hr, he, List.append_assoc]

theorem run_stateless (st : Stage Unit α β) (e : α → List (Em β))
    (he : ∀ a, (st.react () a).2.1 = e a) (hns : ∀ a, (st.react () a).2.2 ≠ .stop) (as : List α) :
    st.run () as = { s := (), ems := as.flatMap e, stopped := false } := by
  rw [run_eq_runFrom, runFrom_stateless st e he hns _ rfl]; simp

@[simp] theorem onCh_nil (k : Nat) : onCh k ([] : List (Em β)) = [] := rfl
theorem onCh_cons (k : Nat) (e : Em β) (es : List (Em β)) :
    onCh k (e :: es) = if e.ch == k then e.val :: onCh k es else onCh k es := by
  simp only [onCh, List.filter_cons]; split <;> simp
@[simp] theorem onCh_append (k : Nat) (xs ys : List (Em β)) : onCh k (xs ++ ys) = onCh k xs ++ onCh k ys := by
  simp [onCh, List.filter_append]
/-- sends that all go to one channel `c` -/
@[simp] theorem onCh_map_const {γ : Type} (k c : Nat) (v : γ → β) (m : Mode) (l : List γ) :
    onCh k (l.map fun a => (⟨c, v a, m⟩ : Em β)) = if c == k then l.map v else [] := by
  induction l with
  | nil => simp
  | cons a l ih => rw [List.map_cons, onCh_cons, ih]; split <;> simp

theorem onCh_flatMap (k : Nat) (e : α → List (Em β)) (as : List α) :
    onCh k (as.flatMap e) = as.flatMap fun a => onCh k (e a) := by
  induction as with
  | nil => rfl
  | cons a as ih => simp [List.flatMap_cons, ih]

/-! ### Map -/

theorem map_run (m : ErrMode) (f : α → Except ε β) (g : α → β) (hf : ∀ a, f a = .ok (g a)) (as : List α) :
    (mapS m f).run () as = { s := (), ems := as.map fun a => ⟨0, .inl (g a), .sel⟩, stopped := false } := by
  rw [run_stateless (mapS m f) (fun a => [⟨0, .inl (g a), .sel⟩])]
  · congr 1
    induction as with
    | nil => rfl
    | cons a as ih => simp [List.flatMap_cons, ih]
  · intro a; simp [mapS, hf]
  · intro a; simp [mapS, hf]

theorem map_out (m : ErrMode) (f : α → Except ε β) (g : α → β) (hf : ∀ a, f a = .ok (g a)) (as : List α) :
    onCh 0 ((mapS m f).run () as).ems = as.map (fun a => Sum.inl (g a)) ∧
    onCh 1 ((mapS m f).run () as).ems = [] := by
  rw [map_run m f g hf]; constructor <;> simp

/-! ### FMap -/

theorem fmap_out (m : ErrMode) (g : α → List β × Option ε) (hg : ∀ a, (g a).2 = none) (as : List α) :
    onCh 0 ((fmapS m g).run () as).ems = (as.flatMap fun a => (g a).1).map Sum.inl ∧
    onCh 1 ((fmapS m g).run () as).ems = [] := by
  rw [run_stateless (fmapS m g) (fun a => (g a).1.map fun b => ⟨0, .inl b, .sel⟩)]
  · constructor
    · simp only [onCh_flatMap]
      induction as with
      | nil => rfl
      | cons a as ih => simp only [List.flatMap_cons, ih, List.map_append]; simp
    · simp only [onCh_flatMap]
      induction as with
      | nil => rfl
      | cons a as ih => simp only [List.flatMap_cons, ih]; simp
  · intro a; simp [fmapS, hg]
  · intro a; simp [fmapS, hg]

/-! ### Filter / Partition -/

theorem filter_out (f : α → Except ε Bool) (p : α → Bool) (hf : ∀ a, f a = .ok (p a)) (as : List α) :
    onCh 0 ((filterS f).run () as).ems = as.filter p := by
  rw [run_stateless (filterS f) (fun a => if p a then [⟨0, a, .sel⟩] else [])]
  · simp only [onCh_flatMap]
    induction as with
    | nil => rfl
    | cons a as ih => cases h : p a <;> simp [List.flatMap_cons, ih, onCh_cons, h]
  · intro a; simp only [filterS, hf]; cases p a <;> rfl
  · intro a; simp only [filterS, hf]; cases p a <;> simp

theorem partition_out (f : α → Except ε Bool) (p : α → Bool) (hf : ∀ a, f a = .ok (p a)) (as : List α) :
    onCh 0 ((partitionS f).run () as).ems = as.filter p ∧
    onCh 1 ((partitionS f).run () as).ems = as.filter (fun a => !p a) := by
  rw [run_stateless (partitionS f) (fun a => if p a then [⟨0, a, .sel⟩] else [⟨1, a, .sel⟩])]
  · simp only [onCh_flatMap]
    constructor
    · induction as with
      | nil => rfl
      | cons a as ih => cases h : p a <;> simp [List.flatMap_cons, ih, onCh_cons, h]
    · induction as with
      | nil => rfl
      | cons a as ih => cases h : p a <;> simp [List.flatMap_cons, ih, onCh_cons, h]
  · intro a; simp only [partitionS, hf]; cases p a <;> rfl
  · intro a; simp only [partitionS, hf]; cases p a <;> simp

/-! ### TakeWhile -/

theorem takeWhile_runFrom (f : α → Except ε Bool) (p : α → Bool) (hf : ∀ a, f a = .ok (p a))
    (r : Run Unit α) (hr : r.stopped = false) (as : List α) :
    (runFrom (takeWhileS f) r as).ems = r.ems ++ (as.takeWhile p).map fun a => ⟨0, a, .sel⟩ := by
  induction as generalizing r with
  | nil => simp
  | cons a as ih =>
    rw [runFrom_cons]
    cases h : p a
    · rw [runFrom_stopped]
      · simp [runL, hr, takeWhileS, hf, h]
      · simp [runL, hr, takeWhileS, hf, h]
    · rw [ih]
      · simp [runL, hr, takeWhileS, hf, h]
      · simp [runL, hr, takeWhileS, hf, h]

theorem takeWhile_out (f : α → Except ε Bool) (p : α → Bool) (hf : ∀ a, f a = .ok (p a)) (as : List α) :
    onCh 0 ((takeWhileS f).run () as).ems = as.takeWhile p := by
  rw [run_eq_runFrom, takeWhile_runFrom f p hf _ rfl]
  simp

/-! ### Take -/

theorem take_runFrom (n : Nat) (r : Run Int α) (hr : r.stopped = false) (hn : r.s = (n : Int) + 1) (as : List α) :
    (runFrom (takeS (α := α)) r as).ems = r.ems ++ (as.take (n + 1)).map fun a => ⟨0, a, .sel⟩ := by
  induction as generalizing r n with
  | nil => simp
  | cons a as ih =>
    rw [runFrom_cons]
    cases n with
    | zero =>
      rw [runFrom_stopped]
      · simp [runL, hr, takeS, hn]
      · simp [runL, hr, takeS, hn]
    | succ n =>
      rw [ih n]
      · simp [runL, hr, takeS, hn, List.take_succ_cons]
      · simp only [runL, hr, takeS, hn]; simp; omega
      · simp only [runL, hr, takeS, hn]; simp

/-- `Take` with `n ≥ 1` forwards exactly the first `n` elements -/
theorem take_out (n : Nat) (hn : 1 ≤ n) (as : List α) :
    onCh 0 ((takeS (α := α)).run (n : Int) as).ems = as.take n := by
  obtain ⟨m, rfl⟩ : ∃ m, n = m + 1 := ⟨n - 1, by omega⟩
  rw [run_eq_runFrom, take_runFrom m _ rfl (by simp)]
  simp only [List.nil_append]
  rw [show (List.take (m + 1) as).map (fun a => (⟨0, a, .sel⟩ : Em α)) = (List.take (m + 1) as).map (fun a => (⟨0, id a, .sel⟩ : Em α)) from rfl,
    onCh_map_const]
  simp

/-- how many elements `Take n` consumes: its body returns right after the n-th element -/
theorem take_stops (n : Nat) (as : List α) (h : n + 1 ≤ as.length) :
    ((takeS (α := α)).run ((n : Int) + 1) (as.take (n + 1))).stopped = true := by
  suffices ∀ (r : Run Int α), r.stopped = false → r.s = (n : Int) + 1 →
      (runFrom (takeS (α := α)) r (as.take (n + 1))).stopped = true from this _ rfl rfl
  induction as generalizing n with
  | nil => simp at h
  | cons a as ih =>
    intro r hr hs
    cases n with
    | zero => simp [runL, hr, takeS, hs]
    | succ n =>
      simp only [List.take_succ_cons, runFrom_cons]
      apply ih n (by simpa using h)
      · simp only [runL, hr, takeS, hs]; simp; omega
      · simp only [runL, hr, takeS, hs]; simp

/-! ### Fold / ForEach / Void -/

theorem fold_runFrom (c : α → α → α) (r : Run α α) (hr : r.stopped = false) (as : List α) :
    runFrom (foldS c) r as = { s := as.foldl c r.s, ems := r.ems, stopped := false } := by
  induction as generalizing r with
  | nil => cases r; simp_all
  | cons a as ih => rw [runFrom_cons, ih] <;> simp [runL, hr, foldS]

/-- `Fold` sends nothing from its loop and, on exit, the left fold from the given start -/
theorem fold_out (c : α → α → α) (e : α) (as : List α) :
    ((foldS c).run e as).ems = [] ∧ (foldS c).final ((foldS c).run e as).s = [(0, as.foldl c e)] := by
  rw [run_eq_runFrom, fold_runFrom c _ rfl]; simp [foldS]

theorem forEach_runFrom (r : Run (List α) Unit) (hr : r.stopped = false) (as : List α) :
    runFrom (forEachS (α := α)) r as = { s := r.s ++ as, ems := r.ems, stopped := false } := by
  induction as generalizing r with
  | nil => cases r; simp_all
  | cons a as ih => rw [runFrom_cons, ih] <;> simp [runL, hr, forEachS]

/-- `ForEach` visits every element once, in order, and sends nothing -/
theorem forEach_visits (as : List α) :
    ((forEachS (α := α)).run [] as).s = as ∧ ((forEachS (α := α)).run [] as).ems = [] := by
  rw [run_eq_runFrom, forEach_runFrom _ rfl]; simp

theorem void_out (as : List α) : ((voidS (α := α)).run () as).ems = [] := by
  rw [run_stateless voidS (fun _ => [])] <;> simp [voidS]

/-- `Join` copier: identity -/
theorem copy_out (as : List α) : onCh 0 ((copyS (α := α)).run () as).ems = as := by
  rw [run_stateless copyS (fun a => [⟨0, a, .sel⟩])]
  · show onCh 0 (as.flatMap fun a => [(⟨0, a, .sel⟩ : Em α)]) = as
    rw [onCh_flatMap]
    induction as with
    | nil => rfl
    | cons a as ih => simp only [List.flatMap_cons, ih]; simp [onCh_cons]
  · intro a; rfl
  · intro a; simp [copyS]

end Golem.Lemmas.StageSpec
