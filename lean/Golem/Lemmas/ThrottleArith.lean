/-
Pure list/arithmetic corollaries used by C13: from "the (i+K)-th stamp is at least one interval after
the i-th" to "no half-open window of that length holds more than K stamps", and from
"P_{n+ops} ≥ P_n + interval" to "P_n ≥ ⌊n/ops⌋·interval".  Core Lean only.
-/
import Golem.Lemmas.ThrottleInv
namespace Golem.Go.Throttle

theorem exists_of_lt {l : List Nat} {n : Nat} (h : n < l.length) : ∃ x, l[n]? = some x :=
  ⟨l[n], List.getElem?_eq_getElem h⟩

/-- the stamps of `D` inside the half-open window `[t, t+I)` -/
def inWindow (t I : Nat) (D : List Nat) : List Nat := D.filter fun d => decide (t ≤ d) && decide (d < t + I)

/-- a time-ordered list whose `(i+K)`-th entry is at least `I` after its `i`-th entry has at most
`K` entries in any half-open window of length `I` -/
theorem window_count (D : List Nat) (K I : Nat) (hs : D.Pairwise (· ≤ ·))
    (hg : ∀ i a b, D[i + K]? = some b → D[i]? = some a → a + I ≤ b) (t : Nat) :
    (inWindow t I D).length ≤ K := by
  induction D with
  | nil => simp [inWindow]
  | cons a rest ih =>
    have hs' := List.pairwise_cons.mp hs
    have ih' := ih hs'.2 (by
      intro i x y hy hx
      exact hg (i + 1) x y (by simpa [Nat.add_right_comm] using hy) (by simpa using hx))
    by_cases hin : t ≤ a ∧ a < t + I
    · -- the head is in the window: everything from index K on is at least `a + I ≥ t + I`
      have hlate : ∀ x ∈ (a :: rest).drop K, a + I ≤ x := by
        intro x hx
        obtain ⟨j, hj⟩ := List.getElem?_of_mem hx
        rw [List.getElem?_drop] at hj
        have hjK : (a :: rest)[j + K]? = some x := by rw [Nat.add_comm]; exact hj
        have hlt : j < (a :: rest).length := by have := lt_of_getElem? hjK; omega
        obtain ⟨y, hy⟩ := exists_of_lt hlt
        have h1 := hg j y x hjK hy
        have h2 : a ≤ y := by
          cases j with
          | zero => simp at hy; omega
          | succ j =>
            simp at hy
            exact hs'.1 y (mem_of_getElem? hy)
        omega
      have hsplit : inWindow t I (a :: rest) = inWindow t I ((a :: rest).take K) ++ inWindow t I ((a :: rest).drop K) := by
        unfold inWindow
        rw [← List.filter_append, List.take_append_drop]
      have hnil : inWindow t I ((a :: rest).drop K) = [] := by
        unfold inWindow
        rw [List.filter_eq_nil_iff]
        intro x hx
        have := hlate x hx
        simp
        omega
      rw [hsplit, hnil, List.append_nil]
      unfold inWindow
      exact Nat.le_trans (List.length_filter_le _ _) (by simp; omega)
    · have : inWindow t I (a :: rest) = inWindow t I rest := by
        unfold inWindow
        rw [List.filter_cons]
        have : (decide (t ≤ a) && decide (a < t + I)) = false := by
          simp
          omega
        simp [this]
      rw [this]
      exact ih'

/-- `P_{n+ops} ≥ P_n + interval` for all `n`  ⇒  `P_n ≥ ⌊n/ops⌋·interval` -/
theorem floor_bound (P : List Nat) (ops I : Nat) (hops : 1 ≤ ops)
    (hpp : ∀ n a b, P[n + ops]? = some b → P[n]? = some a → a + I ≤ b) :
    ∀ n a, P[n]? = some a → (n / ops) * I ≤ a := by
  intro n
  induction n using Nat.strongRecOn with
  | _ n ih =>
    intro a ha
    rcases Nat.lt_or_ge n ops with hlt | hge
    · rw [Nat.div_eq_of_lt hlt]; simp
    · obtain ⟨m, rfl⟩ : ∃ m, n = m + ops := ⟨n - ops, by omega⟩
      have hm : m < P.length := by have := lt_of_getElem? ha; omega
      obtain ⟨a0, ha0⟩ := exists_of_lt hm
      have h1 := hpp m a0 a ha ha0
      have h2 := ih m (by omega) a0 ha0
      have h3 : (m + ops) / ops = m / ops + 1 := Nat.add_div_right m (by omega)
      rw [h3, Nat.add_mul, Nat.one_mul]
      omega

end Golem.Go.Throttle
