/-
Helper lemmas for C10 (`fork.Fold`): commutative-monoid fold algebra, frame facts of the worker
pool (what process / environment moves leave untouched once every worker has exited), what a
folding worker contributes to `vals`, and the collector invariant of the composite model `FF`.
Core Lean only.
-/
import Golem.Go.ForkFold
import Golem.Lemmas.PoolComplete
namespace Golem.Lemmas.ForkFold
open Golem.Go Golem.Go.Stage Golem.Go.Pool Golem.Model Golem.Lemmas.StageSpec

/-! ### algebra: folds over a commutative monoid -/

section algebra
variable {α : Type} (c : α → α → α) (e : α)

theorem foldl_op (assoc : ∀ x y z, c (c x y) z = c x (c y z)) (idl : ∀ x, c e x = x) (idr : ∀ x, c x e = x)
    (l : List α) (a : α) : l.foldl c a = c a (l.foldl c e) := by
  induction l generalizing a with
  | nil => simp [idr]
  | cons x l ih => simp only [List.foldl_cons]; rw [ih (c a x), idl, ih x, assoc]

theorem foldl_flatten (assoc : ∀ x y z, c (c x y) z = c x (c y z)) (idl : ∀ x, c e x = x) (idr : ∀ x, c x e = x)
    (ls : List (List α)) (a : α) : (ls.map (List.foldl c e)).foldl c a = ls.flatten.foldl c a := by
  induction ls generalizing a with
  | nil => rfl
  | cons l ls ih =>
    simp only [List.map_cons, List.foldl_cons, List.flatten_cons, List.foldl_append]
    rw [ih, ← foldl_op c e assoc idl idr l a]

theorem foldl_perm (assoc : ∀ x y z, c (c x y) z = c x (c y z)) (comm : ∀ x y, c x y = c y x)
    {l₁ l₂ : List α} (h : l₁.Perm l₂) (a : α) : l₁.foldl c a = l₂.foldl c a := by
  refine h.foldl_eq' ?_ a
  intro x _ y _ z
  rw [assoc, assoc, comm x y]

end algebra

/-! ### frame facts of the pool -/

section frame
variable {σ α β : Type}

theorem workerNext_exited {st : Stage σ α β} {p : Pool σ α β} {i : Nat}
    (hx : Ctl.isExited (p.ws i).ctl = true) : workerNext st p i = [] := by
  cases hc : (p.ws i).ctl <;> simp_all [workerNext, Ctl.isExited]

theorem handoff_exited {p : Pool σ α β} {k i : Nat}
    (hx : Ctl.isExited (p.ws i).ctl = true) : handoff p k i = [] := by
  cases hc : (p.ws i).ctl <;> simp_all [handoff, Ctl.isExited]

/-- what every pool move preserves: the output capacities -/
def SameCap (p q : Pool σ α β) : Prop := ∀ k, (q.outs k).cap = (p.outs k).cap

theorem sameCap_upd_buf (p : Pool σ α β) (k : Nat) (b : List β) (k' : Nat) :
    ((upd p.outs k { p.outs k with buf := b }) k').cap = (p.outs k').cap := by
  simp only [upd]; split <;> simp_all

theorem sameCap_upd_closed (p : Pool σ α β) (k : Nat) (b : Bool) (k' : Nat) :
    ((upd p.outs k { p.outs k with closed := b }) k').cap = (p.outs k').cap := by
  simp only [upd]; split <;> simp_all

theorem workerNext_frame {st : Stage σ α β} {p q : Pool σ α β} {i : Nat} (hq : q ∈ workerNext st p i) :
    q.delivered = p.delivered ∧ SameCap p q := by
  unfold workerNext at hq
  dsimp only at hq
  repeat' split at hq
  all_goals
    simp only [List.mem_append, List.mem_singleton, List.not_mem_nil, or_false, false_or] at hq
  all_goals (try (rcases hq with hq | hq))
  all_goals (try (split at hq))
  all_goals (try (simp only [List.mem_append, List.mem_singleton, List.not_mem_nil, or_false, false_or] at hq))
  all_goals (try (subst hq))
  all_goals (first | exact ⟨rfl, fun _ => rfl⟩ | exact ⟨rfl, sameCap_upd_buf _ _ _⟩ | simp at hq)

theorem closerNext_frame {p q : Pool σ α β} (hq : q ∈ closerNext p) :
    q.delivered = p.delivered ∧ SameCap p q ∧ q.ws = p.ws ∧ q.nW = p.nW := by
  unfold closerNext at hq
  repeat' split at hq
  all_goals simp only [List.mem_singleton, List.not_mem_nil] at hq
  all_goals subst hq
  · exact ⟨rfl, fun _ => rfl, rfl, rfl⟩
  · exact ⟨rfl, sameCap_upd_closed _ _ _, rfl, rfl⟩

theorem procNext_frame {st : Stage σ α β} {p q : Pool σ α β} (hq : q ∈ procNext st p) :
    q.delivered = p.delivered ∧ SameCap p q ∧ (p.allExited = true → q.allExited = true) := by
  unfold procNext at hq
  rw [List.mem_append, List.mem_flatMap] at hq
  rcases hq with ⟨i, hi, hq⟩ | hq
  · obtain ⟨h1, h2⟩ := workerNext_frame hq
    refine ⟨h1, h2, fun hx => ?_⟩
    rw [workerNext_exited (allExited_worker hx i (List.mem_range.mp hi))] at hq
    simp at hq
  · obtain ⟨h1, h2, h3, h4⟩ := closerNext_frame hq
    refine ⟨h1, h2, fun hx => ?_⟩
    rw [allExited_iff] at hx ⊢
    rw [h3, h4]; exact hx

theorem handoff_outs {p q : Pool σ α β} {k i : Nat} {v : β} (hq : (q, v) ∈ handoff p k i) : q.outs = p.outs := by
  unfold handoff at hq
  dsimp only at hq
  repeat' split at hq
  all_goals simp only [List.mem_singleton, List.not_mem_nil, Prod.mk.injEq] at hq
  all_goals (obtain ⟨rfl, _⟩ := hq; rfl)

/-- environment moves other than a receive -/
theorem envNext_frame {st : Stage σ α β} {p q : Pool σ α β} {m : Pool.Move α} {o : Obs β}
    (hq : (q, o) ∈ envNext st p m) (hm : ∀ k, m ≠ .recv k) :
    q.delivered = p.delivered ∧ q.outs = p.outs ∧ (p.allExited = true → q.allExited = true) := by
  cases m with
  | recv k => exact absurd rfl (hm k)
  | send j v =>
    simp only [envNext] at hq
    repeat' split at hq
    all_goals (simp only [List.mem_singleton, Prod.mk.injEq] at hq; obtain ⟨rfl, _⟩ := hq; exact ⟨rfl, rfl, id⟩)
  | close j =>
    simp only [envNext] at hq
    repeat' split at hq
    all_goals (simp only [List.mem_singleton, Prod.mk.injEq] at hq; obtain ⟨rfl, _⟩ := hq; exact ⟨rfl, rfl, id⟩)
  | cancel =>
    simp only [envNext, List.mem_singleton, Prod.mk.injEq] at hq
    obtain ⟨rfl, _⟩ := hq; exact ⟨rfl, rfl, id⟩
  | release i =>
    simp only [envNext] at hq
    split at hq
    · rename_i s a hc
      simp only [List.mem_singleton, Prod.mk.injEq] at hq
      obtain ⟨rfl, _⟩ := hq
      refine ⟨rfl, rfl, fun hx => allExited_upd (p := p) (i := i) rfl rfl ?_ hx⟩
      rw [hc]; rfl
    · simp only [List.mem_singleton, Prod.mk.injEq] at hq
      obtain ⟨rfl, _⟩ := hq; exact ⟨rfl, rfl, id⟩

theorem recv_sameCap {st : Stage σ α β} {p q : Pool σ α β} {k : Nat} {o : Obs β}
    (hq : (q, o) ∈ envNext st p (.recv k)) : SameCap p q := by
  simp only [envNext] at hq
  split at hq
  · simp only [List.mem_singleton, Prod.mk.injEq] at hq
    obtain ⟨rfl, _⟩ := hq
    exact sameCap_upd_buf _ _ _
  · split at hq
    · simp only [List.mem_singleton, Prod.mk.injEq] at hq
      obtain ⟨rfl, _⟩ := hq; exact fun _ => rfl
    · simp only [List.mem_map, List.mem_flatMap, List.mem_range, Prod.exists, Prod.mk.injEq] at hq
      obtain ⟨q', v, ⟨i, _, hh⟩, rfl, _⟩ := hq
      intro k'; rw [handoff_outs hh]

/-- once every worker has exited a receive can only take the head of the buffer -/
theorem recv_exited {st : Stage σ α β} {p q : Pool σ α β} {k : Nat} {v : β} (hx : p.allExited = true)
    (hq : (q, Obs.value v) ∈ envNext st p (.recv k)) :
    q.delivered k = p.delivered k ++ [v] ∧ q.allExited = true := by
  simp only [envNext] at hq
  split at hq
  · simp only [List.mem_singleton, Prod.mk.injEq, Obs.value.injEq] at hq
    obtain ⟨rfl, rfl⟩ := hq
    exact ⟨by simp, hx⟩
  · have hnil : (List.range p.nW).flatMap (handoff p k) = [] := by
      rw [List.flatMap_eq_nil_iff]
      intro i hi
      exact handoff_exited (allExited_worker hx i (List.mem_range.mp hi))
    rw [hnil] at hq
    simp only [List.isEmpty_nil, if_true, List.mem_singleton, Prod.mk.injEq] at hq
    obtain ⟨_, h2⟩ := hq
    split at h2 <;> cases h2

theorem step_sameCap {st : Stage σ α β} {p q : Pool σ α β} (hs : Step st p q) : SameCap p q := by
  rcases hs with hq | ⟨m, o, hq⟩
  · exact (procNext_frame hq).2.1
  · cases m with
    | recv k => exact recv_sameCap hq
    | send j v => intro k; rw [(envNext_frame hq (by intro k h; cases h)).2.1]
    | close j => intro k; rw [(envNext_frame hq (by intro k h; cases h)).2.1]
    | cancel => intro k; rw [(envNext_frame hq (by intro k h; cases h)).2.1]
    | release i => intro k; rw [(envNext_frame hq (by intro k h; cases h)).2.1]

theorem reachable_outCap {st : Stage σ α β} {p0 p : Pool σ α β} (hr : Reachable st p0 p) (k : Nat) :
    (p.outs k).cap = (p0.outs k).cap := by
  induction hr with
  | init => rfl
  | step _ hs ih => rw [step_sameCap hs k, ih]

end frame

/-! ### what a folding worker sends on `vals` -/

section fold
variable {α : Type} (c : α → α → α) (e : α)

/-- everything worker `i` has sent on output 0 -/
def contrib (p : Pool α α α) (i : Nat) : List α :=
  onCh 0 (p.ws i).out ++ (((p.ws i).fout.filter (·.1 == 0)).map (·.2))

theorem fold_ems (as : List α) : ((foldS c).run e as).ems = [] := (fold_out c e as).1

/-- a folding worker never sends from its loop, and at most once on its exit path -/
theorem worker_shape {inp : Nat → Nat} {p : Pool α α α} (h : Inv (foldS c) e inp p) (i : Nat) :
    (p.ws i).out = [] ∧ (p.ws i).fout.length ≤ 1 := by
  have hw := h.worker i
  unfold WInv at hw
  cases hctl : (p.ws i).ctl with
  | idle s =>
    simp only [hctl, fold_ems] at hw
    exact ⟨hw.2.1.symm, by simp [hw.2.2.2]⟩
  | calling s a =>
    simp only [hctl, fold_ems] at hw
    obtain ⟨_, _, _, h3, _, h5⟩ := hw
    exact ⟨h3.symm, by simp [h5]⟩
  | busy s pend aft =>
    simp only [hctl, fold_ems] at hw
    obtain ⟨_, h2, _, h4⟩ := hw
    exact ⟨(List.append_eq_nil_iff.mp h2.symm).1, by simp [h4]⟩
  | exiting s fin why =>
    simp only [hctl, fold_ems] at hw
    obtain ⟨_, h2, _, _, _, _, h7⟩ := hw
    refine ⟨List.prefix_nil.mp h2, ?_⟩
    have := congrArg List.length h7
    simp [foldS] at this
    omega
  | exited s why =>
    simp only [hctl, fold_ems] at hw
    obtain ⟨_, h2, _, _, _, _, h7⟩ := hw
    exact ⟨List.prefix_nil.mp h2, by simp [h7, foldS]⟩

theorem contrib_le {inp : Nat → Nat} {p : Pool α α α} (h : Inv (foldS c) e inp p) (i : Nat) :
    (contrib p i).length ≤ 1 := by
  obtain ⟨h1, h2⟩ := worker_shape c e h i
  have := List.length_filter_le (fun x : Nat × α => x.1 == 0) (p.ws i).fout
  simp only [contrib, h1, onCh_nil, List.nil_append, List.length_map]
  omega

/-- an exited folding worker has sent exactly its accumulator (cancelled or not) -/
theorem contrib_exited {inp : Nat → Nat} {p : Pool α α α} (h : Inv (foldS c) e inp p) (i : Nat)
    (hx : Ctl.isExited (p.ws i).ctl = true) : contrib p i = [(p.ws i).hist.foldl c e] := by
  obtain ⟨h1, _⟩ := worker_shape c e h i
  have hw := h.worker i
  unfold WInv at hw
  cases hctl : (p.ws i).ctl with
  | exited s why =>
    simp only [hctl] at hw
    obtain ⟨hs, _, _, _, _, _, h7⟩ := hw
    rw [← hs, (fold_out c e _).2] at h7
    simp [contrib, h1, h7]
  | idle s => simp [hctl, Ctl.isExited] at hx
  | calling s a => simp [hctl, Ctl.isExited] at hx
  | busy s e a => simp [hctl, Ctl.isExited] at hx
  | exiting s f w => simp [hctl, Ctl.isExited] at hx

/-- a folding worker is never blocked inside its loop body -/
theorem not_busy_pending {inp : Nat → Nat} {p : Pool α α α} (h : Inv (foldS c) e inp p) (i : Nat)
    {s : α} {x : Em α} {rest : List (Em α)} {aft : After} (hc : (p.ws i).ctl = .busy s (x :: rest) aft) : False := by
  have hw := h.worker i
  unfold WInv at hw
  simp only [hc, fold_ems] at hw
  have := (List.append_eq_nil_iff.mp hw.2.1.symm).2
  cases this

/-- a folding worker about to send on its exit path sends on output 0 and has not sent before -/
theorem contrib_exiting {inp : Nat → Nat} {p : Pool α α α} (h : Inv (foldS c) e inp p) (i : Nat)
    {s : α} {k : Nat} {v : α} {rest : List (Nat × α)} {why : Why}
    (hc : (p.ws i).ctl = .exiting s ((k, v) :: rest) why) : k = 0 ∧ contrib p i = [] := by
  obtain ⟨h1, _⟩ := worker_shape c e h i
  have hw := h.worker i
  unfold WInv at hw
  simp only [hc] at hw
  have h7 := hw.2.2.2.2.2.2
  simp only [foldS] at h7
  cases hf : (p.ws i).fout with
  | nil =>
    rw [hf] at h7
    simp only [List.nil_append, List.cons.injEq, Prod.mk.injEq] at h7
    exact ⟨h7.1.1, by simp [contrib, h1, hf]⟩
  | cons y ys =>
    rw [hf] at h7
    have := congrArg List.length h7
    simp at this

end fold

/-! ### counting the values on `vals` -/

section count
variable {α : Type} (c : α → α → α) (e : α)

theorem length_flatMap_range_le (f : Nat → List α) (n : Nat) (h : ∀ j, j < n → (f j).length ≤ 1) :
    ((List.range n).flatMap f).length ≤ n := by
  induction n with
  | zero => simp
  | succ n ih =>
    rw [List.range_succ, List.flatMap_append, List.length_append]
    have h1 := ih (fun j hj => h j (by omega))
    have h2 := h n (by omega)
    simp only [List.flatMap_cons, List.flatMap_nil, List.append_nil]
    omega

theorem length_flatMap_range_lt (f : Nat → List α) (n i : Nat) (hi : i < n) (h0 : f i = [])
    (h : ∀ j, j < n → (f j).length ≤ 1) : ((List.range n).flatMap f).length < n := by
  induction n with
  | zero => omega
  | succ n ih =>
    rw [List.range_succ, List.flatMap_append, List.length_append]
    simp only [List.flatMap_cons, List.flatMap_nil, List.append_nil]
    by_cases hin : i = n
    · subst hin
      have := length_flatMap_range_le f i (fun j hj => h j (by omega))
      rw [h0, List.length_nil]; omega
    · have h1 := ih (by omega) (fun j hj => h j (by omega))
      have h2 := h n (by omega)
      omega

theorem vals_perm {inp : Nat → Nat} {p : Pool α α α} (h : Inv (foldS c) e inp p) :
    (p.delivered 0 ++ (p.outs 0).buf).Perm ((List.range p.nW).flatMap (contrib p)) := out_perm h 0

/-- all workers gone: `vals` has carried exactly one partial result per worker -/
theorem vals_exited {inp : Nat → Nat} {p : Pool α α α} (h : Inv (foldS c) e inp p) (hx : p.allExited = true) :
    (p.delivered 0 ++ (p.outs 0).buf).Perm ((List.range p.nW).map fun i => (p.ws i).hist.foldl c e) := by
  refine (vals_perm c e h).trans ?_
  rw [flatMap_congr' (g := fun i => [(p.ws i).hist.foldl c e])
    (fun i hi => contrib_exited c e h i (allExited_worker hx i (List.mem_range.mp hi))), ← List.map_eq_flatMap]

theorem vals_length_exited {inp : Nat → Nat} {p : Pool α α α} (h : Inv (foldS c) e inp p) (hx : p.allExited = true) :
    (p.delivered 0).length + (p.outs 0).buf.length = p.nW := by
  have := (vals_exited c e h hx).length_eq
  simpa using this

/-- a worker that has not sent yet finds room on `vals` if its capacity is the number of workers -/
theorem vals_room {inp : Nat → Nat} {p : Pool α α α} (h : Inv (foldS c) e inp p) {i : Nat} (hi : i < p.nW)
    (h0 : contrib p i = []) : (p.outs 0).buf.length < p.nW := by
  have h1 := (vals_perm c e h).length_eq
  have h2 := length_flatMap_range_lt (contrib p) p.nW i hi h0 (fun j _ => contrib_le c e h j)
  rw [List.length_append] at h1
  omega

end count

/-! ### the collector invariant of `FF` -/

section coll
variable {α : Type} (c : α → α → α) (e : α) (par : Nat)

/-- nothing on `done` yet -/
def Pre (s : FF α) : Prop := s.delivered = [] ∧ s.done.buf = [] ∧ s.done.closed = false

/-- the collector has read all `par` partial results and sent their fold on `done` -/
def Post (s : FF α) (closed : Bool) : Prop :=
  s.pool.allExited = true ∧ (s.pool.delivered 0).length = par ∧
  s.delivered ++ s.done.buf = [(s.pool.delivered 0).foldl c e] ∧ s.done.closed = closed

def CInv (s : FF α) : Prop :=
  s.done.cap = 1 ∧
  match s.coll with
  | .waiting => s.pool.delivered 0 = [] ∧ Pre s
  | .reading n acc => s.pool.allExited = true ∧ acc = (s.pool.delivered 0).foldl c e ∧
      n + (s.pool.delivered 0).length = par ∧ Pre s
  | .sending acc => s.pool.allExited = true ∧ acc = (s.pool.delivered 0).foldl c e ∧
      (s.pool.delivered 0).length = par ∧ Pre s
  | .closeVals => Post c e par s false
  | .closeDone => Post c e par s false
  | .halted => Post c e par s true

theorem cinv_init (inCap : Nat) (gated : Bool) : CInv c e par (FF.init e par inCap gated) := by
  simp [CInv, FF.init, Pre, forkPool, Pool.init]

/-- the pool component moves without touching `delivered 0` and without un-exiting workers -/
theorem cinv_pool_frame {s : FF α} {q : Pool α α α} (h : CInv c e par s)
    (hd : q.delivered = s.pool.delivered) (hx : s.pool.allExited = true → q.allExited = true) :
    CInv c e par { s with pool := q } := by
  obtain ⟨h0, h⟩ := h
  refine ⟨h0, ?_⟩
  cases hcoll : s.coll <;> simp only [hcoll] at h <;> simp only [Pre, Post, hd] at h ⊢
  · exact h
  · exact ⟨hx h.1, h.2⟩
  · exact ⟨hx h.1, h.2⟩
  · exact ⟨hx h.1, h.2⟩
  · exact ⟨hx h.1, h.2⟩
  · exact ⟨hx h.1, h.2⟩

theorem cinv_coll {s t : FF α} (h : CInv c e par s) (ht : t ∈ FF.collNext c e par s) : CInv c e par t := by
  obtain ⟨h0, h⟩ := h
  unfold FF.collNext at ht
  cases hcoll : s.coll with
  | waiting =>
    simp only [hcoll] at h ht
    split at ht
    · rename_i hx
      simp only [List.mem_singleton] at ht
      subst ht
      exact ⟨h0, hx, by rw [h.1]; rfl, by rw [h.1]; simp, h.2⟩
    · simp at ht
  | reading n acc =>
    cases n with
    | zero =>
      simp only [hcoll, List.mem_singleton] at h ht
      subst ht
      exact ⟨h0, h.1, h.2.1, by have := h.2.2.1; dsimp only; omega, h.2.2.2⟩
    | succ n =>
      simp only [hcoll] at h ht
      rw [List.mem_filterMap] at ht
      obtain ⟨⟨q, o⟩, hm, ho⟩ := ht
      cases o with
      | value v =>
        simp only [Option.some.injEq] at ho
        subst ho
        obtain ⟨hd, hx⟩ := recv_exited h.1 hm
        refine ⟨h0, hx, ?_, ?_, h.2.2.2⟩
        · show c acc v = (q.delivered 0).foldl c e
          rw [hd, List.foldl_append, ← h.2.1]; rfl
        · show n + (q.delivered 0).length = par
          rw [hd, List.length_append, List.length_singleton]; omega
      | ok => simp at ho
      | full => simp at ho
      | empty => simp at ho
      | closed => simp at ho
      | nope => simp at ho
  | sending acc =>
    simp only [hcoll] at h ht
    split at ht
    · simp only [List.mem_singleton] at ht
      subst ht
      obtain ⟨hx, hacc, hlen, hd, hb, hcl⟩ := h
      exact ⟨h0, hx, hlen, by simp [hd, hb, hacc], hcl⟩
    · simp at ht
  | closeVals =>
    simp only [hcoll, List.mem_singleton] at h ht
    subst ht
    exact ⟨h0, h⟩
  | closeDone =>
    simp only [hcoll, List.mem_singleton] at h ht
    subst ht
    exact ⟨h0, h.1, h.2.1, h.2.2.1, rfl⟩
  | halted => simp [hcoll] at ht

theorem cinv_recv {s t : FF α} {o : Obs α} (h : CInv c e par s) (ht : (t, o) ∈ FF.envNext c s .recv) :
    CInv c e par t := by
  obtain ⟨h0, h⟩ := h
  simp only [FF.envNext] at ht
  split at ht
  · rename_i v rest hb
    simp only [List.mem_singleton, Prod.mk.injEq] at ht
    obtain ⟨rfl, _⟩ := ht
    refine ⟨h0, ?_⟩
    cases hcoll : s.coll <;> simp only [hcoll] at h <;> simp only [Pre, Post, hb] at h ⊢
    · simp at h
    · simp at h
    · simp at h
    · simpa using h
    · simpa using h
    · simpa using h
  · simp only [List.mem_singleton, Prod.mk.injEq] at ht
    obtain ⟨rfl, _⟩ := ht
    exact ⟨h0, h⟩

theorem cinv_step {s t : FF α} (h : CInv c e par s) (hs : FF.Step c e par s t) : CInv c e par t := by
  rcases hs with ht | ⟨m, o, ht⟩
  · unfold FF.procNext at ht
    rw [List.mem_append, List.mem_map] at ht
    rcases ht with ⟨q, hq, rfl⟩ | ht
    · obtain ⟨h1, _, h3⟩ := procNext_frame hq
      exact cinv_pool_frame c e par h h1 h3
    · exact cinv_coll c e par h ht
  · cases m with
    | recv => exact cinv_recv c e par h ht
    | send v =>
      simp only [FF.envNext, List.mem_map, Prod.exists, Prod.mk.injEq] at ht
      obtain ⟨q, o', hq, rfl, _⟩ := ht
      obtain ⟨h1, _, h3⟩ := envNext_frame hq (by intro k hk; cases hk)
      exact cinv_pool_frame c e par h h1 h3
    | close =>
      simp only [FF.envNext, List.mem_map, Prod.exists, Prod.mk.injEq] at ht
      obtain ⟨q, o', hq, rfl, _⟩ := ht
      obtain ⟨h1, _, h3⟩ := envNext_frame hq (by intro k hk; cases hk)
      exact cinv_pool_frame c e par h h1 h3
    | cancel =>
      simp only [FF.envNext, List.mem_map, Prod.exists, Prod.mk.injEq] at ht
      obtain ⟨q, o', hq, rfl, _⟩ := ht
      obtain ⟨h1, _, h3⟩ := envNext_frame hq (by intro k hk; cases hk)
      exact cinv_pool_frame c e par h h1 h3
    | release i =>
      simp only [FF.envNext, List.mem_map, Prod.exists, Prod.mk.injEq] at ht
      obtain ⟨q, o', hq, rfl, _⟩ := ht
      obtain ⟨h1, _, h3⟩ := envNext_frame hq (by intro k hk; cases hk)
      exact cinv_pool_frame c e par h h1 h3

theorem cinv_reachable (inCap : Nat) (gated : Bool) {s : FF α}
    (hr : FF.Reachable c e par (FF.init e par inCap gated) s) : CInv c e par s := by
  induction hr with
  | init => exact cinv_init c e par inCap gated
  | step _ hs ih => exact cinv_step c e par ih hs

/-- the pool component only ever makes pool moves -/
theorem step_pool {s t : FF α} (hs : FF.Step c e par s t) :
    t.pool = s.pool ∨ Pool.Step (foldS c) s.pool t.pool := by
  rcases hs with ht | ⟨m, o, ht⟩
  · unfold FF.procNext at ht
    rw [List.mem_append, List.mem_map] at ht
    rcases ht with ⟨q, hq, rfl⟩ | ht
    · exact Or.inr (Or.inl hq)
    · unfold FF.collNext at ht
      cases hcoll : s.coll with
      | waiting =>
        simp only [hcoll] at ht
        split at ht
        · simp only [List.mem_singleton] at ht; subst ht; exact Or.inl rfl
        · simp at ht
      | reading n acc =>
        cases n with
        | zero => simp only [hcoll, List.mem_singleton] at ht; subst ht; exact Or.inl rfl
        | succ n =>
          simp only [hcoll] at ht
          rw [List.mem_filterMap] at ht
          obtain ⟨⟨q, o⟩, hm, ho⟩ := ht
          cases o with
          | value v =>
            simp only [Option.some.injEq] at ho
            subst ho
            exact Or.inr (Or.inr ⟨_, _, hm⟩)
          | ok => simp at ho
          | full => simp at ho
          | empty => simp at ho
          | closed => simp at ho
          | nope => simp at ho
      | sending acc =>
        simp only [hcoll] at ht
        split at ht
        · simp only [List.mem_singleton] at ht; subst ht; exact Or.inl rfl
        · simp at ht
      | closeVals => simp only [hcoll, List.mem_singleton] at ht; subst ht; exact Or.inl rfl
      | closeDone => simp only [hcoll, List.mem_singleton] at ht; subst ht; exact Or.inl rfl
      | halted => simp [hcoll] at ht
  · cases m with
    | recv =>
      simp only [FF.envNext] at ht
      split at ht <;>
        (simp only [List.mem_singleton, Prod.mk.injEq] at ht; obtain ⟨rfl, _⟩ := ht; exact Or.inl rfl)
    | send v =>
      simp only [FF.envNext, List.mem_map, Prod.exists, Prod.mk.injEq] at ht
      obtain ⟨q, o', hq, rfl, _⟩ := ht
      exact Or.inr (Or.inr ⟨_, _, hq⟩)
    | close =>
      simp only [FF.envNext, List.mem_map, Prod.exists, Prod.mk.injEq] at ht
      obtain ⟨q, o', hq, rfl, _⟩ := ht
      exact Or.inr (Or.inr ⟨_, _, hq⟩)
    | cancel =>
      simp only [FF.envNext, List.mem_map, Prod.exists, Prod.mk.injEq] at ht
      obtain ⟨q, o', hq, rfl, _⟩ := ht
      exact Or.inr (Or.inr ⟨_, _, hq⟩)
    | release i =>
      simp only [FF.envNext, List.mem_map, Prod.exists, Prod.mk.injEq] at ht
      obtain ⟨q, o', hq, rfl, _⟩ := ht
      exact Or.inr (Or.inr ⟨_, _, hq⟩)

end coll

end Golem.Lemmas.ForkFold
