/-
Helper lemmas for C16: how `Ast.append` / `Ast.unit` act on a plugged zipper, and the event
sequence of a visit.  Core Lean only.
-/
import Golem.Model.DuctSpec
namespace Golem.Model.Duct

/-! ### the type switch on the last element -/

theorem appendLast_snoc (p : List Ast) (x n : Ast) :
    appendLast (p ++ [x]) n =
      if x.isSeq then
        match x.append n with
        | (true, x') => some (p ++ [x'])
        | (false, _) => none
      else none := by
  induction p with
  | nil =>
    simp only [List.nil_append, appendLast]
    rcases x.append n with ⟨b, x'⟩
    cases x.isSeq <;> cases b <;> simp
  | cons c p ih =>
    cases hp : p ++ [x] with
    | nil => simp at hp
    | cons c' cs =>
      simp only [List.cons_append, hp, appendLast]
      rw [← hp, ih]
      rcases x.append n with ⟨b, x'⟩
      cases x.isSeq <;> cases b <;> simp

theorem unitLast_snoc (p : List Ast) (x : Ast) :
    unitLast (p ++ [x]) =
      if x.isSeq then
        match x.unit with
        | (true, x') => some (p ++ [x'])
        | (false, _) => none
      else none := by
  induction p with
  | nil =>
    simp only [List.nil_append, unitLast]
    rcases x.unit with ⟨b, x'⟩
    cases x.isSeq <;> cases b <;> simp
  | cons c p ih =>
    cases hp : p ++ [x] with
    | nil => simp at hp
    | cons c' cs =>
      simp only [List.cons_append, hp, unitLast]
      rw [← hp, ih]
      rcases x.unit with ⟨b, x'⟩
      cases x.isSeq <;> cases b <;> simp

/-- The last element, if any, is not an open `AstSeq`. -/
def LastSettled (cs : List Ast) : Prop := ∀ x ∈ cs.getLast?, x.isOpen = false

theorem lastSettled_nil : LastSettled [] := by simp [LastSettled]
theorem lastSettled_snoc (p : List Ast) (x : Ast) : LastSettled (p ++ [x]) ↔ x.isOpen = false := by
  simp [LastSettled]

theorem snoc_cases (cs : List Ast) : cs = [] ∨ ∃ p x, cs = p ++ [x] := by
  rcases List.eq_nil_or_concat cs with h | ⟨p, x, h⟩
  · exact .inl h
  · exact .inr ⟨p, x, by simpa using h⟩

/-! ### one unfolding of `append` / `unit` on an open context -/

theorem append_open_nil (r : Bool) (n : Ast) :
    (Ast.aseq r true []).append n = (true, .aseq r true [n]) := by
  simp [Ast.append]

theorem append_open_snoc (r : Bool) (p : List Ast) (x n : Ast) :
    (Ast.aseq r true (p ++ [x])).append n =
      if x.isSeq = true ∧ (x.append n).1 = true
      then (true, .aseq r true (p ++ [(x.append n).2]))
      else (true, .aseq r true (p ++ [x] ++ [n])) := by
  rw [Ast.append, appendLast_snoc]
  rcases hx : x.append n with ⟨b, x'⟩
  cases x.isSeq <;> cases b <;> simp

theorem unit_open_nil (r : Bool) :
    (Ast.aseq r true []).unit = (true, .aseq r r []) := by
  cases r <;> simp [Ast.unit]

theorem unit_open_snoc (r : Bool) (p : List Ast) (x : Ast) :
    (Ast.aseq r true (p ++ [x])).unit =
      if x.isSeq = true ∧ (x.unit).1 = true
      then (true, .aseq r true (p ++ [(x.unit).2]))
      else (true, .aseq r r (p ++ [x])) := by
  rw [Ast.unit, unitLast_snoc]
  rcases hx : x.unit with ⟨b, x'⟩
  cases x.isSeq <;> cases b <;> cases r <;> simp

/-- A closed or non-Seq node refuses `append` / `unit`. -/
theorem append_settled (x n : Ast) (h : x.isOpen = false) : (x.append n).1 = false := by
  cases x with
  | aseq r d s => simp [Ast.isOpen] at h; subst h; simp [Ast.append]
  | _ => simp [Ast.append]

theorem unit_settled (x : Ast) (h : x.isOpen = false) : (x.unit).1 = false := by
  cases x with
  | aseq r d s => simp [Ast.isOpen] at h; subst h; simp [Ast.unit]
  | _ => simp [Ast.unit]

/-- `append` on an open context whose last child is settled adds the node at the end. -/
theorem append_here (r : Bool) (cs : List Ast) (n : Ast) (h : LastSettled cs) :
    (Ast.aseq r true cs).append n = (true, .aseq r true (cs ++ [n])) := by
  rcases snoc_cases cs with rfl | ⟨p, x, rfl⟩
  · exact append_open_nil r n
  · have hx := (lastSettled_snoc p x).1 h
    rw [append_open_snoc, append_settled x n hx]; simp

/-- `append` below an open last child is `append` on that child. -/
theorem append_inner (r : Bool) (p cs cs' : List Ast) (n : Ast)
    (h : (Ast.aseq false true cs).append n = (true, .aseq false true cs')) :
    (Ast.aseq r true (p ++ [.aseq false true cs])).append n
      = (true, .aseq r true (p ++ [.aseq false true cs'])) := by
  rw [append_open_snoc, h]; simp [Ast.isSeq]

theorem plug_append (n : Ast) : ∀ (below : List (List Ast)) (cs cs' : List Ast),
    (∀ r, (Ast.aseq r true cs).append n = (true, .aseq r true cs')) →
    (plug cs below).append n = (true, plug cs' below)
  | [], cs, cs', h => by simpa [plug] using h true
  | p :: rest, cs, cs', h => by
    simp only [plug]
    exact plug_append n rest _ _ (fun r => append_inner r p cs cs' n (h false))

/-- `unit` on an open nested context whose last child is settled closes it; on the root it
changes nothing. -/
theorem unit_here (r : Bool) (cs : List Ast) (h : LastSettled cs) :
    (Ast.aseq r true cs).unit = (true, .aseq r r cs) := by
  rcases snoc_cases cs with rfl | ⟨p, x, rfl⟩
  · exact unit_open_nil r
  · have hx := (lastSettled_snoc p x).1 h
    rw [unit_open_snoc, unit_settled x hx]; simp

theorem unit_inner (r : Bool) (p cs : List Ast) (x' : Ast)
    (h : (Ast.aseq false true cs).unit = (true, x')) :
    (Ast.aseq r true (p ++ [.aseq false true cs])).unit = (true, .aseq r true (p ++ [x'])) := by
  rw [unit_open_snoc, h]; simp [Ast.isSeq]

/-- `unit` through the open spine: what happens to the innermost context `cs` happens in place. -/
theorem plug_unit_nested (x' : Ast) : ∀ (rest : List (List Ast)) (p cs : List Ast),
    (Ast.aseq false true cs).unit = (true, x') →
    (plug cs (p :: rest)).unit = (true, plug (p ++ [x']) rest)
  | [], p, cs, h => by simpa [plug] using unit_inner true p cs x' h
  | q :: rest, p, cs, h => by
    have := plug_unit_nested (.aseq false true (p ++ [x'])) rest q (p ++ [.aseq false true cs])
      (unit_inner false p cs x' h)
    simpa [plug] using this

/-! ### the machine invariant and the refinement step -/

/-- A finished child: not an open context, and containing no root node. -/
def Settled (a : Ast) : Prop := a.isOpen = false ∧ a.noRoot = true

/-- Every node stored in a frame of the stack machine is finished. -/
def Stack.Ok (s : Stack) : Prop := (∀ a ∈ s.top, Settled a) ∧ ∀ f ∈ s.below, ∀ a ∈ f, Settled a

theorem lastSettled_of_all (cs : List Ast) (h : ∀ a ∈ cs, Settled a) : LastSettled cs := by
  intro x hx
  exact (h x (List.mem_of_getLast? hx)).1

theorem noRootList_iff (l : List Ast) : noRootList l = true ↔ ∀ a ∈ l, a.noRoot = true := by
  induction l with
  | nil => simp [noRootList]
  | cons x xs ih => simp [noRootList, ih]

theorem init_ok (A : Ty) : (Spec.init A).Ok := by
  constructor
  · intro a ha; simp [Spec.init] at ha; subst ha; simp [Settled, Ast.isOpen, Ast.noRoot]
  · intro f hf; simp [Spec.init] at hf

theorem from_refines (A : Ty) : From A = (Spec.init A).reify := by
  simp [From, Spec.init, Stack.reify, plug, append_open_nil]

theorem push_refines (s : Stack) (hs : s.Ok) (n : Ast) :
    (s.reify.append n).2 = (s.push n).reify := by
  have := plug_append n s.below s.top (s.top ++ [n])
    (fun r => append_here r s.top n (lastSettled_of_all _ hs.1))
  simp [Stack.reify, Stack.push, this]

theorem push_ok (s : Stack) (hs : s.Ok) (n : Ast) (hn : Settled n) : (s.push n).Ok := by
  constructor
  · intro a ha
    simp [Stack.push] at ha
    rcases ha with ha | rfl
    · exact hs.1 a ha
    · exact hn
  · exact hs.2

theorem opn_refines (s : Stack) (hs : s.Ok) (init : List Ast) :
    (s.reify.append (.aseq false true init)).2 = (s.opn init).reify := by
  have := plug_append (.aseq false true init) s.below s.top (s.top ++ [.aseq false true init])
    (fun r => append_here r s.top _ (lastSettled_of_all _ hs.1))
  simp [Stack.reify, Stack.opn, this, plug]

theorem opn_ok (s : Stack) (hs : s.Ok) (init : List Ast) (hi : ∀ a ∈ init, Settled a) :
    (s.opn init).Ok := by
  constructor
  · exact hi
  · intro f hf
    simp [Stack.opn] at hf
    rcases hf with rfl | hf
    · exact hs.1
    · exact hs.2 f hf

theorem close_refines (s : Stack) (hs : s.Ok) : (s.reify.unit).2 = s.close.reify := by
  rcases s with ⟨top, below⟩
  have hl := lastSettled_of_all _ hs.1
  cases below with
  | nil => simp [Stack.reify, Stack.close, plug, unit_here true top hl]
  | cons p rest =>
    have := plug_unit_nested (.aseq false false top) rest p top (unit_here false top hl)
    simp [Stack.reify, Stack.close, this]

theorem close_ok (s : Stack) (hs : s.Ok) : s.close.Ok := by
  rcases s with ⟨top, below⟩
  cases below with
  | nil => exact hs
  | cons p rest =>
    constructor
    · intro a ha
      simp [Stack.close] at ha
      rcases ha with ha | rfl
      · exact hs.2 p (by simp) a ha
      · refine ⟨by simp [Ast.isOpen], ?_⟩
        simp only [Ast.noRoot, Bool.not_false, Bool.true_and]
        exact (noRootList_iff top).2 (fun a ha => (hs.1 a ha).2)
    · intro f hf
      exact hs.2 f (by simp [Stack.close] at hf; simp [hf])

theorem step_refines (A : Ty) (s : Stack) (hs : s.Ok) (st : Step) :
    st.apply A s.reify = (Spec.step s st).reify ∧ (Spec.step s st).Ok := by
  cases st with
  | join B C =>
    exact ⟨push_refines s hs _, push_ok s hs _ (by simp [Settled, Ast.isOpen, Ast.noRoot])⟩
  | yield B =>
    exact ⟨push_refines s hs _, push_ok s hs _ (by simp [Settled, Ast.isOpen, Ast.noRoot])⟩
  | liftF B C =>
    refine ⟨?_, opn_ok s hs _ (by simp [Settled, Ast.isOpen, Ast.noRoot])⟩
    simp only [Step.apply, LiftF, append_open_nil, Spec.step]
    exact opn_refines s hs _
  | wrapF B =>
    refine ⟨?_, opn_ok s hs _ (by simp)⟩
    simp only [Step.apply, WrapF, Spec.step]
    exact opn_refines s hs _
  | unit B => exact ⟨close_refines s hs, close_ok s hs⟩

theorem foldl_refines (A : Ty) (steps : List Step) : ∀ (s : Stack), s.Ok →
    steps.foldl (fun m st => st.apply A m) s.reify = (steps.foldl Spec.step s).reify
      ∧ (steps.foldl Spec.step s).Ok := by
  induction steps with
  | nil => intro s hs; exact ⟨rfl, hs⟩
  | cons st rest ih =>
    intro s hs
    have := step_refines A s hs st
    simp only [List.foldl_cons, this.1]
    exact ih _ this.2

theorem run_ok (A : Ty) (steps : List Step) : (Spec.run A steps).Ok :=
  (foldl_refines A steps (Spec.init A) (init_ok A)).2

/-- A plugged zipper of finished nodes is one root whose descendants contain no root. -/
theorem plug_root : ∀ (below : List (List Ast)) (cs : List Ast),
    (∀ a ∈ cs, a.noRoot = true) → (∀ f ∈ below, ∀ a ∈ f, a.noRoot = true) →
    ∃ cs', plug cs below = .aseq true true cs' ∧ noRootList cs' = true
  | [], cs, h, _ => ⟨cs, rfl, (noRootList_iff cs).2 h⟩
  | p :: rest, cs, h, hb => by
    simp only [plug]
    refine plug_root rest _ ?_ (fun f hf => hb f (by simp [hf]))
    intro a ha
    simp at ha
    rcases ha with ha | rfl
    · exact hb p (by simp) a ha
    · simp only [Ast.noRoot, Bool.not_false, Bool.true_and]
      exact (noRootList_iff cs).2 h

end Golem.Model.Duct
