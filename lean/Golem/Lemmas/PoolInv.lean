/-
Invariants of the worker-pool network (`Golem.Go.Pool`), proved once for every `Stage`,
every number of workers, every capacity and every schedule (`Reachable`).

Changes with respect to the skeleton this file was grown from (all statements otherwise verbatim):

* `proc_decreases`: added the hypothesis `(h : Inv st s0 inp p)` (and the implicit `s0`, `inp`).
  Without it the statement is false: take one worker with `ctl = .busy s (e :: rest) aft` and
  `(p.outs e.ch).closed = true`; then `{ p with panicked := true } ∈ procNext st p` and
  `variant nIn` is the same on both states (likewise for the `.exiting` send and for the closer
  closing an already closed output).  Under `Inv` these successors do not exist: `closedLate`
  gives `allExited` (no worker `< nW` is busy/exiting) and `k ∉ toClose`.
* new: `proc_terminates` (the process-move relation is well-founded on invariant states), with
  the helpers `procNext_nW`, `procNext_inp_lt` (its side condition is preserved by process moves).
* the section "sequential meaning" (`run_append`, `run_ems_prefix`, `run_stopped_append`) now comes
  before `inv_init`/`inv_step`, because `inv_step` uses `run_append`.
* observations, statements unchanged: `single_complete` does not need `hcl`, `quiescent_drained`
  does not need `hb` (a blocked send on an empty, open channel is always available for hand-off).

Auxiliary definitions: `WInv'` (the per-worker invariant as a function of the worker record alone,
`WInv_iff` is `Iff.rfl`), `wsum`/`cN`/`aN` (the variant written with sums).
Core Lean only.
-/
import Golem.Go.Pool
namespace Golem.Go.Pool
open Golem.Go Golem.Go.Stage

variable {σ α β : Type}

/-- per-worker invariant: control point, local state and completed sends are determined by the
sequential meaning `Stage.run` of the stage on the worker's own consumed list -/
def WInv (st : Stage σ α β) (s0 : σ) (p : Pool σ α β) (i : Nat) : Prop :=
  let w := p.ws i
  let r := st.run s0 w.hist
  match w.ctl with
  | .idle s => r.s = s ∧ r.ems = w.out ∧ r.stopped = false ∧ w.fout = []
  | .calling s a => ∃ h, w.hist = h ++ [a] ∧ (st.run s0 h).s = s ∧ (st.run s0 h).ems = w.out ∧
      (st.run s0 h).stopped = false ∧ w.fout = []
  | .busy s pend aft => r.s = s ∧ r.ems = w.out ++ pend ∧ r.stopped = (aft == .stop) ∧ w.fout = []
  | .exiting s fin why => r.s = s ∧ w.out <+: r.ems ∧ (why ≠ .done → w.out = r.ems) ∧
      (why = .stop → r.stopped = true) ∧
      (why = .eof → r.stopped = false ∧ (p.ins w.inp).closed = true ∧ (p.ins w.inp).buf = []) ∧
      (why = .done → p.cancelled = true) ∧ w.fout ++ fin = st.final s
  | .exited s why => r.s = s ∧ w.out <+: r.ems ∧ (why ≠ .done → w.out = r.ems) ∧
      (why = .stop → r.stopped = true) ∧
      (why = .eof → r.stopped = false ∧ (p.ins w.inp).closed = true ∧ (p.ins w.inp).buf = []) ∧
      (why = .done → p.cancelled = true) ∧ w.fout = st.final s

structure Inv (st : Stage σ α β) (s0 : σ) (inp : Nat → Nat) (p : Pool σ α β) : Prop where
  /-- FIFO, outputs: what was received plus what is buffered is what was sent, in order -/
  fifoOut : ∀ k, p.delivered k ++ (p.outs k).buf = (p.emitted k).map (·.2)
  /-- FIFO, inputs -/
  fifoIn : ∀ j, (p.taken j).map (·.2) ++ (p.ins j).buf = p.sent j
  /-- the sends on channel `k` tagged with worker `i` are exactly that worker's completed sends on `k` -/
  outOf : ∀ i k, ((p.emitted k).filter (·.1 == i)).map (·.2)
            = onCh k (p.ws i).out ++ (((p.ws i).fout.filter (·.1 == k)).map (·.2))
  /-- the receipts on input `j` tagged with worker `i` are exactly that worker's consumed list -/
  inOf : ∀ i j, ((p.taken j).filter (·.1 == i)).map (·.2) = if inp i = j then (p.ws i).hist else []
  /-- only workers `< nW` ever receive or send -/
  tagsIn : ∀ j, ∀ x ∈ p.taken j, x.1 < p.nW
  tagsOut : ∀ k, ∀ x ∈ p.emitted k, x.1 < p.nW
  inpConst : ∀ i, (p.ws i).inp = inp i
  worker : ∀ i, WInv st s0 p i
  /-- outputs are closed only after every worker has exited, each once -/
  closedLate : ∀ k, (p.outs k).closed = true → p.allExited = true ∧ k ∉ p.toClose
  nodup : p.toClose.Nodup
  noPanic : p.panicked = false

def WInv' (st : Stage σ α β) (s0 : σ) (w : Worker σ α β) (eof canc : Prop) : Prop :=
  let r := st.run s0 w.hist
  match w.ctl with
  | .idle s => r.s = s ∧ r.ems = w.out ∧ r.stopped = false ∧ w.fout = []
  | .calling s a => ∃ h, w.hist = h ++ [a] ∧ (st.run s0 h).s = s ∧ (st.run s0 h).ems = w.out ∧
      (st.run s0 h).stopped = false ∧ w.fout = []
  | .busy s pend aft => r.s = s ∧ r.ems = w.out ++ pend ∧ r.stopped = (aft == .stop) ∧ w.fout = []
  | .exiting s fin why => r.s = s ∧ w.out <+: r.ems ∧ (why ≠ .done → w.out = r.ems) ∧
      (why = .stop → r.stopped = true) ∧
      (why = .eof → r.stopped = false ∧ eof) ∧
      (why = .done → canc) ∧ w.fout ++ fin = st.final s
  | .exited s why => r.s = s ∧ w.out <+: r.ems ∧ (why ≠ .done → w.out = r.ems) ∧
      (why = .stop → r.stopped = true) ∧
      (why = .eof → r.stopped = false ∧ eof) ∧
      (why = .done → canc) ∧ w.fout = st.final s

theorem WInv_iff (st : Stage σ α β) (s0 : σ) (p : Pool σ α β) (i : Nat) :
    WInv st s0 p i ↔ WInv' st s0 (p.ws i)
      ((p.ins (p.ws i).inp).closed = true ∧ (p.ins (p.ws i).inp).buf = []) (p.cancelled = true) := Iff.rfl

theorem WInv'_mono {st : Stage σ α β} {s0 : σ} {w : Worker σ α β} {e c e' c' : Prop}
    (he : e → e') (hc : c → c') (h : WInv' st s0 w e c) : WInv' st s0 w e' c' := by
  unfold WInv' at h ⊢
  split <;> simp_all

/-! ### sequential meaning: prefix monotonicity -/

theorem run_append (st : Stage σ α β) (s0 : σ) (as : List α) (a : α) :
    st.run s0 (as ++ [a]) = st.runL (st.run s0 as) a := by
  simp [Stage.run, List.foldl_append]

theorem foldl_runL_ems_prefix (st : Stage σ α β) (bs : List α) (r : Run σ β) :
    r.ems <+: (bs.foldl st.runL r).ems := by
  induction bs generalizing r with
  | nil => exact List.prefix_refl _
  | cons b bs ih =>
    refine List.IsPrefix.trans ?_ (ih _)
    unfold Stage.runL
    split
    · exact List.prefix_refl _
    · exact List.prefix_append _ _

theorem foldl_runL_stopped (st : Stage σ α β) (bs : List α) (r : Run σ β) (h : r.stopped = true) :
    bs.foldl st.runL r = r := by
  induction bs with
  | nil => rfl
  | cons b bs ih => simp only [List.foldl_cons]; rw [show st.runL r b = r by simp [Stage.runL, h]]; exact ih

theorem run_ems_prefix (st : Stage σ α β) (s0 : σ) (as bs : List α) :
    (st.run s0 as).ems <+: (st.run s0 (as ++ bs)).ems := by
  simp only [Stage.run, List.foldl_append]
  exact foldl_runL_ems_prefix st bs _

theorem run_stopped_append (st : Stage σ α β) (s0 : σ) (as bs : List α)
    (h : (st.run s0 as).stopped = true) : st.run s0 (as ++ bs) = st.run s0 as := by
  simp only [Stage.run, List.foldl_append]
  exact foldl_runL_stopped st bs _ h

theorem flatMap_congr' {ι γ : Type} {l : List ι} {f g : ι → List γ} (h : ∀ x ∈ l, f x = g x) :
    l.flatMap f = l.flatMap g := by
  induction l with
  | nil => rfl
  | cons a l ih =>
    simp only [List.flatMap_cons]
    rw [h a (by simp), ih (fun x hx => h x (by simp [hx]))]

/-- tagged-log partition lemma -/
theorem perm_tags {γ : Type} (n : Nat) (l : List (Nat × γ)) (h : ∀ x ∈ l, x.1 < n) :
    (l.map (·.2)).Perm ((List.range n).flatMap fun i => (l.filter (·.1 == i)).map (·.2)) := by
  induction n generalizing l with
  | zero =>
    cases l with
    | nil => simp
    | cons x l => exact absurd (h x (by simp)) (by omega)
  | succ n ih =>
    rw [List.range_succ, List.flatMap_append]
    have h1 := ih (l.filter (fun x => !(x.1 == n))) (by
      intro x hx
      simp at hx
      have := h x hx.1
      omega)
    have h2 : ((List.range n).flatMap fun i => ((l.filter (fun x => !(x.1 == n))).filter (·.1 == i)).map (·.2))
        = ((List.range n).flatMap fun i => (l.filter (·.1 == i)).map (·.2)) := by
      apply flatMap_congr'
      intro i hi
      rw [List.filter_filter]
      congr 1
      apply List.filter_congr
      intro x _
      have : i < n := List.mem_range.mp hi
      by_cases hx : x.1 = i <;> simp [hx] <;> omega
    rw [h2] at h1
    have h3 := (List.filter_append_perm (fun x : Nat × γ => !(x.1 == n)) l).symm.map (·.2)
    refine h3.trans ?_
    rw [List.map_append]
    refine List.Perm.append h1 ?_
    simp

theorem inv_init (st : Stage σ α β) (nW : Nat) (inp : Nat → Nat) (s0 : σ) (inCap outCap : Nat → Nat)
    (toClose : List Nat) (gated : Bool) (hnd : toClose.Nodup) :
    Inv st s0 inp (Pool.init nW inp s0 inCap outCap toClose gated) := by
  refine ⟨?_, ?_, ?_, ?_, ?_, ?_, ?_, ?_, ?_, hnd, rfl⟩
  · intro k; simp [Pool.init]
  · intro j; simp [Pool.init]
  · intro i k; simp [Pool.init, onCh]
  · intro i j; simp [Pool.init]
  · intro j x hx; simp [Pool.init] at hx
  · intro k x hx; simp [Pool.init] at hx
  · intro i; rfl
  · intro i; simp [WInv, Pool.init, Stage.run]
  · intro k hk; simp [Pool.init] at hk

/-! ### projections of the record updates -/

section proj
variable (p : Pool σ α β) (i k : Nat) (w : Worker σ α β) (v : β)
@[simp] theorem setW_ws : (p.setW i w).ws = upd p.ws i w := rfl
@[simp] theorem setW_nW : (p.setW i w).nW = p.nW := rfl
@[simp] theorem setW_ins : (p.setW i w).ins = p.ins := rfl
@[simp] theorem setW_outs : (p.setW i w).outs = p.outs := rfl
@[simp] theorem setW_toClose : (p.setW i w).toClose = p.toClose := rfl
@[simp] theorem setW_cancelled : (p.setW i w).cancelled = p.cancelled := rfl
@[simp] theorem setW_gated : (p.setW i w).gated = p.gated := rfl
@[simp] theorem setW_panicked : (p.setW i w).panicked = p.panicked := rfl
@[simp] theorem setW_sent : (p.setW i w).sent = p.sent := rfl
@[simp] theorem setW_taken : (p.setW i w).taken = p.taken := rfl
@[simp] theorem setW_emitted : (p.setW i w).emitted = p.emitted := rfl
@[simp] theorem setW_delivered : (p.setW i w).delivered = p.delivered := rfl
@[simp] theorem pushOut_outs : (p.pushOut i k v).outs = upd p.outs k { p.outs k with buf := (p.outs k).buf ++ [v] } := rfl
@[simp] theorem pushOut_emitted : (p.pushOut i k v).emitted = upd p.emitted k (p.emitted k ++ [(i, v)]) := rfl
@[simp] theorem pushOut_nW : (p.pushOut i k v).nW = p.nW := rfl
@[simp] theorem pushOut_ws : (p.pushOut i k v).ws = p.ws := rfl
@[simp] theorem pushOut_ins : (p.pushOut i k v).ins = p.ins := rfl
@[simp] theorem pushOut_toClose : (p.pushOut i k v).toClose = p.toClose := rfl
@[simp] theorem pushOut_cancelled : (p.pushOut i k v).cancelled = p.cancelled := rfl
@[simp] theorem pushOut_gated : (p.pushOut i k v).gated = p.gated := rfl
@[simp] theorem pushOut_panicked : (p.pushOut i k v).panicked = p.panicked := rfl
@[simp] theorem pushOut_sent : (p.pushOut i k v).sent = p.sent := rfl
@[simp] theorem pushOut_taken : (p.pushOut i k v).taken = p.taken := rfl
@[simp] theorem pushOut_delivered : (p.pushOut i k v).delivered = p.delivered := rfl
end proj

/-! ### frame lemmas -/

theorem allExited_iff {p : Pool σ α β} :
    p.allExited = true ↔ ∀ i, i < p.nW → Ctl.isExited (p.ws i).ctl = true := by
  simp [allExited, List.all_eq_true]

theorem WInv_frame {st : Stage σ α β} {s0 : σ} {p q : Pool σ α β} {j : Nat}
    (hws : q.ws j = p.ws j)
    (he : ((p.ins (p.ws j).inp).closed = true ∧ (p.ins (p.ws j).inp).buf = []) →
          ((q.ins (p.ws j).inp).closed = true ∧ (q.ins (p.ws j).inp).buf = []))
    (hc : p.cancelled = true → q.cancelled = true)
    (h : WInv st s0 p j) : WInv st s0 q j := by
  rw [WInv_iff] at h ⊢
  rw [hws]
  exact WInv'_mono he hc h

/-- a worker that has not exited changes: if all workers `< nW` had exited they still have -/
theorem allExited_upd {p q : Pool σ α β} {i : Nat} {w' : Worker σ α β}
    (hnW : q.nW = p.nW) (hws : q.ws = upd p.ws i w')
    (hne : Ctl.isExited (p.ws i).ctl = false) (h : p.allExited = true) : q.allExited = true := by
  rw [allExited_iff] at h ⊢
  intro j hj
  rw [hnW] at hj
  have hji : j ≠ i := by
    intro e; subst e; rw [h j hj] at hne; exact absurd hne (by decide)
  rw [hws, upd_other _ _ _ _ hji]
  exact h j hj

/-- worker `i` (not exited) changes its control point only -/
theorem inv_setCtl {st : Stage σ α β} {s0 : σ} {inp : Nat → Nat} {p : Pool σ α β}
    (h : Inv st s0 inp p) (i : Nat) (c' : Ctl σ α β)
    (hne : Ctl.isExited (p.ws i).ctl = false)
    (hW : WInv' st s0 { p.ws i with ctl := c' }
      ((p.ins (p.ws i).inp).closed = true ∧ (p.ins (p.ws i).inp).buf = []) (p.cancelled = true)) :
    Inv st s0 inp (p.setW i { p.ws i with ctl := c' }) := by
  refine ⟨h.fifoOut, h.fifoIn, ?_, ?_, h.tagsIn, h.tagsOut, ?_, ?_, ?_, h.nodup, h.noPanic⟩
  · intro j k
    by_cases hj : j = i
    · subst hj; simpa [setW] using h.outOf j k
    · simpa [setW, hj] using h.outOf j k
  · intro j k
    by_cases hj : j = i
    · subst hj; simpa [setW] using h.inOf j k
    · simpa [setW, hj] using h.inOf j k
  · intro j
    by_cases hj : j = i
    · subst hj; simpa [setW] using h.inpConst j
    · simpa [setW, hj] using h.inpConst j
  · intro j
    by_cases hj : j = i
    · subst hj
      rw [WInv_iff]
      simpa [setW] using hW
    · exact WInv_frame (p := p) (by simp [setW, hj]) id id (h.worker j)
  · intro k hk
    have := h.closedLate k hk
    exact ⟨allExited_upd (p := p) (i := i) rfl rfl hne this.1, this.2⟩

/-- worker `i < nW` (not exited) completes one send of `v` on `k`, by buffering or hand-off -/
theorem inv_emit {st : Stage σ α β} {s0 : σ} {inp : Nat → Nat} {p q : Pool σ α β}
    (h : Inv st s0 inp p) {i k : Nat} {v : β} {w' : Worker σ α β}
    (hi : i < p.nW) (hnW : q.nW = p.nW) (hws : q.ws = upd p.ws i w') (hins : q.ins = p.ins)
    (hcl : ∀ k', (q.outs k').closed = (p.outs k').closed)
    (htc : q.toClose = p.toClose) (hcanc : q.cancelled = p.cancelled) (hpan : q.panicked = p.panicked)
    (hsent : q.sent = p.sent) (htaken : q.taken = p.taken)
    (hem : q.emitted = upd p.emitted k (p.emitted k ++ [(i, v)]))
    (hfifo : ∀ k', q.delivered k' ++ (q.outs k').buf = (q.emitted k').map (·.2))
    (hinp : w'.inp = (p.ws i).inp) (hhist : w'.hist = (p.ws i).hist)
    (hout : ∀ k', onCh k' w'.out ++ ((w'.fout.filter (·.1 == k')).map (·.2))
      = (onCh k' (p.ws i).out ++ ((p.ws i).fout.filter (·.1 == k')).map (·.2))
          ++ (if k' = k then [v] else []))
    (hne : Ctl.isExited (p.ws i).ctl = false)
    (hW : WInv' st s0 w'
      ((p.ins (p.ws i).inp).closed = true ∧ (p.ins (p.ws i).inp).buf = []) (p.cancelled = true)) :
    Inv st s0 inp q := by
  refine ⟨hfifo, ?_, ?_, ?_, ?_, ?_, ?_, ?_, ?_, ?_, ?_⟩
  · rw [hins, hsent, htaken]; exact h.fifoIn
  · intro j k'
    rw [hem, hws]
    by_cases hj : j = i
    · subst hj
      rw [upd_same, hout]
      by_cases hk : k' = k
      · subst hk; simp [List.filter_append, h.outOf]
      · simp [hk, h.outOf]
    · rw [upd_other _ _ _ _ hj]
      by_cases hk : k' = k
      · subst hk; simp [List.filter_append, h.outOf, Ne.symm hj]
      · simp [hk, h.outOf]
  · intro j k'
    rw [htaken, hws]
    by_cases hj : j = i
    · subst hj; rw [upd_same, hhist]; exact h.inOf j k'
    · rw [upd_other _ _ _ _ hj]; exact h.inOf j k'
  · rw [htaken, hnW]; exact h.tagsIn
  · intro k' x hx
    rw [hnW]
    rw [hem] at hx
    by_cases hk : k' = k
    · subst hk
      simp only [upd_same, List.mem_append, List.mem_singleton] at hx
      rcases hx with hx | hx
      · exact h.tagsOut k' x hx
      · subst hx; exact hi
    · rw [upd_other _ _ _ _ hk] at hx; exact h.tagsOut k' x hx
  · intro j
    rw [hws]
    by_cases hj : j = i
    · subst hj; rw [upd_same, hinp]; exact h.inpConst j
    · rw [upd_other _ _ _ _ hj]; exact h.inpConst j
  · intro j
    by_cases hj : j = i
    · subst hj
      rw [WInv_iff, hws, upd_same, hins, hcanc, hinp]
      exact hW
    · refine WInv_frame (p := p) (by rw [hws, upd_other _ _ _ _ hj]) ?_ ?_ (h.worker j)
      · rw [hins]; exact id
      · rw [hcanc]; exact id
  · intro k' hk'
    rw [hcl] at hk'
    have := h.closedLate k' hk'
    rw [htc]
    exact ⟨allExited_upd (p := p) (i := i) hnW hws hne this.1, this.2⟩
  · rw [htc]; exact h.nodup
  · rw [hpan]; exact h.noPanic

theorem not_exited_of_open {st : Stage σ α β} {s0 : σ} {inp : Nat → Nat} {p : Pool σ α β}
    (h : Inv st s0 inp p) {i : Nat} (hi : i < p.nW) (hne : Ctl.isExited (p.ws i).ctl = false) (k : Nat) :
    (p.outs k).closed = false := by
  cases hk : (p.outs k).closed with
  | false => rfl
  | true =>
    have := allExited_iff.mp (h.closedLate k hk).1 i hi
    rw [this] at hne; exact absurd hne (by decide)

theorem fifo_push {st : Stage σ α β} {s0 : σ} {inp : Nat → Nat} {p : Pool σ α β}
    (h : Inv st s0 inp p) (i k : Nat) (v : β) (k' : Nat) :
    p.delivered k' ++ ((upd p.outs k { p.outs k with buf := (p.outs k).buf ++ [v] }) k').buf
      = ((upd p.emitted k (p.emitted k ++ [(i, v)])) k').map (·.2) := by
  by_cases hk : k' = k
  · subst hk; simp [← h.fifoOut k']
  · simp [hk, h.fifoOut k']

theorem fifo_handoff {st : Stage σ α β} {s0 : σ} {inp : Nat → Nat} {p : Pool σ α β}
    (h : Inv st s0 inp p) (i k : Nat) (v : β) (hb : (p.outs k).buf = []) (k' : Nat) :
    (upd p.delivered k (p.delivered k ++ [v])) k' ++ (p.outs k').buf
      = ((upd p.emitted k (p.emitted k ++ [(i, v)])) k').map (·.2) := by
  by_cases hk : k' = k
  · subst hk; simp [← h.fifoOut k', hb]
  · simp [hk, h.fifoOut k']

theorem hout_busy (k' : Nat) (out : List (Em β)) (e : Em β) (fout : List (Nat × β)) (hf : fout = []) :
    onCh k' (out ++ [e]) ++ ((fout.filter (·.1 == k')).map (·.2))
      = (onCh k' out ++ (fout.filter (·.1 == k')).map (·.2)) ++ (if k' = e.ch then [e.val] else []) := by
  subst hf
  by_cases hk : k' = e.ch
  · subst hk; simp [onCh, List.filter_append]
  · simp [onCh, List.filter_append, hk, Ne.symm hk]

theorem hout_exiting (k' : Nat) (out : List (Em β)) (k : Nat) (v : β) (fout : List (Nat × β)) :
    onCh k' out ++ (((fout ++ [(k, v)]).filter (·.1 == k')).map (·.2))
      = (onCh k' out ++ (fout.filter (·.1 == k')).map (·.2)) ++ (if k' = k then [v] else []) := by
  by_cases hk : k' = k
  · subst hk; simp [List.filter_append]
  · simp [List.filter_append, hk, Ne.symm hk]

/-- idle worker `i < nW` receives the head of its input buffer -/
theorem inv_take {st : Stage σ α β} {s0 : σ} {inp : Nat → Nat} {p : Pool σ α β}
    (h : Inv st s0 inp p) {i : Nat} (hi : i < p.nW) {s : σ} (hc : (p.ws i).ctl = .idle s)
    {a : α} {rest : List α} (hb : (p.ins (p.ws i).inp).buf = a :: rest) :
    Inv st s0 inp
      { (p.setW i { p.ws i with ctl := .calling s a, hist := (p.ws i).hist ++ [a] }) with
          ins := upd p.ins (p.ws i).inp { p.ins (p.ws i).inp with buf := rest },
          taken := upd p.taken (p.ws i).inp (p.taken (p.ws i).inp ++ [(i, a)]) } := by
  have hne : Ctl.isExited (p.ws i).ctl = false := by rw [hc]; rfl
  have hii := h.inpConst i
  have hw := h.worker i
  rw [WInv_iff] at hw
  simp only [WInv', hc] at hw
  refine ⟨h.fifoOut, ?_, ?_, ?_, ?_, h.tagsOut, ?_, ?_, ?_, h.nodup, h.noPanic⟩
  · intro j
    by_cases hj : j = (p.ws i).inp
    · subst hj; simp [← h.fifoIn (p.ws i).inp, hb]
    · simp [hj, h.fifoIn j]
  · intro j k
    by_cases hj : j = i
    · subst hj; simpa [setW] using h.outOf j k
    · simpa [setW, hj] using h.outOf j k
  · intro j k
    by_cases hk : k = (p.ws i).inp
    · subst hk
      by_cases hj : j = i
      · subst hj; simp [List.filter_append, h.inOf, hii]
      · have := h.inOf j (p.ws i).inp
        simp [setW, List.filter_append, hj, Ne.symm hj, this]
    · have := h.inOf j k
      by_cases hj : j = i
      · subst hj
        have hk' : ¬ inp j = k := by rw [← hii]; exact fun e => hk e.symm
        simp [hk, hk'] at this ⊢
        exact this
      · simpa [setW, hk, hj] using this
  · intro k x hx
    by_cases hk : k = (p.ws i).inp
    · subst hk
      simp only [upd_same, List.mem_append, List.mem_singleton] at hx
      rcases hx with hx | hx
      · exact h.tagsIn _ x hx
      · subst hx; exact hi
    · simp only [upd_other _ _ _ _ hk] at hx; exact h.tagsIn k x hx
  · intro j
    by_cases hj : j = i
    · subst hj; simpa [setW] using h.inpConst j
    · simpa [setW, hj] using h.inpConst j
  · intro j
    by_cases hj : j = i
    · subst hj
      rw [WInv_iff]
      simp only [setW, upd_same, WInv']
      exact ⟨(p.ws j).hist, rfl, hw⟩
    · refine WInv_frame (p := p) (by simp [setW, hj]) ?_ id (h.worker j)
      intro ⟨h1, h2⟩
      by_cases hjj : (p.ws j).inp = (p.ws i).inp
      · rw [hjj, hb] at h2; exact absurd h2 (by simp)
      · simp only [upd_other _ _ _ _ hjj]; exact ⟨h1, h2⟩
  · intro k hk
    have := h.closedLate k hk
    exact ⟨allExited_upd (p := p) (i := i) rfl rfl hne this.1, this.2⟩

/-- the user function returns (process move when ungated, `release` when gated) -/
theorem inv_call {st : Stage σ α β} {s0 : σ} {inp : Nat → Nat} {p : Pool σ α β}
    (h : Inv st s0 inp p) {i : Nat} {s : σ} {a : α} (hc : (p.ws i).ctl = .calling s a) :
    Inv st s0 inp (p.setW i { p.ws i with
      ctl := .busy (st.react s a).1 (st.react s a).2.1 (st.react s a).2.2 }) := by
  have hne : Ctl.isExited (p.ws i).ctl = false := by rw [hc]; rfl
  have hw := h.worker i
  rw [WInv_iff] at hw
  simp only [WInv', hc] at hw
  obtain ⟨h', hh, h1, h2, h3, h4⟩ := hw
  refine inv_setCtl h i _ hne ?_
  simp only [WInv']
  rw [hh, run_append]
  simp [Stage.runL, h1, h2, h3, h4]

theorem inv_step_worker {st : Stage σ α β} {s0 : σ} {inp : Nat → Nat} {p q : Pool σ α β}
    (h : Inv st s0 inp p) {i : Nat} (hi : i < p.nW) (hq : q ∈ workerNext st p i) : Inv st s0 inp q := by
  have hw := h.worker i
  rw [WInv_iff] at hw
  cases hc : (p.ws i).ctl with
  | idle s =>
    have hne : Ctl.isExited (p.ws i).ctl = false := by rw [hc]; rfl
    simp only [WInv', hc] at hw
    obtain ⟨h1, h2, h3, h4⟩ := hw
    simp only [workerNext, hc] at hq
    split at hq
    · rename_i a rest hb
      rw [List.mem_singleton] at hq
      subst hq
      exact inv_take h hi hc hb
    · split at hq
      · rw [List.mem_singleton] at hq
        subst hq
        refine inv_setCtl h i _ hne ?_
        simp only [WInv']
        simp_all
      · simp at hq
  | calling s a =>
    simp only [workerNext, hc] at hq
    split at hq
    · simp at hq
    · rw [List.mem_singleton] at hq
      subst hq
      exact inv_call h hc
  | busy s ems aft =>
    have hne : Ctl.isExited (p.ws i).ctl = false := by rw [hc]; rfl
    simp only [WInv', hc] at hw
    obtain ⟨h1, h2, h3, h4⟩ := hw
    cases ems with
    | nil =>
      cases aft with
      | cont =>
        simp only [workerNext, hc, List.mem_singleton] at hq
        subst hq
        refine inv_setCtl h i _ hne ?_
        simp only [WInv']
        simp_all
      | stop =>
        simp only [workerNext, hc, List.mem_singleton] at hq
        subst hq
        refine inv_setCtl h i _ hne ?_
        simp only [WInv']
        simp_all
      | poll =>
        simp only [workerNext, hc] at hq
        split at hq
        · rw [List.mem_singleton] at hq
          subst hq
          refine inv_setCtl h i _ hne ?_
          simp only [WInv']
          simp_all
        · rw [List.mem_singleton] at hq
          subst hq
          refine inv_setCtl h i _ hne ?_
          simp only [WInv']
          simp_all
    | cons e rest =>
      simp only [workerNext, hc, List.mem_append] at hq
      rcases hq with hq | hq
      · rw [not_exited_of_open h hi hne e.ch] at hq
        simp only [Bool.false_eq_true, if_false] at hq
        split at hq
        · rw [List.mem_singleton] at hq
          subst hq
          refine inv_emit h (i := i) (k := e.ch) (v := e.val) hi rfl rfl rfl (fun k' => ?_) rfl rfl rfl
            rfl rfl rfl (fifo_push h i e.ch e.val) rfl rfl
            (fun k' => hout_busy k' _ e _ h4) hne ?_
          · by_cases hk : k' = e.ch
            · subst hk; simp [setW, pushOut]
            · simp [setW, pushOut, hk]
          · simp only [WInv']
            simp_all
        · simp at hq
      · split at hq
        · rw [List.mem_singleton] at hq
          subst hq
          refine inv_setCtl h i _ hne ?_
          simp only [WInv']
          simp_all
        · simp at hq
  | exiting s fin why =>
    have hne : Ctl.isExited (p.ws i).ctl = false := by rw [hc]; rfl
    simp only [WInv', hc] at hw
    cases fin with
    | nil =>
      simp only [workerNext, hc, List.mem_singleton] at hq
      subst hq
      refine inv_setCtl h i _ hne ?_
      simp only [WInv']
      simpa using hw
    | cons kv rest =>
      obtain ⟨k, v⟩ := kv
      simp only [workerNext, hc] at hq
      rw [not_exited_of_open h hi hne k] at hq
      simp only [Bool.false_eq_true, if_false] at hq
      split at hq
      · rw [List.mem_singleton] at hq
        subst hq
        refine inv_emit h (i := i) (k := k) (v := v) hi rfl rfl rfl (fun k' => ?_) rfl rfl rfl
          rfl rfl rfl (fifo_push h i k v) rfl rfl
          (fun k' => hout_exiting k' _ k v _) hne ?_
        · by_cases hk : k' = k
          · subst hk; simp [setW, pushOut]
          · simp [setW, pushOut, hk]
        · simp only [WInv']
          simpa using hw
      · simp at hq
  | exited s why => simp [workerNext, hc] at hq

theorem inv_step_closer {st : Stage σ α β} {s0 : σ} {inp : Nat → Nat} {p q : Pool σ α β}
    (h : Inv st s0 inp p) (hq : q ∈ closerNext p) : Inv st s0 inp q := by
  unfold closerNext at hq
  split at hq
  · simp at hq
  · rename_i k rest htc
    split at hq
    · rename_i hx
      split at hq
      · rename_i hk
        have := (h.closedLate k hk).2
        rw [htc] at this
        exact absurd (List.mem_cons_self) this
      · rw [List.mem_singleton] at hq
        subst hq
        have hnd := h.nodup
        rw [htc, List.nodup_cons] at hnd
        refine ⟨?_, h.fifoIn, h.outOf, h.inOf, h.tagsIn, h.tagsOut, h.inpConst, ?_, ?_, hnd.2, h.noPanic⟩
        · intro k'
          by_cases hk : k' = k
          · subst hk; simpa using h.fifoOut k'
          · simpa [hk] using h.fifoOut k'
        · intro j
          exact WInv_frame (p := p) rfl id id (h.worker j)
        · intro k' hk'
          refine ⟨hx, ?_⟩
          by_cases hk : k' = k
          · subst hk; exact hnd.1
          · simp only [upd_other _ _ _ _ hk] at hk'
            have := (h.closedLate k' hk').2
            rw [htc] at this
            exact fun hm => this (List.mem_cons_of_mem _ hm)
    · simp at hq

theorem inv_handoff {st : Stage σ α β} {s0 : σ} {inp : Nat → Nat} {p q : Pool σ α β}
    (h : Inv st s0 inp p) {i k : Nat} {v : β} (hi : i < p.nW) (hq : (q, v) ∈ handoff p k i) :
    Inv st s0 inp q := by
  have hw := h.worker i
  rw [WInv_iff] at hw
  cases hc : (p.ws i).ctl with
  | idle s => simp [handoff, hc] at hq
  | calling s a => simp [handoff, hc] at hq
  | exited s why => simp [handoff, hc] at hq
  | busy s ems aft =>
    have hne : Ctl.isExited (p.ws i).ctl = false := by rw [hc]; rfl
    simp only [WInv', hc] at hw
    obtain ⟨h1, h2, h3, h4⟩ := hw
    cases ems with
    | nil => simp [handoff, hc] at hq
    | cons e rest =>
      simp only [handoff, hc] at hq
      split at hq
      · rename_i hcond
        obtain ⟨hek, hbuf, _⟩ := hcond
        rw [List.mem_singleton, Prod.mk.injEq] at hq
        obtain ⟨hq, hv⟩ := hq
        subst hq hek
        refine inv_emit h (i := i) (k := e.ch) (v := e.val) hi rfl rfl rfl (fun k' => rfl) rfl rfl rfl
          rfl rfl rfl (fifo_handoff h i e.ch e.val hbuf) rfl rfl
          (fun k' => hout_busy k' _ e _ h4) hne ?_
        simp only [WInv']
        simp_all
      · simp at hq
  | exiting s fin why =>
    have hne : Ctl.isExited (p.ws i).ctl = false := by rw [hc]; rfl
    simp only [WInv', hc] at hw
    cases fin with
    | nil => simp [handoff, hc] at hq
    | cons kv rest =>
      obtain ⟨k', v'⟩ := kv
      simp only [handoff, hc] at hq
      split at hq
      · rename_i hcond
        obtain ⟨hek, hbuf, _⟩ := hcond
        rw [List.mem_singleton, Prod.mk.injEq] at hq
        obtain ⟨hq, hv⟩ := hq
        subst hq hek
        refine inv_emit h (i := i) (k := k') (v := v') hi rfl rfl rfl (fun k'' => rfl) rfl rfl rfl
          rfl rfl rfl (fifo_handoff h i k' v' hbuf) rfl rfl
          (fun k'' => hout_exiting k'' _ k' v' _) hne ?_
        simp only [WInv']
        simpa using hw
      · simp at hq

theorem inv_step_env {st : Stage σ α β} {s0 : σ} {inp : Nat → Nat} {p q : Pool σ α β}
    (h : Inv st s0 inp p) {m : Move α} {o : Obs β} (hq : (q, o) ∈ envNext st p m) : Inv st s0 inp q := by
  cases m with
  | send j v =>
    simp only [envNext] at hq
    split at hq
    · simp only [List.mem_singleton, Prod.mk.injEq] at hq; rw [hq.1]; exact h
    · rename_i hncl
      split at hq
      · simp only [List.mem_singleton, Prod.mk.injEq] at hq
        rw [hq.1]
        refine ⟨h.fifoOut, ?_, h.outOf, h.inOf, h.tagsIn, h.tagsOut, h.inpConst, ?_, h.closedLate,
          h.nodup, h.noPanic⟩
        · intro j'
          by_cases hj : j' = j
          · subst hj; simp [← h.fifoIn j']
          · simp [hj, h.fifoIn j']
        · intro i
          refine WInv_frame (p := p) rfl ?_ id (h.worker i)
          intro ⟨h1, h2⟩
          by_cases hj : (p.ws i).inp = j
          · rw [hj] at h1; exact absurd h1 hncl
          · simp only [upd_other _ _ _ _ hj]; exact ⟨h1, h2⟩
      · simp only [List.mem_singleton, Prod.mk.injEq] at hq; rw [hq.1]; exact h
  | close j =>
    simp only [envNext] at hq
    split at hq
    · simp only [List.mem_singleton, Prod.mk.injEq] at hq; rw [hq.1]; exact h
    · simp only [List.mem_singleton, Prod.mk.injEq] at hq
      rw [hq.1]
      refine ⟨h.fifoOut, ?_, h.outOf, h.inOf, h.tagsIn, h.tagsOut, h.inpConst, ?_, h.closedLate,
        h.nodup, h.noPanic⟩
      · intro j'
        by_cases hj : j' = j
        · subst hj; simpa using h.fifoIn j'
        · simpa [hj] using h.fifoIn j'
      · intro i
        refine WInv_frame (p := p) rfl ?_ id (h.worker i)
        intro ⟨h1, h2⟩
        by_cases hj : (p.ws i).inp = j
        · rw [hj] at h2 ⊢; simp [h2]
        · simp only [upd_other _ _ _ _ hj]; exact ⟨h1, h2⟩
  | recv k =>
    simp only [envNext] at hq
    split at hq
    · rename_i v rest hb
      simp only [List.mem_singleton, Prod.mk.injEq] at hq
      rw [hq.1]
      refine ⟨?_, h.fifoIn, h.outOf, h.inOf, h.tagsIn, h.tagsOut, h.inpConst, ?_, ?_,
        h.nodup, h.noPanic⟩
      · intro k'
        by_cases hk : k' = k
        · subst hk; simp [← h.fifoOut k', hb]
        · simp [hk, h.fifoOut k']
      · intro i
        exact WInv_frame (p := p) rfl id id (h.worker i)
      · intro k' hk'
        refine h.closedLate k' ?_
        by_cases hk : k' = k
        · subst hk; simpa using hk'
        · simpa [hk] using hk'
    · split at hq
      · simp only [List.mem_singleton, Prod.mk.injEq] at hq; rw [hq.1]; exact h
      · rw [List.mem_map] at hq
        obtain ⟨⟨q', v⟩, hm, he⟩ := hq
        simp only [Prod.mk.injEq] at he
        rw [List.mem_flatMap] at hm
        obtain ⟨i, hi, hm⟩ := hm
        rw [← he.1]
        exact inv_handoff h (List.mem_range.mp hi) hm
  | cancel =>
    simp only [envNext, List.mem_singleton, Prod.mk.injEq] at hq
    rw [hq.1]
    refine ⟨h.fifoOut, h.fifoIn, h.outOf, h.inOf, h.tagsIn, h.tagsOut, h.inpConst, ?_, h.closedLate,
      h.nodup, h.noPanic⟩
    intro i
    exact WInv_frame (p := p) rfl id (fun _ => rfl) (h.worker i)
  | release i =>
    simp only [envNext] at hq
    split at hq
    · rename_i s a hc
      simp only [List.mem_singleton, Prod.mk.injEq] at hq
      rw [hq.1]
      exact inv_call h hc
    · simp only [List.mem_singleton, Prod.mk.injEq] at hq; rw [hq.1]; exact h

theorem inv_step (st : Stage σ α β) (s0 : σ) (inp : Nat → Nat) {p q : Pool σ α β}
    (h : Inv st s0 inp p) (hs : Step st p q) : Inv st s0 inp q := by
  rcases hs with hq | ⟨m, o, hq⟩
  · unfold procNext at hq
    rw [List.mem_append, List.mem_flatMap] at hq
    rcases hq with ⟨i, hi, hq⟩ | hq
    · exact inv_step_worker h (List.mem_range.mp hi) hq
    · exact inv_step_closer h hq
  · exact inv_step_env h hq

/-- every reachable state of every pool satisfies the invariant: for all schedules -/
theorem inv_reachable (st : Stage σ α β) (nW : Nat) (inp : Nat → Nat) (s0 : σ) (inCap outCap : Nat → Nat)
    (toClose : List Nat) (gated : Bool) (hnd : toClose.Nodup) {p : Pool σ α β}
    (hr : Reachable st (Pool.init nW inp s0 inCap outCap toClose gated) p) : Inv st s0 inp p := by
  induction hr with
  | init => exact inv_init st nW inp s0 inCap outCap toClose gated hnd
  | step _ hs ih => exact inv_step st s0 inp ih hs

/-! ### consequences used by the property theorems -/

/-- C06 `prefix`, any pool: what worker `i` has sent so far is a prefix of what the stage's
sequential meaning sends for that worker's consumed list -/
theorem worker_out_prefix {st : Stage σ α β} {s0 : σ} {inp : Nat → Nat} {p : Pool σ α β}
    (h : Inv st s0 inp p) (i : Nat) : (p.ws i).out <+: (st.run s0 (p.ws i).hist).ems := by
  have hw := h.worker i
  simp only [WInv] at hw
  split at hw
  · rw [hw.2.1]; exact List.prefix_refl _
  · obtain ⟨h', hh, _, he, _⟩ := hw
    rw [hh, ← he]
    exact run_ems_prefix st s0 h' _
  · rw [hw.2.1]; exact List.prefix_append _ _
  · exact hw.2.1
  · exact hw.2.1

/-- single worker: its consumed list is a prefix of what the environment sent on its input -/
theorem single_hist_prefix {st : Stage σ α β} {s0 : σ} {inp : Nat → Nat} {p : Pool σ α β}
    (h : Inv st s0 inp p) (h1 : p.nW = 1) : (p.ws 0).hist <+: p.sent (inp 0) := by
  have h2 := h.inOf 0 (inp 0)
  simp only [if_true] at h2
  have h3 : (p.taken (inp 0)).filter (·.1 == 0) = p.taken (inp 0) := by
    rw [List.filter_eq_self]
    intro x hx
    have := h.tagsIn _ x hx
    simp; omega
  rw [h3] at h2
  rw [← h.fifoIn (inp 0), h2]
  exact List.prefix_append _ _

/-- single worker (every `pipe` consumer stage), any schedule, cancelled or not: what has been
delivered on output `k` is a prefix of the sequential meaning of the stage on everything sent -/
theorem single_delivered_prefix {st : Stage σ α β} {s0 : σ} {inp : Nat → Nat} {p : Pool σ α β}
    (h : Inv st s0 inp p) (h1 : p.nW = 1) (hf : ∀ s, st.final s = []) (k : Nat) :
    p.delivered k <+: onCh k (st.run s0 (p.sent (inp 0))).ems := by
  have hfo : (p.ws 0).fout = [] := by
    have hw := h.worker 0
    simp only [WInv] at hw
    split at hw
    · exact hw.2.2.2
    · obtain ⟨_, _, _, _, _, h5⟩ := hw; exact h5
    · exact hw.2.2.2
    · have := hw.2.2.2.2.2.2; rw [hf] at this; exact (List.append_eq_nil_iff.mp this).1
    · have := hw.2.2.2.2.2.2; rw [hf] at this; exact this
  have h3 : (p.emitted k).filter (·.1 == 0) = p.emitted k := by
    rw [List.filter_eq_self]
    intro x hx
    have := h.tagsOut _ x hx
    simp; omega
  have h4 := h.outOf 0 k
  rw [h3, hfo] at h4
  simp only [List.filter_nil, List.map_nil, List.append_nil] at h4
  have h5 : p.delivered k <+: onCh k (p.ws 0).out := by
    rw [← h4, ← h.fifoOut k]; exact List.prefix_append _ _
  refine h5.trans ?_
  have h6 : (p.ws 0).out <+: (st.run s0 (p.sent (inp 0))).ems := by
    refine (worker_out_prefix h 0).trans ?_
    obtain ⟨t, ht⟩ := single_hist_prefix h h1
    rw [← ht]
    exact run_ems_prefix st s0 _ _
  exact (h6.filter _).map _

set_option linter.unusedVariables false in
/-- single worker, not cancelled, worker gone and its input closed: delivered ++ buffered is
*exactly* the sequential meaning on everything sent (C05) -/
theorem single_complete {st : Stage σ α β} {s0 : σ} {inp : Nat → Nat} {p : Pool σ α β}
    (h : Inv st s0 inp p) (h1 : p.nW = 1) (hc : p.cancelled = false)
    (hx : Ctl.isExited (p.ws 0).ctl = true) (hcl : (p.ins (inp 0)).closed = true) (k : Nat) :
    p.delivered k ++ (p.outs k).buf
      = onCh k (st.run s0 (p.sent (inp 0))).ems
        ++ (((st.final (st.run s0 (p.sent (inp 0))).s).filter (·.1 == k)).map (·.2)) := by
  have h3 : (p.emitted k).filter (·.1 == 0) = p.emitted k := by
    rw [List.filter_eq_self]
    intro x hx
    have := h.tagsOut _ x hx
    simp; omega
  have h4 := h.outOf 0 k
  rw [h3] at h4
  rw [h.fifoOut k, h4]
  obtain ⟨t, ht⟩ := single_hist_prefix h h1
  have hw := h.worker 0
  have hi0 := h.inpConst 0
  simp only [WInv] at hw
  split at hw
  case h_5 s why hctl =>
    obtain ⟨hs, _, hout, hstop, heof, hdone, hfout⟩ := hw
    have hnd : why ≠ .done := by
      intro hd; have := hdone hd; rw [hc] at this; exact absurd this (by decide)
    have hrun : st.run s0 (p.sent (inp 0)) = st.run s0 (p.ws 0).hist := by
      cases why with
      | done => exact absurd rfl hnd
      | stop => rw [← ht]; exact run_stopped_append st s0 _ _ (hstop rfl)
      | eof =>
        have := (heof rfl).2.2
        rw [hi0] at this
        have h5 := h.fifoIn (inp 0)
        rw [this, List.append_nil] at h5
        have h6 := h.inOf 0 (inp 0)
        have h7 : (p.taken (inp 0)).filter (·.1 == 0) = p.taken (inp 0) := by
          rw [List.filter_eq_self]
          intro x hx
          have := h.tagsIn _ x hx
          simp; omega
        rw [h7] at h6
        simp only [if_true] at h6
        rw [← h5, h6]
    rw [hrun, hout hnd, hfout, hs]
  all_goals (rename_i hctl; rw [hctl] at hx; simp [Ctl.isExited] at hx)

/-- any number of workers: the consumed lists of the workers reading input `j` partition
(as a multiset) what was taken from input `j` -/
theorem hist_perm {st : Stage σ α β} {s0 : σ} {inp : Nat → Nat} {p : Pool σ α β}
    (h : Inv st s0 inp p) (j : Nat) :
    ((p.taken j).map (·.2)).Perm
      ((List.range p.nW).flatMap fun i => if inp i = j then (p.ws i).hist else []) := by
  refine (perm_tags p.nW (p.taken j) (h.tagsIn j)).trans ?_
  rw [flatMap_congr' (fun i _ => h.inOf i j)]

/-- any number of workers: delivered ++ buffered on `k` is a permutation of all workers' sends on `k`,
and keeps each worker's own order (`outOf`) -/
theorem out_perm {st : Stage σ α β} {s0 : σ} {inp : Nat → Nat} {p : Pool σ α β}
    (h : Inv st s0 inp p) (k : Nat) :
    (p.delivered k ++ (p.outs k).buf).Perm
      ((List.range p.nW).flatMap fun i =>
        onCh k (p.ws i).out ++ (((p.ws i).fout.filter (·.1 == k)).map (·.2))) := by
  rw [h.fifoOut k]
  refine (perm_tags p.nW (p.emitted k) (h.tagsOut k)).trans ?_
  rw [flatMap_congr' (fun i _ => h.outOf i k)]

/-! ### termination -/

/-- lexicographic variant: every process move strictly decreases it -/
def rank : Ctl σ α β → Nat
  | .idle _ => 0
  | .calling _ _ => 0
  | .busy _ ems _ => ems.length + 1
  | .exiting _ fin _ => fin.length + 1
  | .exited _ _ => 0

def isCalling : Ctl σ α β → Bool
  | .calling _ _ => true
  | _ => false

def isAlive : Ctl σ α β → Bool
  | .exiting _ _ _ => false
  | .exited _ _ => false
  | _ => true

/-- (buffered inputs of the inputs some worker reads, #calling, #alive, Σ rank + #toClose) — compared lexicographically.
Inputs are summed over workers' inputs counted once per *input index below `nIn`*. -/
def variant (nIn : Nat) (p : Pool σ α β) : Nat × Nat × Nat × Nat :=
  ( ((List.range nIn).map fun j => (p.ins j).buf.length).sum,
    ((List.range p.nW).filter fun i => isCalling (p.ws i).ctl).length,
    ((List.range p.nW).filter fun i => isAlive (p.ws i).ctl).length,
    ((List.range p.nW).map fun i => rank (p.ws i).ctl).sum + p.toClose.length )

theorem sum_range_congr {n : Nat} {f g : Nat → Nat} (h : ∀ j, j < n → g j = f j) :
    ((List.range n).map g).sum = ((List.range n).map f).sum := by
  induction n with
  | zero => rfl
  | succ n ih =>
    simp only [List.range_succ, List.map_append, List.sum_append, List.map_cons, List.map_nil,
      List.sum_cons, List.sum_nil]
    rw [ih (fun j hj => h j (by omega)), h n (by omega)]

theorem sum_range_lt {n i : Nat} {f g : Nat → Nat} (hi : i < n) (hlt : g i < f i)
    (h : ∀ j, j < n → j ≠ i → g j = f j) :
    ((List.range n).map g).sum < ((List.range n).map f).sum := by
  induction n with
  | zero => omega
  | succ n ih =>
    simp only [List.range_succ, List.map_append, List.sum_append, List.map_cons, List.map_nil,
      List.sum_cons, List.sum_nil]
    by_cases hin : i = n
    · subst hin
      have := sum_range_congr (n := i) (f := f) (g := g) (fun j hj => h j (by omega) (by omega))
      omega
    · have h1 := ih (by omega) (fun j hj hji => h j (by omega) hji)
      have h2 := h n (by omega) (fun e => hin e.symm)
      omega

theorem length_filter_eq_sum {ι : Type} (l : List ι) (b : ι → Bool) :
    (l.filter b).length = (l.map fun i => if b i then 1 else 0).sum := by
  induction l with
  | nil => rfl
  | cons a l ih =>
    simp only [List.filter_cons, List.map_cons, List.sum_cons]
    cases b a <;> simp [ih] <;> omega

/-- sum over the workers of a function of the control point -/
def wsum (f : Ctl σ α β → Nat) (p : Pool σ α β) : Nat := ((List.range p.nW).map fun i => f (p.ws i).ctl).sum

def cN (c : Ctl σ α β) : Nat := if isCalling c then 1 else 0
def aN (c : Ctl σ α β) : Nat := if isAlive c then 1 else 0

theorem variant_eq (nIn : Nat) (p : Pool σ α β) :
    variant nIn p = (((List.range nIn).map fun j => (p.ins j).buf.length).sum,
      wsum cN p, wsum aN p, wsum rank p + p.toClose.length) := by
  simp only [variant, wsum, length_filter_eq_sum, cN, aN]

theorem wsum_lt {f : Ctl σ α β → Nat} {p q : Pool σ α β} {i : Nat} {w' : Worker σ α β}
    (hi : i < p.nW) (hnW : q.nW = p.nW) (hws : q.ws = upd p.ws i w')
    (hlt : f w'.ctl < f (p.ws i).ctl) : wsum f q < wsum f p := by
  unfold wsum
  rw [hnW, hws]
  refine sum_range_lt hi (by simpa using hlt) ?_
  intro j _ hji
  simp [hji]

theorem wsum_eq {f : Ctl σ α β → Nat} {p q : Pool σ α β} {i : Nat} {w' : Worker σ α β}
    (hnW : q.nW = p.nW) (hws : q.ws = upd p.ws i w')
    (heq : f w'.ctl = f (p.ws i).ctl) : wsum f q = wsum f p := by
  unfold wsum
  rw [hnW, hws]
  refine sum_range_congr ?_
  intro j _
  by_cases hji : j = i
  · subst hji; simpa using heq
  · simp [hji]

theorem lex4 {a b c d a' b' c' d' : Nat}
    (h : a' < a ∨ (a' = a ∧ (b' < b ∨ (b' = b ∧ (c' < c ∨ (c' = c ∧ d' < d)))))) :
    Prod.Lex (· < ·) (Prod.Lex (· < ·) (Prod.Lex (· < ·) (· < ·))) (a', b', c', d') (a, b, c, d) := by
  simp only [Prod.lex_def]
  exact h

/-- worker `i` changes; inputs' lengths and `toClose` do not; the worker's own contribution decreases -/
theorem variant_dec_of_upd (nIn : Nat) {p q : Pool σ α β} {i : Nat} {w' : Worker σ α β}
    (hi : i < p.nW) (hnW : q.nW = p.nW) (hws : q.ws = upd p.ws i w')
    (hins : q.ins = p.ins) (htc : q.toClose = p.toClose)
    (hdec : cN w'.ctl < cN (p.ws i).ctl ∨ (cN w'.ctl = cN (p.ws i).ctl ∧
      (aN w'.ctl < aN (p.ws i).ctl ∨ (aN w'.ctl = aN (p.ws i).ctl ∧ rank w'.ctl < rank (p.ws i).ctl)))) :
    Prod.Lex (· < ·) (Prod.Lex (· < ·) (Prod.Lex (· < ·) (· < ·))) (variant nIn q) (variant nIn p) := by
  rw [variant_eq, variant_eq]
  apply lex4
  right
  refine ⟨by rw [hins], ?_⟩
  rcases hdec with hd | ⟨he, hd | ⟨he2, hd⟩⟩
  · exact Or.inl (wsum_lt hi hnW hws hd)
  · exact Or.inr ⟨wsum_eq hnW hws he, Or.inl (wsum_lt hi hnW hws hd)⟩
  · refine Or.inr ⟨wsum_eq hnW hws he, Or.inr ⟨wsum_eq hnW hws he2, ?_⟩⟩
    have := wsum_lt (f := rank) hi hnW hws hd
    rw [htc]; omega

/-- every process move strictly decreases the variant (workers read inputs `< nIn`):
between two environment moves the stage can only make finitely many moves -/
theorem proc_decreases (st : Stage σ α β) (nIn : Nat) {s0 : σ} {inp : Nat → Nat} {p q : Pool σ α β}
    (h : Inv st s0 inp p)
    (hin : ∀ i, i < p.nW → (p.ws i).inp < nIn) (hq : q ∈ procNext st p) :
    Prod.Lex (· < ·) (Prod.Lex (· < ·) (Prod.Lex (· < ·) (· < ·))) (variant nIn q) (variant nIn p) := by
  unfold procNext at hq
  rw [List.mem_append, List.mem_flatMap] at hq
  rcases hq with ⟨i, hi, hq⟩ | hq
  · rw [List.mem_range] at hi
    cases hc : (p.ws i).ctl with
    | idle s =>
      simp only [workerNext, hc] at hq
      split at hq
      · rename_i a rest hb
        rw [List.mem_singleton] at hq
        subst hq
        rw [variant_eq, variant_eq]
        apply lex4
        left
        refine sum_range_lt (hin i hi) ?_ ?_
        · simp [hb]
        · intro j _ hj; simp [hj]
      · split at hq
        · rw [List.mem_singleton] at hq
          subst hq
          refine variant_dec_of_upd nIn hi rfl rfl rfl rfl ?_
          simp [cN, aN, rank, isCalling, isAlive, hc]
        · simp at hq
    | calling s a =>
      simp only [workerNext, hc] at hq
      split at hq
      · simp at hq
      · rw [List.mem_singleton] at hq
        subst hq
        refine variant_dec_of_upd nIn hi rfl rfl rfl rfl ?_
        simp [cN, aN, rank, isCalling, isAlive, hc]
    | busy s ems aft =>
      have hne : Ctl.isExited (p.ws i).ctl = false := by rw [hc]; rfl
      cases ems with
      | nil =>
        cases aft with
        | cont =>
          simp only [workerNext, hc, List.mem_singleton] at hq
          subst hq
          refine variant_dec_of_upd nIn hi rfl rfl rfl rfl ?_
          simp [cN, aN, rank, isCalling, isAlive, hc]
        | stop =>
          simp only [workerNext, hc, List.mem_singleton] at hq
          subst hq
          refine variant_dec_of_upd nIn hi rfl rfl rfl rfl ?_
          simp [cN, aN, rank, isCalling, isAlive, hc]
        | poll =>
          simp only [workerNext, hc] at hq
          split at hq
          · rw [List.mem_singleton] at hq
            subst hq
            refine variant_dec_of_upd nIn hi rfl rfl rfl rfl ?_
            simp [cN, aN, rank, isCalling, isAlive, hc]
          · rw [List.mem_singleton] at hq
            subst hq
            refine variant_dec_of_upd nIn hi rfl rfl rfl rfl ?_
            simp [cN, aN, rank, isCalling, isAlive, hc]
      | cons e rest =>
        simp only [workerNext, hc, List.mem_append] at hq
        rcases hq with hq | hq
        · rw [not_exited_of_open h hi hne e.ch] at hq
          simp only [Bool.false_eq_true, if_false] at hq
          split at hq
          · rw [List.mem_singleton] at hq
            subst hq
            refine variant_dec_of_upd nIn hi rfl rfl rfl rfl ?_
            simp [cN, aN, rank, isCalling, isAlive, hc]
          · simp at hq
        · split at hq
          · rw [List.mem_singleton] at hq
            subst hq
            refine variant_dec_of_upd nIn hi rfl rfl rfl rfl ?_
            simp [cN, aN, rank, isCalling, isAlive, hc]
          · simp at hq
    | exiting s fin why =>
      have hne : Ctl.isExited (p.ws i).ctl = false := by rw [hc]; rfl
      cases fin with
      | nil =>
        simp only [workerNext, hc, List.mem_singleton] at hq
        subst hq
        refine variant_dec_of_upd nIn hi rfl rfl rfl rfl ?_
        simp [cN, aN, rank, isCalling, isAlive, hc]
      | cons kv rest =>
        obtain ⟨k, v⟩ := kv
        simp only [workerNext, hc] at hq
        rw [not_exited_of_open h hi hne k] at hq
        simp only [Bool.false_eq_true, if_false] at hq
        split at hq
        · rw [List.mem_singleton] at hq
          subst hq
          refine variant_dec_of_upd nIn hi rfl rfl rfl rfl ?_
          simp [cN, aN, rank, isCalling, isAlive, hc]
        · simp at hq
    | exited s why => simp [workerNext, hc] at hq
  · unfold closerNext at hq
    split at hq
    · simp at hq
    · rename_i k rest htc
      split at hq
      · split at hq
        · rename_i hk
          have := (h.closedLate k hk).2
          rw [htc] at this
          exact absurd (List.mem_cons_self) this
        · rw [List.mem_singleton] at hq
          subst hq
          rw [variant_eq, variant_eq]
          apply lex4
          refine Or.inr ⟨rfl, Or.inr ⟨rfl, Or.inr ⟨rfl, ?_⟩⟩⟩
          show wsum rank p + rest.length < wsum rank p + p.toClose.length
          rw [htc]; simp
      · simp at hq

/-- between two environment moves a pool makes only finitely many moves, under every scheduler:
the process-move relation (restricted to invariant states whose workers read inputs `< nIn`)
is well-founded -/
theorem proc_terminates (st : Stage σ α β) (s0 : σ) (inp : Nat → Nat) (nIn : Nat) :
    WellFounded (fun (q p : Pool σ α β) =>
      Inv st s0 inp p ∧ (∀ i, i < p.nW → (p.ws i).inp < nIn) ∧ q ∈ procNext st p) := by
  have wfN : WellFounded (fun (a b : Nat) => a < b) := Nat.lt_wfRel.wf
  have wf4 : WellFounded
      (Prod.Lex (fun (a b : Nat) => a < b) (Prod.Lex (fun (a b : Nat) => a < b)
        (Prod.Lex (fun (a b : Nat) => a < b) (fun (a b : Nat) => a < b)))) :=
    (Prod.lex ⟨_, wfN⟩ (Prod.lex ⟨_, wfN⟩ (Prod.lex ⟨_, wfN⟩ ⟨_, wfN⟩))).wf
  refine Subrelation.wf ?_ (InvImage.wf (variant nIn) wf4)
  intro q p ⟨h, hin, hq⟩
  exact proc_decreases st nIn h hin hq


/-- process moves do not change the number of workers -/
theorem workerNext_nW {st : Stage σ α β} {p q : Pool σ α β} {i : Nat} (hq : q ∈ workerNext st p i) :
    q.nW = p.nW := by
  unfold workerNext at hq
  dsimp only at hq
  repeat' split at hq
  all_goals
    simp only [List.mem_append, List.mem_singleton, List.not_mem_nil, or_false, false_or] at hq
  all_goals (try (rcases hq with hq | hq))
  all_goals (try (split at hq))
  all_goals (try (simp only [List.mem_append, List.mem_singleton, List.not_mem_nil, or_false, false_or] at hq))
  all_goals (try (subst hq))
  all_goals (first | rfl | simp)

theorem procNext_nW {st : Stage σ α β} {p q : Pool σ α β} (hq : q ∈ procNext st p) : q.nW = p.nW := by
  unfold procNext at hq
  rw [List.mem_append, List.mem_flatMap] at hq
  rcases hq with ⟨i, _, hq⟩ | hq
  · exact workerNext_nW hq
  · unfold closerNext at hq
    repeat' split at hq
    all_goals simp only [List.mem_singleton, List.not_mem_nil] at hq
    all_goals (subst hq; rfl)

/-- the side condition of `proc_terminates` is itself preserved by process moves -/
theorem procNext_inp_lt {st : Stage σ α β} {s0 : σ} {inp : Nat → Nat} {nIn : Nat} {p q : Pool σ α β}
    (h : Inv st s0 inp p) (hin : ∀ i, i < p.nW → (p.ws i).inp < nIn) (hq : q ∈ procNext st p) :
    ∀ i, i < q.nW → (q.ws i).inp < nIn := by
  have hq' := inv_step st s0 inp h (Or.inl hq)
  intro i hi
  rw [procNext_nW hq] at hi
  rw [hq'.inpConst, ← h.inpConst]
  exact hin i hi

/-- a worker blocked on a *plain* send to a full channel (never the case for the stages of
`pipe`/`fork`: shown per stage) -/
def blockedPlain (p : Pool σ α β) (i : Nat) : Prop :=
  match (p.ws i).ctl with
  | .busy _ (e :: _) _ => e.mode = .plain ∧ ¬ (p.outs e.ch).buf.length < (p.outs e.ch).cap
  | .exiting _ ((k, _) :: _) _ => ¬ (p.outs k).buf.length < (p.outs k).cap
  | _ => False

theorem procNext_nil {st : Stage σ α β} {p : Pool σ α β} (hq : procNext st p = []) :
    (∀ i, i < p.nW → workerNext st p i = []) ∧ closerNext p = [] := by
  unfold procNext at hq
  rw [List.append_eq_nil_iff, List.flatMap_eq_nil_iff] at hq
  exact ⟨fun i hi => hq.1 i (List.mem_range.mpr hi), hq.2⟩

/-- a worker that cannot move (ungated, its input closed) has exited, unless it sits on a send
that can neither complete nor be abandoned -/
theorem stuck_exited {st : Stage σ α β} {s0 : σ} {inp : Nat → Nat} {p : Pool σ α β}
    (h : Inv st s0 inp p) (hg : p.gated = false) {i : Nat}
    (hcl : (p.ins (inp i)).closed = true) (hwn : workerNext st p i = [])
    (hX : ∀ s e rest aft, (p.ws i).ctl = .busy s (e :: rest) aft → (p.outs e.ch).closed = false →
      ¬ ((p.outs e.ch).buf.length < (p.outs e.ch).cap) → ¬ (e.mode = .sel ∧ p.cancelled = true) → False)
    (hY : ∀ s k v rest why, (p.ws i).ctl = .exiting s ((k, v) :: rest) why → (p.outs k).closed = false →
      ¬ ((p.outs k).buf.length < (p.outs k).cap) → False) :
    Ctl.isExited (p.ws i).ctl = true := by
  have hi := h.inpConst i
  cases hc : (p.ws i).ctl with
  | idle s =>
    exfalso
    simp only [workerNext, hc, hi] at hwn
    split at hwn
    · simp at hwn
    · simp [hcl] at hwn
  | calling s a => simp [workerNext, hc, hg] at hwn
  | busy s ems aft =>
    exfalso
    cases ems with
    | nil => cases aft <;> simp [workerNext, hc] at hwn <;> (split at hwn <;> simp at hwn)
    | cons e rest =>
      simp only [workerNext, hc] at hwn
      rw [List.append_eq_nil_iff] at hwn
      obtain ⟨h1, h2⟩ := hwn
      by_cases hclk : (p.outs e.ch).closed = true
      · simp [hclk] at h1
      · simp only [hclk] at h1
        by_cases hlt : (p.outs e.ch).buf.length < (p.outs e.ch).cap
        · simp [hlt] at h1
        · refine hX s e rest aft hc (by simpa using hclk) hlt ?_
          intro hsel
          simp [hsel] at h2
  | exiting s fin why =>
    exfalso
    cases fin with
    | nil => simp [workerNext, hc] at hwn
    | cons kv rest =>
      obtain ⟨k, v⟩ := kv
      simp only [workerNext, hc] at hwn
      by_cases hclk : (p.outs k).closed = true
      · simp [hclk] at hwn
      · simp only [hclk] at hwn
        by_cases hlt : (p.outs k).buf.length < (p.outs k).cap
        · simp [hlt] at hwn
        · exact hY s k v rest why hc (by simpa using hclk) hlt
  | exited s why => rfl

theorem closer_stuck {p : Pool σ α β} (hx : p.allExited = true) (hcn : closerNext p = []) :
    p.toClose = [] := by
  unfold closerNext at hcn
  split at hcn
  · assumption
  · simp only [hx, if_true] at hcn
    split at hcn <;> simp at hcn

/-- C06 `cancel_terminates`, deadlock-freedom half: cancelled, inputs closed, no gate, nothing
more the stage can do by itself  ⇒  every worker has exited and every output is closed,
unless a worker sits on a plain send to a full channel -/
theorem quiescent_cancelled (st : Stage σ α β) {s0 : σ} {inp : Nat → Nat} {p : Pool σ α β}
    (h : Inv st s0 inp p) (hc : p.cancelled = true) (hg : p.gated = false)
    (hcl : ∀ i, i < p.nW → (p.ins (inp i)).closed = true)
    (hq : procNext st p = []) (hb : ∀ i, i < p.nW → ¬ blockedPlain p i) :
    p.allExited = true ∧ p.toClose = [] := by
  obtain ⟨hw, hcn⟩ := procNext_nil hq
  have hx : p.allExited = true := by
    rw [allExited_iff]
    intro i hi
    refine stuck_exited h hg (hcl i hi) (hw i hi) ?_ ?_
    · intro s e rest aft hctl _ hlt hsel
      apply hb i hi
      simp only [blockedPlain, hctl]
      refine ⟨?_, hlt⟩
      cases hm : e.mode with
      | plain => rfl
      | sel => exact absurd ⟨hm, hc⟩ hsel
    · intro s k v rest why hctl _ hlt
      apply hb i hi
      simp only [blockedPlain, hctl]
      exact hlt
  exact ⟨hx, closer_stuck hx hcn⟩

/-- the environment can still receive something on `k` -/
def canRecv (st : Stage σ α β) (p : Pool σ α β) (k : Nat) : Prop :=
  ∃ q v, (q, Obs.value v) ∈ envNext st p (.recv k)

set_option linter.unusedVariables false in
/-- C06 `closes`: inputs closed, nothing more to receive anywhere, stage quiescent ⇒ every worker
has exited and every output is closed (cancelled or not) -/
theorem quiescent_drained (st : Stage σ α β) {s0 : σ} {inp : Nat → Nat} {p : Pool σ α β}
    (h : Inv st s0 inp p) (hg : p.gated = false)
    (hcl : ∀ i, i < p.nW → (p.ins (inp i)).closed = true)
    (hq : procNext st p = []) (hd : ∀ k, ¬ canRecv st p k)
    (hb : ∀ i, i < p.nW → ¬ blockedPlain p i) :
    p.allExited = true ∧ p.toClose = [] := by
  obtain ⟨hw, hcn⟩ := procNext_nil hq
  have hbuf : ∀ k, (p.outs k).buf = [] := by
    intro k
    cases hbk : (p.outs k).buf with
    | nil => rfl
    | cons v rest =>
      exfalso
      apply hd k
      unfold canRecv
      simp only [envNext, hbk]
      exact ⟨_, _, List.mem_singleton.mpr rfl⟩
  have hx : p.allExited = true := by
    rw [allExited_iff]
    intro i hi
    refine stuck_exited h hg (hcl i hi) (hw i hi) ?_ ?_
    · intro s e rest aft hctl hclk _ _
      apply hd e.ch
      have hm : ∃ q, (q, e.val) ∈ (List.range p.nW).flatMap (handoff p e.ch) := by
        have hh : ∃ q, handoff p e.ch i = [(q, e.val)] := by
          simp only [handoff, hctl, hbuf e.ch, hclk]
          simp only [true_and, Bool.false_eq_true, not_false_eq_true, if_true]
          exact ⟨_, rfl⟩
        obtain ⟨q, hq⟩ := hh
        exact ⟨q, List.mem_flatMap.mpr ⟨i, List.mem_range.mpr hi, by rw [hq]; exact List.mem_singleton.mpr rfl⟩⟩
      obtain ⟨q, hqm⟩ := hm
      refine ⟨q, e.val, ?_⟩
      simp only [envNext, hbuf e.ch]
      have hne : ((List.range p.nW).flatMap (handoff p e.ch)).isEmpty = false := by
        cases hl : (List.range p.nW).flatMap (handoff p e.ch) with
        | nil => rw [hl] at hqm; simp at hqm
        | cons _ _ => rfl
      simp only [hne]
      simp only [Bool.false_eq_true, if_false, List.mem_map]
      exact ⟨(q, e.val), hqm, rfl⟩
    · intro s k v rest why hctl hclk _
      apply hd k
      have hm : ∃ q, (q, v) ∈ (List.range p.nW).flatMap (handoff p k) := by
        have hh : ∃ q, handoff p k i = [(q, v)] := by
          simp only [handoff, hctl, hbuf k, hclk]
          simp only [true_and, Bool.false_eq_true, not_false_eq_true, if_true]
          exact ⟨_, rfl⟩
        obtain ⟨q, hq⟩ := hh
        exact ⟨q, List.mem_flatMap.mpr ⟨i, List.mem_range.mpr hi, by rw [hq]; exact List.mem_singleton.mpr rfl⟩⟩
      obtain ⟨q, hqm⟩ := hm
      refine ⟨q, v, ?_⟩
      simp only [envNext, hbuf k]
      have hne : ((List.range p.nW).flatMap (handoff p k)).isEmpty = false := by
        cases hl : (List.range p.nW).flatMap (handoff p k) with
        | nil => rw [hl] at hqm; simp at hqm
        | cons _ _ => rfl
      simp only [hne]
      simp only [Bool.false_eq_true, if_false, List.mem_map]
      exact ⟨(q, v), hqm, rfl⟩
  exact ⟨hx, closer_stuck hx hcn⟩

end Golem.Go.Pool
