/- Monadic (bind) forms of the list-model functions, used to compare them with the definitions
regenerated from the Go source (Gen/HseqArity) by plain monad-law normalisation. -/
import Golem.Model.Lens
namespace Golem.Model

theorem mapE_nil_pure {α β : Type} (f : α → Except Panic β) : mapE f [] = pure [] := rfl

theorem mapE_cons_bind {α β : Type} (f : α → Except Panic β) (a : α) (as : List α) :
    mapE f (a :: as) = f a >>= fun b => mapE f as >>= fun bs => pure (b :: bs) := by
  simp only [mapE, bind, Except.bind, pure, Except.pure]
  cases f a <;> simp only
  cases mapE f as <;> rfl

theorem fmapFrom_nil_pure {β : Type} (ts : List Entry) (k : Nat) : fmapFrom (β := β) ts k [] = pure [] := rfl

theorem fmapFrom_cons_bind {β : Type} (ts : List Entry) (k : Nat) (f : Entry → Except Panic β)
    (fs : List (Entry → Except Panic β)) :
    fmapFrom ts k (f :: fs) =
      index ts k >>= fun x => f x >>= fun b => fmapFrom ts (k + 1) fs >>= fun bs => pure (b :: bs) := by
  simp only [fmapFrom, bind, Except.bind, pure, Except.pure]
  cases index ts k <;> simp only
  rename_i x
  cases f x <;> simp only
  cases fmapFrom ts (k + 1) fs <;> rfl

theorem newN_bind (T : GoType) (As : List GoType) :
    newN T As = hseqNew T [] >>= fun seq => mapE (forType seq) As := by
  simp only [newN, bind, Except.bind]
  cases hseqNew T [] <;> rfl

theorem deriveN_bind (mk : GoType → GoType → Entry → Except Panic Lens) (T : GoType) (As : List GoType)
    (attr : List String) :
    deriveN mk T As attr =
      (if attr.length == 0 then newN T As else attrNames As.length attr >>= fun names => hseqNew T names) >>=
        fun seq => fmapN seq (As.map (mk T)) := by
  have : (attr.length == 0) = attr.isEmpty := by cases attr <;> simp
  simp only [deriveN, bind, Except.bind, this]
  cases attr.isEmpty
  · simp only [Bool.false_eq_true, if_false]
    cases attrNames As.length attr <;> simp only
    rename_i names
    cases hseqNew T names <;> rfl
  · simp only [if_true]
    cases newN T As <;> rfl

theorem attrNames_one (attr : List String) : attrNames 1 attr = index attr 0 >>= fun a => pure [a] := by
  simp only [attrNames, if_true, bind, Except.bind, pure, Except.pure]
  cases index attr 0 <;> rfl

theorem attrNames_ge2 (n : Nat) (attr : List String) : attrNames (n + 2) attr = sliceTo attr (n + 2) := by
  simp [attrNames]

end Golem.Model
