/-
State-level lemmas for C18 (core Lean only): the tower form `TInv` of the invariant, what `skip`
returns under it, and how `put` / `remove` / `get` act on the level-0 chain and on the abstraction
`lookup` (the finite map a state represents).
-/
import Golem.Lemmas.Skiplist
import Golem.Model.SkiplistSpec
namespace Golem.Lemmas.Skiplist
open Golem.Model.Skiplist Std
set_option linter.unusedSectionVars false
variable {K V : Type} [Inhabited K] [Inhabited V]

/-- tower form of the invariant: every chain is the level-0 chain filtered by height -/
structure TInv (cmp : K → K → Ordering) (levels : Nat) (s : State K V) : Prop where
  levels_pos : 0 < levels
  chains_eq : s.chains = tower s.level0 s.height 0 levels
  sorted : s.level0.Pairwise (fun a b => cmp (s.key a) (s.key b) = .lt)
  heights : ∀ i ∈ s.level0, 1 ≤ s.height i ∧ s.height i ≤ levels
  alloc : 0 < s.next ∧ ∀ i ∈ s.level0, 0 < i ∧ i < s.next

/-! ### order facts -/

theorem nodup_of_sorted (cmp : K → K → Ordering) [TransCmp cmp] (key : Nat → K) (c : List Nat)
    (hs : c.Pairwise (fun a b => cmp (key a) (key b) = .lt)) : c.Nodup := by
  unfold List.Nodup
  refine hs.imp ?_
  intro a b h e
  subst e
  rw [ReflCmp.compare_self (cmp := cmp)] at h
  cases h

/-- a strictly ascending chain splits at `k` into smaller keys, at most one equal key, larger keys -/
theorem exists_cut (cmp : K → K → Ordering) [TransCmp cmp] (key : Nat → K) (k : K) (c : List Nat)
    (hs : c.Pairwise (fun a b => cmp (key a) (key b) = .lt)) :
    ∃ lo hi, c = lo ++ hi ∧ (∀ x ∈ lo, cmp (key x) k = .lt) ∧
      ((∀ y ∈ hi, cmp (key y) k = .gt) ∨
       ∃ w rest, hi = w :: rest ∧ cmp (key w) k = .eq ∧ ∀ y ∈ rest, cmp (key y) k = .gt) := by
  induction c with
  | nil => exact ⟨[], [], rfl, by simp, Or.inl (by simp)⟩
  | cons x xs ih =>
    have hp := List.pairwise_cons.mp hs
    cases hx : cmp (key x) k with
    | lt =>
      obtain ⟨lo, hi, e, hlo, hhi⟩ := ih hp.2
      refine ⟨x :: lo, hi, by simp [e], ?_, hhi⟩
      intro y hy
      rcases List.mem_cons.mp hy with h | h
      · subst h; exact hx
      · exact hlo y h
    | eq =>
      refine ⟨[], x :: xs, rfl, by simp, Or.inr ⟨x, xs, rfl, hx, ?_⟩⟩
      intro y hy
      have h1 := hp.1 y hy
      have h2 : cmp k (key y) = .lt := by rw [← TransCmp.congr_left hx]; exact h1
      exact OrientedCmp.gt_of_lt h2
    | gt =>
      refine ⟨[], x :: xs, rfl, by simp, Or.inl ?_⟩
      intro y hy
      rcases List.mem_cons.mp hy with h | h
      · subst h; exact hx
      · have h1 := hp.1 y h
        have h2 : cmp k (key x) = .lt := OrientedCmp.lt_of_gt hx
        exact OrientedCmp.gt_of_lt (TransCmp.lt_trans h2 h1)

/-! ### the node store -/

/-- the state `Put` builds when it allocates a node -/
def pushed (s : State K V) (k : K) (v : V) (h : Nat) (cs : List (List Nat)) : State K V :=
  { store := s.store.push { key := k, val := v, height := h }, chains := cs }

theorem pushed_key (s : State K V) (k : K) (v : V) (h : Nat) (cs : List (List Nat)) (i : Nat) :
    (pushed s k v h cs).key i = if i = s.next then k else s.key i := by
  simp only [pushed, State.key, State.next, Array.getElem?_push]
  by_cases e : i = s.store.size
  · simp [e]
  · simp [e]

theorem pushed_val (s : State K V) (k : K) (v : V) (h : Nat) (cs : List (List Nat)) (i : Nat) :
    (pushed s k v h cs).val i = if i = s.next then v else s.val i := by
  simp only [pushed, State.val, State.next, Array.getElem?_push]
  by_cases e : i = s.store.size
  · simp [e]
  · simp [e]

theorem pushed_height (s : State K V) (k : K) (v : V) (h : Nat) (cs : List (List Nat)) (i : Nat) :
    (pushed s k v h cs).height i = if i = s.next then h else s.height i := by
  simp only [pushed, State.height, State.next, Array.getElem?_push]
  by_cases e : i = s.store.size
  · simp [e]
  · simp [e]

theorem pushed_next (s : State K V) (k : K) (v : V) (h : Nat) (cs : List (List Nat)) :
    (pushed s k v h cs).next = s.next + 1 := by
  simp [pushed, State.next]

theorem setVal_key (s : State K V) (w : Nat) (v : V) : (setVal s w v).key = s.key := by
  funext i
  simp only [setVal, State.key, Array.getElem?_modify]
  by_cases e : w = i
  · simp only [e, if_true]
    cases s.store[i]? <;> rfl
  · simp [e]

theorem setVal_height (s : State K V) (w : Nat) (v : V) : (setVal s w v).height = s.height := by
  funext i
  simp only [setVal, State.height, Array.getElem?_modify]
  by_cases e : w = i
  · simp only [e, if_true]
    cases s.store[i]? <;> rfl
  · simp [e]

theorem setVal_next (s : State K V) (w : Nat) (v : V) : (setVal s w v).next = s.next := by
  simp [setVal, State.next]

theorem setVal_val_ne (s : State K V) (w : Nat) (v : V) (j : Nat) (h : j ≠ w) :
    (setVal s w v).val j = s.val j := by
  simp only [setVal, State.val, Array.getElem?_modify]
  rw [if_neg (fun e => h e.symm)]

theorem setVal_val_eq (s : State K V) (w : Nat) (v : V) (h : w < s.next) :
    (setVal s w v).val w = v := by
  simp only [setVal, State.val, Array.getElem?_modify, if_true]
  have : s.store[w]? = some s.store[w] := Array.getElem?_eq_getElem h
  rw [this]; rfl

/-! ### what `skip` returns -/

theorem finger0 (s : State K V) (p : Nat) : finger s 0 p = (after p s.level0).head? := rfl

theorem TInv.nodup {cmp : K → K → Ordering} [TransCmp cmp] {levels : Nat} {s : State K V}
    (hi : TInv cmp levels s) : s.level0.Nodup := nodup_of_sorted cmp s.key _ hi.sorted

theorem TInv.nz {cmp : K → K → Ordering} {levels : Nat} {s : State K V}
    (hi : TInv cmp levels s) : 0 ∉ s.level0 := fun h => by have := (hi.alloc.2 0 h).1; omega

theorem skip_eq (cmp : K → K → Ordering) [TransCmp cmp] (levels : Nat) (s : State K V) (k : K)
    (hi : TInv cmp levels s) (lo0 hi0 : List Nat) (e : s.level0 = lo0 ++ hi0)
    (hlo : ∀ x ∈ lo0, cmp (s.key x) k = .lt) (hhi : ∀ x ∈ hi0, cmp (s.key x) k ≠ .lt) :
    skip cmp s k = (hi0.head?, preds lo0 s.height 0 levels) := by
  have nd : (lo0 ++ hi0).Nodup := e ▸ hi.nodup
  have nz : 0 ∉ lo0 ++ hi0 := e ▸ hi.nz
  have hc : s.chains = tower (lo0 ++ hi0) s.height 0 levels := by rw [← e]; exact hi.chains_eq
  obtain ⟨n, hn⟩ : ∃ n, levels = n + 1 := ⟨levels - 1, by have := hi.levels_pos; omega⟩
  have hf : lo0.filter (fun i => 0 < s.height i) = lo0 := by
    apply List.filter_eq_self.mpr
    intro a ha
    have := (hi.heights a (by rw [e]; simp [ha])).1
    simp; omega
  have hr : skipFrom cmp s k s.chains = (lastD lo0 0, preds lo0 s.height 0 levels) := by
    rw [hc, hn, skipFrom_tower cmp s k lo0 hi0 s.height nd nz hlo hhi 0 (n + 1)]
    simp only [hf]
  have ndlo : lo0.Nodup := (List.nodup_append.mp nd).1
  have nzlo : 0 ∉ lo0 := fun h => nz (by simp [h])
  unfold skip
  simp only [hr, finger0, e, after_pred lo0 hi0 ndlo nzlo]

/-- the level-0 chain split at `k`, and what `skip` returns -/
theorem view (cmp : K → K → Ordering) [TransCmp cmp] (levels : Nat) (s : State K V) (k : K)
    (hi : TInv cmp levels s) :
    ∃ lo0 hi0, s.level0 = lo0 ++ hi0 ∧ (∀ x ∈ lo0, cmp (s.key x) k = .lt) ∧
      ((∀ y ∈ hi0, cmp (s.key y) k = .gt) ∨
       ∃ w rest, hi0 = w :: rest ∧ cmp (s.key w) k = .eq ∧ ∀ y ∈ rest, cmp (s.key y) k = .gt) ∧
      skip cmp s k = (hi0.head?, preds lo0 s.height 0 levels) := by
  obtain ⟨lo0, hi0, e, hlo, hcase⟩ := exists_cut cmp s.key k s.level0 hi.sorted
  refine ⟨lo0, hi0, e, hlo, hcase, skip_eq cmp levels s k hi lo0 hi0 e hlo ?_⟩
  intro x hx
  rcases hcase with h | ⟨w, rest, rfl, hw, hr⟩
  · rw [h x hx]; decide
  · rcases List.mem_cons.mp hx with h | h
    · subst h; rw [hw]; decide
    · rw [hr x h]; decide


/-! ### the represented map -/

def lookupIn (cmp : K → K → Ordering) (key : Nat → K) (val : Nat → V) (c : List Nat) (k : K) : Option V :=
  (c.find? (fun i => cmp (key i) k = .eq)).map val

/-- the finite map a state represents: the value of the live node whose key compares `EQ` -/
def lookup (cmp : K → K → Ordering) (s : State K V) (k : K) : Option V :=
  lookupIn cmp s.key s.val s.level0 k

theorem lookupIn_cons (cmp : K → K → Ordering) (key : Nat → K) (val : Nat → V) (w : Nat) (r : List Nat) (k : K) :
    lookupIn cmp key val (w :: r) k = if cmp (key w) k = .eq then some (val w) else lookupIn cmp key val r k := by
  simp only [lookupIn, List.find?_cons]
  by_cases h : cmp (key w) k = .eq
  · simp [h]
  · simp [h]

theorem lookupIn_skip (cmp : K → K → Ordering) (key : Nat → K) (val : Nat → V) (lo r : List Nat) (k : K)
    (h : ∀ x ∈ lo, cmp (key x) k ≠ .eq) :
    lookupIn cmp key val (lo ++ r) k = lookupIn cmp key val r k := by
  induction lo with
  | nil => rfl
  | cons x xs ih =>
    rw [List.cons_append, lookupIn_cons, if_neg (h x (by simp))]
    exact ih (fun y hy => h y (by simp [hy]))

theorem lookupIn_none (cmp : K → K → Ordering) (key : Nat → K) (val : Nat → V) (c : List Nat) (k : K)
    (h : ∀ x ∈ c, cmp (key x) k ≠ .eq) : lookupIn cmp key val c k = none := by
  have := lookupIn_skip cmp key val c [] k h
  rw [List.append_nil] at this
  rw [this]; rfl

theorem lookupIn_drop (cmp : K → K → Ordering) (key : Nat → K) (val : Nat → V) (lo r : List Nat) (n : Nat) (k : K)
    (h : cmp (key n) k ≠ .eq) :
    lookupIn cmp key val (lo ++ n :: r) k = lookupIn cmp key val (lo ++ r) k := by
  induction lo with
  | nil => simp only [List.nil_append, lookupIn_cons, if_neg h]
  | cons x xs ih => simp only [List.cons_append, lookupIn_cons, ih]

theorem lookupIn_congr (cmp : K → K → Ordering) (key key' : Nat → K) (val val' : Nat → V) (c : List Nat) (k : K)
    (h : ∀ i ∈ c, key' i = key i ∧ val' i = val i) :
    lookupIn cmp key' val' c k = lookupIn cmp key val c k := by
  induction c with
  | nil => rfl
  | cons x xs ih =>
    rw [lookupIn_cons, lookupIn_cons, (h x (by simp)).1, (h x (by simp)).2,
      ih (fun i hi => h i (by simp [hi]))]

/-! ### New -/

theorem tower_nil (ht : Nat → Nat) (l n : Nat) : tower [] ht l n = List.replicate n [] := by
  induction n generalizing l with
  | zero => rfl
  | succ n ih => simp [tower, ih, List.replicate_succ]

theorem init_level0 (levels : Nat) : (init (K := K) (V := V) levels).level0 = [] := by
  cases levels <;> simp [init, State.level0, List.replicate_succ]

theorem tinv_init (cmp : K → K → Ordering) (levels : Nat) (h : 0 < levels) :
    TInv cmp levels (init (K := K) (V := V) levels) := by
  refine ⟨h, ?_, ?_, ?_, ?_⟩
  · rw [init_level0, tower_nil]; rfl
  · rw [init_level0]; exact List.Pairwise.nil
  · rw [init_level0]; simp
  · rw [init_level0]; simp [init, State.next]

theorem lookup_init (cmp : K → K → Ordering) (levels : Nat) (k : K) :
    lookup cmp (init (K := K) (V := V) levels) k = none := by
  simp [lookup, init_level0, lookupIn]

/-! ### Get -/

theorem get_eq (cmp : K → K → Ordering) [TransCmp cmp] (levels : Nat) (s : State K V) (k : K)
    (hi : TInv cmp levels s) : Golem.Model.Skiplist.get cmp s k = (lookup cmp s k).getD default := by
  obtain ⟨lo0, hi0, e, hlo, hcase, hskip⟩ := view cmp levels s k hi
  have hs : search cmp s k = hi0.head? := by
    have : search cmp s k = (skip cmp s k).1 := by
      simp only [search, skip, searchFrom_eq]
    rw [this, hskip]
  have hlone : ∀ x ∈ lo0, cmp (s.key x) k ≠ .eq := fun x hx => by rw [hlo x hx]; decide
  unfold Golem.Model.Skiplist.get lookup
  rw [hs, e, lookupIn_skip cmp s.key s.val lo0 hi0 k hlone]
  rcases hcase with h | ⟨w, rest, rfl, hw, hr⟩
  · rw [lookupIn_none cmp s.key s.val hi0 k (fun x hx => by rw [h x hx]; decide)]
    cases hi0 with
    | nil => rfl
    | cons y ys =>
      have : cmp (s.key y) k ≠ .eq := by rw [h y (by simp)]; decide
      simp [this]
  · simp [lookupIn_cons, hw]

/-! ### Put -/

/-- the three possible shapes of the level-0 chain around `k` -/
theorem put_cases (cmp : K → K → Ordering) [TransCmp cmp] (levels : Nat) (s : State K V) (k : K) (v : V) (h : Nat)
    (hi : TInv cmp levels s) :
    (∃ lo0 hi0, s.level0 = lo0 ++ hi0 ∧ (∀ x ∈ lo0, cmp (s.key x) k = .lt) ∧
        (∀ y ∈ hi0, cmp (s.key y) k = .gt) ∧
        put cmp s k v h = pushed s k v h (splice s.next h 0 (preds lo0 s.height 0 levels) s.chains)) ∨
    (∃ lo0 w rest, s.level0 = lo0 ++ w :: rest ∧ (∀ x ∈ lo0, cmp (s.key x) k = .lt) ∧
        cmp (s.key w) k = .eq ∧ (∀ y ∈ rest, cmp (s.key y) k = .gt) ∧
        put cmp s k v h = setVal s w v) := by
  obtain ⟨lo0, hi0, e, hlo, hcase, hskip⟩ := view cmp levels s k hi
  rcases hcase with hgt | ⟨w, rest, rfl, hw, hr⟩
  · left
    refine ⟨lo0, hi0, e, hlo, hgt, ?_⟩
    unfold put
    simp only [hskip]
    cases hi0 with
    | nil => rfl
    | cons y ys =>
      have : cmp (s.key y) k ≠ .eq := by rw [hgt y (by simp)]; decide
      simp only [List.head?_cons, if_neg this]
      rfl
  · right
    refine ⟨lo0, w, rest, e, hlo, hw, hr, ?_⟩
    unfold put
    simp only [hskip, List.head?_cons, hw, if_true]

theorem level0_of_tower (s : State K V) (c : List Nat) (levels : Nat) (hl : 0 < levels)
    (hc : s.chains = tower c s.height 0 levels) (hh : ∀ i ∈ c, 1 ≤ s.height i) : s.level0 = c := by
  obtain ⟨n, rfl⟩ : ∃ n, levels = n + 1 := ⟨levels - 1, by omega⟩
  unfold State.level0
  rw [hc]
  simp only [tower, List.getD_cons_zero]
  apply List.filter_eq_self.mpr
  intro a ha
  have := hh a ha
  simp; omega

theorem put_fresh_facts (cmp : K → K → Ordering) [TransCmp cmp] (levels : Nat) (s : State K V) (k : K) (v : V) (h : Nat)
    (hi : TInv cmp levels s) (hh : 1 ≤ h ∧ h ≤ levels) (lo0 hi0 : List Nat) (e : s.level0 = lo0 ++ hi0)
    (hlo : ∀ x ∈ lo0, cmp (s.key x) k = .lt) (hgt : ∀ y ∈ hi0, cmp (s.key y) k = .gt) :
    let s' := pushed s k v h (splice s.next h 0 (preds lo0 s.height 0 levels) s.chains)
    s'.level0 = lo0 ++ s.next :: hi0 ∧ TInv cmp levels s' := by
  intro s'
  have nd : (lo0 ++ hi0).Nodup := e ▸ hi.nodup
  have nz : 0 ∉ lo0 ++ hi0 := e ▸ hi.nz
  have hfresh : ∀ i ∈ lo0 ++ hi0, i ≠ s.next := fun i hm => by
    have := (hi.alloc.2 i (e ▸ hm)).2; omega
  have hkey : ∀ i ∈ lo0 ++ hi0, s'.key i = s.key i := fun i hm => by
    show (pushed _ _ _ _ _).key i = _
    rw [pushed_key, if_neg (hfresh i hm)]
  have hht : ∀ i ∈ lo0 ++ hi0, s'.height i = s.height i := fun i hm => by
    show (pushed _ _ _ _ _).height i = _
    rw [pushed_height, if_neg (hfresh i hm)]
  have hkn : s'.key s.next = k := by
    show (pushed _ _ _ _ _).key _ = _
    rw [pushed_key, if_pos rfl]
  have hhn : s'.height s.next = h := by
    show (pushed _ _ _ _ _).height _ = _
    rw [pushed_height, if_pos rfl]
  have hc : s'.chains = tower (lo0 ++ s.next :: hi0) s'.height 0 levels := by
    show splice s.next h 0 (preds lo0 s.height 0 levels) s.chains = _
    rw [hi.chains_eq, e]
    exact splice_tower s.next h lo0 hi0 s.height s'.height nd nz hhn hht 0 levels
  have hall : ∀ i ∈ lo0 ++ s.next :: hi0, 1 ≤ s'.height i ∧ s'.height i ≤ levels := by
    intro i hm
    rcases List.mem_append.mp hm with hm | hm
    · rw [hht i (by simp [hm])]; exact hi.heights i (by rw [e]; simp [hm])
    · rcases List.mem_cons.mp hm with hm | hm
      · subst hm; rw [hhn]; exact hh
      · rw [hht i (by simp [hm])]; exact hi.heights i (by rw [e]; simp [hm])
  have hl0 : s'.level0 = lo0 ++ s.next :: hi0 :=
    level0_of_tower s' _ levels hi.levels_pos hc (fun i hm => (hall i hm).1)
  refine ⟨hl0, hi.levels_pos, by rw [hl0]; exact hc, ?_, by rw [hl0]; exact hall, ?_⟩
  · rw [hl0]
    have hs := hi.sorted
    rw [e] at hs
    obtain ⟨hslo, hshi, hcross⟩ := List.pairwise_append.mp hs
    refine List.pairwise_append.mpr ⟨?_, ?_, ?_⟩
    · refine hslo.imp_of_mem ?_
      intro a b ha hb hab
      rw [hkey a (by simp [ha]), hkey b (by simp [hb])]; exact hab
    · refine List.pairwise_cons.mpr ⟨?_, ?_⟩
      · intro y hy
        rw [hkn, hkey y (by simp [hy])]
        exact OrientedCmp.lt_of_gt (hgt y hy)
      · refine hshi.imp_of_mem ?_
        intro a b ha hb hab
        rw [hkey a (by simp [ha]), hkey b (by simp [hb])]; exact hab
    · intro a ha b hb
      rcases List.mem_cons.mp hb with hb | hb
      · subst hb; rw [hkn, hkey a (by simp [ha])]; exact hlo a ha
      · rw [hkey a (by simp [ha]), hkey b (by simp [hb])]; exact hcross a ha b hb
  · have hn : s'.next = s.next + 1 := pushed_next _ _ _ _ _
    refine ⟨by rw [hn]; omega, ?_⟩
    intro i hm
    rw [hl0] at hm
    rw [hn]
    rcases List.mem_append.mp hm with hm | hm
    · have := hi.alloc.2 i (by rw [e]; simp [hm]); omega
    · rcases List.mem_cons.mp hm with hm | hm
      · subst hm; have := hi.alloc.1; omega
      · have := hi.alloc.2 i (by rw [e]; simp [hm]); omega

theorem tinv_setVal (cmp : K → K → Ordering) (levels : Nat) (s : State K V) (w : Nat) (v : V)
    (hi : TInv cmp levels s) : TInv cmp levels (setVal s w v) := by
  have hl : (setVal s w v).level0 = s.level0 := rfl
  have hc : (setVal s w v).chains = s.chains := rfl
  refine ⟨hi.levels_pos, ?_, ?_, ?_, ?_⟩
  · rw [hl, hc, setVal_height]; exact hi.chains_eq
  · rw [hl, setVal_key]; exact hi.sorted
  · rw [hl, setVal_height]; exact hi.heights
  · rw [hl, setVal_next]; exact hi.alloc

theorem tinv_put (cmp : K → K → Ordering) [TransCmp cmp] (levels : Nat) (s : State K V) (k : K) (v : V) (h : Nat)
    (hi : TInv cmp levels s) (hh : 1 ≤ h ∧ h ≤ levels) : TInv cmp levels (put cmp s k v h) := by
  rcases put_cases cmp levels s k v h hi with ⟨lo0, hi0, e, hlo, hgt, hp⟩ | ⟨lo0, w, rest, e, hlo, hw, hr, hp⟩
  · rw [hp]; exact (put_fresh_facts cmp levels s k v h hi hh lo0 hi0 e hlo hgt).2
  · rw [hp]; exact tinv_setVal cmp levels s w v hi

theorem lookup_put (cmp : K → K → Ordering) [TransCmp cmp] (levels : Nat) (s : State K V) (k : K) (v : V) (h : Nat)
    (hi : TInv cmp levels s) (hh : 1 ≤ h ∧ h ≤ levels) (k' : K) :
    lookup cmp (put cmp s k v h) k' = Spec.put cmp (lookup cmp s) k v k' := by
  have hltne : ∀ (lo0 : List Nat), (∀ x ∈ lo0, cmp (s.key x) k = .lt) → cmp k' k = .eq →
      ∀ x ∈ lo0, cmp (s.key x) k' ≠ .eq := by
    intro lo0 hlo hk x hx
    rw [TransCmp.congr_right (cmp := cmp) (a := s.key x) hk, hlo x hx]; decide
  rcases put_cases cmp levels s k v h hi with ⟨lo0, hi0, e, hlo, hgt, hp⟩ | ⟨lo0, w, rest, e, hlo, hw, hr, hp⟩
  · obtain ⟨hl0, _⟩ := put_fresh_facts cmp levels s k v h hi hh lo0 hi0 e hlo hgt
    rw [hp]
    generalize hs' : pushed s k v h (splice s.next h 0 (preds lo0 s.height 0 levels) s.chains) = s' at hl0
    have hfresh : ∀ i ∈ lo0 ++ hi0, i ≠ s.next := fun i hm => by
      have := (hi.alloc.2 i (e ▸ hm)).2; omega
    have hkv : ∀ i ∈ lo0 ++ hi0, s'.key i = s.key i ∧ s'.val i = s.val i := fun i hm => by
      subst hs'
      rw [pushed_key, pushed_val, if_neg (hfresh i hm), if_neg (hfresh i hm)]; exact ⟨rfl, rfl⟩
    have hkn : s'.key s.next = k := by subst hs'; rw [pushed_key, if_pos rfl]
    have hvn : s'.val s.next = v := by subst hs'; rw [pushed_val, if_pos rfl]
    unfold lookup Spec.put
    rw [hl0]
    by_cases hk : cmp k' k = .eq
    · rw [if_pos hk]
      have hlo' : ∀ x ∈ lo0, cmp (s'.key x) k' ≠ .eq := fun x hx => by
        rw [(hkv x (by simp [hx])).1]; exact hltne lo0 hlo hk x hx
      rw [lookupIn_skip cmp s'.key s'.val lo0 _ k' hlo', lookupIn_cons, hkn,
        if_pos (OrientedCmp.eq_symm hk), hvn]
    · rw [if_neg hk]
      have hnk : cmp (s'.key s.next) k' ≠ .eq := by
        rw [hkn]; intro h'; exact hk (OrientedCmp.eq_symm h')
      rw [lookupIn_drop cmp s'.key s'.val lo0 hi0 s.next k' hnk,
        lookupIn_congr cmp s.key s'.key s.val s'.val (lo0 ++ hi0) k' hkv, e]
  · rw [hp]
    have hnd : (lo0 ++ w :: rest).Nodup := e ▸ hi.nodup
    have hwlt : w < s.next := (hi.alloc.2 w (by rw [e]; simp)).2
    have hwn : ∀ i ∈ lo0 ++ rest, i ≠ w := by
      intro i hm hiw
      subst hiw
      have h1 := List.nodup_append.mp hnd
      rcases List.mem_append.mp hm with hm | hm
      · exact h1.2.2 i hm i (by simp) rfl
      · exact (List.nodup_cons.mp h1.2.1).1 hm
    unfold lookup Spec.put
    show lookupIn cmp (setVal s w v).key (setVal s w v).val s.level0 k' = _
    rw [setVal_key, e]
    by_cases hk : cmp k' k = .eq
    · rw [if_pos hk, lookupIn_skip cmp s.key _ lo0 _ k' (hltne lo0 hlo hk), lookupIn_cons]
      have : cmp (s.key w) k' = .eq := TransCmp.eq_trans hw (OrientedCmp.eq_symm hk)
      rw [if_pos this, setVal_val_eq s w v hwlt]
    · rw [if_neg hk]
      have hnk : cmp (s.key w) k' ≠ .eq := by
        intro h'
        exact hk (TransCmp.eq_trans (OrientedCmp.eq_symm h') hw)
      show _ = lookupIn cmp s.key s.val (lo0 ++ w :: rest) k'
      rw [lookupIn_drop cmp s.key _ lo0 rest w k' hnk, lookupIn_drop cmp s.key s.val lo0 rest w k' hnk]
      apply lookupIn_congr
      intro i hm
      exact ⟨rfl, setVal_val_ne s w v i (hwn i hm)⟩

/-! ### Remove -/

theorem remove_cases (cmp : K → K → Ordering) [TransCmp cmp] (levels : Nat) (s : State K V) (k : K)
    (hi : TInv cmp levels s) :
    ((∀ x ∈ s.level0, cmp (s.key x) k ≠ .eq) ∧ remove cmp s k = (s, default)) ∨
    (∃ lo0 w rest, s.level0 = lo0 ++ w :: rest ∧ (∀ x ∈ lo0, cmp (s.key x) k = .lt) ∧
        cmp (s.key w) k = .eq ∧ (∀ y ∈ rest, cmp (s.key y) k = .gt) ∧
        remove cmp s k = ({ s with chains := tower (lo0 ++ rest) s.height 0 levels }, s.val w)) := by
  obtain ⟨lo0, hi0, e, hlo, hcase, hskip⟩ := view cmp levels s k hi
  rcases hcase with hgt | ⟨w, rest, rfl, hw, hr⟩
  · left
    refine ⟨?_, ?_⟩
    · intro x hx
      rw [e] at hx
      rcases List.mem_append.mp hx with hx | hx
      · rw [hlo x hx]; decide
      · rw [hgt x hx]; decide
    · unfold remove
      simp only [hskip]
      cases hi0 with
      | nil => rfl
      | cons y ys =>
        have : cmp (s.key y) k ≠ .eq := by rw [hgt y (by simp)]; decide
        simp only [List.head?_cons, if_neg this]
  · right
    refine ⟨lo0, w, rest, e, hlo, hw, hr, ?_⟩
    have nd : (lo0 ++ w :: rest).Nodup := e ▸ hi.nodup
    have nz : 0 ∉ lo0 ++ w :: rest := e ▸ hi.nz
    unfold remove
    simp only [hskip, List.head?_cons, hw, if_true]
    have : unlink w (s.height w) 0 (preds lo0 s.height 0 levels) s.chains
        = tower (lo0 ++ rest) s.height 0 levels := by
      rw [hi.chains_eq, e]
      exact unlink_tower w lo0 rest s.height nd nz 0 levels
    rw [this]

theorem tinv_remove (cmp : K → K → Ordering) [TransCmp cmp] (levels : Nat) (s : State K V) (k : K)
    (hi : TInv cmp levels s) : TInv cmp levels (remove cmp s k).1 := by
  rcases remove_cases cmp levels s k hi with ⟨_, hp⟩ | ⟨lo0, w, rest, e, hlo, hw, hr, hp⟩
  · rw [hp]; exact hi
  · rw [hp]
    generalize hs' : ({ s with chains := tower (lo0 ++ rest) s.height 0 levels } : State K V) = s'
    have hk : s'.key = s.key := by subst hs'; rfl
    have hh : s'.height = s.height := by subst hs'; rfl
    have hn : s'.next = s.next := by subst hs'; rfl
    have hc : s'.chains = tower (lo0 ++ rest) s'.height 0 levels := by subst hs'; rfl
    have hsub : ∀ i ∈ lo0 ++ rest, i ∈ s.level0 := by
      intro i hm; rw [e]
      rcases List.mem_append.mp hm with hm | hm <;> simp [hm]
    have hl0 : s'.level0 = lo0 ++ rest :=
      level0_of_tower s' _ levels hi.levels_pos hc
        (fun i hm => by rw [hh]; exact (hi.heights i (hsub i hm)).1)
    refine ⟨hi.levels_pos, by rw [hl0]; exact hc, ?_, ?_, ?_⟩
    · rw [hl0, hk]
      have hs := hi.sorted
      rw [e] at hs
      refine hs.sublist ?_
      exact List.Sublist.append (List.Sublist.refl _) (List.sublist_cons_self _ _)
    · rw [hl0, hh]; exact fun i hm => hi.heights i (hsub i hm)
    · rw [hl0, hn]; exact ⟨hi.alloc.1, fun i hm => hi.alloc.2 i (hsub i hm)⟩

theorem remove_ret (cmp : K → K → Ordering) [TransCmp cmp] (levels : Nat) (s : State K V) (k : K)
    (hi : TInv cmp levels s) : (remove cmp s k).2 = (lookup cmp s k).getD default := by
  rcases remove_cases cmp levels s k hi with ⟨hne, hp⟩ | ⟨lo0, w, rest, e, hlo, hw, hr, hp⟩
  · rw [hp]
    unfold lookup
    rw [lookupIn_none cmp s.key s.val _ k hne]; rfl
  · rw [hp]
    unfold lookup
    rw [e, lookupIn_skip cmp s.key s.val lo0 _ k (fun x hx => by rw [hlo x hx]; decide),
      lookupIn_cons, if_pos hw]; rfl

theorem lookup_remove (cmp : K → K → Ordering) [TransCmp cmp] (levels : Nat) (s : State K V) (k : K)
    (hi : TInv cmp levels s) (k' : K) :
    lookup cmp (remove cmp s k).1 k' = Spec.remove cmp (lookup cmp s) k k' := by
  rcases remove_cases cmp levels s k hi with ⟨hne, hp⟩ | ⟨lo0, w, rest, e, hlo, hw, hr, hp⟩
  · rw [hp]
    unfold Spec.remove
    by_cases hk : cmp k' k = .eq
    · rw [if_pos hk]
      unfold lookup
      apply lookupIn_none
      intro x hx h'
      exact hne x hx (TransCmp.eq_trans h' hk)
    · rw [if_neg hk]
  · have hti := tinv_remove cmp levels s k hi
    rw [hp] at hti ⊢
    generalize hs' : ({ s with chains := tower (lo0 ++ rest) s.height 0 levels } : State K V) = s' at hti
    have hkk : s'.key = s.key := by subst hs'; rfl
    have hv : s'.val = s.val := by subst hs'; rfl
    have hh : s'.height = s.height := by subst hs'; rfl
    have hc : s'.chains = tower (lo0 ++ rest) s'.height 0 levels := by subst hs'; rfl
    have hl0 : s'.level0 = lo0 ++ rest :=
      level0_of_tower s' _ levels hi.levels_pos hc
        (fun i hm => by
          rw [hh]; refine (hi.heights i ?_).1; rw [e]
          rcases List.mem_append.mp hm with hm | hm <;> simp [hm])
    unfold lookup Spec.remove
    rw [hl0, hkk, hv, e]
    by_cases hk : cmp k' k = .eq
    · rw [if_pos hk]
      apply lookupIn_none
      intro x hx
      rw [TransCmp.congr_right (cmp := cmp) (a := s.key x) hk]
      rcases List.mem_append.mp hx with hx | hx
      · rw [hlo x hx]; decide
      · rw [hr x hx]; decide
    · rw [if_neg hk]
      have hnk : cmp (s.key w) k' ≠ .eq := by
        intro h'
        exact hk (TransCmp.eq_trans (OrientedCmp.eq_symm h') hw)
      show _ = lookupIn cmp s.key s.val (lo0 ++ w :: rest) k'
      rw [lookupIn_drop cmp s.key s.val lo0 rest w k' hnk]


/-! ### `Inv` (sorted chains, sub-chains, membership iff height) is the tower form -/

theorem sublist_eq_filter (p : Nat → Bool) (a c : List Nat) (hs : a.Sublist c) (nd : c.Nodup)
    (hm : ∀ i, i ∈ a ↔ (i ∈ c ∧ p i = true)) : a = c.filter p := by
  induction hs with
  | slnil => rfl
  | @cons a c x hs ih =>
    have hx : x ∉ c := (List.nodup_cons.mp nd).1
    have hxa : x ∉ a := fun h => hx (hs.subset h)
    have hpx : ¬ p x = true := fun h => hxa ((hm x).mpr ⟨by simp, h⟩)
    rw [List.filter_cons, if_neg hpx]
    apply ih (List.nodup_cons.mp nd).2
    intro i
    constructor
    · intro h; exact ⟨hs.subset h, ((hm i).mp h).2⟩
    · intro h; exact (hm i).mpr ⟨by simp [h.1], h.2⟩
  | @cons_cons a c x hs ih =>
    have hx : x ∉ c := (List.nodup_cons.mp nd).1
    have hpx : p x = true := ((hm x).mp (by simp)).2
    rw [List.filter_cons, if_pos hpx]
    congr 1
    apply ih (List.nodup_cons.mp nd).2
    intro i
    constructor
    · intro h; exact ⟨hs.subset h, ((hm i).mp (by simp [h])).2⟩
    · intro h
      have := (hm i).mpr ⟨by simp [h.1], h.2⟩
      rcases List.mem_cons.mp this with e | e
      · subst e; exact absurd h.1 hx
      · exact e

theorem ext_getD (l1 l2 : List (List Nat)) (hl : l1.length = l2.length)
    (h : ∀ j, j < l1.length → l1.getD j [] = l2.getD j []) : l1 = l2 := by
  induction l1 generalizing l2 with
  | nil => cases l2 with
    | nil => rfl
    | cons y ys => simp at hl
  | cons x xs ih =>
    cases l2 with
    | nil => simp at hl
    | cons y ys =>
      have h0 := h 0 (by simp)
      simp only [List.getD_cons_zero] at h0
      rw [h0, ih ys (by simpa using hl) (fun j hj => by
        have := h (j + 1) (by simp; omega)
        simpa using this)]

theorem tinv_of_inv (cmp : K → K → Ordering) [TransCmp cmp] (levels : Nat) (s : State K V)
    (hi : Inv cmp levels s) : TInv cmp levels s := by
  have hsort0 : s.level0.Pairwise (fun a b => cmp (s.key a) (s.key b) = .lt) := hi.sorted 0 hi.levels_pos
  have nd : s.level0.Nodup := nodup_of_sorted cmp s.key _ hsort0
  have hsub : ∀ l, l < levels → (s.chains.getD l []).Sublist s.level0 := by
    intro l
    induction l with
    | zero => intro _; exact List.Sublist.refl _
    | succ l ih => intro hl; exact (hi.sublist l hl).trans (ih (by omega))
  refine ⟨hi.levels_pos, ?_, hsort0, hi.heights, hi.alloc⟩
  apply ext_getD
  · rw [hi.levels_eq, tower_length]
  · intro j hj
    rw [hi.levels_eq] at hj
    rw [tower_getD _ _ _ _ _ hj]
    simp only [Nat.zero_add]
    apply sublist_eq_filter _ _ _ (hsub j hj) nd
    intro i
    rw [hi.mem_iff j hj i]
    simp

theorem inv_of_tinv (cmp : K → K → Ordering) (levels : Nat) (s : State K V)
    (hi : TInv cmp levels s) : Inv cmp levels s := by
  have hget : ∀ l, l < levels → s.chains.getD l [] = s.level0.filter (fun i => l < s.height i) := by
    intro l hl
    have := tower_getD s.level0 s.height 0 levels l hl
    rw [← hi.chains_eq] at this
    simpa using this
  refine ⟨hi.levels_pos, ?_, ?_, ?_, ?_, hi.heights, hi.alloc⟩
  · rw [hi.chains_eq, tower_length]
  · intro l hl
    rw [hget l hl]
    exact hi.sorted.sublist List.filter_sublist
  · intro l hl
    rw [hget l (by omega), hget (l + 1) hl]
    have : s.level0.filter (fun i => l + 1 < s.height i)
        = (s.level0.filter (fun i => l < s.height i)).filter (fun i => l + 1 < s.height i) := by
      rw [List.filter_filter]
      apply List.filter_congr
      intro i _
      by_cases h : l + 1 < s.height i
      · have : l < s.height i := by omega
        simp [h, this]
      · simp [h]
    rw [this]
    exact List.filter_sublist
  · intro l hl i
    rw [hget l hl, List.mem_filter]
    simp


/-! ### histories -/

/-- forward simulation of the finite map by the skip list, for a whole history -/
theorem simulation (cmp : K → K → Ordering) [TransCmp cmp] (levels : Nat) (ops : List (Op K V))
    (s : State K V) (m : Spec K V) (hi : TInv cmp levels s) (habs : ∀ k, lookup cmp s k = m k)
    (hok : ∀ o ∈ ops, o.heightOk levels) :
    (run cmp s ops).2 = (Spec.run cmp m ops).2 ∧ TInv cmp levels (run cmp s ops).1 ∧
      ∀ k, lookup cmp (run cmp s ops).1 k = (Spec.run cmp m ops).1 k := by
  induction ops generalizing s m with
  | nil => exact ⟨rfl, hi, habs⟩
  | cons o os ih =>
    have hos : ∀ o ∈ os, o.heightOk levels := fun o' h => hok o' (by simp [h])
    have ho := hok o (by simp)
    cases o with
    | put k v h =>
      have hh : 1 ≤ h ∧ h ≤ levels := ho
      have hi' := tinv_put cmp levels s k v h hi hh
      have habs' : ∀ k', lookup cmp (put cmp s k v h) k' = Spec.put cmp m k v k' := by
        intro k'
        rw [lookup_put cmp levels s k v h hi hh k']
        unfold Spec.put
        rw [habs k']
      obtain ⟨h1, h2, h3⟩ := ih (put cmp s k v h) (Spec.put cmp m k v) hi' habs' hos
      simp only [run, step, Spec.run, Spec.step]
      exact ⟨by rw [h1], h2, h3⟩
    | get k =>
      obtain ⟨h1, h2, h3⟩ := ih s m hi habs hos
      simp only [run, step, Spec.run, Spec.step]
      refine ⟨?_, h2, h3⟩
      rw [h1, get_eq cmp levels s k hi, habs k]; rfl
    | remove k =>
      have hi' := tinv_remove cmp levels s k hi
      have habs' : ∀ k', lookup cmp (remove cmp s k).1 k' = Spec.remove cmp m k k' := by
        intro k'
        rw [lookup_remove cmp levels s k hi k']
        unfold Spec.remove
        rw [habs k']
      obtain ⟨h1, h2, h3⟩ := ih (remove cmp s k).1 (Spec.remove cmp m k) hi' habs' hos
      simp only [run, step, Spec.run, Spec.step]
      refine ⟨?_, h2, h3⟩
      rw [h1, remove_ret cmp levels s k hi, habs k]; rfl

/-- `Spec.run` does not look at the height annotations -/
theorem spec_run_erase (cmp : K → K → Ordering) (m : Spec K V) (ops : List (Op K V)) :
    Spec.run cmp m (ops.map Op.erase) = Spec.run cmp m ops := by
  induction ops generalizing m with
  | nil => rfl
  | cons o os ih =>
    cases o <;> simp only [List.map_cons, Op.erase, Spec.run, Spec.step, ih]

/-! ### the printed form -/

/-- a finger of a live node leads to a live node with a strictly larger key -/
theorem finger_lt (cmp : K → K → Ordering) [TransCmp cmp] (levels : Nat) (s : State K V)
    (hi : Inv cmp levels s) (p : Nat) (hp : p ∈ s.level0) (l : Nat) (hl : l < s.height p) (q : Nat)
    (hq : finger s l p = some q) : q ∈ s.level0 ∧ cmp (s.key p) (s.key q) = .lt := by
  have hlv : l < levels := by have := (hi.heights p hp).2; omega
  have hmem : p ∈ s.chains.getD l [] := (hi.mem_iff l hlv p).mpr ⟨hp, hl⟩
  have hp0 : p ≠ 0 := by have := (hi.alloc.2 p hp).1; omega
  obtain ⟨a, b, hab, hna⟩ := List.eq_append_cons_of_mem hmem
  have hsorted := hi.sorted l hlv
  unfold finger at hq
  rw [hab, after, if_neg hp0, dropAfter_append _ _ _ hna] at hq
  cases b with
  | nil => simp at hq
  | cons y ys =>
    simp only [List.head?_cons, Option.some.injEq] at hq
    subst hq
    rw [hab] at hsorted
    have h2 := (List.pairwise_append.mp hsorted).2.1
    have h3 := (List.pairwise_cons.mp h2).1 y (by simp)
    refine ⟨?_, h3⟩
    have : y ∈ s.chains.getD l [] := by rw [hab]; simp
    exact ((hi.mem_iff l hlv y).mp this).1

theorem lookup_isSome (cmp : K → K → Ordering) (s : State K V) (k : K) :
    (lookup cmp s k).isSome = true ↔ ∃ i ∈ s.level0, cmp (s.key i) k = .eq := by
  unfold lookup lookupIn
  rw [Option.isSome_map, List.find?_isSome]
  simp

end Golem.Lemmas.Skiplist
