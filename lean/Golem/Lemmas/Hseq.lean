/- Helper lemmas connecting `unfold` (Model/Hseq) with `walk`/`flatten` (Lemmas/HseqSpec) and the layout. -/
import Golem.Lemmas.Layout
import Golem.Lemmas.HseqSpec
namespace Golem.Model

/-! ### unfold = accumulator ++ walk -/

mutual
theorem unfoldInto_walk : (t : GoType) → (d : Bool) → (seq : List Entry) → (off : Nat) → (pre : List Nat) → (via : Bool) →
    unfoldInto t d seq off = seq ++ (walkInto t d pre via off seq.length).map (·.entry)
  | .ptr u, true, seq, off, pre, via => by
    simp only [unfoldInto, walkInto]; exact unfoldInto_walk u false seq off pre true
  | .ptr u, false, seq, off, pre, via => by simp [unfoldInto, walkInto]
  | .named _ u, d, seq, off, pre, via => by
    simp only [unfoldInto, walkInto]; exact unfoldInto_walk u d seq off pre via
  | .struct fs, d, seq, off, pre, via => by
    simp only [unfoldInto, walkInto]; exact unfoldFields_walk fs 0 seq off 0 pre via
  | .prim _, d, seq, off, pre, via | .slice _, d, seq, off, pre, via | .map _ _, d, seq, off, pre, via
  | .chan _, d, seq, off, pre, via | .func _, d, seq, off, pre, via | .array _ _, d, seq, off, pre, via => by
    simp [unfoldInto, walkInto]
theorem unfoldFields_walk : (fs : Fields) → (cur : Nat) → (seq : List Entry) → (off i : Nat) → (pre : List Nat) → (via : Bool) →
    unfoldFields fs cur seq off = seq ++ (walkFields fs i pre via cur off seq.length).map (·.entry)
  | .nil, cur, seq, off, i, pre, via => by simp [unfoldFields, walkFields]
  | .cons n e tg t rest, cur, seq, off, i, pre, via => by
    simp only [unfoldFields, walkFields]
    by_cases hc : (e && decide ((derefOnce t).kind = Kind.struct)) = true
    · simp only [hc, if_true]
      rw [unfoldInto_walk t true _ _ (pre ++ [i]) via]
      rw [unfoldFields_walk rest _ _ off (i + 1) pre via]
      simp [Nat.add_assoc, Nat.add_comm]
    · simp only [hc]
      rw [unfoldFields_walk rest _ _ off (i + 1) pre via]
      simp
end

/-! ### walk projects to flatten -/

mutual
theorem walkInto_node : (t : GoType) → (d : Bool) → (pre : List Nat) → (via : Bool) → (off k : Nat) →
    (walkInto t d pre via off k).map Item.node = flattenInto t d pre via
  | .ptr u, true, pre, via, off, k => by
    simp only [walkInto, flattenInto]; exact walkInto_node u false pre true off k
  | .ptr u, false, pre, via, off, k => by simp [walkInto, flattenInto]
  | .named _ u, d, pre, via, off, k => by
    simp only [walkInto, flattenInto]; exact walkInto_node u d pre via off k
  | .struct fs, d, pre, via, off, k => by
    simp only [walkInto, flattenInto]; exact walkFields_node fs 0 pre via 0 off k
  | .prim _, d, pre, via, off, k | .slice _, d, pre, via, off, k | .map _ _, d, pre, via, off, k
  | .chan _, d, pre, via, off, k | .func _, d, pre, via, off, k | .array _ _, d, pre, via, off, k => by
    simp [walkInto, flattenInto]
theorem walkFields_node : (fs : Fields) → (i : Nat) → (pre : List Nat) → (via : Bool) → (cur off k : Nat) →
    (walkFields fs i pre via cur off k).map Item.node = flattenFields fs i pre via
  | .nil, i, pre, via, cur, off, k => by simp [walkFields, flattenFields]
  | .cons n e tg t rest, i, pre, via, cur, off, k => by
    simp only [walkFields, flattenFields, List.map_cons, List.map_append]
    rw [walkFields_node rest (i + 1) pre via]
    by_cases hc : (e && decide ((derefOnce t).kind = Kind.struct)) = true
    · simp only [hc, if_true]
      rw [walkInto_node t true (pre ++ [i]) via]
      simp [Item.node]
    · simp [hc, Item.node]
end

/-! ### IDs are consecutive -/

mutual
theorem walkInto_ids : (t : GoType) → (d : Bool) → (pre : List Nat) → (via : Bool) → (off k : Nat) →
    (walkInto t d pre via off k).map (·.entry.id) = List.range' k (walkInto t d pre via off k).length
  | .ptr u, true, pre, via, off, k => by
    simp only [walkInto]; exact walkInto_ids u false pre true off k
  | .ptr u, false, pre, via, off, k => by simp [walkInto]
  | .named _ u, d, pre, via, off, k => by
    simp only [walkInto]; exact walkInto_ids u d pre via off k
  | .struct fs, d, pre, via, off, k => by
    simp only [walkInto]; exact walkFields_ids fs 0 pre via 0 off k
  | .prim _, d, pre, via, off, k | .slice _, d, pre, via, off, k | .map _ _, d, pre, via, off, k
  | .chan _, d, pre, via, off, k | .func _, d, pre, via, off, k | .array _ _, d, pre, via, off, k => by
    simp [walkInto]
theorem walkFields_ids : (fs : Fields) → (i : Nat) → (pre : List Nat) → (via : Bool) → (cur off k : Nat) →
    (walkFields fs i pre via cur off k).map (·.entry.id) = List.range' k (walkFields fs i pre via cur off k).length
  | .nil, i, pre, via, cur, off, k => by simp [walkFields]
  | .cons n e tg t rest, i, pre, via, cur, off, k => by
    simp only [walkFields, List.map_cons, List.map_append, List.length_cons, List.length_append]
    rw [walkFields_ids rest (i + 1) pre via]
    by_cases hc : (e && decide ((derefOnce t).kind = Kind.struct)) = true
    · simp only [hc, if_true]
      rw [walkInto_ids t true (pre ++ [i]) via]
      rw [List.range'_succ, List.range'_append_1]
    · simp only [hc]
      simp [List.range'_succ]
end

/-! ### PureType is the field type after one optional pointer dereference -/

mutual
theorem walkInto_pure : (t : GoType) → (d : Bool) → (pre : List Nat) → (via : Bool) → (off k : Nat) →
    ∀ it ∈ walkInto t d pre via off k, it.entry.pureType = derefOnce it.entry.field.type
  | .ptr u, true, pre, via, off, k => by
    simp only [walkInto]; exact walkInto_pure u false pre true off k
  | .ptr u, false, pre, via, off, k => by simp [walkInto]
  | .named _ u, d, pre, via, off, k => by
    simp only [walkInto]; exact walkInto_pure u d pre via off k
  | .struct fs, d, pre, via, off, k => by
    simp only [walkInto]; exact walkFields_pure fs 0 pre via 0 off k
  | .prim _, d, pre, via, off, k | .slice _, d, pre, via, off, k | .map _ _, d, pre, via, off, k
  | .chan _, d, pre, via, off, k | .func _, d, pre, via, off, k | .array _ _, d, pre, via, off, k => by
    simp [walkInto]
theorem walkFields_pure : (fs : Fields) → (i : Nat) → (pre : List Nat) → (via : Bool) → (cur off k : Nat) →
    ∀ it ∈ walkFields fs i pre via cur off k, it.entry.pureType = derefOnce it.entry.field.type
  | .nil, i, pre, via, cur, off, k => by simp [walkFields]
  | .cons n e tg t rest, i, pre, via, cur, off, k => by
    intro it hit
    simp only [walkFields, List.mem_cons, List.mem_append] at hit
    rcases hit with rfl | hit | hit
    · rfl
    · by_cases hc : (e && decide ((derefOnce t).kind = Kind.struct)) = true
      · simp only [hc, if_true] at hit
        exact walkInto_pure t true _ _ _ _ it hit
      · simp [hc] at hit
    · exact walkFields_pure rest _ _ _ _ _ _ it hit
end

/-! ### `via` only ever switches on -/

mutual
theorem walkInto_via : (t : GoType) → (d : Bool) → (pre : List Nat) → (via : Bool) → (off k : Nat) →
    ∀ it ∈ walkInto t d pre via off k, via = true → it.via = true
  | .ptr u, true, pre, via, off, k => by
    simp only [walkInto]; intro it hit _; exact walkInto_via u false pre true off k it hit rfl
  | .ptr u, false, pre, via, off, k => by simp [walkInto]
  | .named _ u, d, pre, via, off, k => by
    simp only [walkInto]; exact walkInto_via u d pre via off k
  | .struct fs, d, pre, via, off, k => by
    simp only [walkInto]; exact walkFields_via fs 0 pre via 0 off k
  | .prim _, d, pre, via, off, k | .slice _, d, pre, via, off, k | .map _ _, d, pre, via, off, k
  | .chan _, d, pre, via, off, k | .func _, d, pre, via, off, k | .array _ _, d, pre, via, off, k => by
    simp [walkInto]
theorem walkFields_via : (fs : Fields) → (i : Nat) → (pre : List Nat) → (via : Bool) → (cur off k : Nat) →
    ∀ it ∈ walkFields fs i pre via cur off k, via = true → it.via = true
  | .nil, i, pre, via, cur, off, k => by simp [walkFields]
  | .cons n e tg t rest, i, pre, via, cur, off, k => by
    intro it hit hv
    simp only [walkFields, List.mem_cons, List.mem_append] at hit
    rcases hit with rfl | hit | hit
    · exact hv
    · by_cases hc : (e && decide ((derefOnce t).kind = Kind.struct)) = true
      · simp only [hc, if_true] at hit
        exact walkInto_via t true _ _ _ _ it hit hv
      · simp [hc] at hit
    · exact walkFields_via rest _ _ _ _ _ _ it hit hv
end

/-! ### offsets: RootOffs + Offset is the layout's own offset of the selector path -/

theorem pathLookup_named_cons (n : String) (u : GoType) (j : Nat) (ρ : List Nat) :
    pathLookup (.named n u) (j :: ρ) = pathLookup u (j :: ρ) := by
  rw [pathLookup, pathLookup]; simp [GoType.fields?]

mutual
theorem walkInto_offset : (t : GoType) → (d : Bool) → (pre : List Nat) → (via : Bool) → (off k : Nat) →
    ∀ it ∈ walkInto t d pre via off k, it.via = false →
      ∃ j ρ o, it.path = pre ++ j :: ρ ∧ pathLookup t (j :: ρ) = some (o, it.entry.field.type) ∧
        it.entry.rootOffs + it.entry.offset = off + o
  | .ptr u, true, pre, via, off, k => by
    simp only [walkInto]; intro it hit hv
    have := walkInto_via u false pre true off k it hit rfl
    simp [this] at hv
  | .ptr u, false, pre, via, off, k => by simp [walkInto]
  | .named n u, d, pre, via, off, k => by
    simp only [walkInto]; intro it hit hv
    obtain ⟨j, ρ, o, h1, h2, h3⟩ := walkInto_offset u d pre via off k it hit hv
    exact ⟨j, ρ, o, h1, by rw [pathLookup_named_cons]; exact h2, h3⟩
  | .struct fs, d, pre, via, off, k => by
    simp only [walkInto]; intro it hit hv
    obtain ⟨j, ρ, f, o1, o2, h1, h2, h3, h4, h5⟩ := walkFields_offset fs 0 pre via 0 off k it hit hv
    refine ⟨0 + j, ρ, o1 + o2, h1, ?_, by omega⟩
    exact pathLookup_cons_some.mpr ⟨fs, f, o1, o2, rfl, by simpa using h2, by simpa [Fields.offsets] using h3, h4, rfl⟩
  | .prim _, d, pre, via, off, k | .slice _, d, pre, via, off, k | .map _ _, d, pre, via, off, k
  | .chan _, d, pre, via, off, k | .func _, d, pre, via, off, k | .array _ _, d, pre, via, off, k => by
    simp [walkInto]
theorem walkFields_offset : (fs : Fields) → (i : Nat) → (pre : List Nat) → (via : Bool) → (cur off k : Nat) →
    ∀ it ∈ walkFields fs i pre via cur off k, it.via = false →
      ∃ j ρ f o1 o2, it.path = pre ++ (i + j) :: ρ ∧ fs.toList[j]? = some f ∧ (fs.offsetsFrom cur)[j]? = some o1 ∧
        pathLookup f.type ρ = some (o2, it.entry.field.type) ∧ it.entry.rootOffs + it.entry.offset = off + o1 + o2
  | .nil, i, pre, via, cur, off, k => by simp [walkFields]
  | .cons n e tg t rest, i, pre, via, cur, off, k => by
    intro it hit hv
    simp only [walkFields, List.mem_cons, List.mem_append] at hit
    rcases hit with rfl | hit | hit
    · exact ⟨0, [], ⟨n, e, tg, t⟩, alignUp cur t.align, 0, by simp, by simp [Fields.toList], by simp [Fields.offsetsFrom],
        by simp [pathLookup], by simp⟩
    · by_cases hc : (e && decide ((derefOnce t).kind = Kind.struct)) = true
      · simp only [hc, if_true] at hit
        obtain ⟨j, ρ, o, h1, h2, h3⟩ := walkInto_offset t true _ _ _ _ it hit hv
        exact ⟨0, j :: ρ, ⟨n, e, tg, t⟩, alignUp cur t.align, o, by simp [h1], by simp [Fields.toList],
          by simp [Fields.offsetsFrom], h2, by omega⟩
      · simp [hc] at hit
    · obtain ⟨j, ρ, f, o1, o2, h1, h2, h3, h4, h5⟩ := walkFields_offset rest _ _ _ _ _ _ it hit hv
      exact ⟨j + 1, ρ, f, o1, o2, by rw [h1]; simp; omega, by simpa [Fields.toList] using h2,
        by simpa [Fields.offsetsFrom] using h3, h4, h5⟩
end

end Golem.Model

namespace Golem.Model

/-! ### declarative reading of the `…Into` helpers -/

theorem derefOnce_named (n : String) (u : GoType) :
    (derefOnce (.named n u)).fields? = (derefOnce u).fields? ∧ (GoType.named n u).kind = u.kind := by
  unfold derefOnce
  simp only [GoType.kind, GoType.elem]
  by_cases h : u.kind = Kind.ptr <;> simp [h, GoType.fields?]

theorem flattenInto_spec : (t : GoType) → (d : Bool) → (pre : List Nat) → (via : Bool) →
    flattenInto t d pre via =
      match (if d then derefOnce t else t).fields? with
      | some fs => flattenFields fs 0 pre (via || (d && decide (t.kind = .ptr)))
      | none => []
  | .ptr u, true, pre, via => by
    rw [flattenInto, flattenInto_spec u false pre true]
    simp [derefOnce, GoType.kind, GoType.elem]
  | .ptr u, false, pre, via => by simp [flattenInto, GoType.fields?]
  | .named n u, d, pre, via => by
    rw [flattenInto, flattenInto_spec u d pre via]
    have := derefOnce_named n u
    cases d <;> simp [this.1, this.2, GoType.fields?]
  | .struct fs, d, pre, via => by
    cases d <;> simp [flattenInto, derefOnce, GoType.kind, GoType.fields?]
  | .prim _, d, pre, via | .slice _, d, pre, via | .map _ _, d, pre, via
  | .chan _, d, pre, via | .func _, d, pre, via | .array _ _, d, pre, via => by
    cases d <;> simp [flattenInto, derefOnce, GoType.kind, GoType.fields?]

/-- The recursive call of `unfold` really is `unfold(ft, seq, offset)` with `ft` the field type after
one optional pointer dereference. -/
theorem unfoldInto_eq : (t : GoType) → (d : Bool) → (seq : List Entry) → (off : Nat) →
    unfoldInto t d seq off =
      match (if d then derefOnce t else t).fields? with
      | some fs => unfoldFields fs 0 seq off
      | none => seq
  | .ptr u, true, seq, off => by
    rw [unfoldInto, unfoldInto_eq u false seq off]
    simp [derefOnce, GoType.kind, GoType.elem]
  | .ptr u, false, seq, off => by simp [unfoldInto, GoType.fields?]
  | .named n u, d, seq, off => by
    rw [unfoldInto, unfoldInto_eq u d seq off]
    have := derefOnce_named n u
    cases d <;> simp [this.1, GoType.fields?]
  | .struct fs, d, seq, off => by
    cases d <;> simp [unfoldInto, derefOnce, GoType.kind, GoType.fields?]
  | .prim _, d, seq, off | .slice _, d, seq, off | .map _ _, d, seq, off
  | .chan _, d, seq, off | .func _, d, seq, off | .array _ _, d, seq, off => by
    cases d <;> simp [unfoldInto, derefOnce, GoType.kind, GoType.fields?]

/-! ### first-match scans, mapE, fmapFrom -/

theorem forName_find (seq : List Entry) (name : String) :
    forName seq name = match seq.find? (fun e => e.fieldKey == name) with
      | some e => .ok e | none => .error .errType := by
  induction seq with
  | nil => simp [forName]
  | cons f rest ih =>
    simp only [forName, List.find?_cons]
    by_cases h : (f.fieldKey == name) = true <;> simp [h, ih]

theorem forNameMaybe_find (seq : List Entry) (name : String) :
    forNameMaybe seq name = seq.find? (fun e => e.fieldKey == name) := by
  induction seq with
  | nil => simp [forNameMaybe]
  | cons f rest ih =>
    simp only [forNameMaybe, List.find?_cons]
    by_cases h : (f.fieldKey == name) = true <;> simp [h, ih]

theorem forType_find (seq : List Entry) (A : GoType) :
    forType seq A = match seq.find? (fun e => decide (e.field.type = A)) with
      | some e => .ok e | none => .error .errType := by
  induction seq with
  | nil => simp [forType]
  | cons f rest ih =>
    simp only [forType, List.find?_cons]
    by_cases h : f.field.type = A <;> simp [h, ih]

theorem mapE_ok_iff {α β : Type} (f : α → Except Panic β) (xs : List α) (ys : List β) :
    mapE f xs = .ok ys ↔ Pointwise (fun x y => f x = .ok y) xs ys := by
  induction xs generalizing ys with
  | nil =>
    cases ys with
    | nil => simp [mapE]; exact .nil
    | cons y ys => simp [mapE]; intro h; cases h
  | cons a as ih =>
    simp only [mapE]
    cases hfa : f a with
    | error p => simp; intro h; cases h; simp_all
    | ok b =>
      cases hm : mapE f as with
      | error p =>
        simp; intro h; cases h with
        | cons h1 h2 => have := (ih _).mpr h2; simp [hm] at this
      | ok bs =>
        simp
        constructor
        · rintro rfl; exact .cons hfa ((ih bs).mp hm)
        · intro h; cases h with
          | cons h1 h2 =>
            have := (ih _).mpr h2
            simp_all

/-- `mapE` fails with `p` exactly when some element fails with `p` and every earlier one succeeds. -/
theorem mapE_error_iff {α β : Type} (f : α → Except Panic β) (xs : List α) (p : Panic) :
    mapE f xs = .error p ↔
      ∃ pre x post ys, xs = pre ++ x :: post ∧ mapE f pre = .ok ys ∧ f x = .error p := by
  induction xs with
  | nil => simp [mapE]
  | cons a as ih =>
    simp only [mapE]
    cases hfa : f a with
    | error q =>
      constructor
      · intro h; simp at h; subst h; exact ⟨[], a, as, [], by simp, by simp [mapE], hfa⟩
      · rintro ⟨pre, x, post, ys, h1, h2, h3⟩
        cases pre with
        | nil => simp at h1; obtain ⟨rfl, rfl⟩ := h1; simp_all
        | cons c cs =>
          simp at h1; obtain ⟨rfl, rfl⟩ := h1
          simp [mapE, hfa] at h2
    | ok b =>
      cases hm : mapE f as with
      | error q =>
        constructor
        · intro h; simp at h; subst h
          obtain ⟨pre, x, post, ys, h1, h2, h3⟩ := ih.mp hm
          exact ⟨a :: pre, x, post, b :: ys, by simp [h1], by simp [mapE, hfa, h2], h3⟩
        · rintro ⟨pre, x, post, ys, h1, h2, h3⟩
          cases pre with
          | nil => simp at h1; obtain ⟨rfl, rfl⟩ := h1; simp_all
          | cons c cs =>
            simp at h1; obtain ⟨rfl, rfl⟩ := h1
            have : mapE f (cs ++ x :: post) = .error p := by
              apply ih.mpr
              simp only [mapE, hfa] at h2
              cases hcs : mapE f cs with
              | error r => simp [hcs] at h2
              | ok zs => exact ⟨cs, x, post, zs, rfl, hcs, h3⟩
            simp_all
      | ok bs =>
        constructor
        · intro h; simp at h
        · rintro ⟨pre, x, post, ys, h1, h2, h3⟩
          cases pre with
          | nil => simp at h1; obtain ⟨rfl, rfl⟩ := h1; simp_all
          | cons c cs =>
            simp at h1; obtain ⟨rfl, rfl⟩ := h1
            have : mapE f (cs ++ x :: post) = .error p := by
              apply ih.mpr
              simp only [mapE, hfa] at h2
              cases hcs : mapE f cs with
              | error r => simp [hcs] at h2
              | ok zs => exact ⟨cs, x, post, zs, rfl, hcs, h3⟩
            simp_all

end Golem.Model

namespace Golem.Model

/-- `FMapN` as a left-to-right map over (function, position) pairs. -/
def applyAt {β : Type} (ts : List Entry) (fi : (Entry → Except Panic β) × Nat) : Except Panic β :=
  match index ts fi.2 with
  | .ok x => fi.1 x
  | .error p => .error p

theorem fmapFrom_mapE {β : Type} (ts : List Entry) (fs : List (Entry → Except Panic β)) (k : Nat) :
    fmapFrom ts k fs = mapE (applyAt ts) (fs.zipIdx k) := by
  induction fs generalizing k with
  | nil => simp [fmapFrom, mapE]
  | cons f fs ih =>
    simp only [fmapFrom, List.zipIdx_cons, mapE, applyAt]
    cases hi : index ts k with
    | error p => simp
    | ok x =>
      simp only
      cases hf : f x with
      | error p => simp
      | ok b => simp only; rw [ih (k + 1)]

theorem index_ok_iff {α : Type} (ts : List α) (k : Nat) (x : α) : index ts k = .ok x ↔ ts[k]? = some x := by
  unfold index; cases h : ts[k]? <;> simp

theorem index_error_iff {α : Type} (ts : List α) (k : Nat) (p : Panic) :
    index ts k = .error p ↔ ts.length ≤ k ∧ p = .index := by
  unfold index; cases h : ts[k]? with
  | none => simp at h; simp [h]; exact eq_comm
  | some x =>
    have := (List.getElem?_eq_some_iff.mp h).1
    simp; omega

end Golem.Model

namespace Golem.Model

/-- Core of C03 `unfold_offset` (shared with C01): for an entry reached along value embeddings only,
`RootOffs + Offset` is the layout offset of its selector path, and the field lies inside `S`. -/
theorem unfold_offset_aux (S : GoType) (seq : List Entry) (h : unfold S [] 0 = .ok seq)
    (i : Nat) (e : Entry) (nd : Node) (he : seq[i]? = some e) (hn : (flatten S)[i]? = some nd)
    (hv : nd.via = false) :
    pathLookup S nd.path = some (e.rootOffs + e.offset, e.field.type) ∧
      e.rootOffs + e.offset + e.field.type.size ≤ S.size := by
  unfold unfold at h
  cases hfs : S.fields? with
  | none => simp [hfs] at h
  | some fs =>
    simp [hfs] at h
    subst h
    rw [unfoldFields_walk fs 0 [] 0 0 [] false] at he
    simp only [List.nil_append, List.length_nil, List.getElem?_map] at he
    simp only [flatten, hfs] at hn
    rw [← walkFields_node fs 0 [] false 0 0 0, List.getElem?_map] at hn
    cases hit : (walkFields fs 0 [] false 0 0 0)[i]? with
    | none => simp [hit] at he
    | some it =>
      simp [hit] at he hn
      subst he; subst hn
      have hmem : it ∈ walkFields fs 0 [] false 0 0 0 := List.mem_of_getElem? hit
      obtain ⟨j, ρ, f, o1, o2, h1, h2, h3, h4, h5⟩ := walkFields_offset fs 0 [] false 0 0 0 it hmem hv
      have hp : pathLookup S it.node.path = some (it.entry.rootOffs + it.entry.offset, it.entry.field.type) := by
        have : it.node.path = j :: ρ := by simp [Item.node, h1]
        rw [this]
        exact pathLookup_cons_some.mpr ⟨fs, f, o1, o2, hfs, h2, by simpa [Fields.offsets] using h3, h4, by omega⟩
      exact ⟨hp, pathLookup_bound _ _ _ _ hp⟩

end Golem.Model
