/-
History invariants of the source network: the exact successive sequence (Emit, Unfold), the
fail-fast / try-and-continue split of results and errors, and Emit's pacing on the virtual clock.
All for every capacity, error mode, user function and schedule (`Reachable`, LAX time: timers and
every other statement may be late).  Core Lean only.
-/
import Golem.Lemmas.Sources
namespace Golem.Go.Sources
open Golem.Go Golem.Model

variable {β ε : Type}

/-! ### specification lists -/

theorem okVals_succ_ok {P : Fn β ε} {n : Nat} {v : β} (h : P.emitF n = .ok v) : okVals P (n + 1) = okVals P n ++ [v] := by
  simp [okVals, List.range_succ, List.filterMap_append, h]

theorem okVals_succ_err {P : Fn β ε} {n : Nat} {e : ε} (h : P.emitF n = .error e) : okVals P (n + 1) = okVals P n := by
  simp [okVals, List.range_succ, List.filterMap_append, h]

theorem errVals_succ_ok {P : Fn β ε} {n : Nat} {v : β} (h : P.emitF n = .ok v) : errVals P (n + 1) = errVals P n := by
  simp [errVals, List.range_succ, List.filterMap_append, h]

theorem errVals_succ_err {P : Fn β ε} {n : Nat} {e : ε} (h : P.emitF n = .error e) : errVals P (n + 1) = errVals P n ++ [e] := by
  simp [errVals, List.range_succ, List.filterMap_append, h]

theorem okVals_length_le (P : Fn β ε) (n : Nat) : (okVals P n).length ≤ n := by
  unfold okVals
  exact Nat.le_trans (List.length_filterMap_le _ _) (by simp)

/-! ### Emit: the successive sequence -/

/-- what the control point knows: the loop index is the number of completed iterations; the function
has been called on every index below it, and on the index itself once past `f.Apply(i)` -/
def EmitAt (P : Fn β ε) (iters ncalls : Nat) : Pc β ε → Prop
  | .eLoop i => i = iters ∧ ncalls = i
  | .eSleep i _ => i = iters ∧ ncalls = i
  | .eApply i => i = iters ∧ ncalls = i
  | .eOffer i v => i = iters ∧ P.emitF i = .ok v ∧ ncalls = i + 1
  | .eCatch i e => i = iters ∧ P.emitF i = .error e ∧ ncalls = i + 1
  | .uOffer _ => False
  | .uApply _ => False
  | .uCatch _ _ => False
  | _ => ncalls = iters ∨ ncalls = iters + 1

structure EmitInv (P : Fn β ε) (p : Src β ε) : Prop where
  vals : p.emitted.map (·.1) = okVals P p.iters
  errs : p.errsEmitted.map (·.1) = errVals P p.iters
  calls : p.callsE.map (·.1) = List.range p.callsE.length
  at_ : EmitAt P p.iters p.callsE.length p.pc
  lift : P.mode = .lift → ∀ j, j < p.iters → ∀ e, P.emitF j = .error e →
    j + 1 = p.iters ∧ p.pc.inLoop = false ∧ p.callsE.length = p.iters

theorem emitInv_init (P : Fn β ε) (cap : Nat) : EmitInv P (initEmit P.mode cap) := by
  constructor <;> simp [initEmit, okVals, errVals, EmitAt]

theorem lt_succ_cases {j n : Nat} (h : j < n + 1) : j < n ∨ j = n := by omega

theorem emitInv_trans {P : Fn β ε} {p q : Src β ε} (_hI : Inv P p) (hJ : EmitInv P p) (ht : Trans P p q) : EmitInv P q := by
  obtain ⟨hv, he, hc, ha, hl⟩ := hJ
  cases ht with
  | recvOut | recvExx | nop => exact ⟨hv, he, hc, ha, hl⟩
  | loop i h | wake i w h | closeExx h | closeOut h =>
    simp only [h] at ha; constructor <;> simp_all [EmitAt, Pc.inLoop]
    all_goals (intro hm j hj e hje; exact (hl hm j hj e hje).2)
  | uSend s h | uHand s h | uCallOk s h | uCallErr s e h | uCatchSend s e h | uCatchHand s e h =>
    simp [h, EmitAt] at ha
  | done hcn hsel =>
    cases hpc : p.pc <;> simp_all [EmitAt, isSelect, Pc.inLoop]
    all_goals (constructor <;> simp_all [EmitAt, Pc.inLoop])
  | callOk i v h hf | callErr i v h hf =>
    simp only [h, EmitAt] at ha
    obtain ⟨rfl, hn⟩ := ha
    constructor <;> simp_all [EmitAt, Pc.inLoop, List.range_succ]
  | eSend i v h | eHand i v h =>
    simp only [h, EmitAt] at ha
    obtain ⟨rfl, hf, hn⟩ := ha
    constructor <;> simp_all [EmitAt, Pc.inLoop, okVals_succ_ok hf, errVals_succ_ok hf]
    intro hm j hj e hje
    rcases lt_succ_cases hj with hj | rfl
    · exact hl hm j hj e hje
    · simp [hf] at hje
  | eCatchSend i e h | eCatchHand i e h =>
    simp only [h, EmitAt] at ha
    obtain ⟨rfl, hf, hn⟩ := ha
    cases hm : P.mode
    · constructor <;> simp_all [EmitAt, Pc.inLoop, afterCatch, okVals_succ_err hf, errVals_succ_err hf]
      intro j hj e' hje
      rcases lt_succ_cases hj with hj | rfl
      · exact absurd hje (hl j hj e')
      · rfl
    · constructor <;> simp_all [EmitAt, Pc.inLoop, afterCatch, okVals_succ_err hf, errVals_succ_err hf]

theorem emitInv_frame {P : Fn β ε} {p : Src β ε} (hJ : EmitInv P p) (c : Bool) (t : Nat) :
    EmitInv P { p with cancelled := c, now := t } := ⟨hJ.vals, hJ.errs, hJ.calls, hJ.at_, hJ.lift⟩

theorem emitInv_reachable {P : Fn β ε} {cap : Nat} {p : Src β ε} (hr : Reachable P (initEmit P.mode cap) p) : EmitInv P p :=
  reachable_induct (EmitInv P) (inv_initEmit P cap) (emitInv_init P cap) (fun _ _ hI hJ ht => emitInv_trans hI hJ ht)
    (fun p hJ => emitInv_frame hJ true p.now) (fun p d hJ => emitInv_frame hJ p.cancelled (p.now + d)) hr

/-! ### Unfold: the successive sequence -/

theorem iterates_succ (P : Fn β ε) (seed : β) (n : Nat) : iterates P seed (n + 1) = iterates P seed n ++ [seedAt P seed n] := by
  simp [iterates, List.range_succ]

theorem errsU_succ_none {P : Fn β ε} {seed : β} {n : Nat} (h : (P.unfoldF (seedAt P seed n)).2 = none) :
    errsU P seed (n + 1) = errsU P seed n := by
  simp [errsU, List.range_succ, List.filterMap_append, h]

theorem errsU_succ_some {P : Fn β ε} {seed : β} {n : Nat} {e : ε} (h : (P.unfoldF (seedAt P seed n)).2 = some e) :
    errsU P seed (n + 1) = errsU P seed n ++ [e] := by
  simp [errsU, List.range_succ, List.filterMap_append, h]

/-- what the control point knows; `iters` = applications whose outcome has been dealt with -/
def UnfoldAt (P : Fn β ε) (seed : β) (iters nsent ncalls : Nat) : Pc β ε → Prop
  | .uOffer s => s = seedAt P seed iters ∧ nsent = iters ∧ ncalls = iters
  | .uApply s => s = seedAt P seed iters ∧ nsent = iters + 1 ∧ ncalls = iters
  | .uCatch s e => (P.unfoldF (seedAt P seed iters)).1 = s ∧ (P.unfoldF (seedAt P seed iters)).2 = some e ∧
      nsent = iters + 1 ∧ ncalls = iters + 1
  | .eLoop _ => False
  | .eSleep _ _ => False
  | .eApply _ => False
  | .eOffer _ _ => False
  | .eCatch _ _ => False
  | _ => (nsent = iters ∨ nsent = iters + 1) ∧ (ncalls = iters ∨ ncalls = iters + 1)

structure UnfoldInv (P : Fn β ε) (seed : β) (p : Src β ε) : Prop where
  vals : p.emitted.map (·.1) = iterates P seed p.emitted.length
  errs : p.errsEmitted.map (·.1) = errsU P seed p.iters
  calls : p.callsU.map (·.1) = iterates P seed p.callsU.length
  at_ : UnfoldAt P seed p.iters p.emitted.length p.callsU.length p.pc
  lift : P.mode = .lift → ∀ k, k < p.iters → ∀ e, (P.unfoldF (seedAt P seed k)).2 = some e →
    k + 1 = p.iters ∧ p.pc.inLoop = false ∧ p.callsU.length = p.iters ∧ p.emitted.length = p.iters

theorem unfoldInv_init (P : Fn β ε) (cap : Nat) (seed : β) : UnfoldInv P seed (initUnfold P.mode cap seed) := by
  constructor <;> simp [initUnfold, iterates, errsU, UnfoldAt, seedAt]

theorem unfoldInv_trans {P : Fn β ε} {seed : β} {p q : Src β ε} (hJ : UnfoldInv P seed p) (ht : Trans P p q) :
    UnfoldInv P seed q := by
  obtain ⟨hv, he, hc, ha, hl⟩ := hJ
  cases ht with
  | recvOut | recvExx | nop => exact ⟨hv, he, hc, ha, hl⟩
  | closeExx h | closeOut h =>
    simp only [h] at ha; constructor <;> simp_all [UnfoldAt, Pc.inLoop]
    all_goals (intro hm j hj e hje; exact (hl hm j hj e hje).2)
  | loop i h | wake i w h | callOk i v h | callErr i e h | eSend i v h | eHand i v h | eCatchSend i e h | eCatchHand i e h =>
    simp [h, UnfoldAt] at ha
  | done hcn hsel =>
    cases hpc : p.pc <;> simp_all [UnfoldAt, isSelect, Pc.inLoop]
    all_goals (constructor <;> simp_all [UnfoldAt, Pc.inLoop])
  | uSend s h | uHand s h =>
    simp only [h, UnfoldAt] at ha
    obtain ⟨rfl, hn, hk⟩ := ha
    constructor <;> simp_all [UnfoldAt, Pc.inLoop, iterates_succ]
  | uCallOk s h hf =>
    simp only [h, UnfoldAt] at ha
    obtain ⟨rfl, hn, hk⟩ := ha
    constructor <;> simp_all [UnfoldAt, Pc.inLoop, iterates_succ, errsU_succ_none hf, seedAt, stepU]
    intro hm k hk' e hke
    rcases lt_succ_cases hk' with hk' | rfl
    · exact hl hm k hk' e hke
    · simp [hf] at hke
  | uCallErr s e h hf =>
    simp only [h, UnfoldAt] at ha
    obtain ⟨rfl, hn, hk⟩ := ha
    constructor <;> simp_all [UnfoldAt, Pc.inLoop, iterates_succ]
  | uCatchSend s e h | uCatchHand s e h =>
    simp only [h, UnfoldAt] at ha
    obtain ⟨hs, hf, hn, hk⟩ := ha
    cases hm : P.mode
    · constructor <;> simp_all [UnfoldAt, Pc.inLoop, afterCatch, errsU_succ_some hf]
      intro k hk' e' hke
      rcases lt_succ_cases hk' with hk' | rfl
      · exact absurd hke (hl k hk' e')
      · rfl
    · constructor <;> simp_all [UnfoldAt, Pc.inLoop, afterCatch, errsU_succ_some hf, seedAt, stepU]

theorem unfoldInv_frame {P : Fn β ε} {seed : β} {p : Src β ε} (hJ : UnfoldInv P seed p) (c : Bool) (t : Nat) :
    UnfoldInv P seed { p with cancelled := c, now := t } := ⟨hJ.vals, hJ.errs, hJ.calls, hJ.at_, hJ.lift⟩

theorem unfoldInv_reachable {P : Fn β ε} {cap : Nat} {seed : β} {p : Src β ε}
    (hr : Reachable P (initUnfold P.mode cap seed) p) : UnfoldInv P seed p :=
  reachable_induct (UnfoldInv P seed) (inv_initUnfold P cap seed) (unfoldInv_init P cap seed)
    (fun _ _ _ hJ ht => unfoldInv_trans hJ ht)
    (fun p hJ => unfoldInv_frame hJ true p.now) (fun p d hJ => unfoldInv_frame hJ p.cancelled (p.now + d)) hr

/-! ### Emit: pacing (LAX time — timers, calls and sends may all be late) -/

/-- the `k`-th entry (0-based) carries a time stamp of at least `k+1` ticks -/
def Paced {γ : Type} (freq : Nat) (l : List (γ × Nat)) : Prop :=
  ∀ k (h : k < l.length), (k + 1) * freq ≤ (l[k]).2

theorem paced_append {γ : Type} {freq : Nat} {l : List (γ × Nat)} {x : γ × Nat} (h : Paced freq l)
    (hx : (l.length + 1) * freq ≤ x.2) : Paced freq (l ++ [x]) := by
  intro k hk
  rw [List.getElem_append]
  split
  · exact h k _
  · have : k = l.length := by simp at hk; omega
    subst this; simpa using hx

theorem mul_le_of_le {a b f n : Nat} (h : a ≤ b) (hb : b * f ≤ n) : a * f ≤ n :=
  Nat.le_trans (Nat.mul_le_mul_right f h) hb

/-- `nres` = results handed over so far (values sent + errors sent) -/
def PaceAt (P : Fn β ε) (now nres : Nat) : Pc β ε → Prop
  | .eLoop i => nres ≤ i ∧ i * P.freq ≤ now
  | .eSleep i w => nres ≤ i ∧ (i + 1) * P.freq ≤ w
  | .eApply i => nres ≤ i ∧ (i + 1) * P.freq ≤ now
  | .eOffer i _ => nres ≤ i ∧ (i + 1) * P.freq ≤ now
  | .eCatch i _ => nres ≤ i ∧ (i + 1) * P.freq ≤ now
  | .uOffer _ => False
  | .uApply _ => False
  | .uCatch _ _ => False
  | _ => True

structure PaceInv (P : Fn β ε) (p : Src β ε) : Prop where
  at_ : PaceAt P p.now (p.emitted.length + p.errsEmitted.length) p.pc
  /-- at most one result per tick: `n` results need `n` ticks -/
  avail : (p.emitted.length + p.errsEmitted.length) * P.freq ≤ p.now
  calls : ∀ c ∈ p.callsE, (c.1 + 1) * P.freq ≤ c.2
  sent : Paced P.freq p.emitted
  recvd : Paced P.freq p.delivered

theorem paceInv_init (P : Fn β ε) (cap : Nat) : PaceInv P (initEmit P.mode cap) := by
  constructor <;> simp [initEmit, PaceAt, Paced]

theorem paceInv_trans {P : Fn β ε} {p q : Src β ε} (hI : Inv P p) (hJ : PaceInv P p) (ht : Trans P p q) : PaceInv P q := by
  obtain ⟨ha, hav, hc, hs, hr⟩ := hJ
  cases ht with
  | recvExx | nop => exact ⟨ha, hav, hc, hs, hr⟩
  | uSend s h | uHand s h | uCallOk s h | uCallErr s e h | uCatchSend s e h | uCatchHand s e h =>
    simp [h, PaceAt] at ha
  | closeExx h | closeOut h | done =>
    exact ⟨by simp [PaceAt], hav, hc, hs, hr⟩
  | loop i h =>
    simp only [h, PaceAt] at ha
    refine ⟨?_, hav, hc, hs, hr⟩
    simp only [PaceAt, Nat.add_mul, Nat.one_mul]; omega
  | wake i w h hw =>
    simp only [h, PaceAt] at ha
    refine ⟨?_, hav, hc, hs, hr⟩
    simp only [PaceAt]; omega
  | callOk i v h hf | callErr i v h hf =>
    simp only [h, PaceAt] at ha
    refine ⟨by simpa [PaceAt] using ha, hav, ?_, hs, hr⟩
    intro c hc'
    rcases List.mem_append.1 hc' with hc' | hc'
    · exact hc c hc'
    · simp at hc'; subst hc'; exact ha.2
  | recvOut v rest hb =>
    refine ⟨ha, hav, hc, hs, ?_⟩
    apply paced_append hr
    have hlen := congrArg List.length hI.fifoOut
    simp [hb] at hlen
    exact mul_le_of_le (by omega) hav
  | eSend i v h hcl hlt =>
    simp only [h, PaceAt] at ha
    have h1 : (p.emitted.length + 1 + p.errsEmitted.length) * P.freq ≤ p.now := mul_le_of_le (by omega) ha.2
    refine ⟨?_, by simpa using h1, hc, ?_, hr⟩
    · simp only [PaceAt, List.length_append, List.length_cons, List.length_nil]; exact ⟨by omega, ha.2⟩
    · exact paced_append hs (mul_le_of_le (by omega) ha.2)
  | eHand i v h hcl hb =>
    simp only [h, PaceAt] at ha
    have h1 : (p.emitted.length + 1 + p.errsEmitted.length) * P.freq ≤ p.now := mul_le_of_le (by omega) ha.2
    have hlen := congrArg List.length hI.fifoOut
    simp [hb] at hlen
    refine ⟨?_, by simpa using h1, hc, ?_, ?_⟩
    · simp only [PaceAt, List.length_append, List.length_cons, List.length_nil]; exact ⟨by omega, ha.2⟩
    · exact paced_append hs (mul_le_of_le (by omega) ha.2)
    · exact paced_append hr (mul_le_of_le (by omega) ha.2)
  | eCatchSend i e h hcl hlt =>
    simp only [h, PaceAt] at ha
    have h1 : (p.emitted.length + (p.errsEmitted.length + 1)) * P.freq ≤ p.now := mul_le_of_le (by omega) ha.2
    refine ⟨?_, by simpa using h1, hc, hs, hr⟩
    cases hm : P.mode <;> simp only [afterCatch, hm, PaceAt, List.length_append, List.length_cons, List.length_nil]
    exact ⟨by omega, ha.2⟩
  | eCatchHand i e h hcl hb =>
    simp only [h, PaceAt] at ha
    have h1 : (p.emitted.length + (p.errsEmitted.length + 1)) * P.freq ≤ p.now := mul_le_of_le (by omega) ha.2
    refine ⟨?_, by simpa using h1, hc, hs, hr⟩
    cases hm : P.mode <;> simp only [afterCatch, hm, PaceAt, List.length_append, List.length_cons, List.length_nil]
    exact ⟨by omega, ha.2⟩

theorem paceInv_tick {P : Fn β ε} {p : Src β ε} (hJ : PaceInv P p) (d : Nat) : PaceInv P { p with now := p.now + d } := by
  obtain ⟨ha, hav, hc, hs, hr⟩ := hJ
  refine ⟨?_, Nat.le_trans hav (Nat.le_add_right _ _), hc, hs, hr⟩
  cases hpc : p.pc <;> simp_all [PaceAt] <;> omega

theorem paceInv_reachable {P : Fn β ε} {cap : Nat} {p : Src β ε} (hr : Reachable P (initEmit P.mode cap) p) : PaceInv P p :=
  reachable_induct (PaceInv P) (inv_initEmit P cap) (paceInv_init P cap) (fun _ _ hI hJ ht => paceInv_trans hI hJ ht)
    (fun _ hJ => ⟨hJ.at_, hJ.avail, hJ.calls, hJ.sent, hJ.recvd⟩) (fun _ d hJ => paceInv_tick hJ d) hr

/-! ### list facts used by the property statements -/

/-- for a step function `g` (the value component of `f.Apply`) the `k`-th seed is `g` applied `k`
times to the seed (`Nat.repeat g k seed = g (g (… seed))`) -/
theorem seedAt_eq_repeat {P : Fn β ε} (g : β → β) (hg : ∀ s, (P.unfoldF s).1 = g s) (seed : β) (k : Nat) :
    seedAt P seed k = Nat.repeat g k seed := by
  induction k with
  | zero => rfl
  | succ k ih => simp [seedAt, stepU, hg, Nat.repeat, ih]

theorem okVals_prefix (P : Fn β ε) {n m : Nat} (h : n ≤ m) : okVals P n <+: okVals P m := by
  obtain ⟨k, rfl⟩ := Nat.exists_eq_add_of_le h
  unfold okVals
  rw [List.range_add, List.filterMap_append]
  exact List.prefix_append _ _

theorem errVals_prefix (P : Fn β ε) {n m : Nat} (h : n ≤ m) : errVals P n <+: errVals P m := by
  obtain ⟨k, rfl⟩ := Nat.exists_eq_add_of_le h
  unfold errVals
  rw [List.range_add, List.filterMap_append]
  exact List.prefix_append _ _

theorem iterates_prefix (P : Fn β ε) (seed : β) {n m : Nat} (h : n ≤ m) : iterates P seed n <+: iterates P seed m := by
  obtain ⟨k, rfl⟩ := Nat.exists_eq_add_of_le h
  unfold iterates
  rw [List.range_add, List.map_append]
  exact List.prefix_append _ _

theorem errVals_nil_of_ok {P : Fn β ε} {n : Nat} (h : ∀ i, i < n → ∃ v, P.emitF i = .ok v) : errVals P n = [] := by
  induction n with
  | zero => simp [errVals]
  | succ n ih =>
    obtain ⟨v, hv⟩ := h n (by omega)
    rw [errVals_succ_ok hv]
    exact ih fun i hi => h i (by omega)

theorem errsU_nil_of_ok {P : Fn β ε} {seed : β} {n : Nat} (h : ∀ i, i < n → (P.unfoldF (seedAt P seed i)).2 = none) :
    errsU P seed n = [] := by
  induction n with
  | zero => simp [errsU]
  | succ n ih =>
    rw [errsU_succ_none (h n (by omega))]
    exact ih fun i hi => h i (by omega)

/-- the `i`-th element of a prefix of `iterates` -/
theorem getElem_of_append_eq_iterates {P : Fn β ε} {seed : β} {l : List (β × Nat)} {buf : List β} {n : Nat}
    (h : l.map (·.1) ++ buf = iterates P seed n) (i : Nat) (hi : i < l.length) : (l[i]).1 = seedAt P seed i := by
  have h1 : (l.map (·.1) ++ buf)[i]? = (iterates P seed n)[i]? := by rw [h]
  rw [List.getElem?_append_left (by simpa using hi)] at h1
  have hn : i < n := by
    have := congrArg List.length h
    simp [iterates] at this
    omega
  simp [iterates, hi, hn] at h1
  exact h1

end Golem.Go.Sources
