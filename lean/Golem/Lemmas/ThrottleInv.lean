/-
Invariants of the Throttling network (`Golem.Go.Throttle`), for every `ops`, interval, capacity and
every schedule (`Reachable`: arbitrary interleaving of pacer moves, data-goroutine moves and
environment moves, time passing arbitrarily — late timers included).

* `Inv`   — structural: FIFO bookkeeping, control-point facts, closed flags, no panic, time stamps
            never in the future, deliveries in time order.  Holds in every reachable state.
* `TInv`  — the token/time-stamp relations.  Holds in every reachable state that is not cancelled
            (after cancellation the pacer closes `ctl`, a closed `ctl` is always ready, and elements
            may pass the gate without a token).
Core Lean only.
-/
import Golem.Go.Throttle
namespace Golem.Go.Throttle
open Golem.Go

variable {α : Type}

/-- what the data goroutine knows when it leaves its loop -/
def ExitInv (p : Net α) : Why → Prop
  | .eof => p.delivered ++ p.out.buf = p.taken ∧ p.C.length = p.taken.length ∧
      p.inp.closed = true ∧ p.inp.buf = []
  | .done => p.cancelled = true ∧ (p.delivered ++ p.out.buf) <+: p.taken
  | .stop => False

/-- data goroutine: control point vs. histories (`taken` = received from `in`) -/
def DInv (p : Net α) : Prop :=
  match p.dc with
  | .idle => p.delivered ++ p.out.buf = p.taken ∧ p.C.length = p.taken.length
  | .gate a => p.delivered ++ p.out.buf ++ [a] = p.taken ∧ p.C.length + 1 = p.taken.length
  | .fwd a => p.delivered ++ p.out.buf ++ [a] = p.taken ∧ p.C.length = p.taken.length
  | .closing w => ExitInv p w
  | .exited w => ExitInv p w ∧ p.out.closed = true

structure Inv (p : Net α) : Prop where
  noPanic : p.panicked = false
  ctlCap : p.ctl.cap = p.ops
  fifoIn : p.taken ++ p.inp.buf = p.sent
  outCap : p.out.buf.length ≤ p.out.cap
  data : DInv p
  dLen : p.D.length = p.delivered.length
  outClosed : p.out.closed = true → ∃ w, p.dc = .exited w
  ctlClosed : p.ctl.closed = true → p.pc = .exited
  pcCancel : p.pc = .closing ∨ p.pc = .exited → p.cancelled = true
  pcExited : p.pc = .exited → p.ctl.closed = true
  nowP : ∀ t ∈ p.P, t ≤ p.now
  nowC : ∀ t ∈ p.C, t ≤ p.now
  nowD : ∀ t ∈ p.D, t ≤ p.now
  sortedD : p.D.Pairwise (· ≤ ·)

theorem inv_init (ops interval c : Nat) : Inv (init ops interval c : Net α) := by
  constructor <;> simp [init, DInv]

/-! ### generic list facts for time-stamp relations -/

/-- `Rel X Y k`: the `(n+k)`-th stamp of `X` is not before the `n`-th stamp of `Y` -/
def Rel (X Y : List Nat) (k : Nat) : Prop :=
  ∀ n x y, X[n + k]? = some x → Y[n]? = some y → y ≤ x

theorem getElem?_append_one {l : List Nat} {t x : Nat} {n : Nat} (h : (l ++ [t])[n]? = some x) :
    l[n]? = some x ∨ (n = l.length ∧ x = t) := by
  rw [List.getElem?_append] at h
  split at h
  · exact Or.inl h
  · right
    have hn : n - l.length = 0 := by
      cases hk : n - l.length with
      | zero => rfl
      | succ k => rw [hk] at h; simp at h
    rw [hn] at h
    simp at h
    exact ⟨by omega, h.symm⟩

theorem mem_of_getElem? {l : List Nat} {n x : Nat} (h : l[n]? = some x) : x ∈ l :=
  List.mem_of_getElem? h

theorem lt_of_getElem? {l : List Nat} {n x : Nat} (h : l[n]? = some x) : n < l.length := by
  rcases Nat.lt_or_ge n l.length with hlt | hge
  · exact hlt
  · rw [List.getElem?_eq_none hge] at h; cases h

/-- appending `t` to `X` keeps `Rel` when every stamp of `Y` is `≤ t` -/
theorem Rel.appendX {X Y : List Nat} {k t : Nat} (h : Rel X Y k) (hy : ∀ y ∈ Y, y ≤ t) :
    Rel (X ++ [t]) Y k := by
  intro n x y hx hyn
  rcases getElem?_append_one hx with hx | ⟨_, rfl⟩
  · exact h n x y hx hyn
  · exact hy y (mem_of_getElem? hyn)

/-- appending to `Y` keeps `Rel` when `X` is not longer than `Y` shifted by `k` -/
theorem Rel.appendY {X Y : List Nat} {k t : Nat} (h : Rel X Y k) (hl : X.length ≤ Y.length + k) :
    Rel X (Y ++ [t]) k := by
  intro n x y hx hyn
  rcases getElem?_append_one hyn with hyn | ⟨rfl, _⟩
  · exact h n x y hx hyn
  · have := lt_of_getElem? hx; omega

theorem pairwise_append_one {l : List Nat} {t : Nat} (h : l.Pairwise (· ≤ ·)) (ht : ∀ x ∈ l, x ≤ t) :
    (l ++ [t]).Pairwise (· ≤ ·) := by
  rw [List.pairwise_append]
  refine ⟨h, by simp, ?_⟩
  intro a ha b hb
  simp at hb
  subst hb
  exact ht a ha

theorem forall_mem_append_one {l : List Nat} {t u : Nat} (h : ∀ x ∈ l, x ≤ u) (ht : t ≤ u) :
    ∀ x ∈ l ++ [t], x ≤ u := by
  intro x hx
  simp at hx
  rcases hx with hx | rfl
  · exact h x hx
  · exact ht

/-! ### the structural invariant is preserved -/

theorem inv_pacer {p q : Net α} (h : Inv p) (hq : q ∈ pacerNext p) : Inv q := by
  have hd := h.data
  unfold pacerNext at hq
  cases hpc : p.pc with
  | push i =>
    have hcl : p.ctl.closed = false := by
      cases hc : p.ctl.closed with
      | false => rfl
      | true => have := h.ctlClosed hc; rw [hpc] at this; cases this
    simp only [hpc, hcl] at hq
    split at hq
    · rw [List.mem_append] at hq
      rcases hq with hq | hq
      · simp only [Bool.false_eq_true, if_false] at hq
        split at hq
        · rw [List.mem_singleton] at hq
          subst hq
          exact { noPanic := h.noPanic, ctlCap := h.ctlCap, fifoIn := h.fifoIn, outCap := h.outCap,
                  data := hd, dLen := h.dLen, outClosed := h.outClosed,
                  ctlClosed := by intro hc; simp at hc,
                  pcCancel := by intro hc; simp at hc, pcExited := by intro hc; simp at hc,
                  nowP := forall_mem_append_one h.nowP (Nat.le_refl _), nowC := h.nowC, nowD := h.nowD,
                  sortedD := h.sortedD }
        · simp at hq
      · split at hq
        · rename_i hcan
          rw [List.mem_singleton] at hq
          subst hq
          exact { noPanic := h.noPanic, ctlCap := h.ctlCap, fifoIn := h.fifoIn, outCap := h.outCap,
                  data := hd, dLen := h.dLen, outClosed := h.outClosed,
                  ctlClosed := by intro hc; simp [hcl] at hc,
                  pcCancel := fun _ => hcan, pcExited := by intro hc; simp at hc,
                  nowP := h.nowP, nowC := h.nowC, nowD := h.nowD, sortedD := h.sortedD }
        · simp at hq
    · rw [List.mem_singleton] at hq
      subst hq
      exact { noPanic := h.noPanic, ctlCap := h.ctlCap, fifoIn := h.fifoIn, outCap := h.outCap,
              data := hd, dLen := h.dLen, outClosed := h.outClosed,
              ctlClosed := by intro hc; simp [hcl] at hc,
              pcCancel := by intro hc; simp at hc, pcExited := by intro hc; simp at hc,
              nowP := h.nowP, nowC := h.nowC, nowD := h.nowD, sortedD := h.sortedD }
  | wait due =>
    have hcl : p.ctl.closed = false := by
      cases hc : p.ctl.closed with
      | false => rfl
      | true => have := h.ctlClosed hc; rw [hpc] at this; cases this
    simp only [hpc] at hq
    rw [List.mem_append] at hq
    rcases hq with hq | hq
    · split at hq
      · rw [List.mem_singleton] at hq
        subst hq
        exact { noPanic := h.noPanic, ctlCap := h.ctlCap, fifoIn := h.fifoIn, outCap := h.outCap,
                data := hd, dLen := h.dLen, outClosed := h.outClosed,
                ctlClosed := by intro hc; simp [hcl] at hc,
                pcCancel := by intro hc; simp at hc, pcExited := by intro hc; simp at hc,
                nowP := h.nowP, nowC := h.nowC, nowD := h.nowD, sortedD := h.sortedD }
      · simp at hq
    · split at hq
      · rename_i hcan
        rw [List.mem_singleton] at hq
        subst hq
        exact { noPanic := h.noPanic, ctlCap := h.ctlCap, fifoIn := h.fifoIn, outCap := h.outCap,
                data := hd, dLen := h.dLen, outClosed := h.outClosed,
                ctlClosed := by intro hc; simp [hcl] at hc,
                pcCancel := fun _ => hcan, pcExited := by intro hc; simp at hc,
                nowP := h.nowP, nowC := h.nowC, nowD := h.nowD, sortedD := h.sortedD }
      · simp at hq
  | closing =>
    have hcl : p.ctl.closed = false := by
      cases hc : p.ctl.closed with
      | false => rfl
      | true => have := h.ctlClosed hc; rw [hpc] at this; cases this
    simp only [hpc, hcl] at hq
    simp only [Bool.false_eq_true, if_false, List.mem_singleton] at hq
    subst hq
    exact { noPanic := h.noPanic, ctlCap := h.ctlCap, fifoIn := h.fifoIn, outCap := h.outCap,
            data := hd, dLen := h.dLen, outClosed := h.outClosed,
            ctlClosed := fun _ => rfl,
            pcCancel := fun _ => h.pcCancel (Or.inl hpc), pcExited := fun _ => rfl,
            nowP := h.nowP, nowC := h.nowC, nowD := h.nowD, sortedD := h.sortedD }
  | exited =>
    simp [hpc] at hq

theorem out_open_of_not_exited {p : Net α} (h : Inv p) (hne : ∀ w, p.dc ≠ .exited w) : p.out.closed = false := by
  cases hc : p.out.closed with
  | false => rfl
  | true => obtain ⟨w, hw⟩ := h.outClosed hc; exact absurd hw (hne w)

theorem inv_data {p q : Net α} (h : Inv p) (hq : q ∈ dataNext p) : Inv q := by
  have hd := h.data
  unfold dataNext at hq
  cases hdc : p.dc with
  | idle =>
    simp only [DInv, hdc] at hd
    simp only [hdc] at hq
    split at hq
    · rename_i a rest hb
      rw [List.mem_singleton] at hq
      subst hq
      have hf := h.fifoIn
      rw [hb] at hf
      exact { h with
        fifoIn := by simpa using hf
        data := by simp [DInv, hd.1, hd.2]
        outClosed := by intro hc; have := h.outClosed hc; simp [hdc] at this }
    · rename_i hb
      split at hq
      · rename_i hcl
        rw [List.mem_singleton] at hq
        subst hq
        exact { h with
          data := by simp [DInv, ExitInv, hd.1, hd.2, hcl, hb]
          outClosed := by intro hc; have := h.outClosed hc; simp [hdc] at this }
      · simp at hq
  | gate a =>
    simp only [DInv, hdc] at hd
    simp only [hdc] at hq
    rw [List.mem_append] at hq
    rcases hq with hq | hq
    · split at hq
      · rename_i u rest hb
        rw [List.mem_singleton] at hq
        subst hq
        exact { h with
          data := by simp only [DInv]; refine ⟨hd.1, ?_⟩; simp; omega
          outClosed := by intro hc; have := h.outClosed hc; simp [hdc] at this
          nowC := forall_mem_append_one h.nowC (Nat.le_refl _) }
      · split at hq
        · rw [List.mem_singleton] at hq
          subst hq
          exact { h with
            data := by simp only [DInv]; refine ⟨hd.1, ?_⟩; simp; omega
            outClosed := by intro hc; have := h.outClosed hc; simp [hdc] at this
            nowC := forall_mem_append_one h.nowC (Nat.le_refl _) }
        · simp at hq
    · split at hq
      · rename_i hcan
        rw [List.mem_singleton] at hq
        subst hq
        exact { h with
          data := by
            simp only [DInv, ExitInv]
            refine ⟨hcan, ?_⟩
            rw [← hd.1]
            exact List.prefix_append _ _
          outClosed := by intro hc; have := h.outClosed hc; simp [hdc] at this }
      · simp at hq
  | fwd a =>
    simp only [DInv, hdc] at hd
    have hop : p.out.closed = false := out_open_of_not_exited h (by intro w; rw [hdc]; intro hh; cases hh)
    simp only [hdc, hop] at hq
    rw [List.mem_append] at hq
    rcases hq with hq | hq
    · simp only [Bool.false_eq_true, if_false] at hq
      split at hq
      · rename_i hlt
        rw [List.mem_singleton] at hq
        subst hq
        exact { h with
          outCap := by simp; omega
          data := by simp only [DInv]; refine ⟨?_, hd.2⟩; rw [← hd.1]; simp
          outClosed := by intro hc; simp at hc }
      · simp at hq
    · split at hq
      · rename_i hcan
        rw [List.mem_singleton] at hq
        subst hq
        exact { h with
          data := by
            simp only [DInv, ExitInv]
            refine ⟨hcan, ?_⟩
            rw [← hd.1]
            exact List.prefix_append _ _
          outClosed := by intro hc; have := h.outClosed hc; simp [hdc] at this }
      · simp at hq
  | closing w =>
    simp only [DInv, hdc] at hd
    have hop : p.out.closed = false := out_open_of_not_exited h (by intro w; rw [hdc]; intro hh; cases hh)
    simp only [hdc, hop] at hq
    simp only [Bool.false_eq_true, if_false, List.mem_singleton] at hq
    subst hq
    exact { h with
      data := by
        show ExitInv _ w ∧ _
        exact ⟨by cases w <;> simpa [ExitInv] using hd, rfl⟩
      outClosed := fun _ => ⟨w, rfl⟩ }
  | exited w =>
    simp [hdc] at hq

theorem inv_proc {p q : Net α} (h : Inv p) (hq : q ∈ procNext p) : Inv q := by
  unfold procNext at hq
  rw [h.noPanic] at hq
  simp only [Bool.false_eq_true, if_false, List.mem_append] at hq
  rcases hq with hq | hq
  · exact inv_pacer h hq
  · exact inv_data h hq

theorem inv_env {p q : Net α} (h : Inv p) {m : Move α} {o : Pool.Obs α} (hq : (q, o) ∈ envNext p m) : Inv q := by
  have hd := h.data
  cases m with
  | send v =>
    simp only [envNext] at hq
    split at hq
    · simp at hq; rw [hq.1]; exact h
    · rename_i hcl
      split at hq
      · simp only [List.mem_singleton, Prod.mk.injEq] at hq
        obtain ⟨rfl, _⟩ := hq
        exact { h with
          fifoIn := by simp [← h.fifoIn]
          data := by
            unfold DInv at hd ⊢
            cases hdc : p.dc with
            | idle => simpa [hdc] using hd
            | gate a => simpa [hdc] using hd
            | fwd a => simpa [hdc] using hd
            | closing w =>
              cases w with
              | eof => simp only [hdc, ExitInv] at hd; exact absurd hd.2.2.1 hcl
              | done => simpa [hdc, ExitInv] using hd
              | stop => simp [hdc, ExitInv] at hd
            | exited w =>
              cases w with
              | eof => simp only [hdc, ExitInv] at hd; exact absurd hd.1.2.2.1 hcl
              | done => simpa [hdc, ExitInv] using hd
              | stop => simp [hdc, ExitInv] at hd }
      · simp at hq; rw [hq.1]; exact h
  | close =>
    simp only [envNext] at hq
    split at hq
    · simp at hq; rw [hq.1]; exact h
    · simp only [List.mem_singleton, Prod.mk.injEq] at hq
      obtain ⟨rfl, _⟩ := hq
      exact { h with
        data := by
          unfold DInv at hd ⊢
          cases hdc : p.dc with
          | idle => simpa [hdc] using hd
          | gate a => simpa [hdc] using hd
          | fwd a => simpa [hdc] using hd
          | closing w => cases w <;> simp_all [ExitInv]
          | exited w => cases w <;> simp_all [ExitInv] }
  | recv =>
    simp only [envNext] at hq
    split at hq
    · rename_i v rest hb
      simp only [List.mem_singleton, Prod.mk.injEq] at hq
      obtain ⟨rfl, _⟩ := hq
      have hcap := h.outCap
      rw [hb] at hcap
      exact { h with
        outCap := by simp at hcap ⊢; omega
        dLen := by simp [h.dLen]
        nowD := forall_mem_append_one h.nowD (Nat.le_refl _)
        sortedD := pairwise_append_one h.sortedD h.nowD
        data := by
          unfold DInv at hd ⊢
          cases hdc : p.dc with
          | idle => simpa [hdc, hb] using hd
          | gate a => simpa [hdc, hb] using hd
          | fwd a => simpa [hdc, hb] using hd
          | closing w => cases w <;> simp_all [ExitInv]
          | exited w => cases w <;> simp_all [ExitInv] }
    · rename_i hb
      split at hq
      · simp at hq; rw [hq.1]; exact h
      · rename_i hop
        split at hq
        · rename_i a hdc
          simp only [List.mem_singleton, Prod.mk.injEq] at hq
          obtain ⟨rfl, _⟩ := hq
          simp only [DInv, hdc, hb] at hd
          exact { h with
            dLen := by simp [h.dLen]
            nowD := forall_mem_append_one h.nowD (Nat.le_refl _)
            sortedD := pairwise_append_one h.sortedD h.nowD
            data := by simp only [DInv, hb]; refine ⟨?_, hd.2⟩; simpa using hd.1
            outClosed := by intro hc; have hc' : p.out.closed = true := hc; rw [hc'] at hop; exact absurd hop (by simp) }
        · simp at hq; rw [hq.1]; exact h
  | cancel =>
    simp only [envNext, List.mem_singleton, Prod.mk.injEq] at hq
    obtain ⟨rfl, _⟩ := hq
    exact { h with
      pcCancel := fun _ => rfl
      data := by
        unfold DInv at hd ⊢
        cases hdc : p.dc with
        | idle => simpa [hdc] using hd
        | gate a => simpa [hdc] using hd
        | fwd a => simpa [hdc] using hd
        | closing w => cases w <;> simp_all [ExitInv]
        | exited w => cases w <;> simp_all [ExitInv] }
  | tick d =>
    simp only [envNext, List.mem_singleton, Prod.mk.injEq] at hq
    obtain ⟨rfl, _⟩ := hq
    exact { h with
      data := hd
      nowP := fun t ht => Nat.le_trans (h.nowP t ht) (Nat.le_add_right _ _)
      nowC := fun t ht => Nat.le_trans (h.nowC t ht) (Nat.le_add_right _ _)
      nowD := fun t ht => Nat.le_trans (h.nowD t ht) (Nat.le_add_right _ _) }

theorem inv_step {p q : Net α} (h : Inv p) (hs : Step p q) : Inv q := by
  rcases hs with hq | ⟨m, o, hq⟩
  · exact inv_proc h hq
  · exact inv_env h hq

theorem inv_reachable {ops interval c : Nat} {p : Net α} (hr : Reachable (init ops interval c) p) : Inv p := by
  induction hr with
  | init => exact inv_init ops interval c
  | step _ hs ih => exact inv_step ih hs

end Golem.Go.Throttle
