/-
Exactness of Throttling under eager semantics (`EReachable`): no cancel, no close, time passes only
when nothing else can move (no process move, no receive possible, the data goroutine is not starving
for input) and never past the due time of the pending timer.  Then every token is pushed, every
element passes the gate and is delivered exactly at `⌊n/ops⌋·interval`.  Core Lean only.
-/
import Golem.Lemmas.ThrottleTime
import Golem.Lemmas.ThrottleLive
namespace Golem.Go.Throttle
open Golem.Go

variable {α : Type}

def Phase (p : Net α) : Prop :=
  match p.pc with
  | .push i => i ≤ p.ops ∧ ∃ R, p.P.length = R * p.ops + i ∧ p.now = R * p.interval
  | .wait due => ∃ R, p.P.length = R * p.ops ∧ due = R * p.interval ∧ p.now ≤ due
  | _ => False

structure EInv (p : Net α) : Prop where
  base : Inv p
  tbase : TInv p
  notCancelled : p.cancelled = false
  notClosed : p.inp.closed = false
  exactP : ∀ n a, p.P[n]? = some a → a = (n / p.ops) * p.interval
  exactC : ∀ n a, p.C[n]? = some a → a = (n / p.ops) * p.interval
  exactD : ∀ n a, p.D[n]? = some a → a = (n / p.ops) * p.interval
  /-- tokens waiting in `ctl` were pushed at the present instant -/
  tokNow : ∀ n, p.C.length ≤ n → n < p.P.length → (n / p.ops) * p.interval = p.now
  /-- elements past the gate and not yet delivered passed it at the present instant -/
  fwdNow : ∀ n, p.D.length ≤ n → n < p.C.length → (n / p.ops) * p.interval = p.now
  phase : Phase p

theorem einv_init (ops interval c : Nat) : EInv (init ops interval c : Net α) := by
  refine { base := inv_init _ _ _, tbase := tinv_init _ _ _, notCancelled := rfl, notClosed := rfl,
           exactP := ?_, exactC := ?_, exactD := ?_, tokNow := ?_, fwdNow := ?_, phase := ?_ }
  · intro n a h; simp [init] at h
  · intro n a h; simp [init] at h
  · intro n a h; simp [init] at h
  · intro n _ h; simp [init] at h
  · intro n _ h; simp [init] at h
  · simp only [Phase, init]
    exact ⟨Nat.zero_le _, 0, by simp, by simp⟩

theorem div_round (R ops i : Nat) (hi : i < ops) : (R * ops + i) / ops = R := by
  rw [Nat.mul_comm, Nat.mul_add_div (by omega), Nat.div_eq_of_lt hi]
  simp

theorem exact_append {l : List Nat} {t k I : Nat} (h : ∀ n a, l[n]? = some a → a = (n / k) * I)
    (ht : t = (l.length / k) * I) : ∀ n a, (l ++ [t])[n]? = some a → a = (n / k) * I := by
  intro n a ha
  rcases getElem?_append_one ha with ha | ⟨rfl, rfl⟩
  · exact h n a ha
  · exact ht

theorem einv_pacer {p q : Net α} (h : EInv p) (hq : q ∈ pacerNext p) (hI : Inv q) (hT : TInv q) : EInv q := by
  have hph := h.phase
  have hb := h.base
  unfold pacerNext at hq
  cases hpc : p.pc with
  | push i =>
    have hcl : p.ctl.closed = false := by
      cases hc : p.ctl.closed with
      | false => rfl
      | true => have := hb.ctlClosed hc; rw [hpc] at this; cases this
    simp only [Phase, hpc] at hph
    obtain ⟨hile, R, hlen, hnow⟩ := hph
    simp only [hpc, hcl, h.notCancelled] at hq
    split at hq
    · rename_i hi
      simp only [Bool.false_eq_true, if_false, List.append_nil] at hq
      split at hq
      · rw [List.mem_singleton] at hq
        subst hq
        have hdiv : p.P.length / p.ops = R := by rw [hlen]; exact div_round R p.ops i hi
        have hnew : p.now = (p.P.length / p.ops) * p.interval := by rw [hdiv]; exact hnow
        exact { base := hI, tbase := hT, notCancelled := (by first | exact h.notCancelled | rfl), notClosed := (by first | exact h.notClosed | rfl),
                exactP := exact_append h.exactP hnew
                exactC := h.exactC, exactD := h.exactD,
                tokNow := by
                  intro n h1 h2
                  dsimp only at h1 h2 ⊢
                  simp at h2
                  rcases Nat.lt_or_ge n p.P.length with hlt | hge
                  · exact h.tokNow n h1 hlt
                  · have : n = p.P.length := by omega
                    rw [this]; exact hnew.symm
                fwdNow := h.fwdNow,
                phase := by
                  simp only [Phase]
                  refine ⟨by omega, R, ?_, hnow⟩
                  simp; omega }
      · simp at hq
    · rename_i hi
      rw [List.mem_singleton] at hq
      subst hq
      have hio : i = p.ops := by omega
      exact { base := hI, tbase := hT, notCancelled := (by first | exact h.notCancelled | rfl), notClosed := (by first | exact h.notClosed | rfl),
              exactP := h.exactP, exactC := h.exactC, exactD := h.exactD, tokNow := h.tokNow, fwdNow := h.fwdNow,
              phase := by
                simp only [Phase]
                refine ⟨R + 1, ?_, ?_, by omega⟩
                · rw [Nat.succ_mul]; omega
                · rw [Nat.succ_mul]; omega }
  | wait due =>
    simp only [Phase, hpc] at hph
    obtain ⟨R, hlen, hdue, hle⟩ := hph
    simp only [hpc, h.notCancelled] at hq
    simp only [Bool.false_eq_true, if_false, List.append_nil] at hq
    split at hq
    · rename_i hfire
      rw [List.mem_singleton] at hq
      subst hq
      exact { base := hI, tbase := hT, notCancelled := (by first | exact h.notCancelled | rfl), notClosed := (by first | exact h.notClosed | rfl),
              exactP := h.exactP, exactC := h.exactC, exactD := h.exactD, tokNow := h.tokNow, fwdNow := h.fwdNow,
              phase := by
                simp only [Phase]
                exact ⟨Nat.zero_le _, R, by omega, by omega⟩ }
    · simp at hq
  | closing => simp [Phase, hpc] at hph
  | exited => simp [Phase, hpc] at hph

theorem einv_data {p q : Net α} (h : EInv p) (hq : q ∈ dataNext p) (hI : Inv q) (hT : TInv q) : EInv q := by
  have hb := h.base
  have hd := hb.data
  have hcl : p.ctl.closed = false := by
    cases hc : p.ctl.closed with
    | false => rfl
    | true =>
      have := hb.pcCancel (Or.inr (hb.ctlClosed hc))
      rw [h.notCancelled] at this; cases this
  unfold dataNext at hq
  cases hdc : p.dc with
  | idle =>
    simp only [hdc, h.notClosed] at hq
    split at hq
    · rw [List.mem_singleton] at hq
      subst hq
      exact { h with base := hI, tbase := hT, phase := h.phase, notCancelled := (by first | exact h.notCancelled | rfl), notClosed := (by first | exact h.notClosed | rfl) }
    · simp at hq
  | gate a =>
    simp only [hdc, hcl, h.notCancelled] at hq
    simp only [Bool.false_eq_true, if_false, List.append_nil] at hq
    split at hq
    · rename_i u rest hbuf
      rw [List.mem_singleton] at hq
      subst hq
      have htl := h.tbase.tokLen
      rw [hbuf] at htl
      simp at htl
      have hnew : p.now = (p.C.length / p.ops) * p.interval := (h.tokNow p.C.length (Nat.le_refl _) (by omega)).symm
      exact { h with
        base := hI, tbase := hT, phase := h.phase, notCancelled := (by first | exact h.notCancelled | rfl), notClosed := (by first | exact h.notClosed | rfl)
        exactC := exact_append h.exactC hnew
        tokNow := by
          intro n h1 h2
          dsimp only at h1 h2 ⊢
          simp at h1
          exact h.tokNow n (by omega) h2
        fwdNow := by
          intro n h1 h2
          dsimp only at h1 h2 ⊢
          simp at h2
          rcases Nat.lt_or_ge n p.C.length with hlt | hge
          · exact h.fwdNow n h1 hlt
          · have : n = p.C.length := by omega
            rw [this]; exact hnew.symm }
    · simp at hq
  | fwd a =>
    have hop : p.out.closed = false := out_open_of_not_exited hb (by intro w; rw [hdc]; intro hh; cases hh)
    simp only [hdc, hop, h.notCancelled] at hq
    simp only [Bool.false_eq_true, if_false, List.append_nil] at hq
    split at hq
    · rw [List.mem_singleton] at hq
      subst hq
      exact { h with base := hI, tbase := hT, phase := h.phase, notCancelled := (by first | exact h.notCancelled | rfl), notClosed := (by first | exact h.notClosed | rfl) }
    · simp at hq
  | closing w =>
    simp only [DInv, hdc] at hd
    cases w with
    | eof => simp only [ExitInv] at hd; rw [h.notClosed] at hd; exact absurd hd.2.2.1 (by simp)
    | done => simp only [ExitInv] at hd; rw [h.notCancelled] at hd; exact absurd hd.1 (by simp)
    | stop => exact absurd hd (by simp [ExitInv])
  | exited w => simp [hdc] at hq

theorem einv_send {p q : Net α} (h : EInv p) {v : α} {o : Pool.Obs α} (hq : (q, o) ∈ envNext p (.send v))
    (hI : Inv q) (hT : TInv q) : EInv q := by
  simp only [envNext] at hq
  split at hq
  · simp at hq; rw [hq.1]; exact h
  · split at hq
    · simp only [List.mem_singleton, Prod.mk.injEq] at hq
      obtain ⟨rfl, _⟩ := hq
      exact { h with base := hI, tbase := hT, phase := h.phase, notCancelled := (by first | exact h.notCancelled | rfl), notClosed := (by first | exact h.notClosed | rfl) }
    · simp at hq; rw [hq.1]; exact h

theorem einv_recv {p q : Net α} (h : EInv p) {o : Pool.Obs α} (hq : (q, o) ∈ envNext p .recv)
    (hI : Inv q) (hT : TInv q) : EInv q := by
  have hl := lens_of_inv h.base h.notCancelled
  simp only [envNext] at hq
  split at hq
  · rename_i v rest hbuf
    simp only [List.mem_singleton, Prod.mk.injEq] at hq
    obtain ⟨rfl, _⟩ := hq
    rw [hbuf] at hl
    simp at hl
    have hnew : p.now = (p.D.length / p.ops) * p.interval := (h.fwdNow p.D.length (Nat.le_refl _) (by omega)).symm
    exact { h with
      base := hI, tbase := hT, phase := h.phase, notCancelled := (by first | exact h.notCancelled | rfl), notClosed := (by first | exact h.notClosed | rfl)
      exactD := exact_append h.exactD hnew
      fwdNow := by
        intro n h1 h2
        dsimp only at h1 h2 ⊢
        simp at h1
        exact h.fwdNow n (by omega) h2 }
  · rename_i hbuf
    split at hq
    · simp at hq; rw [hq.1]; exact h
    · split at hq
      · rename_i a hdc
        simp only [List.mem_singleton, Prod.mk.injEq] at hq
        obtain ⟨rfl, _⟩ := hq
        have hd := h.base.data
        simp only [DInv, hdc] at hd
        have hlen := congrArg List.length hd.1
        simp at hlen
        have hdl := h.base.dLen
        have hnew : p.now = (p.D.length / p.ops) * p.interval := (h.fwdNow p.D.length (Nat.le_refl _) (by omega)).symm
        exact { h with
          base := hI, tbase := hT, phase := h.phase, notCancelled := (by first | exact h.notCancelled | rfl), notClosed := (by first | exact h.notClosed | rfl)
          exactD := exact_append h.exactD hnew
          fwdNow := by
            intro n h1 h2
            dsimp only at h1 h2 ⊢
            simp at h1
            exact h.fwdNow n (by omega) h2 }
      · simp at hq; rw [hq.1]; exact h

theorem einv_tick {p : Net α} (h : EInv p) (hops : 1 ≤ p.ops) {d : Nat} (hc : canTick p d)
    (hI : Inv { p with now := p.now + d }) (hT : TInv { p with now := p.now + d }) :
    EInv { p with now := p.now + d } := by
  obtain ⟨hq, hob, hnf, hin, hdue⟩ := hc
  have hb := h.base
  obtain ⟨hpn, hdn⟩ := procNext_nil hb.noPanic hq
  have hd := hb.data
  -- the data goroutine waits at the gate
  have hgate : ∃ a, p.dc = .gate a := by
    unfold dataNext at hdn
    cases hdc : p.dc with
    | idle =>
      have := hin hdc
      simp only [hdc] at hdn
      split at hdn
      · simp at hdn
      · rename_i hb'; exact absurd hb' this
    | gate a => exact ⟨a, rfl⟩
    | fwd a => exact absurd hdc (hnf a)
    | closing w =>
      simp only [hdc] at hdn
      split at hdn <;> simp at hdn
    | exited w =>
      simp only [DInv, hdc] at hd
      cases w with
      | eof => have := hd.1; simp only [ExitInv] at this; rw [h.notClosed] at this; exact absurd this.2.2.1 (by simp)
      | done => have := hd.1; simp only [ExitInv] at this; rw [h.notCancelled] at this; exact absurd this.1 (by simp)
      | stop => exact absurd hd.1 (by simp [ExitInv])
  obtain ⟨a, hg⟩ := hgate
  obtain ⟨due, hw, _⟩ := quiescent_gate_waits_timer hb hops h.notCancelled hg hq
  have hctl : p.ctl.buf = [] := by
    unfold dataNext at hdn
    simp only [hg] at hdn
    cases hb' : p.ctl.buf with
    | nil => rfl
    | cons u rest => simp [hb'] at hdn
  have htl := h.tbase.tokLen
  rw [hctl] at htl
  simp at htl
  simp only [DInv, hg] at hd
  have hlen := congrArg List.length hd.1
  rw [hob] at hlen
  simp at hlen
  have hdl := hb.dLen
  have hph := h.phase
  simp only [Phase, hw] at hph
  exact { h with
    base := hI, tbase := hT
    tokNow := by intro n h1 h2; dsimp only at h1 h2; omega
    fwdNow := by intro n h1 h2; dsimp only at h1 h2; omega
    phase := by
      simp only [Phase, hw]
      obtain ⟨R, h1, h2, _⟩ := hph
      exact ⟨R, h1, h2, hdue due hw⟩ }

theorem einv_step {p q : Net α} (h : EInv p) (hops : 1 ≤ p.ops) (hs : EStep p q) : EInv q := by
  rcases hs with hq | ⟨v, o, hq⟩ | ⟨o, hq⟩ | ⟨d, hc, rfl⟩
  · have hst : Step p q := Or.inl hq
    have hnc : q.cancelled = false := by rw [(proc_frame hq).2.2.2.2.1]; exact h.notCancelled
    have hI := inv_step h.base hst
    have hT := tinv_step h.base h.tbase hst hnc
    unfold procNext at hq
    rw [h.base.noPanic] at hq
    simp only [Bool.false_eq_true, if_false, List.mem_append] at hq
    rcases hq with hq | hq
    · exact einv_pacer h hq hI hT
    · exact einv_data h hq hI hT
  · have hst : Step p q := Or.inr ⟨_, _, hq⟩
    have hI := inv_step h.base hst
    have hnc : q.cancelled = false := by
      simp only [envNext] at hq
      repeat' split at hq
      all_goals (simp at hq)
      all_goals (obtain ⟨rfl, _⟩ := hq; exact h.notCancelled)
    exact einv_send h hq hI (tinv_step h.base h.tbase hst hnc)
  · have hst : Step p q := Or.inr ⟨_, _, hq⟩
    have hI := inv_step h.base hst
    have hnc : q.cancelled = false := by
      simp only [envNext] at hq
      repeat' split at hq
      all_goals (simp at hq)
      all_goals (obtain ⟨rfl, _⟩ := hq; exact h.notCancelled)
    exact einv_recv h hq hI (tinv_step h.base h.tbase hst hnc)
  · have hst : Step p { p with now := p.now + d } := Or.inr ⟨.tick d, .ok, by simp [envNext]⟩
    exact einv_tick h hops hc (inv_step h.base hst) (tinv_step h.base h.tbase hst h.notCancelled)

theorem estep_ops {p q : Net α} (hs : EStep p q) : q.ops = p.ops := by
  rcases hs with hq | ⟨v, o, hq⟩ | ⟨o, hq⟩ | ⟨d, _, rfl⟩
  · exact (proc_frame hq).1
  · exact (step_consts (Or.inr ⟨_, _, hq⟩)).1
  · exact (step_consts (Or.inr ⟨_, _, hq⟩)).1
  · rfl

theorem ereach_consts {ops interval c : Nat} {p : Net α} (hr : EReachable (init ops interval c) p) :
    p.ops = ops ∧ p.interval = interval := by
  induction hr with
  | init => simp [init]
  | step _ hs ih =>
    rcases hs with hq | ⟨v, o, hq⟩ | ⟨o, hq⟩ | ⟨d, _, rfl⟩
    · have := proc_frame hq; exact ⟨this.1.trans ih.1, this.2.1.trans ih.2⟩
    · have := step_consts (Or.inr ⟨_, _, hq⟩); exact ⟨this.1.trans ih.1, this.2.1.trans ih.2⟩
    · have := step_consts (Or.inr ⟨_, _, hq⟩); exact ⟨this.1.trans ih.1, this.2.1.trans ih.2⟩
    · exact ih

theorem einv_reachable' {ops interval c : Nat} (hops : 1 ≤ ops) {p : Net α}
    (hr : EReachable (init ops interval c) p) : EInv p := by
  induction hr with
  | init => exact einv_init ops interval c
  | step hr hs ih => exact einv_step ih (by rw [(ereach_consts hr).1]; exact hops) hs

/-- packaged with the configuration constants substituted -/
structure EExact (ops interval : Nat) (p : Net α) : Prop where
  exactP : ∀ n a, p.P[n]? = some a → a = (n / ops) * interval
  exactC : ∀ n a, p.C[n]? = some a → a = (n / ops) * interval
  exactD : ∀ n a, p.D[n]? = some a → a = (n / ops) * interval

theorem einv_reachable {ops interval c : Nat} (hops : 1 ≤ ops) {p : Net α}
    (hr : EReachable (init ops interval c) p) : EExact ops interval p := by
  have h := einv_reachable' hops hr
  have hc := ereach_consts hr
  refine ⟨?_, ?_, ?_⟩
  · intro n a ha; have := h.exactP n a ha; rw [hc.1, hc.2] at this; exact this
  · intro n a ha; have := h.exactC n a ha; rw [hc.1, hc.2] at this; exact this
  · intro n a ha; have := h.exactD n a ha; rw [hc.1, hc.2] at this; exact this

/-- eager runs are runs -/
theorem ereach_reach {p0 p : Net α} (hr : EReachable p0 p) : Reachable p0 p := by
  induction hr with
  | init => exact .init
  | step _ hs ih =>
    rcases hs with hq | ⟨v, o, hq⟩ | ⟨o, hq⟩ | ⟨d, _, rfl⟩
    · exact .step ih (Or.inl hq)
    · exact .step ih (Or.inr ⟨_, _, hq⟩)
    · exact .step ih (Or.inr ⟨_, _, hq⟩)
    · exact .step ih (Or.inr ⟨.tick d, .ok, by simp [envNext]⟩)

end Golem.Go.Throttle
