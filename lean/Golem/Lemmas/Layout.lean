/- Helper lemmas about `Model/Layout` (core Lean only). -/
import Golem.Model.Layout
namespace Golem.Model

theorem le_alignUp (n a : Nat) (h : 0 < a) : n ≤ alignUp n a := by
  unfold alignUp
  have h1 := Nat.div_add_mod (n + a - 1) a
  have h2 := Nat.mod_lt (n + a - 1) h
  have h3 : (n + a - 1) / a * a = a * ((n + a - 1) / a) := Nat.mul_comm _ _
  omega

mutual
theorem GoType.align_pos : (t : GoType) → 0 < t.align
  | .prim p => by cases p <;> simp [GoType.align, Prim.align]
  | .slice _ | .ptr _ | .map _ _ | .chan _ | .func _ => by simp [GoType.align]
  | .array _ t => by simpa [GoType.align] using t.align_pos
  | .struct fs => by simpa [GoType.align] using fs.maxAlign_pos
  | .named _ u => by simpa [GoType.align] using u.align_pos
theorem Fields.maxAlign_pos : (fs : Fields) → 0 < fs.maxAlign
  | .nil => by simp [Fields.maxAlign]
  | .cons _ _ _ t r => by
    have := t.align_pos
    simp [Fields.maxAlign]; omega
end

theorem Fields.le_endOff : (fs : Fields) → (cur : Nat) → cur ≤ fs.endOff cur
  | .nil, cur => by simp [Fields.endOff]
  | .cons _ _ _ t r, cur => by
    have h1 := le_alignUp cur t.align t.align_pos
    have h2 := r.le_endOff (alignUp cur t.align + t.size)
    simp [Fields.endOff]; omega

theorem Fields.offsetsFrom_length : (fs : Fields) → (cur : Nat) → (fs.offsetsFrom cur).length = fs.toList.length
  | .nil, _ => by simp [Fields.offsetsFrom, Fields.toList]
  | .cons _ _ _ t r, cur => by simp [Fields.offsetsFrom, Fields.toList, r.offsetsFrom_length]

/-- Every field lies at or after the placement start and ends before `endOff`. -/
theorem Fields.field_in_endOff : (fs : Fields) → (cur i : Nat) → (f : FieldDecl) → (o : Nat) →
    fs.toList[i]? = some f → (fs.offsetsFrom cur)[i]? = some o → cur ≤ o ∧ o + f.type.size ≤ fs.endOff cur
  | .nil, _, _, _, _, h, _ => by simp [Fields.toList] at h
  | .cons _ _ _ t r, cur, 0, f, o, hf, ho => by
    simp [Fields.toList] at hf
    simp [Fields.offsetsFrom] at ho
    subst hf; subst ho
    have h1 := le_alignUp cur t.align t.align_pos
    have h2 := r.le_endOff (alignUp cur t.align + t.size)
    simp [Fields.endOff]; omega
  | .cons _ _ _ t r, cur, i + 1, f, o, hf, ho => by
    simp [Fields.toList] at hf
    simp [Fields.offsetsFrom] at ho
    have h1 := le_alignUp cur t.align t.align_pos
    have := r.field_in_endOff (alignUp cur t.align + t.size) i f o hf ho
    simp [Fields.endOff]; omega

/-- Sequential placement: an earlier field ends before a later one starts. -/
theorem Fields.field_order : (fs : Fields) → (cur i j : Nat) → (f : FieldDecl) → (oi oj : Nat) → i < j →
    fs.toList[i]? = some f → (fs.offsetsFrom cur)[i]? = some oi → (fs.offsetsFrom cur)[j]? = some oj →
    oi + f.type.size ≤ oj
  | .nil, _, _, _, _, _, _, _, h, _, _ => by simp [Fields.toList] at h
  | .cons _ _ _ t r, cur, 0, j + 1, f, oi, oj, _, hf, hi, hj => by
    simp [Fields.toList] at hf
    simp [Fields.offsetsFrom] at hi hj
    subst hf; subst hi
    have hlen := r.offsetsFrom_length (alignUp cur t.align + t.size)
    have hj' : j < r.toList.length := by
      have := (List.getElem?_eq_some_iff.mp hj).1; omega
    obtain ⟨g, hg⟩ : ∃ g, r.toList[j]? = some g := ⟨r.toList[j], by simp [hj']⟩
    have := r.field_in_endOff (alignUp cur t.align + t.size) j g oj hg hj
    show alignUp cur t.align + t.size ≤ oj
    omega
  | .cons _ _ _ t r, cur, i + 1, j + 1, f, oi, oj, hij, hf, hi, hj => by
    simp [Fields.toList] at hf
    simp [Fields.offsetsFrom] at hi hj
    exact r.field_order (alignUp cur t.align + t.size) i j f oi oj (by omega) hf hi hj
  | .cons _ _ _ _ _, _, _, 0, _, _, _, h, _, _, _ => by omega

theorem GoType.endOff_le_size (fs : Fields) : fs.endOff 0 ≤ (GoType.struct fs).size := by
  simp only [GoType.size]
  by_cases hc : (fs.endOff 0 > 0 && fs.lastZero) = true
  · rw [if_pos hc]
    have := le_alignUp (fs.endOff 0 + 1) fs.maxAlign fs.maxAlign_pos
    omega
  · rw [if_neg hc]
    exact le_alignUp (fs.endOff 0) fs.maxAlign fs.maxAlign_pos

theorem GoType.fields?_size : (t : GoType) → (fs : Fields) → t.fields? = some fs → t.size = (GoType.struct fs).size
  | .struct fs', fs, h => by simp [GoType.fields?] at h; subst h; rfl
  | .named _ u, fs, h => by
    simp [GoType.fields?] at h
    have := u.fields?_size fs h
    simpa [GoType.size] using this
  | .prim _, _, h | .slice _, _, h | .ptr _, _, h | .map _ _, _, h | .chan _, _, h | .func _, _, h | .array _ _, _, h => by
    simp [GoType.fields?] at h

theorem GoType.fields?_of_ptr : (t : GoType) → t.kind = .ptr → t.fields? = none
  | .named _ u, h => by simpa [GoType.fields?] using u.fields?_of_ptr (by simpa [GoType.kind] using h)
  | .struct _, h => by simp [GoType.kind] at h
  | .prim _, _ | .slice _, _ | .ptr _, _ | .map _ _, _ | .chan _, _ | .func _, _ | .array _ _, _ => by
    simp [GoType.fields?]

theorem pathLookup_nil (t : GoType) : pathLookup t [] = some (0, t) := by simp [pathLookup]

/-- One step of a selector path, as a relation. -/
theorem pathLookup_cons_some {t : GoType} {i : Nat} {π : List Nat} {o : Nat} {t' : GoType} :
    pathLookup t (i :: π) = some (o, t') ↔
    ∃ fs f o1 o2, t.fields? = some fs ∧ fs.toList[i]? = some f ∧ fs.offsets[i]? = some o1 ∧
      pathLookup f.type π = some (o2, t') ∧ o = o1 + o2 := by
  rw [pathLookup]
  constructor
  · intro h
    split at h
    · simp at h
    · rename_i fs hfs
      split at h
      · rename_i f o1 hf ho
        split at h
        · rename_i o2 t2 hrec
          simp at h
          obtain ⟨rfl, rfl⟩ := h
          exact ⟨fs, f, o1, o2, hfs, hf, ho, hrec, rfl⟩
        · simp at h
      · simp at h
  · rintro ⟨fs, f, o1, o2, hfs, hf, ho, hrec, rfl⟩
    simp [hfs, hf, ho, hrec]

/-- A selector path stays inside the type it starts from. -/
theorem pathLookup_bound : (π : List Nat) → (t : GoType) → (o : Nat) → (t' : GoType) →
    pathLookup t π = some (o, t') → o + t'.size ≤ t.size
  | [], t, o, t', h => by simp [pathLookup] at h; obtain ⟨rfl, rfl⟩ := h; omega
  | i :: π, t, o, t', h => by
    obtain ⟨fs, f, o1, o2, hfs, hf, ho, hrec, rfl⟩ := pathLookup_cons_some.mp h
    have h1 := pathLookup_bound π f.type o2 t' hrec
    have h2 := fs.field_in_endOff 0 i f o1 hf ho
    have h3 := GoType.endOff_le_size fs
    have h4 := t.fields?_size fs hfs
    omega

theorem pathLookup_append : (π ρ : List Nat) → (t : GoType) → (o : Nat) → (t' : GoType) →
    (o' : Nat) → (t'' : GoType) →
    pathLookup t π = some (o, t') → pathLookup t' ρ = some (o', t'') →
    pathLookup t (π ++ ρ) = some (o + o', t'')
  | [], ρ, t, o, t', o', t'', h, h' => by
    simp [pathLookup] at h; obtain ⟨rfl, rfl⟩ := h
    simpa using h'
  | i :: π, ρ, t, o, t', o', t'', h, h' => by
    obtain ⟨fs, f, o1, o2, hfs, hf, ho, hrec, rfl⟩ := pathLookup_cons_some.mp h
    have := pathLookup_append π ρ f.type o2 t' o' t'' hrec h'
    exact pathLookup_cons_some.mpr ⟨fs, f, o1, o2 + o', hfs, hf, ho, this, by omega⟩

end Golem.Model
