/-
Invariants of the source network (`Golem.Go.Sources`): proved for both sources at once, for every
capacity, every error mode, every user function and every schedule (`Reachable`, LAX time — so also
for `EagerReachable` and `KeepUpReachable`, which are sub-relations).

* `Inv` — channel discipline: FIFO with history variables, closes only on the exit path in the order
  exx, out, each once; no send on a closed channel; hence `no panic`; fail-fast hands over at most
  one error, so its plain send on the capacity-1 channel never blocks.
* `variant` / `proc_decreases` — every process move strictly decreases a measure: between two
  environment moves the process makes finitely many moves.
* `stuck_cases` — classification of the states at rest; with `cancelled` only `exited` or a pending
  `time.Sleep` remain.
Core Lean only.
-/
import Golem.Go.Sources
namespace Golem.Go.Sources
open Golem.Go Golem.Model

variable {β ε : Type}

/-- the goroutine is still inside its loop -/
def Pc.inLoop : Pc β ε → Bool
  | .closeExx | .closeOut | .exited => false
  | _ => true

structure Inv (P : Fn β ε) (p : Src β ε) : Prop where
  fifoOut : p.delivered.map (·.1) ++ p.out.buf = p.emitted.map (·.1)
  fifoExx : p.errsDelivered.map (·.1) ++ p.exx.buf = p.errsEmitted.map (·.1)
  outClosed : p.out.closed = true → p.pc = .exited
  exxClosed : p.exx.closed = true → p.pc = .closeOut ∨ p.pc = .exited
  exitedClosed : p.pc = .exited → p.out.closed = true ∧ p.exx.closed = true
  closeOutClosed : p.pc = .closeOut → p.exx.closed = true
  noPanic : p.panicked = false
  liftCap : P.mode = .lift → p.exx.cap = 1
  liftErrs : P.mode = .lift → p.pc.inLoop = true → p.errsEmitted = []

theorem inv_initEmit (P : Fn β ε) (cap : Nat) : Inv P (initEmit P.mode cap) := by
  constructor <;> simp [initEmit, exxCap, Pc.inLoop]
  intro h; simp [h]

theorem inv_initUnfold (P : Fn β ε) (cap : Nat) (seed : β) : Inv P (initUnfold P.mode cap seed) := by
  constructor <;> simp [initUnfold, exxCap, Pc.inLoop]
  intro h; simp [h]

/-- under fail-fast the error channel is empty while the goroutine is in its loop -/
theorem Inv.lift_exx_empty {P : Fn β ε} {p : Src β ε} (h : Inv P p) (hm : P.mode = .lift)
    (hl : p.pc.inLoop = true) : p.exx.buf = [] := by
  have h1 := h.liftErrs hm hl
  have h2 := h.fifoExx
  rw [h1] at h2
  simp at h2
  exact h2.2

theorem mem_sendOut {p q : Src β ε} {v : β} {next : Pc β ε} {bump : Nat} (h : q ∈ sendOut p v next bump) :
    (p.out.closed = true ∧ q = { p with panicked := true }) ∨
    (p.out.closed = false ∧ p.out.buf.length < p.out.cap ∧
      q = { p with out := { p.out with buf := p.out.buf ++ [v] }, emitted := p.emitted ++ [(v, p.now)],
                   pc := next, iters := p.iters + bump }) := by
  unfold sendOut at h
  split at h
  · left; simp_all
  · split at h
    · right; simp_all
    · simp at h

theorem mem_sendExx {p q : Src β ε} {e : ε} {next : Pc β ε} (h : q ∈ sendExx p e next) :
    (p.exx.closed = true ∧ q = { p with panicked := true }) ∨
    (p.exx.closed = false ∧ p.exx.buf.length < p.exx.cap ∧
      q = { p with exx := { p.exx with buf := p.exx.buf ++ [e] }, errsEmitted := p.errsEmitted ++ [(e, p.now)],
                   pc := next, iters := p.iters + 1 }) := by
  unfold sendExx at h
  split at h
  · left; simp_all
  · split at h
    · right; simp_all
    · simp at h

theorem mem_doneArm {p q : Src β ε} (h : q ∈ doneArm p) : p.cancelled = true ∧ q = { p with pc := .closeExx } := by
  unfold doneArm at h
  split at h <;> simp_all

theorem fifo_push {α : Type} {a b e : List α} (v : α) (h : a ++ b = e) : a ++ (b ++ [v]) = e ++ [v] := by
  rw [← List.append_assoc, h]

/-- closes the fields of `Inv` for an updated state -/
macro "src_inv" : tactic =>
  `(tactic| (constructor <;> first
      | (simp_all [Pc.inLoop]; done)
      | (simp only []; apply fifo_push; assumption)
      | (simp [← List.append_assoc, *]; done)))

theorem inv_proc {P : Fn β ε} {p q : Src β ε} (h : Inv P p) (hq : q ∈ procNext P p) : Inv P q := by
  have hlb := fun hm hl => h.lift_exx_empty (P := P) hm hl
  obtain ⟨h1, h2, h3, h4, h5, h6, h7, h8, h9⟩ := h
  unfold procNext at hq
  split at hq
  next i hpc =>
    simp at hq; subst hq
    src_inv
  next i w hpc =>
    split at hq
    · simp at hq; subst hq
      src_inv
    · simp at hq
  next i hpc =>
    split at hq <;> (simp at hq; subst hq; src_inv)
  next i v hpc =>
    rcases List.mem_append.1 hq with hq | hq
    · rcases mem_sendOut hq with ⟨hc, _⟩ | ⟨hc, hlt, rfl⟩
      · have := h3 hc; simp_all
      · src_inv
    · obtain ⟨hc, rfl⟩ := mem_doneArm hq
      src_inv
  next i e hpc =>
    split at hq
    next hm =>
      rcases mem_sendExx hq with ⟨hc, _⟩ | ⟨hc, hlt, rfl⟩
      · have := h4 hc; simp_all
      · src_inv
    next hm =>
      rcases List.mem_append.1 hq with hq | hq
      · rcases mem_sendExx hq with ⟨hc, _⟩ | ⟨hc, hlt, rfl⟩
        · have := h4 hc; simp_all
        · src_inv
      · obtain ⟨hc, rfl⟩ := mem_doneArm hq
        src_inv
  next s hpc =>
    rcases List.mem_append.1 hq with hq | hq
    · rcases mem_sendOut hq with ⟨hc, _⟩ | ⟨hc, hlt, rfl⟩
      · have := h3 hc; simp_all
      · src_inv
    · obtain ⟨hc, rfl⟩ := mem_doneArm hq
      src_inv
  next s hpc =>
    split at hq <;> (simp at hq; subst hq; src_inv)
  next s e hpc =>
    split at hq
    next hm =>
      rcases mem_sendExx hq with ⟨hc, _⟩ | ⟨hc, hlt, rfl⟩
      · have := h4 hc; simp_all
      · src_inv
    next hm =>
      rcases List.mem_append.1 hq with hq | hq
      · rcases mem_sendExx hq with ⟨hc, _⟩ | ⟨hc, hlt, rfl⟩
        · have := h4 hc; simp_all
        · src_inv
      · obtain ⟨hc, rfl⟩ := mem_doneArm hq
        src_inv
  next hpc =>
    split at hq
    next hc => have := h4 hc; simp_all
    next hc => simp at hq; subst hq; src_inv
  next hpc =>
    split at hq
    next hc => have := h3 hc; simp_all
    next hc => simp at hq; subst hq; src_inv
  next hpc => simp at hq


theorem handOut_some {p q : Src β ε} {v : β} (h : handOut p = some (q, v)) :
    p.out.closed = false ∧ p.out.buf = [] ∧
    ((∃ i, p.pc = .eOffer i v ∧
        q = { p with pc := .eLoop (i + 1), iters := p.iters + 1, emitted := p.emitted ++ [(v, p.now)],
                     delivered := p.delivered ++ [(v, p.now)] }) ∨
     (p.pc = .uOffer v ∧
        q = { p with pc := .uApply v, emitted := p.emitted ++ [(v, p.now)],
                     delivered := p.delivered ++ [(v, p.now)] })) := by
  unfold handOut at h
  split at h
  · simp at h
  next hc =>
    have hc' : p.out.closed = false ∧ p.out.buf = [] := by
      cases hcl : p.out.closed <;> simp_all
    refine ⟨hc'.1, hc'.2, ?_⟩
    split at h
    next i w hpc =>
      simp at h
      obtain ⟨h1, h2⟩ := h
      subst h2
      left; exact ⟨i, hpc, h1.symm⟩
    next s hpc =>
      simp at h
      obtain ⟨h1, h2⟩ := h
      subst h2
      right; exact ⟨hpc, h1.symm⟩
    · simp at h

theorem handExx_some {P : Fn β ε} {p q : Src β ε} {e : ε} (h : handExx P p = some (q, e)) :
    p.exx.closed = false ∧ p.exx.buf = [] ∧ (∃ pc, ((∃ i, pc = .eCatch i e) ∨ (∃ s, pc = .uCatch s e)) ∧ p.pc = pc ∧
      q = { p with pc := afterCatch P pc, iters := p.iters + 1, errsEmitted := p.errsEmitted ++ [(e, p.now)],
                   errsDelivered := p.errsDelivered ++ [(e, p.now)] }) := by
  unfold handExx at h
  split at h
  · simp at h
  next hc =>
    have hc' : p.exx.closed = false ∧ p.exx.buf = [] := by
      cases hcl : p.exx.closed <;> simp_all
    refine ⟨hc'.1, hc'.2, ?_⟩
    split at h
    next i e' hpc =>
      simp at h
      obtain ⟨h1, h2⟩ := h
      subst h2
      exact ⟨_, Or.inl ⟨i, rfl⟩, hpc, h1.symm⟩
    next s e' hpc =>
      simp at h
      obtain ⟨h1, h2⟩ := h
      subst h2
      exact ⟨_, Or.inr ⟨s, rfl⟩, hpc, h1.symm⟩
    · simp at h

theorem afterCatch_lift {P : Fn β ε} (hm : P.mode = .lift) (pc : Pc β ε) {e : ε}
    (h : (∃ i, pc = .eCatch i e) ∨ (∃ s, pc = .uCatch s e)) : afterCatch P pc = .closeExx := by
  rcases h with ⟨i, rfl⟩ | ⟨s, rfl⟩ <;> simp [afterCatch, hm]

theorem afterCatch_try {P : Fn β ε} (hm : P.mode = .try_) (pc : Pc β ε) {e : ε}
    (h : (∃ i, pc = .eCatch i e) ∨ (∃ s, pc = .uCatch s e)) :
    (∃ i, pc = .eCatch i e ∧ afterCatch P pc = .eLoop (i + 1)) ∨ (∃ s, pc = .uCatch s e ∧ afterCatch P pc = .uOffer s) := by
  rcases h with ⟨i, rfl⟩ | ⟨s, rfl⟩ <;> simp [afterCatch, hm]

theorem inv_env {P : Fn β ε} {p q : Src β ε} {m : Move} {o : Obs β ε} (h : Inv P p) (hq : (q, o) ∈ envNext P p m) :
    Inv P q := by
  have hlb := fun hm hl => h.lift_exx_empty (P := P) hm hl
  obtain ⟨h1, h2, h3, h4, h5, h6, h7, h8, h9⟩ := h
  unfold envNext at hq
  split at hq
  · -- recv 0
    split at hq
    next v rest hb =>
      simp at hq; obtain ⟨rfl, -⟩ := hq
      constructor <;> first
        | (simp_all [Pc.inLoop]; done)
        | (simp only [List.map_append, List.map_cons, List.map_nil]; rw [← h1, hb]; simp)
    next hb =>
      split at hq
      next q' v hh =>
        simp at hq; obtain ⟨rfl, -⟩ := hq
        obtain ⟨hc, hbuf, ⟨i, hpc, rfl⟩ | ⟨hpc, rfl⟩⟩ := handOut_some hh
        · constructor <;> first
            | (simp_all [Pc.inLoop]; done)
            | (simp only [List.map_append, List.map_cons, List.map_nil]; rw [← h1, hbuf]; simp)
        · constructor <;> first
            | (simp_all [Pc.inLoop]; done)
            | (simp only [List.map_append, List.map_cons, List.map_nil]; rw [← h1, hbuf]; simp)
      next hh =>
        simp at hq; obtain ⟨rfl, -⟩ := hq
        exact ⟨h1, h2, h3, h4, h5, h6, h7, h8, h9⟩
  · -- recv 1
    split at hq
    next e rest hb =>
      simp at hq; obtain ⟨rfl, -⟩ := hq
      constructor <;> first
        | (simp_all [Pc.inLoop]; done)
        | (simp only [List.map_append, List.map_cons, List.map_nil]; rw [← h2, hb]; simp)
    next hb =>
      split at hq
      next q' e hh =>
        simp at hq; obtain ⟨rfl, -⟩ := hq
        obtain ⟨hc, hbuf, pc, hshape, hpc, rfl⟩ := handExx_some hh
        cases hm : P.mode
        · have hac := afterCatch_lift hm pc hshape
          have hl : p.pc.inLoop = true := by
            rcases hshape with ⟨i, rfl⟩ | ⟨s, rfl⟩ <;> simp [hpc, Pc.inLoop]
          constructor <;> first
            | (simp_all [Pc.inLoop]; done)
            | (simp only [List.map_append, List.map_cons, List.map_nil]; rw [← h2, hbuf]; simp)
        · rcases afterCatch_try hm pc hshape with ⟨i, rfl, hac⟩ | ⟨s, rfl, hac⟩
          · constructor <;> first
              | (simp_all [Pc.inLoop]; done)
              | (simp only [List.map_append, List.map_cons, List.map_nil]; rw [← h2, hbuf]; simp)
          · constructor <;> first
              | (simp_all [Pc.inLoop]; done)
              | (simp only [List.map_append, List.map_cons, List.map_nil]; rw [← h2, hbuf]; simp)
      next hh =>
        simp at hq; obtain ⟨rfl, -⟩ := hq
        exact ⟨h1, h2, h3, h4, h5, h6, h7, h8, h9⟩
  · simp at hq; obtain ⟨rfl, -⟩ := hq
    exact ⟨h1, h2, h3, h4, h5, h6, h7, h8, h9⟩
  · simp at hq; obtain ⟨rfl, -⟩ := hq
    exact ⟨h1, h2, h3, h4, h5, h6, h7, h8, h9⟩
  · simp at hq; obtain ⟨rfl, -⟩ := hq
    exact ⟨h1, h2, h3, h4, h5, h6, h7, h8, h9⟩

theorem inv_step {P : Fn β ε} {p q : Src β ε} (h : Inv P p) (hs : Step P p q) : Inv P q := by
  rcases hs with hq | ⟨m, o, hq⟩
  · exact inv_proc h hq
  · exact inv_env h hq

theorem inv_reachable {P : Fn β ε} {p0 p : Src β ε} (h0 : Inv P p0) (hr : Reachable P p0 p) : Inv P p := by
  induction hr with
  | init => exact h0
  | step _ hs ih => exact inv_step ih hs

/-- no library goroutine ever panics (send on a closed channel, close of a closed channel) -/
theorem no_panic {P : Fn β ε} {p0 p : Src β ε} (h0 : Inv P p0) (hr : Reachable P p0 p) : p.panicked = false :=
  (inv_reachable h0 hr).noPanic


/-! ### termination of the process between environment moves -/

def Pc.rank : Pc β ε → Nat
  | .exited => 0
  | .closeOut => 1
  | .closeExx => 2
  | .eOffer _ _ => 3
  | .eCatch _ _ => 3
  | .eApply _ => 4
  | .eSleep _ _ => 5
  | .eLoop _ => 6
  | .uCatch _ _ => 3
  | .uOffer _ => 4
  | .uApply _ => 5

/-- free buffer slots of both channels -/
def free (p : Src β ε) : Nat := (p.out.cap - p.out.buf.length) + (p.exx.cap - p.exx.buf.length)

/-- every loop iteration that does not block consumes a free buffer slot -/
def variant (p : Src β ε) : Nat := 8 * free p + p.pc.rank

theorem proc_decreases {P : Fn β ε} {p q : Src β ε} (h : Inv P p) (hq : q ∈ procNext P p) : variant q < variant p := by
  obtain ⟨h1, h2, h3, h4, h5, h6, h7, h8, h9⟩ := h
  unfold procNext at hq
  split at hq
  next i hpc =>
    simp at hq; subst hq
    simp [variant, free, Pc.rank, hpc]
  next i w hpc =>
    split at hq
    · simp at hq; subst hq
      simp [variant, free, Pc.rank, hpc]
    · simp at hq
  next i hpc =>
    split at hq <;> (simp at hq; subst hq; simp [variant, free, Pc.rank, hpc])
  next i v hpc =>
    rcases List.mem_append.1 hq with hq | hq
    · rcases mem_sendOut hq with ⟨hc, _⟩ | ⟨hc, hlt, rfl⟩
      · have := h3 hc; simp_all
      · simp [variant, free, Pc.rank, hpc]; omega
    · obtain ⟨hc, rfl⟩ := mem_doneArm hq
      simp [variant, free, Pc.rank, hpc]
  next i e hpc =>
    split at hq
    next hm =>
      rcases mem_sendExx hq with ⟨hc, _⟩ | ⟨hc, hlt, rfl⟩
      · have := h4 hc; simp_all
      · simp [variant, free, Pc.rank, hpc]; omega
    next hm =>
      rcases List.mem_append.1 hq with hq | hq
      · rcases mem_sendExx hq with ⟨hc, _⟩ | ⟨hc, hlt, rfl⟩
        · have := h4 hc; simp_all
        · simp [variant, free, Pc.rank, hpc]; omega
      · obtain ⟨hc, rfl⟩ := mem_doneArm hq
        simp [variant, free, Pc.rank, hpc]
  next s hpc =>
    rcases List.mem_append.1 hq with hq | hq
    · rcases mem_sendOut hq with ⟨hc, _⟩ | ⟨hc, hlt, rfl⟩
      · have := h3 hc; simp_all
      · simp [variant, free, Pc.rank, hpc]; omega
    · obtain ⟨hc, rfl⟩ := mem_doneArm hq
      simp [variant, free, Pc.rank, hpc]
  next s hpc =>
    split at hq <;> (simp at hq; subst hq; simp [variant, free, Pc.rank, hpc])
  next s e hpc =>
    split at hq
    next hm =>
      rcases mem_sendExx hq with ⟨hc, _⟩ | ⟨hc, hlt, rfl⟩
      · have := h4 hc; simp_all
      · simp [variant, free, Pc.rank, hpc]; omega
    next hm =>
      rcases List.mem_append.1 hq with hq | hq
      · rcases mem_sendExx hq with ⟨hc, _⟩ | ⟨hc, hlt, rfl⟩
        · have := h4 hc; simp_all
        · simp [variant, free, Pc.rank, hpc]; omega
      · obtain ⟨hc, rfl⟩ := mem_doneArm hq
        simp [variant, free, Pc.rank, hpc]
  next hpc =>
    split at hq
    next hc => have := h4 hc; simp_all
    next hc => simp at hq; subst hq; simp [variant, free, Pc.rank, hpc]
  next hpc =>
    split at hq
    next hc => have := h3 hc; simp_all
    next hc => simp at hq; subst hq; simp [variant, free, Pc.rank, hpc]
  next hpc => simp at hq

/-- time passing and cancellation do not change the measure -/
theorem variant_tick_cancel {P : Fn β ε} {p q : Src β ε} {o : Obs β ε} {m : Move}
    (hm : m = .cancel ∨ ∃ d, m = .tick d) (hq : (q, o) ∈ envNext P p m) : variant q = variant p := by
  rcases hm with rfl | ⟨d, rfl⟩ <;> (simp [envNext] at hq; obtain ⟨rfl, -⟩ := hq; rfl)

/-- a run without receives: process moves (counted), cancel, time passing -/
inductive QuietRun (P : Fn β ε) : Src β ε → Nat → Src β ε → Prop
  | nil (p) : QuietRun P p 0 p
  | proc {p q r n} : QuietRun P p n q → r ∈ procNext P q → QuietRun P p (n + 1) r
  | cancel {p q r n o} : QuietRun P p n q → (r, o) ∈ envNext P q .cancel → QuietRun P p n r
  | tick {p q r n o d} : QuietRun P p n q → (r, o) ∈ envNext P q (.tick d) → QuietRun P p n r

theorem quietRun_inv {P : Fn β ε} {p q : Src β ε} {n : Nat} (h : Inv P p) (hr : QuietRun P p n q) : Inv P q := by
  induction hr with
  | nil => exact h
  | proc _ hs ih => exact inv_proc ih hs
  | cancel _ hs ih => exact inv_env ih hs
  | tick _ hs ih => exact inv_env ih hs

/-- as long as nobody receives, the process makes at most `variant p` moves, however long one waits -/
theorem quietRun_bounded {P : Fn β ε} {p q : Src β ε} {n : Nat} (h : Inv P p) (hr : QuietRun P p n q) :
    n + variant q ≤ variant p := by
  induction hr with
  | nil => omega
  | proc hr' hs ih => have := proc_decreases (quietRun_inv h hr') hs; omega
  | cancel hr' hs ih => have := variant_tick_cancel (Or.inl rfl) hs; omega
  | tick hr' hs ih => have := variant_tick_cancel (Or.inr ⟨_, rfl⟩) hs; omega

/-! ### calls of Emit's function while nobody receives -/

/-- the goroutine is before its next `f.Apply(i)` -/
def Pc.preCall : Pc β ε → Nat
  | .eLoop _ => 1
  | .eSleep _ _ => 1
  | .eApply _ => 1
  | _ => 0

/-- calls made + calls that can still be made without a receive: one per free buffer slot, plus the pending one -/
def callPot (p : Src β ε) : Nat := p.callsE.length + free p + p.pc.preCall

theorem proc_callPot {P : Fn β ε} {p q : Src β ε} (h : Inv P p) (hq : q ∈ procNext P p) : callPot q ≤ callPot p := by
  obtain ⟨h1, h2, h3, h4, h5, h6, h7, h8, h9⟩ := h
  unfold procNext at hq
  split at hq
  next i hpc =>
    simp at hq; subst hq
    simp [callPot, free, Pc.preCall, hpc]
  next i w hpc =>
    split at hq
    · simp at hq; subst hq
      simp [callPot, free, Pc.preCall, hpc]
    · simp at hq
  next i hpc =>
    split at hq <;> (simp at hq; subst hq; simp [callPot, free, Pc.preCall, hpc]; omega)
  next i v hpc =>
    rcases List.mem_append.1 hq with hq | hq
    · rcases mem_sendOut hq with ⟨hc, _⟩ | ⟨hc, hlt, rfl⟩
      · have := h3 hc; simp_all
      · simp [callPot, free, Pc.preCall, hpc]; omega
    · obtain ⟨hc, rfl⟩ := mem_doneArm hq
      simp [callPot, free, Pc.preCall, hpc]
  next i e hpc =>
    split at hq
    next hm =>
      rcases mem_sendExx hq with ⟨hc, _⟩ | ⟨hc, hlt, rfl⟩
      · have := h4 hc; simp_all
      · simp [callPot, free, Pc.preCall, hpc]; omega
    next hm =>
      rcases List.mem_append.1 hq with hq | hq
      · rcases mem_sendExx hq with ⟨hc, _⟩ | ⟨hc, hlt, rfl⟩
        · have := h4 hc; simp_all
        · simp [callPot, free, Pc.preCall, hpc]; omega
      · obtain ⟨hc, rfl⟩ := mem_doneArm hq
        simp [callPot, free, Pc.preCall, hpc]
  next s hpc =>
    rcases List.mem_append.1 hq with hq | hq
    · rcases mem_sendOut hq with ⟨hc, _⟩ | ⟨hc, hlt, rfl⟩
      · have := h3 hc; simp_all
      · simp [callPot, free, Pc.preCall, hpc]; omega
    · obtain ⟨hc, rfl⟩ := mem_doneArm hq
      simp [callPot, free, Pc.preCall, hpc]
  next s hpc =>
    split at hq <;> (simp at hq; subst hq; simp [callPot, free, Pc.preCall, hpc])
  next s e hpc =>
    split at hq
    next hm =>
      rcases mem_sendExx hq with ⟨hc, _⟩ | ⟨hc, hlt, rfl⟩
      · have := h4 hc; simp_all
      · simp [callPot, free, Pc.preCall, hpc]; omega
    next hm =>
      rcases List.mem_append.1 hq with hq | hq
      · rcases mem_sendExx hq with ⟨hc, _⟩ | ⟨hc, hlt, rfl⟩
        · have := h4 hc; simp_all
        · simp [callPot, free, Pc.preCall, hpc]; omega
      · obtain ⟨hc, rfl⟩ := mem_doneArm hq
        simp [callPot, free, Pc.preCall, hpc]
  next hpc =>
    split at hq
    next hc => have := h4 hc; simp_all
    next hc => simp at hq; subst hq; simp [callPot, free, Pc.preCall, hpc]
  next hpc =>
    split at hq
    next hc => have := h3 hc; simp_all
    next hc => simp at hq; subst hq; simp [callPot, free, Pc.preCall, hpc]
  next hpc => simp at hq

/-- as long as nobody receives, the function is called at most once per free buffer slot plus once
more — with both buffers full: at most one more call, whatever time passes -/
theorem quietRun_calls {P : Fn β ε} {p q : Src β ε} {n : Nat} (h : Inv P p) (hr : QuietRun P p n q) :
    q.callsE.length ≤ p.callsE.length + free p + 1 := by
  have key : callPot q ≤ callPot p := by
    induction hr with
    | nil => exact Nat.le_refl _
    | proc hr' hs ih => exact Nat.le_trans (proc_callPot (quietRun_inv h hr') hs) ih
    | cancel hr' hs ih => simp [envNext] at hs; rw [hs.1]; exact ih
    | tick hr' hs ih => simp [envNext] at hs; rw [hs.1]; exact ih
  have hp : p.pc.preCall ≤ 1 := by cases p.pc <;> simp [Pc.preCall]
  simp only [callPot] at key
  omega

/-! ### states at rest -/

/-- classification of the states in which the process cannot move -/
theorem stuck_cases {P : Fn β ε} {p : Src β ε} (h : Inv P p) (hs : procNext P p = []) :
    p.pc = .exited ∨ (∃ i w, p.pc = .eSleep i w ∧ p.now < w) ∨
    (p.cancelled = false ∧
      (((∃ i v, p.pc = .eOffer i v) ∨ (∃ s, p.pc = .uOffer s)) ∧ p.out.cap ≤ p.out.buf.length ∨
       ((∃ i e, p.pc = .eCatch i e) ∨ (∃ s e, p.pc = .uCatch s e)) ∧ P.mode = .try_ ∧ p.exx.cap ≤ p.exx.buf.length)) := by
  have hlb := fun hm hl => h.lift_exx_empty (P := P) hm hl
  obtain ⟨h1, h2, h3, h4, h5, h6, h7, h8, h9⟩ := h
  unfold procNext at hs
  split at hs
  next i hpc => simp at hs
  next i w hpc =>
    split at hs
    · simp at hs
    · right; left; exact ⟨i, w, hpc, by omega⟩
  next i hpc => split at hs <;> simp at hs
  next i v hpc =>
    simp [sendOut, doneArm] at hs
    have hc : p.out.closed = false := by cases hcl : p.out.closed <;> simp_all
    simp [hc] at hs
    right; right
    refine ⟨?_, Or.inl ⟨Or.inl ⟨i, v, hpc⟩, hs.1⟩⟩
    cases hcc : p.cancelled <;> simp_all
  next i e hpc =>
    have hc : p.exx.closed = false := by cases hcl : p.exx.closed <;> simp_all
    split at hs
    next hm =>
      have := hlb hm (by simp [hpc, Pc.inLoop])
      simp [sendExx, hc, this, h8 hm] at hs
    next hm =>
      simp [sendExx, doneArm, hc] at hs
      right; right
      refine ⟨?_, Or.inr ⟨Or.inl ⟨i, e, hpc⟩, hm, hs.1⟩⟩
      cases hcc : p.cancelled <;> simp_all
  next s hpc =>
    simp [sendOut, doneArm] at hs
    have hc : p.out.closed = false := by cases hcl : p.out.closed <;> simp_all
    simp [hc] at hs
    right; right
    refine ⟨?_, Or.inl ⟨Or.inr ⟨s, hpc⟩, hs.1⟩⟩
    cases hcc : p.cancelled <;> simp_all
  next s hpc => split at hs <;> simp at hs
  next s e hpc =>
    have hc : p.exx.closed = false := by cases hcl : p.exx.closed <;> simp_all
    split at hs
    next hm =>
      have := hlb hm (by simp [hpc, Pc.inLoop])
      simp [sendExx, hc, this, h8 hm] at hs
    next hm =>
      simp [sendExx, doneArm, hc] at hs
      right; right
      refine ⟨?_, Or.inr ⟨Or.inr ⟨s, e, hpc⟩, hm, hs.1⟩⟩
      cases hcc : p.cancelled <;> simp_all
  next hpc => split at hs <;> simp at hs
  next hpc => split at hs <;> simp at hs
  next hpc => left; exact hpc

/-- after cancel: a state at rest is either a pending (non-cancellable) `time.Sleep`, or the
goroutine has returned and both channels are closed -/
theorem cancelled_rest {P : Fn β ε} {p : Src β ε} (h : Inv P p) (hc : p.cancelled = true) (hs : procNext P p = []) :
    (p.pc = .exited ∧ p.out.closed = true ∧ p.exx.closed = true) ∨ (∃ i w, p.pc = .eSleep i w ∧ p.now < w) := by
  rcases stuck_cases h hs with he | hsl | ⟨hn, _⟩
  · exact Or.inl ⟨he, h.exitedClosed he⟩
  · exact Or.inr hsl
  · simp [hc] at hn

/-- `cancel_responsive`: once cancelled, every `select` the goroutine stands at has its Done arm enabled -/
theorem cancel_responsive {P : Fn β ε} {p : Src β ε} (hc : p.cancelled = true)
    (hsel : (∃ i v, p.pc = .eOffer i v) ∨ (∃ s, p.pc = .uOffer s) ∨
            (P.mode = .try_ ∧ ((∃ i e, p.pc = .eCatch i e) ∨ (∃ s e, p.pc = .uCatch s e)))) :
    { p with pc := .closeExx } ∈ procNext P p := by
  rcases hsel with ⟨i, v, hpc⟩ | ⟨s, hpc⟩ | ⟨hm, ⟨i, e, hpc⟩ | ⟨s, e, hpc⟩⟩
  · simp [procNext, hpc, doneArm, hc]
  · simp [procNext, hpc, doneArm, hc]
  · simp [procNext, hpc, doneArm, hc, hm]
  · simp [procNext, hpc, doneArm, hc, hm]


/-! ### the steps of an invariant state, one constructor per atomic transition

`step_trans` turns every `Step` out of a state satisfying `Inv` (so: no panic successor) into one of
these (process moves and receives; they change neither the clock nor the context), a cancel, or a
tick; the history invariants of `Lemmas/SourcesSeq.lean` are then proved by `cases` on it. -/

/-- the goroutine stands at a `select` with a `ctx.Done()` arm -/
def isSelect (P : Fn β ε) : Pc β ε → Bool
  | .eOffer _ _ | .uOffer _ => true
  | .eCatch _ _ | .uCatch _ _ => P.mode == .try_
  | _ => false

inductive Trans (P : Fn β ε) (p : Src β ε) : Src β ε → Prop
  | loop (i : Nat) (h : p.pc = .eLoop i) : Trans P p { p with pc := .eSleep i (p.now + P.freq) }
  | wake (i w : Nat) (h : p.pc = .eSleep i w) (hw : w ≤ p.now) : Trans P p { p with pc := .eApply i }
  | callOk (i : Nat) (v : β) (h : p.pc = .eApply i) (hf : P.emitF i = .ok v) :
      Trans P p { p with pc := .eOffer i v, callsE := p.callsE ++ [(i, p.now)] }
  | callErr (i : Nat) (e : ε) (h : p.pc = .eApply i) (hf : P.emitF i = .error e) :
      Trans P p { p with pc := .eCatch i e, callsE := p.callsE ++ [(i, p.now)] }
  | eSend (i : Nat) (v : β) (h : p.pc = .eOffer i v) (hc : p.out.closed = false) (hlt : p.out.buf.length < p.out.cap) :
      Trans P p { p with out := { p.out with buf := p.out.buf ++ [v] }, emitted := p.emitted ++ [(v, p.now)],
                         pc := .eLoop (i + 1), iters := p.iters + 1 }
  | eHand (i : Nat) (v : β) (h : p.pc = .eOffer i v) (hc : p.out.closed = false) (hb : p.out.buf = []) :
      Trans P p { p with pc := .eLoop (i + 1), iters := p.iters + 1, emitted := p.emitted ++ [(v, p.now)],
                         delivered := p.delivered ++ [(v, p.now)] }
  | uSend (s : β) (h : p.pc = .uOffer s) (hc : p.out.closed = false) (hlt : p.out.buf.length < p.out.cap) :
      Trans P p { p with out := { p.out with buf := p.out.buf ++ [s] }, emitted := p.emitted ++ [(s, p.now)],
                         pc := .uApply s, iters := p.iters + 0 }
  | uHand (s : β) (h : p.pc = .uOffer s) (hc : p.out.closed = false) (hb : p.out.buf = []) :
      Trans P p { p with pc := .uApply s, emitted := p.emitted ++ [(s, p.now)],
                         delivered := p.delivered ++ [(s, p.now)] }
  | done (h : p.cancelled = true) (hsel : isSelect P p.pc = true) : Trans P p { p with pc := .closeExx }
  | eCatchSend (i : Nat) (e : ε) (h : p.pc = .eCatch i e) (hc : p.exx.closed = false) (hlt : p.exx.buf.length < p.exx.cap) :
      Trans P p { p with exx := { p.exx with buf := p.exx.buf ++ [e] }, errsEmitted := p.errsEmitted ++ [(e, p.now)],
                         pc := afterCatch P (.eCatch i e), iters := p.iters + 1 }
  | eCatchHand (i : Nat) (e : ε) (h : p.pc = .eCatch i e) (hc : p.exx.closed = false) (hb : p.exx.buf = []) :
      Trans P p { p with pc := afterCatch P (.eCatch i e), iters := p.iters + 1, errsEmitted := p.errsEmitted ++ [(e, p.now)],
                         errsDelivered := p.errsDelivered ++ [(e, p.now)] }
  | uCatchSend (s : β) (e : ε) (h : p.pc = .uCatch s e) (hc : p.exx.closed = false) (hlt : p.exx.buf.length < p.exx.cap) :
      Trans P p { p with exx := { p.exx with buf := p.exx.buf ++ [e] }, errsEmitted := p.errsEmitted ++ [(e, p.now)],
                         pc := afterCatch P (.uCatch s e), iters := p.iters + 1 }
  | uCatchHand (s : β) (e : ε) (h : p.pc = .uCatch s e) (hc : p.exx.closed = false) (hb : p.exx.buf = []) :
      Trans P p { p with pc := afterCatch P (.uCatch s e), iters := p.iters + 1, errsEmitted := p.errsEmitted ++ [(e, p.now)],
                         errsDelivered := p.errsDelivered ++ [(e, p.now)] }
  | uCallOk (s : β) (h : p.pc = .uApply s) (hf : (P.unfoldF s).2 = none) :
      Trans P p { p with pc := .uOffer (P.unfoldF s).1, callsU := p.callsU ++ [(s, p.now)], iters := p.iters + 1 }
  | uCallErr (s : β) (e : ε) (h : p.pc = .uApply s) (hf : (P.unfoldF s).2 = some e) :
      Trans P p { p with pc := .uCatch (P.unfoldF s).1 e, callsU := p.callsU ++ [(s, p.now)] }
  | closeExx (h : p.pc = .closeExx) (hc : p.exx.closed = false) :
      Trans P p { p with exx := { p.exx with closed := true }, pc := .closeOut }
  | closeOut (h : p.pc = .closeOut) (hc : p.out.closed = false) :
      Trans P p { p with out := { p.out with closed := true }, pc := .exited }
  | recvOut (v : β) (rest : List β) (hb : p.out.buf = v :: rest) :
      Trans P p { p with out := { p.out with buf := rest }, delivered := p.delivered ++ [(v, p.now)] }
  | recvExx (e : ε) (rest : List ε) (hb : p.exx.buf = e :: rest) :
      Trans P p { p with exx := { p.exx with buf := rest }, errsDelivered := p.errsDelivered ++ [(e, p.now)] }
  | nop : Trans P p p

theorem proc_trans {P : Fn β ε} {p q : Src β ε} (h : Inv P p) (hq : q ∈ procNext P p) : Trans P p q := by
  obtain ⟨h1, h2, h3, h4, h5, h6, h7, h8, h9⟩ := h
  unfold procNext at hq
  split at hq
  next i hpc => simp at hq; subst hq; exact .loop i hpc
  next i w hpc =>
    split at hq
    next hw => simp at hq; subst hq; exact .wake i w hpc hw
    · simp at hq
  next i hpc =>
    split at hq
    next v hf => simp at hq; subst hq; exact .callOk i v hpc hf
    next e hf => simp at hq; subst hq; exact .callErr i e hpc hf
  next i v hpc =>
    rcases List.mem_append.1 hq with hq | hq
    · rcases mem_sendOut hq with ⟨hc, _⟩ | ⟨hc, hlt, rfl⟩
      · have := h3 hc; simp_all
      · exact .eSend i v hpc hc hlt
    · obtain ⟨hc, rfl⟩ := mem_doneArm hq
      exact .done hc (by simp [hpc, isSelect])
  next i e hpc =>
    split at hq
    next hm =>
      rcases mem_sendExx hq with ⟨hc, _⟩ | ⟨hc, hlt, rfl⟩
      · have := h4 hc; simp_all
      · have := Trans.eCatchSend (P := P) i e hpc hc hlt
        simpa [afterCatch, hm] using this
    next hm =>
      rcases List.mem_append.1 hq with hq | hq
      · rcases mem_sendExx hq with ⟨hc, _⟩ | ⟨hc, hlt, rfl⟩
        · have := h4 hc; simp_all
        · have := Trans.eCatchSend (P := P) i e hpc hc hlt
          simpa [afterCatch, hm] using this
      · obtain ⟨hc, rfl⟩ := mem_doneArm hq
        exact .done hc (by simp [hpc, isSelect, hm])
  next s hpc =>
    rcases List.mem_append.1 hq with hq | hq
    · rcases mem_sendOut hq with ⟨hc, _⟩ | ⟨hc, hlt, rfl⟩
      · have := h3 hc; simp_all
      · exact .uSend s hpc hc hlt
    · obtain ⟨hc, rfl⟩ := mem_doneArm hq
      exact .done hc (by simp [hpc, isSelect])
  next s hpc =>
    split at hq
    next hf => simp at hq; subst hq; exact .uCallOk s hpc hf
    next e hf => simp at hq; subst hq; exact .uCallErr s e hpc hf
  next s e hpc =>
    split at hq
    next hm =>
      rcases mem_sendExx hq with ⟨hc, _⟩ | ⟨hc, hlt, rfl⟩
      · have := h4 hc; simp_all
      · have := Trans.uCatchSend (P := P) s e hpc hc hlt
        simpa [afterCatch, hm] using this
    next hm =>
      rcases List.mem_append.1 hq with hq | hq
      · rcases mem_sendExx hq with ⟨hc, _⟩ | ⟨hc, hlt, rfl⟩
        · have := h4 hc; simp_all
        · have := Trans.uCatchSend (P := P) s e hpc hc hlt
          simpa [afterCatch, hm] using this
      · obtain ⟨hc, rfl⟩ := mem_doneArm hq
        exact .done hc (by simp [hpc, isSelect, hm])
  next hpc =>
    split at hq
    next hc => have := h4 hc; simp_all
    next hc => simp at hq; subst hq; exact .closeExx hpc (by simpa using hc)
  next hpc =>
    split at hq
    next hc => have := h3 hc; simp_all
    next hc => simp at hq; subst hq; exact .closeOut hpc (by simpa using hc)
  next hpc => simp at hq

theorem recv_trans {P : Fn β ε} {p q : Src β ε} {k : Nat} {o : Obs β ε} (hq : (q, o) ∈ envNext P p (.recv k)) : Trans P p q := by
  unfold envNext at hq
  split at hq
  · split at hq
    next v rest hb => simp at hq; obtain ⟨rfl, -⟩ := hq; exact .recvOut v rest hb
    next hb =>
      split at hq
      next q' v hh =>
        simp at hq; obtain ⟨rfl, -⟩ := hq
        obtain ⟨hc, hbuf, ⟨i, hpc, rfl⟩ | ⟨hpc, rfl⟩⟩ := handOut_some hh
        · exact .eHand i v hpc hc hbuf
        · exact .uHand v hpc hc hbuf
      next hh => simp at hq; obtain ⟨rfl, -⟩ := hq; exact .nop
  · split at hq
    next e rest hb => simp at hq; obtain ⟨rfl, -⟩ := hq; exact .recvExx e rest hb
    next hb =>
      split at hq
      next q' e hh =>
        simp at hq; obtain ⟨rfl, -⟩ := hq
        obtain ⟨hc, hbuf, pc, ⟨i, rfl⟩ | ⟨s, rfl⟩, hpc, rfl⟩ := handExx_some hh
        · exact .eCatchHand i e hpc hc hbuf
        · exact .uCatchHand s e hpc hc hbuf
      next hh => simp at hq; obtain ⟨rfl, -⟩ := hq; exact .nop
  · simp at hq; obtain ⟨rfl, -⟩ := hq; exact .nop
  next heq => cases heq
  next heq => cases heq

theorem env_trans {P : Fn β ε} {p q : Src β ε} {m : Move} {o : Obs β ε} (hq : (q, o) ∈ envNext P p m) :
    Trans P p q ∨ q = { p with cancelled := true } ∨ ∃ d, q = { p with now := p.now + d } := by
  cases m with
  | recv k => exact Or.inl (recv_trans hq)
  | cancel => simp [envNext] at hq; exact Or.inr (Or.inl hq.1)
  | tick d => simp [envNext] at hq; exact Or.inr (Or.inr ⟨d, hq.1⟩)

theorem step_trans {P : Fn β ε} {p q : Src β ε} (h : Inv P p) (hs : Step P p q) :
    Trans P p q ∨ q = { p with cancelled := true } ∨ ∃ d, q = { p with now := p.now + d } := by
  rcases hs with hq | ⟨m, o, hq⟩
  · exact Or.inl (proc_trans h hq)
  · exact env_trans hq

/-- process moves and receives change neither the clock nor the context -/
theorem Trans.frame {P : Fn β ε} {p q : Src β ε} (ht : Trans P p q) : q.now = p.now ∧ q.cancelled = p.cancelled := by
  cases ht <;> exact ⟨rfl, rfl⟩

/-- induction principle: a predicate established initially and preserved by every atomic
transition out of an `Inv`-state, by cancel and by the passing of time holds in every reachable state -/
theorem reachable_induct {P : Fn β ε} {p0 p : Src β ε} (J : Src β ε → Prop) (h0 : Inv P p0) (j0 : J p0)
    (hstep : ∀ p q, Inv P p → J p → Trans P p q → J q)
    (hcancel : ∀ p, J p → J { p with cancelled := true })
    (htick : ∀ p d, J p → J { p with now := p.now + d })
    (hr : Reachable P p0 p) : J p := by
  induction hr with
  | init => exact j0
  | step hr' hs ih =>
    rcases step_trans (inv_reachable h0 hr') hs with ht | rfl | ⟨d, rfl⟩
    · exact hstep _ _ (inv_reachable h0 hr') ih ht
    · exact hcancel _ ih
    · exact htick _ d ih

end Golem.Go.Sources
