/- Helper lemmas for C19 (core Lean only). -/
import Golem.Model.ISeq

namespace Golem.Lemmas.ISeq
open Golem.Model.ISeq

/-! ## The fold loop over any view that represents a list -/

/-- `R s l`: the view shows `s` as the list `l`. -/
structure Represents {F A : Type} (V : View F A) (R : F → List A → Prop) : Prop where
  nil : ∀ s, R s [] → V.isEmpty s = true
  cons : ∀ s a l, R s (a :: l) → V.isEmpty s = false ∧ V.head s = .ok a ∧ ∃ s', V.tail s = .ok s' ∧ R s' l

theorem foldLoop_represents {F A B : Type} {V : View F A} {R : F → List A → Prop}
    (hR : Represents V R) (step : B → A → B) :
    ∀ (l : List A) (s : F) (b : B) (fuel : Nat), R s l → l.length ≤ fuel →
      foldLoop V step fuel b s = .ok (l.foldl step b) := by
  intro l
  induction l with
  | nil =>
    intro s b fuel h _
    have := hR.nil s h
    cases fuel <;> simp [foldLoop, this]
  | cons a l ih =>
    intro s b fuel h hf
    obtain ⟨h1, h2, s', h3, h4⟩ := hR.cons s a l h
    cases fuel with
    | zero => simp at hf
    | succ n =>
      have hn : l.length ≤ n := by simpa using hf
      simp [foldLoop, h1, h2, h3, ih s' (step b a) n h4 hn]

theorem foldl_snoc {A : Type} (l acc : List A) :
    l.foldl (fun acc a => acc ++ [a]) acc = acc ++ l := by
  induction l generalizing acc with
  | nil => simp
  | cons a l ih => simp [ih]

/-! ## list implementation -/

/-- The cached length is the real number of cells. -/
def WFL {A : Type} (s : LSeq A) : Prop := s.len = ((L.elems s).length : Int)

def RL {A : Type} (s : LSeq A) (l : List A) : Prop := WFL s ∧ L.elems s = l

theorem newLoop_toList {A : Type} (r : List A) (t : Cells A) :
    (L.newLoop r t).toList = r.reverse ++ t.toList := by
  induction r generalizing t with
  | nil => simp [L.newLoop]
  | cons x r ih => simp [L.newLoop, ih, Cells.toList]

theorem new_elems {A : Type} (xs : List A) : L.elems (L.new xs) = xs := by
  simp [L.elems, L.new, newLoop_toList, Cells.toList]

theorem new_WFL {A : Type} (xs : List A) : WFL (L.new xs) := by
  simp [WFL, new_elems]; simp [L.new]

theorem cons_WFL {A : Type} (x : A) (s : LSeq A) (h : WFL s) : WFL (L.cons x s) := by
  simp [WFL, L.cons, L.elems, Cells.toList] at *; omega

theorem tail_WFL {A : Type} (s s' : LSeq A) (h : WFL s) (ht : L.tail s = .ok s') :
    WFL s' ∧ ∃ a, L.elems s = a :: L.elems s' := by
  unfold L.tail at ht
  cases hl : s.list with
  | nil => simp [hl] at ht
  | cell a t =>
    simp [hl] at ht
    subst ht
    simp [WFL, L.elems, hl, Cells.toList] at *
    omega

theorem representsL {A : Type} : Represents (L.view (A := A)) RL := by
  constructor
  · intro s h
    obtain ⟨h1, h2⟩ := h
    simp [L.view, L.isEmpty, WFL, h2] at *
    exact h1
  · intro s a l h
    obtain ⟨h1, h2⟩ := h
    cases hl : s.list with
    | nil => simp [L.elems, hl, Cells.toList] at h2
    | cell a' t =>
      simp [L.elems, hl, Cells.toList] at h2
      obtain ⟨rfl, rfl⟩ := h2
      refine ⟨?_, ?_, ⟨s.len - 1, t⟩, ?_, ?_, ?_⟩
      · simp [L.view, L.isEmpty, WFL, L.elems, hl, Cells.toList] at *; omega
      · simp [L.view, L.head, hl]
      · simp [L.view, L.tail, hl]
      · simp [WFL, L.elems, hl, Cells.toList] at *; omega
      · simp [L.elems]

/-! ## slice implementation -/

/-- `h'` keeps every array of `h` unchanged (it may have more). -/
def Ext {A : Type} (h h' : Heap A) : Prop :=
  h.length ≤ h'.length ∧ ∀ i, i < h.length → h'[i]? = h[i]?

theorem Ext.refl {A : Type} (h : Heap A) : Ext h h := ⟨Nat.le_refl _, fun _ _ => rfl⟩

theorem Ext.trans {A : Type} {h1 h2 h3 : Heap A} (a : Ext h1 h2) (b : Ext h2 h3) : Ext h1 h3 :=
  ⟨Nat.le_trans a.1 b.1, fun i hi => by rw [b.2 i (Nat.lt_of_lt_of_le hi a.1), a.2 i hi]⟩

theorem ext_append {A : Type} (h : Heap A) (l : List (List A)) : Ext h (h ++ l) := by
  refine ⟨by simp, fun i hi => ?_⟩
  simp [List.getElem?_append_left hi]

theorem arrOf_ext {A : Type} {h h' : Heap A} (e : Ext h h') (s : Slice) (hs : s.arr < h.length) :
    S.arrOf h' s = S.arrOf h s := by
  simp [S.arrOf, e.2 s.arr hs]

theorem elems_ext {A : Type} {h h' : Heap A} (e : Ext h h') (s : Slice) (hs : s.arr < h.length) :
    S.elems h' s = S.elems h s := by
  simp [S.elems, arrOf_ext e s hs]

theorem WF_ext {A : Type} {h h' : Heap A} (e : Ext h h') (s : Slice) (w : S.WF h s) : S.WF h' s := by
  obtain ⟨w1, w2⟩ := w
  exact ⟨Nat.lt_of_lt_of_le w1 e.1, by rw [arrOf_ext e s w1]; exact w2⟩

theorem elems_length {A : Type} {h : Heap A} {s : Slice} (w : S.WF h s) :
    (S.elems h s).length = s.len := by
  obtain ⟨_, w2⟩ := w
  simp [S.elems]; omega

def RS {A : Type} (h : Heap A) (s : Slice) (l : List A) : Prop := S.WF h s ∧ S.elems h s = l

theorem take_drop_cons {A : Type} (a : List A) (off len : Nat) (x : A) (l : List A)
    (h : (a.drop off).take len = x :: l) :
    1 ≤ len ∧ a[off]? = some x ∧ (a.drop (off + 1)).take (len - 1) = l := by
  cases len with
  | zero => simp at h
  | succ n =>
    cases hd : a.drop off with
    | nil => simp [hd] at h
    | cons y ys =>
      rw [hd] at h
      simp at h
      obtain ⟨rfl, rfl⟩ := h
      have h0 : (a.drop off)[0]? = some y := by simp [hd]
      have ht : (a.drop off).tail = ys := by simp [hd]
      refine ⟨by omega, ?_, ?_⟩
      · simpa using h0
      · simp [← ht]

theorem tail_spec {A : Type} {h : Heap A} {s : Slice} {x : A} {l : List A}
    (w : S.WF h s) (he : S.elems h s = x :: l) :
    S.isEmpty s = false ∧ S.head h s = .ok x ∧
      ∃ s', S.tail s = .ok s' ∧ S.WF h s' ∧ S.elems h s' = l := by
  obtain ⟨w1, w2⟩ := w
  obtain ⟨h1, h2, h3⟩ := take_drop_cons _ _ _ _ _ he
  refine ⟨?_, ?_, ⟨s.arr, s.off + 1, s.len - 1, s.cap - 1⟩, ?_, ⟨w1, ?_⟩, ?_⟩
  · simp [S.isEmpty]; omega
  · have : 0 < s.len := by omega
    simp [S.head, this, h2]
  · simp [S.tail, h1]
  · simp [S.arrOf] at *; omega
  · simpa [S.elems, S.arrOf] using h3

theorem representsS {A : Type} (h : Heap A) : Represents (S.view h) (RS h) := by
  constructor
  · intro s hs
    obtain ⟨w, he⟩ := hs
    have := elems_length w
    simp [he] at this
    simp [S.view, S.isEmpty, ← this]
  · intro s a l hs
    obtain ⟨w, he⟩ := hs
    obtain ⟨h1, h2, s', h3, h4, h5⟩ := tail_spec w he
    exact ⟨h1, h2, s', h3, h4, h5⟩

theorem lit_spec {A : Type} (h : Heap A) (xs : List A) :
    Ext h (S.lit h xs).1 ∧ S.WF (S.lit h xs).1 (S.lit h xs).2 ∧
      S.elems (S.lit h xs).1 (S.lit h xs).2 = xs := by
  refine ⟨ext_append _ _, ⟨by simp [S.lit], ?_⟩, ?_⟩
  · simp [S.lit, S.arrOf]
  · simp [S.lit, S.elems, S.arrOf]

/-- `append(s, ys...)` touches no array other than `s`'s own. -/
theorem goAppend_frame {A : Type} [Inhabited A] (slack : Nat → Nat) (h : Heap A) (s : Slice) (ys : List A) :
    h.length ≤ (S.goAppend slack h s ys).1.length ∧
      ∀ i, i ≠ s.arr → i < h.length → (S.goAppend slack h s ys).1[i]? = h[i]? := by
  unfold S.goAppend
  split
  · refine ⟨by simp, fun i hi _ => ?_⟩
    simp [List.getElem?_set_ne (Ne.symm hi)]
  · refine ⟨by simp, fun i _ hl => ?_⟩
    simp [List.getElem?_append_left hl]

theorem append_lit_spec {A : Type} [Inhabited A] (slack : Nat → Nat) (h : Heap A) (x : A) (ys : List A) :
    S.WF (S.goAppend slack (h ++ [[x]]) ⟨h.length, 0, 1, 1⟩ ys).1 (S.goAppend slack (h ++ [[x]]) ⟨h.length, 0, 1, 1⟩ ys).2 ∧
      S.elems (S.goAppend slack (h ++ [[x]]) ⟨h.length, 0, 1, 1⟩ ys).1
        (S.goAppend slack (h ++ [[x]]) ⟨h.length, 0, 1, 1⟩ ys).2 = x :: ys := by
  unfold S.goAppend
  split
  · rename_i hc
    simp at hc
    have : ys.length = 0 := by omega
    have hnil := List.length_eq_zero_iff.mp this
    subst hnil
    simp [S.WF, S.elems, S.arrOf, S.writeAt]
  · simp [S.WF, S.elems, S.arrOf]
    have : 1 + ys.length = (x :: ys).length := by simp; omega
    rw [this, ← List.cons_append, List.take_left' rfl]
    exact ⟨by simp, rfl⟩

theorem cons_spec {A : Type} [Inhabited A] (slack : Nat → Nat) (h : Heap A) (x : A) (s : Slice)
    (w : S.WF h s) :
    Ext h (S.cons slack h x s).1 ∧ S.WF (S.cons slack h x s).1 (S.cons slack h x s).2 ∧
      S.elems (S.cons slack h x s).1 (S.cons slack h x s).2 = x :: S.elems h s := by
  have e1 : Ext h (h ++ [[x]]) := ext_append _ _
  have hy : S.elems (h ++ [[x]]) s = S.elems h s := elems_ext e1 s w.1
  have sp := append_lit_spec slack h x (S.elems h s)
  refine ⟨?_, ?_, ?_⟩
  · -- frame: `append` only touches the fresh literal's array (index `h.length`)
    have fr := goAppend_frame slack (h ++ [[x]]) ⟨h.length, 0, 1, 1⟩ (S.elems (h ++ [[x]]) s)
    refine ⟨?_, fun i hi => ?_⟩
    · have := fr.1; simp [S.cons, S.lit] at *; omega
    · have := fr.2 i (by simp; omega) (by simp; omega)
      simp [S.cons, S.lit] at *
      rw [this, List.getElem?_append_left hi]
  · simpa [S.cons, S.lit, hy] using sp.1
  · simpa [S.cons, S.lit, hy] using sp.2

/-! ## Fold and walk on both implementations -/

theorem fold_list {A B : Type} (step : B → A → B) (b : B) (s : LSeq A) (w : WFL s) (fuel : Nat)
    (hf : (L.elems s).length ≤ fuel) :
    foldLoop L.view step fuel b s = .ok ((L.elems s).foldl step b) :=
  foldLoop_represents representsL step (L.elems s) s b fuel ⟨w, rfl⟩ hf

theorem fold_slice {A B : Type} (step : B → A → B) (b : B) (h : Heap A) (s : Slice) (w : S.WF h s)
    (fuel : Nat) (hf : (S.elems h s).length ≤ fuel) :
    foldLoop (S.view h) step fuel b s = .ok ((S.elems h s).foldl step b) :=
  foldLoop_represents (representsS h) step (S.elems h s) s b fuel ⟨w, rfl⟩ hf

theorem length_toNat_list {A : Type} (s : LSeq A) (w : WFL s) : (L.length s).toNat = (L.elems s).length := by
  have := w; unfold WFL at this; simp [L.length]; omega

theorem length_toNat_slice {A : Type} (h : Heap A) (s : Slice) (w : S.WF h s) :
    (S.length s).toNat = (S.elems h s).length := by
  simp [S.length, elems_length w]

/-! ## Simulation between the two interpreters -/

/-- Register files of the two implementations describe the same sequences. -/
def Rel {A : Type} (lr : List (LSeq A)) (st : SState A) : Prop :=
  lr.length = st.regs.length ∧
  ∀ (i : Nat) l s, lr[i]? = some l → st.regs[i]? = some s →
    WFL l ∧ S.WF st.heap s ∧ L.elems l = S.elems st.heap s

theorem rel_push {A : Type} {lr : List (LSeq A)} {st : SState A} (hrel : Rel lr st)
    {h' : Heap A} (e : Ext st.heap h') {l : LSeq A} {s : Slice}
    (hl : WFL l) (hs : S.WF h' s) (he : L.elems l = S.elems h' s) :
    Rel (lr ++ [l]) ⟨h', st.regs ++ [s]⟩ := by
  obtain ⟨hlen, hall⟩ := hrel
  refine ⟨by simp [hlen], ?_⟩
  intro i l0 s0 h1 h2
  simp only [List.getElem?_append] at h1 h2
  by_cases hi : i < lr.length
  · have hi' : i < st.regs.length := hlen ▸ hi
    simp [hi] at h1
    simp [hi'] at h2
    obtain ⟨a, b, c⟩ := hall i l0 s0 (by simp [hi, h1]) (by simp [hi', h2])
    exact ⟨a, WF_ext e s0 b, by rw [elems_ext e s0 b.1]; exact c⟩
  · have hi' : ¬ i < st.regs.length := hlen ▸ hi
    simp [hi] at h1
    simp [hi'] at h2
    by_cases h0 : i - lr.length = 0
    · have h0' : i - st.regs.length = 0 := hlen ▸ h0
      simp [h0] at h1
      simp [h0'] at h2
      subst h1; subst h2
      exact ⟨hl, hs, he⟩
    · have : ([l] : List (LSeq A))[i - lr.length]? = none := by
        apply List.getElem?_eq_none; simp; omega
      simp [this] at h1

theorem rel_lookup {A : Type} {lr : List (LSeq A)} {st : SState A} (hrel : Rel lr st) (r : Nat) :
    (lr[r]? = none ∧ st.regs[r]? = none) ∨
    (∃ l s, lr[r]? = some l ∧ st.regs[r]? = some s ∧ WFL l ∧ S.WF st.heap s ∧ L.elems l = S.elems st.heap s) := by
  by_cases hr : r < lr.length
  · right
    have hr' : r < st.regs.length := hrel.1 ▸ hr
    refine ⟨lr[r], st.regs[r], by simp [hr], by simp [hr'], ?_⟩
    exact hrel.2 r lr[r] st.regs[r] (by simp [hr]) (by simp [hr'])
  · left
    have hr' : ¬ r < st.regs.length := hrel.1 ▸ hr
    exact ⟨List.getElem?_eq_none (by omega), List.getElem?_eq_none (by omega)⟩

/-- One operation keeps the two interpreters in step: same observation, related states. -/
def StepAgree {A : Type} (a : StepResult (List (LSeq A)) A) (b : StepResult (SState A) A) : Prop :=
  match a, b with
  | .error o, .error o' => o = o'
  | .ok (lr', o), .ok (st', o') => o = o' ∧ Rel lr' st'
  | _, _ => False

theorem step_rel {A : Type} [Inhabited A] (slack : Nat → Nat) (M : Monoid A)
    {lr : List (LSeq A)} {st : SState A} (hrel : Rel lr st) (op : Op A) :
    StepAgree (stepL M lr op) (stepS slack M st op) := by
  cases op with
  | new xs =>
    obtain ⟨e, w, he⟩ := lit_spec st.heap xs
    simp only [stepL, stepS, StepAgree, S.new]
    refine ⟨?_, rel_push hrel e (new_WFL xs) w (by rw [he, new_elems])⟩
    simp only [obsL, obsS, he, new_elems, L.length, S.length]
    simp [L.new, S.lit]
  | cons x r =>
    rcases rel_lookup hrel r with ⟨h1, h2⟩ | ⟨l, s, h1, h2, wl, ws, he⟩
    · simp [stepL, stepS, StepAgree, h1, h2]
    · obtain ⟨e, w, hc⟩ := cons_spec slack st.heap x s ws
      simp only [stepL, stepS, StepAgree, h1, h2]
      have hel : L.elems (L.cons x l) = S.elems (S.cons slack st.heap x s).1 (S.cons slack st.heap x s).2 := by
        rw [hc, ← he]; simp [L.elems, L.cons, Cells.toList]
      refine ⟨?_, rel_push hrel e (cons_WFL x l wl) w hel⟩
      have hlen := elems_length w
      have hwl := cons_WFL x l wl
      simp only [obsL, obsS, hel, L.length, S.length]
      rw [hwl, hel, hlen]
  | tail r =>
    rcases rel_lookup hrel r with ⟨h1, h2⟩ | ⟨l, s, h1, h2, wl, ws, he⟩
    · simp [stepL, stepS, StepAgree, h1, h2]
    · simp only [stepL, stepS, h1, h2]
      cases hl : l.list with
      | nil =>
        have : S.elems st.heap s = [] := by rw [← he]; simp [L.elems, hl, Cells.toList]
        have hlen := elems_length ws
        simp [this] at hlen
        simp [StepAgree, L.tail, hl, S.tail, ← hlen]
      | cell a t =>
        have hes : S.elems st.heap s = a :: t.toList := by rw [← he]; simp [L.elems, hl, Cells.toList]
        obtain ⟨_, _, s', ht, ws', hes'⟩ := tail_spec ws hes
        have htl : L.tail l = .ok ⟨l.len - 1, t⟩ := by simp [L.tail, hl]
        obtain ⟨wl', _⟩ := tail_WFL l _ wl htl
        have hel : L.elems (⟨l.len - 1, t⟩ : LSeq A) = S.elems st.heap s' := by rw [hes']; rfl
        simp only [StepAgree, htl, ht]
        refine ⟨?_, rel_push hrel (Ext.refl _) wl' ws' hel⟩
        have hlen := elems_length ws'
        have h3 : l.len - 1 = ((L.elems (⟨l.len - 1, t⟩ : LSeq A)).length : Int) := wl'
        simp only [obsL, obsS, hel, L.length, S.length]
        rw [h3, hel, hlen]
  | head r =>
    rcases rel_lookup hrel r with ⟨h1, h2⟩ | ⟨l, s, h1, h2, wl, ws, he⟩
    · simp [stepL, stepS, StepAgree, h1, h2]
    · simp only [stepL, stepS, h1, h2]
      cases hl : l.list with
      | nil =>
        have : S.elems st.heap s = [] := by rw [← he]; simp [L.elems, hl, Cells.toList]
        have hlen := elems_length ws
        simp [this] at hlen
        simp [StepAgree, L.head, hl, S.head, ← hlen]
      | cell a t =>
        have hes : S.elems st.heap s = a :: t.toList := by rw [← he]; simp [L.elems, hl, Cells.toList]
        obtain ⟨_, hh, _⟩ := tail_spec ws hes
        simp [StepAgree, L.head, hl, hh, hrel]
  | length r =>
    rcases rel_lookup hrel r with ⟨h1, h2⟩ | ⟨l, s, h1, h2, wl, ws, he⟩
    · simp [stepL, stepS, StepAgree, h1, h2]
    · have hlen := elems_length ws
      simp only [stepL, stepS, StepAgree, h1, h2, L.length, S.length]
      refine ⟨?_, hrel⟩
      rw [wl, he, hlen]
  | isEmpty r =>
    rcases rel_lookup hrel r with ⟨h1, h2⟩ | ⟨l, s, h1, h2, wl, ws, he⟩
    · simp [stepL, stepS, StepAgree, h1, h2]
    · have hlen := elems_length ws
      simp only [stepL, stepS, StepAgree, h1, h2, L.isEmpty, S.isEmpty]
      refine ⟨?_, hrel⟩
      rw [wl, he, hlen]
      cases s.len <;> simp <;> omega
  | fold r =>
    rcases rel_lookup hrel r with ⟨h1, h2⟩ | ⟨l, s, h1, h2, wl, ws, he⟩
    · simp [stepL, stepS, StepAgree, h1, h2]
    · have f1 := fold_list M.combine M.empty l wl (L.length l).toNat (by rw [length_toNat_list l wl]; exact Nat.le_refl _)
      have f2 := fold_slice M.combine M.empty st.heap s ws (S.length s).toNat (by rw [length_toNat_slice _ s ws]; exact Nat.le_refl _)
      simp only [stepL, stepS, StepAgree, h1, h2, fold, f1, f2, he]
      exact ⟨trivial, hrel⟩

theorem run_rel {A : Type} [Inhabited A] (slack : Nat → Nat) (M : Monoid A) (sc : List (Op A)) :
    ∀ (lr : List (LSeq A)) (st : SState A), Rel lr st →
      runWith (stepL M) lr sc = runWith (stepS slack M) st sc := by
  induction sc with
  | nil => intros; rfl
  | cons op rest ih =>
    intro lr st hrel
    have := step_rel slack M hrel op
    simp only [runWith]
    generalize stepL M lr op = a at this
    generalize stepS slack M st op = b at this
    match a, b, this with
    | .error o, .error o', h => simp [StepAgree] at h; simp [h]
    | .ok (lr', o), .ok (st', o'), h =>
      simp only [StepAgree] at h
      simp [h.1, ih lr' st' h.2]

theorem rel_init {A : Type} : Rel ([] : List (LSeq A)) ⟨[], []⟩ := ⟨rfl, by simp⟩

/-! ## Invariants along a script -/

theorem statesWith_inv {σ A : Type} (step : σ → Op A → StepResult σ A) (P : σ → Prop) (R : σ → σ → Prop)
    (hrefl : ∀ s, R s s) (htrans : ∀ a b c, R a b → R b c → R a c)
    (hstep : ∀ st op st' o, P st → step st op = .ok (st', o) → P st' ∧ R st st') :
    ∀ (sc : List (Op A)) (st : σ), P st →
      (∀ x ∈ statesWith step st sc, P x ∧ R st x) ∧ List.Pairwise R (statesWith step st sc) := by
  intro sc
  induction sc with
  | nil => intro st h; simp [statesWith, h, hrefl]
  | cons op rest ih =>
    intro st h
    simp only [statesWith]
    cases hs : step st op with
    | error o => simp [h, hrefl]
    | ok p =>
      obtain ⟨st', o⟩ := p
      obtain ⟨h', r⟩ := hstep st op st' o h hs
      obtain ⟨i1, i2⟩ := ih st' h'
      simp only [List.mem_cons, List.pairwise_cons]
      refine ⟨?_, ?_, i2⟩
      · rintro x (rfl | hx)
        · exact ⟨h, hrefl _⟩
        · exact ⟨(i1 x hx).1, htrans _ _ _ r (i1 x hx).2⟩
      · intro x hx
        exact htrans _ _ _ r (i1 x hx).2

def InvL {A : Type} (regs : List (LSeq A)) : Prop := ∀ s ∈ regs, WFL s

/-- Earlier registers are still there, with the very same value. -/
def KeepL {A : Type} (regs regs' : List (LSeq A)) : Prop :=
  ∀ (i : Nat) s, regs[i]? = some s → regs'[i]? = some s

theorem keep_append {α : Type} (regs : List α) (x : α) (i : Nat) (s : α) (h : regs[i]? = some s) :
    (regs ++ [x])[i]? = some s := by
  have : i < regs.length := by
    rcases Nat.lt_or_ge i regs.length with h' | h'
    · exact h'
    · rw [List.getElem?_eq_none h'] at h; cases h
  rw [List.getElem?_append_left this]; exact h

theorem stepL_inv {A : Type} (M : Monoid A) (regs : List (LSeq A)) (op : Op A) (regs' : List (LSeq A)) (o : Obs A)
    (inv : InvL regs) (hs : stepL M regs op = .ok (regs', o)) : InvL regs' ∧ KeepL regs regs' := by
  have push : ∀ s, WFL s → InvL (regs ++ [s]) ∧ KeepL regs (regs ++ [s]) := by
    intro s ws
    refine ⟨?_, fun i s0 h => keep_append regs s i s0 h⟩
    intro s0 hs0
    simp at hs0
    rcases hs0 with h | rfl
    · exact inv s0 h
    · exact ws
  have same : InvL regs ∧ KeepL regs regs := ⟨inv, fun _ _ h => h⟩
  cases op with
  | new xs =>
    simp [stepL] at hs
    obtain ⟨rfl, _⟩ := hs
    exact push _ (new_WFL xs)
  | cons x r =>
    simp only [stepL] at hs
    cases hr : regs[r]? with
    | none => simp [hr] at hs
    | some s =>
      simp [hr] at hs
      obtain ⟨rfl, _⟩ := hs
      exact push _ (cons_WFL x s (inv s (List.mem_of_getElem? hr)))
  | tail r =>
    simp only [stepL] at hs
    cases hr : regs[r]? with
    | none => simp [hr] at hs
    | some s =>
      cases ht : L.tail s with
      | error e => simp [hr, ht] at hs
      | ok s' =>
        simp [hr, ht] at hs
        obtain ⟨rfl, _⟩ := hs
        exact push _ (tail_WFL s s' (inv s (List.mem_of_getElem? hr)) ht).1
  | head r =>
    simp only [stepL] at hs
    cases hr : regs[r]? with
    | none => simp [hr] at hs
    | some s =>
      cases ht : L.head s with
      | error e => simp [hr, ht] at hs
      | ok a => simp [hr, ht] at hs; obtain ⟨rfl, _⟩ := hs; exact same
  | length r =>
    simp only [stepL] at hs
    cases hr : regs[r]? with
    | none => simp [hr] at hs
    | some s => simp [hr] at hs; obtain ⟨rfl, _⟩ := hs; exact same
  | isEmpty r =>
    simp only [stepL] at hs
    cases hr : regs[r]? with
    | none => simp [hr] at hs
    | some s => simp [hr] at hs; obtain ⟨rfl, _⟩ := hs; exact same
  | fold r =>
    simp only [stepL] at hs
    cases hr : regs[r]? with
    | none => simp [hr] at hs
    | some s =>
      cases ht : fold L.view M (L.length s).toNat s with
      | error e => simp [hr, ht] at hs
      | ok a => simp [hr, ht] at hs; obtain ⟨rfl, _⟩ := hs; exact same

def InvS {A : Type} (st : SState A) : Prop := ∀ s ∈ st.regs, S.WF st.heap s

/-- Earlier registers are still there (same header), no backing array that existed before has
changed, hence every header into the old heap — registers, the caller's original slices, any
alias — still shows the same elements. -/
def KeepS {A : Type} (st st' : SState A) : Prop :=
  (∀ (i : Nat) s, st.regs[i]? = some s → st'.regs[i]? = some s) ∧ Ext st.heap st'.heap

theorem stepS_inv {A : Type} [Inhabited A] (slack : Nat → Nat) (M : Monoid A) (st : SState A) (op : Op A)
    (st' : SState A) (o : Obs A)
    (inv : InvS st) (hs : stepS slack M st op = .ok (st', o)) : InvS st' ∧ KeepS st st' := by
  have push : ∀ h' s, Ext st.heap h' → S.WF h' s →
      InvS ⟨h', st.regs ++ [s]⟩ ∧ KeepS st ⟨h', st.regs ++ [s]⟩ := by
    intro h' s e ws
    refine ⟨?_, fun i s0 h => keep_append st.regs s i s0 h, e⟩
    intro s0 hs0
    simp at hs0
    rcases hs0 with h | rfl
    · exact WF_ext e s0 (inv s0 h)
    · exact ws
  have same : InvS st ∧ KeepS st st := ⟨inv, fun _ _ h => h, Ext.refl _⟩
  cases op with
  | new xs =>
    obtain ⟨e, w, _⟩ := lit_spec st.heap xs
    simp [stepS, S.new] at hs
    obtain ⟨rfl, _⟩ := hs
    exact push _ _ e w
  | cons x r =>
    simp only [stepS] at hs
    cases hr : st.regs[r]? with
    | none => simp [hr] at hs
    | some s =>
      obtain ⟨e, w, _⟩ := cons_spec slack st.heap x s (inv s (List.mem_of_getElem? hr))
      simp [hr] at hs
      obtain ⟨rfl, _⟩ := hs
      exact push _ _ e w
  | tail r =>
    simp only [stepS] at hs
    cases hr : st.regs[r]? with
    | none => simp [hr] at hs
    | some s =>
      cases ht : S.tail s with
      | error e => simp [hr, ht] at hs
      | ok s' =>
        simp [hr, ht] at hs
        obtain ⟨rfl, _⟩ := hs
        have ws := inv s (List.mem_of_getElem? hr)
        refine push _ _ (Ext.refl _) ?_
        unfold S.tail at ht
        split at ht
        · simp at ht; subst ht
          obtain ⟨w1, w2⟩ := ws
          exact ⟨w1, by simp [S.arrOf] at *; omega⟩
        · simp at ht
  | head r =>
    simp only [stepS] at hs
    cases hr : st.regs[r]? with
    | none => simp [hr] at hs
    | some s =>
      cases ht : S.head st.heap s with
      | error e => simp [hr, ht] at hs
      | ok a => simp [hr, ht] at hs; obtain ⟨rfl, _⟩ := hs; exact same
  | length r =>
    simp only [stepS] at hs
    cases hr : st.regs[r]? with
    | none => simp [hr] at hs
    | some s => simp [hr] at hs; obtain ⟨rfl, _⟩ := hs; exact same
  | isEmpty r =>
    simp only [stepS] at hs
    cases hr : st.regs[r]? with
    | none => simp [hr] at hs
    | some s => simp [hr] at hs; obtain ⟨rfl, _⟩ := hs; exact same
  | fold r =>
    simp only [stepS] at hs
    cases hr : st.regs[r]? with
    | none => simp [hr] at hs
    | some s =>
      cases ht : fold (S.view st.heap) M (S.length s).toNat s with
      | error e => simp [hr, ht] at hs
      | ok a => simp [hr, ht] at hs; obtain ⟨rfl, _⟩ := hs; exact same

end Golem.Lemmas.ISeq
