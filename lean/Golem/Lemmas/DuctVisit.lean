/-
Helper lemmas for C16 about visits: `Ast.apply` feeds `events` to the visitor, `events` is
accepted by the bracket and depth checkers, the failing recorder.  Core Lean only.
-/
import Golem.Model.DuctSpec
namespace Golem.Model.Duct

variable {σ ε : Type}

theorem feed_append (v : Visitor σ ε) (xs ys : List Event) (s : σ) :
    feed v (xs ++ ys) s =
      match feed v xs s with
      | (s', some err) => (s', some err)
      | (s', none) => feed v ys s' := by
  induction xs generalizing s with
  | nil => simp [feed]
  | cons e es ih =>
    simp only [List.cons_append, feed]
    rcases v e s with ⟨s1, _ | err⟩
    · simp [ih]
    · simp

mutual
theorem apply_eq_feed (v : Visitor σ ε) : ∀ (a : Ast) (d : Nat) (s : σ),
    a.apply v d s = feed v (events d a) s
  | .afrom t, d, s => by
    simp only [Ast.apply, events, feed]
    rcases v ⟨.enterFrom, d, .afrom t⟩ s with ⟨s1, _ | e1⟩ <;> simp
    rcases v ⟨.leaveFrom, d, .afrom t⟩ s1 with ⟨s2, _ | e2⟩ <;> simp
  | .ayield t, d, s => by
    simp only [Ast.apply, events, feed]
    rcases v ⟨.enterYield, d, .ayield t⟩ s with ⟨s1, _ | e1⟩ <;> simp
    rcases v ⟨.leaveYield, d, .ayield t⟩ s1 with ⟨s2, _ | e2⟩ <;> simp
  | .amap a b, d, s => by
    simp only [Ast.apply, events, feed]
    rcases v ⟨.enterMap, d, .amap a b⟩ s with ⟨s1, _ | e1⟩ <;> simp
    rcases v ⟨.leaveMap, d, .amap a b⟩ s1 with ⟨s2, _ | e2⟩ <;> simp
  | .aseq r df cs, d, s => by
    simp only [Ast.apply, events, feed]
    rcases v ⟨if r then .enterMorphism else .enterSeq, d, .aseq r df cs⟩ s with ⟨s1, _ | e1⟩ <;> simp only []
    rw [feed_append, applyRange_eq_feed v cs (d + 1) s1]
    rcases feed v (eventsList (d + 1) cs) s1 with ⟨s2, _ | e2⟩ <;> simp only [feed]
    rcases v ⟨if r then .leaveMorphism else .leaveSeq, d, .aseq r df cs⟩ s2 with ⟨s3, _ | e3⟩ <;> simp
theorem applyRange_eq_feed (v : Visitor σ ε) : ∀ (l : List Ast) (d : Nat) (s : σ),
    applyRange v d l s = feed v (eventsList d l) s
  | [], d, s => by simp [applyRange, eventsList, feed]
  | x :: xs, d, s => by
    simp only [applyRange, eventsList]
    rw [feed_append, apply_eq_feed v x d s]
    rcases feed v (events d x) s with ⟨s1, _ | e1⟩ <;> simp only []
    exact applyRange_eq_feed v xs d s1
end

/-! ### the failing recorder -/

theorem feed_failAt (k : Nat) (err : ε) : ∀ (evs : List Event) (n : Nat) (log : List Event), n ≤ k →
    feed (failAt k err) evs (n, log) =
      ((n + min (k + 1 - n) evs.length, log ++ evs.take (k + 1 - n)),
        if k - n < evs.length then some err else none)
  | [], n, log, _ => by simp [feed]
  | e :: es, n, log, h => by
    simp only [feed, failAt]
    by_cases hk : n = k
    · subst hk; simp
    · have h' : n + 1 ≤ k := by omega
      simp only [hk, if_false]
      rw [feed_failAt k err es (n + 1) (log ++ [e]) h']
      have e1 : k + 1 - n = (k + 1 - (n + 1)) + 1 := by omega
      have e2 : k - n = (k - (n + 1)) + 1 := by omega
      rw [e1, e2]
      simp only [List.take_succ_cons, List.length_cons, List.append_assoc, List.singleton_append,
        Nat.add_lt_add_iff_right, Prod.mk.injEq, and_true]
      omega

/-! ### brackets -/

theorem bracketed_enter (e : Event) (h : e.cb.isEnter = true) (stk es : List Event) :
    Bracketed stk (e :: es) ↔ Bracketed (e :: stk) es := by
  simp [Bracketed, h]

theorem bracketed_leaf (cbE cbL : Cb) (d : Nat) (a : Ast) (hE : cbE.isEnter = true)
    (hL : cbL.isEnter = false) (hEL : cbE.leaveOf = cbL) (stk rest : List Event) :
    Bracketed stk (⟨cbE, d, a⟩ :: ⟨cbL, d, a⟩ :: rest) ↔ Bracketed stk rest := by
  simp [Bracketed, hE, hL, Event.closes, hEL]

mutual
theorem bracketed_events : ∀ (a : Ast) (d : Nat) (stk rest : List Event),
    Bracketed stk (events d a ++ rest) ↔ Bracketed stk rest
  | .afrom t, d, stk, rest => by
    simpa [events] using bracketed_leaf .enterFrom .leaveFrom d (.afrom t) rfl rfl rfl stk rest
  | .ayield t, d, stk, rest => by
    simpa [events] using bracketed_leaf .enterYield .leaveYield d (.ayield t) rfl rfl rfl stk rest
  | .amap x y, d, stk, rest => by
    simpa [events] using bracketed_leaf .enterMap .leaveMap d (.amap x y) rfl rfl rfl stk rest
  | .aseq r df cs, d, stk, rest => by
    simp only [events, List.cons_append, List.append_assoc]
    have hE : (if r then Cb.enterMorphism else Cb.enterSeq).isEnter = true := by cases r <;> rfl
    have hL : (if r then Cb.leaveMorphism else Cb.leaveSeq).isEnter = false := by cases r <;> rfl
    have hEL : (if r then Cb.enterMorphism else Cb.enterSeq).leaveOf
        = (if r then Cb.leaveMorphism else Cb.leaveSeq) := by cases r <;> rfl
    rw [bracketed_enter _ hE, bracketedList_events cs (d + 1)]
    simp [Bracketed, hL, Event.closes, hEL]
theorem bracketedList_events : ∀ (l : List Ast) (d : Nat) (stk rest : List Event),
    Bracketed stk (eventsList d l ++ rest) ↔ Bracketed stk rest
  | [], d, stk, rest => by simp [eventsList]
  | x :: xs, d, stk, rest => by
    simp only [eventsList, List.append_assoc]
    rw [bracketed_events x d, bracketedList_events xs d]
end

/-! ### depths -/

/-- The condition the depth checker puts on an enter event at depth `d` under pending stack `stk`. -/
def EnterOk (d0 d : Nat) (stk : List Event) : Prop :=
  match stk with
  | [] => d = d0
  | t :: _ => d = t.depth + 1 ∧ t.cb.isSeqKind = true

theorem depthsOk_enter (d0 : Nat) (e : Event) (h : e.cb.isEnter = true) (stk es : List Event) :
    DepthsOk d0 stk (e :: es) ↔ EnterOk d0 e.depth stk ∧ DepthsOk d0 (e :: stk) es := by
  cases stk <;> simp [DepthsOk, h, EnterOk]

theorem depthsOk_leaf (d0 : Nat) (cbE cbL : Cb) (d : Nat) (a : Ast) (hE : cbE.isEnter = true)
    (hL : cbL.isEnter = false) (stk rest : List Event) (h : EnterOk d0 d stk) :
    DepthsOk d0 stk (⟨cbE, d, a⟩ :: ⟨cbL, d, a⟩ :: rest) ↔ DepthsOk d0 stk rest := by
  cases stk <;> simp_all [DepthsOk, EnterOk]

mutual
theorem depthsOk_events (d0 : Nat) : ∀ (a : Ast) (d : Nat) (stk rest : List Event),
    EnterOk d0 d stk → (DepthsOk d0 stk (events d a ++ rest) ↔ DepthsOk d0 stk rest)
  | .afrom t, d, stk, rest, h => by
    simpa [events] using depthsOk_leaf d0 .enterFrom .leaveFrom d (.afrom t) rfl rfl stk rest h
  | .ayield t, d, stk, rest, h => by
    simpa [events] using depthsOk_leaf d0 .enterYield .leaveYield d (.ayield t) rfl rfl stk rest h
  | .amap x y, d, stk, rest, h => by
    simpa [events] using depthsOk_leaf d0 .enterMap .leaveMap d (.amap x y) rfl rfl stk rest h
  | .aseq r df cs, d, stk, rest, h => by
    simp only [events, List.cons_append, List.append_assoc]
    have hE : (if r then Cb.enterMorphism else Cb.enterSeq).isEnter = true := by cases r <;> rfl
    have hS : (if r then Cb.enterMorphism else Cb.enterSeq).isSeqKind = true := by cases r <;> rfl
    have hL : (if r then Cb.leaveMorphism else Cb.leaveSeq).isEnter = false := by cases r <;> rfl
    rw [depthsOk_enter d0 _ hE, depthsOkList_events d0 cs (d + 1) _ _ (by simp [EnterOk, hS])]
    simp [DepthsOk, hL, h]
theorem depthsOkList_events (d0 : Nat) : ∀ (l : List Ast) (d : Nat) (stk rest : List Event),
    EnterOk d0 d stk → (DepthsOk d0 stk (eventsList d l ++ rest) ↔ DepthsOk d0 stk rest)
  | [], d, stk, rest, _ => by simp [eventsList]
  | x :: xs, d, stk, rest, h => by
    simp only [eventsList, List.append_assoc]
    rw [depthsOk_events d0 x d _ _ h, depthsOkList_events d0 xs d _ _ h]
end

/-! ### roots and leaves -/

mutual
theorem events_noRoot : ∀ (a : Ast) (d : Nat), a.noRoot = true →
    ∀ e ∈ events d a, e.cb ≠ .enterMorphism ∧ e.cb ≠ .leaveMorphism
  | .afrom t, d, _ => by simp [events]
  | .ayield t, d, _ => by simp [events]
  | .amap x y, d, _ => by simp [events]
  | .aseq r df cs, d, h => by
    simp only [Ast.noRoot, Bool.and_eq_true, Bool.not_eq_true'] at h
    rcases h with ⟨rfl, hcs⟩
    intro e he
    simp only [events, List.mem_cons, List.mem_append, List.not_mem_nil, or_false] at he
    rcases he with rfl | he | rfl
    · simp
    · exact eventsList_noRoot cs (d + 1) hcs e he
    · simp
theorem eventsList_noRoot : ∀ (l : List Ast) (d : Nat), noRootList l = true →
    ∀ e ∈ eventsList d l, e.cb ≠ .enterMorphism ∧ e.cb ≠ .leaveMorphism
  | [], d, _ => by simp [eventsList]
  | x :: xs, d, h => by
    simp only [noRootList, Bool.and_eq_true] at h
    intro e he
    simp only [eventsList, List.mem_append] at he
    rcases he with he | he
    · exact events_noRoot x d h.1 e he
    · exact eventsList_noRoot xs d h.2 e he
end

theorem leavesList_append (xs ys : List Ast) :
    leavesList (xs ++ ys) = leavesList xs ++ leavesList ys := by
  induction xs with
  | nil => simp [leavesList]
  | cons x xs ih => simp [leavesList, ih]

/-- The leaves of the frames of a stack, outermost context first. -/
def frameLeaves (top : List Ast) (below : List (List Ast)) : List Ast :=
  (below.reverse.map leavesList).flatten ++ leavesList top

theorem leaves_plug : ∀ (below : List (List Ast)) (cs : List Ast),
    leaves (plug cs below) = frameLeaves cs below
  | [], cs => by simp [plug, leaves, frameLeaves]
  | p :: rest, cs => by
    simp only [plug]
    rw [leaves_plug rest]
    simp [frameLeaves, leavesList_append, leavesList, leaves]

end Golem.Model.Duct
