/-
Termination and progress of the pump of `pipe.New` (`Golem.Go.Unbound`): a variant that every
process move and every successful receive decreases; what a quiescent state looks like.
Core Lean only.
-/
import Golem.Lemmas.UnboundInv
namespace Golem.Go.Unbound
open Golem.Go

variable {α : Type}

set_option linter.unusedSimpArgs false
set_option linter.unusedVariables false

def rank : Pc α → Nat
  | .exited => 0 | .closeEg => 1 | .flushSent => 0 | .flush => 4 | .range => 5 | .rangeGot _ => 14
  | .closeIn => 6 | .drain => 7 | .drainGot _ => 16 | .mainSent => 1 | .main => 8 | .mainGot _ => 17

/-- work left for the pump when nobody sends any more: every value still in `in` is received (1),
enqueued (1), sent (1) and dequeued (1); every buffered value of `eg` is received by the environment -/
def variant (p : Net α) : Nat :=
  20 * p.inp.buf.length + 8 * p.mq.length + 2 * p.eg.buf.length + rank p.pc

def variantP (p : Net α) : Nat := if p.panicked then 0 else variant p + 1

local macro "fin_var" h:ident : tactic => `(tactic| (
  have hne := ($h).sentNe
  simp_all [variantP, variant, rank, pushEg, Pc.sentPending] <;> omega))

theorem var_sendEg {cap : Nat} {pol : Bool} {p q : Net α} {v : α} {rest : List α} {next : Pc α}
    (h : Inv cap pol p) (hnp : ¬ (p.panicked = true)) (hmq : p.mq = v :: rest)
    (hpc : (p.pc = .main ∧ next = .mainSent) ∨ (p.pc = .flush ∧ next = .flushSent))
    (hq : q ∈ sendEg p v next) : variantP q < variantP p := by
  have hnc : ¬ (p.eg.closed = true) := by
    intro hc
    have := h.egClosed.mp hc
    rcases hpc with ⟨e, _⟩ | ⟨e, _⟩ <;> rw [e] at this <;> cases this
  rw [sendEg, if_neg hnc] at hq
  split at hq
  next hroom =>
    simp only [List.mem_singleton] at hq
    subst hq
    rcases hpc with ⟨e, en⟩ | ⟨e, en⟩ <;> subst en
    · fin_var h
    · fin_var h
  next => simp at hq

/-- every move of the pump strictly decreases the variant (a panic ends the program) -/
theorem proc_decreases {cap : Nat} {pol : Bool} {p q : Net α} (h : Inv cap pol p) (hq : q ∈ procNext p) :
    variantP q < variantP p := by
  have hlen : p.mq ≠ [] → 0 < p.mq.length := fun hn => List.length_pos_iff.mpr hn
  unfold procNext at hq
  split at hq
  · simp at hq
  next hnp =>
  unfold pumpNext at hq
  split at hq
  next hpc =>
    -- main
    simp only [List.mem_append] at hq
    rcases hq with (hq | hq) | hq
    · split at hq
      next hc =>
        simp only [List.mem_singleton] at hq; subst hq
        fin_var h
      next => simp at hq
    · unfold recvIn at hq
      split at hq
      next x rest hb =>
        simp only [List.mem_singleton] at hq; subst hq
        fin_var h
      next hb =>
        split at hq
        next hcl =>
          simp only [List.mem_singleton] at hq; subst hq
          fin_var h
        next => simp at hq
    · split at hq
      next v rest hm => exact var_sendEg h hnp hm (Or.inl ⟨hpc, rfl⟩) hq
      next => simp at hq
  next x hpc =>
    simp only [List.mem_singleton] at hq; subst hq
    fin_var h
  next hpc =>
    simp only [List.mem_singleton] at hq; subst hq
    fin_var h
  next hpc =>
    -- drain
    split at hq
    next x rest hb =>
      simp only [List.mem_singleton] at hq; subst hq
      fin_var h
    next hb =>
      split at hq
      next hcl =>
        simp only [List.mem_singleton] at hq; subst hq
        fin_var h
      next hcl =>
        simp only [List.mem_singleton] at hq; subst hq
        fin_var h
  next x hpc =>
    simp only [List.mem_singleton] at hq; subst hq
    fin_var h
  next hpc =>
    -- closeIn
    split at hq
    next hcl =>
      simp only [List.mem_singleton] at hq; subst hq
      fin_var h
    next hcl =>
      simp only [List.mem_singleton] at hq; subst hq
      fin_var h
  next hpc =>
    -- range
    unfold recvIn at hq
    split at hq
    next x rest hb =>
      simp only [List.mem_singleton] at hq; subst hq
      fin_var h
    next hb =>
      split at hq
      next hcl =>
        simp only [List.mem_singleton] at hq; subst hq
        fin_var h
      next => simp at hq
  next x hpc =>
    simp only [List.mem_singleton] at hq; subst hq
    fin_var h
  next hpc =>
    -- flush
    split at hq
    next v rest hm => exact var_sendEg h hnp hm (Or.inr ⟨hpc, rfl⟩) hq
    next hm =>
      simp only [List.mem_singleton] at hq; subst hq
      fin_var h
  next hpc =>
    simp only [List.mem_singleton] at hq; subst hq
    fin_var h
  next hpc =>
    -- closeEg
    split at hq
    next hcl =>
      have := h.egClosed.mp hcl
      rw [hpc] at this; cases this
    next hcl =>
      simp only [List.mem_singleton] at hq; subst hq
      fin_var h
  next hpc => simp at hq


theorem handoff_decreases {cap : Nat} {pol : Bool} {p q : Net α} {v : α} (h : Inv cap pol p)
    (hnp : p.panicked = false) (hq : (q, v) ∈ handoff p) : variantP q < variantP p := by
  unfold handoff at hq
  split at hq
  · simp at hq
  next hc =>
    split at hq
    next v' rest hpc hm =>
      simp only [List.mem_singleton, Prod.mk.injEq] at hq
      obtain ⟨hq, hv⟩ := hq
      subst hq
      fin_var h
    next v' rest hpc hm =>
      simp only [List.mem_singleton, Prod.mk.injEq] at hq
      obtain ⟨hq, hv⟩ := hq
      subst hq
      fin_var h
    next => simp at hq

/-- a receive that obtains a value decreases the variant -/
theorem recv_decreases {cap : Nat} {pol : Bool} {p q : Net α} {v : α} (h : Inv cap pol p)
    (hnp : p.panicked = false) (hq : (q, Obs.value v) ∈ envNext p .recv) : variantP q < variantP p := by
  simp only [envNext] at hq
  split at hq
  next v' rest hb =>
    simp only [List.mem_singleton, Prod.mk.injEq] at hq
    obtain ⟨hq, _⟩ := hq
    subst hq
    simp_all [variantP, variant]
  next hb =>
    split at hq
    · simp only [List.mem_singleton, Prod.mk.injEq] at hq
      obtain ⟨_, ho⟩ := hq
      split at ho <;> cases ho
    · simp only [List.mem_map, Prod.mk.injEq] at hq
      obtain ⟨⟨q', v'⟩, hm, hq', _⟩ := hq
      subst hq'
      exact handoff_decreases h hnp hm

/-- the receiver can obtain a value right now (from the buffer or by hand-off) -/
def CanRecv (p : Net α) : Prop := ∃ q v, (q, Obs.value v) ∈ envNext p .recv

/-- blocked in `eg <- head(mq)` means a receive would succeed -/
theorem canRecv_of_blocked {p : Net α} {v : α} {rest : List α} {next : Pc α}
    (hmq : p.mq = v :: rest) (hpc : p.pc = .main ∨ p.pc = .flush) (hnc : p.eg.closed = false)
    (hb : sendEg p v next = []) : CanRecv p := by
  unfold CanRecv
  cases hbuf : p.eg.buf with
  | cons w ws => exact ⟨_, w, by simp only [envNext, hbuf]; exact List.mem_singleton.mpr rfl⟩
  | nil =>
    have hh : handoff p ≠ [] := by
      unfold handoff
      rcases hpc with e | e <;> simp [hnc, hbuf, e, hmq]
    cases hho : handoff p with
    | nil => exact absurd hho hh
    | cons x xs => exact ⟨x.1, x.2, by simp [envNext, hbuf, hho]⟩

/-- after the end of stream (cancel, or close by the sender) the pump is never stuck for good:
it can move, or it is blocked sending and a receive succeeds -/
theorem eos_progress {cap : Nat} {pol : Bool} {p : Net α} (h : Inv cap pol p) (hnp : p.panicked = false)
    (heos : p.cancelled = true ∨ p.inp.closed = true) (hx : p.pc ≠ .exited) :
    procNext p ≠ [] ∨ CanRecv p := by
  have hnc : p.eg.closed = false := by
    cases hc : p.eg.closed with
    | false => rfl
    | true => exact absurd (h.egClosed.mp hc) hx
  refine (Classical.em (procNext p = [])).elim (fun hstuck => Or.inr ?_) Or.inl
  have hs : pumpNext p = [] := by simpa [procNext, hnp] using hstuck
  unfold pumpNext at hs
  split at hs
  next hpc =>
    simp only [List.append_eq_nil_iff] at hs
    obtain ⟨⟨hd, hr⟩, hsd⟩ := hs
    have hcanc : p.cancelled = false := by
      cases hc : p.cancelled with
      | false => rfl
      | true => simp [hc] at hd
    have hcl : p.inp.closed = true := by rcases heos with e | e; simp [e] at hcanc; exact e
    unfold recvIn at hr
    split at hr
    · simp at hr
    · simp [hcl] at hr
  · simp at hs
  · simp at hs
  next hpc => split at hs; simp at hs; split at hs <;> simp at hs
  · simp at hs
  next hpc => split at hs <;> simp at hs
  next hpc =>
    have hcl := h.ranging (by simp [hpc, Pc.ranging])
    unfold recvIn at hs
    split at hs
    · simp at hs
    · simp [hcl] at hs
  · simp at hs
  next hpc =>
    split at hs
    next v rest hm => exact canRecv_of_blocked hm (Or.inr hpc) hnc hs
    next => simp at hs
  · simp at hs
  next hpc => split at hs <;> simp at hs
  next hpc => exact absurd hpc hx

/-- quiescent before any end of stream: the pump is parked at its main `select` with the input
buffer drained (its receive arm is enabled whatever the receiver does) -/
theorem quiescent_parked {cap : Nat} {pol : Bool} {p : Net α} (h : Inv cap pol p)
    (hq : procNext p = []) (hc : p.cancelled = false) (hcl : p.inp.closed = false) :
    p.pc = .main ∧ p.inp.buf = [] := by
  have hnp : p.panicked = false := by
    cases hp : p.panicked with
    | false => rfl
    | true =>
      have := h.afterDone (by rw [h.panicAt hp]; rfl)
      simp [hc] at this
  have hs : pumpNext p = [] := by simpa [procNext, hnp] using hq
  unfold pumpNext at hs
  split at hs
  next hpc =>
    refine ⟨hpc, ?_⟩
    simp only [List.append_eq_nil_iff] at hs
    have hr := hs.1.2
    unfold recvIn at hr
    split at hr
    · simp at hr
    next hb => exact hb
  · simp at hs
  · simp at hs
  next hpc => have := h.afterDone (by simp [hpc, Pc.afterDone]); simp [hc] at this
  · simp at hs
  next hpc => have := h.afterDone (by simp [hpc, Pc.afterDone]); simp [hc] at this
  next hpc => have := h.afterDone (by simp [hpc, Pc.afterDone]); simp [hc] at this
  · simp at hs
  next hpc => have := (h.flushing (by simp [hpc, Pc.flushing])).1; simp [hcl] at this
  · simp at hs
  next hpc => have := (h.flushing (by simp [hpc, Pc.flushing])).1; simp [hcl] at this
  next hpc => have := (h.flushing (by simp [hpc, Pc.flushing])).1; simp [hcl] at this

/-- before any end of stream the pump is in its main loop and has not panicked -/
theorem main_loop_of_open {cap : Nat} {pol : Bool} {p : Net α} (h : Inv cap pol p)
    (hc : p.cancelled = false) (hcl : p.inp.closed = false) :
    p.panicked = false ∧ (p.pc = .main ∨ (∃ x, p.pc = .mainGot x) ∨ p.pc = .mainSent) := by
  have had := h.afterDone
  have hfl := h.flushing
  have hpa := h.panicAt
  cases hpc : p.pc <;> simp_all [Pc.afterDone, Pc.flushing]
  all_goals
    cases hp : p.panicked with
    | false => rfl
    | true => simp_all

/-- whenever a send finds the send side full before any end of stream, the pump has a move that
does not touch `eg` (it receives from `in`, or finishes an `enq`/`deq`): the sender waits for the
pump at most, never for the receiver -/
theorem full_pump_can_move {cap : Nat} {pol : Bool} {p : Net α} (h : Inv cap pol p)
    (hc : p.cancelled = false) (hcl : p.inp.closed = false) {v : α} {q : Net α}
    (hfull : (q, Obs.full) ∈ envNext p (.send v)) :
    ∃ q' ∈ procNext p, q'.eg = p.eg ∧ q'.delivered = p.delivered := by
  obtain ⟨hnp, hpc⟩ := main_loop_of_open h hc hcl
  simp only [envNext, hcl] at hfull
  have hroom : ¬ (p.inp.buf.length < p.inp.cap + recvReady p) := by
    intro hr
    simp [hr] at hfull
  rcases hpc with hpc | ⟨x, hpc⟩ | hpc
  · have hne : p.inp.buf ≠ [] := by
      intro he
      apply hroom
      simp [he, recvReady, hpc]
    cases hb : p.inp.buf with
    | nil => exact absurd hb hne
    | cons x rest =>
      refine ⟨{ p with pc := .mainGot x, inp := { p.inp with buf := rest } }, ?_, rfl, rfl⟩
      simp [procNext, hnp, pumpNext, hpc, recvIn, hb, hc]
  · exact ⟨{ p with pc := .main, mq := p.mq ++ [x] }, by simp [procNext, hnp, pumpNext, hpc], rfl, rfl⟩
  · exact ⟨{ p with pc := .main, mq := p.mq.tail }, by simp [procNext, hnp, pumpNext, hpc], rfl, rfl⟩

end Golem.Go.Unbound
