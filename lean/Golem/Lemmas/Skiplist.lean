/-
Helper lemmas for C18 (core Lean only): how the per-level walk, `relinkAfter`, `splice` and `unlink`
of `Golem.Model.Skiplist` act on a *tower* of chains, i.e. on
`chains[l] = level0.filter (height > l)`.
-/
import Golem.Model.Skiplist
namespace Golem.Lemmas.Skiplist
open Golem.Model.Skiplist
set_option linter.unusedSectionVars false

/-! ### last element with default -/

/-- last element of `d :: xs` -/
def lastD : List Nat → Nat → Nat
  | [], d => d
  | x :: xs, _ => lastD xs x

theorem lastD_append (a b : List Nat) (d : Nat) : lastD (a ++ b) d = lastD b (lastD a d) := by
  induction a generalizing d with
  | nil => rfl
  | cons x xs ih => simp [lastD, ih]

theorem lastD_mem_or (xs : List Nat) (d : Nat) : lastD xs d = d ∨ lastD xs d ∈ xs := by
  induction xs generalizing d with
  | nil => simp [lastD]
  | cons x xs ih =>
    simp only [lastD]
    rcases ih x with h | h
    · right; simp [h]
    · right; simp [h]

theorem lastD_decomp (xs : List Nat) (d : Nat) (h : xs ≠ []) : ∃ a, xs = a ++ [lastD xs d] := by
  induction xs generalizing d with
  | nil => exact absurd rfl h
  | cons x xs ih =>
    cases xs with
    | nil => exact ⟨[], by simp [lastD]⟩
    | cons y ys =>
      obtain ⟨a, ha⟩ := ih x (by simp)
      refine ⟨x :: a, ?_⟩
      simp only [lastD] at ha ⊢
      rw [List.cons_append, ← ha]

/-! ### one chain -/

theorem dropAfter_append (q : Nat) (a rest : List Nat) (h : q ∉ a) :
    dropAfter q (a ++ q :: rest) = rest := by
  induction a with
  | nil => simp [dropAfter]
  | cons x xs ih =>
    have hx : x ≠ q := fun e => h (by simp [e])
    have hq : q ∉ xs := fun e => h (by simp [e])
    simp [dropAfter, hx, ih hq]

theorem relinkGo_append (q : Nat) (f : List Nat → List Nat) (a rest : List Nat) (h : q ∉ a) :
    relinkAfter.go q f (a ++ q :: rest) = a ++ q :: f rest := by
  induction a with
  | nil => simp [relinkAfter.go]
  | cons x xs ih =>
    have hx : x ≠ q := fun e => h (by simp [e])
    have hq : q ∉ xs := fun e => h (by simp [e])
    simp [relinkAfter.go, hx, ih hq]

/-- `lo` non-empty, duplicate free, without the head: it ends in its `lastD`, which occurs nowhere else -/
theorem pred_split (lo : List Nat) (nd : lo.Nodup) (nz : 0 ∉ lo) (ne : lo ≠ []) :
    ∃ a, lo = a ++ [lastD lo 0] ∧ lastD lo 0 ∉ a ∧ lastD lo 0 ≠ 0 := by
  obtain ⟨a, ha⟩ := lastD_decomp lo 0 ne
  refine ⟨a, ha, ?_, ?_⟩
  · rw [ha] at nd
    have := List.nodup_append.mp nd
    intro hm
    exact this.2.2 _ hm _ (by simp) rfl
  · intro h0
    apply nz
    rw [ha, h0]; simp

/-- `path[l].fingers[l]`, `…` is the part of the chain behind the predecessor -/
theorem after_pred (lo hi : List Nat) (nd : lo.Nodup) (nz : 0 ∉ lo) :
    after (lastD lo 0) (lo ++ hi) = hi := by
  by_cases ne : lo = []
  · subst ne; simp [lastD, after]
  · obtain ⟨a, ha, hna, hn0⟩ := pred_split lo nd nz ne
    have : after (lastD lo 0) (lo ++ hi) = dropAfter (lastD lo 0) (a ++ lastD lo 0 :: hi) := by
      rw [after, if_neg hn0]
      congr 1
      conv => lhs; rw [ha]
      simp
    rw [this, dropAfter_append _ _ _ hna]

/-- assigning `path[l].fingers[l]` rewrites exactly the part behind the predecessor -/
theorem relink_pred (f : List Nat → List Nat) (lo hi : List Nat) (nd : lo.Nodup) (nz : 0 ∉ lo) :
    relinkAfter (lastD lo 0) f (lo ++ hi) = lo ++ f hi := by
  by_cases ne : lo = []
  · subst ne; simp [lastD, relinkAfter]
  · obtain ⟨a, ha, hna, hn0⟩ := pred_split lo nd nz ne
    have e1 : lo ++ hi = a ++ lastD lo 0 :: hi := by
      conv => lhs; rw [ha]
      simp
    have e2 : lo ++ f hi = a ++ lastD lo 0 :: f hi := by
      conv => lhs; rw [ha]
      simp
    rw [relinkAfter, if_neg hn0, e1, relinkGo_append _ _ _ _ hna, e2]

variable {K V : Type} [Inhabited K] [Inhabited V]

theorem walk_append (cmp : K → K → Ordering) (s : State K V) (k : K) (q : Nat) (b hi : List Nat)
    (hb : ∀ x ∈ b, cmp (s.key x) k = .lt) (hh : ∀ x ∈ hi, cmp (s.key x) k ≠ .lt) :
    walk cmp s k q (b ++ hi) = lastD b q := by
  induction b generalizing q with
  | nil =>
    cases hi with
    | nil => simp [walk, lastD]
    | cons y ys => simp [walk, lastD, hh y (by simp)]
  | cons x xs ih =>
    have hx := hb x (by simp)
    simp only [List.cons_append, walk, hx, if_true, lastD]
    exact ih x (fun y hy => hb y (by simp [hy]))

/-- the inner loop on one level, started from the node reached above (`q`, which is the head or lies
    in the `LT` part of this level), stops at the last node with a smaller key -/
theorem walk_level (cmp : K → K → Ordering) (s : State K V) (k : K) (q : Nat) (lo hi : List Nat)
    (nd : lo.Nodup) (nz : 0 ∉ lo)
    (hlo : ∀ x ∈ lo, cmp (s.key x) k = .lt) (hhi : ∀ x ∈ hi, cmp (s.key x) k ≠ .lt)
    (hq : q = 0 ∨ q ∈ lo) :
    walk cmp s k q (after q (lo ++ hi)) = lastD lo 0 := by
  by_cases q0 : q = 0
  · subst q0
    simp only [after, if_true]
    exact walk_append cmp s k 0 lo hi hlo hhi
  · have hm : q ∈ lo := by rcases hq with h | h; exact absurd h q0; exact h
    obtain ⟨a, b, hab, hna⟩ := List.eq_append_cons_of_mem hm
    subst hab
    have e : after q (a ++ q :: b ++ hi) = b ++ hi := by
      rw [after, if_neg q0]
      have : a ++ q :: b ++ hi = a ++ q :: (b ++ hi) := by simp
      rw [this, dropAfter_append _ _ _ hna]
    rw [e, walk_append cmp s k q b hi (fun x hx => hlo x (by simp [hx])) hhi, lastD_append]
    simp [lastD]


/-! ### towers: `chains[l] = level0.filter (height > l)` -/

/-- levels `l, l+1, …, l+n-1` over the level-0 chain `c0` -/
def tower (c0 : List Nat) (ht : Nat → Nat) : Nat → Nat → List (List Nat)
  | _, 0 => []
  | l, n + 1 => c0.filter (fun i => l < ht i) :: tower c0 ht (l + 1) n

/-- per level the last node of the `LT` part `lo0` that is tall enough (the head if none) -/
def preds (lo0 : List Nat) (ht : Nat → Nat) : Nat → Nat → List Nat
  | _, 0 => []
  | l, n + 1 => lastD (lo0.filter (fun i => l < ht i)) 0 :: preds lo0 ht (l + 1) n

theorem tower_length (c0 : List Nat) (ht : Nat → Nat) (l n : Nat) : (tower c0 ht l n).length = n := by
  induction n generalizing l with
  | zero => rfl
  | succ n ih => simp [tower, ih]

theorem tower_getD (c0 : List Nat) (ht : Nat → Nat) (l n j : Nat) (h : j < n) :
    (tower c0 ht l n).getD j [] = c0.filter (fun i => l + j < ht i) := by
  induction n generalizing l j with
  | zero => omega
  | succ n ih =>
    cases j with
    | zero => simp [tower]
    | succ j =>
      simp only [tower, List.getD_cons_succ]
      rw [ih (l + 1) j (by omega)]
      have e : l + 1 + j = l + (j + 1) := by omega
      rw [e]

theorem tower_congr (c0 : List Nat) (ht ht' : Nat → Nat) (l n : Nat) (h : ∀ i ∈ c0, ht' i = ht i) :
    tower c0 ht' l n = tower c0 ht l n := by
  induction n generalizing l with
  | zero => rfl
  | succ n ih =>
    simp only [tower, ih]
    congr 1
    apply List.filter_congr
    intro i hi; rw [h i hi]

/-- `skip`: on every level the recorded node is the predecessor on that level -/
theorem skipFrom_tower (cmp : K → K → Ordering) (s : State K V) (k : K) (lo0 hi0 : List Nat)
    (ht : Nat → Nat) (nd : (lo0 ++ hi0).Nodup) (nz : 0 ∉ lo0 ++ hi0)
    (hlo : ∀ x ∈ lo0, cmp (s.key x) k = .lt) (hhi : ∀ x ∈ hi0, cmp (s.key x) k ≠ .lt) (l n : Nat) :
    skipFrom cmp s k (tower (lo0 ++ hi0) ht l n)
      = (match n with | 0 => 0 | _ + 1 => lastD (lo0.filter (fun i => l < ht i)) 0, preds lo0 ht l n) := by
  induction n generalizing l with
  | zero => rfl
  | succ n ih =>
    have ndlo : lo0.Nodup := (List.nodup_append.mp nd).1
    have nzlo : 0 ∉ lo0 := fun h => nz (by simp [h])
    have key : walk cmp s k (skipFrom cmp s k (tower (lo0 ++ hi0) ht (l + 1) n)).1
          (after (skipFrom cmp s k (tower (lo0 ++ hi0) ht (l + 1) n)).1
            ((lo0 ++ hi0).filter (fun i => l < ht i)))
        = lastD (lo0.filter (fun i => l < ht i)) 0 := by
      rw [List.filter_append]
      apply walk_level
      · exact ndlo.filter _
      · intro h; exact nzlo (List.mem_filter.mp h).1
      · intro x hx; exact hlo x (List.mem_filter.mp hx).1
      · intro x hx; exact hhi x (List.mem_filter.mp hx).1
      · rw [ih (l + 1)]
        cases n with
        | zero => left; rfl
        | succ m =>
          simp only
          rcases lastD_mem_or (lo0.filter (fun i => l + 1 < ht i)) 0 with h | h
          · left; exact h
          · right
            have := List.mem_filter.mp h
            apply List.mem_filter.mpr
            refine ⟨this.1, ?_⟩
            have h2 := this.2
            simp only [decide_eq_true_eq] at h2 ⊢
            omega
    simp only [tower, skipFrom, preds, key]
    rw [ih (l + 1)]

/-- `search` visits the same nodes as `skip` -/
theorem searchFrom_eq (cmp : K → K → Ordering) (s : State K V) (k : K) (cs : List (List Nat)) :
    searchFrom cmp s k cs = (skipFrom cmp s k cs).1 := by
  induction cs with
  | nil => rfl
  | cons c cs ih => simp [searchFrom, skipFrom, ih]

/-- `Put`'s loop turns the tower over `lo0 ++ hi0` into the tower over `lo0 ++ n :: hi0` -/
theorem splice_tower (n h : Nat) (lo0 hi0 : List Nat) (ht ht' : Nat → Nat)
    (nd : (lo0 ++ hi0).Nodup) (nz : 0 ∉ lo0 ++ hi0)
    (hn : ht' n = h) (hagree : ∀ i ∈ lo0 ++ hi0, ht' i = ht i) (l m : Nat) :
    splice n h l (preds lo0 ht l m) (tower (lo0 ++ hi0) ht l m) = tower (lo0 ++ n :: hi0) ht' l m := by
  induction m generalizing l with
  | zero => simp [tower, preds, splice]
  | succ m ih =>
    have ndlo : lo0.Nodup := (List.nodup_append.mp nd).1
    have nzlo : 0 ∉ lo0 := fun h => nz (by simp [h])
    have flo : lo0.filter (fun i => l < ht' i) = lo0.filter (fun i => l < ht i) :=
      List.filter_congr (fun i hi => by rw [hagree i (by simp [hi])])
    have fhi : hi0.filter (fun i => l < ht' i) = hi0.filter (fun i => l < ht i) :=
      List.filter_congr (fun i hi => by rw [hagree i (by simp [hi])])
    simp only [tower, preds, splice, ih (l + 1)]
    congr 1
    rw [List.filter_append, List.filter_append, List.filter_cons, flo, fhi, hn]
    by_cases hl : l < h
    · simp only [hl, if_true, decide_true]
      apply relink_pred
      · exact ndlo.filter _
      · intro h; exact nzlo (List.mem_filter.mp h).1
    · simp [hl]

/-- `Remove`'s loop turns the tower over `lo0 ++ v :: rest0` into the tower over `lo0 ++ rest0` -/
theorem unlink_tower (v : Nat) (lo0 rest0 : List Nat) (ht : Nat → Nat)
    (nd : (lo0 ++ v :: rest0).Nodup) (nz : 0 ∉ lo0 ++ v :: rest0) (l m : Nat) :
    unlink v (ht v) l (preds lo0 ht l m) (tower (lo0 ++ v :: rest0) ht l m) = tower (lo0 ++ rest0) ht l m := by
  induction m generalizing l with
  | zero => simp [tower, preds, unlink]
  | succ m ih =>
    have ndlo : lo0.Nodup := (List.nodup_append.mp nd).1
    have nzlo : 0 ∉ lo0 := fun h => nz (by simp [h])
    have vrest : v ∉ rest0 := by
      have := (List.nodup_append.mp nd).2.1
      exact (List.nodup_cons.mp this).1
    simp only [tower, preds, unlink, ih (l + 1)]
    congr 1
    rw [List.filter_append, List.filter_append, relink_pred _ _ _ (ndlo.filter _)
      (fun h => nzlo (List.mem_filter.mp h).1)]
    congr 1
    rw [List.filter_cons]
    by_cases hl : l < ht v
    · simp [hl, unlinkAt]
    · simp only [hl, decide_false, Bool.false_eq_true, if_false]
      cases hf : rest0.filter (fun i => l < ht i) with
      | nil => rfl
      | cons y ys =>
        have hy : y ∈ rest0 := (List.mem_filter.mp (by rw [hf]; simp : y ∈ rest0.filter _)).1
        have : y ≠ v := fun e => vrest (e ▸ hy)
        simp [unlinkAt, this]

end Golem.Lemmas.Skiplist
