/-
Representation invariant of the linked queue (`Golem.Model.Queue`, pipe/queue.go) and the proof that
`enq`/`deq`/`head`/`emit` refine the FIFO list operations for every history and every
`sync.Pool` behaviour.  Core Lean only.
-/
import Golem.Model.Queue
namespace Golem.Model.Queue

variable {α : Type}

/-- `ids` is the chain of nodes reached from `cur` by following `next`, ending in `nil` -/
def Chain (q : Queue α) : Option Nat → List Nat → Prop
  | c, [] => c = none
  | c, i :: r => c = some i ∧ Chain q (q.node i).next r

/-- representation invariant, with the ghost list `ids` of chain nodes and the abstract content `vs` -/
structure Repr (q : Queue α) (ids : List Nat) (vs : List α) : Prop where
  /-- the chain from `head` is `ids` and ends in nil (acyclic, see `nodup`) -/
  chain : Chain q q.head ids
  /-- `tail` is the last node of the chain, nil iff the chain is empty -/
  tail_eq : q.tail = ids.getLast?
  /-- the chain nodes carry the abstract values -/
  vals : ids.map (fun i => (q.node i).value) = vs.map some
  /-- chain nodes are pairwise distinct, pooled nodes are pairwise distinct and disjoint from the chain -/
  nodup : (ids ++ q.pool).Nodup
  /-- every node in use is allocated -/
  bound : ∀ i ∈ ids ++ q.pool, i < q.size
  count : ids.length + q.pool.length ≤ q.size

/-- `q` represents the list `vs` -/
def Abs (q : Queue α) (vs : List α) : Prop := ∃ ids, Repr q ids vs

theorem chain_congr {q q' : Queue α} {ids : List Nat} (h : ∀ i ∈ ids, q'.node i = q.node i) :
    ∀ {c}, Chain q c ids → Chain q' c ids := by
  induction ids with
  | nil => intro c hc; exact hc
  | cons i r ih =>
    intro c hc
    refine ⟨hc.1, ?_⟩
    rw [h i (by simp)]
    exact ih (fun j hj => h j (by simp [hj])) hc.2

theorem chain_length {q : Queue α} {ids : List Nat} {c : Option Nat} (h : Chain q c ids) :
    c = ids.head? := by
  cases ids with
  | nil => exact h
  | cons i r => exact h.1

/-- appending node `v` behind the last node `t` -/
theorem chain_snoc {q q' : Queue α} {ini : List Nat} {t v : Nat}
    (hsame : ∀ i ∈ ini, q'.node i = q.node i)
    (ht : (q'.node t).next = some v) (hv : (q'.node v).next = none) :
    ∀ {c}, Chain q c (ini ++ [t]) → Chain q' c (ini ++ [t] ++ [v]) := by
  induction ini with
  | nil =>
    intro c hc
    exact ⟨hc.1, by rw [ht]; exact ⟨rfl, hv⟩⟩
  | cons i r ih =>
    intro c hc
    refine ⟨hc.1, ?_⟩
    rw [hsame i (by simp)]
    exact ih (fun j hj => hsame j (by simp [hj])) hc.2

theorem walk_chain {q : Queue α} {ids : List Nat} :
    ∀ {vs : List α} {c : Option Nat} {fuel : Nat}, Chain q c ids →
      ids.map (fun i => (q.node i).value) = vs.map some → ids.length ≤ fuel → walk q fuel c = vs := by
  induction ids with
  | nil =>
    intro vs c fuel hc hv _
    have : vs = [] := by cases vs <;> simp_all
    subst this
    have : c = none := hc
    subst this
    cases fuel <;> simp [walk]
  | cons i r ih =>
    intro vs c fuel hc hv hl
    cases vs with
    | nil => simp at hv
    | cons v vs' =>
      simp only [List.map_cons, List.cons.injEq] at hv
      cases fuel with
      | zero => simp at hl
      | succ f =>
        rw [hc.1]
        simp only [walk, hv.1]
        rw [ih hc.2 hv.2 (by simp at hl; omega)]
        rfl

theorem toList_eq {q : Queue α} {ids : List Nat} {vs : List α} (h : Repr q ids vs) : toList q = vs :=
  walk_chain h.chain h.vals (by have := h.count; omega)

theorem repr_newq : Repr (newq : Queue α) [] [] :=
  { chain := rfl, tail_eq := rfl, vals := rfl, nodup := by simp [newq], bound := by simp [newq], count := by simp [newq] }

/-- what `pool.Get()` guarantees, whatever node it picks -/
structure GetOk (q : Queue α) (ids : List Nat) (v : Nat) (q1 : Queue α) : Prop where
  head_eq : q1.head = q.head
  tail_eq : q1.tail = q.tail
  same : ∀ i ∈ ids, q1.node i = q.node i
  notin : v ∉ ids ++ q1.pool
  nodup : (ids ++ q1.pool).Nodup
  bound : ∀ i ∈ ids ++ q1.pool, i < q1.size
  vbound : v < q1.size
  count : ids.length + q1.pool.length + 1 ≤ q1.size

theorem fresh_ok {q : Queue α} {ids : List Nat} {vs : List α} (h : Repr q ids vs) :
    GetOk q ids (fresh q).1 (fresh q).2 := by
  refine { head_eq := rfl, tail_eq := rfl, same := ?_, notin := ?_, nodup := h.nodup, bound := ?_,
           vbound := by simp [fresh], count := by have := h.count; simp [fresh, setNode]; omega }
  · intro i hi
    have : i < q.size := h.bound i (by simp [hi])
    simp [fresh, setNode]; omega
  · intro hm
    have := h.bound q.size (by simpa [fresh, setNode] using hm)
    omega
  · intro i hi
    have := h.bound i (by simpa [fresh, setNode] using hi)
    simp [fresh, setNode]; omega

theorem get_ok {q : Queue α} {ids : List Nat} {vs : List α} (h : Repr q ids vs) (c : Option Nat) :
    GetOk q ids (get c q).1 (get c q).2 := by
  unfold get
  cases c with
  | none => exact fresh_ok h
  | some n =>
    simp only
    split
    next hn =>
      have hnd := h.nodup
      rw [List.nodup_append] at hnd
      obtain ⟨hids, hpool, hdisj⟩ := hnd
      refine { head_eq := rfl, tail_eq := rfl, same := fun _ _ => rfl, notin := ?_, nodup := ?_, bound := ?_,
               vbound := h.bound n (by simp [hn]), count := ?_ }
      · simp only [List.mem_append, not_or]
        exact ⟨fun hm => hdisj n hm n hn rfl, fun hm => ((List.Nodup.mem_erase_iff hpool).mp hm).1 rfl⟩
      · rw [List.nodup_append]
        exact ⟨hids, hpool.erase n, fun a ha b hb => hdisj a ha b (List.mem_of_mem_erase hb)⟩
      · intro i hi
        simp only [List.mem_append] at hi
        exact h.bound i (by rcases hi with hi | hi; simp [hi]; simp [List.mem_of_mem_erase hi])
      · have := h.count
        have := List.length_erase_of_mem hn
        have : 0 < q.pool.length := List.length_pos_of_mem hn
        simp only; omega
    next => exact fresh_ok h

/-- the part of `enq` after `pool.Get()` -/
def link (val : Nat) (x : α) (q : Queue α) : Queue α :=
  let q := setNode q val { value := some x, next := none }
  let q := match q.tail with
    | some t => setNode q t { q.node t with next := some val }
    | none => q
  let q := { q with tail := some val }
  match q.head with
  | none => { q with head := some val }
  | some _ => q

theorem enq_eq (c : Option Nat) (x : α) (q : Queue α) : enq c x q = link (get c q).1 x (get c q).2 := rfl

theorem link_repr {q q1 : Queue α} {ids : List Nat} {vs : List α} {val : Nat} (x : α)
    (h : Repr q ids vs) (g : GetOk q ids val q1) : Repr (link val x q1) (ids ++ [val]) (vs ++ [x]) := by
  have hnotin := g.notin
  simp only [List.mem_append, not_or] at hnotin
  obtain ⟨hvi, hvp⟩ := hnotin
  have hnd' : (ids ++ [val] ++ (link val x q1).pool).Nodup := by
    have hp : (link val x q1).pool = q1.pool := by
      unfold link setNode; simp only; split <;> split <;> rfl
    rw [hp]
    have := g.nodup
    rw [List.nodup_append] at this ⊢
    obtain ⟨h1, h2, h3⟩ := this
    refine ⟨?_, h2, ?_⟩
    · rw [List.nodup_append]
      exact ⟨h1, by simp, fun a ha b hb => by simp at hb; subst hb; exact fun e => hvi (e ▸ ha)⟩
    · intro a ha b hb
      simp only [List.mem_append, List.mem_singleton] at ha
      rcases ha with ha | ha
      · exact h3 a ha b hb
      · subst ha; exact fun e => hvp (e ▸ hb)
  have hsz : (link val x q1).size = q1.size := by
    unfold link setNode; simp only; split <;> split <;> rfl
  have hpool : (link val x q1).pool = q1.pool := by
    unfold link setNode; simp only; split <;> split <;> rfl
  have hbound : ∀ i ∈ ids ++ [val] ++ (link val x q1).pool, i < (link val x q1).size := by
    rw [hsz, hpool]
    intro i hi
    simp only [List.mem_append, List.mem_singleton] at hi
    rcases hi with (hi | hi) | hi
    · exact g.bound i (by simp [hi])
    · subst hi; exact g.vbound
    · exact g.bound i (by simp [hi])
  have hcount : (ids ++ [val]).length + (link val x q1).pool.length ≤ (link val x q1).size := by
    rw [hsz, hpool]; have := g.count; simp; omega
  cases hids : ids with
  | nil =>
    subst hids
    have hh : q1.head = none := by rw [g.head_eq]; exact h.chain
    have ht : q1.tail = none := by rw [g.tail_eq, h.tail_eq]; rfl
    have hvs : vs = [] := by have := h.vals; cases vs <;> simp_all
    subst hvs
    refine { chain := ?_, tail_eq := ?_, vals := ?_, nodup := hnd', bound := hbound, count := hcount }
    · simp [link, setNode, ht, hh, Chain]
    · simp [link, setNode, ht, hh]
    · simp [link, setNode, ht, hh]
  | cons i0 r0 =>
    have hne : ids ≠ [] := by rw [hids]; simp
    rw [← hids]
    obtain ⟨ini, t, hit⟩ : ∃ ini t, ids = ini ++ [t] := ⟨ids.dropLast, ids.getLast hne, (List.dropLast_concat_getLast hne).symm⟩
    have htl : q1.tail = some t := by rw [g.tail_eq, h.tail_eq, hit]; simp
    have hhd : q1.head = some i0 := by rw [g.head_eq, (chain_length h.chain), hids]; rfl
    have htv : t ≠ val := fun e => hvi (by rw [hit, ← e]; simp)
    have hnode : ∀ j, (link val x q1).node j =
        if j = t then { q1.node t with next := some val } else if j = val then { value := some x, next := none } else q1.node j := by
      intro j
      simp only [link, setNode, htl, hhd]
      by_cases hjt : j = t
      · subst hjt; simp [htv]
      · simp [hjt]
    have hhead : (link val x q1).head = q.head := by
      simp only [link, setNode, htl, hhd]; rw [← g.head_eq, hhd]
    have htail : (link val x q1).tail = some val := by
      simp only [link, setNode, htl, hhd]
    have hini : ∀ j ∈ ini, (link val x q1).node j = q.node j := by
      intro j hj
      have hjids : j ∈ ids := by rw [hit]; simp [hj]
      have hjt : j ≠ t := by
        intro e; subst e
        have hn := h.nodup
        rw [hit, List.nodup_append] at hn
        have hn1 := hn.1
        rw [List.nodup_append] at hn1
        exact hn1.2.2 j hj j (by simp) rfl
      have hjv : j ≠ val := fun e => hvi (e ▸ hjids)
      rw [hnode, if_neg hjt, if_neg hjv]
      exact g.same j hjids
    refine { chain := ?_, tail_eq := ?_, vals := ?_, nodup := hnd', bound := hbound, count := hcount }
    · rw [hhead, hit]
      refine chain_snoc hini ?_ ?_ (by rw [← hit]; exact h.chain)
      · rw [hnode]; simp
      · rw [hnode]; simp [Ne.symm htv]
    · rw [htail]; simp
    · have hv := h.vals
      rw [List.map_append, List.map_append, ← hv]
      congr 1
      · apply List.map_congr_left
        intro j hj
        rw [hnode]
        by_cases hjt : j = t
        · subst hjt; simp; rw [g.same j hj]
        · have hjv : j ≠ val := fun e => hvi (e ▸ hj)
          rw [if_neg hjt, if_neg hjv, g.same j hj]
      · simp [hnode, Ne.symm htv]

theorem enq_repr {q : Queue α} {ids : List Nat} {vs : List α} (h : Repr q ids vs) (c : Option Nat) (x : α) :
    Repr (enq c x q) (ids ++ [(get c q).1]) (vs ++ [x]) := by
  rw [enq_eq]; exact link_repr x h (get_ok h c)

theorem deq_nil {q : Queue α} {ids : List Nat} (h : Repr q ids []) : deq q = none := by
  have : ids = [] := by have := h.vals; cases ids <;> simp_all
  subst this
  have hh : q.head = none := h.chain
  simp [deq, hh]

/-- `deq` on a non-empty queue, as one record update -/
def deqTo (q : Queue α) (i : Nat) : Queue α :=
  { node := q.node, size := q.size, head := (q.node i).next,
    tail := if q.tail = some i then none else q.tail, pool := i :: q.pool }

theorem deq_eq {q : Queue α} {i : Nat} (hh : q.head = some i) :
    deq q = some ((q.node i).value, deqTo q i) := by
  simp only [deq, hh, deqTo]
  split <;> rfl

theorem deq_repr {q : Queue α} {ids : List Nat} {v : α} {vs : List α} (h : Repr q ids (v :: vs)) :
    ∃ q', deq q = some (some v, q') ∧ Repr q' ids.tail vs := by
  cases ids with
  | nil => have := h.vals; simp at this
  | cons i r =>
    have hh : q.head = some i := h.chain.1
    have hv := h.vals
    simp only [List.map_cons, List.cons.injEq] at hv
    have hnd := h.nodup
    have hir : i ∉ r := by
      intro hm
      rw [List.nodup_append] at hnd
      have := hnd.1
      simp at this
      exact this.1 hm
    refine ⟨deqTo q i, by rw [deq_eq hh, hv.1], ?_⟩
    simp only [List.tail_cons]
    have htail : q.tail = (i :: r).getLast? := h.tail_eq
    refine { chain := ?_, tail_eq := ?_, vals := hv.2, nodup := ?_, bound := ?_, count := ?_ }
    · exact chain_congr (q := q) (q' := deqTo q i) (fun _ _ => rfl) h.chain.2
    · show (if q.tail = some i then none else q.tail) = r.getLast?
      cases r with
      | nil => simp [htail]
      | cons j r' =>
        have hne : q.tail ≠ some i := by
          rw [htail]
          intro e
          rw [List.getLast?_cons_cons] at e
          exact hir (List.mem_of_getLast? e)
        rw [if_neg hne, htail, List.getLast?_cons_cons]
    · show (r ++ i :: q.pool).Nodup
      have hperm : (r ++ i :: q.pool).Perm (i :: r ++ q.pool) := List.perm_middle
      exact hperm.nodup_iff.mpr hnd
    · show ∀ j ∈ r ++ i :: q.pool, j < q.size
      intro j hj
      apply h.bound
      simp only [List.mem_append, List.mem_cons] at hj ⊢
      rcases hj with hj | hj | hj <;> simp [hj]
    · show r.length + (i :: q.pool).length ≤ q.size
      have := h.count
      simp at this ⊢; omega

theorem head_repr (zero : α) {q : Queue α} {ids : List Nat} {vs : List α} (h : Repr q ids vs) :
    head zero q = some (vs.headD zero) := by
  cases ids with
  | nil =>
    have : vs = [] := by have := h.vals; cases vs <;> simp_all
    subst this
    have hh : q.head = none := h.chain
    simp [head, hh]
  | cons i r =>
    have hh : q.head = some i := h.chain.1
    cases vs with
    | nil => have := h.vals; simp at this
    | cons v vs' =>
      have hv := h.vals
      simp only [List.map_cons, List.cons.injEq] at hv
      simp [head, hh, hv.1]

theorem emit_repr {q : Queue α} {ids : List Nat} {vs : List α} (h : Repr q ids vs) :
    emit q = !vs.isEmpty := by
  cases ids with
  | nil =>
    have : vs = [] := by have := h.vals; cases vs <;> simp_all
    subst this
    have hh : q.head = none := h.chain
    simp [emit, hh]
  | cons i r =>
    have hh : q.head = some i := h.chain.1
    cases vs with
    | nil => have := h.vals; simp at this
    | cons v vs' => simp [emit, hh]

/-- the FIFO specification of an operation sequence: dequeued values and final content -/
def spec : List (Op α) → List α → List α × List α
  | [], vs => ([], vs)
  | .enq _ x :: ops, vs => spec ops (vs ++ [x])
  | .deq :: ops, [] => spec ops []
  | .deq :: ops, v :: vs => let r := spec ops vs; (v :: r.1, r.2)

theorem run_refines (ops : List (Op α)) :
    ∀ {q : Queue α} {vs : List α}, Abs q vs →
      (run ops q).1 = (spec ops vs).1.map some ∧ Abs (run ops q).2 (spec ops vs).2 := by
  induction ops with
  | nil => intro q vs h; exact ⟨rfl, h⟩
  | cons op ops ih =>
    intro q vs ⟨ids, h⟩
    cases op with
    | enq c x => exact ih ⟨_, enq_repr h c x⟩
    | deq =>
      cases vs with
      | nil =>
        simp only [run, deq_nil h, spec]
        exact ih ⟨ids, h⟩
      | cons v vs' =>
        obtain ⟨q', hd, hr⟩ := deq_repr h
        simp only [run, hd, spec]
        have := ih ⟨_, hr⟩
        exact ⟨by simp [this.1], this.2⟩

end Golem.Model.Queue
