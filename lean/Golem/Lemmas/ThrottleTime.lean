/-
The token / time-stamp invariant `TInv` of the Throttling network: holds in every reachable state
that is not cancelled, for every schedule with time passing arbitrarily (late timers allowed).
Core Lean only.
-/
import Golem.Lemmas.ThrottleInv
namespace Golem.Go.Throttle
open Golem.Go

variable {α : Type}

/-- pacer: what its control point knows about the push history.
`push i`: every token of an earlier round is at least one interval old;
`wait due`: every token pushed so far is at least one interval older than the timer's due time -/
def PacerInv (p : Net α) : Prop :=
  match p.pc with
  | .push i => ∀ n a, n + i < p.P.length → p.P[n]? = some a → a + p.interval ≤ p.now
  | .wait due => ∀ a ∈ p.P, a + p.interval ≤ due
  | _ => True

structure TInv (p : Net α) : Prop where
  tokLen : p.P.length = p.C.length + p.ctl.buf.length
  ctlLe : p.ctl.buf.length ≤ p.ops
  /-- `C_n ≥ P_n` -/
  cp : Rel p.C p.P 0
  /-- `P_{n+ops} ≥ C_n` -/
  pc : Rel p.P p.C p.ops
  /-- `P_{n+ops} ≥ P_n + interval` -/
  pp : ∀ n a b, p.P[n + p.ops]? = some b → p.P[n]? = some a → a + p.interval ≤ b
  /-- `D_n ≥ C_n` -/
  dc : Rel p.D p.C 0
  /-- `C_{n+c+1} ≥ D_n` -/
  cd : Rel p.C p.D (p.out.cap + 1)
  pacer : PacerInv p

theorem tinv_init (ops interval c : Nat) : TInv (init ops interval c : Net α) := by
  constructor <;> simp [init, Rel, PacerInv]

/-- before cancellation: everything delivered or buffered has passed the gate, and at most one
element that passed the gate is not yet in `out` -/
theorem lens_of_inv {p : Net α} (h : Inv p) (hnc : p.cancelled = false) :
    p.D.length + p.out.buf.length ≤ p.C.length ∧ p.C.length ≤ p.D.length + p.out.buf.length + 1 := by
  have hd := h.data
  rw [h.dLen]
  unfold DInv at hd
  have key : ∀ w, ExitInv p w → p.delivered.length + p.out.buf.length = p.C.length := by
    intro w hw
    cases w with
    | eof =>
      simp only [ExitInv] at hw
      have := congrArg List.length hw.1
      simp at this; omega
    | done => simp only [ExitInv] at hw; rw [hnc] at hw; exact absurd hw.1 (by simp)
    | stop => exact absurd hw (by simp [ExitInv])
  cases hdc : p.dc with
  | idle =>
    simp only [hdc] at hd
    have := congrArg List.length hd.1
    simp at this; omega
  | gate a =>
    simp only [hdc] at hd
    have := congrArg List.length hd.1
    simp at this; omega
  | fwd a =>
    simp only [hdc] at hd
    have := congrArg List.length hd.1
    simp at this; omega
  | closing w =>
    simp only [hdc] at hd
    have := key w hd; omega
  | exited w =>
    simp only [hdc] at hd
    have := key w hd.1; omega

theorem getElem?_append_lt {l : List Nat} {t x n : Nat} (h : (l ++ [t])[n]? = some x) (hn : n < l.length) :
    l[n]? = some x := by
  rcases getElem?_append_one h with h | ⟨hn', _⟩
  · exact h
  · omega

theorem tinv_pacer {p q : Net α} (h : Inv p) (ht : TInv p) (hq : q ∈ pacerNext p)
    (hnc : q.cancelled = false) : TInv q := by
  have hpi := ht.pacer
  unfold pacerNext at hq
  cases hpc : p.pc with
  | push i =>
    have hcl : p.ctl.closed = false := by
      cases hc : p.ctl.closed with
      | false => rfl
      | true => have := h.ctlClosed hc; rw [hpc] at this; cases this
    simp only [PacerInv, hpc] at hpi
    simp only [hpc, hcl] at hq
    split at hq
    · rename_i hi
      rw [List.mem_append] at hq
      rcases hq with hq | hq
      · simp only [Bool.false_eq_true, if_false] at hq
        split at hq
        · rename_i hlt
          rw [List.mem_singleton] at hq
          subst hq
          have hcap := h.ctlCap
          have htl := ht.tokLen
          exact { ht with
            tokLen := by simp; omega
            ctlLe := by simp; omega
            cp := ht.cp.appendY (by omega)
            pc := ht.pc.appendX h.nowC
            pp := by
              intro n a b hb ha
              dsimp only at hb ha ⊢
              rcases getElem?_append_one hb with hb | ⟨hn, rfl⟩
              · have := lt_of_getElem? hb
                exact ht.pp n a b hb (getElem?_append_lt ha (by omega))
              · have hn' : n < p.P.length := by omega
                exact hpi n a (by omega) (getElem?_append_lt ha hn')
            pacer := by
              simp only [PacerInv]
              intro n a hn ha
              have hn' : n < p.P.length := by simp at hn; omega
              exact hpi n a (by simp at hn; omega) (getElem?_append_lt ha hn') }
        · simp at hq
      · split at hq
        · rename_i hcan
          rw [List.mem_singleton] at hq
          subst hq
          rw [hcan] at hnc; cases hnc
        · simp at hq
    · rw [List.mem_singleton] at hq
      subst hq
      exact { ht with
        pacer := by
          simp only [PacerInv]
          intro a ha
          have := h.nowP a ha
          omega }
  | wait due =>
    simp only [PacerInv, hpc] at hpi
    simp only [hpc] at hq
    rw [List.mem_append] at hq
    rcases hq with hq | hq
    · split at hq
      · rename_i hdue
        rw [List.mem_singleton] at hq
        subst hq
        exact { ht with
          pacer := by
            simp only [PacerInv]
            intro n a _ ha
            have := hpi a (mem_of_getElem? ha)
            omega }
      · simp at hq
    · split at hq
      · rename_i hcan
        rw [List.mem_singleton] at hq
        subst hq
        rw [hcan] at hnc; cases hnc
      · simp at hq
  | closing =>
    have := h.pcCancel (Or.inl hpc)
    have hcl : p.ctl.closed = false := by
      cases hc : p.ctl.closed with
      | false => rfl
      | true => have := h.ctlClosed hc; rw [hpc] at this; cases this
    simp only [hpc, hcl, Bool.false_eq_true, if_false, List.mem_singleton] at hq
    subst hq
    rw [this] at hnc; cases hnc
  | exited =>
    simp [hpc] at hq

theorem tinv_data {p q : Net α} (h : Inv p) (ht : TInv p) (hq : q ∈ dataNext p)
    (hnc : q.cancelled = false) : TInv q := by
  have hd := h.data
  unfold dataNext at hq
  cases hdc : p.dc with
  | idle =>
    simp only [hdc] at hq
    split at hq
    · rw [List.mem_singleton] at hq
      subst hq
      exact { ht with pacer := ht.pacer }
    · split at hq
      · rw [List.mem_singleton] at hq
        subst hq
        exact { ht with pacer := ht.pacer }
      · simp at hq
  | gate a =>
    simp only [hdc] at hq
    rw [List.mem_append] at hq
    rcases hq with hq | hq
    · split at hq
      · rename_i u rest hb
        rw [List.mem_singleton] at hq
        subst hq
        have hl := lens_of_inv h hnc
        have htl := ht.tokLen
        have hle := ht.ctlLe
        rw [hb] at htl hle
        simp at htl hle
        exact { ht with
          tokLen := by simp; omega
          ctlLe := by simp; omega
          cp := ht.cp.appendX h.nowP
          pc := ht.pc.appendY (by omega)
          dc := ht.dc.appendY (by omega)
          cd := ht.cd.appendX h.nowD
          pacer := ht.pacer }
      · split at hq
        · rename_i hb hcl
          have := h.pcCancel (Or.inr (h.ctlClosed hcl))
          rw [List.mem_singleton] at hq
          subst hq
          rw [this] at hnc; cases hnc
        · simp at hq
    · split at hq
      · rename_i hcan
        rw [List.mem_singleton] at hq
        subst hq
        rw [hcan] at hnc; cases hnc
      · simp at hq
  | fwd a =>
    have hop : p.out.closed = false := out_open_of_not_exited h (by intro w; rw [hdc]; intro hh; cases hh)
    simp only [hdc, hop] at hq
    rw [List.mem_append] at hq
    rcases hq with hq | hq
    · simp only [Bool.false_eq_true, if_false] at hq
      split at hq
      · rw [List.mem_singleton] at hq
        subst hq
        exact { ht with pacer := ht.pacer }
      · simp at hq
    · split at hq
      · rename_i hcan
        rw [List.mem_singleton] at hq
        subst hq
        rw [hcan] at hnc; cases hnc
      · simp at hq
  | closing w =>
    have hop : p.out.closed = false := out_open_of_not_exited h (by intro w; rw [hdc]; intro hh; cases hh)
    simp only [hdc, hop, Bool.false_eq_true, if_false, List.mem_singleton] at hq
    subst hq
    exact { ht with pacer := ht.pacer }
  | exited w =>
    simp [hdc] at hq

theorem tinv_env {p q : Net α} (h : Inv p) (ht : TInv p) {m : Move α} {o : Pool.Obs α}
    (hq : (q, o) ∈ envNext p m) (hnc : q.cancelled = false) : TInv q := by
  cases m with
  | send v =>
    simp only [envNext] at hq
    split at hq
    · simp at hq; rw [hq.1]; exact ht
    · split at hq
      · simp only [List.mem_singleton, Prod.mk.injEq] at hq
        obtain ⟨rfl, _⟩ := hq
        exact { ht with pacer := ht.pacer }
      · simp at hq; rw [hq.1]; exact ht
  | close =>
    simp only [envNext] at hq
    split at hq
    · simp at hq; rw [hq.1]; exact ht
    · simp only [List.mem_singleton, Prod.mk.injEq] at hq
      obtain ⟨rfl, _⟩ := hq
      exact { ht with pacer := ht.pacer }
  | recv =>
    simp only [envNext] at hq
    split at hq
    · rename_i v rest hb
      simp only [List.mem_singleton, Prod.mk.injEq] at hq
      obtain ⟨rfl, _⟩ := hq
      have hl := lens_of_inv h hnc
      have hcap := h.outCap
      exact { ht with
        dc := ht.dc.appendX h.nowC
        cd := ht.cd.appendY (by omega)
        pacer := ht.pacer }
    · rename_i hb
      split at hq
      · simp at hq; rw [hq.1]; exact ht
      · split at hq
        · rename_i a hdc
          simp only [List.mem_singleton, Prod.mk.injEq] at hq
          obtain ⟨rfl, _⟩ := hq
          have hl := lens_of_inv h hnc
          have hcap := h.outCap
          exact { ht with
            dc := ht.dc.appendX h.nowC
            cd := ht.cd.appendY (by omega)
            pacer := ht.pacer }
        · simp at hq; rw [hq.1]; exact ht
  | cancel =>
    simp only [envNext, List.mem_singleton, Prod.mk.injEq] at hq
    obtain ⟨rfl, _⟩ := hq
    cases hnc
  | tick d =>
    simp only [envNext, List.mem_singleton, Prod.mk.injEq] at hq
    obtain ⟨rfl, _⟩ := hq
    have hpi := ht.pacer
    exact { ht with
      pacer := by
        unfold PacerInv at hpi ⊢
        cases hpc : p.pc with
        | push i =>
          simp only [hpc] at hpi ⊢
          intro n a hn ha
          have := hpi n a hn ha
          omega
        | wait due => simpa [hpc] using hpi
        | closing => trivial
        | exited => trivial }

/-- cancellation is permanent -/
theorem cancelled_mono {p q : Net α} (hs : Step p q) (hnc : q.cancelled = false) : p.cancelled = false := by
  cases hc : p.cancelled with
  | false => rfl
  | true =>
    exfalso
    have : q.cancelled = true := by
      rcases hs with hq | ⟨m, o, hq⟩
      · unfold procNext at hq
        split at hq
        · simp at hq
        · rw [List.mem_append] at hq
          rcases hq with hq | hq
          · unfold pacerNext at hq
            repeat' split at hq
            all_goals (simp at hq)
            all_goals (first | (rcases hq with rfl | rfl <;> exact hc) | (subst hq; exact hc))
          · unfold dataNext at hq
            repeat' split at hq
            all_goals (simp at hq)
            all_goals (first | (rcases hq with rfl | rfl <;> exact hc) | (subst hq; exact hc))
      · cases m <;> simp only [envNext] at hq
        all_goals repeat' split at hq
        all_goals (simp at hq)
        all_goals (first | (obtain ⟨rfl, _⟩ := hq; first | exact hc | rfl))
    rw [this] at hnc; cases hnc

theorem tinv_step {p q : Net α} (h : Inv p) (ht : TInv p) (hs : Step p q) (hnc : q.cancelled = false) :
    TInv q := by
  rcases hs with hq | ⟨m, o, hq⟩
  · unfold procNext at hq
    rw [h.noPanic] at hq
    simp only [Bool.false_eq_true, if_false, List.mem_append] at hq
    rcases hq with hq | hq
    · exact tinv_pacer h ht hq hnc
    · exact tinv_data h ht hq hnc
  · exact tinv_env h ht hq hnc

theorem tinv_reachable {ops interval c : Nat} {p : Net α} (hr : Reachable (init ops interval c) p)
    (hnc : p.cancelled = false) : TInv p := by
  induction hr with
  | init => exact tinv_init ops interval c
  | step hr hs ih =>
    exact tinv_step (inv_reachable hr) (ih (cancelled_mono hs hnc)) hs hnc

end Golem.Go.Throttle
