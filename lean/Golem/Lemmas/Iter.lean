/-
Helper lemmas for C14: the representation relation `Repr c st l` ("the positioned iterator `st`
will yield exactly `l`, current element included, and every `Next()` on the way succeeds with
any fuel ≥ c") and one lemma per `Next()` method / constructor function of Model/Iter.
-/
import Golem.Model.Iter
set_option linter.unusedSimpArgs false
namespace Golem.Model.Iter
open St

/-- `st` is positioned on the first element of the non-empty list `l` and yields `l`. -/
def Repr {α : Type} (c : Nat) : St α → List α → Prop
  | _, [] => False
  | st, x :: xs => value st = .ok x ∧
      ∀ n, c ≤ n → ∃ st', next n st = .ok (st', !xs.isEmpty) ∧ (xs ≠ [] → Repr c st' xs)

/-- A `Seq` value (nil allowed) denotes `l`: nil iff `l` is empty. -/
def ReprO {α : Type} (c : Nat) (st : St α) : List α → Prop
  | [] => st = .nil
  | x :: xs => Repr c st (x :: xs)

theorem repr_nil_false {α : Type} {c : Nat} {st : St α} : ¬ Repr c st [] := by simp [Repr]

theorem repr_single {α : Type} {c : Nat} {st : St α} {x : α} :
    Repr c st [x] ↔ value st = .ok x ∧ ∀ n, c ≤ n → ∃ st', next n st = .ok (st', false) := by
  simp [Repr]

theorem repr_cons2 {α : Type} {c : Nat} {st : St α} {x y : α} {ys : List α} :
    Repr c st (x :: y :: ys) ↔ value st = .ok x ∧
      ∀ n, c ≤ n → ∃ st', next n st = .ok (st', true) ∧ Repr c st' (y :: ys) := by
  simp [Repr]

theorem Repr.value_eq {α : Type} {c : Nat} {st : St α} {x : α} {xs : List α}
    (h : Repr c st (x :: xs)) : value st = .ok x := h.1

theorem Repr.not_nil {α : Type} {c : Nat} {st : St α} {l : List α} (h : Repr c st l) :
    st.isNil = false := by
  cases l with
  | nil => exact absurd h repr_nil_false
  | cons x xs => cases st <;> simp_all [Repr, value, isNil]

theorem Repr.mono {α : Type} {c c' : Nat} {l : List α} : ∀ {st : St α}, Repr c st l → c ≤ c' → Repr c' st l := by
  induction l with
  | nil => intro st h; exact absurd h repr_nil_false
  | cons x xs ih =>
    intro st h hc
    refine ⟨h.1, fun n hn => ?_⟩
    obtain ⟨st', h1, h2⟩ := h.2 n (Nat.le_trans hc hn)
    exact ⟨st', h1, fun hne => ih (h2 hne) hc⟩

theorem ReprO.mono {α : Type} {c c' : Nat} {l : List α} {st : St α} (h : ReprO c st l) (hc : c ≤ c') :
    ReprO c' st l := by
  cases l with
  | nil => exact h
  | cons x xs => exact Repr.mono (l := x :: xs) h hc

theorem ReprO.isNil_iff {α : Type} {c : Nat} {l : List α} {st : St α} (h : ReprO c st l) :
    st.isNil = l.isEmpty := by
  cases l with
  | nil => simp [ReprO] at h; simp [h, isNil]
  | cons x xs => simpa using Repr.not_nil (l := x :: xs) h


@[simp] theorem isNil_nil {α : Type} : (St.nil : St α).isNil = true := rfl

/-! ### leaves -/

theorem repr_element {α : Type} {c : Nat} (hc : 1 ≤ c) (v : α) : Repr c (.element v) [v] := by
  rw [repr_single]
  refine ⟨rfl, fun n hn => ?_⟩
  cases n with
  | zero => omega
  | succ n => exact ⟨_, rfl⟩

theorem repr_seqOf {α : Type} {c : Nat} (hc : 1 ≤ c) (src : List α) :
    ∀ (k off : Nat), src.length - off = k + 1 → Repr c (.seqOf src off) (src.drop off) := by
  intro k
  induction k with
  | zero =>
    intro off h
    have hlt : off < src.length := by omega
    rw [List.drop_eq_getElem_cons hlt]
    have : src.drop (off + 1) = [] := by apply List.drop_eq_nil_of_le; omega
    rw [this, repr_single]
    refine ⟨by simp [value, hlt], fun n hn => ?_⟩
    cases n with
    | zero => omega
    | succ n => exact ⟨.seqOf src off, by simp [next, h]⟩
  | succ k ih =>
    intro off h
    have hlt : off < src.length := by omega
    have hlt2 : off + 1 < src.length := by omega
    rw [List.drop_eq_getElem_cons hlt, List.drop_eq_getElem_cons hlt2, repr_cons2]
    refine ⟨by simp [value, hlt], fun n hn => ?_⟩
    cases n with
    | zero => omega
    | succ n =>
      refine ⟨.seqOf src (off + 1), ?_, ?_⟩
      · have h1 : ¬ (src.length - off = 1) := by omega
        have h2 : ¬ (src.length ≤ off) := by omega
        simp [next, h1, h2]
      · rw [← List.drop_eq_getElem_cons hlt2]; exact ih (off + 1) (by omega)

theorem reprO_FromSlice {α : Type} {c : Nat} (hc : 1 ≤ c) (xs : List α) : ReprO c (FromSlice xs) xs := by
  cases xs with
  | nil => simp [FromSlice, ReprO]
  | cons x xs =>
    have := repr_seqOf hc (x :: xs) xs.length 0 (by simp)
    simpa [FromSlice, ReprO] using this

/-! ### takeWhile -/

theorem repr_takeWhile {α : Type} {c : Nat} (p : α → Bool) (xs : List α) :
    ∀ (inner : St α) (x : α), Repr c inner (x :: xs) →
      Repr (c + 1) (.takeWhile inner (some p)) (x :: xs.takeWhile p) := by
  induction xs with
  | nil =>
    intro inner x h
    have hn := h.not_nil
    rw [repr_single] at h
    simp only [List.takeWhile_nil, repr_single]
    refine ⟨h.1, fun n hn' => ?_⟩
    cases n with
    | zero => omega
    | succ n =>
      obtain ⟨st', h1⟩ := h.2 n (by omega)
      exact ⟨.takeWhile st' (some p), by simp [next, hn, h1]⟩
  | cons y ys ih =>
    intro inner x h
    have hn := h.not_nil
    rw [repr_cons2] at h
    by_cases hp : p y = true
    · simp only [List.takeWhile_cons, hp, if_true, repr_cons2]
      refine ⟨h.1, fun n hn' => ?_⟩
      cases n with
      | zero => omega
      | succ n =>
        obtain ⟨st', h1, h2⟩ := h.2 n (by omega)
        exact ⟨.takeWhile st' (some p), by simp [next, hn, h1, h2.value_eq, hp], ih st' y h2⟩
    · simp only [List.takeWhile_cons, hp, repr_single]
      refine ⟨h.1, fun n hn' => ?_⟩
      cases n with
      | zero => omega
      | succ n =>
        obtain ⟨st', h1, h2⟩ := h.2 n (by omega)
        exact ⟨.takeWhile st' none, by simp [next, hn, h1, h2.value_eq, hp]⟩

theorem reprO_TakeWhile {α : Type} {c : Nat} (p : α → Bool) {s : St α} {l : List α} (h : ReprO c s l) :
    ∃ s', TakeWhile s p = .ok s' ∧ ReprO (c + 1) s' (l.takeWhile p) := by
  cases l with
  | nil => simp [ReprO] at h; subst h; exact ⟨.nil, by simp [TakeWhile], by simp [ReprO]⟩
  | cons x xs =>
    have hr : Repr c s (x :: xs) := h
    by_cases hp : p x = true
    · refine ⟨.takeWhile s (some p), by simp [TakeWhile, hr.not_nil, hr.value_eq, hp], ?_⟩
      simpa [List.takeWhile_cons, hp, ReprO] using repr_takeWhile p xs s x hr
    · exact ⟨.nil, by simp [TakeWhile, hr.not_nil, hr.value_eq, hp], by simp [List.takeWhile_cons, hp, ReprO]⟩

/-! ### fmap -/

theorem repr_fmap {α β : Type} {c : Nat} (f : α → β) (xs : List α) :
    ∀ (inner : St α) (x : α), Repr c inner (x :: xs) →
      Repr (c + 1) (.fmap inner f) (f x :: xs.map f) := by
  induction xs with
  | nil =>
    intro inner x h
    rw [repr_single] at h
    simp only [List.map_nil, repr_single]
    refine ⟨by simp [value, h.1], fun n hn' => ?_⟩
    cases n with
    | zero => omega
    | succ n =>
      obtain ⟨st', h1⟩ := h.2 n (by omega)
      exact ⟨.fmap st' f, by simp [next, h1]⟩
  | cons y ys ih =>
    intro inner x h
    rw [repr_cons2] at h
    simp only [List.map_cons, repr_cons2]
    refine ⟨by simp [value, h.1], fun n hn' => ?_⟩
    cases n with
    | zero => omega
    | succ n =>
      obtain ⟨st', h1, h2⟩ := h.2 n (by omega)
      exact ⟨.fmap st' f, by simp [next, h1], ih st' y h2⟩

theorem reprO_Map {α β : Type} {c : Nat} (f : α → β) {s : St α} {l : List α} (h : ReprO c s l) :
    ReprO (c + 1) (Map s f) (l.map f) := by
  cases l with
  | nil => simp [ReprO] at h; subst h; simp [Map, ReprO]
  | cons x xs =>
    have hr : Repr c s (x :: xs) := h
    simpa [Map, hr.not_nil, ReprO] using repr_fmap f xs s x hr

/-! ### plus -/

theorem repr_plus_nil {α : Type} {c : Nat} (xs : List α) :
    ∀ (cur : St α) (x : α), Repr c cur (x :: xs) → Repr (c + 1) (.plus cur .nil) (x :: xs) := by
  induction xs with
  | nil =>
    intro cur x h
    rw [repr_single] at h
    rw [repr_single]
    refine ⟨by simp [value, h.1], fun n hn' => ?_⟩
    cases n with
    | zero => omega
    | succ n =>
      obtain ⟨st', h1⟩ := h.2 n (by omega)
      exact ⟨.plus st' .nil, by simp [next, h1]⟩
  | cons y ys ih =>
    intro cur x h
    rw [repr_cons2] at h
    rw [repr_cons2]
    refine ⟨by simp [value, h.1], fun n hn' => ?_⟩
    cases n with
    | zero => omega
    | succ n =>
      obtain ⟨st', h1, h2⟩ := h.2 n (by omega)
      exact ⟨.plus st' .nil, by simp [next, h1], ih st' y h2⟩

theorem repr_plus {α : Type} {c : Nat} {rhs : St α} {z : α} {zs : List α} (hr : Repr c rhs (z :: zs)) (xs : List α) :
    ∀ (cur : St α) (x : α), Repr c cur (x :: xs) →
      Repr (c + 1) (.plus cur rhs) (x :: (xs ++ z :: zs)) := by
  induction xs with
  | nil =>
    intro cur x h
    rw [repr_single] at h
    simp only [List.nil_append, repr_cons2]
    refine ⟨by simp [value, h.1], fun n hn' => ?_⟩
    cases n with
    | zero => omega
    | succ n =>
      obtain ⟨st', h1⟩ := h.2 n (by omega)
      exact ⟨.plus rhs .nil, by simp [next, h1, hr.not_nil], repr_plus_nil zs rhs z hr⟩
  | cons y ys ih =>
    intro cur x h
    rw [repr_cons2] at h
    simp only [List.cons_append, repr_cons2]
    refine ⟨by simp [value, h.1], fun n hn' => ?_⟩
    cases n with
    | zero => omega
    | succ n =>
      obtain ⟨st', h1, h2⟩ := h.2 n (by omega)
      exact ⟨.plus st' rhs, by simp [next, h1], ih st' y h2⟩

theorem reprO_Plus {α : Type} {c : Nat} {l r : St α} {xs ys : List α} (hl : ReprO c l xs) (hr : ReprO c r ys) :
    ReprO (c + 1) (Plus l r) (xs ++ ys) := by
  cases xs with
  | nil =>
    simp [ReprO] at hl; subst hl
    simpa [Plus] using hr.mono (Nat.le_succ c)
  | cons x xs =>
    have hl' : Repr c l (x :: xs) := hl
    cases ys with
    | nil =>
      simp [ReprO] at hr; subst hr
      simpa [Plus, hl'.not_nil, ReprO] using hl'.mono (Nat.le_succ c)
    | cons y ys =>
      have hr' : Repr c r (y :: ys) := hr
      simpa [Plus, hl'.not_nil, hr'.not_nil, ReprO] using repr_plus hr' xs l x hl'


/-! ### filter -/

theorem filterLoop_spec {α : Type} {c n : Nat} (hn : c ≤ n) (p : α → Bool) (xs : List α) :
    ∀ (inner : St α) (x : α) (m : Nat), Repr c inner (x :: xs) → xs.length < m →
      (xs.filter p = [] → ∃ st', filterLoop (next n) p m inner = .ok (st', false)) ∧
      (∀ y ys, xs.filter p = y :: ys → ∃ inner' zs,
          filterLoop (next n) p m inner = .ok (.filter inner' (some p), true) ∧
          Repr c inner' (y :: zs) ∧ zs.filter p = ys ∧ zs.length < xs.length) := by
  induction xs with
  | nil =>
    intro inner x m h hm
    rw [repr_single] at h
    obtain ⟨st', h1⟩ := h.2 n hn
    cases m with
    | zero => simp at hm
    | succ m =>
      refine ⟨fun _ => ⟨.filter st' (some p), by simp [filterLoop, h1]⟩, ?_⟩
      intro y ys hf; simp at hf
  | cons y ys ih =>
    intro inner x m h hm
    rw [repr_cons2] at h
    obtain ⟨st', h1, h2⟩ := h.2 n hn
    cases m with
    | zero => simp at hm
    | succ m =>
      by_cases hp : p y = true
      · refine ⟨fun hf => by simp [List.filter_cons, hp] at hf, ?_⟩
        intro y' ys' hf
        simp only [List.filter_cons, hp, if_true, List.cons.injEq] at hf
        obtain ⟨rfl, rfl⟩ := hf
        exact ⟨st', ys, by simp [filterLoop, h1, h2.value_eq, hp], h2, rfl, by simp⟩
      · have hm' : ys.length < m := by simp at hm; omega
        obtain ⟨ih1, ih2⟩ := ih st' y m h2 hm'
        have hl : filterLoop (next n) p (m + 1) inner = filterLoop (next n) p m st' := by
          simp [filterLoop, h1, h2.value_eq, hp]
        have hf' : (y :: ys).filter p = ys.filter p := by simp [List.filter_cons, hp]
        rw [hl, hf']
        refine ⟨ih1, ?_⟩
        intro y' ys' hf
        obtain ⟨inner', zs, e1, e2, e3, e4⟩ := ih2 y' ys' hf
        exact ⟨inner', zs, e1, e2, e3, by simp; omega⟩

theorem repr_filter {α : Type} {c : Nat} (p : α → Bool) :
    ∀ (k : Nat) (xs : List α) (inner : St α) (x : α), xs.length ≤ k → Repr c inner (x :: xs) →
      xs.length < c → Repr (c + 1) (.filter inner (some p)) (x :: xs.filter p) := by
  intro k
  induction k with
  | zero =>
    intro xs inner x hk h hc
    have : xs = [] := by cases xs <;> simp_all
    subst this
    have hnn := h.not_nil
    simp only [List.filter_nil, repr_single]
    refine ⟨by simpa [value] using h.value_eq, fun n hn => ?_⟩
    cases n with
    | zero => omega
    | succ n =>
      obtain ⟨h1, _⟩ := filterLoop_spec (n := n) (by omega) p [] inner x n h (by simp; omega)
      obtain ⟨st', e⟩ := h1 rfl
      exact ⟨st', by simp [next, hnn, e]⟩
  | succ k ih =>
    intro xs inner x hk h hc
    have hnn := h.not_nil
    cases hf : xs.filter p with
    | nil =>
      rw [repr_single]
      refine ⟨by simpa [value] using h.value_eq, fun n hn => ?_⟩
      cases n with
      | zero => omega
      | succ n =>
        obtain ⟨h1, _⟩ := filterLoop_spec (n := n) (by omega) p xs inner x n h (by omega)
        obtain ⟨st', e⟩ := h1 hf
        exact ⟨st', by simp [next, hnn, e]⟩
    | cons y ys =>
      rw [repr_cons2]
      refine ⟨by simpa [value] using h.value_eq, fun n hn => ?_⟩
      cases n with
      | zero => omega
      | succ n =>
        obtain ⟨_, h2⟩ := filterLoop_spec (n := n) (by omega) p xs inner x n h (by omega)
        obtain ⟨inner', zs, e1, e2, e3, e4⟩ := h2 y ys hf
        refine ⟨.filter inner' (some p), by simp [next, hnn, e1], ?_⟩
        rw [← e3]
        exact ih zs inner' y (by omega) e2 (by omega)

theorem filterInit_spec {α : Type} {c C : Nat} (hC : c ≤ C) (p : α → Bool) (xs : List α) :
    ∀ (s : St α) (x : α) (m : Nat), Repr c s (x :: xs) → xs.length < m → xs.length < c →
      ∃ s', filterInit C p m s = .ok s' ∧ ReprO (c + 1) s' ((x :: xs).filter p) := by
  induction xs with
  | nil =>
    intro s x m h hm hc
    cases m with
    | zero => simp at hm
    | succ m =>
      by_cases hp : p x = true
      · refine ⟨.filter s (some p), by simp [filterInit, h.value_eq, hp], ?_⟩
        simpa [List.filter_cons, hp, ReprO] using repr_filter p 0 [] s x (by simp) h hc
      · have h' := h
        rw [repr_single] at h'
        obtain ⟨st', h1⟩ := h'.2 C hC
        exact ⟨.nil, by simp [filterInit, h.value_eq, hp, h1], by simp [List.filter_cons, hp, ReprO]⟩
  | cons y ys ih =>
    intro s x m h hm hc
    cases m with
    | zero => simp at hm
    | succ m =>
      by_cases hp : p x = true
      · refine ⟨.filter s (some p), by simp [filterInit, h.value_eq, hp], ?_⟩
        have := repr_filter p (y :: ys).length (y :: ys) s x (Nat.le_refl _) h hc
        simpa [List.filter_cons (x := x), hp, ReprO] using this
      · have h' := h
        rw [repr_cons2] at h'
        obtain ⟨st', h1, h2⟩ := h'.2 C hC
        obtain ⟨s', e1, e2⟩ := ih st' y m h2 (by simp at hm; omega) (by simp at hc; omega)
        refine ⟨s', by simp [filterInit, h.value_eq, hp, h1, e1], ?_⟩
        have : (x :: y :: ys).filter p = (y :: ys).filter p := by simp [List.filter_cons (x := x), hp]
        rw [this]; exact e2

theorem reprO_Filter {α : Type} {c C : Nat} (hC : c ≤ C) (p : α → Bool) {s : St α} {l : List α}
    (h : ReprO c s l) (hl : l.length ≤ c) : ∃ s', Filter C s p = .ok s' ∧ ReprO (c + 1) s' (l.filter p) := by
  cases l with
  | nil => simp [ReprO] at h; subst h; exact ⟨.nil, by simp [Filter], by simp [ReprO]⟩
  | cons x xs =>
    have hr : Repr c s (x :: xs) := h
    obtain ⟨s', e1, e2⟩ := filterInit_spec hC p xs s x C hr (by simp at hl; omega) (by simp at hl; omega)
    exact ⟨s', by simp [Filter, hr.not_nil, e1], e2⟩

/-! ### dropWhile -/

theorem dropLoop_spec {α : Type} {c C : Nat} (hC : c ≤ C) (p : α → Bool) (xs : List α) :
    ∀ (s : St α) (x : α) (m : Nat), Repr c s (x :: xs) → xs.length < m →
      ∃ s', dropLoop C p m s = .ok s' ∧ ReprO c s' ((x :: xs).dropWhile p) := by
  induction xs with
  | nil =>
    intro s x m h hm
    cases m with
    | zero => simp at hm
    | succ m =>
      by_cases hp : p x = true
      · have h' := h
        rw [repr_single] at h'
        obtain ⟨st', h1⟩ := h'.2 C hC
        exact ⟨.nil, by simp [dropLoop, h.value_eq, hp, h1], by simp [List.dropWhile_cons, hp, ReprO]⟩
      · exact ⟨s, by simp [dropLoop, h.value_eq, hp], by simpa [List.dropWhile_cons, hp, ReprO] using h⟩
  | cons y ys ih =>
    intro s x m h hm
    cases m with
    | zero => simp at hm
    | succ m =>
      by_cases hp : p x = true
      · have h' := h
        rw [repr_cons2] at h'
        obtain ⟨st', h1, h2⟩ := h'.2 C hC
        obtain ⟨s', e1, e2⟩ := ih st' y m h2 (by simp at hm; omega)
        refine ⟨s', by simp [dropLoop, h.value_eq, hp, h1, e1], ?_⟩
        have : (x :: y :: ys).dropWhile p = (y :: ys).dropWhile p := by simp [List.dropWhile_cons (x := x), hp]
        rw [this]; exact e2
      · exact ⟨s, by simp [dropLoop, h.value_eq, hp], by simpa [List.dropWhile_cons (x := x), hp, ReprO] using h⟩

theorem reprO_DropWhile {α : Type} {c C : Nat} (hC : c ≤ C) (p : α → Bool) {s : St α} {l : List α}
    (h : ReprO c s l) (hl : l.length ≤ C) : ∃ s', DropWhile C s p = .ok s' ∧ ReprO c s' (l.dropWhile p) := by
  cases l with
  | nil => simp [ReprO] at h; subst h; exact ⟨.nil, by simp [DropWhile], by simp [ReprO]⟩
  | cons x xs =>
    have hr : Repr c s (x :: xs) := h
    obtain ⟨s', e1, e2⟩ := dropLoop_spec hC p xs s x C hr (by simp at hl; omega)
    exact ⟨s', by simp [DropWhile, hr.not_nil, e1], e2⟩


/-! ### join -/

/-- What the join lemmas assume about the stored user function on the elements it will be called on:
the call does not panic and its result denotes `g b` (nil iff empty). -/
def RhsOk {α β : Type} (c : Nat) (rhs : α → St β) (g : α → List β) (as : List α) : Prop :=
  ∀ b ∈ as, ∃ s, call rhs b = .ok s ∧ ReprO c s (g b)

theorem joinLoop_spec {α β : Type} {c n : Nat} (hn : c ≤ n) (rhs : α → St β) (g : α → List β) (as : List α) :
    ∀ (lhs : St α) (a : α) (m : Nat) (cur : St β), Repr c lhs (a :: as) → as.length < m → RhsOk c rhs g as →
      (as.flatMap g = [] → ∃ st', joinLoop (next n) rhs m cur lhs = .ok (st', false)) ∧
      (∀ z zs, as.flatMap g = z :: zs → ∃ cur' lhs' a' as',
          joinLoop (next n) rhs m cur lhs = .ok (.join cur' lhs' rhs, true) ∧
          Repr c lhs' (a' :: as') ∧ (∃ zs1, Repr c cur' (z :: zs1) ∧ zs = zs1 ++ as'.flatMap g) ∧
          as'.length < as.length ∧ (∀ b ∈ as', b ∈ as)) := by
  induction as with
  | nil =>
    intro lhs a m cur h hm _
    rw [repr_single] at h
    obtain ⟨st', h1⟩ := h.2 n hn
    cases m with
    | zero => simp at hm
    | succ m =>
      refine ⟨fun _ => ⟨.join cur st' rhs, by simp [joinLoop, h1]⟩, ?_⟩
      intro z zs hf; simp at hf
  | cons b bs ih =>
    intro lhs a m cur h hm hk
    rw [repr_cons2] at h
    obtain ⟨lhs', h1, h2⟩ := h.2 n hn
    obtain ⟨s, hs1, hs2⟩ := hk b (by simp)
    have hk' : RhsOk c rhs g bs := fun b' hb' => hk b' (by simp [hb'])
    cases m with
    | zero => simp at hm
    | succ m =>
      cases hg : g b with
      | nil =>
        rw [hg] at hs2
        simp [ReprO] at hs2; subst hs2
        have hm' : bs.length < m := by simp at hm; omega
        obtain ⟨ih1, ih2⟩ := ih lhs' b m .nil h2 hm' hk'
        have hl : joinLoop (next n) rhs (m + 1) cur lhs = joinLoop (next n) rhs m .nil lhs' := by
          simp [joinLoop, h1, h2.value_eq, hs1]
        have hf' : (b :: bs).flatMap g = bs.flatMap g := by simp [List.flatMap_cons, hg]
        rw [hl, hf']
        refine ⟨ih1, ?_⟩
        intro z zs hf
        obtain ⟨cur', lhs'', a', as', e1, e2, e3, e4, e5⟩ := ih2 z zs hf
        exact ⟨cur', lhs'', a', as', e1, e2, e3, by simp; omega, fun b' hb' => by simp [e5 b' hb']⟩
      | cons y ys =>
        rw [hg] at hs2
        have hs3 : Repr c s (y :: ys) := hs2
        refine ⟨fun hf => by simp [List.flatMap_cons, hg] at hf, ?_⟩
        intro z zs hf
        simp only [List.flatMap_cons, hg, List.cons_append, List.cons.injEq] at hf
        obtain ⟨rfl, rfl⟩ := hf
        exact ⟨s, lhs', b, bs, by simp [joinLoop, h1, h2.value_eq, hs1, hs3.not_nil], h2,
          ⟨ys, hs3, rfl⟩, by simp, fun b' hb' => by simp [hb']⟩

theorem repr_join {α β : Type} {c : Nat} (rhs : α → St β) (g : α → List β) :
    ∀ (k : Nat) (as : List α) (lhs : St α) (a : α), as.length ≤ k → Repr c lhs (a :: as) → as.length < c →
      RhsOk c rhs g as → ∀ (ys : List β) (cur : St β) (y : β), Repr c cur (y :: ys) →
        Repr (c + 1) (.join cur lhs rhs) (y :: (ys ++ as.flatMap g)) := by
  intro k
  induction k with
  | zero =>
    intro as lhs a hk h hc hr ys
    have : as = [] := by cases as <;> simp_all
    subst this
    induction ys with
    | nil =>
      intro cur y hcur
      simp only [List.flatMap_nil, List.append_nil]
      rw [repr_single] at hcur ⊢
      refine ⟨by simpa [value] using hcur.1, fun n hn => ?_⟩
      cases n with
      | zero => omega
      | succ n =>
        obtain ⟨cur', e⟩ := hcur.2 n (by omega)
        obtain ⟨h1, _⟩ := joinLoop_spec (n := n) (by omega) rhs g [] lhs a n cur' h (by simp; omega) hr
        obtain ⟨st', e'⟩ := h1 rfl
        exact ⟨st', by simp [next, e, e']⟩
    | cons y' ys' ihy =>
      intro cur y hcur
      simp only [List.flatMap_nil, List.append_nil] at ihy ⊢
      rw [repr_cons2] at hcur ⊢
      refine ⟨by simpa [value] using hcur.1, fun n hn => ?_⟩
      cases n with
      | zero => omega
      | succ n =>
        obtain ⟨cur', e, e2⟩ := hcur.2 n (by omega)
        exact ⟨.join cur' lhs rhs, by simp [next, e], ihy cur' y' e2⟩
  | succ k ih =>
    intro as lhs a hk h hc hr ys
    induction ys with
    | nil =>
      intro cur y hcur
      simp only [List.nil_append]
      rw [repr_single] at hcur
      cases hf : as.flatMap g with
      | nil =>
        rw [repr_single]
        refine ⟨by simpa [value] using hcur.1, fun n hn => ?_⟩
        cases n with
        | zero => omega
        | succ n =>
          obtain ⟨cur', e⟩ := hcur.2 n (by omega)
          obtain ⟨h1, _⟩ := joinLoop_spec (n := n) (by omega) rhs g as lhs a n cur' h (by omega) hr
          obtain ⟨st', e'⟩ := h1 hf
          exact ⟨st', by simp [next, e, e']⟩
      | cons z zs =>
        rw [repr_cons2]
        refine ⟨by simpa [value] using hcur.1, fun n hn => ?_⟩
        cases n with
        | zero => omega
        | succ n =>
          obtain ⟨cur', e⟩ := hcur.2 n (by omega)
          obtain ⟨_, h2⟩ := joinLoop_spec (n := n) (by omega) rhs g as lhs a n cur' h (by omega) hr
          obtain ⟨cur'', lhs', a', as', e1, e2, ⟨zs1, e3, e4⟩, e5, e6⟩ := h2 z zs hf
          refine ⟨.join cur'' lhs' rhs, by simp [next, e, e1], ?_⟩
          rw [e4]
          exact ih as' lhs' a' (by omega) e2 (by omega) (fun b hb => hr b (e6 b hb)) zs1 cur'' z e3
    | cons y' ys' ihy =>
      intro cur y hcur
      simp only [List.cons_append]
      rw [repr_cons2] at hcur ⊢
      refine ⟨by simpa [value] using hcur.1, fun n hn => ?_⟩
      cases n with
      | zero => omega
      | succ n =>
        obtain ⟨cur', e, e2⟩ := hcur.2 n (by omega)
        exact ⟨.join cur' lhs rhs, by simp [next, e], ihy cur' y' e2⟩

theorem joinInit_spec {α β : Type} {c C : Nat} (hC : c ≤ C) (rhs : α → St β) (g : α → List β) (as : List α) :
    ∀ (lhs : St α) (a : α) (m : Nat), Repr c lhs (a :: as) → as.length < m → as.length < c →
      RhsOk c rhs g (a :: as) →
      ∃ s', joinInit C rhs m lhs = .ok s' ∧ ReprO (c + 1) s' ((a :: as).flatMap g) := by
  induction as with
  | nil =>
    intro lhs a m h hm hc hk
    obtain ⟨s, hs1, hs2⟩ := hk a (by simp)
    cases m with
    | zero => simp at hm
    | succ m =>
      cases hg : g a with
      | nil =>
        rw [hg] at hs2; simp [ReprO] at hs2; subst hs2
        have h' := h
        rw [repr_single] at h'
        obtain ⟨st', h1⟩ := h'.2 C hC
        exact ⟨.nil, by simp [joinInit, h.value_eq, hs1, h1], by simp [hg, ReprO]⟩
      | cons y ys =>
        rw [hg] at hs2
        have hs3 : Repr c s (y :: ys) := hs2
        refine ⟨.join s lhs rhs, by simp [joinInit, h.value_eq, hs1, hs3.not_nil], ?_⟩
        have := repr_join rhs g 0 [] lhs a (by simp) h hc (fun b hb => by simp at hb) ys s y hs3
        simpa [hg, ReprO] using this
  | cons b bs ih =>
    intro lhs a m h hm hc hk
    obtain ⟨s, hs1, hs2⟩ := hk a (by simp)
    have hk' : RhsOk c rhs g (b :: bs) := fun b' hb' => hk b' (List.mem_cons_of_mem _ hb')
    cases m with
    | zero => simp at hm
    | succ m =>
      cases hg : g a with
      | nil =>
        rw [hg] at hs2; simp [ReprO] at hs2; subst hs2
        have h' := h
        rw [repr_cons2] at h'
        obtain ⟨lhs', h1, h2⟩ := h'.2 C hC
        obtain ⟨s', e1, e2⟩ := ih lhs' b m h2 (by simp at hm; omega) (by simp at hc; omega) hk'
        refine ⟨s', by simp [joinInit, h.value_eq, hs1, h1, e1], ?_⟩
        have : (a :: b :: bs).flatMap g = (b :: bs).flatMap g := by simp [List.flatMap_cons, hg]
        rw [this]; exact e2
      | cons y ys =>
        rw [hg] at hs2
        have hs3 : Repr c s (y :: ys) := hs2
        refine ⟨.join s lhs rhs, by simp [joinInit, h.value_eq, hs1, hs3.not_nil], ?_⟩
        have := repr_join rhs g (b :: bs).length (b :: bs) lhs a (Nat.le_refl _) h hc hk' ys s y hs3
        simpa [List.flatMap_cons (x := a), hg, ReprO] using this

theorem reprO_Join {α β : Type} {c C : Nat} (hC : c ≤ C) (rhs : α → St β) (g : α → List β) {lhs : St α}
    {l : List α} (h : ReprO c lhs l) (hl : l.length ≤ c) (hk : RhsOk c rhs g l) :
    ∃ s', Join C lhs rhs = .ok s' ∧ ReprO (c + 1) s' (l.flatMap g) := by
  cases l with
  | nil => simp [ReprO] at h; subst h; exact ⟨.nil, by simp [Join], by simp [ReprO]⟩
  | cons x xs =>
    have hr : Repr c lhs (x :: xs) := h
    obtain ⟨s', e1, e2⟩ := joinInit_spec hC rhs g xs lhs x C hr (by simp at hl; omega) (by simp at hl; omega) hk
    exact ⟨s', by simp [Join, hr.not_nil, e1], e2⟩

/-! ### consumers -/

theorem drainLoop_spec {α : Type} {c : Nat} (xs : List α) :
    ∀ (s : St α) (x : α) (m : Nat), Repr c s (x :: xs) → xs.length < m →
      drainLoop c m s = .ok (x :: xs) := by
  induction xs with
  | nil =>
    intro s x m h hm
    cases m with
    | zero => simp at hm
    | succ m =>
      have h' := h
      rw [repr_single] at h'
      obtain ⟨st', h1⟩ := h'.2 c (Nat.le_refl _)
      simp [drainLoop, h.value_eq, h1]
  | cons y ys ih =>
    intro s x m h hm
    cases m with
    | zero => simp at hm
    | succ m =>
      have h' := h
      rw [repr_cons2] at h'
      obtain ⟨st', h1, h2⟩ := h'.2 c (Nat.le_refl _)
      simp [drainLoop, h.value_eq, h1, ih st' y m h2 (by simp at hm; omega)]

theorem drain_spec {α : Type} {c : Nat} {s : St α} {l : List α} (h : ReprO c s l) (hl : l.length < c) :
    drain c s = .ok l := by
  cases l with
  | nil => simp [ReprO] at h; subst h; simp [drain]
  | cons x xs =>
    have hr : Repr c s (x :: xs) := h
    simp [drain, hr.not_nil, drainLoop_spec xs s x c hr (by simp at hl; omega)]

theorem forEachLoop_spec {α σ ε : Type} {c : Nat} (f : σ → α → σ × Option ε) (xs : List α) :
    ∀ (s : St α) (x : α) (m : Nat) (acc : σ), Repr c s (x :: xs) → xs.length < m →
      forEachLoop c f m acc s = .ok (visit f acc (x :: xs)) := by
  induction xs with
  | nil =>
    intro s x m acc h hm
    cases m with
    | zero => simp at hm
    | succ m =>
      have h' := h
      rw [repr_single] at h'
      obtain ⟨st', h1⟩ := h'.2 c (Nat.le_refl _)
      rcases hf : f acc x with ⟨acc', _ | err⟩ <;> simp [forEachLoop, visit, h.value_eq, h1, hf]
  | cons y ys ih =>
    intro s x m acc h hm
    cases m with
    | zero => simp at hm
    | succ m =>
      have h' := h
      rw [repr_cons2] at h'
      obtain ⟨st', h1, h2⟩ := h'.2 c (Nat.le_refl _)
      rcases hf : f acc x with ⟨acc', _ | err⟩
      · have := ih st' y m acc' h2 (by simp at hm; omega)
        simp only [forEachLoop, h.value_eq, hf, h1, if_true, this]
        conv => rhs; rw [visit, hf]
      · simp [forEachLoop, visit, h.value_eq, hf]

theorem forEach_spec {α σ ε : Type} {c : Nat} {s : St α} {l : List α} (f : σ → α → σ × Option ε) (acc : σ)
    (h : ReprO c s l) (hl : l.length < c) : ForEach c s f acc = .ok (visit f acc l) := by
  cases l with
  | nil => simp [ReprO] at h; subst h; simp [ForEach, visit]
  | cons x xs =>
    have hr : Repr c s (x :: xs) := h
    simp [ForEach, hr.not_nil, forEachLoop_spec f xs s x c acc hr (by simp at hl; omega)]

/-! ### fuel bookkeeping -/

theorem sumOver_mem {α : Type} (f : α → Nat) {l : List α} {a : α} (h : a ∈ l) : f a ≤ sumOver f l := by
  induction l with
  | nil => simp at h
  | cons b bs ih =>
    rcases List.mem_cons.mp h with rfl | h'
    · simp [sumOver]
    · have := ih h'; simp [sumOver]; omega

theorem length_flatMap_le {α β : Type} (f : α → Nat) (g : α → List β) (l : List α)
    (h : ∀ a ∈ l, (g a).length ≤ f a) : (l.flatMap g).length ≤ sumOver f l := by
  induction l with
  | nil => simp [sumOver]
  | cons b bs ih =>
    have h1 := h b (by simp)
    have h2 := ih (fun a ha => h a (by simp [ha]))
    simp only [List.flatMap_cons, List.length_append, sumOver]; omega

theorem call_toFailed {α β : Type} {c : Nat} (r : α → Except Err (St β)) (b : α) {sb : St β} {l : List β}
    (hb : r b = .ok sb) (hr : ReprO c sb l) : call (fun a => toFailed (r a)) b = .ok sb := by
  cases sb with
  | failed e =>
    cases l with
    | nil => simp [ReprO] at hr
    | cons x xs => have := Repr.value_eq (show Repr c (.failed e) (x :: xs) from hr); simp [value] at this
  | _ => simp [call, toFailed, hb]

end Golem.Model.Iter
