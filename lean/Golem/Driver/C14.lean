/- Oracle driver for C14 (stub: replaced when the property's model is built). -/
import Golem.Driver.Util
namespace Golem.Driver.C14
def main : IO Unit := IO.eprintln "oracle: no driver for C14 yet"
end Golem.Driver.C14
