/-
Oracle for C14: runs the executable model of seq.go (`Golem.Model.Iter.eval` /
`evalForEach`, the very definitions `Props/C14` is about) on expression-tree case lines.

case line:   `<errAt> <expr>`            errAt = 0-based visit index at which the ForEach
                                          callback returns an error (-1: never)
expr (prefix): F <t> | S <n> <t>*n | TW <p> <e> | DW <p> <e> | FI <p> <e> | MP <m> <e>
             | PL <e> <e> | JN <e> <body>     (body: expr that may mention the join variable)
term  <t>:   integer literal | $<i>:<c>      (value of the i-th enclosing join variable, innermost
                                              = 0, plus c)
pred  <p>:   lt:<k> ge:<k> even odd T N ltv:<i> nev:<i>
map   <m>:   inc dbl neg mod3 addv:<i>
result line: `<drained>|<visited by ForEach>|<err>`   lists space separated, err = `E<idx>` or `-`
-/
import Golem.Model.Iter
import Golem.Driver.Util
namespace Golem.Driver.C14
open Golem.Model.Iter Golem.Driver

inductive Term where
  | lit (c : Int)
  | var (i : Nat) (c : Int)

inductive Pred where
  | lt (k : Int) | ge (k : Int) | even | odd | tt | ff | ltv (i : Nat) | nev (i : Nat)

inductive Mp where
  | inc | dbl | neg | mod3 | addv (i : Nat)

inductive Syn where
  | from (t : Term)
  | slice (ts : List Term)
  | tw (p : Pred) (e : Syn)
  | dw (p : Pred) (e : Syn)
  | fi (p : Pred) (e : Syn)
  | mp (m : Mp) (e : Syn)
  | pl (a b : Syn)
  | jn (e body : Syn)

abbrev Env := List Int

def Term.eval (env : Env) : Term → Int
  | .lit c => c
  | .var i c => env.getD i 0 + c

def Pred.eval (env : Env) : Pred → Int → Bool
  | .lt k => fun v => v < k
  | .ge k => fun v => v ≥ k
  | .even => fun v => Int.tmod v 2 == 0
  | .odd => fun v => Int.tmod v 2 != 0
  | .tt => fun _ => true
  | .ff => fun _ => false
  | .ltv i => fun v => v < env.getD i 0
  | .nev i => fun v => v != env.getD i 0

def Mp.eval (env : Env) : Mp → Int → Int
  | .inc => fun v => v + 1
  | .dbl => fun v => v * 2
  | .neg => fun v => -v
  | .mod3 => fun v => Int.tmod v 3
  | .addv i => fun v => v + env.getD i 0

/-- The closed expression denoted by the syntax under an environment: join bodies become Lean
functions `fun x => toExpr (x :: env) body`. -/
def toExpr (env : Env) : Syn → Expr Int
  | .from t => .from (t.eval env)
  | .slice ts => .fromSlice (ts.map (Term.eval env))
  | .tw p e => .takeWhile (toExpr env e) (p.eval env)
  | .dw p e => .dropWhile (toExpr env e) (p.eval env)
  | .fi p e => .filter (toExpr env e) (p.eval env)
  | .mp m e => .map (toExpr env e) (m.eval env)
  | .pl a b => .plus (toExpr env a) (toExpr env b)
  | .jn e body => .join (toExpr env e) (fun x => toExpr (x :: env) body)

/-! parsing -/

def splitColon (s : String) : String × Option String :=
  match s.splitOn ":" with
  | [a] => (a, none)
  | [a, b] => (a, some b)
  | _ => (s, none)

def parseTerm (s : String) : Option Term :=
  if s.startsWith "$" then
    match splitColon (s.drop 1).toString with
    | (i, some c) => do let i ← i.toNat?; let c ← c.toInt?; pure (.var i c)
    | _ => none
  else s.toInt?.map .lit

def parsePred (s : String) : Option Pred :=
  match splitColon s with
  | ("lt", some k) => k.toInt?.map .lt
  | ("ge", some k) => k.toInt?.map .ge
  | ("ltv", some i) => i.toNat?.map .ltv
  | ("nev", some i) => i.toNat?.map .nev
  | ("even", none) => some .even
  | ("odd", none) => some .odd
  | ("T", none) => some .tt
  | ("N", none) => some .ff
  | _ => none

def parseMp (s : String) : Option Mp :=
  match splitColon s with
  | ("inc", none) => some .inc
  | ("dbl", none) => some .dbl
  | ("neg", none) => some .neg
  | ("mod3", none) => some .mod3
  | ("addv", some i) => i.toNat?.map .addv
  | _ => none

def parseTerms : Nat → List String → Option (List Term × List String)
  | 0, ws => some ([], ws)
  | n+1, w :: ws => do
    let t ← parseTerm w
    let (ts, rest) ← parseTerms n ws
    pure (t :: ts, rest)
  | _, [] => none

partial def parseSyn : List String → Option (Syn × List String)
  | "F" :: t :: rest => do pure (.from (← parseTerm t), rest)
  | "S" :: n :: rest => do
    let (ts, rest) ← parseTerms (← n.toNat?) rest
    pure (.slice ts, rest)
  | "TW" :: p :: rest => do let p ← parsePred p; let (e, rest) ← parseSyn rest; pure (.tw p e, rest)
  | "DW" :: p :: rest => do let p ← parsePred p; let (e, rest) ← parseSyn rest; pure (.dw p e, rest)
  | "FI" :: p :: rest => do let p ← parsePred p; let (e, rest) ← parseSyn rest; pure (.fi p e, rest)
  | "MP" :: m :: rest => do let m ← parseMp m; let (e, rest) ← parseSyn rest; pure (.mp m e, rest)
  | "PL" :: rest => do let (a, rest) ← parseSyn rest; let (b, rest) ← parseSyn rest; pure (.pl a b, rest)
  | "JN" :: rest => do let (a, rest) ← parseSyn rest; let (b, rest) ← parseSyn rest; pure (.jn a b, rest)
  | _ => none

def showErr : Err → String
  | .nilDeref => "panic:nil"
  | .index => "panic:index"
  | .fuel => "fuel"

/-- ForEach callback of the protocol: state = (number of visits so far, log), error at visit `errAt`. -/
def callback (errAt : Int) : (Nat × List Int) → Int → (Nat × List Int) × Option Nat :=
  fun (n, log) v => ((n + 1, log ++ [v]), if (n : Int) = errAt then some n else none)

def step (line : String) : String :=
  match words line with
  | errAt :: toks =>
    match errAt.toInt?, parseSyn toks with
    | some errAt, some (syn, []) =>
      let e := toExpr [] syn
      let d := match eval e with
        | .ok l => showInts l
        | .error x => showErr x
      let f := match evalForEach e (callback errAt) (0, []) with
        | .ok ((_, log), err) => showInts log ++ "|" ++ (match err with | some i => s!"E{i}" | none => "-")
        | .error x => showErr x
      d ++ "|" ++ f
    | _, _ => "bad-case"
  | _ => "bad-case"

def main : IO Unit := eachLine step
end Golem.Driver.C14
