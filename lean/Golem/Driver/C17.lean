/- Oracle driver for C17 (stub: replaced when the property's model is built). -/
import Golem.Driver.Util
namespace Golem.Driver.C17
def main : IO Unit := IO.eprintln "oracle: no driver for C17 yet"
end Golem.Driver.C17
