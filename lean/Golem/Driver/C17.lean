/- Oracle for C17.  Evaluates the HAND model only: Go's built-in `==`/`<` from Model/GoOrd and a
hand-written mirror of the wrappers of pure/eq, pure/ord, pure/monoid, pure/semigroup in a
call-logging monad.  Gen/Pure.lean (what the theorems are about) is deliberately not imported;
the mirror below is the specification the theorems of Props/C17 establish for the generated
definitions (`contramap_*`, `from_id`, `monoid_*`, `compare_spec`), so harness = oracle means the
real code behaves like the translated term.  Protocol: see go/harness/pure/main.go. -/
import Golem.Model.GoOrd
import Golem.Driver.Util
namespace Golem.Driver.C17
open Golem.Model.GoOrd Golem.Driver

abbrev Log := StateM (List String)
def say (s : String) : Log Unit := modify (· ++ [s])

/-- ord[T].Compare: LT = -1, EQ = 0, GT = 1 -/
def compare {T : Type} [GoOrd T] (a b : T) : Int := if goLt a b then -1 else if goLt b a then 1 else 0

def hexDigit (c : Char) : Option Nat :=
  if '0' ≤ c ∧ c ≤ '9' then some (c.toNat - '0'.toNat)
  else if 'a' ≤ c ∧ c ≤ 'f' then some (c.toNat - 'a'.toNat + 10)
  else if 'A' ≤ c ∧ c ≤ 'F' then some (c.toNat - 'A'.toNat + 10)
  else none

def unhexChars : List Char → Option GoString
  | [] => some []
  | a :: b :: r => do
    let x ← hexDigit a; let y ← hexDigit b; let rest ← unhexChars r
    pure (UInt8.ofNat (16 * x + y) :: rest)
  | _ => none

def unhex (s : String) : Option GoString := if s == "-" then some [] else unhexChars s.toList

def hexNib (n : Nat) : Char := if n < 10 then Char.ofNat (n + '0'.toNat) else Char.ofNat (n - 10 + 'a'.toNat)

def hx (s : GoString) : String :=
  if s.isEmpty then "-" else String.ofList (s.flatMap fun b => [hexNib (b.toNat / 16), hexNib (b.toNat % 16)])

/-- Go int arithmetic wraps modulo 2^64. -/
def wrap64 (z : Int) : Int := (z + 9223372036854775808) % 18446744073709551616 - 9223372036854775808

-- the user functions of the harness
def lt (x y : Int) : Log Bool := do say s!"b:{x}:{y}"; pure (decide (x < y))
def odd (x y : Int) : Log Int := do say s!"b:{x}:{y}"; pure (if x < y then 5 else if x = y then -7 else 0)
def sub (a b : Int) : Log Int := do say s!"s:{a}:{b}"; pure (wrap64 (a - b))
def concat (a b : GoString) : Log GoString := do say s!"s:{hx a}:{hx b}"; pure (a ++ b)
def divk (k : Int) (x : Int) : Log Int := do say s!"p:{x}"; pure (Int.tdiv x k)   -- Go's `/` truncates
def projs (k : Nat) (s : GoString) : Log Int := do
  say s!"p:{hx s}"
  match k with
  | 0 => pure s.length
  | 1 => pure (match s with | [] => -1 | b :: _ => b.toNat)
  | _ => pure (((s.map (·.toNat)).foldl (· + ·) 0 % 7 : Nat) : Int)

-- mirror of the wrappers
def contraMap {A B R : Type} (base : A → A → Log R) (p : B → Log A) (a b : B) : Log R := do
  let x ← p a; let y ← p b; base x y
def fromF {T R : Type} (f : T → T → Log R) (a b : T) : Log R := f a b
structure Mon (T : Type) where
  empty : Unit → Log T
  combine : T → T → Log T
def monoidFromOp {T : Type} (e : T) (op : T → T → Log T) : Mon T := ⟨fun _ => pure e, fun a b => fromF op a b⟩
def monoidFrom {T : Type} (e : T) (sg : T → T → Log T) : Mon T := ⟨fun _ => pure e, sg⟩

def fin {R : Type} (sh : R → String) (c : Log R) : String :=
  let (r, tr) := c.run []
  s!"{sh r} | {" ".intercalate tr}"

def showB (b : Bool) : String := if b then "true" else "false"

def triple {T : Type} [GoOrd T] (a b c : T) : String :=
  s!"{compare a b} {compare b a} {compare b c} {compare a c} {showB (goEq a b)} {showB (goEq b a)} {showB (goEq b c)} {showB (goEq a c)} {showB (goEq a a)}"

def monLine {T : Type} (sh : T → String) (m : Mon T) (a b : T) : String :=
  fin id (do let e ← m.empty (); let c ← m.combine a b; pure s!"{sh e} {sh c}")

def inRange (z : Int) : Bool := -9223372036854775808 ≤ z && z ≤ 9223372036854775807

def intsOf (ws : List String) : Option (List Int) := do
  let v ← ints ws
  if v.all inRange then some v else none

def step (line : String) : String :=
  let bad := "bad-op"
  match words line with
  | [] => bad
  | op :: args =>
    match op, args with
    | "eqi", [a, b] => match intsOf [a, b] with | some [a, b] => showB (goEq a b) | _ => bad
    | "ordi", [a, b] => match intsOf [a, b] with | some [a, b] => toString (compare a b) | _ => bad
    | "eqs", [a, b] => match unhex a, unhex b with | some a, some b => showB (goEq a b) | _, _ => bad
    | "ords", [a, b] => match unhex a, unhex b with | some a, some b => toString (compare a b) | _, _ => bad
    | "tri", [a, b, c] => match intsOf [a, b, c] with | some [a, b, c] => triple a b c | _ => bad
    | "trs", [a, b, c] => match unhex a, unhex b, unhex c with | some a, some b, some c => triple a b c | _, _, _ => bad
    | "cme", [k, a, b] => match intsOf [k, a, b] with
      | some [k, a, b] => if k ≤ 0 then bad else fin showB (contraMap (fromF lt) (divk k) a b)
      | _ => bad
    | "cmo", [k, a, b] => match intsOf [k, a, b] with
      | some [k, a, b] => if k ≤ 0 then bad else fin toString (contraMap (fromF odd) (divk k) a b)
      | _ => bad
    | "cmes", [k, a, b] => match k.toInt?, unhex a, unhex b with
      | some k, some a, some b => if k < 0 ∨ k > 2 then bad else fin showB (contraMap (fun x y => pure (goEq x y)) (projs k.toNat) a b)
      | _, _, _ => bad
    | "cmos", [k, a, b] => match k.toInt?, unhex a, unhex b with
      | some k, some a, some b => if k < 0 ∨ k > 2 then bad else fin toString (contraMap (fun x y => pure (compare x y)) (projs k.toNat) a b)
      | _, _, _ => bad
    | "fre", [a, b] => match intsOf [a, b] with | some [a, b] => fin showB (fromF lt a b) | _ => bad
    | "fro", [a, b] => match intsOf [a, b] with | some [a, b] => fin toString (fromF odd a b) | _ => bad
    | "sgi", [a, b] => match intsOf [a, b] with | some [a, b] => fin toString (fromF sub a b) | _ => bad
    | "sgs", [a, b] => match unhex a, unhex b with | some a, some b => fin hx (fromF concat a b) | _, _ => bad
    | "moi", [e, a, b] => match intsOf [e, a, b] with | some [e, a, b] => monLine toString (monoidFromOp e sub) a b | _ => bad
    | "mmi", [e, a, b] => match intsOf [e, a, b] with | some [e, a, b] => monLine toString (monoidFrom e (fromF sub)) a b | _ => bad
    | "mfi", [e, a, b] => match intsOf [e, a, b] with | some [e, a, b] => monLine toString (monoidFrom e (fromF sub)) a b | _ => bad
    | "mos", [e, a, b] => match unhex e, unhex a, unhex b with
      | some e, some a, some b => monLine hx (monoidFromOp e concat) a b | _, _, _ => bad
    | "mfs", [e, a, b] => match unhex e, unhex a, unhex b with
      | some e, some a, some b => monLine hx (monoidFrom e (fromF concat)) a b | _, _, _ => bad
    | _, _ => bad

def main : IO Unit := eachLine step
end Golem.Driver.C17
