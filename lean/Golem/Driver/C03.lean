/- Oracle driver for C03 (stub: replaced when the property's model is built). -/
import Golem.Driver.Util
namespace Golem.Driver.C03
def main : IO Unit := IO.eprintln "oracle: no driver for C03 yet"
end Golem.Driver.C03
