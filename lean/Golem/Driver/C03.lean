/-
Oracle driver for C03 (and, through `extra`, for C01/C02): executes `Model/Layout` + `Model/Hseq`
on the request lines printed by the layout harness.

Stateful line protocol.  `shape <sid> <type-sexpr>` sets the current shape `$S`; every other
request refers to it.  Type s-expressions:

  T ::= bool | int8 | … | string | iface | unsafeptr | $S
      | (slice T) | (ptr T) | (map T T) | (chan T) | (func HEX) | (array N T)
      | (struct F*) | (named ID T)
  F ::= (f NAME 0|1 TAGHEX|- T)

`ID` is the identity of a defined type: a bare name (`NI8`, `T7_2`) for the types of the harness' package
main, `<dir>/v1.<Name>` (`pa/v1.ID`, `pb/v1.ID`) for the types of the generated harness packages
`harness/<dir>/v1`.  Those packages are all called `v1`, so DISTINCT types (different ids here) print
identically under `reflect.Type.String()`; `typeStr` below prints what reflect prints (`v1.ID`), the model's
lookups compare ids.

Requests (result after `=>` in the harness output):
  shape sid T                      size align
  offs sid i.j.k                   off size align          (value selector path)
  list sid T                       full listing of hseq.New[T]()  or panic:<class>
  forname sid NAME                 ok ID | panic:errType
  fornamemaybe sid NAME            some ID | none
  fortype sid T                    ok ID | panic:errType
  new sid T NAME*                  ok ID* | panic:<class>
  newn sid T T*                    ok ID* | panic:<class>
  fmap sid K N                     ok 1:ID … N:ID | panic:index     (ts = first K entries of the listing)
-/
import Golem.Model.Hseq
import Golem.Driver.Util
namespace Golem.Driver.C03
open Golem.Model Golem.Driver

inductive SExp where
  | atom (s : String)
  | list (xs : List SExp)
  deriving Inhabited

def tokenize (s : String) : List String :=
  let (toks, cur) := s.toList.foldl (fun (acc : List String × List Char) c =>
    let (toks, cur) := acc
    let flush := if cur.isEmpty then toks else String.ofList cur.reverse :: toks
    if c == '(' then ("(" :: flush, [])
    else if c == ')' then (")" :: flush, [])
    else if c == ' ' || c == '\t' then (flush, [])
    else (toks, c :: cur)) ([], [])
  (if cur.isEmpty then toks else String.ofList cur.reverse :: toks).reverse

mutual
partial def parseS : List String → Option (SExp × List String)
  | [] => none
  | "(" :: rest => (parseList rest []).map (fun (xs, r) => (.list xs, r))
  | ")" :: _ => none
  | a :: rest => some (.atom a, rest)
partial def parseList : List String → List SExp → Option (List SExp × List String)
  | [], _ => none
  | ")" :: rest, acc => some (acc.reverse, rest)
  | toks, acc =>
    match parseS toks with
    | some (x, rest) => parseList rest (x :: acc)
    | none => none
end

/-- Parse a sequence of s-expressions until the tokens run out. -/
partial def parseMany : List String → Option (List SExp)
  | [] => some []
  | toks =>
    match parseS toks with
    | some (x, rest) => (parseMany rest).map (x :: ·)
    | none => none

def hexVal (c : Char) : Option Nat :=
  if '0' ≤ c && c ≤ '9' then some (c.toNat - '0'.toNat)
  else if 'a' ≤ c && c ≤ 'f' then some (c.toNat - 'a'.toNat + 10)
  else none

def unhex : List Char → Option (List Char)
  | [] => some []
  | a :: b :: rest =>
    match hexVal a, hexVal b, unhex rest with
    | some x, some y, some r => some (Char.ofNat (16 * x + y) :: r)
    | _, _, _ => none
  | _ => none

def hexStr (s : String) : Option String :=
  if s == "-" then some "" else (unhex s.toList).map String.ofList

def primOf : String → Option Prim
  | "bool" => some .bool | "int8" => some .int8 | "int16" => some .int16 | "int32" => some .int32
  | "int64" => some .int64 | "uint8" => some .uint8 | "uint16" => some .uint16 | "uint32" => some .uint32
  | "uint64" => some .uint64 | "int" => some .int | "uint" => some .uint | "uintptr" => some .uintptr
  | "float32" => some .float32 | "float64" => some .float64 | "complex64" => some .complex64
  | "complex128" => some .complex128 | "string" => some .string | "iface" => some .iface
  | "unsafeptr" => some .unsafeptr
  | _ => none

mutual
partial def toType (cur : Option GoType) : SExp → Option GoType
  | .atom "$S" => cur
  | .atom a => (primOf a).map .prim
  | .list [.atom "slice", t] => (toType cur t).map .slice
  | .list [.atom "ptr", t] => (toType cur t).map .ptr
  | .list [.atom "chan", t] => (toType cur t).map .chan
  | .list [.atom "map", k, v] => do let k ← toType cur k; let v ← toType cur v; pure (.map k v)
  | .list [.atom "func", .atom h] => (hexStr h).map .func
  | .list [.atom "array", .atom n, t] => do let n ← n.toNat?; let t ← toType cur t; pure (.array n t)
  | .list [.atom "named", .atom id, t] => (toType cur t).map (.named id)
  | .list (.atom "struct" :: fs) => (toFields cur fs).map .struct
  | _ => none
partial def toFields (cur : Option GoType) : List SExp → Option Fields
  | [] => some .nil
  | .list [.atom "f", .atom name, .atom emb, .atom tag, t] :: rest => do
    let tg ← hexStr tag
    let t ← toType cur t
    let r ← toFields cur rest
    pure (.cons name (emb == "1") tg t r)
  | _ => none
end

/-! `reflect.Type.String()` for the generated fragment (display only). -/

def primStr : Prim → String
  | .bool => "bool" | .int8 => "int8" | .int16 => "int16" | .int32 => "int32" | .int64 => "int64"
  | .uint8 => "uint8" | .uint16 => "uint16" | .uint32 => "uint32" | .uint64 => "uint64"
  | .int => "int" | .uint => "uint" | .uintptr => "uintptr" | .float32 => "float32"
  | .float64 => "float64" | .complex64 => "complex64" | .complex128 => "complex128"
  | .string => "string" | .iface => "interface {}" | .unsafeptr => "unsa" ++ "fe.Pointer"

def quote (s : String) : String :=
  "\"" ++ String.join (s.toList.map (fun c => if c == '"' then "\\\"" else if c == '\\' then "\\\\" else c.toString)) ++ "\""

/-- `reflect.Type.String()` of a defined type: package NAME (last element of the import path) and type name;
the import path itself is not printed. -/
def namedStr (id : String) : String :=
  match (id.splitOn "/").reverse with
  | [_] | [] => "main." ++ id
  | last :: _ => last

mutual
partial def typeStr : GoType → String
  | .prim p => primStr p
  | .slice t => "[]" ++ typeStr t
  | .ptr t => "*" ++ typeStr t
  | .map k v => "map[" ++ typeStr k ++ "]" ++ typeStr v
  | .chan t => "chan " ++ typeStr t
  | .func sig => sig
  | .array n t => "[" ++ toString n ++ "]" ++ typeStr t
  | .struct .nil => "struct {}"
  | .struct fs => "struct { " ++ "; ".intercalate (fieldStrs fs) ++ " }"
  | .named id _ => namedStr id
partial def fieldStrs : Fields → List String
  | .nil => []
  | .cons n e tg t r =>
    ((if e then typeStr t else n ++ " " ++ typeStr t) ++ (if tg == "" then "" else " " ++ quote tg)) :: fieldStrs r
end

def showEntry (e : Entry) : String :=
  s!"{e.id} {e.field.name} {e.fieldKey} {if e.field.emb then 1 else 0} {e.offset} {e.rootOffs}|{typeStr e.field.type}|{typeStr e.pureType}"

def showListing (es : List Entry) : String := " || ".intercalate (es.map showEntry)

def showIds (es : List Entry) : String := " ".intercalate ("ok" :: es.map (fun e => toString e.id))

def exceptStr {α : Type} (f : α → String) : Except Panic α → String
  | .ok a => f a
  | .error p => p.str

def parsePath (s : String) : Option (List Nat) := (s.splitOn ".").mapM String.toNat?

/-- Parse the remaining tokens as a list of types. -/
def typesOf (cur : Option GoType) (toks : List String) : Option (List GoType) := do
  let xs ← parseMany toks
  xs.mapM (toType cur)

/-- Handle one request; `extra` answers the kinds this driver does not know (C01/C02). -/
def step (extra : GoType → List String → Option String) (cur : Option GoType) (line : String) : Option GoType × String :=
  match tokenize line with
  | "shape" :: _sid :: rest =>
    match typesOf none rest with
    | some [t] => (some t, s!"{t.size} {t.align}")
    | _ => (cur, "bad-shape")
  | kind :: _sid :: args =>
    match cur with
    | none => (cur, "no-shape")
    | some S =>
      let out : String :=
        match kind, args with
        | "offs", [p] =>
          match parsePath p with
          | some π =>
            match pathLookup S π with
            | some (o, t) => s!"{o} {t.size} {t.align}"
            | none => "none"
          | none => "bad-path"
        | "list", ts =>
          match typesOf cur ts with
          | some [T] => exceptStr showListing (hseqNew T [])
          | _ => "bad-type"
        | "forname", [name] =>
          exceptStr (fun seq => exceptStr (fun (e : Entry) => s!"ok {e.id}") (forName seq name)) (hseqNew S [])
        | "fornamemaybe", [name] =>
          exceptStr (fun seq => match forNameMaybe seq name with
            | some e => s!"some {e.id}" | none => "none") (hseqNew S [])
        | "fortype", ts =>
          match typesOf cur ts with
          | some [A] => exceptStr (fun seq => exceptStr (fun (e : Entry) => s!"ok {e.id}") (forType seq A)) (hseqNew S [])
          | _ => "bad-type"
        | "new", ts =>
          match parseS ts with
          | some (t, names) =>
            match toType cur t with
            | some T => exceptStr showIds (hseqNew T names)
            | none => "bad-type"
          | none => "bad-type"
        | "newn", ts =>
          match typesOf cur ts with
          | some (T :: As) => exceptStr showIds (newN T As)
          | _ => "bad-type"
        | "fmap", [k, n] =>
          match k.toNat?, n.toNat? with
          | some k, some n =>
            exceptStr (fun seq =>
              let fs : List (Entry → Except Panic String) :=
                (List.range n).map (fun i => fun (e : Entry) => .ok s!"{i + 1}:{e.id}")
              exceptStr (fun tr => " ".intercalate ("ok" :: tr)) (fmapN (seq.take k) fs)) (hseqNew S [])
          | _, _ => "bad-args"
        | _, _ =>
          match extra S (kind :: args) with
          | some r => r
          | none => "bad-request"
      (cur, out)
  | _ => (cur, "bad-request")

partial def loop (extra : GoType → List String → Option String) : IO Unit := do
  let stdin ← IO.getStdin
  let stdout ← IO.getStdout
  let rec go (cur : Option GoType) : IO Unit := do
    let line ← stdin.getLine
    if line.isEmpty then return ()
    let l := line.dropRightWhile (fun c => c == '\n' || c == '\r')
    let (cur', out) := step extra cur l
    stdout.putStrLn out
    go cur'
  go none
  stdout.flush

def main : IO Unit := loop (fun _ _ => none)
end Golem.Driver.C03
