/- Oracle driver for C08 (stub: replaced when the property's model is built). -/
import Golem.Driver.Util
namespace Golem.Driver.C08
def main : IO Unit := IO.eprintln "oracle: no driver for C08 yet"
end Golem.Driver.C08
