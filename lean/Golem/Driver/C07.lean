/- Oracle driver for C07 (stub: replaced when the property's model is built). -/
import Golem.Driver.Util
namespace Golem.Driver.C07
def main : IO Unit := IO.eprintln "oracle: no driver for C07 yet"
end Golem.Driver.C07
