/- Oracle driver for C02: the C01 driver (same model, same requests; the negative stream uses `lensd`/`refl`). -/
import Golem.Driver.C01
namespace Golem.Driver.C02
def main : IO Unit := Golem.Driver.C01.main
end Golem.Driver.C02
