/- Oracle driver for C02 (stub: replaced when the property's model is built). -/
import Golem.Driver.Util
namespace Golem.Driver.C02
def main : IO Unit := IO.eprintln "oracle: no driver for C02 yet"
end Golem.Driver.C02
