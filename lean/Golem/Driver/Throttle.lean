/-
`oracle throttle`: lock-step oracle for `pipe.Throttling`.  Per script line
`<idx> <cfg> | <moves> || <observations>` run the network model of Golem/Go/Throttle.lean (the very
successor functions the theorems of Props/C13 are about) and check that it admits the
implementation's observation sequence.  Keeps the SET of model states compatible with the
observations so far; after every environment move the set is closed under process moves until
quiescence (all interleavings, all `select` choices).

`t<d>`: time passes d ms.  Every timer due within the window (inclusive) fires in order: `tick` to its
due time, process moves to quiescence, repeat; finally `tick` to the end of the window.
-/
import Std.Data.HashSet
import Golem.Go.Throttle
import Golem.Driver.Util
namespace Golem.Driver.Throttle
open Golem.Go Golem.Go.Throttle Golem.Driver

abbrev N := Net Int

def showWhy : Why → String | .eof => "e" | .stop => "s" | .done => "d"

def showPC : PC → String
  | .push i => s!"P{i}" | .wait due => s!"W{due}" | .closing => "X" | .exited => "Z"

def showDC : DC Int → String
  | .idle => "I" | .gate a => s!"G{a}" | .fwd a => s!"F{a}" | .closing w => "X" ++ showWhy w | .exited w => "Z" ++ showWhy w

/-- dynamic part of the state (history variables do not influence the future) -/
def key (p : N) : String :=
  s!"{showPC p.pc}|{showDC p.dc}|{showInts p.inp.buf}{if p.inp.closed then "!" else ""}|{showInts p.out.buf}{if p.out.closed then "!" else ""}|{p.ctl.buf.length}{if p.ctl.closed then "!" else ""}|{p.cancelled}|{p.panicked}|{p.now}"

def lens (p : N) : String := s!"[{p.inp.buf.length};{p.out.buf.length}]"

/-- quiescent states reachable by process moves from `init` (every interleaving) -/
partial def closure (init : List N) : List N := Id.run do
  let mut seen : Std.HashSet String := {}
  let mut work := init
  let mut quiet : List N := []
  let mut fuel := 2000000
  while !work.isEmpty && fuel > 0 do
    fuel := fuel - 1
    match work with
    | [] => pure ()
    | p :: rest =>
      work := rest
      let k := key p
      if seen.contains k then continue
      seen := seen.insert k
      if p.panicked then
        quiet := p :: quiet
        continue
      let nx := procNext p
      if nx.isEmpty then quiet := p :: quiet
      else work := nx ++ work
  return quiet

def tickTo (p : N) (t : Nat) : N :=
  match (envNext p (.tick (t - p.now))).head? with
  | some (q, _) => q
  | none => p

/-- let time pass until `target` from quiescent states: punctual timers, fired in order -/
partial def advance (target : Nat) (ps : List N) : List N :=
  ps.flatMap fun p =>
    match p.pc with
    | .wait due =>
      if due ≤ target && !p.panicked then
        advance target (closure [tickTo p (max due p.now)])
      else [tickTo p target]
    | _ => [tickTo p target]

def dedup (ps : List N) : List N := Id.run do
  let mut seen : Std.HashSet String := {}
  let mut out : List N := []
  for p in ps do
    let k := key p
    if seen.contains k then continue
    seen := seen.insert k
    out := p :: out
  return out

def showObs : Pool.Obs Int → String
  | .ok => "ok" | .full => "full" | .value v => s!"v{v}" | .empty => "empty" | .closed => "closed" | .nope => "nope"

def alive (p : N) : Nat :=
  (match p.pc with | .exited => 0 | _ => 1) + (match p.dc with | .exited _ => 0 | _ => 1)

/-- successors of one quiescent state under one script move, each with the token the environment
would see, already closed under process moves -/
def applyMove (p : N) (mv : String) : List (N × String) :=
  let body := (mv.drop 1).toString
  let env (m : Move Int) : List (N × String) :=
    (envNext p m).flatMap fun (q, o) => (closure [q]).map fun r => (r, showObs o)
  match mv.get 0 with
  | 's' => match body.toInt? with
    | some v => env (.send v)
    | none => [(p, "bad")]
  | 'c' => env .close
  | 'r' => if body == "0" then env .recv else [(p, "nope")]
  | 'x' => env .cancel
  | 't' => match body.toNat? with
    | some d => (advance (p.now + d) [p]).map fun r => (r, "ok")
    | none => [(p, "bad")]
  | 'z' => [(p, toString (alive p))]
  | _ => [(p, "bad")]

structure Conf where
  cap : Nat := 0
  ops : Nat := 1
  ival : Nat := 1000

def parseConf (ws : List String) : Conf := Id.run do
  let mut c : Conf := {}
  for w in ws do
    match w.splitOn "=" with
    | [k, v] =>
      match k with
      | "cap" => c := { c with cap := v.toNat?.getD 0 }
      | "ops" => c := { c with ops := v.toNat?.getD 1 }
      -- [ival<=0] time.After(d) with d <= 0 fires at once, exactly like d = 0: a negative interval is the model's interval 0
      | "ival" => c := { c with ival := (v.toInt?.getD 1000).toNat }
      | _ => pure ()
    | _ => pure ()
  return c

/-- run a script against observed tokens `mv:res[lens]`; returns "ok" or a mismatch report -/
def check (p0 : N) (moves obs : List String) : String := Id.run do
  let mut states := closure [p0]
  match obs with
  | [] => return "MISMATCH no observations"
  | o0 :: orest =>
    let want0 := (o0.drop 2).toString
    let all0 := states
    states := states.filter fun p => !p.panicked && lens p == want0
    if states.isEmpty then return s!"MISMATCH at init: impl={o0} model={all0.map lens}"
    let mut os := orest
    let mut idx := 0
    for mv in moves do
      match os with
      | [] => return s!"MISMATCH at {idx} {mv}: implementation produced no observation (crashed?)"
      | o :: r =>
        os := r
        let cands := states.flatMap fun p => applyMove p mv
        let body := (o.drop (mv.length + 1)).toString
        let res := (body.splitOn "[").headD ""
        let ln := "[" ++ ((body.splitOn "[").getD 1 "")
        let hit := cands.filter fun (_, t) => t == res
        if hit.isEmpty then
          return s!"MISMATCH at {idx} {mv}: impl={res} model allows {(cands.map (·.2)).eraseDups}"
        let ok := hit.filter fun (q, _) => !q.panicked && lens q == ln
        if ok.isEmpty then
          let pn := if hit.any (·.1.panicked) then " (model can panic here)" else ""
          return s!"MISMATCH at {idx} {mv}: impl lens={ln} model allows {(hit.map fun (q, _) => lens q).eraseDups}{pn}"
        states := dedup (ok.map (·.1))
        idx := idx + 1
    return "ok"

def run (line : String) : String :=
  match line.splitOn " || " with
  | [script, obsS] =>
    let obs := words obsS
    match script.splitOn " | " with
    | cfgS :: rest =>
      let moves := words (rest.headD "")
      let c := parseConf (words cfgS)
      check (Throttle.init c.ops c.ival c.cap) moves obs
    | _ => "bad-op"
  | _ => "bad-op"

/-- line: `<idx> <script> || <obs>` → `<idx> ok` / `<idx> MISMATCH …` -/
def step (line : String) : String :=
  match line.splitOn " " with
  | idx :: rest => idx ++ " " ++ run (" ".intercalate rest)
  | _ => "bad-op"

def main : IO Unit := eachLine step
end Golem.Driver.Throttle
