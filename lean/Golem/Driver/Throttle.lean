/- Lock-step oracle driver for Throttling (stub: replaced when the model is built). -/
import Golem.Driver.Util
namespace Golem.Driver.Throttle
def main : IO Unit := IO.eprintln "oracle: no driver for Throttle yet"
end Golem.Driver.Throttle
