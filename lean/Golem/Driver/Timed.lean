/- Lock-step oracle driver (stub: replaced when the model is built). -/
import Golem.Driver.Util
namespace Golem.Driver.Timed
def main : IO Unit := IO.eprintln "oracle: no driver for Timed yet"
end Golem.Driver.Timed
