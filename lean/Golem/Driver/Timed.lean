/-
`oracle timed`: lock-step oracle for the source stages `pipe.Emit` / `pipe.Unfold` on the virtual
clock.  Per line  `<idx> <cfg> | <moves> || <observations>`  it instantiates the network model of
Golem/Go/Sources.lean (the definitions the theorems of Props/C11 are about) and checks that the
model admits the implementation's observation sequence.

The engine keeps the SET of model states compatible with the observations so far; after every
environment move it follows the process moves to rest (`Sources.quiesce`, all `select` branches).
Move `t<d>` = `Sources.advance`: `d` virtual ms pass, wake-ups due in the window fire in order
(EAGER time, what testing/synctest implements).

moves: `t<d>` | `r0` (receive from out) | `r1` (receive from exx) | `x` cancel | `z` goroutine census |
       `v` call log of the user function, flattened `(arg,time,arg,time,…)`
-/
import Golem.Go.Sources
import Golem.Driver.Util
namespace Golem.Driver.Timed
open Golem.Go Golem.Go.Sources Golem.Model Golem.Driver

abbrev S := Src Int Int

structure Conf where
  stage : String := ""
  mode : String := "pure"
  cap : Nat := 0
  freq : Nat := 1000
  fn : Int := 2
  seed : Int := 0
  fail : List Int := []
  /-- the caller's context is already cancelled when the source is created -/
  pre : Bool := false

def parseConf (ws : List String) : Conf := Id.run do
  let mut c : Conf := {}
  for w in ws do
    match w.splitOn "=" with
    | [k, v] =>
      match k with
      | "stage" => c := { c with stage := v }
      | "mode" => c := { c with mode := v }
      | "cap" => c := { c with cap := v.toNat?.getD 0 }
      | "freq" => c := { c with freq := v.toNat?.getD 1000 }
      | "fn" => c := { c with fn := v.toInt?.getD 2 }
      | "seed" => c := { c with seed := v.toInt?.getD 0 }
      | "fail" => c := { c with fail := (v.splitOn ",").filterMap String.toInt? }
      | "pre" => c := { c with pre := v != "0" }
      | _ => pure ()
    | _ => pure ()
  return c

/-! user-function family — mirrors go/harness/lockstep/sources_test.go -/
def modulus : Int := 1000003
def emitVal (i : Nat) : Int := 10 * (i : Int) + 3
def stepVal (fn x : Int) : Int :=
  if fn == 1 then x + 1 else if fn == 2 then 2 * x else (3 * x + 1) % modulus

def fails (c : Conf) (x : Int) : Bool := c.mode != "pure" && c.fail.contains x

/-- the harness returns `0, errors.New(strconv.Itoa(x))` on a failing argument -/
def mkFn (c : Conf) : Fn Int Int :=
  { mode := if c.mode == "try" then .try_ else .lift,
    freq := c.freq,
    emitF := fun i => if fails c (i : Int) then .error (i : Int) else .ok (emitVal i),
    unfoldF := fun s => if fails c s then (0, some s) else (stepVal c.fn s, none) }

def showPc : Pc Int Int → String
  | .eLoop i => s!"L{i}"
  | .eSleep i w => s!"S{i}@{w}"
  | .eApply i => s!"A{i}"
  | .eOffer i v => s!"O{i}:{v}"
  | .eCatch i e => s!"C{i}:{e}"
  | .uOffer s => s!"o{s}"
  | .uApply s => s!"a{s}"
  | .uCatch s e => s!"c{s}:{e}"
  | .closeExx => "X1"
  | .closeOut => "X0"
  | .exited => "Z"

def callLog (p : S) : List Int :=
  (p.callsE.flatMap fun (i, t) => [(i : Int), (t : Int)]) ++ (p.callsU.flatMap fun (s, t) => [s, (t : Int)])

/-- the part of the state that determines the future and the observations -/
def key (p : S) : String :=
  s!"{showPc p.pc}|{p.out.buf}{p.out.closed}|{p.exx.buf}{p.exx.closed}|{p.cancelled}|{p.panicked}|{p.now}|{callLog p}"

def dedup (ps : List S) : List S := Id.run do
  let mut seen : List String := []
  let mut out : List S := []
  for p in ps do
    let k := key p
    if seen.contains k then continue
    seen := k :: seen
    out := p :: out
  return out.reverse

def lens (p : S) : String := s!"[;{p.out.buf.length},{p.exx.buf.length}]"

def fuel : Nat := 100000

def rest (P : Fn Int Int) (ps : List S) : List S := dedup (ps.flatMap (quiesce P fuel))

def atRest (P : Fn Int Int) (p : S) : Bool := p.panicked || (procNext P p).isEmpty

def showObs : Obs Int Int → String
  | .ok => "ok" | .value v => s!"v{v}" | .err e => s!"e{e}" | .empty => "empty" | .closed => "closed" | .nope => "nope"

def alive (p : S) : Nat := match p.pc with | .exited => 0 | _ => 1

/-- successors of one state under one script move, each with the token the environment would see -/
def applyMove (P : Fn Int Int) (p : S) (mv : String) : List (S × String) :=
  let body := (mv.drop 1).toString
  match mv.get 0 with
  | 'r' =>
    match body.toNat? with
    | some k => (envNext P p (.recv k)).map fun (q, o) => (q, showObs o)
    | none => [(p, "bad")]
  | 'x' => (envNext P p .cancel).map fun (q, o) => (q, showObs o)
  | 't' =>
    match body.toNat? with
    | some d => (advance P fuel (d + 1) d p).map fun q => (q, "ok")
    | none => [(p, "bad")]
  | 'z' => [(p, toString (alive p))]
  | 'v' => [(p, "(" ++ ",".intercalate ((callLog p).map toString) ++ ")")]
  | _ => [(p, "bad")]

def check (P : Fn Int Int) (p0 : S) (moves obs : List String) (pre : Bool := false) : String := Id.run do
  -- `pre`: the cancel happens before the goroutine takes its first step (the script's first move, `x`, repeats it)
  let start := if pre then Sources.preStart P p0 else [p0]
  let mut states := rest P start
  match obs with
  | [] => return "MISMATCH no observations"
  | o0 :: orest =>
    let want0 := (o0.drop 2).toString
    if states.any fun p => !atRest P p then return "MISMATCH model does not come to rest initially"
    states := states.filter fun p => !p.panicked && lens p == want0
    if states.isEmpty then return s!"MISMATCH at init: impl={o0} model={(rest P start).map lens}"
    let mut os := orest
    let mut idx := 0
    for mv in moves do
      match os with
      | [] => return s!"MISMATCH at {idx} {mv}: implementation produced no observation (crashed?)"
      | o :: r =>
        os := r
        let cands := states.flatMap fun p => applyMove P p mv
        let body := (o.drop (mv.length + 1)).toString
        let res := (body.splitOn "[").headD ""
        let ln := "[" ++ ((body.splitOn "[").getD 1 "")
        let hit := cands.filter fun (_, t) => t == res
        if hit.isEmpty then
          return s!"MISMATCH at {idx} {mv}: impl={res} model allows {(cands.map (·.2)).eraseDups}"
        let after := rest P (hit.map (·.1))
        if after.any fun p => !atRest P p then return s!"MISMATCH at {idx} {mv}: model does not come to rest"
        let ok := after.filter fun p => !p.panicked && lens p == ln
        if ok.isEmpty then
          let pn := if after.any (·.panicked) then " (model can panic here)" else ""
          return s!"MISMATCH at {idx} {mv}: impl lens={ln} model allows {(after.map lens).eraseDups}{pn}"
        states := ok
        idx := idx + 1
    return "ok"

def run (line : String) : String :=
  match line.splitOn " || " with
  | [script, obsS] =>
    let obs := words obsS
    match script.splitOn " | " with
    | cfgS :: rest =>
      let moves := words (rest.headD "")
      let c := parseConf (words cfgS)
      let P := mkFn c
      match c.stage with
      | "Emit" => check P (initEmit P.mode c.cap) moves obs c.pre
      | "Unfold" => check P (initUnfold P.mode c.cap c.seed) moves obs c.pre
      | s => s!"bad-op unknown source stage {s}"
    | _ => "bad-op"
  | _ => "bad-op"

def step (line : String) : String :=
  match line.splitOn " " with
  | idx :: rest => idx ++ " " ++ run (" ".intercalate rest)
  | _ => "bad-op"

def main : IO Unit := eachLine step
end Golem.Driver.Timed
