/- Oracle driver for C15 (stub: replaced when the property's model is built). -/
import Golem.Driver.Util
namespace Golem.Driver.C15
def main : IO Unit := IO.eprintln "oracle: no driver for C15 yet"
end Golem.Driver.C15
