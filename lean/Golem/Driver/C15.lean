/-
Oracle for C15: runs `Golem.Model.PairIter.eval` / `evalForEach` (the definitions `Props/C15` is
about) on mixed pair/seq expression-tree case lines.

case line:  `<errAt> <S|P> <expr>`      S: the expression is a seq.Seq[int], P: a pair.Seq[int,int]
seq expr:   the C14 grammar (F S TW DW FI MP PL JN) plus
            TS <pexpr> <sbody>           pair.ToSeq; the body sees $0 = key, $1 = value
pair expr:  PF <tk> <tv>                 pair.From
            PTW|PDW|PFI <p2> <pexpr>     pair.TakeWhile / DropWhile / Filter
            PMP <m2> <pexpr>             pair.Map
            PPL <pexpr> <pexpr>          pair.Plus
            PJN <pexpr> <pbody>          pair.Join; the body sees $0 = key, $1 = value
            FS <sexpr> <pbody>           pair.FromSeq; the body sees $0 = element
pred2 <p2>: klt:<c> kge:<c> vlt:<c> vge:<c> keven kodd veven vodd kltv sumlt:<c> T N knev:<i> vltv:<i>
map2  <m2>: subk (v-k) kx10 (10k+v) vinc (v+1) onlyk (k) addv:<i> (v+env i)
result:     `<drained>|<visited>|<err>`, pair elements printed `k:v`
-/
import Golem.Model.PairIter
import Golem.Driver.C14
namespace Golem.Driver.C15
open Golem.Model.PairIter Golem.Driver
open Golem.Driver.C14 (Term Pred Mp Env parseTerm parsePred parseMp parseTerms splitColon showErr)

inductive Pred2 where
  | klt (c : Int) | kge (c : Int) | vlt (c : Int) | vge (c : Int) | keven | kodd | veven | vodd
  | kltv | sumlt (c : Int) | tt | ff | knev (i : Nat) | vltv (i : Nat)

inductive Mp2 where
  | subk | kx10 | vinc | onlyk | addv (i : Nat)

def Pred2.eval (env : Env) : Pred2 → Int × Int → Bool
  | .klt c => fun kv => kv.1 < c
  | .kge c => fun kv => kv.1 ≥ c
  | .vlt c => fun kv => kv.2 < c
  | .vge c => fun kv => kv.2 ≥ c
  | .keven => fun kv => Int.tmod kv.1 2 == 0
  | .kodd => fun kv => Int.tmod kv.1 2 != 0
  | .veven => fun kv => Int.tmod kv.2 2 == 0
  | .vodd => fun kv => Int.tmod kv.2 2 != 0
  | .kltv => fun kv => kv.1 < kv.2
  | .sumlt c => fun kv => kv.1 + kv.2 < c
  | .tt => fun _ => true
  | .ff => fun _ => false
  | .knev i => fun kv => kv.1 != env.getD i 0
  | .vltv i => fun kv => kv.2 < env.getD i 0

def Mp2.eval (env : Env) : Mp2 → Int → Int → Int
  | .subk => fun k v => v - k
  | .kx10 => fun k v => 10 * k + v
  | .vinc => fun _ v => v + 1
  | .onlyk => fun k _ => k
  | .addv i => fun _ v => v + env.getD i 0

mutual
inductive SynS where
  | from (t : Term)
  | slice (ts : List Term)
  | tw (p : Pred) (e : SynS)
  | dw (p : Pred) (e : SynS)
  | fi (p : Pred) (e : SynS)
  | mp (m : Mp) (e : SynS)
  | pl (a b : SynS)
  | jn (e body : SynS)
  | ts (e : SynP) (body : SynS)
inductive SynP where
  | pf (k v : Term)
  | ptw (p : Pred2) (e : SynP)
  | pdw (p : Pred2) (e : SynP)
  | pfi (p : Pred2) (e : SynP)
  | pmp (m : Mp2) (e : SynP)
  | ppl (a b : SynP)
  | pjn (e body : SynP)
  | fs (e : SynS) (body : SynP)
end

mutual
def toExS (env : Env) : SynS → Ex (.s Int)
  | .from t => .from (t.eval env)
  | .slice ts => .fromSlice (ts.map (Term.eval env))
  | .tw p e => .takeWhile (toExS env e) (p.eval env)
  | .dw p e => .dropWhile (toExS env e) (p.eval env)
  | .fi p e => .filter (toExS env e) (p.eval env)
  | .mp m e => .map (toExS env e) (m.eval env)
  | .pl a b => .plus (toExS env a) (toExS env b)
  | .jn e body => .join (sa := .s Int) (toExS env e) (fun x => toExS (x :: env) body)
  | .ts e body => .join (sa := .p Int Int) (toExP env e) (fun kv => toExS (kv.1 :: kv.2 :: env) body)
def toExP (env : Env) : SynP → Ex (.p Int Int)
  | .pf k v => .pfrom (k.eval env) (v.eval env)
  | .ptw p e => .takeWhile (toExP env e) (p.eval env)
  | .pdw p e => .dropWhile (toExP env e) (p.eval env)
  | .pfi p e => .filter (toExP env e) (p.eval env)
  | .pmp m e => .pmap (toExP env e) (m.eval env)
  | .ppl a b => .plus (toExP env a) (toExP env b)
  | .pjn e body => .join (sa := .p Int Int) (toExP env e) (fun kv => toExP (kv.1 :: kv.2 :: env) body)
  | .fs e body => .join (sa := .s Int) (toExS env e) (fun x => toExP (x :: env) body)
end

def parsePred2 (s : String) : Option Pred2 :=
  match splitColon s with
  | ("klt", some c) => c.toInt?.map .klt
  | ("kge", some c) => c.toInt?.map .kge
  | ("vlt", some c) => c.toInt?.map .vlt
  | ("vge", some c) => c.toInt?.map .vge
  | ("sumlt", some c) => c.toInt?.map .sumlt
  | ("knev", some i) => i.toNat?.map .knev
  | ("vltv", some i) => i.toNat?.map .vltv
  | ("keven", none) => some .keven
  | ("kodd", none) => some .kodd
  | ("veven", none) => some .veven
  | ("vodd", none) => some .vodd
  | ("kltv", none) => some .kltv
  | ("T", none) => some .tt
  | ("N", none) => some .ff
  | _ => none

def parseMp2 (s : String) : Option Mp2 :=
  match splitColon s with
  | ("subk", none) => some .subk
  | ("kx10", none) => some .kx10
  | ("vinc", none) => some .vinc
  | ("onlyk", none) => some .onlyk
  | ("addv", some i) => i.toNat?.map .addv
  | _ => none

mutual
partial def parseS : List String → Option (SynS × List String)
  | "F" :: t :: rest => do pure (.from (← parseTerm t), rest)
  | "S" :: n :: rest => do
    let (ts, rest) ← parseTerms (← n.toNat?) rest
    pure (.slice ts, rest)
  | "TW" :: p :: rest => do let p ← parsePred p; let (e, rest) ← parseS rest; pure (.tw p e, rest)
  | "DW" :: p :: rest => do let p ← parsePred p; let (e, rest) ← parseS rest; pure (.dw p e, rest)
  | "FI" :: p :: rest => do let p ← parsePred p; let (e, rest) ← parseS rest; pure (.fi p e, rest)
  | "MP" :: m :: rest => do let m ← parseMp m; let (e, rest) ← parseS rest; pure (.mp m e, rest)
  | "PL" :: rest => do let (a, rest) ← parseS rest; let (b, rest) ← parseS rest; pure (.pl a b, rest)
  | "JN" :: rest => do let (a, rest) ← parseS rest; let (b, rest) ← parseS rest; pure (.jn a b, rest)
  | "TS" :: rest => do let (a, rest) ← parseP rest; let (b, rest) ← parseS rest; pure (.ts a b, rest)
  | _ => none
partial def parseP : List String → Option (SynP × List String)
  | "PF" :: k :: v :: rest => do pure (.pf (← parseTerm k) (← parseTerm v), rest)
  | "PTW" :: p :: rest => do let p ← parsePred2 p; let (e, rest) ← parseP rest; pure (.ptw p e, rest)
  | "PDW" :: p :: rest => do let p ← parsePred2 p; let (e, rest) ← parseP rest; pure (.pdw p e, rest)
  | "PFI" :: p :: rest => do let p ← parsePred2 p; let (e, rest) ← parseP rest; pure (.pfi p e, rest)
  | "PMP" :: m :: rest => do let m ← parseMp2 m; let (e, rest) ← parseP rest; pure (.pmp m e, rest)
  | "PPL" :: rest => do let (a, rest) ← parseP rest; let (b, rest) ← parseP rest; pure (.ppl a b, rest)
  | "PJN" :: rest => do let (a, rest) ← parseP rest; let (b, rest) ← parseP rest; pure (.pjn a b, rest)
  | "FS" :: rest => do let (a, rest) ← parseS rest; let (b, rest) ← parseP rest; pure (.fs a b, rest)
  | _ => none
end

def showPairs (l : List (Int × Int)) : String := " ".intercalate (l.map fun kv => s!"{kv.1}:{kv.2}")

/-- Generic driver: drain + ForEach (callback failing at visit `errAt`) on one expression. -/
def runEx {sg : Sig} (e : Ex sg) (shw : List (Elem sg) → String) (errAt : Int) : String :=
  let d := match eval e with
    | .ok l => shw l
    | .error x => showErr x
  let cb : (Nat × List (Elem sg)) → Elem sg → (Nat × List (Elem sg)) × Option Nat :=
    fun (n, log) v => ((n + 1, log ++ [v]), if (n : Int) = errAt then some n else none)
  let f := match evalForEach e cb (0, []) with
    | .ok ((_, log), err) => shw log ++ "|" ++ (match err with | some i => s!"E{i}" | none => "-")
    | .error x => showErr x
  d ++ "|" ++ f

def step (line : String) : String :=
  match words line with
  | errAt :: "S" :: toks =>
    match errAt.toInt?, parseS toks with
    | some errAt, some (syn, []) => runEx (toExS [] syn) showInts errAt
    | _, _ => "bad-case"
  | errAt :: "P" :: toks =>
    match errAt.toInt?, parseP toks with
    | some errAt, some (syn, []) => runEx (toExP [] syn) showPairs errAt
    | _, _ => "bad-case"
  | _ => "bad-case"

def main : IO Unit := eachLine step
end Golem.Driver.C15
