/- Oracle driver for C10 (stub: replaced when the property's model is built). -/
import Golem.Driver.Util
namespace Golem.Driver.C10
def main : IO Unit := IO.eprintln "oracle: no driver for C10 yet"
end Golem.Driver.C10
