/-
`oracle lockstep`: per script line  `<idx> <cfg> | <moves> || <observations>`  instantiate the
stage's model (the very `Stage` data of Golem/Model/Stages.lean the theorems are about) and check
that it admits the implementation's observation sequence.
-/
import Golem.Model.Stages
import Golem.Model.StageCfg
import Golem.Driver.PoolRun
namespace Golem.Driver.Lockstep
open Golem.Go Golem.Go.Pool Golem.Model Golem.Model.DSL Golem.Driver Golem.Driver.PoolRun

/-! user-function family — mirrors go/harness/lockstep (fMap, gFMap, pred, combine) -/
def modulus : Int := 1000003
def fMap (x : Int) : Int := 3 * x + 1
def gFMap (x : Int) : List Int := (List.range (x % 3).toNat).map fun (i : Nat) => 10 * x + (i : Int)
def pred (fn x : Int) : Bool := x % fn != 0
def combine (a b : Int) : Int := (a * 31 + b) % modulus
def foldEmpty : Int := 7

structure Conf where
  stage : String := ""
  pkg : String := "pipe"
  mode : String := "pure"
  cap : Nat := 0
  par : Nat := 1
  n : Int := 0
  fn : Int := 2
  k : Nat := 0
  gated : Bool := false
  fail : List Int := []
  caps : List Nat := []

def parseConf (ws : List String) : Conf := Id.run do
  let mut c : Conf := {}
  for w in ws do
    match w.splitOn "=" with
    | [k, v] =>
      match k with
      | "stage" => c := { c with stage := v }
      | "pkg" => c := { c with pkg := v }
      | "mode" => c := { c with mode := v }
      | "cap" => c := { c with cap := v.toNat?.getD 0 }
      | "par" => c := { c with par := v.toNat?.getD 1 }
      | "n" => c := { c with n := v.toInt?.getD 0 }
      | "fn" => c := { c with fn := v.toInt?.getD 2 }
      | "k" => c := { c with k := v.toNat?.getD 0 }
      | "gated" => c := { c with gated := v != "0" }
      | "fail" => c := { c with fail := (v.splitOn ",").filterMap String.toInt? }
      | "caps" => c := { c with caps := (v.splitOn ",").filterMap String.toNat? }
      | _ => pure ()
    | _ => pure ()
  return c

def errMode (c : Conf) : ErrMode := if c.mode == "try" then .try_ else .lift

def fails (c : Conf) (x : Int) : Bool := c.mode != "pure" && c.fail.contains x

def fE (c : Conf) (x : Int) : Except Int Int := if fails c x then .error x else .ok (fMap x)
/-- with `Pure` the wrapper discards the error: `b, _ := f(x)`; the harness predicate returns `true, err` on failure -/
def pE (c : Conf) (x : Int) : Except Int Bool := if fails c x then .error x else .ok (pred c.fn x)
/-- arrow family of the harness: a failing element returns its error before sending anything -/
def gE (c : Conf) (x : Int) : List Int × Option Int := if c.mode != "pure" && c.fail.contains x then ([], some x) else (gFMap x, none)

def rSum : Render Unit (Int ⊕ Int) := { showS := fun _ => "", showV := fun _ v => match v with | .inl b => s!"v{b}" | .inr e => s!"e{e}" }
def rInt {σ : Type} (f : σ → String) : Render σ Int := { showS := f, showV := fun _ v => s!"v{v}" }
def rUnit {σ : Type} (f : σ → String) : Render σ Unit := { showS := f, showV := fun _ _ => "u" }

/-! pools come from `Model/StageCfg.lean` (hand-written configurations, proved equal to the ones regenerated
from the Go source by the `*_cfg_gen` theorems of Props/Stage) -/

def run (line : String) : String :=
  match line.splitOn " || " with
  | [script, obsS] =>
    let obs := words obsS
    match script.splitOn " | " with
    | cfgS :: rest =>
      let moves := words (rest.headD "")
      let c := parseConf (words cfgS)
      let fork := c.pkg == "fork"
      let g := c.gated
      if c.stage == "Join" then
        let caps := fun j => c.caps.getD j c.cap
        check { st := copyS, R := rInt (fun _ => ""), p0 := StageCfg.pipeJoin.pool () caps 0 c.k id false, nIn := c.k, nOut := 1, closerProc := true, hasFn := false } moves obs
      else if fork then
        let ic : Nat → Nat := fun _ => c.cap
        let ec := StageCfg.errch (errMode c)
        match c.stage with
        | "Map" => check { st := mapS (errMode c) (fE c), R := rSum, p0 := StageCfg.forkMap.pool () ic c.par 0 ec g, nIn := 1, nOut := 2, closerProc := true, hasFn := true } moves obs
        | "FMap" => check { st := fmapS (errMode c) (gE c), R := rSum, p0 := StageCfg.forkFMap.pool () ic c.par 0 ec g, nIn := 1, nOut := 2, closerProc := true, hasFn := true } moves obs
        | "Filter" => check { st := filterS (pE c), R := rInt (fun _ => ""), p0 := StageCfg.forkFilter.pool () ic c.par 0 ec g, nIn := 1, nOut := 1, closerProc := true, hasFn := true } moves obs
        | "Partition" => check { st := partitionS (pE c), R := rInt (fun _ => ""), p0 := StageCfg.forkPartition.pool () ic c.par 0 ec g, nIn := 1, nOut := 2, closerProc := true, hasFn := true } moves obs
        | "ForEach" => check { st := forEachS, R := rUnit (fun (_ : List Int) => ""), p0 := StageCfg.forkForEach.pool [] ic c.par 0 ec g, nIn := 1, nOut := 1, closerProc := true, hasFn := true } moves obs
        | "Void" => check { st := voidS, R := rUnit (fun _ => ""), p0 := StageCfg.forkVoid.pool () ic c.par 0 ec g, nIn := 1, nOut := 1, closerProc := true, hasFn := false } moves obs
        | s => s!"bad-op unknown fork stage {s}"
      else
        let ic : Nat → Nat := fun _ => c.cap
        let ec := StageCfg.errch (errMode c)
        match c.stage with
        | "Map" => check { st := mapS (errMode c) (fE c), R := rSum, p0 := StageCfg.pipeMap.pool () ic 0 0 ec g, nIn := 1, nOut := 2, closerProc := false, hasFn := true } moves obs
        | "FMap" => check { st := fmapS (errMode c) (gE c), R := rSum, p0 := StageCfg.pipeFMap.pool () ic 0 0 ec g, nIn := 1, nOut := 2, closerProc := false, hasFn := true } moves obs
        | "StdErrMap" => check { st := mapS (errMode c) (fE c), R := rSum, p0 := StageCfg.pipeMap.pool () ic 0 0 ec g, nIn := 1, nOut := 1, closerProc := false, hasFn := true, drain := [1] } moves obs
        | "Filter" => check { st := filterS (pE c), R := rInt (fun _ => ""), p0 := StageCfg.pipeFilter.pool () ic 0 0 ec g, nIn := 1, nOut := 1, closerProc := false, hasFn := true } moves obs
        | "Partition" => check { st := partitionS (pE c), R := rInt (fun _ => ""), p0 := StageCfg.pipePartition.pool () ic 0 0 ec g, nIn := 1, nOut := 2, closerProc := false, hasFn := true } moves obs
        | "TakeWhile" => check { st := takeWhileS (pE c), R := rInt (fun _ => ""), p0 := StageCfg.pipeTakeWhile.pool () ic 0 0 ec g, nIn := 1, nOut := 1, closerProc := false, hasFn := true } moves obs
        | "Take" => check { st := takeS, R := rInt (fun (n : Int) => toString n), p0 := takePool c.n c.cap g, nIn := 1, nOut := 1, closerProc := false, hasFn := false } moves obs
        | "ForEach" => check { st := forEachS, R := rUnit (fun (l : List Int) => showInts l), p0 := StageCfg.pipeForEach.pool [] ic 0 0 ec g, nIn := 1, nOut := 1, closerProc := false, hasFn := true, visits := id } moves obs
        | "Void" => check { st := voidS, R := rUnit (fun _ => ""), p0 := StageCfg.pipeVoid.pool () ic 0 0 ec g, nIn := 1, nOut := 1, closerProc := false, hasFn := false } moves obs
        | "Fold" => check { st := foldS combine, R := rInt (fun (a : Int) => toString a), p0 := StageCfg.pipeFold.pool foldEmpty ic 0 0 ec g, nIn := 1, nOut := 1, closerProc := false, hasFn := false } moves obs
        | s => s!"bad-op unknown pipe stage {s}"
    | _ => "bad-op"
  | _ => "bad-op"

/-- `seq x1 x2 …` → what Seq/ToSeq give in the model: `<cap> <len> | <ToSeq (Seq xs)> | <closed>` -/
def seqLine (xs : List Int) : String :=
  let ch := seqChan xs
  s!"{ch.cap} {ch.buf.length} | {showInts (toSeq ch)} | {ch.closed}"

/-- line: `<idx> <script> || <obs>` → `<idx> ok` / `<idx> MISMATCH …` -/
def step (line : String) : String :=
  match line.splitOn " " with
  | "seq" :: rest => match ints (rest.filter (· ≠ "")) with
    | some xs => seqLine xs
    | none => "bad-op"
  | idx :: rest => idx ++ " " ++ run (" ".intercalate rest)
  | _ => "bad-op"

def main : IO Unit := eachLine step
end Golem.Driver.Lockstep
