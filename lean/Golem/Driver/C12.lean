/- Oracle driver for C12 (stub: replaced when the property's model is built). -/
import Golem.Driver.Util
namespace Golem.Driver.C12
def main : IO Unit := IO.eprintln "oracle: no driver for C12 yet"
end Golem.Driver.C12
