/- Oracle driver for C09 (stub: replaced when the property's model is built). -/
import Golem.Driver.Util
namespace Golem.Driver.C09
def main : IO Unit := IO.eprintln "oracle: no driver for C09 yet"
end Golem.Driver.C09
