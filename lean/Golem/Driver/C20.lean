/- Oracle for C20: the specification `KChain.run` on call-logging affine arrows. -/
import Golem.Model.KChain
import Golem.Driver.Util
namespace Golem.Driver.C20
open Golem.Model Golem.Driver

def modulus : Int := 1000003

def arrow (i : Nat) (a b : Int) : Int → Trace Int := logged i (fun x => (a * x + b) % modulus)

def chain : Nat → List (Int × Int) → Option (KChain Trace Int Int)
  | _, [] => none
  | i, [(a, b)] => some (.one (arrow i a b))
  | i, (a, b) :: rest => (chain (i + 1) rest).map (.cons (arrow i a b))

def pairs : List Int → Option (List (Int × Int))
  | [] => some []
  | a :: b :: r => (pairs r).map ((a, b) :: ·)
  | _ => none

/-- line: `n x a1 b1 … an bn`  →  `result | trace` -/
def step (line : String) : String :=
  match ints (words line) with
  | some (n :: x :: rest) =>
    match pairs rest with
    | some ps =>
      if ps.length ≠ n.toNat then "bad-op" else
      match chain 1 ps with
      | some c =>
        -- x = -1 encodes the nil interface argument, which the first stage reads as 0;
        -- the composed function is applied twice to the same argument: same result, same trace
        let (r, tr) := (c.run (if x == -1 then 0 else x)).run []
        s!"{r} | {showNats tr} || {r} | {showNats tr}"
      | none => "bad-op"
    | none => "bad-op"
  | _ => "bad-op"

def main : IO Unit := eachLine step
end Golem.Driver.C20
