/- Oracle driver for C11 (stub: replaced when the property's model is built). -/
import Golem.Driver.Util
namespace Golem.Driver.C11
def main : IO Unit := IO.eprintln "oracle: no driver for C11 yet"
end Golem.Driver.C11
