/- Oracle driver for C19 (stub: replaced when the property's model is built). -/
import Golem.Driver.Util
namespace Golem.Driver.C19
def main : IO Unit := IO.eprintln "oracle: no driver for C19 yet"
end Golem.Driver.C19
