/- Oracle for C19: runs a script on the Lean models of list.Seq and slice.Seq (Golem.Model.ISeq,
the definitions the theorems of Props/C19 are about) and prints both observation lists and the
result of re-reading every older register after every operation.

line in : ops separated by blanks — `N:1,2,3` (`N:` = New()), `C:x:r`, `T:r`, `H:r`, `L:r`, `E:r`, `F:r`
line out: `<list observations> | <slice observations> | persist=ok`
  observation: `[e1,e2]/len` (constructor: elements and reported Length), `v<a>` (Head, Fold),
  `n<k>` (Length), `true|false` (IsEmpty), `panic`, `bad-reg` (the last two end the script). -/
import Golem.Model.ISeq
import Golem.Driver.Util
namespace Golem.Driver.C19
open Golem.Model.ISeq Golem.Driver

/-- The monoid the harness uses: Empty = 7, Combine(a, b) = (31a + b) mod 1000003
(neither commutative nor associative: order *and* grouping of the fold are visible). -/
def M31 : Monoid Int := ⟨7, fun a b => (a * 31 + b) % 1000003⟩

def slack (n : Nat) : Nat := n % 3

def parseOp (w : String) : Option (Op Int) :=
  match w.splitOn ":" with
  | ["N", ""] => some (.new [])
  | ["N", xs] => (ints (xs.splitOn ",")).map .new
  | ["C", x, r] => do let x ← x.toInt?; let r ← r.toNat?; pure (.cons x r)
  | ["T", r] => r.toNat?.map .tail
  | ["H", r] => r.toNat?.map .head
  | ["L", r] => r.toNat?.map .length
  | ["E", r] => r.toNat?.map .isEmpty
  | ["F", r] => r.toNat?.map .fold
  | _ => none

def showObs : Obs Int → String
  | .seq xs n => "[" ++ ",".intercalate (xs.map toString) ++ "]/" ++ toString n
  | .val a => "v" ++ toString a
  | .int n => "n" ++ toString n
  | .bool b => if b then "true" else "false"
  | .panic => "panic"
  | .badReg => "bad-reg"

def showRun (os : List (Obs Int)) : String := " ".intercalate (os.map showObs)

/-- After every operation: every older register is the same value with the same elements. -/
def persistL : List (LSeq Int) → List (Op Int) → Bool
  | _, [] => true
  | regs, op :: rest =>
    match stepL M31 regs op with
    | .error _ => true
    | .ok (regs', _) =>
      ((List.range regs.length).all fun i =>
        match regs[i]?, regs'[i]? with
        | some a, some b => L.elems a == L.elems b && a.len == b.len
        | _, _ => false) && persistL regs' rest

def persistS : SState Int → List (Op Int) → Bool
  | _, [] => true
  | st, op :: rest =>
    match stepS slack M31 st op with
    | .error _ => true
    | .ok (st', _) =>
      ((List.range st.regs.length).all fun i =>
        match st.regs[i]?, st'.regs[i]? with
        | some a, some b => a == b && S.elems st.heap a == S.elems st'.heap b
        | _, _ => false) && persistS st' rest

def step (line : String) : String :=
  match (words line).mapM parseOp with
  | none => "bad-op"
  | some sc =>
    let p := persistL [] sc && persistS ⟨[], []⟩ sc
    s!"{showRun (runL M31 sc)} | {showRun (runS slack M31 sc)} | persist={if p then "ok" else "FAIL"}"

def main : IO Unit := eachLine step
end Golem.Driver.C19
