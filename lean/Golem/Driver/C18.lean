/- Oracle driver for C18 (stub: replaced when the property's model is built). -/
import Golem.Driver.Util
namespace Golem.Driver.C18
def main : IO Unit := IO.eprintln "oracle: no driver for C18 yet"
end Golem.Driver.C18
