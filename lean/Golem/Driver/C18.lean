/- Oracle for C18: runs `Golem.Model.Skiplist` on an operation history.

line in : `<int|str> <nat|rev> <op> <op> …` with `<op>` = `P:<key>:<val>:<height>` | `G:<key>` | `R:<key>`
          (`<height>` is the height the implementation was observed to draw for that Put)
line out: per op `<ret> <printed>` joined by ` | `; `<ret>` = `_` for Put, the value for Get/Remove;
          `<printed>` = nodes `[<key>]<finger>,<finger>,…` joined by `;` (`nil` for a nil finger, a trailing
          run of N ≥ 1 nil fingers written `~N`) -/
import Golem.Model.Skiplist
import Golem.Driver.Util
namespace Golem.Driver.C18
open Golem.Model.Skiplist Golem.Driver

/-- `int(math.Log10(4294967296) / math.Log10(math.E))` in `New` -/
def levels : Nat := 22

def showNode {K : Type} (sh : K → String) (n : K × List (Option K)) : String :=
  let nils := (n.2.reverse.takeWhile Option.isNone).length
  let shown := (n.2.take (n.2.length - nils)).map (fun f => match f with | some k => sh k | none => "nil")
  "[" ++ sh n.1 ++ "]" ++ ",".intercalate shown ++ (if nils = 0 then "" else "~" ++ toString nils)

def showPrinted {K : Type} [Inhabited K] (sh : K → String) (s : State K Int) : String :=
  ";".intercalate ((printed s).map (showNode sh))

def parseOp {K : Type} (pk : String → Option K) (w : String) : Option (Op K Int) :=
  match w.splitOn ":" with
  | ["P", k, v, h] => do let k ← pk k; let v ← v.toInt?; let h ← h.toNat?; pure (.put k v h)
  | ["G", k] => do let k ← pk k; pure (.get k)
  | ["R", k] => do let k ← pk k; pure (.remove k)
  | _ => none

def runOps {K : Type} [Inhabited K] (cmp : K → K → Ordering) (sh : K → String) :
    State K Int → List (Op K Int) → List String
  | _, [] => []
  | s, o :: os =>
    let r := step cmp s o
    let ret := match r.2 with | some v => toString v | none => "_"
    (ret ++ " " ++ showPrinted sh r.1) :: runOps cmp sh r.1 os

def history {K : Type} [Inhabited K] (cmp : K → K → Ordering) (pk : String → Option K) (sh : K → String)
    (ws : List String) : String :=
  match ws.mapM (parseOp pk) with
  | some ops => " | ".intercalate (runOps cmp sh (init levels) ops)
  | none => "bad-op"

def rev {K : Type} (cmp : K → K → Ordering) : K → K → Ordering := fun a b => cmp b a

def step' (line : String) : String :=
  match words line with
  | "int" :: "nat" :: ws => history (K := Int) compare String.toInt? toString ws
  | "int" :: "rev" :: ws => history (K := Int) (rev compare) String.toInt? toString ws
  | "str" :: "nat" :: ws => history (K := String) compare some id ws
  | "str" :: "rev" :: ws => history (K := String) (rev compare) some id ws
  | _ => "bad-op"

def main : IO Unit := eachLine step'
end Golem.Driver.C18
