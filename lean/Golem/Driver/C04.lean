/- Oracle driver for C04 (stub: replaced when the property's model is built). -/
import Golem.Driver.Util
namespace Golem.Driver.C04
def main : IO Unit := IO.eprintln "oracle: no driver for C04 yet"
end Golem.Driver.C04
