/-
Oracle for C04: runs the hand mirrors of `Model/Optics.lean` (join, getter, setter, bimap, iso,
shapePut/shapeGet, morphism, lensM) on an abstract record model: a structure value is a tree of
cells (`Val.node`), a field lens is a cell index path.

Case lines (sections separated by ` | `):
  O <optic> | <val> | <ops>                 ops: `p <val>` put, `g` get, `gp` put(get)
  S <n> <optic>*n | <val> | <ops>           ops: `p <val>*n`, `g`
  I <optic_s> <optic_t> | <s> | <t> | <s'>  Iso: forward(s,t); inverse(t,s); inverse(t,s')
  M <entry>* | <s> | <t> | <s'>             Morphism; entry: (n) nil | (i <optic> <optic>) | (m <entry>*)
  K <zero> | <key universe> | <map> | <ops> map: nil | (m k v ...); ops: `p k <val>`, `g k`
optic: (f i j ..) field path | (j o o) Join | (b o k) BiMap (+k, minus k) | (x o) BiMapS/B/I/F (identity
conversion) | (g o a b) Getter a*x+b | (s o a b) Setter a*x+b
val:   (r v ..) record | integer | any other token (opaque atom)
-/
import Golem.Model.Optics
import Golem.Driver.Util
namespace Golem.Driver.C04
open Golem.Model.Optics Golem.Driver

inductive SExp where
  | atom (s : String)
  | list (xs : List SExp)
  deriving Inhabited

/-- tokens → s-expressions; returns the parsed items and the rest after a closing paren -/
partial def parseItems : List String → List SExp → Option (List SExp × List String)
  | [], acc => some (acc.reverse, [])
  | ")" :: rest, acc => some (acc.reverse, ")" :: rest)
  | "(" :: rest, acc =>
    match parseItems rest [] with
    | some (xs, ")" :: rest') => parseItems rest' (.list xs :: acc)
    | _ => none
  | t :: rest, acc => parseItems rest (.atom t :: acc)

def tokens (s : String) : List String :=
  words ((s.replace "(" " ( ").replace ")" " ) ")

def parseSection (s : String) : Option (List SExp) :=
  match parseItems (tokens s) [] with
  | some (xs, []) => some xs
  | _ => none

inductive Val where
  | int (i : Int)
  | tok (s : String)
  | node (fs : List Val)

instance : Inhabited Val := ⟨.int 0⟩

partial def Val.render : Val → String
  | .int i => toString i
  | .tok s => s
  | .node fs => "(r" ++ String.join (fs.map fun f => " " ++ f.render) ++ ")"

partial def toVal : SExp → Option Val
  | .atom s => some (match s.toInt? with | some i => .int i | none => .tok s)
  | .list (.atom "r" :: xs) => (xs.mapM toVal).map .node
  | _ => none

/-- read the cell at an index path -/
def getPath : List Nat → Val → Val
  | [], v => v
  | i :: p, .node fs => getPath p (fs.getD i default)
  | _, v => v

/-- overwrite the cell at an index path -/
def putPath : List Nat → Val → Val → Val
  | [], _, a => a
  | i :: p, .node fs, a => .node (fs.set i (putPath p (fs.getD i default) a))
  | _, v, _ => v

/-- a field lens (what `ForProduct1[T, A]` yields): the cell at a path -/
def pathLens (p : List Nat) : Lens Val Val := ⟨getPath p, putPath p⟩

def affine (a b : Int) : Val → Val
  | .int x => .int (a * x + b)
  | v => v

def atomInt? : SExp → Option Int
  | .atom s => s.toInt?
  | _ => none

def atomNat? : SExp → Option Nat
  | .atom s => s.toNat?
  | _ => none

partial def toOptic : SExp → Option (Lens Val Val)
  | .list (.atom "f" :: is) => (is.mapM atomNat?).map pathLens
  | .list [.atom "j", x, y] => do
    let a ← toOptic x
    let b ← toOptic y
    pure (join a b)
  | .list [.atom "b", x, k] => do
    let l ← toOptic x
    let k ← atomInt? k
    pure (bimap l (affine 1 k) (affine 1 (-k)))
  | .list [.atom "x", x] => do
    let l ← toOptic x
    pure (bimap l id id)
  | .list [.atom "g", x, a, b] => do
    let l ← toOptic x
    pure (getter l (affine (← atomInt? a) (← atomInt? b)))
  | .list [.atom "s", x, a, b] => do
    let l ← toOptic x
    pure (setter l (affine (← atomInt? a) (← atomInt? b)))
  | _ => none

/-- ops of kind O over one lens -/
def runO (l : Lens Val Val) : List SExp → Val → List String → Option (List String)
  | [], _, out => some out.reverse
  | .atom "g" :: r, s, out => runO l r s ((l.get s).render :: out)
  | .atom "gp" :: r, s, out =>
    let s' := l.put s (l.get s)
    runO l r s' (("same:" ++ s'.render) :: out)
  | .atom "p" :: v :: r, s, out =>
    match toVal v with
    | some v => let s' := l.put s v; runO l r s' (("same:" ++ s'.render) :: out)
    | none => none
  | _, _, _ => none

def runS (ls : List (Lens Val Val)) : Nat → List SExp → Val → List String → Option (List String)
  | _, [], _, out => some out.reverse
  | fuel + 1, .atom "g" :: r, s, out =>
    runS ls fuel r s (",".intercalate ((shapeGet ls s).map Val.render) :: out)
  | fuel + 1, .atom "p" :: r, s, out =>
    match (r.take ls.length).mapM toVal with
    | some vs =>
      if vs.length ≠ ls.length then none else
      let s' := shapePut (ls.zip vs) s
      runS ls fuel (r.drop ls.length) s' (("same:" ++ s'.render) :: out)
    | none => none
  | _, _, _, _ => none

partial def toEntry : SExp → Option (Option (Isomorphism Val Val))
  | .list [.atom "n"] => some none
  | .list [.atom "i", a, b] => do
    let sa ← toOptic a
    let ta ← toOptic b
    pure (some (iso sa ta))
  | .list (.atom "m" :: es) => do
    let l ← es.mapM toEntry
    pure (some (morphismOf l))
  | _ => none

def runIso (i : Isomorphism Val Val) (s t s' : Val) : String :=
  let t1 := i.forward s t
  let s2 := i.inverse t1 s
  let s3 := i.inverse t1 s'
  s!"{s.render},{t1.render};{s2.render},{t1.render};{s3.render},{t1.render}"

/-- association list → Go map value -/
def mkMap : List SExp → Option (List (String × Val))
  | [] => some []
  | .atom k :: v :: r => do
    let v ← toVal v
    let m ← mkMap r
    pure ((k, v) :: m)
  | _ => none

def renderMap (univ : List String) (m : GoMap String Val) : String :=
  match m with
  | none => "nil"
  | some f => "(m" ++ String.join (univ.filterMap fun k => (f k).map fun v => " " ++ k ++ " " ++ v.render) ++ ")"

def runK (zero : Val) (univ : List String) : Nat → List SExp → GoMap String Val → List String → Option (List String)
  | _, [], _, out => some out.reverse
  | fuel + 1, .atom "g" :: .atom k :: r, m, out =>
    let _ : Inhabited Val := ⟨zero⟩
    runK zero univ fuel r m ((lensM.get k m).render :: out)
  | fuel + 1, .atom "p" :: .atom k :: v :: r, m, out =>
    match toVal v with
    | some v =>
      match lensM.put k m v with
      | .ok m' => runK zero univ fuel r m' (renderMap univ m' :: out)
      | .error .nilMap => runK zero univ fuel r m ("panic:nilmap" :: out)
    | none => none
  | _, _, _, _ => none

def finish : Option (List String) → String
  | some out => ";".intercalate out
  | none => "bad-op"

def step (line : String) : String :=
  match (line.splitOn " | ").map parseSection with
  | [some (.atom "O" :: [o]), some [v], some ops] =>
    match toOptic o, toVal v with
    | some l, some s => finish (runO l ops s [])
    | _, _ => "bad-op"
  | [some (.atom "S" :: _ :: os), some [v], some ops] =>
    match os.mapM toOptic, toVal v with
    | some ls, some s => finish (runS ls ops.length ops s [])
    | _, _ => "bad-op"
  | [some [.atom "I", a, b], some [s], some [t], some [s']] =>
    match toOptic a, toOptic b, toVal s, toVal t, toVal s' with
    | some sa, some ta, some s, some t, some s' => runIso (iso sa ta) s t s'
    | _, _, _, _, _ => "bad-op"
  | [some (.atom "M" :: es), some [s], some [t], some [s']] =>
    match es.mapM toEntry, toVal s, toVal t, toVal s' with
    | some l, some s, some t, some s' => runIso (morphismOf l) s t s'
    | _, _, _, _ => "bad-op"
  | [some [.atom "K", z], some univ, some [m], some ops] =>
    let univ := univ.filterMap fun | .atom k => some k | _ => none
    match toVal z, m with
    | some z, .atom "nil" => finish (runK z univ ops.length ops none [])
    | some z, .list (.atom "m" :: kvs) =>
      match mkMap kvs with
      | some al => finish (runK z univ ops.length ops (some fun k => al.lookup k) [])
      | none => "bad-op"
    | _, _ => "bad-op"
  | _ => "bad-op"

def main : IO Unit := eachLine step
end Golem.Driver.C04
