/- Line-protocol plumbing for the `oracle` executable (core Lean only). -/
namespace Golem.Driver

/-- Run `f` on every stdin line, print its result line. `partial` is confined to this loop. -/
partial def eachLine (f : String → String) : IO Unit := do
  let stdin ← IO.getStdin
  let stdout ← IO.getStdout
  let rec loop : IO Unit := do
    let line ← stdin.getLine
    if line.isEmpty then return ()
    let l := (line.dropRightWhile (fun c => c == '\n' || c == '\r'))
    stdout.putStrLn (f l)
    loop
  loop
  stdout.flush

def words (s : String) : List String := (s.splitOn " ").filter (· ≠ "")

def ints (ws : List String) : Option (List Int) := ws.mapM String.toInt?
def nats (ws : List String) : Option (List Nat) := ws.mapM String.toNat?

def showInts (xs : List Int) : String := " ".intercalate (xs.map toString)
def showNats (xs : List Nat) : String := " ".intercalate (xs.map toString)

end Golem.Driver
