/- Oracle driver for C13 (stub: replaced when the property's model is built). -/
import Golem.Driver.Util
namespace Golem.Driver.C13
def main : IO Unit := IO.eprintln "oracle: no driver for C13 yet"
end Golem.Driver.C13
