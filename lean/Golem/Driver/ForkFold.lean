/- Lock-step oracle driver (stub: replaced when the model is built). -/
import Golem.Driver.Util
namespace Golem.Driver.ForkFold
def main : IO Unit := IO.eprintln "oracle: no driver for ForkFold yet"
end Golem.Driver.ForkFold
