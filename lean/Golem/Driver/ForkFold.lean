/-
`oracle forkfold`: lock-step oracle for fork.Fold (state-set engine over `Golem.Go.FF`).
Line: `<idx> <cfg> | <moves> || <observations>` → `<idx> ok` / `<idx> MISMATCH …`.
-/
import Std.Data.HashSet
import Golem.Go.ForkFold
import Golem.Driver.PoolRun
namespace Golem.Driver.ForkFold
open Golem.Go Golem.Go.Pool Golem.Model Golem.Driver Golem.Driver.PoolRun

def modulus : Int := 1000003

/-- monoid family — mirrors `monoidOf` in go/harness/lockstep -/
def monoidOf (name : String) : Int × (Int → Int → Int) :=
  match name with
  | "sum" => (0, fun a b => a + b)
  | "prod" => (1, fun a b => (a * b) % modulus)
  | "max" => (-1000000, fun a b => if a > b then a else b)
  | "min" => (1000000, fun a b => if a < b then a else b)
  | "and" => (1048575, fun a b => Int.ofNat (Nat.land a.toNat b.toNat))
  | "or" => (0, fun a b => Int.ofNat (Nat.lor a.toNat b.toNat))
  | _ => (7, fun a b => (a * 31 + b) % modulus)

def rI : Render Int Int := { showS := fun a => toString a, showV := fun _ v => s!"v{v}" }

def showColl : Coll Int → String
  | .waiting => "W" | .reading n a => s!"R{n}/{a}" | .sending a => s!"S{a}" | .closeVals => "cv" | .closeDone => "cd" | .halted => "H"

def fkey (s : FF Int) : String :=
  PoolRun.key rI 1 1 s.pool ++ "#" ++ showColl s.coll ++ "#" ++ showInts s.done.buf ++ (if s.done.closed then "!" else "")

def flens (s : FF Int) : String := s!"[{(s.pool.ins 0).buf.length};{s.done.buf.length}]"

partial def closure (c : Int → Int → Int) (e : Int) (par : Nat) (init : List (FF Int)) : List (FF Int) := Id.run do
  let mut seen : Std.HashSet String := {}
  let mut work := init
  let mut quiet : List (FF Int) := []
  let mut fuel := 2000000
  while !work.isEmpty && fuel > 0 do
    fuel := fuel - 1
    match work with
    | [] => pure ()
    | s :: rest =>
      work := rest
      let k := fkey s
      if seen.contains k then continue
      seen := seen.insert k
      if s.pool.panicked then
        quiet := s :: quiet
        continue
      let nx := (PoolRun.reducedNext (foldS c) s.pool).map (fun q => { s with pool := q }) ++ FF.collNext c e par s
      if nx.isEmpty then quiet := s :: quiet else work := nx ++ work
  return quiet

def alive (s : FF Int) : Nat :=
  ((List.range s.pool.nW).filter fun i => !(Ctl.isExited (s.pool.ws i).ctl)).length +
    (match s.coll with | .halted => 0 | _ => 1)

def applyMove (c : Int → Int → Int) (s : FF Int) (mv : String) : List (FF Int × String) :=
  let body := (mv.drop 1).toString
  let sh := fun (x : FF Int × Obs Int) => (x.1, showObs rI 0 x.2)
  match mv.front with
  | 's' => match body.toInt? with
    | some v => (FF.envNext c s (.send v)).map sh
    | none => [(s, "bad")]
  | 'c' => (FF.envNext c s .close).map sh
  | 'x' => (FF.envNext c s .cancel).map sh
  | 'r' => (FF.envNext c s .recv).map sh
  | 'z' => [(s, toString (alive s))]
  | _ => [(s, "bad")]

def check (c : Int → Int → Int) (e : Int) (par : Nat) (s0 : FF Int) (moves obs : List String) : String := Id.run do
  let cl := closure c e par
  let mut states := cl [s0]
  match obs with
  | [] => return "MISMATCH no observations"
  | o0 :: orest =>
    let want0 := (o0.drop 2).toString
    states := states.filter fun s => !s.pool.panicked && flens s == want0
    if states.isEmpty then return s!"MISMATCH at init: impl={o0}"
    let mut os := orest
    let mut idx := 0
    for mv in moves do
      match os with
      | [] => return s!"MISMATCH at {idx} {mv}: implementation produced no observation (crashed?)"
      | o :: r =>
        os := r
        let cands := states.flatMap fun s => applyMove c s mv
        let body := (o.drop (mv.length + 1)).toString
        let res := (body.splitOn "[").headD ""
        let ln := "[" ++ ((body.splitOn "[").getD 1 "")
        let hit := cands.filter fun (_, t) => t == res
        if hit.isEmpty then
          return s!"MISMATCH at {idx} {mv}: impl={res} model allows {(cands.map (·.2)).eraseDups}"
        let after := cl (hit.map (·.1))
        let ok := after.filter fun s => !s.pool.panicked && flens s == ln
        if ok.isEmpty then
          return s!"MISMATCH at {idx} {mv}: impl lens={ln} model allows {(after.map flens).eraseDups}"
        states := ok
        idx := idx + 1
    return "ok"

def run (line : String) : String :=
  match line.splitOn " || " with
  | [script, obsS] =>
    match script.splitOn " | " with
    | cfgS :: rest =>
      let moves := words (rest.headD "")
      let kv := (words cfgS).filterMap fun w => match w.splitOn "=" with | [k, v] => some (k, v) | _ => none
      let get := fun k d => ((kv.find? (·.1 == k)).map (·.2)).getD d
      let par := (get "par" "1").toNat?.getD 1
      let cap := (get "cap" "0").toNat?.getD 0
      let (e, c) := monoidOf (get "mon" "")
      check c e par (FF.init e par cap false) moves (words obsS)
    | _ => "bad-op"
  | _ => "bad-op"

def step (line : String) : String :=
  match line.splitOn " " with
  | idx :: rest => idx ++ " " ++ run (" ".intercalate rest)
  | _ => "bad-op"

def main : IO Unit := eachLine step
end Golem.Driver.ForkFold
