/-
Oracle driver for C01/C02: everything `Driver/C03` answers plus the optics requests, executed
on `Model/Lens`.

  lens|lensd sid P|S T A* ; NAME*      ok lo,hi … | panic:<class>     (`-` for a zero-size focus)
      ForProductN / ForSpectrumN [T, A…](names…); the windows are relative to the container pointer
  refl sid T A NAME DYN gett|putt      ok | panic:<class>
      r := ForSpectrum1[T, A](NAME); r.Gett(dyn) / r.Putt(dyn, zero) where DYN is the dynamic type
      of the argument (`nil` for a nil interface)
-/
import Golem.Model.Lens
import Golem.Driver.C03
namespace Golem.Driver.C01
open Golem.Model Golem.Driver Golem.Driver.C03

def showWin (l : Lens) : String :=
  if l.A.size = 0 then "-" else s!"{l.window.1},{l.window.2}"

def splitAt (sep : String) : List String → List String × List String
  | [] => ([], [])
  | x :: xs => if x == sep then ([], xs) else let (a, b) := splitAt sep xs; (x :: a, b)

def extra (S : GoType) : List String → Option String
  | kind :: fam :: rest =>
    if kind == "lens" || kind == "lensd" then
      let (tys, names) := splitAt ";" rest
      match typesOf (some S) tys with
      | some (T :: As) =>
        let r := if fam == "P" then forProduct T As names else forSpectrum T As names
        some (exceptStr (fun ls => " ".intercalate ("ok" :: ls.map showWin)) r)
      | _ => some "bad-type"
    else if kind == "refl" then
      -- here `fam :: rest` = T A NAME DYN op   (types may span several tokens)
      match parseS (fam :: rest) with
      | some (t, r1) =>
        match parseS r1 with
        | some (a, name :: r2) =>
          let dynOp : Option (Option GoType × String) :=
            match r2 with
            | ["nil", op] => some (none, op)
            | _ =>
              match parseS r2 with
              | some (d, [op]) => (toType (some S) d).map (fun d => (some d, op))
              | _ => none
          match toType (some S) t, toType (some S) a, dynOp with
          | some T, some A, some (dyn, op) =>
            some (exceptStr (fun ls =>
              match ls with
              | [l] =>
                let m : Mem := fun _ => 0
                if op == "gett" then exceptStr (fun _ => "ok") (l.gett m ⟨dyn, 1000⟩)
                else exceptStr (fun _ => "ok") (l.putt m ⟨dyn, 1000⟩ (List.replicate A.size 0))
              | _ => "bad-arity") (forSpectrum T [A] [name]))
          | _, _, _ => some "bad-type"
        | _ => some "bad-request"
      | none => some "bad-request"
    else none
  | _ => none

def main : IO Unit := loop extra
end Golem.Driver.C01
