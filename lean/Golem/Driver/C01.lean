/- Oracle driver for C01 (stub: replaced when the property's model is built). -/
import Golem.Driver.Util
namespace Golem.Driver.C01
def main : IO Unit := IO.eprintln "oracle: no driver for C01 yet"
end Golem.Driver.C01
