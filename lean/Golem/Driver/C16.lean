/- Oracle for C16: runs the model of duct (`build`, then `Morphism.apply` with the recorder that
fails at callback index k) on a program description and prints the harness's line format.

line in:   P<pid> <k> from <A> join <B> <C> liftF <B> <C> wrapF <B> unit <B> yield <B> ...
line out:  n=<callbacks invoked> err=<nil|E<k>> | <event> <event> ...      (or ill-typed / bad-op)
-/
import Golem.Model.Duct
import Golem.Driver.Util
namespace Golem.Driver.C16
open Golem.Model.Duct Golem.Driver

/-- `[]` → slice, `*` → pointer, `any` → the unnamed interface type, anything else a named type
(`Void` = duct.Void). -/
def parseTy : List Char → Ty
  | '[' :: ']' :: rest => .slice (parseTy rest)
  | '*' :: rest => .ptr (parseTy rest)
  | cs => if cs == "any".toList then .anon else .named (String.ofList cs)

def ty (s : String) : Ty := parseTy s.toList

def parseSteps : Nat → List String → Option (List Step)
  | _, [] => some []
  | 0, _ => none
  | fuel + 1, "join" :: b :: c :: rest => (parseSteps fuel rest).map (Step.join (ty b) (ty c) :: ·)
  | fuel + 1, "liftF" :: b :: c :: rest => (parseSteps fuel rest).map (Step.liftF (ty b) (ty c) :: ·)
  | fuel + 1, "wrapF" :: b :: rest => (parseSteps fuel rest).map (Step.wrapF (ty b) :: ·)
  | fuel + 1, "unit" :: b :: rest => (parseSteps fuel rest).map (Step.unit (ty b) :: ·)
  | fuel + 1, "yield" :: b :: rest => (parseSteps fuel rest).map (Step.yield (ty b) :: ·)
  | _, _ => none

def bit (b : Bool) : String := if b then "1" else "0"

def showCb : Cb → String
  | .enterMorphism => "+morph" | .leaveMorphism => "-morph"
  | .enterSeq => "+seq" | .leaveSeq => "-seq"
  | .enterMap => "+map" | .leaveMap => "-map"
  | .enterFrom => "+from" | .leaveFrom => "-from"
  | .enterYield => "+yield" | .leaveYield => "-yield"

def showNode : Ast → String
  | .afrom t => t
  | .ayield t => t
  | .amap a b => a ++ ">" ++ b
  | .aseq r d s => s!"r{bit r}d{bit d}n{s.length}"

def showEvent (e : Event) : String := s!"{showCb e.cb}:{e.depth}:{showNode e.node}"

def step (line : String) : String :=
  match words line with
  | pid :: k :: "from" :: a :: rest =>
    if !pid.startsWith "P" then "bad-op" else
    match k.toNat?, parseSteps rest.length rest with
    | some k, some steps =>
      let A := ty a
      if !(decide (WellTyped A steps)) then "ill-typed" else
      let code := build A steps
      let ((n, log), err) := Morphism.apply code (failAt k s!"E{k}") (0, [])
      let es := match err with | some e => e | none => "nil"
      s!"n={n} err={es} | {" ".intercalate (log.map showEvent)}"
    | _, _ => "bad-op"
  | _ => "bad-op"

def main : IO Unit := eachLine step
end Golem.Driver.C16
