/- Oracle driver for C16 (stub: replaced when the property's model is built). -/
import Golem.Driver.Util
namespace Golem.Driver.C16
def main : IO Unit := IO.eprintln "oracle: no driver for C16 yet"
end Golem.Driver.C16
