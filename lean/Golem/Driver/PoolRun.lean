/-
Lock-step oracle engine for worker pools: keeps the SET of model states compatible with the
implementation's observations so far. After every environment move the set is closed under
process moves until quiescence (all interleavings, all `select` choices); an empty set is a
correspondence failure.
-/
import Std.Data.HashSet
import Golem.Go.Pool
import Golem.Driver.Util
namespace Golem.Driver.PoolRun
open Golem.Go Golem.Go.Pool Golem.Driver

variable {σ β : Type}

structure Render (σ β : Type) where
  showS : σ → String
  /-- how the environment prints a value received on output `k` -/
  showV : Nat → β → String

def showMode : Mode → String | .sel => "s" | .plain => "p"
def showAfter : After → String | .cont => "c" | .poll => "p" | .stop => "s"
def showWhy : Why → String | .eof => "e" | .stop => "s" | .done => "d"

def showCtl (R : Render σ β) : Ctl σ Int β → String
  | .idle s => "I" ++ R.showS s
  | .calling s a => "C" ++ R.showS s ++ "/" ++ toString a
  | .busy s ems aft => "B" ++ R.showS s ++ "/" ++ ",".intercalate (ems.map fun e => s!"{e.ch}:{R.showV e.ch e.val}{showMode e.mode}") ++ "/" ++ showAfter aft
  | .exiting s fin why => "X" ++ R.showS s ++ "/" ++ ",".intercalate (fin.map fun (k, v) => s!"{k}:{R.showV k v}") ++ "/" ++ showWhy why
  | .exited s why => "Z" ++ R.showS s ++ showWhy why

def sortInts (xs : List Int) : List Int := (xs.toArray.qsort (· < ·)).toList

/-- dynamic part of the state (history variables do not influence the future, except the
sorted applied-multiset which the `a` move observes) -/
def key (R : Render σ β) (nIn nOut : Nat) (p : Pool σ Int β) : String :=
  -- workers are interchangeable up to their input: sort their renderings (symmetry reduction);
  -- of the histories only the multiset of consumed elements is observable (move `a`)
  let ws := ((List.range p.nW).map fun i => s!"{(p.ws i).inp}" ++ showCtl R (p.ws i).ctl).toArray.qsort (· < ·) |>.toList
  let hs := sortInts ((List.range p.nW).flatMap fun i => (p.ws i).hist)
  let is := (List.range nIn).map fun j => s!"{showInts (p.ins j).buf}{if (p.ins j).closed then "!" else ""}"
  let os := (List.range nOut).map fun k => s!"{",".intercalate ((p.outs k).buf.map (R.showV k))}{if (p.outs k).closed then "!" else ""}"
  s!"{ws}|{hs}|{is}|{os}|{p.toClose}|{p.cancelled}|{p.panicked}"

def lens (nIn nOut : Nat) (p : Pool σ Int β) : String :=
  "[" ++ ",".intercalate ((List.range nIn).map fun j => toString (p.ins j).buf.length) ++ ";" ++
    ",".intercalate ((List.range nOut).map fun k => toString (p.outs k).buf.length) ++ "]"

/-- outputs consumed by a library goroutine of the composite stage (`StdErr` drains `exx`):
an always-ready receiver, modelled as extra internal moves -/
def drainNext (st : Stage σ Int β) (drain : List Nat) (p : Pool σ Int β) : List (Pool σ Int β) :=
  drain.flatMap fun k => (envNext st p (.recv k)).filterMap fun (q, o) => match o with
    | .value _ => some q
    | _ => none

/-- partial-order reduction: a move that only changes one worker's own control point (user call
returns, loop head, exit bookkeeping) is invisible and independent of every other process move, so it
is taken first and alone; only channel operations are interleaved -/
def reducedNext (st : Stage σ Int β) (p : Pool σ Int β) : List (Pool σ Int β) :=
  let loc := (List.range p.nW).find? fun i => match (p.ws i).ctl with
    | .calling _ _ => !p.gated
    | .busy _ [] _ => true
    | .exiting _ [] _ => true
    | _ => false
  match loc with
  | some i => workerNext st p i
  | none => procNext st p

/-- quiescent states reachable by process moves from `init` (every interleaving) -/
partial def closure (st : Stage σ Int β) (R : Render σ β) (nIn nOut : Nat) (drain : List Nat) (init : List (Pool σ Int β)) :
    List (Pool σ Int β) := Id.run do
  let mut seen : Std.HashSet String := {}
  let mut work := init
  let mut quiet : List (Pool σ Int β) := []
  let mut fuel := 2000000
  while !work.isEmpty && fuel > 0 do
    fuel := fuel - 1
    match work with
    | [] => pure ()
    | p :: rest =>
      work := rest
      let k := key R nIn (nOut + drain.length) p
      if seen.contains k then continue
      seen := seen.insert k
      if p.panicked then
        quiet := p :: quiet
        continue
      let nx := reducedNext st p ++ drainNext st drain p
      if nx.isEmpty then quiet := p :: quiet
      else work := nx ++ work
  return quiet

def showObs (R : Render σ β) (k : Nat) : Obs β → String
  | .ok => "ok" | .full => "full" | .value v => R.showV k v | .empty => "empty" | .closed => "closed" | .nope => "nope"

/-- goroutines alive in the library: workers not yet returned, plus the closer goroutine of
fork/Join stages while it still has something to close -/
def alive (closerProc : Bool) (drain : List Nat) (p : Pool σ Int β) : Nat :=
  ((List.range p.nW).filter fun i => !(Ctl.isExited (p.ws i).ctl)).length +
    (if closerProc && !p.toClose.isEmpty then 1 else 0) +
    (drain.filter fun k => !((p.outs k).closed && (p.outs k).buf.isEmpty)).length


structure Cfg (σ β : Type) where
  st : Stage σ Int β
  R : Render σ β
  p0 : Pool σ Int β
  nIn : Nat
  nOut : Nat
  closerProc : Bool
  hasFn : Bool
  /-- visit log of a single-worker ForEach -/
  visits : σ → List Int := fun _ => []
  drain : List Nat := []

/-- parse `s0:5`, `s5`, `c0`, `r1`, `x`, `g5`, `z`, `v`, `a`, `t1500` -/
def parseMove (m : String) : Option (Sum (Move Int) String) :=
  let body := (m.drop 1).toString
  match m.get 0 with
  | 's' =>
    match body.splitOn ":" with
    | [v] => v.toInt?.map fun v => .inl (.send 0 v)
    | [j, v] => do let j ← j.toNat?; let v ← v.toInt?; pure (.inl (.send j v))
    | _ => none
  | 'c' => body.toNat?.map fun j => .inl (.close j)
  | 'r' => body.toNat?.map fun k => .inl (.recv k)
  | 'x' => some (.inl .cancel)
  | 'g' => body.toInt?.map fun v => .inr s!"g{v}"
  | 'z' => some (.inr "z")
  | 'v' => some (.inr "v")
  | 'a' => some (.inr "a")
  | 't' => body.toNat?.map fun _ => .inr "t"   -- time passes: the (untimed) pool model does nothing
  | _ => none

/-- successors of one state under one script move, each with the token the environment would see -/
def applyMove (c : Cfg σ β) (p : Pool σ Int β) (mv : String) : List (Pool σ Int β × String) :=
  match parseMove mv with
  | some (.inl (.recv k)) => (envNext c.st p (.recv k)).map fun (q, o) => (q, showObs c.R k o)
  | some (.inl m) => (envNext c.st p m).map fun (q, o) => (q, showObs c.R 0 o)
  | some (.inr "t") => [(p, "ok")]
  | some (.inr "z") => [(p, toString (alive c.closerProc c.drain p))]
  | some (.inr "v") => [(p, "(" ++ ",".intercalate ((c.visits (match (p.ws 0).ctl with
        | .idle s => s | .calling s _ => s | .busy s _ _ => s | .exiting s _ _ => s | .exited s _ => s)).map toString) ++ ")")]
  | some (.inr "a") =>
    let all := if c.hasFn then (List.range p.nW).flatMap fun i => (p.ws i).hist else []
    [(p, "(" ++ ",".intercalate ((sortInts all).map toString) ++ ")")]
  | some (.inr g) =>
    -- release the gated call on element v
    match (g.drop 1).toString.toInt? with
    | some v =>
      let hits := (List.range p.nW).filter fun i => match (p.ws i).ctl with
        | .calling _ a => a == v
        | _ => false
      match hits with
      | i :: _ => (envNext c.st p (.release i)).map fun (q, o) => (q, showObs c.R 0 o)
      | [] => [(p, "nope")]
    | none => [(p, "bad")]
  | none => [(p, "bad")]

/-- run a script against observed tokens `mv:res[lens]`; returns "ok" or a mismatch report -/
def check (c : Cfg σ β) (moves obs : List String) : String := Id.run do
  let cl := closure c.st c.R c.nIn c.nOut c.drain
  let mut states := cl [c.p0]
  -- initial observation
  match obs with
  | [] => return "MISMATCH no observations"
  | o0 :: orest =>
    let want0 := (o0.drop 2).toString
    states := states.filter fun p => !p.panicked && lens c.nIn c.nOut p == want0
    if states.isEmpty then return s!"MISMATCH at init: impl={o0} model={(cl [c.p0]).map (lens c.nIn c.nOut)}"
    let mut os := orest
    let mut idx := 0
    for mv in moves do
      match os with
      | [] => return s!"MISMATCH at {idx} {mv}: implementation produced no observation (crashed?)"
      | o :: r =>
        os := r
        let cands := states.flatMap fun p => applyMove c p mv
        -- the token is  mv:res[lens]
        let body := (o.drop (mv.length + 1)).toString
        let res := (body.splitOn "[").headD ""
        let ln := "[" ++ ((body.splitOn "[").getD 1 "")
        let hit := cands.filter fun (_, t) => t == res
        if hit.isEmpty then
          return s!"MISMATCH at {idx} {mv}: impl={res} model allows {(cands.map (·.2)).eraseDups}"
        let after := cl (hit.map (·.1))
        let ok := after.filter fun p => !p.panicked && lens c.nIn c.nOut p == ln
        if ok.isEmpty then
          let pn := if after.any (·.panicked) then " (model can panic here)" else ""
          return s!"MISMATCH at {idx} {mv}: impl lens={ln} model allows {(after.map (lens c.nIn c.nOut)).eraseDups}{pn}"
        states := ok
        idx := idx + 1
    return "ok"

end Golem.Driver.PoolRun
