/- Oracle driver for C05 (stub: replaced when the property's model is built). -/
import Golem.Driver.Util
namespace Golem.Driver.C05
def main : IO Unit := IO.eprintln "oracle: no driver for C05 yet"
end Golem.Driver.C05
