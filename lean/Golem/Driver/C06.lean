/- Oracle driver for C06 (stub: replaced when the property's model is built). -/
import Golem.Driver.Util
namespace Golem.Driver.C06
def main : IO Unit := IO.eprintln "oracle: no driver for C06 yet"
end Golem.Driver.C06
