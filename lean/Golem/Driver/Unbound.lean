/-
`oracle unbound`: lock-step oracle for `pipe.New` over the pump network `Golem.Go.Unbound`
(the very successor functions the theorems of Props/C08 are about).

line  `<idx> stage=New cap=<n> | <moves> || <observations>`  →  `<idx> ok` / `<idx> MISMATCH …`

moves: `s<v>` send, `c0` close by the sender, `r0` receive, `x` cancel, `z` goroutine census,
`b<m>,<m>,…` a burst of those moves made back to back (the pump may or may not move in between;
quiescence is awaited, and the channel lengths observed, only after the last one).
observation tokens: `i:[len in;len eg]`, then per move `<move>:<result>[len in;len eg]`.

The engine keeps the SET of model states compatible with the observations so far; after every
environment move the set is closed under process moves until quiescence (every `select` choice).
-/
import Std.Data.HashSet
import Golem.Go.Unbound
import Golem.Driver.Util
namespace Golem.Driver.Unbound
open Golem.Go Golem.Go.Unbound Golem.Driver

def showPc : Pc Int → String
  | .main => "M" | .mainGot x => s!"Mg{x}" | .mainSent => "Ms"
  | .drain => "D" | .drainGot x => s!"Dg{x}" | .closeIn => "C"
  | .range => "R" | .rangeGot x => s!"Rg{x}" | .flush => "F" | .flushSent => "Fs"
  | .closeEg => "E" | .exited => "Z"

def showChan (c : Chan Int) : String := showInts c.buf ++ (if c.closed then "!" else "")

/-- dynamic part of a state (history variables do not influence the future) -/
def key (p : Net Int) : String :=
  s!"{showPc p.pc}|{showChan p.inp}|{showChan p.eg}|{showInts p.mq}|{p.cancelled}|{p.panicked}"

def lens (p : Net Int) : String := s!"[{p.inp.buf.length};{p.eg.buf.length}]"

/-- quiescent states reachable by process moves from `init` (every interleaving) -/
partial def closure (init : List (Net Int)) : List (Net Int) := Id.run do
  let mut seen : Std.HashSet String := {}
  let mut work := init
  let mut quiet : List (Net Int) := []
  let mut fuel := 2000000
  while !work.isEmpty && fuel > 0 do
    fuel := fuel - 1
    match work with
    | [] => pure ()
    | p :: rest =>
      work := rest
      let k := key p
      if seen.contains k then continue
      seen := seen.insert k
      let nx := procNext p
      if nx.isEmpty then quiet := p :: quiet
      else work := nx ++ work
  return quiet

/-- every state reachable by process moves (quiescent or not), the given ones included -/
partial def reachAll (init : List (Net Int)) : List (Net Int) := Id.run do
  let mut seen : Std.HashSet String := {}
  let mut work := init
  let mut all : List (Net Int) := []
  let mut fuel := 2000000
  while !work.isEmpty && fuel > 0 do
    fuel := fuel - 1
    match work with
    | [] => pure ()
    | p :: rest =>
      work := rest
      let k := key p
      if seen.contains k then continue
      seen := seen.insert k
      all := p :: all
      work := procNext p ++ work
  return all

def showObs : Obs Int → String
  | .ok => "ok" | .full => "full" | .value v => s!"v{v}" | .empty => "empty" | .closed => "closed" | .nope => "nope"

def parseMove (m : String) : Option (Sum (Move Int) String) :=
  let body := (m.drop 1).toString
  match m.toList.headD ' ' with
  | 's' => body.toInt?.map fun v => .inl (.send v)
  | 'c' => if body == "0" then some (.inl .close) else none
  | 'r' => if body == "0" then some (.inl .recv) else none
  | 'x' => some (.inl .cancel)
  | 'z' => some (.inr "z")
  | _ => none

/-- goroutines alive in the library -/
def alive (p : Net Int) : Nat := if p.pc = .exited then 0 else 1

def applyMove (p : Net Int) (mv : String) : List (Net Int × String) :=
  match parseMove mv with
  | some (.inl m) => (envNext p m).map fun (q, o) => (q, showObs o)
  | some (.inr _) => [(p, toString (alive p))]
  | none => [(p, "bad")]

/-- the states a script starts from: `pre` — the context is cancelled, and the values of `presend` are sent, before the
pump takes its first step (`Unbound.preStart`, reachable by `Props/C08.preStart_reachable`) -/
def startStates (cap : Nat) (pre : Bool) (presend : List Int) : List (Net Int) :=
  if !pre then [Unbound.init cap] else Unbound.preStart cap presend

def check (cap : Nat) (moves obs : List String) (pre : Bool := false) (presend : List Int := []) : String := Id.run do
  let start := startStates cap pre presend
  let mut states := closure start
  match obs with
  | [] => return "MISMATCH no observations"
  | o0 :: orest =>
    let want0 := (o0.drop 2).toString
    states := states.filter fun p => !p.panicked && lens p == want0
    if states.isEmpty then return s!"MISMATCH at init: impl={o0} model={(closure start).map lens}"
    let mut os := orest
    let mut idx := 0
    for mv in moves do
      match os with
      | [] => return s!"MISMATCH at {idx} {mv}: implementation produced no observation (crashed?)"
      | o :: r =>
        os := r
        let body := (o.drop (mv.length + 1)).toString
        let res := (body.splitOn "[").headD ""
        let ln := "[" ++ ((body.splitOn "[").getD 1 "")
        let mut hitStates : List (Net Int) := []
        if mv.startsWith "b" then
          -- burst: the sub-moves happen back to back, the pump may or may not move in between
          let subs := ((mv.drop 1).toString.splitOn ",").filter (· ≠ "")
          let ress := res.splitOn ","
          if subs.length != ress.length then
            return s!"MISMATCH at {idx} {mv}: {ress.length} results for {subs.length} sub-moves"
          let mut cur := states
          for (sub, r) in subs.zip ress do
            let cands := (reachAll cur).flatMap fun p => applyMove p sub
            let hit := cands.filter fun (_, t) => t == r
            if hit.isEmpty then
              return s!"MISMATCH at {idx} {mv} ({sub}): impl={r} model allows {(cands.map (·.2)).eraseDups}"
            cur := hit.map (·.1)
          hitStates := cur
        else
          let cands := states.flatMap fun p => applyMove p mv
          let hit := cands.filter fun (_, t) => t == res
          if hit.isEmpty then
            return s!"MISMATCH at {idx} {mv}: impl={res} model allows {(cands.map (·.2)).eraseDups}"
          hitStates := hit.map (·.1)
        let after := closure hitStates
        let ok := after.filter fun p => !p.panicked && lens p == ln
        if ok.isEmpty then
          let pn := if after.any (·.panicked) then " (model can panic here)" else ""
          return s!"MISMATCH at {idx} {mv}: impl lens={ln} model allows {(after.map lens).eraseDups}{pn}"
        states := ok
        idx := idx + 1
    return "ok"

def capOf (ws : List String) : Nat := Id.run do
  let mut c := 0
  for w in ws do
    match w.splitOn "=" with
    | ["cap", v] => c := v.toNat?.getD 0
    | _ => pure ()
  return c

def run (line : String) : String :=
  match line.splitOn " || " with
  | [script, obsS] =>
    match script.splitOn " | " with
    | cfgS :: rest =>
      let ws := words cfgS
      let pre := ws.any fun w => w == "pre=1"
      let presend := (ws.filterMap fun w => match w.splitOn "=" with
        | ["presend", v] => some ((v.splitOn ",").filterMap String.toInt?)
        | _ => none).flatten
      check (capOf ws) (words (rest.headD "")) (words obsS) pre presend
    | _ => "bad-op"
  | _ => "bad-op"

def step (line : String) : String :=
  match line.splitOn " " with
  | idx :: rest => idx ++ " " ++ run (" ".intercalate rest)
  | _ => "bad-op"

def main : IO Unit := eachLine step
end Golem.Driver.Unbound
