/- Lock-step oracle driver (stub: replaced when the model is built). -/
import Golem.Driver.Util
namespace Golem.Driver.Unbound
def main : IO Unit := IO.eprintln "oracle: no driver for Unbound yet"
end Golem.Driver.Unbound
