import Golem.Props.C14
open Golem.Props.C14
#print axioms next_contract
#print axioms element_next
#print axioms seqOf_next
#print axioms takeWhile_next
#print axioms filter_next
#print axioms fmap_next
#print axioms plus_next
#print axioms join_next
#print axioms FromSlice_spec
#print axioms TakeWhile_spec
#print axioms DropWhile_spec
#print axioms Filter_spec
#print axioms Map_spec
#print axioms Plus_spec
#print axioms Join_spec
#print axioms drain_repr
#print axioms ForEach_repr
#print axioms length_lt_cost
#print axioms build_repr
#print axioms eval_eq_denote
#print axioms forEach_stops_at_first_error
#print axioms visit_log
#print axioms eval_fuel_irrelevant
#print axioms source_unchanged
