import Golem.Props.C11
open Golem.Props.C11
#print axioms unfold_seq
#print axioms unfold_seq_pure
#print axioms emit_seq
#print axioms emit_seq_pure
#print axioms emit_delivered_prefix
#print axioms unfold_delivered_prefix
#print axioms emit_lift_first_failure
#print axioms emit_no_failure_no_error
#print axioms lift_catch_never_blocks
#print axioms emit_try_partition
#print axioms unfold_lift_first_failure
#print axioms emit_pacing
#print axioms emit_kth_not_before_k_ticks
#print axioms emit_one_per_tick_eager
#print axioms emit_one_per_tick_eager_pure
#print axioms no_panic
#print axioms source_cancel_stops
#print axioms unfold_cancel_stops
#print axioms exited_closed
#print axioms driver_explores_eager_runs
