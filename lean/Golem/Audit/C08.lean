import Golem.Props.C08
import Golem.Props.C08Gen
open Golem.Props.C08
#print axioms queue_refines_fifo
#print axioms queue_new_empty
#print axioms queue_history_refines
#print axioms unbound_fifo
#print axioms delivered_prefix
#print axioms deq_only_nonempty
#print axioms sender_never_waits
#print axioms sender_waits_for_pump_only
#print axioms eg_closed_complete
#print axioms recv_closed_complete
#print axioms pump_terminates
#print axioms drain_terminates
#print axioms drain_progress
#print axioms drained_complete
#print axioms cancel_delivers_all
#print axioms no_panic_partial
#print axioms close_is_clean_eos_partial
#print axioms cancel_close_race_panics
#print axioms new_graph_gen
#print axioms new_caps_gen
#print axioms pump_is_graph
#print axioms step_wf
#print axioms graph_step_sound
#print axioms graph_step_complete
#print axioms graph_init
#print axioms wf_iff
#print axioms enq_gen
#print axioms deq_gen
#print axioms head_gen
#print axioms emit_gen
#print axioms newq_text
