import Golem.Props.C01
open Golem.Props.C01
#print axioms fields_disjoint
#print axioms derived_focus
#print axioms get_reads_field
#print axioms put_frame
#print axioms get_put
#print axioms put_get
#print axioms put_put
#print axioms other_field_unchanged
#print axioms reflector_is_lens
#print axioms forProduct_by_type
#print axioms forProduct_by_name
#print axioms forSpectrum_eq_forProduct
