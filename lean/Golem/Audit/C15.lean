import Golem.Props.C15
open Golem.Props.C15
#print axioms next_contract
#print axioms elem_is_key_value
#print axioms pair_next
#print axioms takeWhile_next
#print axioms filter_next
#print axioms pfmap_next
#print axioms plus_next
#print axioms join_next
#print axioms TakeWhile_spec
#print axioms DropWhile_spec
#print axioms Filter_spec
#print axioms PMap_spec
#print axioms Plus_spec
#print axioms Join_spec
#print axioms drain_repr
#print axioms ForEach_repr
#print axioms length_lt_cost
#print axioms build_repr
#print axioms eval_eq_denote
#print axioms forEach_stops_at_first_error
#print axioms visit_log
#print axioms map_keeps_keys
#print axioms callbacks_get_matching_pair
#print axioms toSeq_fromSeq
#print axioms eval_fuel_irrelevant
