import Golem.Props.C13
open Golem.Props.C13
#print axioms throttle_identity
#print axioms throttle_prefix
#print axioms throttle_closed_only_at_end
#print axioms throttle_inv_CP
#print axioms throttle_inv_PC
#print axioms throttle_inv_PP
#print axioms throttle_inv_DC
#print axioms throttle_inv_CD
#print axioms throttle_deliveries_ordered
#print axioms throttle_window
#print axioms throttle_window_count
#print axioms throttle_lower
#print axioms throttle_eager_exact
#print axioms throttle_no_panic
#print axioms throttle_cancel_terminates
#print axioms throttle_closes
#print axioms throttle_gate_waits_timer
