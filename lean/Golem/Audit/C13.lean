import Golem.Props.C13
import Golem.Props.C13Gen
open Golem.Props.C13
#print axioms throttle_identity
#print axioms throttle_prefix
#print axioms throttle_closed_only_at_end
#print axioms throttle_inv_CP
#print axioms throttle_inv_PC
#print axioms throttle_inv_PP
#print axioms throttle_inv_DC
#print axioms throttle_inv_CD
#print axioms throttle_deliveries_ordered
#print axioms throttle_window
#print axioms throttle_window_count
#print axioms throttle_lower
#print axioms throttle_eager_exact
#print axioms throttle_no_panic
#print axioms throttle_cancel_terminates
#print axioms throttle_closes
#print axioms throttle_gate_waits_timer
#print axioms demo_reachable
#print axioms demo_eager
#print axioms gen_throttling_caps
#print axioms gen_throttling_closes
#print axioms pacer_model_iter
#print axioms data_model_iter
#print axioms Golem.Props.Stage.PipeSources.errch_gen
#print axioms Golem.Props.Stage.PipeSources.emit_iter_gen
#print axioms Golem.Props.Stage.PipeSources.emit_loop_gen
#print axioms Golem.Props.Stage.PipeSources.emit_cfg_gen
#print axioms Golem.Props.Stage.PipeSources.unfold_iter_gen
#print axioms Golem.Props.Stage.PipeSources.unfold_loop_gen
#print axioms Golem.Props.Stage.PipeSources.unfold_cfg_gen
#print axioms Golem.Props.Stage.PipeSources.forN_acts
#print axioms Golem.Props.Stage.PipeSources.pacer_iter_gen
#print axioms Golem.Props.Stage.PipeSources.data_iter_gen
#print axioms Golem.Props.Stage.PipeSources.throttling_loops_gen
#print axioms Golem.Props.Stage.PipeSources.throttling_cfg_gen
