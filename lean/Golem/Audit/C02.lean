import Golem.Props.C02
open Golem.Props.C02
#print axioms derive_ok_or_panic_partial
#print axioms derive_ok_or_panic_no_ptr_embedding
#print axioms unknown_name_panics
#print axioms missing_type_panics
#print axioms short_names_panic
#print axioms wrong_type_by_name_panics
#print axioms non_struct_container_panics
#print axioms container_not_struct_panics
#print axioms ptr_container_panics
#print axioms ptr_container_panics_in_constructor
#print axioms reflector_rejects_foreign
#print axioms ptr_embedded_focus_out_of_bounds
#print axioms ptr_embedded_focus_overlaps_field
#print axioms derive_ok_or_panic_false
