import Golem.Props.C09
open Golem.Props.C09
#print axioms fork_each_once
#print axioms fork_all_consumed
#print axioms fork_perm
#print axioms fork_close_after_workers
#print axioms fork_cancel_terminates
#print axioms fork_closes
#print axioms fork_map_perm
#print axioms fork_filter_perm
