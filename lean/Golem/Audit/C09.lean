import Golem.Props.C09
import Golem.Props.C09Gen
open Golem.Props.C09
#print axioms fork_each_once
#print axioms fork_all_consumed
#print axioms fork_perm
#print axioms fork_close_after_workers
#print axioms fork_cancel_terminates
#print axioms fork_closes
#print axioms fork_map_perm
#print axioms fork_filter_perm
#print axioms gen_fork_closes_nodup
#print axioms gen_fork_layout
#print axioms fork_map_perm_gen
#print axioms fork_filter_perm_gen
#print axioms gen_fork_wrappers
#print axioms Golem.Props.Stage.ForkCatch.catch_gen
#print axioms Golem.Props.Stage.ForkCatch.catchF_gen
#print axioms Golem.Props.Stage.ForkCatch.errch_gen
#print axioms Golem.Props.Stage.ForkCatch.errchF_gen
#print axioms Golem.Props.Stage.ForkMap.stage_gen
#print axioms Golem.Props.Stage.ForkMap.cfg_gen
#print axioms Golem.Props.Stage.ForkMap.init_gen
#print axioms Golem.Props.Stage.ForkFMap.stage_gen
#print axioms Golem.Props.Stage.ForkFMap.cfg_gen
#print axioms Golem.Props.Stage.ForkFMap.init_gen
#print axioms Golem.Props.Stage.ForkFilter.stage_gen
#print axioms Golem.Props.Stage.ForkFilter.cfg_gen
#print axioms Golem.Props.Stage.ForkFilter.init_gen
#print axioms Golem.Props.Stage.ForkPartition.stage_gen
#print axioms Golem.Props.Stage.ForkPartition.cfg_gen
#print axioms Golem.Props.Stage.ForkPartition.init_gen
#print axioms Golem.Props.Stage.ForkForEach.stage_gen
#print axioms Golem.Props.Stage.ForkForEach.cfg_gen
#print axioms Golem.Props.Stage.ForkForEach.init_gen
#print axioms Golem.Props.Stage.ForkVoid.stage_gen
#print axioms Golem.Props.Stage.ForkVoid.cfg_gen
#print axioms Golem.Props.Stage.ForkVoid.init_gen
