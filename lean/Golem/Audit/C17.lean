import Golem.Props.C17
open Golem.Props.C17
#print axioms eq_agrees
#print axioms eq_agrees_int_string
#print axioms eq_equivalence
#print axioms ordering_distinct
#print axioms compare_effect_free
#print axioms compare_spec
#print axioms compare_spec_int
#print axioms compare_spec_string
#print axioms compare_total
#print axioms compare_antisymm
#print axioms compare_trans
#print axioms compare_eq_iff_equal
#print axioms contramap_eq
#print axioms contramap_eq_pure
#print axioms contramap_ord
#print axioms contramap_ord_pure
#print axioms contramap_as_interface
#print axioms from_id
#print axioms monoid_empty
#print axioms monoid_combine
#print axioms builtin_ord_is_TransCmp
