import Golem.Props.C19
open Golem.Props.C19
#print axioms list_new
#print axioms list_head_cons
#print axioms list_tail_cons
#print axioms list_length_cons
#print axioms list_isEmpty_iff
#print axioms list_head_tail
#print axioms slice_new
#print axioms slice_cons_laws
#print axioms slice_isEmpty_iff
#print axioms slice_head_tail
#print axioms len_cached
#print axioms slice_wf
#print axioms slice_cons_persistent
#print axioms slice_new_persistent
#print axioms persistent_slice
#print axioms persistent_list
#print axioms fold_left_list
#print axioms fold_left_slice
#print axioms walk_elems
#print axioms script_equiv
#print axioms foldl_cons_monoid
#print axioms fold_cons_list
