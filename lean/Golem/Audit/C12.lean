import Golem.Props.C12
import Golem.Props.C12Gen
open Golem.Props.C12
#print axioms copy_run
#print axioms join_fifo
#print axioms join_per_input_order
#print axioms join_complete
#print axioms join_close_only_after
#print axioms join_closed_inputs_closed
#print axioms join_closes
#print axioms join_no_invention
#print axioms join_no_duplication
#print axioms gen_join_pool
#print axioms join_complete_gen
#print axioms Golem.Props.Stage.PipeJoin.stage_gen
#print axioms Golem.Props.Stage.PipeJoin.cfg_gen
#print axioms Golem.Props.Stage.PipeJoin.init_gen
