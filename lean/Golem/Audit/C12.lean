import Golem.Props.C12
open Golem.Props.C12
#print axioms copy_run
#print axioms join_fifo
#print axioms join_per_input_order
#print axioms join_complete
#print axioms join_close_only_after
#print axioms join_closed_inputs_closed
#print axioms join_closes
