import Golem.Props.C03
open Golem.Props.C03
#print axioms flatten_step
#print axioms unfold_is_flatten
#print axioms unfold_appends
#print axioms unfold_ids
#print axioms unfold_offset
#print axioms forName_first
#print axioms forType_first
#print axioms forNameMaybe_spec
#print axioms fieldKey_spec
#print axioms new_names_order
#print axioms new_ptr_container
#print axioms newN_positional
#print axioms fmapN_positional
#print axioms fmapN_out_of_range
