import Golem.Props.C10
open Golem.Props.C10
#print axioms pool_reachable
#print axioms forkfold_eq
#print axioms forkfold_at_most_one
#print axioms forkfold_closed_after_value
#print axioms forkfold_no_panic
#print axioms forkfold_closes
