import Golem.Props.C10
import Golem.Props.C10Gen
open Golem.Props.C10
#print axioms pool_reachable
#print axioms pool_inv
#print axioms forkfold_eq
#print axioms forkfold_at_most_one
#print axioms forkfold_closed_after_value
#print axioms forkfold_no_panic
#print axioms forkfold_closes
#print axioms forkfold_independent
#print axioms gen_forkfold_caps
#print axioms gen_forkfold_workers
#print axioms gen_collector_at_wait
#print axioms Golem.Props.Stage.ForkFold.stage_gen
#print axioms Golem.Props.Stage.ForkFold.cfg_gen
#print axioms Golem.Props.Stage.ForkFold.init_gen
#print axioms Golem.Props.Stage.ForkFold.collector_gen_hand
#print axioms Golem.Props.Stage.ForkFold.collector_gen
