import Golem.Props.C05
open Golem.Props.C05
#print axioms map_spec
#print axioms flatMap_spec
#print axioms filter_spec
#print axioms partition_spec
#print axioms takeWhile_spec
#print axioms take_spec
#print axioms take_consumes_at_most_n
#print axioms fold_spec
#print axioms forEach_spec
#print axioms void_spec
#print axioms toSeq_seq
#print axioms pipe_delivered_prefix
#print axioms pipe_complete
#print axioms pipe_closes
#print axioms pipe_moves_finite
#print axioms map_network
#print axioms flatMap_network
#print axioms filter_network
#print axioms partition_network
#print axioms takeWhile_network
#print axioms take_network
#print axioms fold_network
