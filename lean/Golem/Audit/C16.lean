import Golem.Props.C16
open Golem.Props.C16
#print axioms build_refines_stack
#print axioms unit_on_root_is_noop
#print axioms unit_closes_innermost
#print axioms one_root
#print axioms names_recorded
#print axioms names_follow_types
#print axioms trace_well_bracketed
#print axioms child_depth_succ
#print axioms visit_feeds_events
#print axioms error_stops_visit
#print axioms error_stops_visit_at
#print axioms recorded_trace_well_formed
#print axioms bracketed_counts
#print axioms enters_eq_leaves
