import Golem.Props.C07
open Golem.Props.C07
#print axioms lift_first_failure_run
#print axioms lift_first_failure
#print axioms lift_prefix
#print axioms try_partition_run
#print axioms try_partition
#print axioms tryF_partition
#print axioms try_closes
#print axioms emit_lift_first_failure
#print axioms emit_try_partition
#print axioms unfold_lift_first_failure
