import Golem.Props.C07
import Golem.Props.C07Gen
open Golem.Props.C07
#print axioms lift_first_failure_run
#print axioms lift_first_failure
#print axioms lift_prefix
#print axioms try_partition_run
#print axioms try_partition
#print axioms tryF_partition
#print axioms try_closes
#print axioms emit_lift_first_failure
#print axioms emit_try_partition
#print axioms unfold_lift_first_failure
#print axioms lift_first_failure_gen
#print axioms try_partition_gen
#print axioms tryF_partition_gen
#print axioms Golem.Props.Stage.PipeCatch.catch_gen
#print axioms Golem.Props.Stage.PipeCatch.catchF_gen
#print axioms Golem.Props.Stage.PipeCatch.errch_gen
#print axioms Golem.Props.Stage.PipeCatch.errchF_gen
#print axioms Golem.Props.Stage.PipeMap.stage_gen
#print axioms Golem.Props.Stage.PipeMap.cfg_gen
#print axioms Golem.Props.Stage.PipeMap.init_gen
#print axioms Golem.Props.Stage.PipeFMap.stage_gen
#print axioms Golem.Props.Stage.PipeFMap.cfg_gen
#print axioms Golem.Props.Stage.PipeFMap.init_gen
