import Golem.Props.C06
open Golem.Props.C06
#print axioms pool_no_panic
#print axioms pool_close_after_workers
#print axioms pipe_prefix
#print axioms pool_worker_prefix
#print axioms fold_prefix_partial
#print axioms fold_sends_partial_acc
#print axioms pool_moves_finite
#print axioms sel_never_blockedPlain
#print axioms pool_cancel_terminates
#print axioms pool_closes
#print axioms single_emitted
#print axioms lift_never_blockedPlain
#print axioms fold_never_blockedPlain
#print axioms filter_sel
#print axioms partition_sel
#print axioms takeWhile_sel
#print axioms take_sel
#print axioms copy_sel
#print axioms map_try_sel
#print axioms fmap_try_sel
#print axioms forEach_sel
#print axioms void_sel
#print axioms throttling_no_panic
#print axioms throttling_prefix
#print axioms throttling_closes
#print axioms throttling_cancel_terminates
