import Golem.Props.C18
open Golem.Props.C18
#print axioms transCmp_of_laws
#print axioms inv_init
#print axioms inv_put
#print axioms inv_remove
#print axioms inv_reachable
#print axioms refines_map
#print axioms get_like_map
#print axioms update_like_map
#print axioms answers_independent_of_heights
#print axioms printed_sorted_of_inv
#print axioms printed_sorted
#print axioms printed_keys_live
#print axioms get_put_same
#print axioms get_put_other
#print axioms get_remove_same
#print axioms get_remove_other
#print axioms put_put_overwrites
#print axioms lookup_congr
#print axioms get_congr
#print axioms remove_absent
#print axioms reachable_map_laws
#print axioms demo_ok
