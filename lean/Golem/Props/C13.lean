/-
C13 — Throttling bounds the rate, and keeps every element in order  (+ the Throttling share of C06).

All theorems are about `Golem.Go.Throttle` — the very successor functions `oracle throttle` executes in
the lock-step correspondence — for EVERY `ops ≥ 1` (where needed), interval, channel capacity `c`,
and every schedule: `Reachable` quantifies over arbitrary interleavings of pacer moves, data-goroutine
moves, `select` choices and environment moves (send, close, receive, cancel, `tick d` for any `d`,
so time passes arbitrarily and a due timer may fire late).

Time stamps (history variables of the model):
  `P[n]` the n-th token was pushed into `ctl`,  `C[n]` the n-th element passed the gate,
  `D[n]` the n-th element was delivered to the consumer.

"Before cancellation" = in every reachable state with `cancelled = false`; histories only grow, so this
covers every event that precedes the cancel.  (After cancel the pacer closes `ctl`; a closed channel is
always ready, so elements may pass the gate without a token — the rate claims really stop there.)
-/
import Golem.Lemmas.ThrottleTime
import Golem.Lemmas.ThrottleLive
import Golem.Lemmas.ThrottleArith
import Golem.Lemmas.ThrottleEager
namespace Golem.Props.C13
open Golem.Go Golem.Go.Throttle

variable {α : Type} {ops interval c : Nat} {p : Net α}

/-- the element the data goroutine holds between `range in` and `out <- a` -/
def inflight (p : Net α) : List α :=
  match p.dc with
  | .gate a => [a]
  | .fwd a => [a]
  | _ => []

/-- No loss, duplication or reordering: what was delivered, then what sits in `out`, then the element in
flight is always a prefix of what was sent (cancelled or not).  Without cancellation, once the input is
closed and drained and the data goroutine has returned, it is everything that was sent, and `out` is
closed. -/
theorem throttle_identity (hr : Reachable (init ops interval c) p) :
    (p.delivered ++ p.out.buf ++ inflight p) <+: p.sent ∧
    (p.cancelled = false → p.inp.closed = true → p.inp.buf = [] → (∃ w, p.dc = .exited w) →
      p.delivered ++ p.out.buf = p.sent ∧ p.out.closed = true) := by
  have h := inv_reachable hr
  have hd := h.data
  have hf := h.fifoIn
  unfold DInv at hd
  constructor
  · rw [← hf]
    cases hdc : p.dc with
    | idle => simp only [hdc] at hd; simp [inflight, hdc, hd.1]
    | gate a => simp only [hdc] at hd; simp only [inflight, hdc, hd.1]; exact List.prefix_append _ _
    | fwd a => simp only [hdc] at hd; simp only [inflight, hdc, hd.1]; exact List.prefix_append _ _
    | closing w =>
      simp only [hdc] at hd
      simp only [inflight, hdc, List.append_nil]
      cases w with
      | eof => simp only [ExitInv] at hd; rw [hd.1]; exact List.prefix_append _ _
      | done => simp only [ExitInv] at hd; exact hd.2.trans (List.prefix_append _ _)
      | stop => exact absurd hd (by simp [ExitInv])
    | exited w =>
      simp only [hdc] at hd
      simp only [inflight, hdc, List.append_nil]
      cases w with
      | eof => have := hd.1; simp only [ExitInv] at this; rw [this.1]; exact List.prefix_append _ _
      | done => have := hd.1; simp only [ExitInv] at this; exact this.2.trans (List.prefix_append _ _)
      | stop => exact absurd hd.1 (by simp [ExitInv])
  · intro hnc _ hbuf ⟨w, hw⟩
    simp only [hw] at hd
    refine ⟨?_, hd.2⟩
    cases w with
    | eof => have := hd.1; simp only [ExitInv] at this; rw [this.1, ← hf, hbuf]; simp
    | done => have := hd.1; simp only [ExitInv] at this; rw [hnc] at this; exact absurd this.1 (by simp)
    | stop => exact absurd hd.1 (by simp [ExitInv])

/-- C06 share: what has been delivered is always a prefix of the input, cancelled or not -/
theorem throttle_prefix (hr : Reachable (init ops interval c) p) : p.delivered <+: p.sent := by
  have := (throttle_identity hr).1
  rw [List.append_assoc] at this
  exact (List.prefix_append _ _).trans this

/-- `out` closes only when the data goroutine has returned, i.e. (without cancellation) only after the
input was closed and drained — "closes when the input closes", the safety half -/
theorem throttle_closed_only_at_end (hr : Reachable (init ops interval c) p) (hnc : p.cancelled = false)
    (hcl : p.out.closed = true) : p.inp.closed = true ∧ p.inp.buf = [] ∧ p.delivered ++ p.out.buf = p.sent := by
  have h := inv_reachable hr
  obtain ⟨w, hw⟩ := h.outClosed hcl
  have hd := h.data
  simp only [DInv, hw] at hd
  cases w with
  | eof =>
    have := hd.1; simp only [ExitInv] at this
    refine ⟨this.2.2.1, this.2.2.2, ?_⟩
    rw [this.1, ← h.fifoIn, this.2.2.2]; simp
  | done => have := hd.1; simp only [ExitInv] at this; rw [hnc] at this; exact absurd this.1 (by simp)
  | stop => exact absurd hd.1 (by simp [ExitInv])

/-! ### the five history invariants (every schedule, late timers allowed, before cancellation) -/

/-- `C_n ≥ P_n`: an element passes the gate only with a token that was pushed before -/
theorem throttle_inv_CP (hr : Reachable (init ops interval c) p) (hnc : p.cancelled = false)
    {n x : Nat} (hx : p.C[n]? = some x) : ∃ y, p.P[n]? = some y ∧ y ≤ x := by
  have ht := tinv_reachable hr hnc
  have hlt := lt_of_getElem? hx
  obtain ⟨y, hy⟩ := exists_of_lt (l := p.P) (n := n) (by have := ht.tokLen; omega)
  exact ⟨y, hy, ht.cp n x y (by simpa using hx) hy⟩

/-- `P_{n+ops} ≥ C_n`: the token channel holds at most `ops` tokens -/
theorem throttle_inv_PC (hr : Reachable (init ops interval c) p) (hnc : p.cancelled = false)
    {n x : Nat} (hx : p.P[n + ops]? = some x) : ∃ y, p.C[n]? = some y ∧ y ≤ x := by
  have ht := tinv_reachable hr hnc
  have ho := (reach_consts hr).1
  have hlt := lt_of_getElem? hx
  obtain ⟨y, hy⟩ := exists_of_lt (l := p.C) (n := n) (by have := ht.tokLen; have := ht.ctlLe; omega)
  exact ⟨y, hy, ht.pc n x y (by rw [ho]; exact hx) hy⟩

/-- `P_{n+ops} ≥ P_n + interval`: between two pushes `ops` apart the pacer sat through a whole timer -/
theorem throttle_inv_PP (hr : Reachable (init ops interval c) p) (hnc : p.cancelled = false)
    {n x : Nat} (hx : p.P[n + ops]? = some x) : ∃ y, p.P[n]? = some y ∧ y + interval ≤ x := by
  have ht := tinv_reachable hr hnc
  have hcs := reach_consts hr
  have hlt := lt_of_getElem? hx
  obtain ⟨y, hy⟩ := exists_of_lt (l := p.P) (n := n) (by omega)
  have := ht.pp n y x (by rw [hcs.1]; exact hx) hy
  rw [hcs.2.1] at this
  exact ⟨y, hy, this⟩

/-- `D_n ≥ C_n`: an element is delivered only after it passed the gate -/
theorem throttle_inv_DC (hr : Reachable (init ops interval c) p) (hnc : p.cancelled = false)
    {n x : Nat} (hx : p.D[n]? = some x) : ∃ y, p.C[n]? = some y ∧ y ≤ x := by
  have ht := tinv_reachable hr hnc
  have hl := lens_of_inv (inv_reachable hr) hnc
  have hlt := lt_of_getElem? hx
  obtain ⟨y, hy⟩ := exists_of_lt (l := p.C) (n := n) (by omega)
  exact ⟨y, hy, ht.dc n x y (by simpa using hx) hy⟩

/-- `C_{n+c+1} ≥ D_n`: at most `c` elements wait in `out` and one in the send, so the element `c+1`
places later passes the gate only after element `n` was delivered -/
theorem throttle_inv_CD (hr : Reachable (init ops interval c) p) (hnc : p.cancelled = false)
    {n x : Nat} (hx : p.C[n + c + 1]? = some x) : ∃ y, p.D[n]? = some y ∧ y ≤ x := by
  have ht := tinv_reachable hr hnc
  have h := inv_reachable hr
  have hl := lens_of_inv h hnc
  have hcs := reach_consts hr
  have hcap := h.outCap
  have hlt := lt_of_getElem? hx
  obtain ⟨y, hy⟩ := exists_of_lt (l := p.D) (n := n) (by omega)
  exact ⟨y, hy, ht.cd n x y (by rw [hcs.2.2.1]; exact hx) hy⟩

/-- deliveries are time-ordered (the clock never runs backwards) -/
theorem throttle_deliveries_ordered (hr : Reachable (init ops interval c) p) : p.D.Pairwise (· ≤ ·) :=
  (inv_reachable hr).sortedD

/-- The rate bound, index form: `D_{i+2·ops+c+1} ≥ D_i + interval`. -/
theorem throttle_window (hr : Reachable (init ops interval c) p) (hnc : p.cancelled = false)
    {i a b : Nat} (hb : p.D[i + (2 * ops + c + 1)]? = some b) (ha : p.D[i]? = some a) : a + interval ≤ b := by
  obtain ⟨c1, hc1, h1⟩ := throttle_inv_DC hr hnc hb
  obtain ⟨p1, hp1, h2⟩ := throttle_inv_CP hr hnc hc1
  have e1 : i + (2 * ops + c + 1) = (i + c + 1 + ops) + ops := by omega
  rw [e1] at hp1
  obtain ⟨p0, hp0, h3⟩ := throttle_inv_PP hr hnc hp1
  obtain ⟨c0, hc0, h4⟩ := throttle_inv_PC hr hnc hp0
  obtain ⟨a', ha', h5⟩ := throttle_inv_CD hr hnc hc0
  rw [ha] at ha'
  cases ha'
  omega

/-- The rate bound, window form: before cancellation no half-open window `[t, t+interval)` contains
more than `2·ops + 1 + c` deliveries. -/
theorem throttle_window_count (hr : Reachable (init ops interval c) p) (hnc : p.cancelled = false) (t : Nat) :
    (inWindow t interval p.D).length ≤ 2 * ops + 1 + c := by
  have := window_count p.D (2 * ops + c + 1) interval (throttle_deliveries_ordered hr)
    (fun i a b hb ha => throttle_window hr hnc hb ha) t
  omega

/-- Lower bound, every schedule: element `i` is delivered no earlier than `⌊i/ops⌋·interval`. -/
theorem throttle_lower (hops : 1 ≤ ops) (hr : Reachable (init ops interval c) p) (hnc : p.cancelled = false)
    {i d : Nat} (hd : p.D[i]? = some d) : (i / ops) * interval ≤ d := by
  obtain ⟨c1, hc1, h1⟩ := throttle_inv_DC hr hnc hd
  obtain ⟨p1, hp1, h2⟩ := throttle_inv_CP hr hnc hc1
  have := floor_bound p.P ops interval hops
    (fun n a b hb ha => by
      obtain ⟨y, hy, hle⟩ := throttle_inv_PP hr hnc hb
      rw [ha] at hy; cases hy; exact hle) i p1 hp1
  omega

/-- Exactness under eager semantics (`EReachable`: no cancel, no close; time passes only when no process
move and no receive is possible, the data goroutine is not starving for input — "input always available
and the consumer always ready" — and never beyond the due time of the pending timer — punctual timers):
element `i` is delivered exactly at `⌊i/ops⌋·interval`; in particular no later than one interval after
its lower bound. -/
theorem throttle_eager_exact (hops : 1 ≤ ops) (hr : EReachable (init ops interval c) p)
    {i d : Nat} (hd : p.D[i]? = some d) : d = (i / ops) * interval :=
  (einv_reachable hops hr).exactD i d hd

/-! ### C06 share -/

/-- no library goroutine panics (no send on a closed channel, no double close) -/
theorem throttle_no_panic (hr : Reachable (init ops interval c) p) : p.panicked = false :=
  (inv_reachable hr).noPanic

/-- After cancel with the input closed: every run of process moves (no further receive — indeed no
environment move at all, not even time passing) is finite, and every maximal one ends with both
goroutines returned and `out`, `ctl` closed. -/
theorem throttle_cancel_terminates (hops : 1 ≤ ops) (hr : Reachable (init ops interval c) p)
    (hc : p.cancelled = true) (hcl : p.inp.closed = true) :
    Acc (fun (q p : Net α) => q ∈ procNext p) p ∧
    ∀ q, ProcStar p q → procNext q = [] →
      q.pc = .exited ∧ (∃ w, q.dc = .exited w) ∧ q.out.closed = true ∧ q.ctl.closed = true := by
  refine ⟨proc_acc p (by rw [(reach_consts hr).1]; exact hops), ?_⟩
  intro q hs hq
  have hf := procStar_frame hs
  exact quiescent_cancelled (inv_reachable (procStar_reachable hr hs))
    (by rw [hf.2.2.2.1]; exact hc) (by rw [hf.2.2.2.2.1]; exact hcl) hq

/-- Input closed and everything sent has been received (input drained, output drained): every run of
process moves is finite and every maximal one ends with the data goroutine returned and `out` closed,
cancelled or not.  (The pacer may remain: it only leaves through `ctx.Done()`.) -/
theorem throttle_closes (hops : 1 ≤ ops) (hr : Reachable (init ops interval c) p)
    (hcl : p.inp.closed = true) (hall : p.delivered = p.sent) :
    Acc (fun (q p : Net α) => q ∈ procNext p) p ∧
    ∀ q, ProcStar p q → procNext q = [] → (∃ w, q.dc = .exited w) ∧ q.out.closed = true := by
  refine ⟨proc_acc p (by rw [(reach_consts hr).1]; exact hops), ?_⟩
  intro q hs hq
  have hf := procStar_frame hs
  exact quiescent_drained (inv_reachable (procStar_reachable hr hs))
    (by rw [hf.2.2.2.2.1]; exact hcl) (by rw [hf.2.2.2.2.2.2.2, hf.2.2.2.2.2.2.1]; exact hall) hq

/-- No deadlock at the gate: if (uncancelled) nothing can move and an element waits for a token, the
pacer is in its timer select with the timer still running — time passing is all that is needed. -/
theorem throttle_gate_waits_timer (hops : 1 ≤ ops) (hr : Reachable (init ops interval c) p)
    (hnc : p.cancelled = false) {a : α} (hg : p.dc = .gate a) (hq : procNext p = []) :
    ∃ due, p.pc = .wait due ∧ p.now < due :=
  quiescent_gate_waits_timer (inv_reachable hr) (by rw [(reach_consts hr).1]; exact hops) hnc hg hq

/-! ### non-vacuity -/

/-- a concrete run (ops = 1, interval = 10, c = 0): push a token, send 7, take it, pass the gate, deliver -/
def demo0 : Net Nat := init 1 10 0
def demo1 : Net Nat := { demo0 with ctl := { demo0.ctl with buf := [()] }, P := [0], pc := .push 1 }
def demo2 : Net Nat := { demo1 with inp := { demo1.inp with buf := [7] }, sent := [7] }
def demo3 : Net Nat := { demo2 with inp := { demo2.inp with buf := [] }, taken := [7], dc := .gate 7 }
def demo4 : Net Nat := { demo3 with ctl := { demo3.ctl with buf := [] }, C := [0], dc := .fwd 7 }
def demo5 : Net Nat := { demo4 with dc := .idle, delivered := [7], D := [0] }

theorem demo_reachable : Reachable (init 1 10 0) demo5 := by
  have s1 : Step demo0 demo1 := Or.inl (by simp [procNext, pacerNext, dataNext, demo0, demo1, init])
  have s2 : Step demo1 demo2 := Or.inr ⟨.send 7, .ok, by simp [envNext, idleN, demo0, demo1, demo2, init]⟩
  have s3 : Step demo2 demo3 := Or.inl (by simp [procNext, pacerNext, dataNext, demo0, demo1, demo2, demo3, init])
  have s4 : Step demo3 demo4 := Or.inl (by simp [procNext, pacerNext, dataNext, demo0, demo1, demo2, demo3, demo4, init])
  have s5 : Step demo4 demo5 := Or.inr ⟨.recv, .value 7, by simp [envNext, demo0, demo1, demo2, demo3, demo4, demo5, init]⟩
  exact .step (.step (.step (.step (.step .init s1) s2) s3) s4) s5

example : demo5.delivered = [7] ∧ demo5.D = [0] ∧ demo5.P = [0] ∧ demo5.C = [0] ∧ demo5.cancelled = false := by
  simp [demo0, demo1, demo2, demo3, demo4, demo5, init]

/-- the hypotheses of the rate theorems are satisfiable, and the conclusions are not void -/
example : ∃ y, demo5.C[0]? = some y ∧ y ≤ 0 := throttle_inv_DC demo_reachable rfl (x := 0) rfl

/-- the same run is eager, and goes on through a whole pacer round: a second element arrives, waits
at the gate, time may pass (`canTick`) exactly to the due time 10, the timer fires, the token is pushed,
the element passes and is delivered at 10 = ⌊1/1⌋·10 -/
def demo6 : Net Nat := { demo5 with inp := { demo5.inp with buf := [8] }, sent := [7, 8] }
def demo7 : Net Nat := { demo6 with inp := { demo6.inp with buf := [] }, taken := [7, 8], dc := .gate 8 }
def demo8 : Net Nat := { demo7 with pc := .wait 10 }
def demo9 : Net Nat := { demo8 with now := 10 }
def demo10 : Net Nat := { demo9 with pc := .push 0 }
def demo11 : Net Nat := { demo10 with ctl := { demo10.ctl with buf := [()] }, P := [0, 10], pc := .push 1 }
def demo12 : Net Nat := { demo11 with ctl := { demo11.ctl with buf := [] }, C := [0, 10], dc := .fwd 8 }
def demo13 : Net Nat := { demo12 with dc := .idle, delivered := [7, 8], D := [0, 10] }

theorem demo_eager : EReachable (init 1 10 0) demo13 := by
  have s1 : EStep demo0 demo1 := Or.inl (by simp [procNext, pacerNext, dataNext, demo0, demo1, init])
  have s2 : EStep demo1 demo2 := Or.inr (Or.inl ⟨7, .ok, by simp [envNext, idleN, demo0, demo1, demo2, init]⟩)
  have s3 : EStep demo2 demo3 := Or.inl (by simp [procNext, pacerNext, dataNext, demo0, demo1, demo2, demo3, init])
  have s4 : EStep demo3 demo4 := Or.inl (by simp [procNext, pacerNext, dataNext, demo0, demo1, demo2, demo3, demo4, init])
  have s5 : EStep demo4 demo5 := Or.inr (Or.inr (Or.inl ⟨.value 7, by simp [envNext, demo0, demo1, demo2, demo3, demo4, demo5, init]⟩))
  have s6 : EStep demo5 demo6 := Or.inr (Or.inl ⟨8, .ok, by simp [envNext, idleN, demo0, demo1, demo2, demo3, demo4, demo5, demo6, init]⟩)
  have s7 : EStep demo6 demo7 := Or.inl (by simp [procNext, pacerNext, dataNext, demo0, demo1, demo2, demo3, demo4, demo5, demo6, demo7, init])
  have s8 : EStep demo7 demo8 := Or.inl (by simp [procNext, pacerNext, dataNext, demo0, demo1, demo2, demo3, demo4, demo5, demo6, demo7, demo8, init])
  have s9 : EStep demo8 demo9 := Or.inr (Or.inr (Or.inr ⟨10, by
    simp [canTick, procNext, pacerNext, dataNext, demo0, demo1, demo2, demo3, demo4, demo5, demo6, demo7, demo8, init],
    by simp [demo0, demo1, demo2, demo3, demo4, demo5, demo6, demo7, demo8, demo9, init]⟩))
  have s10 : EStep demo9 demo10 := Or.inl (by simp [procNext, pacerNext, dataNext, demo0, demo1, demo2, demo3, demo4, demo5, demo6, demo7, demo8, demo9, demo10, init])
  have s11 : EStep demo10 demo11 := Or.inl (by simp [procNext, pacerNext, dataNext, demo0, demo1, demo2, demo3, demo4, demo5, demo6, demo7, demo8, demo9, demo10, demo11, init])
  have s12 : EStep demo11 demo12 := Or.inl (by simp [procNext, pacerNext, dataNext, demo0, demo1, demo2, demo3, demo4, demo5, demo6, demo7, demo8, demo9, demo10, demo11, demo12, init])
  have s13 : EStep demo12 demo13 := Or.inr (Or.inr (Or.inl ⟨.value 8, by simp [envNext, demo0, demo1, demo2, demo3, demo4, demo5, demo6, demo7, demo8, demo9, demo10, demo11, demo12, demo13, init]⟩))
  exact .step (.step (.step (.step (.step (.step (.step (.step (.step (.step (.step (.step (.step .init s1) s2) s3) s4) s5) s6) s7) s8) s9) s10) s11) s12) s13

example : demo13.D[1]? = some 10 := by
  simp [demo0, demo1, demo2, demo3, demo4, demo5, demo6, demo7, demo8, demo9, demo10, demo11, demo12, demo13, init]

end Golem.Props.C13
