/-
C20 — PipeN composes its functions left to right, each applied exactly once.

Property theorems only.  `Golem.Gen.PipeN` is regenerated from
/repo/internal/pipe/pipe.go on every run; the statements below are fixed.
For every monad `m` (so for every notion of effect: counting calls, logging
the order, failing, state), `PipeN f₁ … f_N a` is the Kleisli chain
`f₁ a >>= f₂ >>= … >>= f_N`.  With `m := Id` this is `f_N (… f₂ (f₁ a))`.
-/
import Golem.Gen.PipeN
import Golem.Model.KChain

namespace Golem.Props.C20
open Golem.Gen.PipeN Golem.Model

variable {m : Type → Type} [Monad m] [LawfulMonad m]

theorem pipe2_kleisli {A B C : Type} (ab : A → m B) (bc : B → m C) (a : A) :
    Pipe ab bc a = KChain.run (m := m) (.cons ab (.one bc)) a := by
  first | rfl | simp [KChain.run]

theorem pipe2_pure {A B C : Type} (ab : A → B) (bc : B → C) (a : A) :
    Pipe (m := Id) ab bc a = bc (ab a) := rfl

theorem pipe3_kleisli {A B C D : Type} (ab : A → m B) (bc : B → m C) (cd : C → m D) (a : A) :
    Pipe3 ab bc cd a = KChain.run (m := m) (.cons ab (.cons bc (.one cd))) a := by
  first | rfl | simp [KChain.run]

theorem pipe3_pure {A B C D : Type} (ab : A → B) (bc : B → C) (cd : C → D) (a : A) :
    Pipe3 (m := Id) ab bc cd a = cd (bc (ab a)) := rfl

theorem pipe4_kleisli {A B C D E : Type} (ab : A → m B) (bc : B → m C) (cd : C → m D) (de : D → m E) (a : A) :
    Pipe4 ab bc cd de a = KChain.run (m := m) (.cons ab (.cons bc (.cons cd (.one de)))) a := by
  first | rfl | simp [KChain.run]

theorem pipe4_pure {A B C D E : Type} (ab : A → B) (bc : B → C) (cd : C → D) (de : D → E) (a : A) :
    Pipe4 (m := Id) ab bc cd de a = de (cd (bc (ab a))) := rfl

theorem pipe5_kleisli {A B C D E F : Type} (ab : A → m B) (bc : B → m C) (cd : C → m D) (de : D → m E) (ef : E → m F) (a : A) :
    Pipe5 ab bc cd de ef a = KChain.run (m := m) (.cons ab (.cons bc (.cons cd (.cons de (.one ef))))) a := by
  first | rfl | simp [KChain.run]

theorem pipe5_pure {A B C D E F : Type} (ab : A → B) (bc : B → C) (cd : C → D) (de : D → E) (ef : E → F) (a : A) :
    Pipe5 (m := Id) ab bc cd de ef a = ef (de (cd (bc (ab a)))) := rfl

theorem pipe6_kleisli {A B C D E F G : Type} (ab : A → m B) (bc : B → m C) (cd : C → m D) (de : D → m E) (ef : E → m F) (fg : F → m G) (a : A) :
    Pipe6 ab bc cd de ef fg a = KChain.run (m := m) (.cons ab (.cons bc (.cons cd (.cons de (.cons ef (.one fg)))))) a := by
  first | rfl | simp [KChain.run]

theorem pipe6_pure {A B C D E F G : Type} (ab : A → B) (bc : B → C) (cd : C → D) (de : D → E) (ef : E → F) (fg : F → G) (a : A) :
    Pipe6 (m := Id) ab bc cd de ef fg a = fg (ef (de (cd (bc (ab a))))) := rfl

theorem pipe7_kleisli {A B C D E F G H : Type} (ab : A → m B) (bc : B → m C) (cd : C → m D) (de : D → m E) (ef : E → m F) (fg : F → m G) (gh : G → m H) (a : A) :
    Pipe7 ab bc cd de ef fg gh a = KChain.run (m := m) (.cons ab (.cons bc (.cons cd (.cons de (.cons ef (.cons fg (.one gh))))))) a := by
  first | rfl | simp [KChain.run]

theorem pipe7_pure {A B C D E F G H : Type} (ab : A → B) (bc : B → C) (cd : C → D) (de : D → E) (ef : E → F) (fg : F → G) (gh : G → H) (a : A) :
    Pipe7 (m := Id) ab bc cd de ef fg gh a = gh (fg (ef (de (cd (bc (ab a)))))) := rfl

theorem pipe8_kleisli {A B C D E F G H I : Type} (ab : A → m B) (bc : B → m C) (cd : C → m D) (de : D → m E) (ef : E → m F) (fg : F → m G) (gh : G → m H) (hi : H → m I) (a : A) :
    Pipe8 ab bc cd de ef fg gh hi a = KChain.run (m := m) (.cons ab (.cons bc (.cons cd (.cons de (.cons ef (.cons fg (.cons gh (.one hi)))))))) a := by
  first | rfl | simp [KChain.run]

theorem pipe8_pure {A B C D E F G H I : Type} (ab : A → B) (bc : B → C) (cd : C → D) (de : D → E) (ef : E → F) (fg : F → G) (gh : G → H) (hi : H → I) (a : A) :
    Pipe8 (m := Id) ab bc cd de ef fg gh hi a = hi (gh (fg (ef (de (cd (bc (ab a))))))) := rfl

theorem pipe9_kleisli {A B C D E F G H I J : Type} (ab : A → m B) (bc : B → m C) (cd : C → m D) (de : D → m E) (ef : E → m F) (fg : F → m G) (gh : G → m H) (hi : H → m I) (ij : I → m J) (a : A) :
    Pipe9 ab bc cd de ef fg gh hi ij a = KChain.run (m := m) (.cons ab (.cons bc (.cons cd (.cons de (.cons ef (.cons fg (.cons gh (.cons hi (.one ij))))))))) a := by
  first | rfl | simp [KChain.run]

theorem pipe9_pure {A B C D E F G H I J : Type} (ab : A → B) (bc : B → C) (cd : C → D) (de : D → E) (ef : E → F) (fg : F → G) (gh : G → H) (hi : H → I) (ij : I → J) (a : A) :
    Pipe9 (m := Id) ab bc cd de ef fg gh hi ij a = ij (hi (gh (fg (ef (de (cd (bc (ab a)))))))) := rfl

theorem pipe10_kleisli {A B C D E F G H I J K : Type} (ab : A → m B) (bc : B → m C) (cd : C → m D) (de : D → m E) (ef : E → m F) (fg : F → m G) (gh : G → m H) (hi : H → m I) (ij : I → m J) (jk : J → m K) (a : A) :
    Pipe10 ab bc cd de ef fg gh hi ij jk a = KChain.run (m := m) (.cons ab (.cons bc (.cons cd (.cons de (.cons ef (.cons fg (.cons gh (.cons hi (.cons ij (.one jk)))))))))) a := by
  first | rfl | simp [KChain.run]

theorem pipe10_pure {A B C D E F G H I J K : Type} (ab : A → B) (bc : B → C) (cd : C → D) (de : D → E) (ef : E → F) (fg : F → G) (gh : G → H) (hi : H → I) (ij : I → J) (jk : J → K) (a : A) :
    Pipe10 (m := Id) ab bc cd de ef fg gh hi ij jk a = jk (ij (hi (gh (fg (ef (de (cd (bc (ab a))))))))) := rfl

theorem pipe11_kleisli {A B C D E F G H I J K L : Type} (ab : A → m B) (bc : B → m C) (cd : C → m D) (de : D → m E) (ef : E → m F) (fg : F → m G) (gh : G → m H) (hi : H → m I) (ij : I → m J) (jk : J → m K) (kl : K → m L) (a : A) :
    Pipe11 ab bc cd de ef fg gh hi ij jk kl a = KChain.run (m := m) (.cons ab (.cons bc (.cons cd (.cons de (.cons ef (.cons fg (.cons gh (.cons hi (.cons ij (.cons jk (.one kl))))))))))) a := by
  first | rfl | simp [KChain.run]

theorem pipe11_pure {A B C D E F G H I J K L : Type} (ab : A → B) (bc : B → C) (cd : C → D) (de : D → E) (ef : E → F) (fg : F → G) (gh : G → H) (hi : H → I) (ij : I → J) (jk : J → K) (kl : K → L) (a : A) :
    Pipe11 (m := Id) ab bc cd de ef fg gh hi ij jk kl a = kl (jk (ij (hi (gh (fg (ef (de (cd (bc (ab a)))))))))) := rfl

theorem pipe12_kleisli {A B C D E F G H I J K L M : Type} (ab : A → m B) (bc : B → m C) (cd : C → m D) (de : D → m E) (ef : E → m F) (fg : F → m G) (gh : G → m H) (hi : H → m I) (ij : I → m J) (jk : J → m K) (kl : K → m L) (lm : L → m M) (a : A) :
    Pipe12 ab bc cd de ef fg gh hi ij jk kl lm a = KChain.run (m := m) (.cons ab (.cons bc (.cons cd (.cons de (.cons ef (.cons fg (.cons gh (.cons hi (.cons ij (.cons jk (.cons kl (.one lm)))))))))))) a := by
  first | rfl | simp [KChain.run]

theorem pipe12_pure {A B C D E F G H I J K L M : Type} (ab : A → B) (bc : B → C) (cd : C → D) (de : D → E) (ef : E → F) (fg : F → G) (gh : G → H) (hi : H → I) (ij : I → J) (jk : J → K) (kl : K → L) (lm : L → M) (a : A) :
    Pipe12 (m := Id) ab bc cd de ef fg gh hi ij jk kl lm a = lm (kl (jk (ij (hi (gh (fg (ef (de (cd (bc (ab a))))))))))) := rfl

theorem pipe13_kleisli {A B C D E F G H I J K L M N : Type} (ab : A → m B) (bc : B → m C) (cd : C → m D) (de : D → m E) (ef : E → m F) (fg : F → m G) (gh : G → m H) (hi : H → m I) (ij : I → m J) (jk : J → m K) (kl : K → m L) (lm : L → m M) (mn : M → m N) (a : A) :
    Pipe13 ab bc cd de ef fg gh hi ij jk kl lm mn a = KChain.run (m := m) (.cons ab (.cons bc (.cons cd (.cons de (.cons ef (.cons fg (.cons gh (.cons hi (.cons ij (.cons jk (.cons kl (.cons lm (.one mn))))))))))))) a := by
  first | rfl | simp [KChain.run]

theorem pipe13_pure {A B C D E F G H I J K L M N : Type} (ab : A → B) (bc : B → C) (cd : C → D) (de : D → E) (ef : E → F) (fg : F → G) (gh : G → H) (hi : H → I) (ij : I → J) (jk : J → K) (kl : K → L) (lm : L → M) (mn : M → N) (a : A) :
    Pipe13 (m := Id) ab bc cd de ef fg gh hi ij jk kl lm mn a = mn (lm (kl (jk (ij (hi (gh (fg (ef (de (cd (bc (ab a)))))))))))) := rfl

theorem pipe14_kleisli {A B C D E F G H I J K L M N O : Type} (ab : A → m B) (bc : B → m C) (cd : C → m D) (de : D → m E) (ef : E → m F) (fg : F → m G) (gh : G → m H) (hi : H → m I) (ij : I → m J) (jk : J → m K) (kl : K → m L) (lm : L → m M) (mn : M → m N) (no : N → m O) (a : A) :
    Pipe14 ab bc cd de ef fg gh hi ij jk kl lm mn no a = KChain.run (m := m) (.cons ab (.cons bc (.cons cd (.cons de (.cons ef (.cons fg (.cons gh (.cons hi (.cons ij (.cons jk (.cons kl (.cons lm (.cons mn (.one no)))))))))))))) a := by
  first | rfl | simp [KChain.run]

theorem pipe14_pure {A B C D E F G H I J K L M N O : Type} (ab : A → B) (bc : B → C) (cd : C → D) (de : D → E) (ef : E → F) (fg : F → G) (gh : G → H) (hi : H → I) (ij : I → J) (jk : J → K) (kl : K → L) (lm : L → M) (mn : M → N) (no : N → O) (a : A) :
    Pipe14 (m := Id) ab bc cd de ef fg gh hi ij jk kl lm mn no a = no (mn (lm (kl (jk (ij (hi (gh (fg (ef (de (cd (bc (ab a))))))))))))) := rfl

theorem pipe15_kleisli {A B C D E F G H I J K L M N O P : Type} (ab : A → m B) (bc : B → m C) (cd : C → m D) (de : D → m E) (ef : E → m F) (fg : F → m G) (gh : G → m H) (hi : H → m I) (ij : I → m J) (jk : J → m K) (kl : K → m L) (lm : L → m M) (mn : M → m N) (no : N → m O) (op : O → m P) (a : A) :
    Pipe15 ab bc cd de ef fg gh hi ij jk kl lm mn no op a = KChain.run (m := m) (.cons ab (.cons bc (.cons cd (.cons de (.cons ef (.cons fg (.cons gh (.cons hi (.cons ij (.cons jk (.cons kl (.cons lm (.cons mn (.cons no (.one op))))))))))))))) a := by
  first | rfl | simp [KChain.run]

theorem pipe15_pure {A B C D E F G H I J K L M N O P : Type} (ab : A → B) (bc : B → C) (cd : C → D) (de : D → E) (ef : E → F) (fg : F → G) (gh : G → H) (hi : H → I) (ij : I → J) (jk : J → K) (kl : K → L) (lm : L → M) (mn : M → N) (no : N → O) (op : O → P) (a : A) :
    Pipe15 (m := Id) ab bc cd de ef fg gh hi ij jk kl lm mn no op a = op (no (mn (lm (kl (jk (ij (hi (gh (fg (ef (de (cd (bc (ab a)))))))))))))) := rfl

theorem pipe16_kleisli {A B C D E F G H I J K L M N O P Q : Type} (ab : A → m B) (bc : B → m C) (cd : C → m D) (de : D → m E) (ef : E → m F) (fg : F → m G) (gh : G → m H) (hi : H → m I) (ij : I → m J) (jk : J → m K) (kl : K → m L) (lm : L → m M) (mn : M → m N) (no : N → m O) (op : O → m P) (pq : P → m Q) (a : A) :
    Pipe16 ab bc cd de ef fg gh hi ij jk kl lm mn no op pq a = KChain.run (m := m) (.cons ab (.cons bc (.cons cd (.cons de (.cons ef (.cons fg (.cons gh (.cons hi (.cons ij (.cons jk (.cons kl (.cons lm (.cons mn (.cons no (.cons op (.one pq)))))))))))))))) a := by
  first | rfl | simp [KChain.run]

theorem pipe16_pure {A B C D E F G H I J K L M N O P Q : Type} (ab : A → B) (bc : B → C) (cd : C → D) (de : D → E) (ef : E → F) (fg : F → G) (gh : G → H) (hi : H → I) (ij : I → J) (jk : J → K) (kl : K → L) (lm : L → M) (mn : M → N) (no : N → O) (op : O → P) (pq : P → Q) (a : A) :
    Pipe16 (m := Id) ab bc cd de ef fg gh hi ij jk kl lm mn no op pq a = pq (op (no (mn (lm (kl (jk (ij (hi (gh (fg (ef (de (cd (bc (ab a))))))))))))))) := rfl

theorem pipe17_kleisli {A B C D E F G H I J K L M N O P Q R : Type} (ab : A → m B) (bc : B → m C) (cd : C → m D) (de : D → m E) (ef : E → m F) (fg : F → m G) (gh : G → m H) (hi : H → m I) (ij : I → m J) (jk : J → m K) (kl : K → m L) (lm : L → m M) (mn : M → m N) (no : N → m O) (op : O → m P) (pq : P → m Q) (qr : Q → m R) (a : A) :
    Pipe17 ab bc cd de ef fg gh hi ij jk kl lm mn no op pq qr a = KChain.run (m := m) (.cons ab (.cons bc (.cons cd (.cons de (.cons ef (.cons fg (.cons gh (.cons hi (.cons ij (.cons jk (.cons kl (.cons lm (.cons mn (.cons no (.cons op (.cons pq (.one qr))))))))))))))))) a := by
  first | rfl | simp [KChain.run]

theorem pipe17_pure {A B C D E F G H I J K L M N O P Q R : Type} (ab : A → B) (bc : B → C) (cd : C → D) (de : D → E) (ef : E → F) (fg : F → G) (gh : G → H) (hi : H → I) (ij : I → J) (jk : J → K) (kl : K → L) (lm : L → M) (mn : M → N) (no : N → O) (op : O → P) (pq : P → Q) (qr : Q → R) (a : A) :
    Pipe17 (m := Id) ab bc cd de ef fg gh hi ij jk kl lm mn no op pq qr a = qr (pq (op (no (mn (lm (kl (jk (ij (hi (gh (fg (ef (de (cd (bc (ab a)))))))))))))))) := rfl

theorem pipe18_kleisli {A B C D E F G H I J K L M N O P Q R S : Type} (ab : A → m B) (bc : B → m C) (cd : C → m D) (de : D → m E) (ef : E → m F) (fg : F → m G) (gh : G → m H) (hi : H → m I) (ij : I → m J) (jk : J → m K) (kl : K → m L) (lm : L → m M) (mn : M → m N) (no : N → m O) (op : O → m P) (pq : P → m Q) (qr : Q → m R) (rs : R → m S) (a : A) :
    Pipe18 ab bc cd de ef fg gh hi ij jk kl lm mn no op pq qr rs a = KChain.run (m := m) (.cons ab (.cons bc (.cons cd (.cons de (.cons ef (.cons fg (.cons gh (.cons hi (.cons ij (.cons jk (.cons kl (.cons lm (.cons mn (.cons no (.cons op (.cons pq (.cons qr (.one rs)))))))))))))))))) a := by
  first | rfl | simp [KChain.run]

theorem pipe18_pure {A B C D E F G H I J K L M N O P Q R S : Type} (ab : A → B) (bc : B → C) (cd : C → D) (de : D → E) (ef : E → F) (fg : F → G) (gh : G → H) (hi : H → I) (ij : I → J) (jk : J → K) (kl : K → L) (lm : L → M) (mn : M → N) (no : N → O) (op : O → P) (pq : P → Q) (qr : Q → R) (rs : R → S) (a : A) :
    Pipe18 (m := Id) ab bc cd de ef fg gh hi ij jk kl lm mn no op pq qr rs a = rs (qr (pq (op (no (mn (lm (kl (jk (ij (hi (gh (fg (ef (de (cd (bc (ab a))))))))))))))))) := rfl

theorem pipe19_kleisli {A B C D E F G H I J K L M N O P Q R S T : Type} (ab : A → m B) (bc : B → m C) (cd : C → m D) (de : D → m E) (ef : E → m F) (fg : F → m G) (gh : G → m H) (hi : H → m I) (ij : I → m J) (jk : J → m K) (kl : K → m L) (lm : L → m M) (mn : M → m N) (no : N → m O) (op : O → m P) (pq : P → m Q) (qr : Q → m R) (rs : R → m S) (st : S → m T) (a : A) :
    Pipe19 ab bc cd de ef fg gh hi ij jk kl lm mn no op pq qr rs st a = KChain.run (m := m) (.cons ab (.cons bc (.cons cd (.cons de (.cons ef (.cons fg (.cons gh (.cons hi (.cons ij (.cons jk (.cons kl (.cons lm (.cons mn (.cons no (.cons op (.cons pq (.cons qr (.cons rs (.one st))))))))))))))))))) a := by
  first | rfl | simp [KChain.run]

theorem pipe19_pure {A B C D E F G H I J K L M N O P Q R S T : Type} (ab : A → B) (bc : B → C) (cd : C → D) (de : D → E) (ef : E → F) (fg : F → G) (gh : G → H) (hi : H → I) (ij : I → J) (jk : J → K) (kl : K → L) (lm : L → M) (mn : M → N) (no : N → O) (op : O → P) (pq : P → Q) (qr : Q → R) (rs : R → S) (st : S → T) (a : A) :
    Pipe19 (m := Id) ab bc cd de ef fg gh hi ij jk kl lm mn no op pq qr rs st a = st (rs (qr (pq (op (no (mn (lm (kl (jk (ij (hi (gh (fg (ef (de (cd (bc (ab a)))))))))))))))))) := rfl

theorem pipe20_kleisli {A B C D E F G H I J K L M N O P Q R S T U : Type} (ab : A → m B) (bc : B → m C) (cd : C → m D) (de : D → m E) (ef : E → m F) (fg : F → m G) (gh : G → m H) (hi : H → m I) (ij : I → m J) (jk : J → m K) (kl : K → m L) (lm : L → m M) (mn : M → m N) (no : N → m O) (op : O → m P) (pq : P → m Q) (qr : Q → m R) (rs : R → m S) (st : S → m T) (tu : T → m U) (a : A) :
    Pipe20 ab bc cd de ef fg gh hi ij jk kl lm mn no op pq qr rs st tu a = KChain.run (m := m) (.cons ab (.cons bc (.cons cd (.cons de (.cons ef (.cons fg (.cons gh (.cons hi (.cons ij (.cons jk (.cons kl (.cons lm (.cons mn (.cons no (.cons op (.cons pq (.cons qr (.cons rs (.cons st (.one tu)))))))))))))))))))) a := by
  first | rfl | simp [KChain.run]

theorem pipe20_pure {A B C D E F G H I J K L M N O P Q R S T U : Type} (ab : A → B) (bc : B → C) (cd : C → D) (de : D → E) (ef : E → F) (fg : F → G) (gh : G → H) (hi : H → I) (ij : I → J) (jk : J → K) (kl : K → L) (lm : L → M) (mn : M → N) (no : N → O) (op : O → P) (pq : P → Q) (qr : Q → R) (rs : R → S) (st : S → T) (tu : T → U) (a : A) :
    Pipe20 (m := Id) ab bc cd de ef fg gh hi ij jk kl lm mn no op pq qr rs st tu a = tu (st (rs (qr (pq (op (no (mn (lm (kl (jk (ij (hi (gh (fg (ef (de (cd (bc (ab a))))))))))))))))))) := rfl

/-! Non-vacuity / "exactly once, in order": with call-logging arrows the trace is 1..N. -/

example : ((Pipe (logged 1 (fun x => 2 * x + 1)) (logged 2 (fun x => 3 * x + 2)) (1 : Int)).run []).2 = List.range' 1 2 := by decide

example : ((Pipe7 (logged 1 (fun x => 2 * x + 1)) (logged 2 (fun x => 3 * x + 2)) (logged 3 (fun x => 4 * x + 3)) (logged 4 (fun x => 5 * x + 4)) (logged 5 (fun x => 6 * x + 5)) (logged 6 (fun x => 7 * x + 6)) (logged 7 (fun x => 8 * x + 7)) (1 : Int)).run []).2 = List.range' 1 7 := by decide

example : ((Pipe20 (logged 1 (fun x => 2 * x + 1)) (logged 2 (fun x => 3 * x + 2)) (logged 3 (fun x => 4 * x + 3)) (logged 4 (fun x => 5 * x + 4)) (logged 5 (fun x => 6 * x + 5)) (logged 6 (fun x => 7 * x + 6)) (logged 7 (fun x => 8 * x + 7)) (logged 8 (fun x => 9 * x + 8)) (logged 9 (fun x => 10 * x + 9)) (logged 10 (fun x => 11 * x + 10)) (logged 11 (fun x => 12 * x + 11)) (logged 12 (fun x => 13 * x + 12)) (logged 13 (fun x => 14 * x + 13)) (logged 14 (fun x => 15 * x + 14)) (logged 15 (fun x => 16 * x + 15)) (logged 16 (fun x => 17 * x + 16)) (logged 17 (fun x => 18 * x + 17)) (logged 18 (fun x => 19 * x + 18)) (logged 19 (fun x => 20 * x + 19)) (logged 20 (fun x => 21 * x + 20)) (1 : Int)).run []).2 = List.range' 1 20 := by decide

end Golem.Props.C20
