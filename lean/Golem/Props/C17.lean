/-
C17 — built-in Eq/Ord instances, ContraMap, From wrappers and the Monoid constructors.

Property theorems only.  `Golem.Gen.Pure` is regenerated from /repo/pure/{eq,ord,monoid,semigroup}
(+ pure/types.go) on every run by go/xlate (family `pure`); the statements below are fixed.
`Golem.Model.GoOrd` is the hand model of Go's built-in `==`/`<` on int and on strings (byte
sequences, bytewise order); `LawfulGoOrd` (Lemmas/GoOrd) says such a pair is decidable equality
plus a strict total order, and is proved for both base types.

Reading of the generated definitions: every Go call is a bind of an arbitrary monad `μ`
(user-supplied functions and interface methods are Kleisli arrows).  A theorem stated "for every
μ" therefore says which functions are called, how often, in which order and on which arguments,
for every notion of effect; the `Id` corollaries are the plain values.  The marker value of
`eq[T]`/`ord[T]` (a string such as "eq.int") is universally quantified: it plays no role.
-/
import Golem.Gen.Pure
import Golem.Lemmas.GoOrd

namespace Golem.Props.C17
open Golem.Gen.Pure Golem.Model.GoOrd Golem.Lemmas.GoOrd

variable {μ : Type → Type} [Monad μ]

/-- `eq[T].Equal(a, b)` as a value. -/
abbrev equal {T : Type} [GoEq T] (n : eq_eq T) (a b : T) : Bool := Id.run (eq_eq_Equal (μ := Id) n a b)
/-- `ord[T].Compare(a, b)` as a value. -/
abbrev cmp {T : Type} [GoOrd T] (n : ord_ord T) (a b : T) : ord_Ordering := Id.run (ord_ord_Compare (μ := Id) n a b)

/-! ## Eq -/

/-- `Equal(a, b)` is exactly the built-in `a == b`, with no other effect, in every monad. -/
theorem eq_agrees {T : Type} [GoEq T] (n : eq_eq T) (a b : T) :
    eq_eq_Equal (μ := μ) n a b = pure (goEq a b) ∧ equal n a b = goEq a b := ⟨rfl, rfl⟩

/-- `eq.Int` and `eq.String` decide equality of ints / of byte strings. -/
theorem eq_agrees_int_string :
    (∀ a b : Int, equal eq_Int a b = true ↔ a = b) ∧
    (∀ a b : GoString, equal eq_String a b = true ↔ a = b) :=
  ⟨fun a b => LawfulGoOrd.eq_iff a b, fun a b => LawfulGoOrd.eq_iff a b⟩

/-- `Equal` is an equivalence relation (for every lawful base type, so for int and string). -/
theorem eq_equivalence {T : Type} [GoOrd T] [LawfulGoOrd T] (n : eq_eq T) :
    (∀ a, equal n a a = true) ∧
    (∀ a b, equal n a b = true → equal n b a = true) ∧
    (∀ a b c, equal n a b = true → equal n b c = true → equal n a c = true) := by
  have h : ∀ a b : T, equal n a b = true ↔ a = b := fun a b => LawfulGoOrd.eq_iff a b
  refine ⟨fun a => (h a a).mpr rfl, fun a b hab => (h b a).mpr ((h a b).mp hab).symm, fun a b c hab hbc => ?_⟩
  exact (h a c).mpr (((h a b).mp hab).trans ((h b c).mp hbc))

/-! ## Ord -/

/-- The three results are different values (-1, 0, 1). -/
theorem ordering_distinct : ord_LT ≠ ord_EQ ∧ ord_EQ ≠ ord_GT ∧ ord_LT ≠ ord_GT := by decide

/-- `Compare` has no effect other than its value, in every monad. -/
theorem compare_effect_free {T : Type} [GoOrd T] (n : ord_ord T) (a b : T) :
    ord_ord_Compare (μ := μ) n a b = pure (cmp n a b) := by
  unfold cmp ord_ord_Compare
  by_cases h1 : goLt a b = true
  · simp [h1]
  · by_cases h2 : goLt b a = true <;> simp [h1, h2]

/-- `Compare(a, b)` is LT iff `a < b`, EQ iff `a = b`, GT iff `a > b` (= `b < a`). -/
theorem compare_spec {T : Type} [GoOrd T] [LawfulGoOrd T] (n : ord_ord T) (a b : T) :
    (cmp n a b = ord_LT ↔ goLt a b = true) ∧
    (cmp n a b = ord_EQ ↔ a = b) ∧
    (cmp n a b = ord_GT ↔ goLt b a = true) := by
  unfold cmp ord_ord_Compare
  by_cases h1 : goLt a b = true
  · have h2 : goLt b a = false := lt_asymm a b h1
    have hne : a ≠ b := by intro h; subst h; rw [LawfulGoOrd.lt_irrefl a] at h1; cases h1
    simp [h1, h2, hne, ord_LT, ord_EQ, ord_GT]
  · by_cases h2 : goLt b a = true
    · have hne : a ≠ b := by intro h; subst h; rw [LawfulGoOrd.lt_irrefl a] at h2; cases h2
      simp [h1, h2, hne, ord_LT, ord_EQ, ord_GT]
    · have he : a = b := by
        rcases LawfulGoOrd.lt_total a b with h | h | h
        · exact absurd h h1
        · exact h
        · exact absurd h h2
      subst he
      have hi : goLt a a = false := LawfulGoOrd.lt_irrefl a
      simp [hi, ord_LT, ord_EQ, ord_GT]

/-- For ints: against Lean's order on `Int`. -/
theorem compare_spec_int (a b : Int) :
    (cmp ord_Int a b = ord_LT ↔ a < b) ∧ (cmp ord_Int a b = ord_EQ ↔ a = b) ∧ (cmp ord_Int a b = ord_GT ↔ a > b) := by
  have := compare_spec ord_Int a b
  simpa [goLt] using this

/-- For strings: against the lexicographic order on lists of bytes. -/
theorem compare_spec_string (a b : GoString) :
    (cmp ord_String a b = ord_LT ↔ a < b) ∧ (cmp ord_String a b = ord_EQ ↔ a = b) ∧
    (cmp ord_String a b = ord_GT ↔ b < a) := by
  have := compare_spec ord_String a b
  rw [← strLt_iff_lex, ← strLt_iff_lex]
  exact this

/-- Total: exactly one of LT, EQ, GT; and of any two values one is ≤ the other. -/
theorem compare_total {T : Type} [GoOrd T] [LawfulGoOrd T] (n : ord_ord T) (a b : T) :
    (cmp n a b = ord_LT ∨ cmp n a b = ord_EQ ∨ cmp n a b = ord_GT) ∧
    (cmp n a b ≠ ord_GT ∨ cmp n b a ≠ ord_GT) := by
  obtain ⟨s1, s2, s3⟩ := compare_spec n a b
  obtain ⟨t1, t2, t3⟩ := compare_spec n b a
  constructor
  · rcases LawfulGoOrd.lt_total a b with h | h | h
    · exact .inl (s1.mpr h)
    · exact .inr (.inl (s2.mpr h))
    · exact .inr (.inr (s3.mpr h))
  · by_cases h : goLt b a = true
    · right; intro hc; have := lt_asymm b a h; rw [t3.mp hc] at this; cases this
    · left; intro hc; exact h (s3.mp hc)

/-- Antisymmetric: swapping the arguments swaps LT and GT and keeps EQ; `a ≤ b ≤ a` gives `a = b`. -/
theorem compare_antisymm {T : Type} [GoOrd T] [LawfulGoOrd T] (n : ord_ord T) (a b : T) :
    (cmp n a b = ord_LT ↔ cmp n b a = ord_GT) ∧
    (cmp n a b = ord_EQ ↔ cmp n b a = ord_EQ) ∧
    (cmp n a b ≠ ord_GT → cmp n b a ≠ ord_GT → a = b) := by
  obtain ⟨s1, s2, s3⟩ := compare_spec n a b
  obtain ⟨t1, t2, t3⟩ := compare_spec n b a
  refine ⟨s1.trans t3.symm, s2.trans (Iff.trans ⟨Eq.symm, Eq.symm⟩ t2.symm), fun h1 h2 => ?_⟩
  rcases LawfulGoOrd.lt_total a b with h | h | h
  · exact absurd (t3.mpr h) h2
  · exact h
  · exact absurd (s3.mpr h) h1

/-- Transitive, strictly and weakly. -/
theorem compare_trans {T : Type} [GoOrd T] [LawfulGoOrd T] (n : ord_ord T) (a b c : T) :
    (cmp n a b = ord_LT → cmp n b c = ord_LT → cmp n a c = ord_LT) ∧
    (cmp n a b ≠ ord_GT → cmp n b c ≠ ord_GT → cmp n a c ≠ ord_GT) := by
  obtain ⟨ab1, ab2, ab3⟩ := compare_spec n a b
  obtain ⟨bc1, bc2, bc3⟩ := compare_spec n b c
  obtain ⟨ac1, ac2, ac3⟩ := compare_spec n a c
  constructor
  · intro h1 h2
    exact ac1.mpr (LawfulGoOrd.lt_trans a b c (ab1.mp h1) (bc1.mp h2))
  · intro h1 h2 h3
    have hca := ac3.mp h3
    rcases LawfulGoOrd.lt_total a b with h | h | h
    · -- a < b, c < a  ⇒ c < b, contradiction with b ≤ c
      exact h2 (bc3.mpr (LawfulGoOrd.lt_trans c a b hca h))
    · subst h; exact h2 (bc3.mpr hca)
    · exact h1 (ab3.mpr h)

/-- `Compare = EQ` exactly when `Equal` holds. -/
theorem compare_eq_iff_equal {T : Type} [GoOrd T] [LawfulGoOrd T] (n : ord_ord T) (m : eq_eq T) (a b : T) :
    cmp n a b = ord_EQ ↔ equal m a b = true :=
  (compare_spec n a b).2.1.trans (LawfulGoOrd.eq_iff a b).symm

/-! ## ContraMap -/

/-- `ContraMap.Equal(a, b)`: the projection is applied to `a`, then to `b` (once each), then the
base instance is asked about (projection of `a`, projection of `b`) — in that order — and its
answer is returned.  For every monad. -/
theorem contramap_eq {A B : Type} (f : eq_ContraMap μ A B) (a b : B) :
    eq_ContraMap_Equal f a b = f.ContraMap a >>= fun x => f.ContraMap b >>= fun y => f.Eq.Equal x y := rfl

/-- Value reading: with a pure projection `p` and a pure base relation `r`, the result is `r (p a) (p b)`. -/
theorem contramap_eq_pure {A B : Type} (r : A → A → Bool) (p : B → A) (a b : B) :
    Id.run (eq_ContraMap_Equal (μ := Id) ⟨⟨fun x y => pure (r x y)⟩, fun x => pure (p x)⟩ a b) = r (p a) (p b) := rfl

/-- The same for `ord.ContraMap.Compare`. -/
theorem contramap_ord {A B : Type} (f : ord_ContraMap μ A B) (a b : B) :
    ord_ContraMap_Compare f a b = f.ContraMap a >>= fun x => f.ContraMap b >>= fun y => f.Ord.Compare x y := rfl

theorem contramap_ord_pure {A B : Type} (r : A → A → ord_Ordering) (p : B → A) (a b : B) :
    Id.run (ord_ContraMap_Compare (μ := Id) ⟨⟨fun x y => pure (r x y)⟩, fun x => pure (p x)⟩ a b) = r (p a) (p b) := rfl

/-- A ContraMap used through the `Eq`/`Ord` interface is its own `Equal`/`Compare` (on `B`). -/
theorem contramap_as_interface {A B : Type} (f : eq_ContraMap μ A B) (g : ord_ContraMap μ A B) (a b : B) :
    (eq_ContraMap_as_Eq f).Equal a b = eq_ContraMap_Equal f a b ∧
    (ord_ContraMap_as_Ord g).Compare a b = ord_ContraMap_Compare g a b := ⟨rfl, rfl⟩

/-! ## From wrappers -/

omit [Monad μ] in
/-- `From(f).Equal/Compare/Combine(a, b)` is `f(a, b)`: one call, arguments in order, result returned
unchanged — directly and through the interface. -/
theorem from_id {T : Type} (fe : eq_From μ T) (fo : ord_From μ T) (fs : semigroup_From μ T) (a b : T) :
    eq_From_Equal fe a b = fe a b ∧ (eq_From_as_Eq fe).Equal a b = fe a b ∧
    ord_From_Compare fo a b = fo a b ∧ (ord_From_as_Ord fo).Compare a b = fo a b ∧
    semigroup_From_Combine fs a b = fs a b ∧ (semigroup_From_as_Semigroup fs).Combine a b = fs a b :=
  ⟨rfl, rfl, rfl, rfl, rfl, rfl⟩

/-! ## Monoid constructors -/

/-- `monoid.From(e, s).Empty()` and `monoid.FromOp(e, op).Empty()` return `e` (no call at all). -/
theorem monoid_empty {T : Type} (e : T) (s : semigroup_Semigroup μ T) (op : T → T → μ T) :
    (monoid_From e s).Empty () = pure e ∧ (monoid_FromOp e op).Empty () = pure e := ⟨rfl, rfl⟩

/-- `Combine(a, b)` of the constructed monoid is the given operation on `(a, b)`, in that order. -/
theorem monoid_combine {T : Type} (e : T) (s : semigroup_Semigroup μ T) (op : T → T → μ T) (a b : T) :
    (monoid_From e s).Combine a b = s.Combine a b ∧ (monoid_FromOp e op).Combine a b = op a b := ⟨rfl, rfl⟩

/-! ## The built-in orders as comparison traits of the containers (bridge to C18) -/
/-- the three-valued result of `Compare` read as core Lean's `Ordering` -/
def asOrdering {T : Type} [GoOrd T] (n : ord_ord T) (a b : T) : Ordering :=
  if cmp n a b = ord_LT then .lt else if cmp n a b = ord_EQ then .eq else .gt

/-- The built-in `Ord` instances are comparison traits in the sense the skip list theorems (C18) assume:
`Std.TransCmp`, i.e. `Compare(a,b)` is `Compare(b,a)` swapped and `≤` is transitive. -/
theorem builtin_ord_is_TransCmp {T : Type} [GoOrd T] [LawfulGoOrd T] (n : ord_ord T) :
    Std.TransCmp (asOrdering n) := by
  obtain ⟨d1, d2, d3⟩ := ordering_distinct
  have key : ∀ a b : T, (asOrdering n a b = .lt ↔ cmp n a b = ord_LT) ∧
      (asOrdering n a b = .eq ↔ cmp n a b = ord_EQ) ∧ (asOrdering n a b = .gt ↔ cmp n a b = ord_GT) := by
    intro a b
    rcases (compare_total n a b).1 with h | h | h <;> simp [asOrdering, h, d1, d2, d3, Ne.symm d1, Ne.symm d2, Ne.symm d3]
  refine @Std.TransCmp.mk _ _ ⟨?_⟩ ?_
  · intro a b
    obtain ⟨s1, s2, _⟩ := compare_antisymm n a b
    rcases (compare_total n a b).1 with h | h | h
    · rw [(key a b).1.mpr h, (key b a).2.2.mpr (s1.mp h)]; rfl
    · rw [(key a b).2.1.mpr h, (key b a).2.1.mpr (s2.mp h)]; rfl
    · have : cmp n b a = ord_LT := (compare_antisymm n b a).1.mpr h
      rw [(key a b).2.2.mpr h, (key b a).1.mpr this]; rfl
  · intro a b c h1 h2
    have g1 : cmp n a b ≠ ord_GT := fun h => by rw [(key a b).2.2.mpr h] at h1; exact absurd h1 (by decide)
    have g2 : cmp n b c ≠ ord_GT := fun h => by rw [(key b c).2.2.mpr h] at h2; exact absurd h2 (by decide)
    have g3 := (compare_trans n a b c).2 g1 g2
    cases hh : asOrdering n a c with
    | lt => rfl
    | eq => rfl
    | gt => exact absurd ((key a c).2.2.mp hh) g3

example : Std.TransCmp (asOrdering ord_Int) := builtin_ord_is_TransCmp ord_Int
example : Std.TransCmp (asOrdering ord_String) := builtin_ord_is_TransCmp ord_String

/-! ## Non-vacuity -/

-- both base types are lawful, so the generic theorems apply to eq.Int/eq.String/ord.Int/ord.String
example : LawfulGoOrd Int := inferInstance
example : LawfulGoOrd GoString := inferInstance

-- strings are compared as bytes: proper prefix first; 0xff (invalid UTF-8) is above "é" = c3 a9; "" is least
example : cmp ord_String [0x61] [0x61, 0x62] = ord_LT ∧ cmp ord_String [0xff] [0xc3, 0xa9] = ord_GT ∧
    cmp ord_String [] [0x00] = ord_LT ∧ cmp ord_String [0xc3, 0xa9] [0xc3, 0xa9] = ord_EQ ∧
    equal eq_String [0xc3, 0xa9] [0xc3] = false := by decide

example : cmp ord_Int (-9223372036854775808) 9223372036854775807 = ord_LT ∧ cmp ord_Int 0 (-1) = ord_GT := by decide

-- argument order is visible: a non-commutative operation, an asymmetric base relation, a non-injective projection
example : Id.run ((monoid_FromOp (μ := Id) (0 : Int) (fun a b => pure (a - b))).Combine 5 3) = 2 := by decide
example : Id.run (eq_ContraMap_Equal (μ := Id) ⟨⟨fun x y => pure (decide (x < y))⟩, fun (s : Int) => pure (s / 10)⟩ 7 25) = true ∧
    Id.run (eq_ContraMap_Equal (μ := Id) ⟨⟨fun x y => pure (decide (x < y))⟩, fun (s : Int) => pure (s / 10)⟩ 25 7) = false ∧
    Id.run (eq_ContraMap_Equal (μ := Id) ⟨⟨fun x y => pure (decide (x = y))⟩, fun (s : Int) => pure (s / 10)⟩ 21 25) = true := by decide

-- effects: with a logging monad the trace is projection(a), projection(b), base
example : ((ord_ContraMap_Compare (μ := StateM (List String))
      ⟨⟨fun x y => do modify (· ++ [s!"base {x} {y}"]); pure (x - y)⟩, fun (s : Int) => do modify (· ++ [s!"proj {s}"]); pure (s * 2)⟩ 1 5).run []).2
    = ["proj 1", "proj 5", "base 2 10"] := by decide

end Golem.Props.C17
