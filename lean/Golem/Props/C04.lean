/-
C04 — composed optics are lawful and touch only their component foci.

Property theorems only.  `Golem.Gen.Optics` is regenerated from /repo/optics/{iso,shape,lens}.go on
every run (fmap/cmap/codec/iso/join/shape2..9 methods and the constructors Getter, Setter, BiMap,
BiMapS/B/I/F, Iso, Join); the statements below are fixed and are about those definitions.  The
hand mirrors of `Model/Optics.lean` (the definitions the oracle driver executes: `join`, `getter`,
`setter`, `bimap`, `iso`, `shapePut/Get`, `morphism`, `lensM`) are proved equal to the generated
ones (`*_eq_model`) or are the subject of the theorem themselves (`morphism`, `lensM`).

Reading of the text (DESIGN §10): for `Morphism`, entries may be nil (skipped) and repeated; two
*distinct* entries must have disjoint target foci (and, for restoring into an arbitrary structure,
disjoint source foci) — two different isos writing one target focus cannot be undone by anyone.
Frames are stated for an arbitrary observation `g : Lens S C` that the component writes preserve.
-/
import Golem.Gen.Optics
import Golem.Model.Optics
import Golem.Lemmas.Optics

namespace Golem.Props.C04
open Golem.Model.Optics Golem.Lemmas.Optics

/-! ## generated definitions = the hand mirrors executed by the oracle -/

theorem join_eq_model {S A B : Type} (a : Lens S A) (b : Lens A B) :
    (Gen.Optics.Join a b).toLens = join a b := rfl

theorem getter_eq_model {S A B : Type} (l : Lens S A) (f : A → B) :
    (Gen.Optics.Getter l f).toLens = getter l f := rfl

theorem setter_eq_model {S A B : Type} [Inhabited B] (l : Lens S A) (f : B → A) :
    (Gen.Optics.Setter l f).toLens = setter l f := rfl

theorem bimap_eq_model {S A B : Type} (l : Lens S A) (f : A → B) (g : B → A) :
    (Gen.Optics.BiMap l f g).toLens = bimap l f g := rfl

theorem iso_eq_model {S T A : Type} (sa : Lens S A) (ta : Lens T A) :
    (Gen.Optics.Iso sa ta).toIsomorphism = iso sa ta := rfl

/-! ## Join -/

/-- Join reads the nested field: inner get of the outer get. -/
theorem join_get {S A B : Type} (a : Lens S A) (b : Lens A B) (s : S) :
    (Gen.Optics.Join a b).toLens.get s = b.get (a.get s) := rfl

/-- Join writes the nested field: copy out, put inner, put the copy back. -/
theorem join_put {S A B : Type} (a : Lens S A) (b : Lens A B) (s : S) (v : B) :
    (Gen.Optics.Join a b).toLens.put s v = a.put s (b.put (a.get s) v) := rfl

theorem join_lawful {S A B : Type} {a : Lens S A} {b : Lens A B} (ha : Lawful a) (hb : Lawful b) :
    Lawful (Gen.Optics.Join a b).toLens where
  get_put s := by
    show a.put s (b.put (a.get s) (b.get (a.get s))) = s
    rw [hb.get_put, ha.get_put]
  put_get s v := by
    show b.get (a.get (a.put s (b.put (a.get s) v))) = v
    rw [ha.put_get, hb.put_get]
  put_put s v w := by
    show a.put (a.put s (b.put (a.get s) v)) (b.put (a.get (a.put s (b.put (a.get s) v))) w)
      = a.put s (b.put (a.get s) w)
    rw [ha.put_get, ha.put_put, hb.put_put]

/-- Whatever a write through the outer lens leaves alone, the joined write leaves alone. -/
theorem join_frame {S A B C : Type} (a : Lens S A) (b : Lens A B) (g : Lens S C)
    (h : Preserves a g) : Preserves (Gen.Optics.Join a b).toLens g := by
  intro s v
  show g.get (a.put s (b.put (a.get s) v)) = g.get s
  exact h s _

/-- Inside the outer focus, whatever the inner write leaves alone is left alone. -/
theorem join_frame_inner {S A B C : Type} {a : Lens S A} (ha : Lawful a) (b : Lens A B) (g : Lens A C)
    (h : Preserves b g) : Preserves (Gen.Optics.Join a b).toLens (Gen.Optics.Join a g).toLens := by
  intro s v
  show g.get (a.get (a.put s (b.put (a.get s) v))) = g.get (a.get s)
  rw [ha.put_get]; exact h _ _

theorem join_disjoint {S A B C : Type} (a : Lens S A) (b : Lens A B) (g : Lens S C)
    (h : Disjoint a g) : Disjoint (Gen.Optics.Join a b).toLens g :=
  ⟨join_frame a b g h.left, fun s c => by
    show b.get (a.get (g.put s c)) = b.get (a.get s)
    rw [h.right]⟩

/-- Re-association does not change the joined lens (so only the list of leaves matters). -/
theorem join_assoc {S A B C : Type} (a : Lens S A) (b : Lens A B) (c : Lens B C) :
    (Gen.Optics.Join (Gen.Optics.Join a b).toLens c).toLens
      = (Gen.Optics.Join a (Gen.Optics.Join b c).toLens).toLens := rfl

/-- Arbitrarily nested `Join` expressions (any depth, any association). -/
inductive Chain : Type → Type → Type 1 where
  | leaf {S A : Type} : Lens S A → Chain S A
  | join {S A B : Type} : Chain S A → Chain A B → Chain S B

namespace Chain
def toLens : {S A : Type} → Chain S A → Lens S A
  | _, _, .leaf l => l
  | _, _, .join x y => (Gen.Optics.Join x.toLens y.toLens).toLens

def AllLawful : {S A : Type} → Chain S A → Prop
  | _, _, .leaf l => Lawful l
  | _, _, .join x y => x.AllLawful ∧ y.AllLawful

/-- `g` is preserved by the outermost (leftmost) leaf. -/
def RootPreserves {C : Type} : {S A : Type} → Chain S A → Lens S C → Prop
  | _, _, .leaf l, g => Preserves l g
  | _, _, .join x _, g => x.RootPreserves g

/-- The nested read spelled out: leaves applied outermost first. -/
def read : {S A : Type} → Chain S A → S → A
  | _, _, .leaf l, s => l.get s
  | _, _, .join x y, s => y.read (x.read s)
end Chain

theorem join_nested {S A : Type} (c : Chain S A) (h : c.AllLawful) : Lawful c.toLens := by
  induction c with
  | leaf l => exact h
  | join x y ihx ihy => exact join_lawful (ihx h.1) (ihy h.2)

theorem join_nested_get {S A : Type} (c : Chain S A) (s : S) : c.toLens.get s = c.read s := by
  induction c with
  | leaf l => rfl
  | join x y ihx ihy =>
    show y.toLens.get (x.toLens.get s) = y.read (x.read s)
    rw [ihx, ihy]

theorem join_nested_frame {S A C : Type} (c : Chain S A) (g : Lens S C) (h : c.RootPreserves g) :
    Preserves c.toLens g := by
  induction c with
  | leaf l => exact h
  | join x y ihx _ => exact join_frame _ _ g (ihx g h)

/-! ## BiMap, BiMapS/B/I/F, Getter, Setter -/

theorem bimap_lawful {S A B : Type} {l : Lens S A} (hl : Lawful l) (fmap : A → B) (cmap : B → A)
    (h1 : ∀ a, cmap (fmap a) = a) (h2 : ∀ b, fmap (cmap b) = b) :
    Lawful (Gen.Optics.BiMap l fmap cmap).toLens where
  get_put s := by
    show l.put s (cmap (fmap (l.get s))) = s
    rw [h1, hl.get_put]
  put_get s b := by
    show fmap (l.get (l.put s (cmap b))) = b
    rw [hl.put_get, h2]
  put_put s b c := by
    show l.put (l.put s (cmap b)) (cmap c) = l.put s (cmap c)
    rw [hl.put_put]

/-- BiMap writes exactly the converted value through the underlying lens and nothing else. -/
theorem bimap_put {S A B : Type} (l : Lens S A) (fmap : A → B) (cmap : B → A) (s : S) (b : B) :
    (Gen.Optics.BiMap l fmap cmap).toLens.put s b = l.put s (cmap b) := rfl

theorem bimap_get {S A B : Type} (l : Lens S A) (fmap : A → B) (cmap : B → A) (s : S) :
    (Gen.Optics.BiMap l fmap cmap).toLens.get s = fmap (l.get s) := rfl

theorem bimap_frame {S A B C : Type} (l : Lens S A) (fmap : A → B) (cmap : B → A) (g : Lens S C)
    (h : Preserves l g) : Preserves (Gen.Optics.BiMap l fmap cmap).toLens g :=
  fun s b => h s (cmap b)

section conv
variable {S A B : Type} [GoConv A B] [GoConv B A] {p : Lens S A}
  (h1 : ∀ a : A, (GoConv.conv (GoConv.conv a : B) : A) = a)
  (h2 : ∀ b : B, (GoConv.conv (GoConv.conv b : A) : B) = b)
include h1 h2

/-- `BiMapS[S, A, B](attr...)` over the lens `p` that `ForProduct1[S, A](attr...)` yields. -/
theorem bimapS_lawful (hp : Lawful p) : Lawful (Gen.Optics.BiMapS (B := B) p).toLens :=
  bimap_lawful hp _ _ h1 h2
theorem bimapB_lawful (hp : Lawful p) : Lawful (Gen.Optics.BiMapB (B := B) p).toLens :=
  bimap_lawful hp _ _ h1 h2
theorem bimapI_lawful (hp : Lawful p) : Lawful (Gen.Optics.BiMapI (B := B) p).toLens :=
  bimap_lawful hp _ _ h1 h2
theorem bimapF_lawful (hp : Lawful p) : Lawful (Gen.Optics.BiMapF (B := B) p).toLens :=
  bimap_lawful hp _ _ h1 h2
end conv

theorem bimapSBIF_frame {S A B C : Type} [GoConv A B] [GoConv B A] (p : Lens S A) (g : Lens S C)
    (h : Preserves p g) :
    Preserves (Gen.Optics.BiMapS (B := B) p).toLens g ∧ Preserves (Gen.Optics.BiMapB (B := B) p).toLens g ∧
    Preserves (Gen.Optics.BiMapI (B := B) p).toLens g ∧ Preserves (Gen.Optics.BiMapF (B := B) p).toLens g :=
  ⟨bimap_frame p _ _ g h, bimap_frame p _ _ g h, bimap_frame p _ _ g h, bimap_frame p _ _ g h⟩

/-- Getter never writes. -/
theorem getter_put_id {S A B : Type} (l : Lens S A) (f : A → B) (s : S) (b : B) :
    (Gen.Optics.Getter l f).toLens.put s b = s := rfl

theorem getter_get {S A B : Type} (l : Lens S A) (f : A → B) (s : S) :
    (Gen.Optics.Getter l f).toLens.get s = f (l.get s) := rfl

/-- Setter writes exactly the converted value through the underlying lens. -/
theorem setter_put {S A B : Type} [Inhabited B] (l : Lens S A) (f : B → A) (s : S) (b : B) :
    (Gen.Optics.Setter l f).toLens.put s b = l.put s (f b) := rfl

theorem setter_get_zero {S A B : Type} [Inhabited B] (l : Lens S A) (f : B → A) (s : S) :
    (Gen.Optics.Setter l f).toLens.get s = default := rfl

theorem setter_frame {S A B C : Type} [Inhabited B] (l : Lens S A) (f : B → A) (g : Lens S C)
    (h : Preserves l g) : Preserves (Gen.Optics.Setter l f).toLens g :=
  fun s b => h s (f b)

/-! ## map lens -/

theorem lensM_put_nil {K V : Type} [DecidableEq K] (k : K) (v : V) :
    lensM.put k (none : GoMap K V) v = .error .nilMap := rfl

theorem lensM_get_nil {K V : Type} [Inhabited V] (k : K) :
    lensM.get k (none : GoMap K V) = default := rfl

theorem lensM_put_total {K V : Type} [DecidableEq K] (k : K) (f : K → Option V) (v : V) :
    ∃ m', lensM.put k (some f) v = .ok m' ∧ m' ≠ none := ⟨_, rfl, by simp⟩

/-- A map lens touches only its key: the key then holds the value, every other key keeps its
value and its presence. -/
theorem lensM_touches_only_key {K V : Type} [DecidableEq K] [Inhabited V] (k : K) (m m' : GoMap K V) (v : V)
    (h : lensM.put k m v = .ok m') :
    lensM.get k m' = v ∧ m'.has k = true ∧
    ∀ k', k' ≠ k → lensM.get k' m' = lensM.get k' m ∧ m'.has k' = m.has k' := by
  cases m with
  | none => cases h
  | some f =>
    simp only [lensM.put, pure, Except.pure, Except.ok.injEq] at h
    subst h
    refine ⟨by simp [lensM.get, GoMap.lookup], by simp [GoMap.has], ?_⟩
    intro k' hk
    simp [lensM.get, GoMap.lookup, GoMap.has, hk]

/-- PutPut for the map lens. -/
theorem lensM_put_put {K V : Type} [DecidableEq K] (k : K) (f : K → Option V) (v w : V) :
    (lensM.put k (some f) v >>= fun m => lensM.put k m w) = lensM.put k (some f) w := by
  simp only [lensM.put, pure, Except.pure, bind, Except.bind]
  congr 2; funext x; by_cases hx : x = k <;> simp [hx]

/-- GetPut for the map lens holds when the key is present (on an absent key `Put(Get)` inserts the
zero value: same lookups, one more key). -/
theorem lensM_get_put {K V : Type} [DecidableEq K] [Inhabited V] (k : K) (f : K → Option V)
    (hk : (f k).isSome) : lensM.put k (some f) (lensM.get k (some f)) = .ok (some f) := by
  simp only [lensM.put, pure, Except.pure, lensM.get, GoMap.lookup]
  congr 2; funext x; by_cases hx : x = k
  · subst hx; cases hfx : f x with
    | none => simp [hfx] at hk
    | some y => simp
  · simp [hx]

/-! ## Iso -/

/-- Forward then Inverse (into any structure `s'`) restores the source focus. -/
theorem iso_roundtrip {S T A : Type} {sa : Lens S A} {ta : Lens T A}
    (hsa : Lawful sa) (hta : Lawful ta) (s s' : S) (t : T) :
    sa.get ((Gen.Optics.Iso sa ta).Inverse ((Gen.Optics.Iso sa ta).Forward s t) s') = sa.get s := by
  show sa.get (sa.put s' (ta.get (ta.put t (sa.get s)))) = sa.get s
  rw [hta.put_get, hsa.put_get]

/-- Forward then Inverse into the source itself restores it entirely. -/
theorem iso_roundtrip_same {S T A : Type} {sa : Lens S A} {ta : Lens T A}
    (hsa : Lawful sa) (hta : Lawful ta) (s : S) (t : T) :
    (Gen.Optics.Iso sa ta).Inverse ((Gen.Optics.Iso sa ta).Forward s t) s = s := by
  show sa.put s (ta.get (ta.put t (sa.get s))) = s
  rw [hta.put_get, hsa.get_put]

/-- Forward writes exactly the source focus into the target focus. -/
theorem iso_forward {S T A : Type} (sa : Lens S A) (ta : Lens T A) (s : S) (t : T) :
    (Gen.Optics.Iso sa ta).Forward s t = ta.put t (sa.get s) := rfl

theorem iso_inverse {S T A : Type} (sa : Lens S A) (ta : Lens T A) (s : S) (t : T) :
    (Gen.Optics.Iso sa ta).Inverse t s = sa.put s (ta.get t) := rfl

theorem iso_frame {S T A C D : Type} (sa : Lens S A) (ta : Lens T A) (g : Lens T C) (g' : Lens S D)
    (h : Preserves ta g) (h' : Preserves sa g') (s : S) (t : T) :
    g.get ((Gen.Optics.Iso sa ta).Forward s t) = g.get t ∧
    g'.get ((Gen.Optics.Iso sa ta).Inverse t s) = g'.get s :=
  ⟨h t _, h' s _⟩

/-! ## Morphism -/

/-- An entry of a `Morphism` list: an `iso[S, T, A]` for some focus type `A`. -/
structure AnyIso (S T : Type) : Type 1 where
  {A : Type}
  val : Gen.Optics.iso S T A

/-- The Go slice `[]Isomorphism[S, T]`: nil entries are `none`. -/
def isos {S T : Type} (l : List (Option (AnyIso S T))) : List (Option (Isomorphism S T)) :=
  l.map (Option.map fun e => e.val.toIsomorphism)

/-- The non-nil entries, in order. -/
def present {S T : Type} (l : List (Option (AnyIso S T))) : List (AnyIso S T) := l.filterMap id

/-- Distinct entries have disjoint target foci (identical entries may repeat). -/
def TargetCompatible {S T : Type} (e f : AnyIso S T) : Prop := e = f ∨ Disjoint e.val.ta f.val.ta
/-- … and disjoint source foci. -/
def Compatible {S T : Type} (e f : AnyIso S T) : Prop :=
  e = f ∨ (Disjoint e.val.ta f.val.ta ∧ Disjoint e.val.sa f.val.sa)

def fwdWrites {S T : Type} (es : List (AnyIso S T)) (s : S) : List (Write T) :=
  es.map fun e => ⟨e.val.ta, e.val.sa.get s⟩
def invWrites {S T : Type} (es : List (AnyIso S T)) (t : T) : List (Write S) :=
  es.map fun e => ⟨e.val.sa, e.val.ta.get t⟩

/-- The Forward loop is the sequence of target writes of the non-nil entries, in order. -/
theorem morphism_forward_writes {S T : Type} (l : List (Option (AnyIso S T))) (s : S) (t : T) :
    morphism.forward (isos l) s t = writeAll (fwdWrites (present l) s) t := by
  induction l generalizing t with
  | nil => rfl
  | cons e r ih =>
    cases e with
    | none => exact ih t
    | some e => exact ih _

theorem morphism_inverse_writes {S T : Type} (l : List (Option (AnyIso S T))) (t : T) (s : S) :
    morphism.inverse (isos l) t s = writeAll (invWrites (present l) t) s := by
  induction l generalizing s with
  | nil => rfl
  | cons e r ih =>
    cases e with
    | none => exact ih s
    | some e => exact ih _

/-- After Forward every entry's target focus holds its source focus. -/
theorem morphism_forward_focus {S T : Type} (l : List (Option (AnyIso S T)))
    (hta : ∀ e ∈ present l, Lawful e.val.ta)
    (hc : (present l).Pairwise TargetCompatible) (s : S) (t : T) :
    ∀ e ∈ present l, e.val.ta.get (morphism.forward (isos l) s t) = e.val.sa.get s := by
  intro e he
  rw [morphism_forward_writes]
  have := writeAll_get (fwdWrites (present l) s) t
    (by
      intro w hw
      obtain ⟨e', he', rfl⟩ := List.mem_map.mp hw
      exact (hta e' he').put_get)
    (by
      unfold fwdWrites
      rw [List.pairwise_map]
      refine hc.imp ?_
      intro a b hab
      rcases hab with rfl | hd
      · exact Or.inl rfl
      · exact Or.inr hd.right)
    ⟨e.val.ta, e.val.sa.get s⟩ (List.mem_map.mpr ⟨e, he, rfl⟩)
  exact this

/-- Morphism.Forward then Morphism.Inverse into ANY structure `s'` restores every source focus:
any list, nil entries skipped, repeated entries allowed, distinct entries on disjoint foci. -/
theorem morphism_roundtrip {S T : Type} (l : List (Option (AnyIso S T)))
    (hsa : ∀ e ∈ present l, Lawful e.val.sa) (hta : ∀ e ∈ present l, Lawful e.val.ta)
    (hc : (present l).Pairwise Compatible) (s s' : S) (t : T) :
    ∀ e ∈ present l,
      e.val.sa.get (morphism.inverse (isos l) (morphism.forward (isos l) s t) s') = e.val.sa.get s := by
  intro e he
  have hct : (present l).Pairwise TargetCompatible :=
    hc.imp (fun h => h.elim Or.inl (fun h => Or.inr h.1))
  rw [morphism_inverse_writes]
  have := writeAll_get (invWrites (present l) (morphism.forward (isos l) s t)) s'
    (by
      intro w hw
      obtain ⟨e', he', rfl⟩ := List.mem_map.mp hw
      exact (hsa e' he').put_get)
    (by
      unfold invWrites
      rw [List.pairwise_map]
      refine hc.imp ?_
      intro a b hab
      rcases hab with rfl | hd
      · exact Or.inl rfl
      · exact Or.inr hd.2.right)
    ⟨e.val.sa, e.val.ta.get (morphism.forward (isos l) s t)⟩ (List.mem_map.mpr ⟨e, he, rfl⟩)
  exact this.trans (morphism_forward_focus l hta hct s t e he)

/-- Forward then Inverse into the source itself restores it entirely (only the target foci of
distinct entries need to be disjoint). -/
theorem morphism_roundtrip_same {S T : Type} (l : List (Option (AnyIso S T)))
    (hsa : ∀ e ∈ present l, Lawful e.val.sa) (hta : ∀ e ∈ present l, Lawful e.val.ta)
    (hc : (present l).Pairwise TargetCompatible) (s : S) (t : T) :
    morphism.inverse (isos l) (morphism.forward (isos l) s t) s = s := by
  rw [morphism_inverse_writes]
  apply writeAll_id
  intro w hw
  obtain ⟨e, he, rfl⟩ := List.mem_map.mp hw
  show e.val.sa.put s (e.val.ta.get (morphism.forward (isos l) s t)) = s
  rw [morphism_forward_focus l hta hc s t e he, (hsa e he).get_put]

/-- Nothing outside the foci changes, in either structure: an observation of `T` preserved by every
target lens survives Forward, an observation of `S` preserved by every source lens survives
Inverse (for every `t`), and Forward does not write `S` / Inverse does not write `T` at all
(they return only the other structure). -/
theorem morphism_frame {S T C D : Type} (l : List (Option (AnyIso S T))) (g : Lens T C) (g' : Lens S D)
    (h : ∀ e ∈ present l, Preserves e.val.ta g) (h' : ∀ e ∈ present l, Preserves e.val.sa g')
    (s : S) (t : T) :
    g.get (morphism.forward (isos l) s t) = g.get t ∧
    g'.get (morphism.inverse (isos l) t s) = g'.get s := by
  constructor
  · rw [morphism_forward_writes]
    apply writeAll_frame
    intro w hw
    obtain ⟨e, he, rfl⟩ := List.mem_map.mp hw
    exact h e he
  · rw [morphism_inverse_writes]
    apply writeAll_frame
    intro w hw
    obtain ⟨e, he, rfl⟩ := List.mem_map.mp hw
    exact h' e he

/-! ## ShapeN -/

/-- Pairwise disjoint, lawful component lenses. -/
def Independent {T : Type} (ls : List (AnyLens T)) : Prop :=
  ls.Pairwise (fun f g => Disjoint f.lens g.lens) ∧ ∀ l ∈ ls, Lawful l.lens

/-- Writing the components last-to-first (as shapeN.Put does): each component reads back its own
value. -/
theorem shape_writes_get {T : Type} (cs : List (Write T)) (s : T)
    (h : Independent (cs.map fun w => ⟨w.lens⟩)) :
    ∀ w ∈ cs, w.lens.get (writeAll cs.reverse s) = w.val := by
  intro w hw
  apply writeAll_get cs.reverse s
  · intro x hx
    exact (h.2 ⟨x.lens⟩ (List.mem_map.mpr ⟨x, List.mem_reverse.mp hx, rfl⟩)).put_get
  · rw [List.pairwise_reverse]
    have := h.1
    rw [List.pairwise_map] at this
    exact this.imp (fun hd => Or.inr hd.left)
  · exact List.mem_reverse.mpr hw

theorem shape_writes_frame {T C : Type} (cs : List (Write T)) (s : T) (g : Lens T C)
    (h : ∀ l ∈ (cs.map fun w => (⟨w.lens⟩ : AnyLens T)), Preserves l.lens g) :
    g.get (writeAll cs.reverse s) = g.get s := by
  apply writeAll_frame
  intro w hw
  exact h ⟨w.lens⟩ (List.mem_map.mpr ⟨w, List.mem_reverse.mp hw, rfl⟩)


/-! ### shape2 -/

/-- shape2.Put is the 2 component puts, applied b first … a last. -/
theorem shape2_put {T A B : Type} (L : Gen.Optics.shape2 T A B) (s : T) (a : A) (b : B) :
    L.Put s a b = L.a.put (L.b.put s b) a := rfl

/-- shape2.Get is the tuple of the component gets, positionally. -/
theorem shape2_get {T A B : Type} (L : Gen.Optics.shape2 T A B) (s : T) :
    L.Get s = (L.a.get s, L.b.get s) := rfl

/-- With independent components, every position reads back exactly the value given at that position. -/
theorem shape2_put_get {T A B : Type} (L : Gen.Optics.shape2 T A B)
    (hI : Independent [⟨L.a⟩, ⟨L.b⟩]) (s : T) (a : A) (b : B) :
    L.Get (L.Put s a b) = (a, b) := by
  have hall := shape_writes_get [⟨L.a, a⟩, ⟨L.b, b⟩] s hI
  have hv_a : L.a.get (L.Put s a b) = a := hall ⟨L.a, a⟩ (by simp)
  have hv_b : L.b.get (L.Put s a b) = b := hall ⟨L.b, b⟩ (by simp)
  unfold Gen.Optics.shape2.Get
  rw [hv_a, hv_b]

/-- Whatever every component write leaves alone, shape2.Put leaves alone. -/
theorem shape2_frame {X : Type} {T A B : Type} (L : Gen.Optics.shape2 T A B) (obs : Lens T X)
    (hobs : ∀ l ∈ ([⟨L.a⟩, ⟨L.b⟩] : List (AnyLens T)), Preserves l.lens obs) (s : T) (a : A) (b : B) :
    obs.get (L.Put s a b) = obs.get s :=
  shape_writes_frame [⟨L.a, a⟩, ⟨L.b, b⟩] s obs hobs

/-- Same-typed components: the generated shape2 is the list specification the oracle runs. -/
theorem shape2_eq_model {T V : Type} (L : Gen.Optics.shape2 T V V) (s : T) (a : V) (b : V) :
    L.Put s a b = shapePut [(L.a, a), (L.b, b)] s ∧
    shapeGet [L.a, L.b] s = [(L.Get s).1, (L.Get s).2] := ⟨rfl, rfl⟩

/-! ### shape3 -/

/-- shape3.Put is the 3 component puts, applied c first … a last. -/
theorem shape3_put {T A B C : Type} (L : Gen.Optics.shape3 T A B C) (s : T) (a : A) (b : B) (c : C) :
    L.Put s a b c = L.a.put (L.b.put (L.c.put s c) b) a := rfl

/-- shape3.Get is the tuple of the component gets, positionally. -/
theorem shape3_get {T A B C : Type} (L : Gen.Optics.shape3 T A B C) (s : T) :
    L.Get s = (L.a.get s, L.b.get s, L.c.get s) := rfl

/-- With independent components, every position reads back exactly the value given at that position. -/
theorem shape3_put_get {T A B C : Type} (L : Gen.Optics.shape3 T A B C)
    (hI : Independent [⟨L.a⟩, ⟨L.b⟩, ⟨L.c⟩]) (s : T) (a : A) (b : B) (c : C) :
    L.Get (L.Put s a b c) = (a, b, c) := by
  have hall := shape_writes_get [⟨L.a, a⟩, ⟨L.b, b⟩, ⟨L.c, c⟩] s hI
  have hv_a : L.a.get (L.Put s a b c) = a := hall ⟨L.a, a⟩ (by simp)
  have hv_b : L.b.get (L.Put s a b c) = b := hall ⟨L.b, b⟩ (by simp)
  have hv_c : L.c.get (L.Put s a b c) = c := hall ⟨L.c, c⟩ (by simp)
  unfold Gen.Optics.shape3.Get
  rw [hv_a, hv_b, hv_c]

/-- Whatever every component write leaves alone, shape3.Put leaves alone. -/
theorem shape3_frame {X : Type} {T A B C : Type} (L : Gen.Optics.shape3 T A B C) (obs : Lens T X)
    (hobs : ∀ l ∈ ([⟨L.a⟩, ⟨L.b⟩, ⟨L.c⟩] : List (AnyLens T)), Preserves l.lens obs) (s : T) (a : A) (b : B) (c : C) :
    obs.get (L.Put s a b c) = obs.get s :=
  shape_writes_frame [⟨L.a, a⟩, ⟨L.b, b⟩, ⟨L.c, c⟩] s obs hobs

/-- Same-typed components: the generated shape3 is the list specification the oracle runs. -/
theorem shape3_eq_model {T V : Type} (L : Gen.Optics.shape3 T V V V) (s : T) (a : V) (b : V) (c : V) :
    L.Put s a b c = shapePut [(L.a, a), (L.b, b), (L.c, c)] s ∧
    shapeGet [L.a, L.b, L.c] s = [(L.Get s).1, (L.Get s).2.1, (L.Get s).2.2] := ⟨rfl, rfl⟩

/-! ### shape4 -/

/-- shape4.Put is the 4 component puts, applied d first … a last. -/
theorem shape4_put {T A B C D : Type} (L : Gen.Optics.shape4 T A B C D) (s : T) (a : A) (b : B) (c : C) (d : D) :
    L.Put s a b c d = L.a.put (L.b.put (L.c.put (L.d.put s d) c) b) a := rfl

/-- shape4.Get is the tuple of the component gets, positionally. -/
theorem shape4_get {T A B C D : Type} (L : Gen.Optics.shape4 T A B C D) (s : T) :
    L.Get s = (L.a.get s, L.b.get s, L.c.get s, L.d.get s) := rfl

/-- With independent components, every position reads back exactly the value given at that position. -/
theorem shape4_put_get {T A B C D : Type} (L : Gen.Optics.shape4 T A B C D)
    (hI : Independent [⟨L.a⟩, ⟨L.b⟩, ⟨L.c⟩, ⟨L.d⟩]) (s : T) (a : A) (b : B) (c : C) (d : D) :
    L.Get (L.Put s a b c d) = (a, b, c, d) := by
  have hall := shape_writes_get [⟨L.a, a⟩, ⟨L.b, b⟩, ⟨L.c, c⟩, ⟨L.d, d⟩] s hI
  have hv_a : L.a.get (L.Put s a b c d) = a := hall ⟨L.a, a⟩ (by simp)
  have hv_b : L.b.get (L.Put s a b c d) = b := hall ⟨L.b, b⟩ (by simp)
  have hv_c : L.c.get (L.Put s a b c d) = c := hall ⟨L.c, c⟩ (by simp)
  have hv_d : L.d.get (L.Put s a b c d) = d := hall ⟨L.d, d⟩ (by simp)
  unfold Gen.Optics.shape4.Get
  rw [hv_a, hv_b, hv_c, hv_d]

/-- Whatever every component write leaves alone, shape4.Put leaves alone. -/
theorem shape4_frame {X : Type} {T A B C D : Type} (L : Gen.Optics.shape4 T A B C D) (obs : Lens T X)
    (hobs : ∀ l ∈ ([⟨L.a⟩, ⟨L.b⟩, ⟨L.c⟩, ⟨L.d⟩] : List (AnyLens T)), Preserves l.lens obs) (s : T) (a : A) (b : B) (c : C) (d : D) :
    obs.get (L.Put s a b c d) = obs.get s :=
  shape_writes_frame [⟨L.a, a⟩, ⟨L.b, b⟩, ⟨L.c, c⟩, ⟨L.d, d⟩] s obs hobs

/-- Same-typed components: the generated shape4 is the list specification the oracle runs. -/
theorem shape4_eq_model {T V : Type} (L : Gen.Optics.shape4 T V V V V) (s : T) (a : V) (b : V) (c : V) (d : V) :
    L.Put s a b c d = shapePut [(L.a, a), (L.b, b), (L.c, c), (L.d, d)] s ∧
    shapeGet [L.a, L.b, L.c, L.d] s = [(L.Get s).1, (L.Get s).2.1, (L.Get s).2.2.1, (L.Get s).2.2.2] := ⟨rfl, rfl⟩

/-! ### shape5 -/

/-- shape5.Put is the 5 component puts, applied e first … a last. -/
theorem shape5_put {T A B C D E : Type} (L : Gen.Optics.shape5 T A B C D E) (s : T) (a : A) (b : B) (c : C) (d : D) (e : E) :
    L.Put s a b c d e = L.a.put (L.b.put (L.c.put (L.d.put (L.e.put s e) d) c) b) a := rfl

/-- shape5.Get is the tuple of the component gets, positionally. -/
theorem shape5_get {T A B C D E : Type} (L : Gen.Optics.shape5 T A B C D E) (s : T) :
    L.Get s = (L.a.get s, L.b.get s, L.c.get s, L.d.get s, L.e.get s) := rfl

/-- With independent components, every position reads back exactly the value given at that position. -/
theorem shape5_put_get {T A B C D E : Type} (L : Gen.Optics.shape5 T A B C D E)
    (hI : Independent [⟨L.a⟩, ⟨L.b⟩, ⟨L.c⟩, ⟨L.d⟩, ⟨L.e⟩]) (s : T) (a : A) (b : B) (c : C) (d : D) (e : E) :
    L.Get (L.Put s a b c d e) = (a, b, c, d, e) := by
  have hall := shape_writes_get [⟨L.a, a⟩, ⟨L.b, b⟩, ⟨L.c, c⟩, ⟨L.d, d⟩, ⟨L.e, e⟩] s hI
  have hv_a : L.a.get (L.Put s a b c d e) = a := hall ⟨L.a, a⟩ (by simp)
  have hv_b : L.b.get (L.Put s a b c d e) = b := hall ⟨L.b, b⟩ (by simp)
  have hv_c : L.c.get (L.Put s a b c d e) = c := hall ⟨L.c, c⟩ (by simp)
  have hv_d : L.d.get (L.Put s a b c d e) = d := hall ⟨L.d, d⟩ (by simp)
  have hv_e : L.e.get (L.Put s a b c d e) = e := hall ⟨L.e, e⟩ (by simp)
  unfold Gen.Optics.shape5.Get
  rw [hv_a, hv_b, hv_c, hv_d, hv_e]

/-- Whatever every component write leaves alone, shape5.Put leaves alone. -/
theorem shape5_frame {X : Type} {T A B C D E : Type} (L : Gen.Optics.shape5 T A B C D E) (obs : Lens T X)
    (hobs : ∀ l ∈ ([⟨L.a⟩, ⟨L.b⟩, ⟨L.c⟩, ⟨L.d⟩, ⟨L.e⟩] : List (AnyLens T)), Preserves l.lens obs) (s : T) (a : A) (b : B) (c : C) (d : D) (e : E) :
    obs.get (L.Put s a b c d e) = obs.get s :=
  shape_writes_frame [⟨L.a, a⟩, ⟨L.b, b⟩, ⟨L.c, c⟩, ⟨L.d, d⟩, ⟨L.e, e⟩] s obs hobs

/-- Same-typed components: the generated shape5 is the list specification the oracle runs. -/
theorem shape5_eq_model {T V : Type} (L : Gen.Optics.shape5 T V V V V V) (s : T) (a : V) (b : V) (c : V) (d : V) (e : V) :
    L.Put s a b c d e = shapePut [(L.a, a), (L.b, b), (L.c, c), (L.d, d), (L.e, e)] s ∧
    shapeGet [L.a, L.b, L.c, L.d, L.e] s = [(L.Get s).1, (L.Get s).2.1, (L.Get s).2.2.1, (L.Get s).2.2.2.1, (L.Get s).2.2.2.2] := ⟨rfl, rfl⟩

/-! ### shape6 -/

/-- shape6.Put is the 6 component puts, applied f first … a last. -/
theorem shape6_put {T A B C D E F : Type} (L : Gen.Optics.shape6 T A B C D E F) (s : T) (a : A) (b : B) (c : C) (d : D) (e : E) (f : F) :
    L.Put s a b c d e f = L.a.put (L.b.put (L.c.put (L.d.put (L.e.put (L.f.put s f) e) d) c) b) a := rfl

/-- shape6.Get is the tuple of the component gets, positionally. -/
theorem shape6_get {T A B C D E F : Type} (L : Gen.Optics.shape6 T A B C D E F) (s : T) :
    L.Get s = (L.a.get s, L.b.get s, L.c.get s, L.d.get s, L.e.get s, L.f.get s) := rfl

/-- With independent components, every position reads back exactly the value given at that position. -/
theorem shape6_put_get {T A B C D E F : Type} (L : Gen.Optics.shape6 T A B C D E F)
    (hI : Independent [⟨L.a⟩, ⟨L.b⟩, ⟨L.c⟩, ⟨L.d⟩, ⟨L.e⟩, ⟨L.f⟩]) (s : T) (a : A) (b : B) (c : C) (d : D) (e : E) (f : F) :
    L.Get (L.Put s a b c d e f) = (a, b, c, d, e, f) := by
  have hall := shape_writes_get [⟨L.a, a⟩, ⟨L.b, b⟩, ⟨L.c, c⟩, ⟨L.d, d⟩, ⟨L.e, e⟩, ⟨L.f, f⟩] s hI
  have hv_a : L.a.get (L.Put s a b c d e f) = a := hall ⟨L.a, a⟩ (by simp)
  have hv_b : L.b.get (L.Put s a b c d e f) = b := hall ⟨L.b, b⟩ (by simp)
  have hv_c : L.c.get (L.Put s a b c d e f) = c := hall ⟨L.c, c⟩ (by simp)
  have hv_d : L.d.get (L.Put s a b c d e f) = d := hall ⟨L.d, d⟩ (by simp)
  have hv_e : L.e.get (L.Put s a b c d e f) = e := hall ⟨L.e, e⟩ (by simp)
  have hv_f : L.f.get (L.Put s a b c d e f) = f := hall ⟨L.f, f⟩ (by simp)
  unfold Gen.Optics.shape6.Get
  rw [hv_a, hv_b, hv_c, hv_d, hv_e, hv_f]

/-- Whatever every component write leaves alone, shape6.Put leaves alone. -/
theorem shape6_frame {X : Type} {T A B C D E F : Type} (L : Gen.Optics.shape6 T A B C D E F) (obs : Lens T X)
    (hobs : ∀ l ∈ ([⟨L.a⟩, ⟨L.b⟩, ⟨L.c⟩, ⟨L.d⟩, ⟨L.e⟩, ⟨L.f⟩] : List (AnyLens T)), Preserves l.lens obs) (s : T) (a : A) (b : B) (c : C) (d : D) (e : E) (f : F) :
    obs.get (L.Put s a b c d e f) = obs.get s :=
  shape_writes_frame [⟨L.a, a⟩, ⟨L.b, b⟩, ⟨L.c, c⟩, ⟨L.d, d⟩, ⟨L.e, e⟩, ⟨L.f, f⟩] s obs hobs

/-- Same-typed components: the generated shape6 is the list specification the oracle runs. -/
theorem shape6_eq_model {T V : Type} (L : Gen.Optics.shape6 T V V V V V V) (s : T) (a : V) (b : V) (c : V) (d : V) (e : V) (f : V) :
    L.Put s a b c d e f = shapePut [(L.a, a), (L.b, b), (L.c, c), (L.d, d), (L.e, e), (L.f, f)] s ∧
    shapeGet [L.a, L.b, L.c, L.d, L.e, L.f] s = [(L.Get s).1, (L.Get s).2.1, (L.Get s).2.2.1, (L.Get s).2.2.2.1, (L.Get s).2.2.2.2.1, (L.Get s).2.2.2.2.2] := ⟨rfl, rfl⟩

/-! ### shape7 -/

/-- shape7.Put is the 7 component puts, applied g first … a last. -/
theorem shape7_put {T A B C D E F G : Type} (L : Gen.Optics.shape7 T A B C D E F G) (s : T) (a : A) (b : B) (c : C) (d : D) (e : E) (f : F) (g : G) :
    L.Put s a b c d e f g = L.a.put (L.b.put (L.c.put (L.d.put (L.e.put (L.f.put (L.g.put s g) f) e) d) c) b) a := rfl

/-- shape7.Get is the tuple of the component gets, positionally. -/
theorem shape7_get {T A B C D E F G : Type} (L : Gen.Optics.shape7 T A B C D E F G) (s : T) :
    L.Get s = (L.a.get s, L.b.get s, L.c.get s, L.d.get s, L.e.get s, L.f.get s, L.g.get s) := rfl

/-- With independent components, every position reads back exactly the value given at that position. -/
theorem shape7_put_get {T A B C D E F G : Type} (L : Gen.Optics.shape7 T A B C D E F G)
    (hI : Independent [⟨L.a⟩, ⟨L.b⟩, ⟨L.c⟩, ⟨L.d⟩, ⟨L.e⟩, ⟨L.f⟩, ⟨L.g⟩]) (s : T) (a : A) (b : B) (c : C) (d : D) (e : E) (f : F) (g : G) :
    L.Get (L.Put s a b c d e f g) = (a, b, c, d, e, f, g) := by
  have hall := shape_writes_get [⟨L.a, a⟩, ⟨L.b, b⟩, ⟨L.c, c⟩, ⟨L.d, d⟩, ⟨L.e, e⟩, ⟨L.f, f⟩, ⟨L.g, g⟩] s hI
  have hv_a : L.a.get (L.Put s a b c d e f g) = a := hall ⟨L.a, a⟩ (by simp)
  have hv_b : L.b.get (L.Put s a b c d e f g) = b := hall ⟨L.b, b⟩ (by simp)
  have hv_c : L.c.get (L.Put s a b c d e f g) = c := hall ⟨L.c, c⟩ (by simp)
  have hv_d : L.d.get (L.Put s a b c d e f g) = d := hall ⟨L.d, d⟩ (by simp)
  have hv_e : L.e.get (L.Put s a b c d e f g) = e := hall ⟨L.e, e⟩ (by simp)
  have hv_f : L.f.get (L.Put s a b c d e f g) = f := hall ⟨L.f, f⟩ (by simp)
  have hv_g : L.g.get (L.Put s a b c d e f g) = g := hall ⟨L.g, g⟩ (by simp)
  unfold Gen.Optics.shape7.Get
  rw [hv_a, hv_b, hv_c, hv_d, hv_e, hv_f, hv_g]

/-- Whatever every component write leaves alone, shape7.Put leaves alone. -/
theorem shape7_frame {X : Type} {T A B C D E F G : Type} (L : Gen.Optics.shape7 T A B C D E F G) (obs : Lens T X)
    (hobs : ∀ l ∈ ([⟨L.a⟩, ⟨L.b⟩, ⟨L.c⟩, ⟨L.d⟩, ⟨L.e⟩, ⟨L.f⟩, ⟨L.g⟩] : List (AnyLens T)), Preserves l.lens obs) (s : T) (a : A) (b : B) (c : C) (d : D) (e : E) (f : F) (g : G) :
    obs.get (L.Put s a b c d e f g) = obs.get s :=
  shape_writes_frame [⟨L.a, a⟩, ⟨L.b, b⟩, ⟨L.c, c⟩, ⟨L.d, d⟩, ⟨L.e, e⟩, ⟨L.f, f⟩, ⟨L.g, g⟩] s obs hobs

/-- Same-typed components: the generated shape7 is the list specification the oracle runs. -/
theorem shape7_eq_model {T V : Type} (L : Gen.Optics.shape7 T V V V V V V V) (s : T) (a : V) (b : V) (c : V) (d : V) (e : V) (f : V) (g : V) :
    L.Put s a b c d e f g = shapePut [(L.a, a), (L.b, b), (L.c, c), (L.d, d), (L.e, e), (L.f, f), (L.g, g)] s ∧
    shapeGet [L.a, L.b, L.c, L.d, L.e, L.f, L.g] s = [(L.Get s).1, (L.Get s).2.1, (L.Get s).2.2.1, (L.Get s).2.2.2.1, (L.Get s).2.2.2.2.1, (L.Get s).2.2.2.2.2.1, (L.Get s).2.2.2.2.2.2] := ⟨rfl, rfl⟩

/-! ### shape8 -/

/-- shape8.Put is the 8 component puts, applied h first … a last. -/
theorem shape8_put {T A B C D E F G H : Type} (L : Gen.Optics.shape8 T A B C D E F G H) (s : T) (a : A) (b : B) (c : C) (d : D) (e : E) (f : F) (g : G) (h : H) :
    L.Put s a b c d e f g h = L.a.put (L.b.put (L.c.put (L.d.put (L.e.put (L.f.put (L.g.put (L.h.put s h) g) f) e) d) c) b) a := rfl

/-- shape8.Get is the tuple of the component gets, positionally. -/
theorem shape8_get {T A B C D E F G H : Type} (L : Gen.Optics.shape8 T A B C D E F G H) (s : T) :
    L.Get s = (L.a.get s, L.b.get s, L.c.get s, L.d.get s, L.e.get s, L.f.get s, L.g.get s, L.h.get s) := rfl

/-- With independent components, every position reads back exactly the value given at that position. -/
theorem shape8_put_get {T A B C D E F G H : Type} (L : Gen.Optics.shape8 T A B C D E F G H)
    (hI : Independent [⟨L.a⟩, ⟨L.b⟩, ⟨L.c⟩, ⟨L.d⟩, ⟨L.e⟩, ⟨L.f⟩, ⟨L.g⟩, ⟨L.h⟩]) (s : T) (a : A) (b : B) (c : C) (d : D) (e : E) (f : F) (g : G) (h : H) :
    L.Get (L.Put s a b c d e f g h) = (a, b, c, d, e, f, g, h) := by
  have hall := shape_writes_get [⟨L.a, a⟩, ⟨L.b, b⟩, ⟨L.c, c⟩, ⟨L.d, d⟩, ⟨L.e, e⟩, ⟨L.f, f⟩, ⟨L.g, g⟩, ⟨L.h, h⟩] s hI
  have hv_a : L.a.get (L.Put s a b c d e f g h) = a := hall ⟨L.a, a⟩ (by simp)
  have hv_b : L.b.get (L.Put s a b c d e f g h) = b := hall ⟨L.b, b⟩ (by simp)
  have hv_c : L.c.get (L.Put s a b c d e f g h) = c := hall ⟨L.c, c⟩ (by simp)
  have hv_d : L.d.get (L.Put s a b c d e f g h) = d := hall ⟨L.d, d⟩ (by simp)
  have hv_e : L.e.get (L.Put s a b c d e f g h) = e := hall ⟨L.e, e⟩ (by simp)
  have hv_f : L.f.get (L.Put s a b c d e f g h) = f := hall ⟨L.f, f⟩ (by simp)
  have hv_g : L.g.get (L.Put s a b c d e f g h) = g := hall ⟨L.g, g⟩ (by simp)
  have hv_h : L.h.get (L.Put s a b c d e f g h) = h := hall ⟨L.h, h⟩ (by simp)
  unfold Gen.Optics.shape8.Get
  rw [hv_a, hv_b, hv_c, hv_d, hv_e, hv_f, hv_g, hv_h]

/-- Whatever every component write leaves alone, shape8.Put leaves alone. -/
theorem shape8_frame {X : Type} {T A B C D E F G H : Type} (L : Gen.Optics.shape8 T A B C D E F G H) (obs : Lens T X)
    (hobs : ∀ l ∈ ([⟨L.a⟩, ⟨L.b⟩, ⟨L.c⟩, ⟨L.d⟩, ⟨L.e⟩, ⟨L.f⟩, ⟨L.g⟩, ⟨L.h⟩] : List (AnyLens T)), Preserves l.lens obs) (s : T) (a : A) (b : B) (c : C) (d : D) (e : E) (f : F) (g : G) (h : H) :
    obs.get (L.Put s a b c d e f g h) = obs.get s :=
  shape_writes_frame [⟨L.a, a⟩, ⟨L.b, b⟩, ⟨L.c, c⟩, ⟨L.d, d⟩, ⟨L.e, e⟩, ⟨L.f, f⟩, ⟨L.g, g⟩, ⟨L.h, h⟩] s obs hobs

/-- Same-typed components: the generated shape8 is the list specification the oracle runs. -/
theorem shape8_eq_model {T V : Type} (L : Gen.Optics.shape8 T V V V V V V V V) (s : T) (a : V) (b : V) (c : V) (d : V) (e : V) (f : V) (g : V) (h : V) :
    L.Put s a b c d e f g h = shapePut [(L.a, a), (L.b, b), (L.c, c), (L.d, d), (L.e, e), (L.f, f), (L.g, g), (L.h, h)] s ∧
    shapeGet [L.a, L.b, L.c, L.d, L.e, L.f, L.g, L.h] s = [(L.Get s).1, (L.Get s).2.1, (L.Get s).2.2.1, (L.Get s).2.2.2.1, (L.Get s).2.2.2.2.1, (L.Get s).2.2.2.2.2.1, (L.Get s).2.2.2.2.2.2.1, (L.Get s).2.2.2.2.2.2.2] := ⟨rfl, rfl⟩

/-! ### shape9 -/

/-- shape9.Put is the 9 component puts, applied i first … a last. -/
theorem shape9_put {T A B C D E F G H I : Type} (L : Gen.Optics.shape9 T A B C D E F G H I) (s : T) (a : A) (b : B) (c : C) (d : D) (e : E) (f : F) (g : G) (h : H) (i : I) :
    L.Put s a b c d e f g h i = L.a.put (L.b.put (L.c.put (L.d.put (L.e.put (L.f.put (L.g.put (L.h.put (L.i.put s i) h) g) f) e) d) c) b) a := rfl

/-- shape9.Get is the tuple of the component gets, positionally. -/
theorem shape9_get {T A B C D E F G H I : Type} (L : Gen.Optics.shape9 T A B C D E F G H I) (s : T) :
    L.Get s = (L.a.get s, L.b.get s, L.c.get s, L.d.get s, L.e.get s, L.f.get s, L.g.get s, L.h.get s, L.i.get s) := rfl

/-- With independent components, every position reads back exactly the value given at that position. -/
theorem shape9_put_get {T A B C D E F G H I : Type} (L : Gen.Optics.shape9 T A B C D E F G H I)
    (hI : Independent [⟨L.a⟩, ⟨L.b⟩, ⟨L.c⟩, ⟨L.d⟩, ⟨L.e⟩, ⟨L.f⟩, ⟨L.g⟩, ⟨L.h⟩, ⟨L.i⟩]) (s : T) (a : A) (b : B) (c : C) (d : D) (e : E) (f : F) (g : G) (h : H) (i : I) :
    L.Get (L.Put s a b c d e f g h i) = (a, b, c, d, e, f, g, h, i) := by
  have hall := shape_writes_get [⟨L.a, a⟩, ⟨L.b, b⟩, ⟨L.c, c⟩, ⟨L.d, d⟩, ⟨L.e, e⟩, ⟨L.f, f⟩, ⟨L.g, g⟩, ⟨L.h, h⟩, ⟨L.i, i⟩] s hI
  have hv_a : L.a.get (L.Put s a b c d e f g h i) = a := hall ⟨L.a, a⟩ (by simp)
  have hv_b : L.b.get (L.Put s a b c d e f g h i) = b := hall ⟨L.b, b⟩ (by simp)
  have hv_c : L.c.get (L.Put s a b c d e f g h i) = c := hall ⟨L.c, c⟩ (by simp)
  have hv_d : L.d.get (L.Put s a b c d e f g h i) = d := hall ⟨L.d, d⟩ (by simp)
  have hv_e : L.e.get (L.Put s a b c d e f g h i) = e := hall ⟨L.e, e⟩ (by simp)
  have hv_f : L.f.get (L.Put s a b c d e f g h i) = f := hall ⟨L.f, f⟩ (by simp)
  have hv_g : L.g.get (L.Put s a b c d e f g h i) = g := hall ⟨L.g, g⟩ (by simp)
  have hv_h : L.h.get (L.Put s a b c d e f g h i) = h := hall ⟨L.h, h⟩ (by simp)
  have hv_i : L.i.get (L.Put s a b c d e f g h i) = i := hall ⟨L.i, i⟩ (by simp)
  unfold Gen.Optics.shape9.Get
  rw [hv_a, hv_b, hv_c, hv_d, hv_e, hv_f, hv_g, hv_h, hv_i]

/-- Whatever every component write leaves alone, shape9.Put leaves alone. -/
theorem shape9_frame {X : Type} {T A B C D E F G H I : Type} (L : Gen.Optics.shape9 T A B C D E F G H I) (obs : Lens T X)
    (hobs : ∀ l ∈ ([⟨L.a⟩, ⟨L.b⟩, ⟨L.c⟩, ⟨L.d⟩, ⟨L.e⟩, ⟨L.f⟩, ⟨L.g⟩, ⟨L.h⟩, ⟨L.i⟩] : List (AnyLens T)), Preserves l.lens obs) (s : T) (a : A) (b : B) (c : C) (d : D) (e : E) (f : F) (g : G) (h : H) (i : I) :
    obs.get (L.Put s a b c d e f g h i) = obs.get s :=
  shape_writes_frame [⟨L.a, a⟩, ⟨L.b, b⟩, ⟨L.c, c⟩, ⟨L.d, d⟩, ⟨L.e, e⟩, ⟨L.f, f⟩, ⟨L.g, g⟩, ⟨L.h, h⟩, ⟨L.i, i⟩] s obs hobs

/-- Same-typed components: the generated shape9 is the list specification the oracle runs. -/
theorem shape9_eq_model {T V : Type} (L : Gen.Optics.shape9 T V V V V V V V V V) (s : T) (a : V) (b : V) (c : V) (d : V) (e : V) (f : V) (g : V) (h : V) (i : V) :
    L.Put s a b c d e f g h i = shapePut [(L.a, a), (L.b, b), (L.c, c), (L.d, d), (L.e, e), (L.f, f), (L.g, g), (L.h, h), (L.i, i)] s ∧
    shapeGet [L.a, L.b, L.c, L.d, L.e, L.f, L.g, L.h, L.i] s = [(L.Get s).1, (L.Get s).2.1, (L.Get s).2.2.1, (L.Get s).2.2.2.1, (L.Get s).2.2.2.2.1, (L.Get s).2.2.2.2.2.1, (L.Get s).2.2.2.2.2.2.1, (L.Get s).2.2.2.2.2.2.2.1, (L.Get s).2.2.2.2.2.2.2.2] := ⟨rfl, rfl⟩

/-! ## non-vacuity: concrete lenses on a record of cells and on a pair -/

theorem cell_lawful {n : Nat} {V : Type} (i : Fin n) : Lawful (cell (V := V) i) where
  get_put s := by funext j; by_cases h : j = i <;> simp [cell, h]
  put_get s a := by simp [cell]
  put_put s a b := by funext j; by_cases h : j = i <;> simp [cell, h]

theorem cell_disjoint {n : Nat} {V : Type} {i j : Fin n} (h : i ≠ j) :
    Disjoint (cell (V := V) i) (cell (V := V) j) :=
  ⟨fun s a => by simp [cell, Ne.symm h], fun s a => by simp [cell, h]⟩

theorem cells_independent {n : Nat} {V : Type} (is : List (Fin n)) (h : is.Nodup) :
    Independent (is.map fun i => (⟨cell (V := V) i⟩ : AnyLens (Fin n → V))) := by
  constructor
  · rw [List.pairwise_map]
    exact h.imp (fun hne => cell_disjoint hne)
  · intro l hl
    obtain ⟨i, _, rfl⟩ := List.mem_map.mp hl
    exact cell_lawful i

section examples

def fstL {A B : Type} : Lens (A × B) A := ⟨Prod.fst, fun s a => (a, s.2)⟩
def sndL {A B : Type} : Lens (A × B) B := ⟨Prod.snd, fun s b => (s.1, b)⟩
theorem fstL_lawful {A B : Type} : Lawful (fstL (A := A) (B := B)) := ⟨fun _ => rfl, fun _ _ => rfl, fun _ _ _ => rfl⟩
theorem sndL_lawful {A B : Type} : Lawful (sndL (A := A) (B := B)) := ⟨fun _ => rfl, fun _ _ => rfl, fun _ _ _ => rfl⟩
theorem fst_snd_disjoint {A B : Type} : Disjoint (fstL (A := A) (B := B)) sndL := ⟨fun _ _ => rfl, fun _ _ => rfl⟩

/-- join_lawful / join_nested at depth 3 on `((Nat × String) × Bool) × Nat`. -/
example : Lawful (Chain.join (.join (.leaf (fstL (A := (Nat × String) × Bool) (B := Nat))) (.leaf fstL)) (.leaf sndL)).toLens :=
  join_nested _ ⟨⟨fstL_lawful, fstL_lawful⟩, sndL_lawful⟩

example : (Gen.Optics.Join (fstL (A := Nat × String) (B := Bool)) sndL).toLens.put ((1, "x"), true) "y" = ((1, "y"), true) := rfl

/-- the sibling of the outer focus is untouched -/
example : Preserves (Gen.Optics.Join (fstL (A := Nat × String) (B := Bool)) sndL).toLens sndL :=
  join_frame _ _ _ fst_snd_disjoint.left

/-- bimap_lawful with `+3 / -3` on Int. -/
example : Lawful (Gen.Optics.BiMap (fstL (A := Int) (B := Nat)) (· + 3) (· - 3)).toLens :=
  bimap_lawful fstL_lawful _ _ (fun a => by omega) (fun b => by omega)

/-- bimapS_lawful with the identity conversion (named types over one underlying type). -/
local instance idConv : GoConv String String := ⟨id⟩
example : Lawful (Gen.Optics.BiMapS (B := String) (fstL (A := String) (B := Nat))).toLens :=
  bimapS_lawful (fun _ => rfl) (fun _ => rfl) fstL_lawful

/-- shape3 over same-typed cells: positional. -/
example : (Gen.Optics.shape3.mk (cell (n := 4) (V := Nat) 2) (cell 0) (cell 3)).Put (fun _ => 0) 7 8 9
    = fun j => if j = 2 then 7 else if j = 0 then 8 else if j = 3 then 9 else 0 := by
  funext j; simp [Gen.Optics.shape3.Put, cell]

/-- the hypotheses of shape9_put_get are satisfiable -/
abbrev L9 : Gen.Optics.shape9 (Fin 9 → Nat) Nat Nat Nat Nat Nat Nat Nat Nat Nat :=
  ⟨cell 8, cell 7, cell 6, cell 5, cell 4, cell 3, cell 2, cell 1, cell 0⟩
example (s : Fin 9 → Nat) : L9.Get (L9.Put s 1 2 3 4 5 6 7 8 9) = (1, 2, 3, 4, 5, 6, 7, 8, 9) :=
  shape9_put_get L9 (cells_independent (V := Nat) [(8 : Fin 9), 7, 6, 5, 4, 3, 2, 1, 0] (by decide)) s 1 2 3 4 5 6 7 8 9

/-- morphism_roundtrip: a list with a nil entry and a repeated entry between `Fin 3 → Nat` and
`Fin 4 → Nat`. -/
def e01 : AnyIso (Fin 3 → Nat) (Fin 4 → Nat) := ⟨Gen.Optics.Iso (cell 0) (cell 3)⟩
def e12 : AnyIso (Fin 3 → Nat) (Fin 4 → Nat) := ⟨Gen.Optics.Iso (cell 2) (cell 1)⟩

example (s s' : Fin 3 → Nat) (t : Fin 4 → Nat) :
    ∀ e ∈ present [some e01, none, some e12, some e01],
      e.val.sa.get (morphism.inverse (isos [some e01, none, some e12, some e01])
        (morphism.forward (isos [some e01, none, some e12, some e01]) s t) s') = e.val.sa.get s := by
  have d : Compatible e01 e12 := by
    unfold Compatible; right
    exact ⟨cell_disjoint (i := 3) (j := 1) (by decide), cell_disjoint (i := 0) (j := 2) (by decide)⟩
  have d' : Compatible e12 e01 := by
    unfold Compatible; right
    exact ⟨cell_disjoint (i := 1) (j := 3) (by decide), cell_disjoint (i := 2) (j := 0) (by decide)⟩
  apply morphism_roundtrip
  · intro e he
    simp [present] at he
    rcases he with rfl | rfl | rfl <;> exact cell_lawful _
  · intro e he
    simp [present] at he
    rcases he with rfl | rfl | rfl <;> exact cell_lawful _
  · show List.Pairwise Compatible [e01, e12, e01]
    refine .cons ?_ (.cons ?_ (.cons ?_ .nil))
    · intro x hx
      simp at hx
      rcases hx with rfl | rfl
      · exact d
      · exact Or.inl rfl
    · intro x hx
      simp at hx
      subst hx
      exact d'
    · intro x hx
      cases hx

/-- lensM on a two-key map -/
example : (lensM.put "a" (some fun k => if k = "b" then some 2 else none) (5 : Nat)).toOption.map
    (fun m => (lensM.get "a" m, lensM.get "b" m, lensM.get "c" m)) = some (5, 2, 0) := by
  decide

end examples

end Golem.Props.C04
