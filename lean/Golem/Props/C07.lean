/-
C07 — fail-fast (Lift/LiftF) and try-and-continue (Try/TryF) error modes, for every failure pattern.

`f : α → Except ε β` is an arbitrary function: WHICH elements fail is arbitrary. The stage data
`mapS`/`fmapS` mirror `function.go`'s `catch`: Lift = plain send on the capacity-1 error channel,
then return; Try = `select{exx<-err | <-ctx.Done()}`, then continue. Network statements hold for
every capacity and schedule (Emit/Unfold: `Golem.Go.Sources`, cited when built).
-/
import Golem.Lemmas.StageErr
import Golem.Props.C05
import Golem.Props.C06
import Golem.Props.C11
namespace Golem.Props.C07
open Golem.Go Golem.Go.Stage Golem.Go.Pool Golem.Model Golem.Lemmas Golem.Lemmas.StageErr

variable {α β ε : Type}

/-- Lift, list level: exactly the results of the elements before the first failure; that first error,
once; the loop body has returned iff some element fails (nothing further is processed) -/
theorem lift_first_failure_run (f : α → Except ε β) (as : List α) :
    onCh 0 ((mapS .lift f).run () as).ems = ((as.takeWhile (isOk f)).filterMap (okVal f)).map Sum.inl ∧
    onCh 1 ((mapS .lift f).run () as).ems = (((as.dropWhile (isOk f)).head?.bind (errVal f)).toList.map Sum.inr) ∧
    ((mapS .lift f).run () as).stopped = (as.any fun a => !isOk f a) := map_lift_out f as

/-- Lift, network: uncancelled, input closed, goroutine gone ⇒ delivered ++ buffered on the value channel
are the images before the first failing element, on the error channel that error once -/
theorem lift_first_failure (f : α → Except ε β) (inCap : Nat) (outCap : Nat → Nat) {p : Pool Unit α (β ⊕ ε)}
    (hr : Reachable (mapS .lift f) (pipePool () inCap outCap [1, 0] false) p)
    (hc : p.cancelled = false) (hx : Ctl.isExited (p.ws 0).ctl = true) (hcl : (p.ins 0).closed = true) :
    p.delivered 0 ++ (p.outs 0).buf = (((p.sent 0).takeWhile (isOk f)).filterMap (okVal f)).map Sum.inl ∧
    p.delivered 1 ++ (p.outs 1).buf = ((((p.sent 0).dropWhile (isOk f)).head?.bind (errVal f)).toList.map Sum.inr) := by
  have h0 := C05.pipe_complete (mapS .lift f) () inCap outCap [1, 0] (by decide) false hr hc hx hcl 0
  have h1 := C05.pipe_complete (mapS .lift f) () inCap outCap [1, 0] (by decide) false hr hc hx hcl 1
  rw [(map_lift_out f _).1] at h0
  rw [(map_lift_out f _).2.1] at h1
  exact ⟨by simpa [mapS] using h0, by simpa [mapS] using h1⟩

/-- Lift: in every reachable state (cancelled or not) at most the prefix before the first failure has
been delivered, and at most that one error -/
theorem lift_prefix (f : α → Except ε β) (inCap : Nat) (outCap : Nat → Nat) {p : Pool Unit α (β ⊕ ε)}
    (hr : Reachable (mapS .lift f) (pipePool () inCap outCap [1, 0] false) p) :
    p.delivered 0 <+: (((p.sent 0).takeWhile (isOk f)).filterMap (okVal f)).map Sum.inl ∧
    p.delivered 1 <+: ((((p.sent 0).dropWhile (isOk f)).head?.bind (errVal f)).toList.map Sum.inr) := by
  have h0 := C05.pipe_delivered_prefix (mapS .lift f) () inCap outCap [1, 0] (by decide) false (by intro s; rfl) hr 0
  have h1 := C05.pipe_delivered_prefix (mapS .lift f) () inCap outCap [1, 0] (by decide) false (by intro s; rfl) hr 1
  rw [(map_lift_out f _).1] at h0
  rw [(map_lift_out f _).2.1] at h1
  exact ⟨h0, h1⟩

/-- Try, list level: one error per failing element and no output for it, the normal output for every
other element, both in input order, never returns -/
theorem try_partition_run (f : α → Except ε β) (as : List α) :
    onCh 0 ((mapS .try_ f).run () as).ems = (as.filterMap (okVal f)).map Sum.inl ∧
    onCh 1 ((mapS .try_ f).run () as).ems = (as.filterMap (errVal f)).map Sum.inr ∧
    ((mapS .try_ f).run () as).stopped = false := map_try_out f as

/-- Try, network: nothing lost or duplicated on either channel, both in input order -/
theorem try_partition (f : α → Except ε β) (inCap : Nat) (outCap : Nat → Nat) {p : Pool Unit α (β ⊕ ε)}
    (hr : Reachable (mapS .try_ f) (pipePool () inCap outCap [1, 0] false) p)
    (hc : p.cancelled = false) (hx : Ctl.isExited (p.ws 0).ctl = true) (hcl : (p.ins 0).closed = true) :
    p.delivered 0 ++ (p.outs 0).buf = ((p.sent 0).filterMap (okVal f)).map Sum.inl ∧
    p.delivered 1 ++ (p.outs 1).buf = ((p.sent 0).filterMap (errVal f)).map Sum.inr := by
  have h0 := C05.pipe_complete (mapS .try_ f) () inCap outCap [1, 0] (by decide) false hr hc hx hcl 0
  have h1 := C05.pipe_complete (mapS .try_ f) () inCap outCap [1, 0] (by decide) false hr hc hx hcl 1
  rw [(map_try_out f _).1] at h0
  rw [(map_try_out f _).2.1] at h1
  exact ⟨by simpa [mapS] using h0, by simpa [mapS] using h1⟩

/-- TryF (FMap), network -/
theorem tryF_partition (g : α → List β × Option ε) (inCap : Nat) (outCap : Nat → Nat) {p : Pool Unit α (β ⊕ ε)}
    (hr : Reachable (fmapS .try_ g) (pipePool () inCap outCap [1, 0] false) p)
    (hc : p.cancelled = false) (hx : Ctl.isExited (p.ws 0).ctl = true) (hcl : (p.ins 0).closed = true) :
    p.delivered 0 ++ (p.outs 0).buf = ((p.sent 0).flatMap fun a => (g a).1).map Sum.inl ∧
    p.delivered 1 ++ (p.outs 1).buf = ((p.sent 0).filterMap fun a => (g a).2).map Sum.inr := by
  have h0 := C05.pipe_complete (fmapS .try_ g) () inCap outCap [1, 0] (by decide) false hr hc hx hcl 0
  have h1 := C05.pipe_complete (fmapS .try_ g) () inCap outCap [1, 0] (by decide) false hr hc hx hcl 1
  rw [(fmap_try_out g _).1] at h0
  rw [(fmap_try_out g _).2.1] at h1
  exact ⟨by simpa [fmapS] using h0, by simpa [fmapS] using h1⟩

/-- Try: both channels close once the input ended and both have been read to the end; no panic -/
theorem try_closes (f : α → Except ε β) (inCap : Nat) (outCap : Nat → Nat) {p : Pool Unit α (β ⊕ ε)}
    (hr : Reachable (mapS .try_ f) (pipePool () inCap outCap [1, 0] false) p)
    (hcl : (p.ins 0).closed = true) (hq : procNext (mapS .try_ f) p = []) (hd : ∀ k, ¬ canRecv (mapS .try_ f) p k) :
    Ctl.isExited (p.ws 0).ctl = true ∧ (p.outs 0).closed = true ∧ (p.outs 1).closed = true ∧ p.panicked = false := by
  have hI := inv_reachable (mapS .try_ f) 1 _ () _ outCap [1, 0] false (by decide) hr
  have := C05.pipe_closes (mapS .try_ f) () inCap outCap [1, 0] (by decide) hr hcl hq hd
    (C06.sel_never_blockedPlain _ (C06.map_try_sel f) (by intro s; rfl) hI 0)
  exact ⟨this.1, this.2 0 (by simp), this.2 1 (by simp), hI.noPanic⟩

/-! ### Emit / Unfold under Lift and Try (`Golem.Go.Sources`) -/
section Sources
open Golem.Go.Sources
variable {β' ε' : Type}

theorem emit_lift_first_failure (P : Fn β' ε') (hm : P.mode = .lift) (cap : Nat) {p : Src β' ε'}
    (hr : Golem.Go.Sources.Reachable P (initEmit P.mode cap) p) (j : Nat) (hj : j < p.iters) (e : ε') (hje : P.emitF j = .error e) :
    (∀ i, i < j → ∃ v, P.emitF i = .ok v) ∧ p.iters = j + 1 ∧ p.pc.inLoop = false ∧
    p.delivered.map (·.1) ++ p.out.buf = okVals P j ∧ p.errsDelivered.map (·.1) ++ p.exx.buf = [e] ∧
    p.callsE.map (·.1) = List.range (j + 1) := Golem.Props.C11.emit_lift_first_failure P hm cap hr j hj e hje

theorem emit_try_partition (P : Fn β' ε') (cap : Nat) {p : Src β' ε'}
    (hr : Golem.Go.Sources.Reachable P (initEmit P.mode cap) p) :
    p.delivered.map (·.1) ++ p.out.buf = okVals P p.iters ∧
    p.errsDelivered.map (·.1) ++ p.exx.buf = errVals P p.iters := Golem.Props.C11.emit_try_partition P cap hr

theorem unfold_lift_first_failure (P : Fn β' ε') (hm : P.mode = .lift) (cap : Nat) (seed : β') {p : Src β' ε'}
    (hr : Golem.Go.Sources.Reachable P (initUnfold P.mode cap seed) p) (k : Nat) (hk : k < p.iters) (e : ε')
    (hke : (P.unfoldF (seedAt P seed k)).2 = some e) :
    (∀ i, i < k → (P.unfoldF (seedAt P seed i)).2 = none) ∧ p.iters = k + 1 ∧ p.pc.inLoop = false ∧
    p.delivered.map (·.1) ++ p.out.buf = iterates P seed (k + 1) ∧ p.errsDelivered.map (·.1) ++ p.exx.buf = [e] ∧
    p.callsU.map (·.1) = iterates P seed (k + 1) := Golem.Props.C11.unfold_lift_first_failure P hm cap seed hr k hk e hke
end Sources

/-! non-vacuity: a concrete failing pattern -/
example : onCh 1 ((mapS .lift (fun (n : Nat) => if n % 2 = 0 then Except.ok n else Except.error s!"odd {n}")).run () [2, 4, 5, 6, 7]).ems
    = [Sum.inr "odd 5"] := by decide
example : onCh 1 ((mapS .try_ (fun (n : Nat) => if n % 2 = 0 then Except.ok n else Except.error n)).run () [2, 4, 5, 6, 7]).ems
    = [Sum.inr 5, Sum.inr 7] := by decide

end Golem.Props.C07
