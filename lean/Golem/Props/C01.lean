/-
C01 — a field lens reads and writes exactly its field and nothing else.

Property theorems only, about the definitions the oracle executes (`Model/Layout`, `Model/Hseq`,
`Model/Lens`).  Memory is a byte map `Nat → UInt8`; a value of type `A` is `size A` bytes.

Reading guide.  `FocusOn S l π` says: lens `l` addresses, relative to the container pointer, exactly
the bytes that the layout function assigns to the selector path `π` of `S`, and its focus type is the
type found there.  `derived_focus` shows that every lens made (by `NewLens`/`NewReflector`) from an
entry of `hseq.New[S]()` that was reached along value embeddings only has that property;
`forProduct_by_type/by_name` (and the `forSpectrum` twins) show that the N-ary derivations return
exactly those lenses, positionally.  The frame and law theorems are then stated for `FocusOn` lenses.

Modelled, not verified: gc layout / reflect (validated by the harness on every run), value
encodings, GC.  `ForProduct1..9`/`ForSpectrum1..9` are the list function `deriveN` at each arity:
`forProductN_gen` / `forSpectrumN_gen` at the end of this file prove that for the definitions regenerated
from optics/lens.go and optics/reflector.go on every run (all nine arities are also exercised
differentially on every shape).
-/
import Golem.Lemmas.Lens
import Golem.Lemmas.HseqBind
import Golem.Gen.HseqArity
namespace Golem.Props.C01
open Golem.Model

/-- Lens `l` is focused on the selector path `π` of the struct type `S`. -/
def FocusOn (S : GoType) (l : Lens) (π : List Nat) : Prop :=
  pathLookup S π = some (l.entry.rootOffs + l.entry.offset, l.A)

/-- Two selector paths through value-held structs, neither a prefix of the other, occupy disjoint
byte ranges (for every struct layout: padding, zero-size fields, nesting). -/
theorem fields_disjoint : ∀ (π₁ π₂ : List Nat) (S : GoType) (o₁ : Nat) (t₁ : GoType) (o₂ : Nat) (t₂ : GoType),
    pathLookup S π₁ = some (o₁, t₁) → pathLookup S π₂ = some (o₂, t₂) →
    ¬ π₁ <+: π₂ → ¬ π₂ <+: π₁ → o₁ + t₁.size ≤ o₂ ∨ o₂ + t₂.size ≤ o₁
  | [], π₂, _, _, _, _, _, _, _, h, _ => absurd (List.nil_prefix) h
  | _ :: _, [], _, _, _, _, _, _, _, _, h => absurd (List.nil_prefix) h
  | i :: ρ₁, j :: ρ₂, S, o₁, t₁, o₂, t₂, h1, h2, hp1, hp2 => by
    obtain ⟨fs, f, a1, b1, hfs, hf, ha, hr, rfl⟩ := pathLookup_cons_some.mp h1
    obtain ⟨fs', g, a2, b2, hfs', hg, ha2, hr2, rfl⟩ := pathLookup_cons_some.mp h2
    rw [hfs] at hfs'; cases hfs'
    have hb1 := pathLookup_bound ρ₁ f.type b1 t₁ hr
    have hb2 := pathLookup_bound ρ₂ g.type b2 t₂ hr2
    rcases Nat.lt_trichotomy i j with hij | hij | hij
    · have := fs.field_order 0 i j f a1 a2 hij hf ha ha2
      left; omega
    · subst hij
      rw [hf] at hg; cases hg
      rw [ha] at ha2; cases ha2
      have q1 : ¬ ρ₁ <+: ρ₂ := fun h => hp1 (by simpa [List.cons_prefix_cons] using h)
      have q2 : ¬ ρ₂ <+: ρ₁ := fun h => hp2 (by simpa [List.cons_prefix_cons] using h)
      have := fields_disjoint ρ₁ ρ₂ f.type b1 t₁ b2 t₂ hr hr2 q1 q2
      omega
    · have := fs.field_order 0 j i g a2 a1 hij hg ha2 ha
      right; omega

/-- Every lens made from an entry of the listing of `S` that was reached along value embeddings
only (`via = false`) is focused on that entry's selector path — for `NewLens` and `NewReflector`. -/
theorem derived_focus (S : GoType) (seq : List Entry) (h : unfold S [] 0 = .ok seq)
    (i : Nat) (e : Entry) (nd : Node) (he : seq[i]? = some e) (hn : (flatten S)[i]? = some nd)
    (hv : nd.via = false) (T A : GoType) (l : Lens)
    (hl : newLens T A e = .ok l ∨ newReflector T A e = .ok l) :
    FocusOn S l nd.path ∧ l.S = T ∧ l.A = A ∧ l.entry = e := by
  have ho := (unfold_offset_aux S seq h i e nd he hn hv).1
  have : e.field.type = A ∧ l = ⟨e, T, A⟩ := by
    rcases hl with hl | hl <;>
    · simp only [newLens, newReflector] at hl
      by_cases hk : T.kind = .struct
      · by_cases ht : e.field.type = A
        · simp [hk, ht] at hl; exact ⟨ht, hl.symm⟩
        · simp [hk, ht] at hl
      · simp [hk] at hl
  obtain ⟨ht, rfl⟩ := this
  exact ⟨by simpa [FocusOn, ht] using ho, rfl, rfl, rfl⟩
/-- `Get` returns exactly the bytes of the field: the `size A` bytes at the layout offset of the path. -/
theorem get_reads_field (S : GoType) (l : Lens) (π : List Nat) (hf : FocusOn S l π) (m : Mem) (s : Nat) :
    ∃ o, pathOffset S π = some o ∧ pathType S π = some l.A ∧ l.get m s = m.read (s + o) l.A.size := by
  have hf' : pathLookup S π = some (l.entry.rootOffs + l.entry.offset, l.A) := hf
  refine ⟨l.entry.rootOffs + l.entry.offset, by simp [pathOffset, hf'], by simp [pathType, hf'], ?_⟩
  simp only [Lens.get, Lens.addr]
  congr 1; omega

/-- `Put` returns the same pointer and changes no byte outside the focus range
`[s + off, s + off + size A)`; that range lies inside `[s, s + size S)`, so in particular no byte
outside the struct (nothing around it) changes. -/
theorem put_frame (S : GoType) (l : Lens) (π : List Nat) (hf : FocusOn S l π)
    (m : Mem) (s : Nat) (a : List UInt8) (ha : a.length = l.A.size) :
    (l.put m s a).2 = s ∧
    (∃ o, pathOffset S π = some o ∧ o + l.A.size ≤ S.size ∧
      ∀ x, (x < s + o ∨ s + o + l.A.size ≤ x) → (l.put m s a).1 x = m x) ∧
    (∀ x, (x < s ∨ s + S.size ≤ x) → (l.put m s a).1 x = m x) := by
  have hf' : pathLookup S π = some (l.entry.rootOffs + l.entry.offset, l.A) := hf
  have hb := pathLookup_bound π S _ _ hf'
  have key : ∀ x, (x < s + (l.entry.rootOffs + l.entry.offset) ∨ s + (l.entry.rootOffs + l.entry.offset) + l.A.size ≤ x) →
      (l.put m s a).1 x = m x := by
    intro x hx
    simp only [Lens.put, Lens.addr]
    exact Mem.write_outside m _ a x (by omega)
  refine ⟨rfl, ⟨_, by simp [pathOffset, hf'], hb, key⟩, ?_⟩
  intro x hx
  exact key x (by omega)

/-- GetPut: writing back what was read changes nothing (memory and pointer). -/
theorem get_put (l : Lens) (m : Mem) (s : Nat) : l.put m s (l.get m s) = (m, s) := by
  simp [Lens.put, Lens.get, Mem.write_read_self]

/-- PutGet: reading after writing returns the written value. -/
theorem put_get (l : Lens) (m : Mem) (s : Nat) (a : List UInt8) (ha : a.length = l.A.size) :
    l.get (l.put m s a).1 s = a := by
  simp only [Lens.put, Lens.get, ← ha]
  exact Mem.read_write_same m _ a

/-- PutPut: the second write wins. -/
theorem put_put (l : Lens) (m : Mem) (s : Nat) (a b : List UInt8) (h : a.length = b.length) :
    l.put (l.put m s a).1 s b = l.put m s b := by
  simp [Lens.put, Mem.write_write m _ a b h]

/-- Every other field keeps its value: a lens focused on a path that is neither a prefix nor an
extension of the written one reads the same bytes before and after `Put`. -/
theorem other_field_unchanged (S : GoType) (l g : Lens) (π ρ : List Nat)
    (hl : FocusOn S l π) (hg : FocusOn S g ρ) (h1 : ¬ π <+: ρ) (h2 : ¬ ρ <+: π)
    (m : Mem) (s : Nat) (a : List UInt8) (ha : a.length = l.A.size) :
    g.get (l.put m s a).1 s = g.get m s := by
  have := fields_disjoint π ρ S _ _ _ _ hl hg h1 h2
  simp only [Lens.put, Lens.get, Lens.addr]
  exact Mem.read_write_disjoint m _ a _ _ (by omega)

/-- A Reflector given a pointer to its own container type behaves as the lens (same memory effect,
returns the very value it was given); `Gett` reads what `Get` reads. -/
theorem reflector_is_lens (l : Lens) (m : Mem) (s : Nat) (a : List UInt8) :
    l.putt m ⟨some (.ptr l.S), s⟩ a = .ok ((l.put m s a).1, ⟨some (.ptr l.S), s⟩) ∧
    l.gett m ⟨some (.ptr l.S), s⟩ = .ok (l.get m s) := by
  simp [Lens.putt, Lens.gett]

/-- `ForProductN[T, A₁…A_N]()` (by type) for a struct container `T`: succeeds with `ls` iff the i-th lens is `NewLens` of the
FIRST entry of the full listing whose type is `A_i` (positional pairing), for every N. -/
theorem forProduct_by_type (T : GoType) (hT : T.kind = .struct) (seq : List Entry)
    (hseq : unfold (if T.kind = .ptr then T.elem else T) [] 0 = .ok seq) (As : List GoType) (ls : List Lens) :
    forProduct T As [] = .ok ls ↔
      Pointwise (fun A l => ∃ e, seq.find? (fun e => decide (e.field.type = A)) = some e ∧ l = ⟨e, T, A⟩) As ls := by
  unfold forProduct
  rw [deriveN_by_type newLens (Or.inl rfl) T hT seq hseq As]
  exact by_type_aux T seq As ls
where
  by_type_aux (T : GoType) (seq : List Entry) : (As : List GoType) → (ls : List Lens) →
      ((match mapE (forType seq) As with
        | .error p => .error p
        | .ok es => .ok (List.zipWith (mkLens T) As es)) = Except.ok ls ↔
      Pointwise (fun A l => ∃ e, seq.find? (fun e => decide (e.field.type = A)) = some e ∧ l = ⟨e, T, A⟩) As ls)
    | [], ls => by
      simp [mapE]; constructor
      · rintro rfl; exact .nil
      · intro h; cases h; rfl
    | A :: As, ls => by
      have ih := by_type_aux T seq As
      simp only [mapE]
      rw [forType_find]
      cases hf : seq.find? (fun e => decide (e.field.type = A)) with
      | none => simp; intro h; cases h with | cons h1 _ => obtain ⟨e, he, _⟩ := h1; simp [hf] at he
      | some e =>
        simp only
        cases hm : mapE (forType seq) As with
        | error p =>
          simp; intro h; cases h with
          | cons _ h2 => have := (ih _).mpr h2; simp [hm] at this
        | ok es =>
          simp only [List.zipWith_cons_cons]
          have ih' := ih (List.zipWith (mkLens T) As es)
          simp only [hm, true_iff] at ih'
          constructor
          · intro h; simp at h; subst h
            exact .cons ⟨e, hf, rfl⟩ ih'
          · intro h; cases h with
            | cons h1 h2 =>
              obtain ⟨e', he', rfl⟩ := h1
              rw [hf] at he'; cases he'
              have := (ih _).mpr h2
              simp [hm] at this
              simp [mkLens, this]

/-- `ForProductN[T, A₁…A_N](attr…)` (by name, at least N names) for a struct container `T`: succeeds with `ls` iff the i-th lens
is `NewLens` of the FIRST entry whose `FieldKey()` is the i-th name and that entry's declared type is
`A_i` (positional pairing; names beyond the N-th are ignored), for every N ≥ 1. -/
theorem forProduct_by_name (T : GoType) (hT : T.kind = .struct) (seq : List Entry)
    (hseq : unfold (if T.kind = .ptr then T.elem else T) [] 0 = .ok seq) (As : List GoType) (attr : List String)
    (h1 : 1 ≤ As.length) (hlen : As.length ≤ attr.length) (ls : List Lens) :
    forProduct T As attr = .ok ls ↔
      Pointwise (fun (An : GoType × String) l =>
          ∃ e, seq.find? (fun e => e.fieldKey == An.2) = some e ∧ e.field.type = An.1 ∧ l = ⟨e, T, An.1⟩)
        (As.zip attr) ls := by
  unfold forProduct
  have hne : attr ≠ [] := by
    intro h; subst h; rw [List.length_nil] at hlen; omega
  rw [deriveN_by_name newLens (Or.inl rfl) T hT seq hseq As attr hne h1 hlen]
  exact by_name_aux T seq As attr hlen ls
where
  by_name_aux (T : GoType) (seq : List Entry) : (As : List GoType) → (attr : List String) → As.length ≤ attr.length →
      (ls : List Lens) →
      ((match mapE (forName seq) (attr.take As.length) with
        | .error p => .error p
        | .ok es => if typesMatch As es then .ok (List.zipWith (mkLens T) As es) else .error .error) = Except.ok ls ↔
      Pointwise (fun (An : GoType × String) l =>
          ∃ e, seq.find? (fun e => e.fieldKey == An.2) = some e ∧ e.field.type = An.1 ∧ l = ⟨e, T, An.1⟩)
        (As.zip attr) ls)
    | [], attr, _, ls => by
      simp [mapE, typesMatch]; constructor
      · rintro rfl; exact .nil
      · intro h; cases h; rfl
    | A :: As, [], h, _ => by simp at h
    | A :: As, n :: attr, hlen, ls => by
      have ih := by_name_aux T seq As attr (by simpa using hlen)
      simp only [List.length_cons, List.take_succ_cons, mapE, List.zip_cons_cons]
      rw [forName_find]
      cases hf : seq.find? (fun e => e.fieldKey == n) with
      | none => simp; intro h; cases h with | cons h1 _ => obtain ⟨e, he, _⟩ := h1; simp [hf] at he
      | some e =>
        simp only
        cases hm : mapE (forName seq) (attr.take As.length) with
        | error p =>
          simp; intro h; cases h with
          | cons _ h2 => have := (ih _).mpr h2; simp [hm] at this
        | ok es =>
          simp only [typesMatch, List.zip_cons_cons, List.all_cons, List.zipWith_cons_cons]
          by_cases hA : e.field.type = A
          · simp only [hA, decide_true, Bool.true_and]
            by_cases hall : ((As.zip es).all fun p => decide (p.snd.field.type = p.fst)) = true
            · have ih' := ih (List.zipWith (mkLens T) As es)
              simp only [hm, typesMatch, hall, if_true, true_iff] at ih'
              simp only [hall, if_true]
              constructor
              · intro h; simp at h; subst h
                exact .cons ⟨e, hf, hA, by simp [mkLens]⟩ ih'
              · intro h; cases h with
                | cons h1 h2 =>
                  obtain ⟨e', he', _, rfl⟩ := h1
                  rw [hf] at he'; cases he'
                  have := (ih _).mpr h2
                  simp [hm, typesMatch, hall] at this
                  simp [mkLens, this]
            · simp only [hall]
              simp; intro h; cases h with
              | cons _ h2 => have := (ih _).mpr h2; simp [hm, typesMatch, hall] at this
          · simp [hA]; intro h; cases h with
            | cons h1 _ => obtain ⟨e', he', ht, _⟩ := h1; rw [hf] at he'; cases he'; exact hA ht

/-- `ForSpectrumN` is the same wiring with `NewReflector` (same guard, same `lens` struct): the two
families derive the same optics for every request. -/
theorem forSpectrum_eq_forProduct : forSpectrum = forProduct := rfl

/-! ### Non-vacuity: the three-level struct with padding holes and trailing `struct{}` of Props/C03 -/

def exIn3 : GoType := .named "CIn3" (.struct (.cons "P" false "" (.prim .int8) (.cons "Q" false "" (.prim .int64)
  (.cons "R" false "" (.struct .nil) .nil))))
def exIn2 : GoType := .named "CIn2" (.struct (.cons "M" false "" (.prim .int16) (.cons "CIn3" true "" exIn3
  (.cons "N" false "" (.prim .int8) .nil))))
def exIn1 : GoType := .named "CIn1" (.struct (.cons "K" false "" (.prim .int8) (.cons "CIn2" true "" exIn2
  (.cons "L" false "" (.prim .string) .nil))))
def exC1 : GoType := .named "C1" (.struct (.cons "A" false "" (.prim .int8) (.cons "CIn1" true "" exIn1
  (.cons "B" false "" (.prim .int32) (.cons "Z" false "" (.struct .nil) .nil)))))

/-- by type: `ForProduct3[C1, int64, string, int16]()` → Q at [32,40), L at [56,72), M at [16,18). -/
example : (match forProduct exC1 [.prim .int64, .prim .string, .prim .int16] [] with
    | .ok ls => ls.map (fun l => (l.entry.field.name, l.window)) | .error _ => []) =
  [("Q", (32, 40)), ("L", (56, 72)), ("M", (16, 18))] := by decide

/-- by name: `ForSpectrum2[C1, int8, struct{}]("N", "R", "ignored")`. -/
example : (match forSpectrum exC1 [.prim .int8, .struct .nil] ["N", "R", "ignored"] with
    | .ok ls => ls.map (fun l => (l.entry.id, l.window)) | .error _ => []) =
  [(9, (48, 49)), (8, (40, 40))] := by decide

example : FocusOn exC1 ⟨⟨⟨"Q", false, "", .prim .int64⟩, 8, 24, .prim .int64, 7⟩, exC1, .prim .int64⟩ [1, 1, 1, 1] := by
  unfold FocusOn; decide

example : ¬ ([1, 1, 1, 1] : List Nat) <+: [1, 1, 2] ∧ ¬ ([1, 1, 2] : List Nat) <+: [1, 1, 1, 1] := by decide


/-! ### The arity-unrolled Go functions themselves (regenerated from optics/lens.go and reflector.go on every run)

`Golem.Gen.HseqArity.ForProductN` / `ForSpectrumN` are produced by go/xlate (family `hseqarity`) from the
current source; each equals `forProduct` / `forSpectrum` (the list model all theorems above and in C02 are
about) at its arity, for every container type, focus types and names. -/

section Generated
open Golem.Gen.HseqArity
set_option linter.unusedSimpArgs false

theorem forProduct1_gen (T A : GoType) (attr : List String) :
    (fun (p : Lens) => [p]) <$> ForProduct1 T A attr = forProduct T [A] attr := by
  simp only [ForProduct1, New1, FMap1, forProduct, deriveN_bind, newN_bind, List.map, mapE_cons_bind, mapE_nil_pure, fmapN,
    fmapFrom_cons_bind, fmapFrom_nil_pure, List.length, Nat.zero_add, attrNames_ge2, attrNames_one, map_eq_pure_bind, bind_assoc, pure_bind]
  split <;> simp only [attrNames_one, bind_assoc, pure_bind]

theorem forProduct2_gen (T A B : GoType) (attr : List String) :
    (fun (p : Lens × Lens) => [p.1, p.2]) <$> ForProduct2 T A B attr = forProduct T [A, B] attr := by
  simp only [ForProduct2, New2, FMap2, forProduct, deriveN_bind, newN_bind, List.map, mapE_cons_bind, mapE_nil_pure, fmapN,
    fmapFrom_cons_bind, fmapFrom_nil_pure, List.length, Nat.zero_add, attrNames_ge2, attrNames_one, map_eq_pure_bind, bind_assoc, pure_bind]
  split <;> simp only [attrNames_one, bind_assoc, pure_bind]

theorem forProduct3_gen (T A B C : GoType) (attr : List String) :
    (fun (p : Lens × Lens × Lens) => [p.1, p.2.1, p.2.2]) <$> ForProduct3 T A B C attr = forProduct T [A, B, C] attr := by
  simp only [ForProduct3, New3, FMap3, forProduct, deriveN_bind, newN_bind, List.map, mapE_cons_bind, mapE_nil_pure, fmapN,
    fmapFrom_cons_bind, fmapFrom_nil_pure, List.length, Nat.zero_add, attrNames_ge2, attrNames_one, map_eq_pure_bind, bind_assoc, pure_bind]
  split <;> simp only [attrNames_one, bind_assoc, pure_bind]

theorem forProduct4_gen (T A B C D : GoType) (attr : List String) :
    (fun (p : Lens × Lens × Lens × Lens) => [p.1, p.2.1, p.2.2.1, p.2.2.2]) <$> ForProduct4 T A B C D attr = forProduct T [A, B, C, D] attr := by
  simp only [ForProduct4, New4, FMap4, forProduct, deriveN_bind, newN_bind, List.map, mapE_cons_bind, mapE_nil_pure, fmapN,
    fmapFrom_cons_bind, fmapFrom_nil_pure, List.length, Nat.zero_add, attrNames_ge2, attrNames_one, map_eq_pure_bind, bind_assoc, pure_bind]
  split <;> simp only [attrNames_one, bind_assoc, pure_bind]

theorem forProduct5_gen (T A B C D E : GoType) (attr : List String) :
    (fun (p : Lens × Lens × Lens × Lens × Lens) => [p.1, p.2.1, p.2.2.1, p.2.2.2.1, p.2.2.2.2]) <$> ForProduct5 T A B C D E attr = forProduct T [A, B, C, D, E] attr := by
  simp only [ForProduct5, New5, FMap5, forProduct, deriveN_bind, newN_bind, List.map, mapE_cons_bind, mapE_nil_pure, fmapN,
    fmapFrom_cons_bind, fmapFrom_nil_pure, List.length, Nat.zero_add, attrNames_ge2, attrNames_one, map_eq_pure_bind, bind_assoc, pure_bind]
  split <;> simp only [attrNames_one, bind_assoc, pure_bind]

theorem forProduct6_gen (T A B C D E F : GoType) (attr : List String) :
    (fun (p : Lens × Lens × Lens × Lens × Lens × Lens) => [p.1, p.2.1, p.2.2.1, p.2.2.2.1, p.2.2.2.2.1, p.2.2.2.2.2]) <$> ForProduct6 T A B C D E F attr = forProduct T [A, B, C, D, E, F] attr := by
  simp only [ForProduct6, New6, FMap6, forProduct, deriveN_bind, newN_bind, List.map, mapE_cons_bind, mapE_nil_pure, fmapN,
    fmapFrom_cons_bind, fmapFrom_nil_pure, List.length, Nat.zero_add, attrNames_ge2, attrNames_one, map_eq_pure_bind, bind_assoc, pure_bind]
  split <;> simp only [attrNames_one, bind_assoc, pure_bind]

theorem forProduct7_gen (T A B C D E F G : GoType) (attr : List String) :
    (fun (p : Lens × Lens × Lens × Lens × Lens × Lens × Lens) => [p.1, p.2.1, p.2.2.1, p.2.2.2.1, p.2.2.2.2.1, p.2.2.2.2.2.1, p.2.2.2.2.2.2]) <$> ForProduct7 T A B C D E F G attr = forProduct T [A, B, C, D, E, F, G] attr := by
  simp only [ForProduct7, New7, FMap7, forProduct, deriveN_bind, newN_bind, List.map, mapE_cons_bind, mapE_nil_pure, fmapN,
    fmapFrom_cons_bind, fmapFrom_nil_pure, List.length, Nat.zero_add, attrNames_ge2, attrNames_one, map_eq_pure_bind, bind_assoc, pure_bind]
  split <;> simp only [attrNames_one, bind_assoc, pure_bind]

theorem forProduct8_gen (T A B C D E F G H : GoType) (attr : List String) :
    (fun (p : Lens × Lens × Lens × Lens × Lens × Lens × Lens × Lens) => [p.1, p.2.1, p.2.2.1, p.2.2.2.1, p.2.2.2.2.1, p.2.2.2.2.2.1, p.2.2.2.2.2.2.1, p.2.2.2.2.2.2.2]) <$> ForProduct8 T A B C D E F G H attr = forProduct T [A, B, C, D, E, F, G, H] attr := by
  simp only [ForProduct8, New8, FMap8, forProduct, deriveN_bind, newN_bind, List.map, mapE_cons_bind, mapE_nil_pure, fmapN,
    fmapFrom_cons_bind, fmapFrom_nil_pure, List.length, Nat.zero_add, attrNames_ge2, attrNames_one, map_eq_pure_bind, bind_assoc, pure_bind]
  split <;> simp only [attrNames_one, bind_assoc, pure_bind]

theorem forProduct9_gen (T A B C D E F G H I : GoType) (attr : List String) :
    (fun (p : Lens × Lens × Lens × Lens × Lens × Lens × Lens × Lens × Lens) => [p.1, p.2.1, p.2.2.1, p.2.2.2.1, p.2.2.2.2.1, p.2.2.2.2.2.1, p.2.2.2.2.2.2.1, p.2.2.2.2.2.2.2.1, p.2.2.2.2.2.2.2.2]) <$> ForProduct9 T A B C D E F G H I attr = forProduct T [A, B, C, D, E, F, G, H, I] attr := by
  simp only [ForProduct9, New9, FMap9, forProduct, deriveN_bind, newN_bind, List.map, mapE_cons_bind, mapE_nil_pure, fmapN,
    fmapFrom_cons_bind, fmapFrom_nil_pure, List.length, Nat.zero_add, attrNames_ge2, attrNames_one, map_eq_pure_bind, bind_assoc, pure_bind]
  split <;> simp only [attrNames_one, bind_assoc, pure_bind]

theorem forSpectrum1_gen (T A : GoType) (attr : List String) :
    (fun (p : Lens) => [p]) <$> ForSpectrum1 T A attr = forSpectrum T [A] attr := by
  simp only [ForSpectrum1, New1, FMap1, forSpectrum, deriveN_bind, newN_bind, List.map, mapE_cons_bind, mapE_nil_pure, fmapN,
    fmapFrom_cons_bind, fmapFrom_nil_pure, List.length, Nat.zero_add, attrNames_ge2, attrNames_one, map_eq_pure_bind, bind_assoc, pure_bind]
  split <;> simp only [attrNames_one, bind_assoc, pure_bind]

theorem forSpectrum2_gen (T A B : GoType) (attr : List String) :
    (fun (p : Lens × Lens) => [p.1, p.2]) <$> ForSpectrum2 T A B attr = forSpectrum T [A, B] attr := by
  simp only [ForSpectrum2, New2, FMap2, forSpectrum, deriveN_bind, newN_bind, List.map, mapE_cons_bind, mapE_nil_pure, fmapN,
    fmapFrom_cons_bind, fmapFrom_nil_pure, List.length, Nat.zero_add, attrNames_ge2, attrNames_one, map_eq_pure_bind, bind_assoc, pure_bind]
  split <;> simp only [attrNames_one, bind_assoc, pure_bind]

theorem forSpectrum3_gen (T A B C : GoType) (attr : List String) :
    (fun (p : Lens × Lens × Lens) => [p.1, p.2.1, p.2.2]) <$> ForSpectrum3 T A B C attr = forSpectrum T [A, B, C] attr := by
  simp only [ForSpectrum3, New3, FMap3, forSpectrum, deriveN_bind, newN_bind, List.map, mapE_cons_bind, mapE_nil_pure, fmapN,
    fmapFrom_cons_bind, fmapFrom_nil_pure, List.length, Nat.zero_add, attrNames_ge2, attrNames_one, map_eq_pure_bind, bind_assoc, pure_bind]
  split <;> simp only [attrNames_one, bind_assoc, pure_bind]

theorem forSpectrum4_gen (T A B C D : GoType) (attr : List String) :
    (fun (p : Lens × Lens × Lens × Lens) => [p.1, p.2.1, p.2.2.1, p.2.2.2]) <$> ForSpectrum4 T A B C D attr = forSpectrum T [A, B, C, D] attr := by
  simp only [ForSpectrum4, New4, FMap4, forSpectrum, deriveN_bind, newN_bind, List.map, mapE_cons_bind, mapE_nil_pure, fmapN,
    fmapFrom_cons_bind, fmapFrom_nil_pure, List.length, Nat.zero_add, attrNames_ge2, attrNames_one, map_eq_pure_bind, bind_assoc, pure_bind]
  split <;> simp only [attrNames_one, bind_assoc, pure_bind]

theorem forSpectrum5_gen (T A B C D E : GoType) (attr : List String) :
    (fun (p : Lens × Lens × Lens × Lens × Lens) => [p.1, p.2.1, p.2.2.1, p.2.2.2.1, p.2.2.2.2]) <$> ForSpectrum5 T A B C D E attr = forSpectrum T [A, B, C, D, E] attr := by
  simp only [ForSpectrum5, New5, FMap5, forSpectrum, deriveN_bind, newN_bind, List.map, mapE_cons_bind, mapE_nil_pure, fmapN,
    fmapFrom_cons_bind, fmapFrom_nil_pure, List.length, Nat.zero_add, attrNames_ge2, attrNames_one, map_eq_pure_bind, bind_assoc, pure_bind]
  split <;> simp only [attrNames_one, bind_assoc, pure_bind]

theorem forSpectrum6_gen (T A B C D E F : GoType) (attr : List String) :
    (fun (p : Lens × Lens × Lens × Lens × Lens × Lens) => [p.1, p.2.1, p.2.2.1, p.2.2.2.1, p.2.2.2.2.1, p.2.2.2.2.2]) <$> ForSpectrum6 T A B C D E F attr = forSpectrum T [A, B, C, D, E, F] attr := by
  simp only [ForSpectrum6, New6, FMap6, forSpectrum, deriveN_bind, newN_bind, List.map, mapE_cons_bind, mapE_nil_pure, fmapN,
    fmapFrom_cons_bind, fmapFrom_nil_pure, List.length, Nat.zero_add, attrNames_ge2, attrNames_one, map_eq_pure_bind, bind_assoc, pure_bind]
  split <;> simp only [attrNames_one, bind_assoc, pure_bind]

theorem forSpectrum7_gen (T A B C D E F G : GoType) (attr : List String) :
    (fun (p : Lens × Lens × Lens × Lens × Lens × Lens × Lens) => [p.1, p.2.1, p.2.2.1, p.2.2.2.1, p.2.2.2.2.1, p.2.2.2.2.2.1, p.2.2.2.2.2.2]) <$> ForSpectrum7 T A B C D E F G attr = forSpectrum T [A, B, C, D, E, F, G] attr := by
  simp only [ForSpectrum7, New7, FMap7, forSpectrum, deriveN_bind, newN_bind, List.map, mapE_cons_bind, mapE_nil_pure, fmapN,
    fmapFrom_cons_bind, fmapFrom_nil_pure, List.length, Nat.zero_add, attrNames_ge2, attrNames_one, map_eq_pure_bind, bind_assoc, pure_bind]
  split <;> simp only [attrNames_one, bind_assoc, pure_bind]

theorem forSpectrum8_gen (T A B C D E F G H : GoType) (attr : List String) :
    (fun (p : Lens × Lens × Lens × Lens × Lens × Lens × Lens × Lens) => [p.1, p.2.1, p.2.2.1, p.2.2.2.1, p.2.2.2.2.1, p.2.2.2.2.2.1, p.2.2.2.2.2.2.1, p.2.2.2.2.2.2.2]) <$> ForSpectrum8 T A B C D E F G H attr = forSpectrum T [A, B, C, D, E, F, G, H] attr := by
  simp only [ForSpectrum8, New8, FMap8, forSpectrum, deriveN_bind, newN_bind, List.map, mapE_cons_bind, mapE_nil_pure, fmapN,
    fmapFrom_cons_bind, fmapFrom_nil_pure, List.length, Nat.zero_add, attrNames_ge2, attrNames_one, map_eq_pure_bind, bind_assoc, pure_bind]
  split <;> simp only [attrNames_one, bind_assoc, pure_bind]

theorem forSpectrum9_gen (T A B C D E F G H I : GoType) (attr : List String) :
    (fun (p : Lens × Lens × Lens × Lens × Lens × Lens × Lens × Lens × Lens) => [p.1, p.2.1, p.2.2.1, p.2.2.2.1, p.2.2.2.2.1, p.2.2.2.2.2.1, p.2.2.2.2.2.2.1, p.2.2.2.2.2.2.2.1, p.2.2.2.2.2.2.2.2]) <$> ForSpectrum9 T A B C D E F G H I attr = forSpectrum T [A, B, C, D, E, F, G, H, I] attr := by
  simp only [ForSpectrum9, New9, FMap9, forSpectrum, deriveN_bind, newN_bind, List.map, mapE_cons_bind, mapE_nil_pure, fmapN,
    fmapFrom_cons_bind, fmapFrom_nil_pure, List.length, Nat.zero_add, attrNames_ge2, attrNames_one, map_eq_pure_bind, bind_assoc, pure_bind]
  split <;> simp only [attrNames_one, bind_assoc, pure_bind]

end Generated

end Golem.Props.C01
