/-
C07, translation tie — `catch`/`errch` of pipe/function.go and the loops of `Map`/`FMap` as REGENERATED from the
source on this run: fail-fast and try-and-continue statements of Props/C07 for the regenerated stage on the
regenerated pool.
-/
import Golem.Props.C07
import Golem.Gen.PipeText
import Golem.Model.GoText
import Golem.Props.Stage.PipeCatch
import Golem.Props.Stage.PipeMap
import Golem.Props.Stage.PipeFMap
import Golem.Props.Stage.PipeSources
namespace Golem.Props.C07
open Golem.Go Golem.Go.Stage Golem.Go.Pool Golem.Model Golem.Model.DSL Golem.Lemmas Golem.Lemmas.StageErr Golem.Props.Stage

variable {α β ε : Type}

/-- Lift, regenerated: exactly the images before the first failure, that error once -/
theorem lift_first_failure_gen (f : α → β × Option ε) (inCap : Nat) {p : Pool Unit α (β ⊕ ε)}
    (hr : Reachable (mkStage (Gen.Pipe.Map.body f (PipeCatch.catchOf .lift)) Gen.Pipe.Map.final)
            (Gen.Pipe.Map.cfg.pool Gen.Pipe.Map.init (fun _ => inCap) 0 0 (PipeCatch.errchOf .lift) false) p)
    (hc : p.cancelled = false) (hx : Ctl.isExited (p.ws 0).ctl = true) (hcl : (p.ins 0).closed = true) :
    p.delivered 0 ++ (p.outs 0).buf = (((p.sent 0).takeWhile (isOk (toExcept f))).filterMap (okVal (toExcept f))).map Sum.inl ∧
    p.delivered 1 ++ (p.outs 1).buf = ((((p.sent 0).dropWhile (isOk (toExcept f))).head?.bind (errVal (toExcept f))).toList.map Sum.inr) := by
  rw [PipeMap.stage_gen, PipeMap.cfg_gen, Cfg.pool_one _ rfl] at hr
  exact lift_first_failure (toExcept f) inCap _ hr hc hx hcl

/-- Try, regenerated: one error per failing element and no output for it, every other element its output -/
theorem try_partition_gen (f : α → β × Option ε) (inCap : Nat) {p : Pool Unit α (β ⊕ ε)}
    (hr : Reachable (mkStage (Gen.Pipe.Map.body f (PipeCatch.catchOf .try_)) Gen.Pipe.Map.final)
            (Gen.Pipe.Map.cfg.pool Gen.Pipe.Map.init (fun _ => inCap) 0 0 (PipeCatch.errchOf .try_) false) p)
    (hc : p.cancelled = false) (hx : Ctl.isExited (p.ws 0).ctl = true) (hcl : (p.ins 0).closed = true) :
    p.delivered 0 ++ (p.outs 0).buf = ((p.sent 0).filterMap (okVal (toExcept f))).map Sum.inl ∧
    p.delivered 1 ++ (p.outs 1).buf = ((p.sent 0).filterMap (errVal (toExcept f))).map Sum.inr := by
  rw [PipeMap.stage_gen, PipeMap.cfg_gen, Cfg.pool_one _ rfl] at hr
  exact try_partition (toExcept f) inCap _ hr hc hx hcl

theorem tryF_partition_gen (g : α → List β × Option ε) (inCap : Nat) {p : Pool Unit α (β ⊕ ε)}
    (hr : Reachable (mkStage (Gen.Pipe.FMap.body g (PipeCatch.catchOfF .try_)) Gen.Pipe.FMap.final)
            (Gen.Pipe.FMap.cfg.pool Gen.Pipe.FMap.init (fun _ => inCap) 0 0 (PipeCatch.errchOfF .try_) false) p)
    (hc : p.cancelled = false) (hx : Ctl.isExited (p.ws 0).ctl = true) (hcl : (p.ins 0).closed = true) :
    p.delivered 0 ++ (p.outs 0).buf = ((p.sent 0).flatMap fun a => (g a).1).map Sum.inl ∧
    p.delivered 1 ++ (p.outs 1).buf = ((p.sent 0).filterMap fun a => (g a).2).map Sum.inr := by
  rw [PipeFMap.stage_gen, PipeFMap.cfg_gen, Cfg.pool_one _ rfl] at hr
  exact tryF_partition g inCap _ hr hc hx hcl

/-- Emit / Unfold as regenerated: a failing call performs exactly the `catch` of its error mode (plain send and stop
for Lift, select-send and continue for Try) and no send on `out`; a successful Emit call exactly one send on `out` -/
theorem emit_error_iter_gen (m : ErrMode) (freq : Nat) (f : Nat → α × Option ε) (i : Nat) (e : ε) (h : (f i).2 = some e) :
    (DSLT.emitIter m freq f i) = ([.sleep freq, DSLT.catchAct m e], catchAfter m) := by
  simp [DSLT.emitIter, h]

theorem emit_ok_iter_gen (m : ErrMode) (freq : Nat) (f : Nat → α × Option ε) (i : Nat) (h : (f i).2 = none) :
    (DSLT.emitIter m freq f i) = ([.sleep freq, .send 0 (.inl (f i).1) .sel], .cont) := by
  simp [DSLT.emitIter, h]

/-- `StdErr` (the standard reader of the error channel: ranges over `exx` until it is closed, logging every non-nil
error): line for line the text the lock-step driver's always-ready drain was written against — a syntactic tie -/
theorem stdErr_text : Gen.PipeText.StdErr_text = GoText.StdErr_text := rfl

end Golem.Props.C07
