/-
C14 — iterator combinators over `seq.Seq` have exactly list semantics, at any nesting.

Property theorems only (helper lemmas: `Golem.Lemmas.Iter`, model: `Golem.Model.Iter`, a
statement-by-statement mirror of /repo/trait/seq/seq.go whose correspondence with the real code is
checked on every run by `checks/C14.py`).

Scope.  Go iterators are mutable and shared by reference (`DropWhile` returns its advanced
argument, `Plus`/`Join` keep references).  The property is about *draining an expression that is
built once, every sub-expression being handed to exactly one combinator* (linear use); the model's
state is therefore the tree of iterator objects and `build` uses each sub-tree once.  Join
functions return a fresh expression per element.  User predicates / mappings / join functions are
arbitrary total pure functions (universally quantified below); the `ForEach` callback is an
arbitrary stateful function.

Reading guide.  `Repr c st l`: the positioned iterator `st` yields exactly the non-empty list `l`
(current element first), every `Next()` on the way returning normally for any fuel ≥ `c`.
`ReprO c s l`: the same for a `Seq` value that may be nil — nil iff `l = []`.
-/
import Golem.Lemmas.Iter
set_option linter.unusedSimpArgs false

namespace Golem.Props.C14
open Golem.Model.Iter Golem.Model.Iter.St

/-! ### `Next()`, method by method: list denoted before vs. after -/

/-- Unfolding of the representation relation = the per-`Next()` contract: `Value()` is the head;
`Next()` returns `true` and leaves an iterator for the tail iff the tail is non-empty. -/
theorem next_contract {α : Type} {c : Nat} {st : St α} {x : α} {xs : List α} :
    Repr c st (x :: xs) ↔ value st = .ok x ∧
      ∀ n, c ≤ n → ∃ st', next n st = .ok (st', !xs.isEmpty) ∧ (xs ≠ [] → Repr c st' xs) := Iff.rfl

theorem element_next {α : Type} (v : α) : Repr 1 (From v) [v] := repr_element (Nat.le_refl _) v

theorem seqOf_next {α : Type} (src : List α) (off : Nat) (h : off < src.length) :
    Repr 1 (.seqOf src off) (src.drop off) :=
  repr_seqOf (Nat.le_refl _) src (src.length - off - 1) off (by omega)

/-- takeWhile.Next incl. the cleared predicate: the state yields its current element and then the
longest prefix of the rest satisfying `p`. -/
theorem takeWhile_next {α : Type} {c : Nat} (p : α → Bool) {inner : St α} {x : α} {xs : List α}
    (h : Repr c inner (x :: xs)) : Repr (c + 1) (.takeWhile inner (some p)) (x :: xs.takeWhile p) :=
  repr_takeWhile p xs inner x h

theorem filter_next {α : Type} {c : Nat} (p : α → Bool) {inner : St α} {x : α} {xs : List α}
    (h : Repr c inner (x :: xs)) (hc : xs.length < c) :
    Repr (c + 1) (.filter inner (some p)) (x :: xs.filter p) :=
  repr_filter p xs.length xs inner x (Nat.le_refl _) h hc

theorem fmap_next {α β : Type} {c : Nat} (f : α → β) {inner : St α} {x : α} {xs : List α}
    (h : Repr c inner (x :: xs)) : Repr (c + 1) (.fmap inner f) (f x :: xs.map f) :=
  repr_fmap f xs inner x h

/-- plus.Next: the swap to `rhs` (and its clearing) happens exactly when the left part is exhausted. -/
theorem plus_next {α : Type} {c : Nat} {cur rhs : St α} {x : α} {xs ys : List α}
    (h : Repr c cur (x :: xs)) (hr : ReprO c rhs ys) : Repr (c + 1) (.plus cur rhs) (x :: (xs ++ ys)) := by
  cases ys with
  | nil => simp [ReprO] at hr; subst hr; simpa using repr_plus_nil xs cur x h
  | cons y ys => exact repr_plus (show Repr c rhs (y :: ys) from hr) xs cur x h

/-- join.Next: remaining elements of the current inner sequence, then the flat-map of the join
function over the *remaining* outer elements; nil results are skipped. -/
theorem join_next {α β : Type} {c : Nat} (rhs : α → St β) (g : α → List β) {lhs : St α} {cur : St β}
    {a : α} {as : List α} {y : β} {ys : List β}
    (hl : Repr c lhs (a :: as)) (hc : as.length < c) (hk : RhsOk c rhs g as) (hcur : Repr c cur (y :: ys)) :
    Repr (c + 1) (.join cur lhs rhs) (y :: (ys ++ as.flatMap g)) :=
  repr_join rhs g as.length as lhs a (Nat.le_refl _) hl hc hk ys cur y hcur

/-! ### Constructor functions: `toList (comb s …) = listfn (toList s) …` -/

theorem FromSlice_spec {α : Type} (xs : List α) : ReprO 1 (FromSlice xs) xs := reprO_FromSlice (Nat.le_refl _) xs

theorem TakeWhile_spec {α : Type} {c : Nat} (p : α → Bool) {s : St α} {l : List α} (h : ReprO c s l) :
    ∃ s', TakeWhile s p = .ok s' ∧ ReprO (c + 1) s' (l.takeWhile p) := reprO_TakeWhile p h

theorem DropWhile_spec {α : Type} {c C : Nat} (p : α → Bool) {s : St α} {l : List α} (h : ReprO c s l)
    (hC : c ≤ C) (hl : l.length ≤ C) : ∃ s', DropWhile C s p = .ok s' ∧ ReprO c s' (l.dropWhile p) :=
  reprO_DropWhile hC p h hl

theorem Filter_spec {α : Type} {c C : Nat} (p : α → Bool) {s : St α} {l : List α} (h : ReprO c s l)
    (hC : c ≤ C) (hl : l.length ≤ c) : ∃ s', Filter C s p = .ok s' ∧ ReprO (c + 1) s' (l.filter p) :=
  reprO_Filter hC p h hl

theorem Map_spec {α β : Type} {c : Nat} (f : α → β) {s : St α} {l : List α} (h : ReprO c s l) :
    ReprO (c + 1) (Map s f) (l.map f) := reprO_Map f h

theorem Plus_spec {α : Type} {c : Nat} {l r : St α} {xs ys : List α} (hl : ReprO c l xs) (hr : ReprO c r ys) :
    ReprO (c + 1) (Plus l r) (xs ++ ys) := reprO_Plus hl hr

theorem Join_spec {α β : Type} {c C : Nat} (rhs : α → St β) (g : α → List β) {lhs : St α} {l : List α}
    (h : ReprO c lhs l) (hC : c ≤ C) (hl : l.length ≤ c) (hk : RhsOk c rhs g l) :
    ∃ s', Join C lhs rhs = .ok s' ∧ ReprO (c + 1) s' (l.flatMap g) := reprO_Join hC rhs g h hl hk

/-! ### Consumers -/

/-- The documented loop collects exactly the denoted list (and `nil` drains to `[]`). -/
theorem drain_repr {α : Type} {c : Nat} {s : St α} {l : List α} (h : ReprO c s l) (hl : l.length < c) :
    drain c s = .ok l := drain_spec h hl

theorem ForEach_repr {α σ ε : Type} {c : Nat} {s : St α} {l : List α} (f : σ → α → σ × Option ε) (acc : σ)
    (h : ReprO c s l) (hl : l.length < c) : ForEach c s f acc = .ok (visit f acc l) := forEach_spec f acc h hl

/-! ### Expressions of unbounded depth -/

/-- The fuel `cost e` exceeds the length of the result (used for the consumer loops). -/
theorem length_lt_cost {α : Type} (e : Expr α) : (denote e).length < cost e := by
  induction e with
  | «from» v => simp [denote, cost]
  | fromSlice xs => simp [denote, cost]
  | takeWhile e f ih => have := (List.takeWhile_sublist (l := denote e) f).length_le; simp [denote, cost]; omega
  | dropWhile e f ih => have := (List.dropWhile_sublist (l := denote e) f).length_le; simp [denote, cost]; omega
  | filter e f ih => have := List.length_filter_le f (denote e); simp [denote, cost]; omega
  | map e f ih => simp [denote, cost]; omega
  | plus l r ihl ihr => simp [denote, cost]; omega
  | join e k ihe ihk =>
    have := length_flatMap_le (fun a => cost (k a)) (fun a => denote (k a)) (denote e)
      (fun a _ => Nat.le_of_lt (ihk a))
    simp only [denote, cost]; omega

/-- Core theorem: building `e` with the real constructor logic (any fuel ≥ `cost e`) succeeds —
no panic, no fuel exhaustion — and the resulting iterator denotes `denote e`; it is nil iff
`denote e` is empty. -/
theorem build_repr {α : Type} (e : Expr α) :
    ∀ c, cost e ≤ c → ∃ s, build c e = .ok s ∧ ReprO (cost e) s (denote e) := by
  induction e with
  | «from» v =>
    intro c _
    exact ⟨From v, rfl, by simpa [denote, cost, ReprO, From] using repr_element (c := 2) (by omega) v⟩
  | fromSlice xs =>
    intro c _
    exact ⟨FromSlice xs, rfl, by simpa [denote, cost] using reprO_FromSlice (c := xs.length + 2) (by omega) xs⟩
  | takeWhile e f ih =>
    intro c hc
    obtain ⟨s, hb, hr⟩ := ih c (by simp [cost] at hc; omega)
    obtain ⟨s', h1, h2⟩ := reprO_TakeWhile f hr
    exact ⟨s', by simp [build, hb, h1], by simpa [denote, cost] using h2⟩
  | dropWhile e f ih =>
    intro c hc
    simp only [cost] at hc
    obtain ⟨s, hb, hr⟩ := ih c (by omega)
    have hlen := length_lt_cost e
    obtain ⟨s', h1, h2⟩ := reprO_DropWhile (C := c) (by omega) f hr (by omega)
    exact ⟨s', by simp [build, hb, h1], by simpa [denote, cost] using h2.mono (Nat.le_succ _)⟩
  | filter e f ih =>
    intro c hc
    simp only [cost] at hc
    obtain ⟨s, hb, hr⟩ := ih c (by omega)
    have hlen := length_lt_cost e
    obtain ⟨s', h1, h2⟩ := reprO_Filter (C := c) (by omega) f hr (by omega)
    exact ⟨s', by simp [build, hb, h1], by simpa [denote, cost] using h2⟩
  | map e f ih =>
    intro c hc
    simp only [cost] at hc
    obtain ⟨s, hb, hr⟩ := ih c (by omega)
    exact ⟨Map s f, by simp [build, hb], by simpa [denote, cost] using reprO_Map f hr⟩
  | plus l r ihl ihr =>
    intro c hc
    simp only [cost] at hc
    obtain ⟨sl, hbl, hrl⟩ := ihl c (by omega)
    obtain ⟨sr, hbr, hrr⟩ := ihr c (by omega)
    have := reprO_Plus (c := cost l + cost r) (hrl.mono (by omega)) (hrr.mono (by omega))
    exact ⟨Plus sl sr, by simp [build, hbl, hbr], by simpa [denote, cost] using this⟩
  | join e k ihe ihk =>
    intro c hc
    simp only [cost] at hc
    obtain ⟨s, hb, hr⟩ := ihe c (by omega)
    have hlen := length_lt_cost e
    let d := cost e + sumOver (fun a => cost (k a)) (denote e)
    have hk : RhsOk d (fun a => toFailed (build c (k a))) (fun a => denote (k a)) (denote e) := by
      intro b hbm
      have hle : cost (k b) ≤ sumOver (fun a => cost (k a)) (denote e) :=
        sumOver_mem (fun a => cost (k a)) hbm
      obtain ⟨sb, h1, h2⟩ := ihk b c (by omega)
      exact ⟨sb, call_toFailed (fun a => build c (k a)) b h1 h2, h2.mono (by simp only [d]; omega)⟩
    obtain ⟨s', h1, h2⟩ := reprO_Join (c := d) (C := c) (by simp only [d]; omega) _ _
      (hr.mono (by simp only [d]; omega)) (by simp only [d]; omega) hk
    exact ⟨s', by simp [build, hb, h1], by simpa [denote, cost, d] using h2⟩

/-- **C14, main theorem.**  For every expression tree (any depth, any element types, any
predicates, mappings and join functions): building it with the combinators and draining it with
the documented loop `for has := seq != nil; has; has = seq.Next() { … seq.Value() … }` returns
normally and yields exactly the list computed by take-while / drop-while / filter / map /
concatenation / flat-map. -/
theorem eval_eq_denote {α : Type} (e : Expr α) : eval e = .ok (denote e) := by
  obtain ⟨s, hb, hr⟩ := build_repr e (cost e) (Nat.le_refl _)
  simp [eval, hb, drain_spec hr (length_lt_cost e)]

/-- `ForEach` visits the denoted list in order, threading the callback's state, and stops with
the first error returned (`visit` is that specification on lists). -/
theorem forEach_stops_at_first_error {α σ ε : Type} (e : Expr α) (f : σ → α → σ × Option ε) (acc : σ) :
    evalForEach e f acc = .ok (visit f acc (denote e)) := by
  obtain ⟨s, hb, hr⟩ := build_repr e (cost e) (Nat.le_refl _)
  simp [evalForEach, hb, forEach_spec f acc hr (length_lt_cost e)]

/-- `visit` spelled out for a logging callback with a pure error function: the visited elements
are the longest error-free prefix followed by the first failing element, whose error is returned;
nothing after it is visited. -/
theorem visit_log {α ε : Type} (err : α → Option ε) (l : List α) (log : List α) :
    visit (fun (lg : List α) a => (lg ++ [a], err a)) log l =
      match l.dropWhile (fun a => (err a).isNone) with
      | [] => (log ++ l, none)
      | a :: _ => (log ++ l.takeWhile (fun a => (err a).isNone) ++ [a], err a) := by
  induction l generalizing log with
  | nil => simp [visit]
  | cons x xs ih =>
    cases hx : err x with
    | none => simp [visit, hx, ih, List.dropWhile_cons, List.takeWhile_cons]
    | some e => simp [visit, hx, List.dropWhile_cons, List.takeWhile_cons]

/-- The fuel does not matter once it is large enough: any `c ≥ cost e` gives the same result. -/
theorem eval_fuel_irrelevant {α : Type} (e : Expr α) (c : Nat) (hc : cost e ≤ c) :
    (match build c e with | .error x => (.error x : Except Err (List α)) | .ok s => drain c s) = .ok (denote e) := by
  obtain ⟨s, hb, hr⟩ := build_repr e c hc
  have := length_lt_cost e
  simp [hb, drain_spec (hr.mono hc) (by omega)]

/-- Source slices: the only state holding a slice is `seqOf src off`; its `Next()` re-slices
(moves `off`) and keeps the backing array `src`. No other clause of `next` builds a `seqOf`. -/
theorem source_unchanged {α : Type} (n : Nat) (src : List α) (off : Nat) (st' : St α) (b : Bool)
    (h : next n (.seqOf src off) = .ok (st', b)) : ∃ off', st' = .seqOf src off' ∧ off ≤ off' := by
  cases n with
  | zero => simp [next] at h
  | succ n =>
    simp only [next] at h
    split at h
    · simp at h; exact ⟨off, h.1.symm, Nat.le_refl _⟩
    · split at h
      · simp at h
      · simp at h; exact ⟨off + 1, h.1.symm, Nat.le_succ _⟩

/-! ### Non-vacuity -/

/-- nested: Filter over Map over Join with a join function returning nil for some elements,
Plus after an exhausted TakeWhile. -/
def ex1 : Expr Int :=
  .plus
    (.takeWhile (.fromSlice [1, 2, 5, 1]) (· < 3))
    (.filter (.map (.join (.fromSlice [1, 2, 3, 4]) (fun x => .filter (.fromSlice [x, x + 1]) (· % 2 == 0))) (· * 10)) (· ≠ 20))

example : denote ex1 = [1, 2, 40, 40] := by decide
example : eval ex1 = .ok [1, 2, 40, 40] := eval_eq_denote ex1
example : Repr 1 (From (7 : Int)) [7] := element_next 7
example : (evalForEach ex1 (fun (lg : List Int) a => (lg ++ [a], if a = 40 then some "boom" else none)) []) =
    .ok ([1, 2, 40], some "boom") := by
  rw [forEach_stops_at_first_error]; rfl

/-! ### algebraic laws of the combinators, as observed through the documented consumption loop
(corollaries of `eval_eq_denote`: two expressions are interchangeable for every consumer) -/

/-- `Map` fuses: mapping twice is mapping the composition -/
theorem map_map_fuses {α β γ : Type} (e : Expr α) (f : α → β) (g : β → γ) :
    eval (.map (.map e f) g) = eval (.map e (g ∘ f)) := by
  simp [eval_eq_denote, denote, List.map_map]

/-- `Filter` fuses: filtering twice is filtering by the conjunction -/
theorem filter_filter_fuses {α : Type} (e : Expr α) (p q : α → Bool) :
    eval (.filter (.filter e p) q) = eval (.filter e (fun a => p a && q a)) := by
  simp [eval_eq_denote, denote, List.filter_filter, Bool.and_comm]

/-- `Plus` is associative and distributes under `Map`, `Filter` and `Join` -/
theorem plus_assoc {α : Type} (a b c : Expr α) :
    eval (.plus (.plus a b) c) = eval (.plus a (.plus b c)) := by
  simp [eval_eq_denote, denote, List.append_assoc]

theorem map_plus {α β : Type} (a b : Expr α) (f : α → β) :
    eval (.map (.plus a b) f) = eval (.plus (.map a f) (.map b f)) := by
  simp [eval_eq_denote, denote]

theorem filter_plus {α : Type} (a b : Expr α) (p : α → Bool) :
    eval (.filter (.plus a b) p) = eval (.plus (.filter a p) (.filter b p)) := by
  simp [eval_eq_denote, denote]

theorem join_plus {α β : Type} (a b : Expr α) (k : α → Expr β) :
    eval (.join (.plus a b) k) = eval (.plus (.join a k) (.join b k)) := by
  simp [eval_eq_denote, denote]

/-- the monad laws of `From` / `Join` -/
theorem join_from_left {α β : Type} (v : α) (k : α → Expr β) :
    eval (.join (.from v) k) = eval (k v) := by
  simp [eval_eq_denote, denote]

theorem join_from_right {α : Type} (e : Expr α) :
    eval (.join e (fun a => .from a)) = eval e := by
  simp [eval_eq_denote, denote]

theorem join_assoc {α β γ : Type} (e : Expr α) (k : α → Expr β) (h : β → Expr γ) :
    eval (.join (.join e k) h) = eval (.join e (fun a => .join (k a) h)) := by
  simp [eval_eq_denote, denote, List.flatMap_assoc]

/-- `Map` is `Join` with `From` -/
theorem map_as_join {α β : Type} (e : Expr α) (f : α → β) :
    eval (.map e f) = eval (.join e (fun a => .from (f a))) := by
  simp [eval_eq_denote, denote, List.map_eq_flatMap]

/-- `TakeWhile` followed by `DropWhile` of the same predicate gives back every element, in order -/
theorem takeWhile_plus_dropWhile {α : Type} (e : Expr α) (p : α → Bool) :
    eval (.plus (.takeWhile e p) (.dropWhile e p)) = eval e := by
  simp [eval_eq_denote, denote, List.takeWhile_append_dropWhile]

/-- `Filter` never lengthens, `TakeWhile` yields a prefix, `DropWhile` a suffix of what the operand yields -/
theorem shrinking_combinators {α : Type} (e : Expr α) (p : α → Bool) :
    ∃ l lf lt ld, eval e = .ok l ∧ eval (.filter e p) = .ok lf ∧ eval (.takeWhile e p) = .ok lt ∧
      eval (.dropWhile e p) = .ok ld ∧ lf.Sublist l ∧ lt <+: l ∧ ld <:+ l :=
  ⟨_, _, _, _, eval_eq_denote e, eval_eq_denote _, eval_eq_denote _, eval_eq_denote _,
    List.filter_sublist, List.takeWhile_prefix p, List.dropWhile_suffix p⟩

end Golem.Props.C14
