/-
C09 — fork stages process every element exactly once, like pipe up to order.

A fork stage is the worker pool `forkPool`: `par` goroutines run the SAME loop body as the
sequential stage (`Golem/Model/Stages.lean`: fork.Map/FMap/Filter/Partition/ForEach/Void share
`mapS`/`fmapS`/`filterS`/`partitionS`/`forEachS`/`voidS` with pipe), share input 0 and the outputs;
a closer goroutine closes the outputs after `wg.Wait()`. User-function calls may be gated by the
environment (`release` moves), so every completion order of in-flight calls is a schedule.
All theorems: every `par ≥ 1`, every capacity, every schedule.
Data-race freedom is not expressible in this model (see DESIGN §6 C09): partial.
-/
import Golem.Lemmas.PoolComplete
import Golem.Props.C06
namespace Golem.Props.C09
open Golem.Go Golem.Go.Stage Golem.Go.Pool Golem.Model Golem.Lemmas Golem.Lemmas.StageSpec

variable {σ α β ε : Type}

/-- every element taken from the input is held by exactly one worker: the workers' consumed lists
partition (as a multiset) what was taken — nothing is processed twice, nothing invented -/
theorem fork_each_once (st : Stage σ α β) (s0 : σ) (par inCap : Nat) (outCap : Nat → Nat) (closes : List Nat)
    (gated : Bool) (hnd : closes.Nodup) {p : Pool σ α β}
    (hr : Reachable st (forkPool s0 par inCap outCap closes gated) p) :
    ((p.taken 0).map (·.2)).Perm ((List.range par).flatMap fun i => (p.ws i).hist) := by
  have hI := inv_reachable st par (fun _ => 0) s0 _ outCap closes gated hnd hr
  have hn : p.nW = par := by have := reachable_nW hr; simpa [forkPool, Pool.init] using this
  have := hist_perm hI 0
  simpa [hn] using this

/-- …and once the workers have all returned (uncancelled, loop bodies that never return), that is
everything that was sent: each element exactly once -/
theorem fork_all_consumed (st : Stage σ α β) (hns : ∀ s a, (st.react s a).2.2 ≠ .stop)
    (s0 : σ) (par inCap : Nat) (outCap : Nat → Nat) (closes : List Nat)
    (gated : Bool) (hnd : closes.Nodup) (hpar : 1 ≤ par) {p : Pool σ α β}
    (hr : Reachable st (forkPool s0 par inCap outCap closes gated) p)
    (hc : p.cancelled = false) (hx : p.allExited = true) :
    (p.sent 0).Perm ((List.range par).flatMap fun i => (p.ws i).hist) := by
  have hI := inv_reachable st par (fun _ => 0) s0 _ outCap closes gated hnd hr
  have hn : p.nW = par := by have := reachable_nW hr; simpa [forkPool, Pool.init] using this
  have h0 := exited_eof hI hc hns 0 (allExited_worker hx 0 (by omega))
  have hf := hI.fifoIn 0
  simp only [h0.2, List.append_nil] at hf
  rw [← hf]
  exact fork_each_once st s0 par inCap outCap closes gated hnd hr

/-- `fork_perm`: for the per-element stages (no local state, loop never returns, no exit-path send —
Map/FMap in Try mode or with non-failing functions, Filter, Partition, Void), once all workers have
returned in an uncancelled run, delivered ++ buffered on every output is a permutation of what the
sequential stage delivers for the same input: nothing lost, duplicated or invented -/
theorem fork_perm (st : Stage Unit α β) (e : α → List (Em β))
    (he : ∀ a, (st.react () a).2.1 = e a) (hns : ∀ s a, (st.react s a).2.2 ≠ .stop) (hf : ∀ s, st.final s = [])
    (par inCap : Nat) (outCap : Nat → Nat) (closes : List Nat) (gated : Bool) (hnd : closes.Nodup) (hpar : 1 ≤ par)
    {p : Pool Unit α β} (hr : Reachable st (forkPool () par inCap outCap closes gated) p)
    (hc : p.cancelled = false) (hx : p.allExited = true) (k : Nat) :
    (p.delivered k ++ (p.outs k).buf).Perm (onCh k (st.run () (p.sent 0)).ems) := by
  have hI := inv_reachable st par (fun _ => 0) () _ outCap closes gated hnd hr
  have hn : p.nW = par := by have := reachable_nW hr; simpa [forkPool, Pool.init] using this
  have hrun : ∀ as, (st.run () as).ems = as.flatMap e := by
    intro as; rw [run_stateless st e he (fun a => hns () a)]
  refine (out_perm hI k).trans ?_
  have hw : ∀ i ∈ List.range p.nW,
      onCh k (p.ws i).out ++ (((p.ws i).fout.filter (·.1 == k)).map (·.2)) = (p.ws i).hist.flatMap fun a => onCh k (e a) := by
    intro i hi
    have hi' : i < p.nW := List.mem_range.mp hi
    obtain ⟨ho, hfo⟩ := exited_out_eq hI hc i (allExited_worker hx i hi')
    rw [ho, hfo, hf, hrun, onCh_flatMap]; simp
  rw [flatMap_congr' hw, hrun, onCh_flatMap, ← List.flatMap_assoc]
  apply List.Perm.flatMap_right
  rw [hn]
  exact (fork_all_consumed st hns () par inCap outCap closes gated hnd hpar hr hc hx).symm

/-- outputs are closed only after every worker has finished (`wg.Wait()` before `close`): hence
nothing is ever sent on a closed channel -/
theorem fork_close_after_workers (st : Stage σ α β) (s0 : σ) (par inCap : Nat) (outCap : Nat → Nat) (closes : List Nat)
    (gated : Bool) (hnd : closes.Nodup) {p : Pool σ α β}
    (hr : Reachable st (forkPool s0 par inCap outCap closes gated) p) :
    p.panicked = false ∧ ∀ k, (p.outs k).closed = true → p.allExited = true :=
  ⟨C06.pool_no_panic st par _ s0 _ outCap closes gated hnd hr,
   fun k hk => C06.pool_close_after_workers st par _ s0 _ outCap closes gated hnd hr k hk⟩

/-- the closure, cancellation and no-leak guarantees of C06 for fork stages -/
theorem fork_cancel_terminates (st : Stage σ α β) (s0 : σ) (par inCap : Nat) (outCap : Nat → Nat) (closes : List Nat)
    (hnd : closes.Nodup) {p : Pool σ α β}
    (hr : Reachable st (forkPool s0 par inCap outCap closes false) p)
    (hc : p.cancelled = true) (hcl : (p.ins 0).closed = true)
    (hq : procNext st p = []) (hb : ∀ i, i < par → ¬ blockedPlain p i) :
    p.allExited = true ∧ ∀ k ∈ closes, (p.outs k).closed = true :=
  C06.pool_cancel_terminates st par _ s0 _ outCap closes hnd hr hc (fun _ _ => hcl) hq hb

theorem fork_closes (st : Stage σ α β) (s0 : σ) (par inCap : Nat) (outCap : Nat → Nat) (closes : List Nat)
    (hnd : closes.Nodup) {p : Pool σ α β}
    (hr : Reachable st (forkPool s0 par inCap outCap closes false) p)
    (hcl : (p.ins 0).closed = true)
    (hq : procNext st p = []) (hd : ∀ k, ¬ canRecv st p k) (hb : ∀ i, i < par → ¬ blockedPlain p i) :
    p.allExited = true ∧ ∀ k ∈ closes, (p.outs k).closed = true :=
  C06.pool_closes st par _ s0 _ outCap closes hnd hr (fun _ _ => hcl) hq hd hb

/-! instances: fork.Map / fork.Filter deliver the multiset of images / of the matching elements -/

theorem fork_map_perm (f : α → Except ε β) (g : α → β) (hf : ∀ a, f a = .ok (g a))
    (par inCap : Nat) (outCap : Nat → Nat) (gated : Bool) (hpar : 1 ≤ par) {p : Pool Unit α (β ⊕ ε)}
    (hr : Reachable (mapS .try_ f) (forkPool () par inCap outCap [0, 1] gated) p)
    (hc : p.cancelled = false) (hx : p.allExited = true) :
    (p.delivered 0 ++ (p.outs 0).buf).Perm ((p.sent 0).map fun a => Sum.inl (g a)) := by
  have := fork_perm (mapS .try_ f) (fun a => [⟨0, .inl (g a), .sel⟩]) (by intro a; simp [mapS, hf])
    (by intro s a; simp [mapS, hf]) (by intro s; rfl) par inCap _ [0, 1] gated (by decide) hpar hr hc hx 0
  rwa [(map_out .try_ f g hf _).1] at this

theorem fork_filter_perm (f : α → Except ε Bool) (pr : α → Bool) (hf : ∀ a, f a = .ok (pr a))
    (par inCap : Nat) (outCap : Nat → Nat) (gated : Bool) (hpar : 1 ≤ par) {p : Pool Unit α α}
    (hr : Reachable (filterS f) (forkPool () par inCap outCap [0] gated) p)
    (hc : p.cancelled = false) (hx : p.allExited = true) :
    (p.delivered 0 ++ (p.outs 0).buf).Perm ((p.sent 0).filter pr) := by
  have := fork_perm (filterS f) (fun a => if pr a then [⟨0, a, .sel⟩] else [])
    (by intro a; simp only [filterS, hf]; cases pr a <;> rfl)
    (by intro s a; simp only [filterS, hf]; cases pr a <;> simp) (by intro s; rfl)
    par inCap _ [0] gated (by decide) hpar hr hc hx 0
  rwa [filter_out f pr hf] at this

end Golem.Props.C09
