/-
C18 — the skip list behaves as an ordered map under any operation history.

Property theorems only.  They are about `Golem.Model.Skiplist` (`init`, `put`, `get`, `remove`,
`printed`, `run`) — the very definitions the oracle driver `Golem.Driver.C18` executes against
/repo/internal/maplike/skiplist on every run — and they hold

* for every comparison `cmp : K → K → Ordering` with `[Std.TransCmp cmp]` (core Lean), i.e. with the
  two laws  `cmp a b = (cmp b a).swap`  and  `cmp a b ≠ GT → cmp b c ≠ GT → cmp a c ≠ GT`.
  Every total order satisfies them (so do total preorders: keys are identified when `cmp` says `EQ`);
  `transCmp_of_laws` derives the class from the LT/EQ/GT laws written out one by one;
* for every operation history (`List (Op K V)`, by induction);
* for every choice of node heights `1 ≤ h ≤ levels` (`Op.heightOk`): the random source of `mkNode`
  is an explicit input of the model (one height per `Put`), and `levels` is any positive number
  (22 in the Go code).

`Inv`, `Spec` (the ordinary finite map) are defined in `Golem/Model/SkiplistSpec.lean`.
-/
import Golem.Model.Skiplist
import Golem.Model.SkiplistSpec
import Golem.Lemmas.SkiplistInv

namespace Golem.Props.C18
open Golem.Model.Skiplist Golem.Lemmas.Skiplist Std

variable {K V : Type} [Inhabited K] [Inhabited V]

/-! ### the order laws -/

/-- The laws needed of the comparison trait, written out: they give `Std.TransCmp`. -/
theorem transCmp_of_laws (cmp : K → K → Ordering)
    (swap : ∀ a b, cmp a b = (cmp b a).swap)
    (lt_trans : ∀ a b c, cmp a b = .lt → cmp b c = .lt → cmp a c = .lt)
    (lt_eq : ∀ a b c, cmp a b = .lt → cmp b c = .eq → cmp a c = .lt)
    (eq_lt : ∀ a b c, cmp a b = .eq → cmp b c = .lt → cmp a c = .lt)
    (eq_trans : ∀ a b c, cmp a b = .eq → cmp b c = .eq → cmp a c = .eq) : TransCmp cmp :=
  @TransCmp.mk _ cmp ⟨fun {a b} => swap a b⟩ (by
    intro a b c h1 h2
    cases h : cmp a b <;> cases h' : cmp b c <;> rw [h] at h1 <;> rw [h'] at h2
    · rw [lt_trans a b c h h']; rfl
    · rw [lt_eq a b c h h']; rfl
    · exact absurd h2 (by decide)
    · rw [eq_lt a b c h h']; rfl
    · rw [eq_trans a b c h h']; rfl
    · exact absurd h2 (by decide)
    · exact absurd h1 (by decide)
    · exact absurd h1 (by decide)
    · exact absurd h1 (by decide))

/-! ### the invariant -/

/-- `New` establishes the invariant. -/
theorem inv_init (cmp : K → K → Ordering) (levels : Nat) (h : 0 < levels) :
    Inv cmp levels (init (K := K) (V := V) levels) :=
  inv_of_tinv cmp levels _ (tinv_init cmp levels h)

/-- `Put` preserves the invariant, whatever height `1 ≤ h ≤ levels` the random source draws. -/
theorem inv_put (cmp : K → K → Ordering) [TransCmp cmp] (levels : Nat) (s : State K V) (k : K) (v : V)
    (h : Nat) (hi : Inv cmp levels s) (h1 : 1 ≤ h) (h2 : h ≤ levels) :
    Inv cmp levels (put cmp s k v h) :=
  inv_of_tinv cmp levels _ (tinv_put cmp levels s k v h (tinv_of_inv cmp levels s hi) ⟨h1, h2⟩)

/-- `Remove` preserves the invariant. -/
theorem inv_remove (cmp : K → K → Ordering) [TransCmp cmp] (levels : Nat) (s : State K V) (k : K)
    (hi : Inv cmp levels s) : Inv cmp levels (remove cmp s k).1 :=
  inv_of_tinv cmp levels _ (tinv_remove cmp levels s k (tinv_of_inv cmp levels s hi))

/-- Every reachable state satisfies the invariant. -/
theorem inv_reachable (cmp : K → K → Ordering) [TransCmp cmp] (levels : Nat) (hl : 0 < levels)
    (ops : List (Op K V)) (hok : ∀ o ∈ ops, o.heightOk levels) :
    Inv cmp levels (run cmp (init levels) ops).1 :=
  inv_of_tinv cmp levels _
    (simulation cmp levels ops (init levels) Spec.empty (tinv_init cmp levels hl)
      (fun k => lookup_init cmp levels k) hok).2.1

/-! ### the skip list answers like an ordinary map -/

/-- For every history and every choice of heights, the answers of `Get`/`Put`/`Remove` are those of
    the ordinary finite map (zero value on absence, `Put` overwriting on equal keys). -/
theorem refines_map (cmp : K → K → Ordering) [TransCmp cmp] (levels : Nat) (hl : 0 < levels)
    (ops : List (Op K V)) (hok : ∀ o ∈ ops, o.heightOk levels) :
    (run cmp (init levels) ops).2 = (Spec.run cmp Spec.empty ops).2 :=
  (simulation cmp levels ops (init levels) Spec.empty (tinv_init cmp levels hl)
    (fun k => lookup_init cmp levels k) hok).1

/-- Single steps, from any state satisfying the invariant: `Get` and `Remove` return what the
    represented map holds (zero value when absent). -/
theorem get_like_map (cmp : K → K → Ordering) [TransCmp cmp] (levels : Nat) (s : State K V) (k : K)
    (hi : Inv cmp levels s) :
    Golem.Model.Skiplist.get cmp s k = Spec.get (lookup cmp s) k ∧
    (remove cmp s k).2 = Spec.get (lookup cmp s) k :=
  ⟨get_eq cmp levels s k (tinv_of_inv cmp levels s hi),
   remove_ret cmp levels s k (tinv_of_inv cmp levels s hi)⟩

/-- … and `Put` / `Remove` change the represented map like `Spec.put` / `Spec.remove`. -/
theorem update_like_map (cmp : K → K → Ordering) [TransCmp cmp] (levels : Nat) (s : State K V) (k : K)
    (v : V) (h : Nat) (hi : Inv cmp levels s) (h1 : 1 ≤ h) (h2 : h ≤ levels) :
    lookup cmp (put cmp s k v h) = Spec.put cmp (lookup cmp s) k v ∧
    lookup cmp (remove cmp s k).1 = Spec.remove cmp (lookup cmp s) k :=
  ⟨funext (lookup_put cmp levels s k v h (tinv_of_inv cmp levels s hi) ⟨h1, h2⟩),
   funext (lookup_remove cmp levels s k (tinv_of_inv cmp levels s hi))⟩

/-- The answers do not depend on the random node heights: two histories that differ only in the
    heights give the same answers. -/
theorem answers_independent_of_heights (cmp : K → K → Ordering) [TransCmp cmp] (levels : Nat)
    (hl : 0 < levels) (ops ops' : List (Op K V)) (hsame : ops.map Op.erase = ops'.map Op.erase)
    (hok : ∀ o ∈ ops, o.heightOk levels) (hok' : ∀ o ∈ ops', o.heightOk levels) :
    (run cmp (init levels) ops).2 = (run cmp (init levels) ops').2 := by
  rw [refines_map cmp levels hl ops hok, refines_map cmp levels hl ops' hok',
    ← spec_run_erase cmp Spec.empty ops, ← spec_run_erase cmp Spec.empty ops', hsame]

/-! ### the printed form -/

/-- In a state satisfying the invariant, the printed form (after the head line) lists keys in strictly
    ascending order and every forward pointer of a listed node leads to a strictly larger key. -/
theorem printed_sorted_of_inv (cmp : K → K → Ordering) [TransCmp cmp] (levels : Nat) (s : State K V)
    (hi : Inv cmp levels s) :
    ((printed s).tail.map (·.1)).Pairwise (fun a b => cmp a b = .lt) ∧
    ∀ e ∈ (printed s).tail, ∀ k', some k' ∈ e.2 → cmp e.1 k' = .lt := by
  have hp : (printed s).tail = s.level0.map (nodeLine s) := by simp [printed]
  rw [hp]
  constructor
  · rw [List.map_map]
    have : ((fun x => x.1) ∘ nodeLine s) = s.key := by funext i; rfl
    rw [this, List.pairwise_map]
    exact hi.sorted 0 hi.levels_pos
  · intro e he k' hk'
    obtain ⟨p, hpm, rfl⟩ := List.mem_map.mp he
    simp only [nodeLine] at hk' ⊢
    obtain ⟨l, hl, hf⟩ := List.mem_map.mp hk'
    have hl' : l < s.height p := List.mem_range.mp hl
    cases hq : finger s l p with
    | none => rw [hq] at hf; simp at hf
    | some q =>
      rw [hq] at hf
      simp only [Option.map_some, Option.some.injEq] at hf
      subst hf
      exact (finger_lt cmp levels s hi p hpm l hl' q hq).2

/-- In every reachable state the printed form lists keys in strictly ascending order with forward
    pointers only to larger keys. -/
theorem printed_sorted (cmp : K → K → Ordering) [TransCmp cmp] (levels : Nat) (hl : 0 < levels)
    (ops : List (Op K V)) (hok : ∀ o ∈ ops, o.heightOk levels) :
    let s := (run cmp (init levels) ops).1
    ((printed s).tail.map (·.1)).Pairwise (fun a b => cmp a b = .lt) ∧
    ∀ e ∈ (printed s).tail, ∀ k', some k' ∈ e.2 → cmp e.1 k' = .lt :=
  printed_sorted_of_inv cmp levels _ (inv_reachable cmp levels hl ops hok)

/-- … and the keys it lists are exactly the live keys: those the ordinary map holds after the same
    history. -/
theorem printed_keys_live (cmp : K → K → Ordering) [TransCmp cmp] (levels : Nat) (hl : 0 < levels)
    (ops : List (Op K V)) (hok : ∀ o ∈ ops, o.heightOk levels) (k : K) :
    ((Spec.run cmp Spec.empty ops).1 k).isSome = true ↔
      ∃ e ∈ (printed (run cmp (init levels) ops).1).tail, cmp e.1 k = .eq := by
  have h := (simulation cmp levels ops (init levels) Spec.empty (tinv_init cmp levels hl)
    (fun k => lookup_init cmp levels k) hok).2.2 k
  rw [← h, lookup_isSome]
  have hp : (printed (run cmp (init levels) ops).1).tail
      = (run cmp (init levels) ops).1.level0.map (nodeLine (run cmp (init levels) ops).1) := by
    simp [printed]
  rw [hp]
  constructor
  · rintro ⟨i, hi, he⟩
    exact ⟨_, List.mem_map.mpr ⟨i, hi, rfl⟩, he⟩
  · rintro ⟨e, hm, he⟩
    obtain ⟨i, hi, rfl⟩ := List.mem_map.mp hm
    exact ⟨i, hi, he⟩

/-! ### the map laws a caller relies on, as corollaries (from any state satisfying the invariant) -/

/-- a `Get` after `Put` of an equal key returns the value put -/
theorem get_put_same (cmp : K → K → Ordering) [TransCmp cmp] (levels : Nat) (s : State K V) (k k' : K)
    (v : V) (h : Nat) (hi : Inv cmp levels s) (h1 : 1 ≤ h) (h2 : h ≤ levels) (he : cmp k' k = .eq) :
    Golem.Model.Skiplist.get cmp (put cmp s k v h) k' = v := by
  rw [(get_like_map cmp levels _ k' (inv_put cmp levels s k v h hi h1 h2)).1,
    (update_like_map cmp levels s k v h hi h1 h2).1]
  simp [Spec.get, Spec.put, he]

/-- … and leaves the answer for every other key unchanged -/
theorem get_put_other (cmp : K → K → Ordering) [TransCmp cmp] (levels : Nat) (s : State K V) (k k' : K)
    (v : V) (h : Nat) (hi : Inv cmp levels s) (h1 : 1 ≤ h) (h2 : h ≤ levels) (hne : cmp k' k ≠ .eq) :
    Golem.Model.Skiplist.get cmp (put cmp s k v h) k' = Golem.Model.Skiplist.get cmp s k' := by
  rw [(get_like_map cmp levels _ k' (inv_put cmp levels s k v h hi h1 h2)).1,
    (update_like_map cmp levels s k v h hi h1 h2).1, (get_like_map cmp levels s k' hi).1]
  simp [Spec.get, Spec.put, hne]

/-- a `Get` (or a second `Remove`) after `Remove` of an equal key returns the zero value -/
theorem get_remove_same (cmp : K → K → Ordering) [TransCmp cmp] (levels : Nat) (s : State K V) (k k' : K)
    (hi : Inv cmp levels s) (he : cmp k' k = .eq) :
    Golem.Model.Skiplist.get cmp (remove cmp s k).1 k' = default ∧
    (remove cmp (remove cmp s k).1 k').2 = default := by
  have hg := get_like_map cmp levels _ k' (inv_remove cmp levels s k hi)
  rw [hg.1, hg.2, (update_like_map cmp levels s k default 1 hi (Nat.le_refl 1) hi.levels_pos).2]
  simp [Spec.get, Spec.remove, he]

/-- … and `Remove` leaves the answer for every other key unchanged -/
theorem get_remove_other (cmp : K → K → Ordering) [TransCmp cmp] (levels : Nat) (s : State K V) (k k' : K)
    (hi : Inv cmp levels s) (hne : cmp k' k ≠ .eq) :
    Golem.Model.Skiplist.get cmp (remove cmp s k).1 k' = Golem.Model.Skiplist.get cmp s k' := by
  rw [(get_like_map cmp levels _ k' (inv_remove cmp levels s k hi)).1,
    (update_like_map cmp levels s k default 1 hi (Nat.le_refl 1) hi.levels_pos).2,
    (get_like_map cmp levels s k' hi).1]
  simp [Spec.get, Spec.remove, hne]

/-- `Put` overwrites: a second `Put` on an equal key makes the first one unobservable -/
theorem put_put_overwrites (cmp : K → K → Ordering) [TransCmp cmp] (levels : Nat) (s : State K V) (k k' : K)
    (v v' : V) (h h' h'' : Nat) (hi : Inv cmp levels s) (h1 : 1 ≤ h) (h2 : h ≤ levels)
    (h1' : 1 ≤ h') (h2' : h' ≤ levels) (h1'' : 1 ≤ h'') (h2'' : h'' ≤ levels) (he : cmp k' k = .eq) :
    lookup cmp (put cmp (put cmp s k v h) k' v' h') = lookup cmp (put cmp s k v' h'') := by
  rw [(update_like_map cmp levels _ k' v' h' (inv_put cmp levels s k v h hi h1 h2) h1' h2').1,
    (update_like_map cmp levels s k v h hi h1 h2).1, (update_like_map cmp levels s k v' h'' hi h1'' h2'').1]
  funext x
  simp only [Spec.put]
  by_cases hx : cmp x k' = .eq
  · have : cmp x k = .eq := TransCmp.eq_trans hx he
    simp [hx, this]
  · have : cmp x k ≠ .eq := fun hxk => hx (TransCmp.eq_trans hxk (OrientedCmp.eq_symm he))
    simp [hx, this]


/-- keys the comparison identifies get the same answer -/
theorem lookup_congr (cmp : K → K → Ordering) [TransCmp cmp] (s : State K V) {x k : K} (h : cmp x k = .eq) :
    lookup cmp s x = lookup cmp s k := by
  unfold lookup lookupIn
  have : (fun i => decide (cmp (s.key i) x = .eq)) = (fun i => decide (cmp (s.key i) k = .eq)) := by
    funext i; rw [TransCmp.congr_right h]
  rw [this]

theorem get_congr (cmp : K → K → Ordering) [TransCmp cmp] (levels : Nat) (s : State K V) (x k : K)
    (hi : Inv cmp levels s) (h : cmp x k = .eq) :
    Golem.Model.Skiplist.get cmp s x = Golem.Model.Skiplist.get cmp s k := by
  rw [(get_like_map cmp levels s x hi).1, (get_like_map cmp levels s k hi).1]
  simp only [Spec.get, lookup_congr cmp s h]

/-- `Remove` of an absent key changes nothing a caller can see -/
theorem remove_absent (cmp : K → K → Ordering) [TransCmp cmp] (levels : Nat) (s : State K V) (k : K)
    (hi : Inv cmp levels s) (habs : lookup cmp s k = none) :
    (remove cmp s k).2 = default ∧ lookup cmp (remove cmp s k).1 = lookup cmp s := by
  refine ⟨?_, ?_⟩
  · rw [(get_like_map cmp levels s k hi).2]; simp [Spec.get, habs]
  · rw [(update_like_map cmp levels s k default 1 hi (Nat.le_refl 1) hi.levels_pos).2]
    funext x
    simp only [Spec.remove]
    split
    · next hx => rw [← habs]; exact (lookup_congr cmp s hx).symm
    · rfl

/-- the same laws in every reachable state: after any history, a `Put` is read back by `Get` on an equal key,
    is invisible on the other keys, and a `Remove` makes the key answer with the zero value -/
theorem reachable_map_laws (cmp : K → K → Ordering) [TransCmp cmp] (levels : Nat) (hl : 0 < levels)
    (ops : List (Op K V)) (hok : ∀ o ∈ ops, o.heightOk levels) (k k' : K) (v : V) (h : Nat)
    (h1 : 1 ≤ h) (h2 : h ≤ levels) :
    let s := (run cmp (init levels) ops).1
    (cmp k' k = .eq → Golem.Model.Skiplist.get cmp (put cmp s k v h) k' = v) ∧
    (cmp k' k ≠ .eq → Golem.Model.Skiplist.get cmp (put cmp s k v h) k' = Golem.Model.Skiplist.get cmp s k') ∧
    (cmp k' k = .eq → Golem.Model.Skiplist.get cmp (remove cmp s k).1 k' = default) ∧
    (cmp k' k ≠ .eq → Golem.Model.Skiplist.get cmp (remove cmp s k).1 k' = Golem.Model.Skiplist.get cmp s k') := by
  intro s
  have hi := inv_reachable cmp levels hl ops hok
  exact ⟨get_put_same cmp levels s k k' v h hi h1 h2, get_put_other cmp levels s k k' v h hi h1 h2,
    fun he => (get_remove_same cmp levels s k k' hi he).1, get_remove_other cmp levels s k k' hi⟩

/-! ### non-vacuity -/

/-- the hypotheses are satisfiable: natural and reversed order on integers, strings -/
example : TransCmp (compare : Int → Int → Ordering) := inferInstance
example : TransCmp (fun a b : Int => compare b a) := inferInstance
example : TransCmp (compare : String → String → Ordering) := inferInstance
example : TransCmp (fun a b : String => compare b a) := inferInstance

/-- a concrete history with mixed heights: descending and duplicate inserts, overwrite, removal of a
    tall node, removal of an absent key, re-insertion -/
def demo : List (Op Int Int) :=
  [.put 5 50 3, .put 3 30 1, .put 9 90 2, .put 5 51 4, .get 5, .remove 5, .get 5, .remove 7,
   .put 5 52 1, .get 5, .get 3, .remove 9, .get 9]

theorem demo_ok : ∀ o ∈ demo, o.heightOk 22 := by simp [demo, Op.heightOk]

example : (run compare (init 22) demo).2
    = [none, none, none, none, some 51, some 51, some 0, some 0, none, some 52, some 30, some 90, some 0] := by
  rw [refines_map compare 22 (by decide) demo demo_ok]
  simp [demo, Spec.run, Spec.step, Spec.put, Spec.remove, Spec.get, Spec.empty]

/-- the same answers by running the model itself, under the natural and under the reversed order -/
example : (run compare (init 22) demo).2
    = [none, none, none, none, some 51, some 51, some 0, some 0, none, some 52, some 30, some 90, some 0] := by
  decide
example : (run (fun a b : Int => compare b a) (init 22) demo).2
    = [none, none, none, none, some 51, some 51, some 0, some 0, none, some 52, some 30, some 90, some 0] := by
  decide

/-- the printed form of a state with heights 3, 1, 2 (head line first; `levels = 3`) -/
example : printed (run compare (init 3) [Op.put (5 : Int) (50 : Int) 3, .put 3 30 1, .put 9 90 2]).1
    = [(0, [some 3, some 5, some 5]), (3, [some 5]), (5, [some 9, some 9, none]), (9, [none, none])] := by
  decide
example : printed (run (fun a b : Int => compare b a) (init 3) [Op.put (5 : Int) (50 : Int) 3, .put 3 30 1, .put 9 90 2]).1
    = [(0, [some 9, some 9, some 5]), (9, [some 5, some 5]), (5, [some 3, none, none]), (3, [none])] := by
  decide

end Golem.Props.C18
