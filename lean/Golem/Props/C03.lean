/-
C03 — struct unfolding lists every field once, in order, with its true offset.

Property theorems only.  They are about the very definitions the oracle executes
(`Model/Layout`, `Model/Hseq`); `flatten` (Lemmas/HseqSpec) is the accumulator-free
statement of the listing: depth-first pre-order, an embedded struct (by value or through one
pointer) immediately followed by its own fields.

Modelled, validated on every run by the harness: gc/amd64 layout and reflect's description of a
struct (`Fields`, `offsets`).  The arity-unrolled `New1..9` / `FMap1..9` are the list functions
`newN` / `fmapN` at each arity: `newN_gen` / `fmapN_gen` at the end of this file prove that for the
definitions regenerated from hseq/hseq.go on every run (and all nine arities are also exercised
differentially on every shape).
-/
import Golem.Lemmas.Hseq
import Golem.Lemmas.HseqBind
import Golem.Gen.HseqArity
namespace Golem.Props.C03
open Golem.Model

/-- What one step of the specification says (by definition): a field is listed, then — when it is
an embedded struct, held by value or through one pointer — all fields of that struct, then the
remaining fields. -/
theorem flatten_step (n : String) (e : Bool) (tg : String) (t : GoType) (rest : Fields) (i : Nat)
    (pre : List Nat) (via : Bool) :
    flattenFields (.cons n e tg t rest) i pre via =
      ⟨pre ++ [i], via, ⟨n, e, tg, t⟩⟩ ::
        ((if e && (derefOnce t).kind = .struct then
            (match (derefOnce t).fields? with
             | some fs => flattenFields fs 0 (pre ++ [i]) (via || decide (t.kind = .ptr))
             | none => [])
          else []) ++ flattenFields rest (i + 1) pre via) := by
  rw [flattenFields, flattenInto_spec]; simp; rfl

/-- `unfold` (and so `hseq.New[T]()`) produces exactly the depth-first pre-order listing:
same fields, same order; `PureType` is the field type after one optional pointer dereference.
A non-struct argument panics inside reflect. -/
theorem unfold_is_flatten (S : GoType) :
    (∀ fs, S.fields? = some fs →
      ∃ seq, unfold S [] 0 = .ok seq ∧ seq.map (·.field) = (flatten S).map (·.decl) ∧
        ∀ e ∈ seq, e.pureType = derefOnce e.field.type) ∧
    (S.fields? = none → unfold S [] 0 = .error .reflect) := by
  constructor
  · intro fs hfs
    refine ⟨unfoldFields fs 0 [] 0, by simp [unfold, hfs], ?_, ?_⟩
    · rw [unfoldFields_walk fs 0 [] 0 0 [] false]
      simp only [flatten, hfs, List.nil_append, List.length_nil]
      rw [← walkFields_node fs 0 [] false 0 0 0]
      simp [Item.node, Function.comp_def]
    · rw [unfoldFields_walk fs 0 [] 0 0 [] false]
      intro e he
      simp only [List.nil_append, List.mem_map] at he
      obtain ⟨it, hit, rfl⟩ := he
      exact walkFields_pure fs 0 [] false 0 0 0 it hit
  · intro h; simp [unfold, h]

/-- General form with an accumulator and a running offset: the new entries are appended. -/
theorem unfold_appends (S : GoType) (fs : Fields) (h : S.fields? = some fs) (seq0 : List Entry) (off : Nat) :
    ∃ ext, unfold S seq0 off = .ok (seq0 ++ ext) ∧ ext.map (·.field) = (flatten S).map (·.decl) := by
  refine ⟨(walkFields fs 0 [] false 0 off seq0.length).map (·.entry), ?_, ?_⟩
  · simp [unfold, h, unfoldFields_walk fs 0 seq0 off 0 [] false]
  · simp only [flatten, h]
    rw [← walkFields_node fs 0 [] false 0 off seq0.length]
    simp [Item.node, Function.comp_def]

/-- Entry IDs are the consecutive positions in the full listing. -/
theorem unfold_ids (S : GoType) (seq : List Entry) (h : unfold S [] 0 = .ok seq) :
    ∀ (i : Nat) (e : Entry), seq[i]? = some e → e.id = i := by
  unfold unfold at h
  cases hfs : S.fields? with
  | none => simp [hfs] at h
  | some fs =>
    simp [hfs] at h
    subst h
    intro i e he
    rw [unfoldFields_walk fs 0 [] 0 0 [] false] at he
    simp only [List.nil_append, List.length_nil] at he
    have hids := walkFields_ids fs 0 [] false 0 0 0
    have : ((walkFields fs 0 [] false 0 0 0).map (·.entry.id))[i]? = some e.id := by
      rw [List.getElem?_map] at he ⊢
      cases hh : (walkFields fs 0 [] false 0 0 0)[i]? with
      | none => simp [hh] at he
      | some it => simp [hh] at he; simp [← he]
    rw [hids] at this
    have hlt : i < (walkFields fs 0 [] false 0 0 0).length := by
      have := (List.getElem?_eq_some_iff.mp this).1; simpa using this
    simp [hlt] at this
    omega

/-- For every entry reached along value embeddings only (`via = false` on the specification side:
no embedded pointer crossed), `RootOffs + Offset` is the layout function's own offset of the selector
path inside `S`, the type found there is the entry's field type, and the field lies inside `S`. -/
theorem unfold_offset (S : GoType) (seq : List Entry) (h : unfold S [] 0 = .ok seq)
    (i : Nat) (e : Entry) (nd : Node) (he : seq[i]? = some e) (hn : (flatten S)[i]? = some nd)
    (hv : nd.via = false) :
    pathLookup S nd.path = some (e.rootOffs + e.offset, e.field.type) ∧
      e.rootOffs + e.offset + e.field.type.size ≤ S.size :=
  unfold_offset_aux S seq h i e nd he hn hv

/-- `ForName` returns the FIRST entry of the listing whose `FieldKey()` is the name, and panics
with `errType` iff there is none. -/
theorem forName_first (seq : List Entry) (name : String) :
    forName seq name =
      match seq.find? (fun e => e.fieldKey == name) with
      | some e => .ok e
      | none => .error .errType := forName_find seq name

/-- `ForType` returns the FIRST entry whose field type is identical to the witness type, and
panics with `errType` iff no field has that type. -/
theorem forType_first (seq : List Entry) (A : GoType) :
    forType seq A =
      match seq.find? (fun e => decide (e.field.type = A)) with
      | some e => .ok e
      | none => .error .errType := forType_find seq A

/-- `ForNameMaybe` reports absence instead of panicking. -/
theorem forNameMaybe_spec (seq : List Entry) (name : String) :
    forNameMaybe seq name = seq.find? (fun e => e.fieldKey == name) := forNameMaybe_find seq name

/-- The hseq tag, when present and non-empty before the first comma, is the name. -/
theorem fieldKey_spec (e : Entry) :
    e.fieldKey = (if firstComma (tagGet e.field.tag "hseq") != "" then firstComma (tagGet e.field.tag "hseq")
                  else e.field.name) := rfl

/-- `New[T](names…)` for a struct `T` (or a pointer to one) and at least one name: the result lists
the first match of each name, in the requested order; it panics (`errType`) iff some name matches
nothing.  Without names the full listing is returned. -/
theorem new_names_order (T : GoType) (seq : List Entry)
    (hseq : unfold (if T.kind = .ptr then T.elem else T) [] 0 = .ok seq) (names : List String) :
    (names = [] → hseqNew T names = .ok seq) ∧
    (names ≠ [] →
      (∀ out, hseqNew T names = .ok out ↔
        Pointwise (fun n e => seq.find? (fun e => e.fieldKey == n) = some e) names out) ∧
      (∀ p, hseqNew T names = .error p ↔
        p = .errType ∧ ∃ n ∈ names, seq.find? (fun e => e.fieldKey == n) = none)) := by
  constructor
  · rintro rfl; simp [hseqNew, hseq]
  · intro hne
    have hnew : hseqNew T names = mapE (forName seq) names := by
      cases names with
      | nil => exact absurd rfl hne
      | cons a as => simp [hseqNew, hseq]
    have hok : ∀ n e, forName seq n = .ok e ↔ seq.find? (fun e => e.fieldKey == n) = some e := by
      intro n e; rw [forName_find]; cases seq.find? (fun e => e.fieldKey == n) <;> simp
    have herr : ∀ n p, forName seq n = .error p ↔ p = .errType ∧ seq.find? (fun e => e.fieldKey == n) = none := by
      intro n p; rw [forName_find]; cases seq.find? (fun e => e.fieldKey == n) <;> simp [eq_comm]
    constructor
    · intro out
      rw [hnew, mapE_ok_iff]
      simp only [hok]
    · intro p
      rw [hnew, mapE_error_iff]
      constructor
      · rintro ⟨pre, x, post, ys, rfl, _, h3⟩
        have := (herr x p).mp h3
        exact ⟨this.1, x, by simp, this.2⟩
      · rintro ⟨rfl, n, hn, hnone⟩
        -- the first name that matches nothing
        induction names with
        | nil => simp at hn
        | cons a as ih =>
          cases ha : forName seq a with
          | error q =>
            have := (herr a q).mp ha
            exact ⟨[], a, as, [], by simp, by simp [mapE], by rw [ha, this.1]⟩
          | ok ea =>
            have hn' : n ∈ as := by
              rcases List.mem_cons.mp hn with rfl | h
              · rw [(hok n ea).mp ha] at hnone; simp at hnone
              · exact h
            cases as with
            | nil => simp at hn'
            | cons b bs =>
              obtain ⟨pre, x, post, ys, h1, h2, h3⟩ := ih (by simp) (by simp [hseqNew, hseq]) hn'
              exact ⟨a :: pre, x, post, ea :: ys, by simp [h1], by simp [mapE, ha, h2], h3⟩

/-- `New[*S]` looks through the pointer: same result as `New[S]`. -/
theorem new_ptr_container (S : GoType) (h : S.kind ≠ .ptr) (names : List String) :
    hseqNew (.ptr S) names = hseqNew S names := by
  simp [hseqNew, GoType.kind, GoType.elem, h]

/-- `New1..9[T, A₁…A_N]`: the i-th result is the first entry of type `A_i`; `errType` iff some
witness type is the type of no field. -/
theorem newN_positional (T : GoType) (seq : List Entry)
    (hseq : unfold (if T.kind = .ptr then T.elem else T) [] 0 = .ok seq) (As : List GoType) :
    ∀ out, newN T As = .ok out ↔
      Pointwise (fun A e => seq.find? (fun e => decide (e.field.type = A)) = some e) As out := by
  intro out
  have hok : ∀ A e, forType seq A = .ok e ↔ seq.find? (fun e => decide (e.field.type = A)) = some e := by
    intro A e; rw [forType_find]; cases seq.find? (fun e => decide (e.field.type = A)) <;> simp
  simp only [newN, hseqNew, hseq, List.isEmpty_nil, if_true]
  rw [mapE_ok_iff]
  simp only [hok]

/-- `FMap1..9(ts, f₁…f_N)`: succeeds with `bs` iff for every position `i` the i-th function was
given the i-th entry `ts[i]` and returned `bs[i]` (functions are called left to right; the first
failure is the result). -/
theorem fmapN_positional {β : Type} (ts : List Entry) (fs : List (Entry → Except Panic β)) (bs : List β) :
    fmapN ts fs = .ok bs ↔
      Pointwise (fun (fi : (Entry → Except Panic β) × Nat) b => ∃ x, ts[fi.2]? = some x ∧ fi.1 x = .ok b)
        fs.zipIdx bs := by
  unfold fmapN
  rw [fmapFrom_mapE, mapE_ok_iff]
  have : ∀ (fi : (Entry → Except Panic β) × Nat) b,
      applyAt ts fi = .ok b ↔ ∃ x, ts[fi.2]? = some x ∧ fi.1 x = .ok b := by
    intro fi b
    unfold applyAt
    cases hi : index ts fi.2 with
    | error p =>
      have := (index_error_iff ts fi.2 p).mp hi
      simp; intro x hx; have := (List.getElem?_eq_some_iff.mp hx).1; omega
    | ok x =>
      have := (index_ok_iff ts fi.2 x).mp hi
      simp [this]
  simp only [this]

/-- More functions than entries: `ts[k]` is out of range and `FMapN` panics with an index error
(when the functions themselves do not panic first). -/
theorem fmapN_out_of_range {β : Type} (ts : List Entry) (fs : List (Entry → Except Panic β))
    (hlen : ts.length < fs.length) (htotal : ∀ f ∈ fs, ∀ x, ∃ b, f x = .ok b) :
    fmapN ts fs = .error .index := by
  unfold fmapN
  have key : ∀ (gs : List (Entry → Except Panic β)), (∀ f ∈ gs, ∀ x, ∃ b, f x = .ok b) →
      ∀ k, k ≤ ts.length → ts.length - k < gs.length → fmapFrom ts k gs = .error .index := by
    intro gs
    induction gs with
    | nil => intro _ k _ h; simp at h
    | cons f gs ih =>
      intro htot k hk hl
      simp only [fmapFrom]
      cases hi : index ts k with
      | error p => have := (index_error_iff ts k p).mp hi; simp [this.2]
      | ok x =>
        simp only
        obtain ⟨b, hb⟩ := htot f (by simp) x
        have hkl : k < ts.length := (List.getElem?_eq_some_iff.mp ((index_ok_iff ts k x).mp hi)).1
        have hl' : ts.length - k < gs.length + 1 := by simpa using hl
        rw [hb]
        simp only
        rw [ih (fun g hg => htot g (by simp [hg])) (k + 1) (by omega) (by omega)]
  exact key fs htotal 0 (by omega) (by omega)

/-! ### Non-vacuity: a three-level struct with padding holes and trailing `struct{}` fields
`type C1 struct { A int8; CIn1; B int32; Z struct{} }`,
`type CIn1 struct { K int8; CIn2; L string }`, `type CIn2 struct { M int16; CIn3; N int8 }`,
`type CIn3 struct { P int8; Q int64; R struct{} }` -/

def exIn3 : GoType := .named "CIn3" (.struct (.cons "P" false "" (.prim .int8) (.cons "Q" false "" (.prim .int64)
  (.cons "R" false "" (.struct .nil) .nil))))
def exIn2 : GoType := .named "CIn2" (.struct (.cons "M" false "" (.prim .int16) (.cons "CIn3" true "" exIn3
  (.cons "N" false "" (.prim .int8) .nil))))
def exIn1 : GoType := .named "CIn1" (.struct (.cons "K" false "" (.prim .int8) (.cons "CIn2" true "" exIn2
  (.cons "L" false "" (.prim .string) .nil))))
def exC1 : GoType := .named "C1" (.struct (.cons "A" false "" (.prim .int8) (.cons "CIn1" true "" exIn1
  (.cons "B" false "" (.prim .int32) (.cons "Z" false "" (.struct .nil) .nil)))))

example : exC1.size = 80 ∧ exIn3.size = 24 ∧ exIn2.size = 40 ∧ exIn1.size = 64 := by decide

example : (match unfold exC1 [] 0 with
    | .ok seq => seq.map (fun e => (e.id, e.field.name, e.offset, e.rootOffs))
    | .error _ => []) =
  [(0, "A", 0, 0), (1, "CIn1", 8, 0), (2, "K", 0, 8), (3, "CIn2", 8, 8), (4, "M", 0, 16), (5, "CIn3", 8, 16),
   (6, "P", 0, 24), (7, "Q", 8, 24), (8, "R", 16, 24), (9, "N", 32, 16), (10, "L", 48, 8), (11, "B", 72, 0),
   (12, "Z", 76, 0)] := by decide

example : (flatten exC1).map (·.path) =
  [[0], [1], [1, 0], [1, 1], [1, 1, 0], [1, 1, 1], [1, 1, 1, 0], [1, 1, 1, 1], [1, 1, 1, 2], [1, 1, 2], [1, 2], [2], [3]] := by
  decide

/-- pointer embedding: `struct{A int8; *Inner; B int64}`, the inner fields are listed (and marked `via`). -/
def exInner : GoType := .named "Inner" (.struct (.cons "X" false "" (.prim .int16) (.cons "Y" false "" (.prim .int64) .nil)))
def exP : GoType := .named "P" (.struct (.cons "A" false "" (.prim .int8) (.cons "Inner" true "" (.ptr exInner)
  (.cons "B" false "hseq:\"k,opt\"" (.prim .int64) .nil))))

example : (flatten exP).map (fun n => (n.path, n.via)) =
  [([0], false), ([1], false), ([1, 0], true), ([1, 1], true), ([2], false)] := by decide

example : (match hseqNew exP ["k", "Y", "A"] with
    | .ok seq => seq.map (·.id) | .error _ => []) = [4, 3, 0] := by decide

example : hseqNew exP ["k", "nope"] = .error .errType := by rfl
example : fmapN ([] : List Entry) [fun e => .ok e.id] = .error .index := by rfl


/-! ### The arity-unrolled Go functions themselves (regenerated from hseq/hseq.go on every run)

`Golem.Gen.HseqArity.NewN` / `FMapN` are produced by go/xlate (family `hseqarity`) from the current
source; each equals the list model used by the theorems above at its arity, so `newN_positional`,
`fmapN_positional` and `fmapN_out_of_range` speak about the real New1..9 / FMap1..9.  (FMapN is
stated at one result type for all functions; its Go type parameters are independent.) -/

section Generated
open Golem.Gen.HseqArity
set_option linter.unusedSimpArgs false

theorem new1_gen (T A : GoType) : New1 T A = newN T [A] := by
  simp only [New1, newN_bind, mapE_cons_bind, mapE_nil_pure, bind_assoc, pure_bind]

theorem new2_gen (T A B : GoType) : New2 T A B = newN T [A, B] := by
  simp only [New2, newN_bind, mapE_cons_bind, mapE_nil_pure, bind_assoc, pure_bind]

theorem new3_gen (T A B C : GoType) : New3 T A B C = newN T [A, B, C] := by
  simp only [New3, newN_bind, mapE_cons_bind, mapE_nil_pure, bind_assoc, pure_bind]

theorem new4_gen (T A B C D : GoType) : New4 T A B C D = newN T [A, B, C, D] := by
  simp only [New4, newN_bind, mapE_cons_bind, mapE_nil_pure, bind_assoc, pure_bind]

theorem new5_gen (T A B C D E : GoType) : New5 T A B C D E = newN T [A, B, C, D, E] := by
  simp only [New5, newN_bind, mapE_cons_bind, mapE_nil_pure, bind_assoc, pure_bind]

theorem new6_gen (T A B C D E F : GoType) : New6 T A B C D E F = newN T [A, B, C, D, E, F] := by
  simp only [New6, newN_bind, mapE_cons_bind, mapE_nil_pure, bind_assoc, pure_bind]

theorem new7_gen (T A B C D E F G : GoType) : New7 T A B C D E F G = newN T [A, B, C, D, E, F, G] := by
  simp only [New7, newN_bind, mapE_cons_bind, mapE_nil_pure, bind_assoc, pure_bind]

theorem new8_gen (T A B C D E F G H : GoType) : New8 T A B C D E F G H = newN T [A, B, C, D, E, F, G, H] := by
  simp only [New8, newN_bind, mapE_cons_bind, mapE_nil_pure, bind_assoc, pure_bind]

theorem new9_gen (T A B C D E F G H I : GoType) : New9 T A B C D E F G H I = newN T [A, B, C, D, E, F, G, H, I] := by
  simp only [New9, newN_bind, mapE_cons_bind, mapE_nil_pure, bind_assoc, pure_bind]

theorem fmap1_gen {β : Type} (ts : List Entry) (f1 : Entry → Except Panic β) :
    (fun (p : β) => [p]) <$> FMap1 ts f1 = fmapN ts [f1] := by
  simp only [FMap1, fmapN, fmapFrom_cons_bind, fmapFrom_nil_pure, map_eq_pure_bind, bind_assoc, pure_bind]

theorem fmap2_gen {β : Type} (ts : List Entry) (f1 f2 : Entry → Except Panic β) :
    (fun (p : β × β) => [p.1, p.2]) <$> FMap2 ts f1 f2 = fmapN ts [f1, f2] := by
  simp only [FMap2, fmapN, fmapFrom_cons_bind, fmapFrom_nil_pure, map_eq_pure_bind, bind_assoc, pure_bind]

theorem fmap3_gen {β : Type} (ts : List Entry) (f1 f2 f3 : Entry → Except Panic β) :
    (fun (p : β × β × β) => [p.1, p.2.1, p.2.2]) <$> FMap3 ts f1 f2 f3 = fmapN ts [f1, f2, f3] := by
  simp only [FMap3, fmapN, fmapFrom_cons_bind, fmapFrom_nil_pure, map_eq_pure_bind, bind_assoc, pure_bind]

theorem fmap4_gen {β : Type} (ts : List Entry) (f1 f2 f3 f4 : Entry → Except Panic β) :
    (fun (p : β × β × β × β) => [p.1, p.2.1, p.2.2.1, p.2.2.2]) <$> FMap4 ts f1 f2 f3 f4 = fmapN ts [f1, f2, f3, f4] := by
  simp only [FMap4, fmapN, fmapFrom_cons_bind, fmapFrom_nil_pure, map_eq_pure_bind, bind_assoc, pure_bind]

theorem fmap5_gen {β : Type} (ts : List Entry) (f1 f2 f3 f4 f5 : Entry → Except Panic β) :
    (fun (p : β × β × β × β × β) => [p.1, p.2.1, p.2.2.1, p.2.2.2.1, p.2.2.2.2]) <$> FMap5 ts f1 f2 f3 f4 f5 = fmapN ts [f1, f2, f3, f4, f5] := by
  simp only [FMap5, fmapN, fmapFrom_cons_bind, fmapFrom_nil_pure, map_eq_pure_bind, bind_assoc, pure_bind]

theorem fmap6_gen {β : Type} (ts : List Entry) (f1 f2 f3 f4 f5 f6 : Entry → Except Panic β) :
    (fun (p : β × β × β × β × β × β) => [p.1, p.2.1, p.2.2.1, p.2.2.2.1, p.2.2.2.2.1, p.2.2.2.2.2]) <$> FMap6 ts f1 f2 f3 f4 f5 f6 = fmapN ts [f1, f2, f3, f4, f5, f6] := by
  simp only [FMap6, fmapN, fmapFrom_cons_bind, fmapFrom_nil_pure, map_eq_pure_bind, bind_assoc, pure_bind]

theorem fmap7_gen {β : Type} (ts : List Entry) (f1 f2 f3 f4 f5 f6 f7 : Entry → Except Panic β) :
    (fun (p : β × β × β × β × β × β × β) => [p.1, p.2.1, p.2.2.1, p.2.2.2.1, p.2.2.2.2.1, p.2.2.2.2.2.1, p.2.2.2.2.2.2]) <$> FMap7 ts f1 f2 f3 f4 f5 f6 f7 = fmapN ts [f1, f2, f3, f4, f5, f6, f7] := by
  simp only [FMap7, fmapN, fmapFrom_cons_bind, fmapFrom_nil_pure, map_eq_pure_bind, bind_assoc, pure_bind]

theorem fmap8_gen {β : Type} (ts : List Entry) (f1 f2 f3 f4 f5 f6 f7 f8 : Entry → Except Panic β) :
    (fun (p : β × β × β × β × β × β × β × β) => [p.1, p.2.1, p.2.2.1, p.2.2.2.1, p.2.2.2.2.1, p.2.2.2.2.2.1, p.2.2.2.2.2.2.1, p.2.2.2.2.2.2.2]) <$> FMap8 ts f1 f2 f3 f4 f5 f6 f7 f8 = fmapN ts [f1, f2, f3, f4, f5, f6, f7, f8] := by
  simp only [FMap8, fmapN, fmapFrom_cons_bind, fmapFrom_nil_pure, map_eq_pure_bind, bind_assoc, pure_bind]

theorem fmap9_gen {β : Type} (ts : List Entry) (f1 f2 f3 f4 f5 f6 f7 f8 f9 : Entry → Except Panic β) :
    (fun (p : β × β × β × β × β × β × β × β × β) => [p.1, p.2.1, p.2.2.1, p.2.2.2.1, p.2.2.2.2.1, p.2.2.2.2.2.1, p.2.2.2.2.2.2.1, p.2.2.2.2.2.2.2.1, p.2.2.2.2.2.2.2.2]) <$> FMap9 ts f1 f2 f3 f4 f5 f6 f7 f8 f9 = fmapN ts [f1, f2, f3, f4, f5, f6, f7, f8, f9] := by
  simp only [FMap9, fmapN, fmapFrom_cons_bind, fmapFrom_nil_pure, map_eq_pure_bind, bind_assoc, pure_bind]

end Generated

end Golem.Props.C03
