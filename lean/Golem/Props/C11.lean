/-
C11 — Unfold and Emit produce the exact successive sequence, paced, until cancelled.

Model: `Golem/Go/Sources.lean` — each source is one process with the control points of the Go text,
two channels (`out` of capacity `cap`, `exx` of capacity `f.errch(cap)`), the context flag and a
virtual clock; the oracle driver `Driver/Timed.lean` executes these very definitions against the
implementation.  `Reachable P p0 p` ranges over every finite sequence of process moves and
environment moves (receive from `out`, receive from `exx`, cancel, let any amount of time pass), i.e.
every consumer pace and every cancel point, for arbitrary capacity `cap`, error mode, frequency and
user function (`P.emitF`, `P.unfoldF`: total, pure; any failing set).

Time: `Reachable` is LAX (timers and statements may be arbitrarily late); `KeepUpReachable ⊆
EagerReachable ⊆ Reachable` are the eager semantics (timers fire exactly when due), with a consumer
that keeps up.  Lower bounds are proved for LAX time, the exact one-per-tick statement for eager time.
-/
import Golem.Lemmas.SourcesEager
namespace Golem.Props.C11
open Golem.Go Golem.Go.Sources Golem.Model

variable {β ε : Type}

/-! ## the successive sequence -/

/-- **Unfold** (every mode, capacity, schedule).  With `g s` = the value `f.Apply(s)` returns:
delivered ++ buffered is exactly `[seed, g seed, g (g seed), …]` (no gap, repeat or reordering), so is
delivered ++ buffered ++ the value being offered; the `i`-th delivered value is `g^i seed`; and `f` is
applied to the successive values, once each, in order. -/
theorem unfold_seq (P : Fn β ε) (cap : Nat) (seed : β) {p : Src β ε}
    (hr : Reachable P (initUnfold P.mode cap seed) p) :
    p.delivered.map (·.1) ++ p.out.buf = iterates P seed (p.delivered.length + p.out.buf.length) ∧
    (∀ s, p.pc = .uOffer s →
      p.delivered.map (·.1) ++ p.out.buf ++ [s] = iterates P seed (p.delivered.length + p.out.buf.length + 1)) ∧
    (∀ i (h : i < p.delivered.length), (p.delivered[i]).1 = seedAt P seed i) ∧
    p.callsU.map (·.1) = iterates P seed p.callsU.length := by
  have hI := inv_reachable (inv_initUnfold P cap seed) hr
  have hU := unfoldInv_reachable hr
  have hlen : p.delivered.length + p.out.buf.length = p.emitted.length := by
    have := congrArg List.length hI.fifoOut
    simpa using this
  have h1 : p.delivered.map (·.1) ++ p.out.buf = iterates P seed (p.delivered.length + p.out.buf.length) := by
    rw [hI.fifoOut, hlen]; exact hU.vals
  refine ⟨h1, ?_, fun i h => getElem_of_append_eq_iterates h1 i h, hU.calls⟩
  intro s hs
  have ha := hU.at_
  simp only [hs, UnfoldAt] at ha
  rw [iterates_succ, ← h1, hlen, ha.2.1, ← ha.1]

/-- Unfold with a function that never fails, `f.Apply(s) = (g s, nil)`: the `i`-th delivered value is
`g (g (… seed))` (`i` times), nothing is ever sent on the error channel -/
theorem unfold_seq_pure (P : Fn β ε) (g : β → β) (hg : ∀ s, P.unfoldF s = (g s, none)) (cap : Nat) (seed : β)
    {p : Src β ε} (hr : Reachable P (initUnfold P.mode cap seed) p) :
    (∀ i (h : i < p.delivered.length), (p.delivered[i]).1 = Nat.repeat g i seed) ∧
    p.errsDelivered = [] ∧ p.exx.buf = [] := by
  have hI := inv_reachable (inv_initUnfold P cap seed) hr
  have hU := unfoldInv_reachable hr
  refine ⟨fun i h => ?_, ?_⟩
  · rw [(unfold_seq P cap seed hr).2.2.1 i h]
    exact seedAt_eq_repeat g (fun s => by rw [hg]) seed i
  · have he := hU.errs
    rw [errsU_nil_of_ok (fun i _ => by rw [hg])] at he
    have hf := hI.fifoExx
    rw [he] at hf
    simpa using hf

/-- **Emit** (every mode, capacity, schedule; `n = p.iters` completed iterations): delivered ++ buffered
= the results of the non-failing indices below `n`, in order; likewise the errors of the failing
indices; a value being offered is the next one; `f` has been called on 0,1,2,… once each, at most one
call ahead of the completed iterations.  (Under Try: skipping exactly the failing indices; under
Lift/Pure see `emit_lift_first_failure`.) -/
theorem emit_seq (P : Fn β ε) (cap : Nat) {p : Src β ε} (hr : Reachable P (initEmit P.mode cap) p) :
    p.delivered.map (·.1) ++ p.out.buf = okVals P p.iters ∧
    p.errsDelivered.map (·.1) ++ p.exx.buf = errVals P p.iters ∧
    (∀ i v, p.pc = .eOffer i v → i = p.iters ∧ okVals P (p.iters + 1) = okVals P p.iters ++ [v]) ∧
    p.callsE.map (·.1) = List.range p.callsE.length ∧
    p.iters ≤ p.callsE.length ∧ p.callsE.length ≤ p.iters + 1 := by
  have hI := inv_reachable (inv_initEmit P cap) hr
  have hE := emitInv_reachable hr
  refine ⟨by rw [hI.fifoOut]; exact hE.vals, by rw [hI.fifoExx]; exact hE.errs, ?_, hE.calls, ?_⟩
  · intro i v hpc
    have ha := hE.at_
    simp only [hpc, EmitAt] at ha
    obtain ⟨rfl, hf, -⟩ := ha
    exact ⟨rfl, okVals_succ_ok hf⟩
  · have ha := hE.at_
    cases hpc : p.pc <;> simp only [hpc, EmitAt] at ha <;> omega

/-- Emit with a function that never fails: delivered ++ buffered = `[g 0, g 1, …, g (n-1)]` -/
theorem emit_seq_pure (P : Fn β ε) (g : Nat → β) (hg : ∀ i, P.emitF i = .ok (g i)) (cap : Nat) {p : Src β ε}
    (hr : Reachable P (initEmit P.mode cap) p) :
    p.delivered.map (·.1) ++ p.out.buf = (List.range p.iters).map g ∧ p.errsDelivered = [] ∧ p.exx.buf = [] := by
  obtain ⟨h1, h2, -⟩ := emit_seq P cap hr
  constructor
  · rw [h1]; simp [okVals, hg]
  · rw [errVals_nil_of_ok (fun i _ => ⟨g i, hg i⟩)] at h2
    simpa using h2

/-- what has been delivered is always a prefix of the uncancelled stream (C06 for the sources) -/
theorem emit_delivered_prefix (P : Fn β ε) (cap : Nat) {p : Src β ε} (hr : Reachable P (initEmit P.mode cap) p)
    (m : Nat) (hm : p.iters ≤ m) :
    p.delivered.map (·.1) <+: okVals P m ∧ p.errsDelivered.map (·.1) <+: errVals P m := by
  obtain ⟨h1, h2, -⟩ := emit_seq P cap hr
  exact ⟨List.IsPrefix.trans ⟨_, h1⟩ (okVals_prefix P hm), List.IsPrefix.trans ⟨_, h2⟩ (errVals_prefix P hm)⟩

theorem unfold_delivered_prefix (P : Fn β ε) (cap : Nat) (seed : β) {p : Src β ε}
    (hr : Reachable P (initUnfold P.mode cap seed) p) (m : Nat) (hm : p.delivered.length + p.out.buf.length ≤ m) :
    p.delivered.map (·.1) <+: iterates P seed m :=
  List.IsPrefix.trans ⟨_, (unfold_seq P cap seed hr).1⟩ (iterates_prefix P seed hm)

/-! ## fail-fast and try-and-continue (C07 for the sources) -/

/-- **Emit under Lift**: if some index `j` below the completed iterations fails, then `j` is the first
failing index, the goroutine has left its loop (it is closing / has closed its channels), exactly the
results of the indices before `j` and that one error have been handed over, and `f` was applied to
nothing beyond `j`. -/
theorem emit_lift_first_failure (P : Fn β ε) (hm : P.mode = .lift) (cap : Nat) {p : Src β ε}
    (hr : Reachable P (initEmit P.mode cap) p) (j : Nat) (hj : j < p.iters) (e : ε) (hje : P.emitF j = .error e) :
    (∀ i, i < j → ∃ v, P.emitF i = .ok v) ∧ p.iters = j + 1 ∧ p.pc.inLoop = false ∧
    p.delivered.map (·.1) ++ p.out.buf = okVals P j ∧ p.errsDelivered.map (·.1) ++ p.exx.buf = [e] ∧
    p.callsE.map (·.1) = List.range (j + 1) := by
  have hE := emitInv_reachable hr
  obtain ⟨h1, h2, -, h4, -⟩ := emit_seq P cap hr
  obtain ⟨hl1, hl2, hl3⟩ := hE.lift hm j hj e hje
  have hbefore : ∀ i, i < j → ∃ v, P.emitF i = .ok v := by
    intro i hi
    cases hfi : P.emitF i with
    | ok v => exact ⟨v, rfl⟩
    | error e' => have := (hE.lift hm i (by omega) e' hfi).1; omega
  refine ⟨hbefore, hl1.symm, hl2, ?_, ?_, ?_⟩
  · rw [h1, ← hl1, okVals_succ_err hje]
  · rw [h2, ← hl1, errVals_succ_err hje, errVals_nil_of_ok hbefore]; rfl
  · rw [h4, hl3, ← hl1]

/-- Emit (any mode), no failure so far: every result so far has been handed over, no error -/
theorem emit_no_failure_no_error (P : Fn β ε) (cap : Nat) {p : Src β ε}
    (hr : Reachable P (initEmit P.mode cap) p) (hok : ∀ j, j < p.iters → ∃ v, P.emitF j = .ok v) :
    p.errsDelivered = [] ∧ p.exx.buf = [] := by
  obtain ⟨-, h2, -⟩ := emit_seq P cap hr
  rw [errVals_nil_of_ok hok] at h2
  simpa using h2

/-- the plain send of fail-fast `catch` never blocks: while the goroutine is in its loop the
capacity-1 error channel is empty -/
theorem lift_catch_never_blocks (P : Fn β ε) (hm : P.mode = .lift) {p0 p : Src β ε} (h0 : Inv P p0)
    (hr : Reachable P p0 p) (hl : p.pc.inLoop = true) : p.exx.buf = [] ∧ p.exx.cap = 1 :=
  ⟨(inv_reachable h0 hr).lift_exx_empty hm hl, (inv_reachable h0 hr).liftCap hm⟩

/-- **Emit under Try** (= `emit_seq` read for C07): every failing index below `n` has yielded exactly
one error and no output, every other index exactly its output, both streams in index order -/
theorem emit_try_partition (P : Fn β ε) (cap : Nat) {p : Src β ε} (hr : Reachable P (initEmit P.mode cap) p) :
    p.delivered.map (·.1) ++ p.out.buf = okVals P p.iters ∧
    p.errsDelivered.map (·.1) ++ p.exx.buf = errVals P p.iters :=
  ⟨(emit_seq P cap hr).1, (emit_seq P cap hr).2.1⟩

/-- **Unfold under Lift**: if application number `k` (to `g^k seed`) fails, it is the first failing one,
the goroutine has left its loop, the values `seed … g^k seed` and that one error have been handed
over, and `f` was applied to nothing further. -/
theorem unfold_lift_first_failure (P : Fn β ε) (hm : P.mode = .lift) (cap : Nat) (seed : β) {p : Src β ε}
    (hr : Reachable P (initUnfold P.mode cap seed) p) (k : Nat) (hk : k < p.iters) (e : ε)
    (hke : (P.unfoldF (seedAt P seed k)).2 = some e) :
    (∀ i, i < k → (P.unfoldF (seedAt P seed i)).2 = none) ∧ p.iters = k + 1 ∧ p.pc.inLoop = false ∧
    p.delivered.map (·.1) ++ p.out.buf = iterates P seed (k + 1) ∧ p.errsDelivered.map (·.1) ++ p.exx.buf = [e] ∧
    p.callsU.map (·.1) = iterates P seed (k + 1) := by
  have hI := inv_reachable (inv_initUnfold P cap seed) hr
  have hU := unfoldInv_reachable hr
  obtain ⟨hl1, hl2, hl3, hl4⟩ := hU.lift hm k hk e hke
  have hbefore : ∀ i, i < k → (P.unfoldF (seedAt P seed i)).2 = none := by
    intro i hi
    cases hfi : (P.unfoldF (seedAt P seed i)).2 with
    | none => rfl
    | some e' => have := (hU.lift hm i (by omega) e' hfi).1; omega
  refine ⟨hbefore, hl1.symm, hl2, ?_, ?_, ?_⟩
  · rw [hI.fifoOut, hU.vals, hl4, hl1]
  · rw [hI.fifoExx, hU.errs, ← hl1, errsU_succ_some hke, errsU_nil_of_ok hbefore]; rfl
  · rw [hU.calls, hl3, hl1]


/-! ## pacing -/

/-- **Emit, pacing — LAX time** (timers, calls and sends may all be late; a fortiori eager time):
the call `f i` happens at virtual time ≥ (i+1)·frequency; at time `t` at most `t / frequency` results
(values + errors) have been handed over at all — delivered or buffered —, so the k-th value is never
available before k ticks; and the k-th delivered value (0-based) was received no earlier than k+1 ticks. -/
theorem emit_pacing (P : Fn β ε) (cap : Nat) {p : Src β ε} (hr : Reachable P (initEmit P.mode cap) p) :
    (∀ c ∈ p.callsE, (c.1 + 1) * P.freq ≤ c.2) ∧
    ((p.delivered.length + p.out.buf.length) + (p.errsDelivered.length + p.exx.buf.length)) * P.freq ≤ p.now ∧
    (∀ k (h : k < p.delivered.length), (k + 1) * P.freq ≤ (p.delivered[k]).2) := by
  have hI := inv_reachable (inv_initEmit P cap) hr
  have hP := paceInv_reachable hr
  refine ⟨hP.calls, ?_, hP.recvd⟩
  have h1 := congrArg List.length hI.fifoOut
  have h2 := congrArg List.length hI.fifoExx
  simp at h1 h2
  rw [h1, h2]; exact hP.avail

/-- the k-th value (1-based) is not available — neither delivered nor buffered — before k ticks -/
theorem emit_kth_not_before_k_ticks (P : Fn β ε) (cap : Nat) {p : Src β ε} (hr : Reachable P (initEmit P.mode cap) p)
    (k : Nat) (hk : p.now < k * P.freq) : p.delivered.length + p.out.buf.length < k := by
  have h := (emit_pacing P cap hr).2.1
  have h' : (p.delivered.length + p.out.buf.length) * P.freq ≤ p.now :=
    Nat.le_trans (Nat.mul_le_mul_right _ (Nat.le_add_right _ _)) h
  exact Nat.lt_of_mul_lt_mul_right (Nat.lt_of_le_of_lt h' hk)

/-- **Emit, one value per tick — EAGER time, consumer keeps up** (`KeepUpReachable`: time passes only
when the process is at rest, never beyond a pending wake-up, and only after the consumer has taken
whatever the two channels had to offer; not cancelled).  Every delivered value is the result of the
next non-failing index `j`, received at time `(j+1)·frequency` exactly (`okAt`), anything not yet
received was sent at this very instant; and whenever the system is at rest with nothing to receive,
everything due has been received and the goroutine sleeps until the next tick. -/
theorem emit_one_per_tick_eager (P : Fn β ε) (cap : Nat) {p : Src β ε}
    (hr : KeepUpReachable P (initEmit P.mode cap) p) :
    (∃ pend, p.delivered ++ pend = okAt P p.iters ∧ ∀ x ∈ pend, x.2 = p.now) ∧
    (procNext P p = [] → canRecv P p 0 = false → canRecv P p 1 = false → p.pc ≠ .exited →
      p.delivered = okAt P p.iters ∧ p.pc = .eSleep p.iters ((p.iters + 1) * P.freq) ∧
      p.iters * P.freq ≤ p.now ∧ p.now < (p.iters + 1) * P.freq) := by
  obtain ⟨hI, hE, hK⟩ := keepUp_inv hr
  obtain ⟨pend, hp, hpt⟩ := hK.pend
  refine ⟨⟨pend, by rw [hp, hK.sent], hpt⟩, ?_⟩
  intro hs h0 h1 hne
  rcases rest_keepup_cases hI hs h0 h1 with he | ⟨i, w, hpc, hlt⟩
  · exact absurd he hne
  · have hpn := pend_nil_of_buf_nil hI (canRecv_out_false h0).1 hp
    subst hpn
    have ha := hK.at_
    have hat := hE.at_
    simp only [hpc, KeepAt] at ha
    simp only [hpc, EmitAt] at hat
    obtain ⟨rfl, -⟩ := hat
    obtain ⟨rfl, h2, -⟩ := ha
    refine ⟨by simpa using hp.trans hK.sent, hpc, h2, hlt⟩

/-- the same for a function that never fails: at rest, exactly one value
has been received per elapsed tick — `now / frequency` of them, the j-th at time `(j+1)·frequency` -/
theorem emit_one_per_tick_eager_pure (P : Fn β ε) (g : Nat → β) (hg : ∀ i, P.emitF i = .ok (g i))
    (cap : Nat) {p : Src β ε} (hr : KeepUpReachable P (initEmit P.mode cap) p)
    (hs : procNext P p = []) (h0 : canRecv P p 0 = false) (h1 : canRecv P p 1 = false) (hne : p.pc ≠ .exited) :
    p.delivered = (List.range (p.now / P.freq)).map fun j => (g j, (j + 1) * P.freq) := by
  obtain ⟨hd, -, h2, h3⟩ := (emit_one_per_tick_eager P cap hr).2 hs h0 h1 hne
  have : p.now / P.freq = p.iters := by
    exact Nat.div_eq_of_lt_le h2 h3
  rw [this, hd, okAt_pure g hg]

/-! ## cancel, termination, no panic -/

/-- no library goroutine of a source ever panics -/
theorem no_panic (P : Fn β ε) (cap : Nat) (seed : β) {p : Src β ε}
    (hr : Reachable P (initEmit P.mode cap) p ∨ Reachable P (initUnfold P.mode cap seed) p) : p.panicked = false := by
  rcases hr with hr | hr
  · exact Sources.no_panic (inv_initEmit P cap) hr
  · exact Sources.no_panic (inv_initUnfold P cap seed) hr

/-- **after cancel** (both sources; `p0` = either initial state).  In every reachable state:
(1) every process move decreases `variant`, so between two environment moves the goroutine makes
finitely many moves; (2) as long as nobody receives it makes at most `variant p` moves altogether,
however much time passes and whether or not the context is cancelled; (3) with `cancelled`, a state at
rest is either "returned, `exx` and `out` both closed" or a pending — non-cancellable — `time.Sleep`;
(4) with `cancelled`, every `select` the goroutine stands at has its `ctx.Done()` arm enabled;
(5) while nobody receives, Emit's function is called at most once per free buffer slot plus once — with
full buffers: at most one more Sleep + call. -/
theorem source_cancel_stops (P : Fn β ε) {p0 p : Src β ε} (h0 : Inv P p0) (hr : Reachable P p0 p) :
    (∀ q, q ∈ procNext P p → variant q < variant p) ∧
    (∀ n q, QuietRun P p n q → n ≤ variant p) ∧
    (p.cancelled = true → procNext P p = [] →
      (p.pc = .exited ∧ p.out.closed = true ∧ p.exx.closed = true) ∨ ∃ i w, p.pc = .eSleep i w ∧ p.now < w) ∧
    (p.cancelled = true → isSelect P p.pc = true → { p with pc := .closeExx } ∈ procNext P p) ∧
    (∀ n q, QuietRun P p n q → q.callsE.length ≤ p.callsE.length + free p + 1) := by
  have hI := inv_reachable h0 hr
  refine ⟨fun q hq => proc_decreases hI hq, fun n q hq => ?_, fun hc hs => cancelled_rest hI hc hs, ?_,
    fun n q hq => quietRun_calls hI hq⟩
  · have := quietRun_bounded hI hq; omega
  · intro hc hsel
    apply cancel_responsive hc
    cases hpc : p.pc <;> simp [hpc, isSelect] at hsel
    · exact Or.inl ⟨_, _, rfl⟩
    · exact Or.inr (Or.inr ⟨hsel, Or.inl ⟨_, _, rfl⟩⟩)
    · exact Or.inr (Or.inl ⟨_, rfl⟩)
    · exact Or.inr (Or.inr ⟨hsel, Or.inr ⟨_, _, rfl⟩⟩)

/-- Unfold never sleeps: once cancelled, at rest means returned with both channels closed — it leaves at
its next `select` -/
theorem unfold_cancel_stops (P : Fn β ε) (cap : Nat) (seed : β) {p : Src β ε}
    (hr : Reachable P (initUnfold P.mode cap seed) p) (hc : p.cancelled = true) (hs : procNext P p = []) :
    p.pc = .exited ∧ p.out.closed = true ∧ p.exx.closed = true := by
  rcases cancelled_rest (inv_reachable (inv_initUnfold P cap seed) hr) hc hs with h | ⟨i, w, hpc, -⟩
  · exact h
  · have ha := (unfoldInv_reachable hr).at_
    simp [hpc, UnfoldAt] at ha

/-- a source that has returned has closed both channels; they are closed in the order exx, out, once each -/
theorem exited_closed (P : Fn β ε) {p0 p : Src β ε} (h0 : Inv P p0) (hr : Reachable P p0 p) :
    (p.pc = .exited → p.out.closed = true ∧ p.exx.closed = true) ∧
    (p.out.closed = true → p.pc = .exited) ∧ (p.exx.closed = true → p.pc = .closeOut ∨ p.pc = .exited) :=
  ⟨(inv_reachable h0 hr).exitedClosed, (inv_reachable h0 hr).outClosed, (inv_reachable h0 hr).exxClosed⟩

/-! ## the oracle driver's exploration functions are eager runs of this model -/

/-- `Sources.quiesce` (closure under process moves) and `Sources.advance` (script move `t<d>`) — the two
functions `Driver/Timed.lean` adds on top of `procNext` / `envNext` — only return states reached by
EAGER steps, and (given fuel above `8·(cap out + cap exx) + 6`; the driver uses 100000) states at rest. -/
theorem driver_explores_eager_runs (P : Fn β ε) (fuel r d : Nat) {p q : Src β ε} (hI : Inv P p)
    (hfuel : 8 * (p.out.cap + p.exx.cap) + 6 < fuel) :
    (q ∈ quiesce P fuel p → EagerRun P p q ∧ procNext P q = []) ∧
    (procNext P p = [] → q ∈ advance P fuel r d p → EagerRun P p q ∧ procNext P q = []) :=
  ⟨fun h => ⟨quiesce_run fuel h, quiesce_rest fuel hI (Nat.lt_of_le_of_lt (variant_le p) hfuel) h⟩,
   fun hrest h => advance_run fuel r d hI hrest hfuel h⟩

/-! ## non-vacuity -/

/-- x ↦ 2x, failing on 8 with the value 0 returned alongside the error (what Go code usually does) -/
def exU : Fn Nat Nat := { mode := .lift, freq := 0, emitF := fun _ => .ok 0, unfoldF := fun s => if s = 8 then (0, some s) else (2 * s, none) }

/-- i ↦ 10i+3 every 2 ms, index 1 failing, try-and-continue -/
def exE : Fn Nat Nat := { mode := .try_, freq := 2, emitF := fun i => if i = 1 then .error i else .ok (10 * i + 3), unfoldF := fun s => (s, none) }

/-- Unfold from 1 with capacity 3 runs to a state with 1,2,4 buffered and 8 on offer -/
example : ∃ p, Reachable exU (initUnfold exU.mode 3 1) p ∧ p.out.buf = [1, 2, 4] ∧ p.callsU.map (·.1) = [1, 2, 4] := by
  have hall : (quiesce exU 12 (initUnfold exU.mode 3 1)).all
      (fun q => q.out.buf == [1, 2, 4] && q.callsU.map (·.1) == [1, 2, 4]) = true := by decide
  have hlen : 0 < (quiesce exU 12 (initUnfold exU.mode 3 1)).length := by decide
  obtain ⟨q, hq⟩ := List.exists_mem_of_length_pos hlen
  refine ⟨q, (quiesce_run 12 hq).toReachable, ?_⟩
  have := List.all_eq_true.1 hall q hq
  simpa using this

/-- Emit: after the first tick (2 ms) the value 3 is in the buffer, `f 0` was called at 2 ms -/
example : ∃ p, Reachable exE (initEmit exE.mode 1) p ∧ p.out.buf = [3] ∧ p.now = 2 ∧ p.callsE = [(0, 2)] := by
  have hall : ((quiesce exE 8 (initEmit exE.mode 1)).flatMap fun q => quiesce exE 8 { q with now := q.now + 2 }).all
      (fun q => q.out.buf == [3] && q.now == 2 && q.callsE == [(0, 2)]) = true := by decide
  have hlen : 0 < ((quiesce exE 8 (initEmit exE.mode 1)).flatMap fun q => quiesce exE 8 { q with now := q.now + 2 }).length := by
    decide
  obtain ⟨q2, hq2⟩ := List.exists_mem_of_length_pos hlen
  obtain ⟨q1, h1, h2⟩ := List.mem_flatMap.1 hq2
  refine ⟨q2, reach_quiesce_tick h1 h2, ?_⟩
  have := List.all_eq_true.1 hall q2 hq2
  simp at this
  exact ⟨this.1.1, this.1.2, this.2⟩

/-- hypotheses of the fail-fast theorems are satisfiable: in `exU` the application to 8 = 2³·1 fails -/
example : (exU.unfoldF (seedAt exU 1 3)).2 = some 8 := by decide

/-! ## Sources created under a cancelled context -/

/-- The start states of a `pre=1` script (cancel before the goroutine's first step) are reachable: every invariant,
the closing and the termination theorems above speak about such runs too. -/
theorem preStart_reachable (P : Fn β ε) (p0 : Src β ε) : ∀ p ∈ preStart P p0, Reachable P p0 p ∧ p.cancelled = true := by
  intro p hp
  simp only [preStart, List.mem_map] at hp
  obtain ⟨⟨q, o⟩, hmem, rfl⟩ := hp
  refine ⟨.step .init (Or.inr ⟨.cancel, o, hmem⟩), ?_⟩
  simp [envNext] at hmem
  rw [hmem.1]

end Golem.Props.C11
