/-
C08 — the unbounded channel `pipe.New` (pipe/unbound.go, pipe/queue.go) is FIFO, lossless,
duplicate-free and never makes the sender wait for the receiver; cancel and close of the send
side are clean ends of stream.

Part 1: the linked queue with `sync.Pool` recycling (`Golem.Model.Queue`, pointer level) refines
the FIFO list — for every history and every pool behaviour.
Part 2: the pump network (`Golem.Go.Unbound`; its backlog is the abstract list of part 1) —
for every capacity and every schedule (`Reachable`: any finite sequence of process moves and
environment moves send / close-by-sender / receive / cancel, in any order).

The definitions are the ones `oracle unbound` executes against the real code on every run.
-/
import Golem.Lemmas.Queue
import Golem.Lemmas.UnboundLive
namespace Golem.Props.C08
open Golem.Go Golem.Go.Unbound Golem.Model

variable {α : Type}

/-! ### Part 1 — queue.go -/

/-- Under the representation invariant (`Queue.Abs q vs`: the `next`-chain from `head` ends in nil at
`tail`, its nodes are pairwise distinct and allocated, pooled nodes are pairwise distinct and not on
the chain, the chain carries `vs`): the queue reads as `vs`; `enq` appends — whichever pooled or
fresh node `sync.Pool.Get` hands out —, `head` is the first value (the zero value when empty),
`emit` enables the send arm iff non-empty, `deq` returns the first value and drops it (a nil
dereference exactly when empty); the invariant is preserved. -/
theorem queue_refines_fifo {q : Queue.Queue α} {vs : List α} (h : Queue.Abs q vs) :
    Queue.toList q = vs ∧
    (∀ c x, Queue.Abs (Queue.enq c x q) (vs ++ [x]) ∧ Queue.toList (Queue.enq c x q) = Queue.toList q ++ [x]) ∧
    (∀ zero, Queue.head zero q = some (vs.headD zero)) ∧
    Queue.emit q = !vs.isEmpty ∧
    (match vs with
     | [] => Queue.deq q = none
     | v :: rest => ∃ q', Queue.deq q = some (some v, q') ∧ Queue.Abs q' rest ∧ Queue.toList q' = (Queue.toList q).tail) := by
  obtain ⟨ids, hr⟩ := h
  have ht := Queue.toList_eq hr
  refine ⟨ht, ?_, fun z => Queue.head_repr z hr, Queue.emit_repr hr, ?_⟩
  · intro c x
    have he := Queue.enq_repr hr c x
    exact ⟨⟨_, he⟩, by rw [Queue.toList_eq he, ht]⟩
  · cases vs with
    | nil => exact Queue.deq_nil hr
    | cons v rest =>
      obtain ⟨q', hd, hr'⟩ := Queue.deq_repr hr
      exact ⟨q', hd, ⟨_, hr'⟩, by rw [Queue.toList_eq hr', ht]; rfl⟩

/-- `newq` is the empty queue -/
theorem queue_new_empty : Queue.Abs (Queue.newq : Queue.Queue α) [] ∧ Queue.toList (Queue.newq : Queue.Queue α) = [] :=
  ⟨⟨_, Queue.repr_newq⟩, Queue.toList_eq Queue.repr_newq⟩

/-- Any sequence of `enq`/`deq` from the empty queue — including draining to empty and refilling
with recycled nodes, any pool choice at each `enq` — dequeues the values the FIFO list
specification dequeues and ends representing the list the specification ends with. -/
theorem queue_history_refines (ops : List (Queue.Op α)) :
    (Queue.run ops Queue.newq).1 = (Queue.spec ops []).1.map some ∧
    Queue.toList (Queue.run ops Queue.newq).2 = (Queue.spec ops []).2 := by
  have h := Queue.run_refines ops (q := Queue.newq) (vs := []) ⟨_, Queue.repr_newq⟩
  obtain ⟨ids, hr⟩ := h.2
  exact ⟨h.1, Queue.toList_eq hr⟩

/-! ### Part 2 — the pump -/

/-- Exact accounting in every reachable state: what the receiver obtained, then the buffer of `eg`,
then the backlog not yet passed on, then the value the pump holds between `<-in` and `enq`, then
the buffer of `in` is exactly the sequence of completed sends — nothing lost, duplicated,
reordered or invented. -/
theorem unbound_fifo {cap : Nat} {p : Net α} (h : Reachable cap p) :
    p.delivered ++ p.eg.buf ++ backlog p ++ held p ++ p.inp.buf = p.sent :=
  (inv_reachable h).acct

/-- the receiver always holds a prefix of the completed sends -/
theorem delivered_prefix {cap : Nat} {p : Net α} (h : Reachable cap p) : p.delivered <+: p.sent := by
  rw [← unbound_fifo h]
  simp only [List.append_assoc]
  exact List.prefix_append _ _

/-- `deq` is only ever called on a non-empty queue (no nil dereference, cf. `Queue.deq`) -/
theorem deq_only_nonempty {cap : Nat} {p : Net α} (h : Reachable cap p)
    (hpc : p.pc = .mainSent ∨ p.pc = .flushSent) : p.mq ≠ [] :=
  (inv_reachable h).sentNe (by rcases hpc with e | e <;> simp [e, Pc.sentPending])

/-- A send never waits for the receiver: in every reachable state before cancel / close in which
the pump has no move left (however full `eg` is, whatever the receiver does or does not do), the
pump is parked at its `select` with `in` drained, and a send succeeds at once. -/
theorem sender_never_waits {cap : Nat} {p : Net α} (h : Reachable cap p) (hq : procNext p = [])
    (hc : p.cancelled = false) (hcl : p.inp.closed = false) (v : α) :
    (p.pc = .main ∧ p.inp.buf = []) ∧ ∃ q, envNext p (.send v) = [(q, .ok)] := by
  have hp := quiescent_parked (inv_reachable h) hq hc hcl
  refine ⟨hp, { p with inp := { p.inp with buf := p.inp.buf ++ [v] }, sent := p.sent ++ [v] }, ?_⟩
  simp [envNext, hcl, hp.1, hp.2, recvReady]

/-- … and at ANY reachable state before cancel / close, quiescent or not: if a send finds the send
side full, the pump has an enabled move that does not involve `eg` or the receiver (it takes a value
from `in` or finishes an `enq`/`deq`), after finitely many of which (`pump_terminates`) the pump is
parked as above. The sender waits for the pump at most, never for the receiver. -/
theorem sender_waits_for_pump_only {cap : Nat} {p q : Net α} (h : Reachable cap p)
    (hc : p.cancelled = false) (hcl : p.inp.closed = false) {v : α}
    (hfull : (q, Obs.full) ∈ envNext p (.send v)) :
    ∃ q' ∈ procNext p, q'.eg = p.eg ∧ q'.delivered = p.delivered :=
  full_pump_can_move (inv_reachable h) hc hcl hfull

/-- The receive side is closed only when everything is through: in every reachable state with `eg`
closed, delivered ++ buffered is exactly the sequence of completed sends, and the pump has returned. -/
theorem eg_closed_complete {cap : Nat} {p : Net α} (h : Reachable cap p) (hc : p.eg.closed = true) :
    p.pc = .exited ∧ p.delivered ++ p.eg.buf = p.sent := by
  have hi := inv_reachable h
  have hpc := hi.egClosed.mp hc
  have hm := hi.emptied (by simp [hpc, Pc.emptied])
  have hf := (hi.flushing (by simp [hpc, Pc.flushing])).2
  refine ⟨hpc, ?_⟩
  have := hi.acct
  simpa [backlog, held, hpc, hm, hf] using this

/-- a receiver that observes `closed` has obtained exactly the completed sends -/
theorem recv_closed_complete {cap : Nat} {p q : Net α} (h : Reachable cap p)
    (hq : (q, Obs.closed) ∈ envNext p .recv) : p.delivered = p.sent := by
  simp only [envNext] at hq
  split at hq
  · simp at hq
  next hb =>
    split at hq
    · simp only [List.mem_singleton, Prod.mk.injEq] at hq
      have hc : p.eg.closed = true := by
        cases hc : p.eg.closed with
        | true => rfl
        | false => simp [hc] at hq
      have := (eg_closed_complete h hc).2
      simpa [hb] using this
    · simp only [List.mem_map, Prod.mk.injEq] at hq
      obtain ⟨_, _, _, ho⟩ := hq
      cases ho

/-- between two environment moves the pump makes only finitely many moves, under every scheduler -/
theorem pump_terminates (cap : Nat) (pol : Bool) :
    WellFounded (fun (q p : Net α) => Inv cap pol p ∧ q ∈ procNext p) := by
  refine Subrelation.wf ?_ (InvImage.wf variantP Nat.lt_wfRel.wf)
  intro q p ⟨h, hq⟩
  exact proc_decreases h hq

/-- once nobody sends any more, pump moves and successful receives cannot go on forever -/
theorem drain_terminates (cap : Nat) (pol : Bool) :
    WellFounded (fun (q p : Net α) => Inv cap pol p ∧ p.panicked = false ∧
      (q ∈ procNext p ∨ ∃ v, (q, Obs.value v) ∈ envNext p .recv)) := by
  refine Subrelation.wf ?_ (InvImage.wf variantP Nat.lt_wfRel.wf)
  intro q p ⟨h, hnp, hq⟩
  rcases hq with hq | ⟨v, hq⟩
  · exact proc_decreases h hq
  · exact recv_decreases h hnp hq

/-- … and they do not stop early: after cancel or close, until the pump has returned, the pump can
move or a receive obtains a value -/
theorem drain_progress {cap : Nat} {p : Net α} (h : Reachable cap p) (hnp : p.panicked = false)
    (heos : p.cancelled = true ∨ p.inp.closed = true) (hx : p.pc ≠ .exited) :
    procNext p ≠ [] ∨ CanRecv p :=
  eos_progress (inv_reachable h) hnp heos hx

/-- where such a run stops, everything is through (every schedule; `panicked = false` is a hypothesis) -/
theorem drained_complete {cap : Nat} {p : Net α} (h : Reachable cap p) (hnp : p.panicked = false)
    (heos : p.cancelled = true ∨ p.inp.closed = true) (hstuck : procNext p = []) (hnr : ¬ CanRecv p) :
    p.pc = .exited ∧ p.eg.closed = true ∧ p.eg.buf = [] ∧ p.delivered = p.sent := by
  have hpc : p.pc = .exited := by
    cases hpc : p.pc with
    | exited => rfl
    | _ => exact ((drain_progress h hnp heos (by simp [hpc])).elim (fun hne => absurd hstuck hne) (fun hr => absurd hr hnr))
  have hc := (inv_reachable h).egClosed.mpr hpc
  have hb : p.eg.buf = [] := by
    cases hb : p.eg.buf with
    | nil => rfl
    | cons w ws => exact absurd ⟨_, w, by simp only [envNext, hb]; exact List.mem_singleton.mpr rfl⟩ hnr
  refine ⟨hpc, hc, hb, ?_⟩
  have := (eg_closed_complete h hc).2
  simpa [hb] using this

/-- After the context is cancelled every value whose send had completed is still delivered before
the receive side closes: from any reachable cancelled state, with the receiver draining, the run
is finite (`drain_terminates`), cannot stop before the pump has returned (`drain_progress`), and
where it stops the pump has returned, `eg` is closed and empty and the receiver has obtained
exactly the completed sends. (`panicked = false`: see `no_panic_partial` / `cancel_close_race_panics`.) -/
theorem cancel_delivers_all {cap : Nat} {p : Net α} (h : Reachable cap p) (hc : p.cancelled = true)
    (hnp : p.panicked = false) (hstuck : procNext p = []) (hnr : ¬ CanRecv p) :
    p.pc = .exited ∧ p.eg.closed = true ∧ p.eg.buf = [] ∧ p.delivered = p.sent :=
  drained_complete h hnp (Or.inl hc) hstuck hnr

/- FULL STATEMENT (false of the current code, see `cancel_close_race_panics` below; recorded as a
   known finding):
     theorem no_panic {cap : Nat} {p : Net α} (h : Reachable cap p) : p.panicked = false
   What is missing in the `_partial` version: the schedules in which the sender closes the send side
   AFTER the context was cancelled (`ReachableP` excludes exactly the environment move `close` in a
   state with `cancelled = true`; close before cancel, in any interleaving with everything else, is
   covered). -/
/-- The pump never panics — it never closes a closed channel and never sends on one — as long as
the sender keeps to its protocol (`ReachableP`: no close of the send side once the context is
cancelled; sends on, or a second close of, a channel that is already closed are the sender's own
crash and are refused moves). -/
theorem no_panic_partial {cap : Nat} {p : Net α} (h : ReachableP cap p) : p.panicked = false :=
  (inv_reachableP h).noPanic rfl

/- FULL STATEMENT (false of the current code for the same reason):
     theorem close_is_clean_eos {cap : Nat} {p : Net α} (h : Reachable cap p) (hcl : p.inp.closed = true)
         (hstuck : procNext p = []) (hnr : ¬ CanRecv p) :
         p.panicked = false ∧ p.pc = .exited ∧ p.eg.closed = true ∧ p.eg.buf = [] ∧ p.delivered = p.sent
   Missing in the `_partial` version: `panicked = false` for a close by the sender issued after cancel.
   The delivery part holds for EVERY schedule whenever the pump has not panicked: `drained_complete`. -/
/-- Closing the send side is a clean end of stream: no crash, everything sent is delivered, then
the receive side closes (same reading as `cancel_delivers_all`) — for senders that do not close
after cancel. -/
theorem close_is_clean_eos_partial {cap : Nat} {p : Net α} (h : ReachableP cap p) (hcl : p.inp.closed = true)
    (hstuck : procNext p = []) (hnr : ¬ CanRecv p) :
    p.panicked = false ∧ p.pc = .exited ∧ p.eg.closed = true ∧ p.eg.buf = [] ∧ p.delivered = p.sent :=
  ⟨no_panic_partial h, drained_complete (reachable_of_reachableP h) (no_panic_partial h) (Or.inr hcl) hstuck hnr⟩

/-- KNOWN FINDING (negation witness of the full `no_panic`). The protocol hypothesis of
`no_panic_partial` cannot be dropped: for every capacity there is a schedule
— cancel; the pump takes the Done arm, finds `in` empty and open (`default`); the sender closes
`in`; the pump's `close(in)` — that panics with "close of closed channel". -/
theorem cancel_close_race_panics (cap : Nat) : ∃ p : Net α, Reachable cap p ∧ p.panicked = true := by
  let p1 : Net α := { (init cap : Net α) with cancelled := true }
  let p2 : Net α := { p1 with pc := .drain }
  let p3 : Net α := { p2 with pc := .closeIn }
  let p4 : Net α := { p3 with inp := { p3.inp with closed := true } }
  let p5 : Net α := { p4 with panicked := true }
  have r1 : Reachable cap p1 := .step .init (Or.inr ⟨.cancel, .ok, by simp [envNext, p1]⟩)
  have r2 : Reachable cap p2 := .step r1 (Or.inl (by simp [procNext, pumpNext, recvIn, p1, p2, init]))
  have r3 : Reachable cap p3 := .step r2 (Or.inl (by simp [procNext, pumpNext, p1, p2, p3, init]))
  have r4 : Reachable cap p4 := .step r3 (Or.inr ⟨.close, .ok, by simp [envNext, p1, p2, p3, p4, init]⟩)
  have r5 : Reachable cap p5 := .step r4 (Or.inl (by simp [procNext, pumpNext, p1, p2, p3, p4, p5, init]))
  exact ⟨p5, r5, rfl⟩

/-! non-vacuity: a protocol-respecting run `send 7; cancel; receive` that ends with the pump
returned, `eg` closed and the value delivered -/
example : ∃ p : Net Nat, ReachableP 0 p ∧ p.cancelled = true ∧ procNext p = [] ∧ ¬ CanRecv p ∧
    p.sent = [7] ∧ p.delivered = [7] := by
  let a0 : Net Nat := init 0
  let a1 : Net Nat := { a0 with inp := { a0.inp with buf := [7] }, sent := [7] }
  let a2 : Net Nat := { a1 with pc := .mainGot 7, inp := { a1.inp with buf := [] } }
  let a3 : Net Nat := { a2 with pc := .main, mq := [7] }
  let a4 : Net Nat := { a3 with cancelled := true }
  let a5 : Net Nat := { a4 with pc := .drain }
  let a6 : Net Nat := { a5 with pc := .closeIn }
  let a7 : Net Nat := { a6 with pc := .range, inp := { a6.inp with closed := true } }
  let a8 : Net Nat := { a7 with pc := .flush }
  let a9 : Net Nat := { a8 with pc := .flushSent, delivered := [7] }
  let a10 : Net Nat := { a9 with pc := .flush, mq := [] }
  let a11 : Net Nat := { a10 with pc := .closeEg }
  let a12 : Net Nat := { a11 with pc := .exited, eg := { a11.eg with closed := true } }
  have r1 : ReachableP 0 a1 := .step .init (Or.inr ⟨.send 7, .ok, trivial, by simp [envNext, recvReady, a0, a1, init]⟩)
  have r2 : ReachableP 0 a2 := .step r1 (Or.inl (by simp [procNext, pumpNext, recvIn, a0, a1, a2, init]))
  have r3 : ReachableP 0 a3 := .step r2 (Or.inl (by simp [procNext, pumpNext, a0, a1, a2, a3, init]))
  have r4 : ReachableP 0 a4 := .step r3 (Or.inr ⟨.cancel, .ok, trivial, by simp [envNext, a4]⟩)
  have r5 : ReachableP 0 a5 := .step r4 (Or.inl (by simp [procNext, pumpNext, recvIn, sendEg, a0, a1, a2, a3, a4, a5, init]))
  have r6 : ReachableP 0 a6 := .step r5 (Or.inl (by simp [procNext, pumpNext, a0, a1, a2, a3, a4, a5, a6, init]))
  have r7 : ReachableP 0 a7 := .step r6 (Or.inl (by simp [procNext, pumpNext, a0, a1, a2, a3, a4, a5, a6, a7, init]))
  have r8 : ReachableP 0 a8 := .step r7 (Or.inl (by simp [procNext, pumpNext, recvIn, a0, a1, a2, a3, a4, a5, a6, a7, a8, init]))
  have r9 : ReachableP 0 a9 := .step r8 (Or.inr ⟨.recv, .value 7, trivial, by
    simp [envNext, handoff, a0, a1, a2, a3, a4, a5, a6, a7, a8, a9, init]⟩)
  have r10 : ReachableP 0 a10 := .step r9 (Or.inl (by simp [procNext, pumpNext, a0, a1, a2, a3, a4, a5, a6, a7, a8, a9, a10, init]))
  have r11 : ReachableP 0 a11 := .step r10 (Or.inl (by simp [procNext, pumpNext, a0, a1, a2, a3, a4, a5, a6, a7, a8, a9, a10, a11, init]))
  have r12 : ReachableP 0 a12 := .step r11 (Or.inl (by simp [procNext, pumpNext, a0, a1, a2, a3, a4, a5, a6, a7, a8, a9, a10, a11, a12, init]))
  refine ⟨a12, r12, rfl, by simp [procNext, pumpNext, a12], ?_, rfl, rfl⟩
  rintro ⟨q, v, hq⟩
  simp [envNext, handoff, a0, a1, a2, a3, a4, a5, a6, a7, a8, a9, a10, a11, a12, init] at hq

/-! ## Pairs created under a done context -/

/-- Every start state of a `pre=1 presend=…` script (context cancelled and values sent before the pump's first step) is
a reachable state of the polite network: all invariants and liveness theorems above apply to such runs. -/
theorem preStart_reachable {cap : Nat} (vs : List α) : ∀ p ∈ preStart cap vs, ReachableP cap p := by
  unfold preStart
  have key : ∀ (vs : List α) (sts : List (Net α)), (∀ p ∈ sts, ReachableP cap p) →
      ∀ p ∈ vs.foldl (fun sts v => sts.flatMap fun p =>
        ((envNext p (.send v)).filter fun qo => match qo.2 with | .ok => true | _ => false).map (·.1)) sts,
        ReachableP cap p := by
    intro vs
    induction vs with
    | nil => intro sts h p hp; exact h p (by simpa using hp)
    | cons v vs ih =>
      intro sts h
      simp only [List.foldl_cons]
      apply ih
      intro q hq
      simp only [List.mem_flatMap, List.mem_map, List.mem_filter] at hq
      obtain ⟨p, hp, ⟨q', o⟩, ⟨hmem, _⟩, rfl⟩ := hq
      exact .step (h p hp) (Or.inr ⟨.send v, o, trivial, hmem⟩)
  apply key
  intro p hp
  simp only [List.mem_map] at hp
  obtain ⟨⟨q, o⟩, hmem, rfl⟩ := hp
  exact .step .init (Or.inr ⟨.cancel, o, trivial, hmem⟩)

/-- …and it is what one expects: cancelled, the pump at its first control point, the sends that completed in the buffer. -/
example : (preStart (α := Nat) 2 [7, 8]).map (fun p => (p.cancelled, p.inp.buf, p.sent)) = [(true, [7, 8], [7, 8])] := by
  decide

/-- in every reachable state — cancelled, closed, racing or not — the receiver has no value that was not sent, the k-th
value received is the k-th value sent, and it has never received more than was sent -/
theorem delivered_is_sent_in_order {cap : Nat} {p : Net α} (h : Reachable cap p) :
    (∀ x ∈ p.delivered, x ∈ p.sent) ∧ p.delivered.length ≤ p.sent.length ∧
    (∀ k (hk : k < p.delivered.length), p.sent[k]? = some p.delivered[k]) := by
  have hp := delivered_prefix h
  refine ⟨fun x hx => hp.subset hx, hp.length_le, fun k hk => ?_⟩
  obtain ⟨t, ht⟩ := hp
  rw [← ht, List.getElem?_append_left hk, List.getElem?_eq_getElem hk]

end Golem.Props.C08
