/-
C15 — key-value iterator combinators keep list semantics and key/value pairing.

Property theorems only (lemmas: `Golem.Lemmas.PairIter`; model: `Golem.Model.PairIter`, mirroring
/repo/trait/pair/pair.go and /repo/trait/seq/seq.go; the correspondence with the real code is
checked on every run by `checks/C15.py`).

Scope, as for C14: an expression is built once and every sub-expression is handed to exactly one
combinator (linear use — the Go iterators are mutable and shared by reference); join functions
return a fresh expression per element; user functions are arbitrary total pure functions; the
`ForEach` callback is an arbitrary stateful function.

`Sig.s α` is `seq.Seq[α]`, `Sig.p κ ν` is `pair.Seq[κ, ν]`; `Ex sg` are expression trees of either
kind, of any depth, that cross between the kinds through `join` at signatures (p,s) = `pair.ToSeq`
and (s,p) = `pair.FromSeq` ((s,s) = `seq.Join`, (p,p) = `pair.Join`).
`Repr c st l`: the positioned iterator `st` yields exactly `l`, where for a pair iterator each
element of `l` is `(Key(), Value())` as read from the *same position* by the two separate model
functions `key` and `value`.
-/
import Golem.Lemmas.PairIter
set_option linter.unusedSimpArgs false

namespace Golem.Props.C15
open Golem.Model.PairIter Golem.Model.PairIter.It
open Golem.Model.Iter (Err)

/-! ### `Next()` and the constructor functions (generic in the package) -/

theorem next_contract {sg : Sig} {c : Nat} {st : It sg} {x : Elem sg} {xs : List (Elem sg)} :
    Repr c st (x :: xs) ↔ elem st = .ok x ∧
      ∀ n, c ≤ n → ∃ st', next n st = .ok (st', !xs.isEmpty) ∧ (xs ≠ [] → Repr c st' xs) := Iff.rfl

/-- For a pair iterator the callback argument is `(Key(), Value())` of the current position. -/
theorem elem_is_key_value {κ ν : Type} (st : It (.p κ ν)) (k : κ) (v : ν) :
    elem st = .ok (k, v) ↔ key st = .ok k ∧ value st = .ok v := by
  simp only [elem]
  cases hk : key st <;> cases hv : value st <;> simp

theorem pair_next {κ ν : Type} (k : κ) (v : ν) : Repr (sg := .p κ ν) 1 (PFrom k v) [(k, v)] :=
  repr_pair (Nat.le_refl _) k v

theorem takeWhile_next {sg : Sig} {c : Nat} (p : Elem sg → Bool) {inner : It sg} {x : Elem sg}
    {xs : List (Elem sg)} (h : Repr c inner (x :: xs)) :
    Repr (c + 1) (.takeWhile inner (some p)) (x :: xs.takeWhile p) := repr_takeWhile p xs inner x h

theorem filter_next {sg : Sig} {c : Nat} (p : Elem sg → Bool) {inner : It sg} {x : Elem sg}
    {xs : List (Elem sg)} (h : Repr c inner (x :: xs)) (hc : xs.length < c) :
    Repr (c + 1) (.filter inner (some p)) (x :: xs.filter p) :=
  repr_filter p xs.length xs inner x (Nat.le_refl _) h hc

/-- `pair.fmap`: `Next()` and `Key()` are the inner ones, `Value()` is `f(Key(), Value())` of the
same inner position: keys unchanged, values mapped with their own key. -/
theorem pfmap_next {κ α β : Type} {c : Nat} (f : κ → α → β) {inner : It (.p κ α)} {x : κ × α}
    {xs : List (κ × α)} (h : Repr (sg := .p κ α) c inner (x :: xs)) :
    Repr (sg := .p κ β) (c + 1) (.pfmap inner f)
      ((x.1, f x.1 x.2) :: xs.map (fun kv => (kv.1, f kv.1 kv.2))) := repr_pfmap f xs inner x h

theorem plus_next {sg : Sig} {c : Nat} {cur rhs : It sg} {x : Elem sg} {xs ys : List (Elem sg)}
    (h : Repr c cur (x :: xs)) (hr : ReprO c rhs ys) : Repr (c + 1) (.plus cur rhs) (x :: (xs ++ ys)) := by
  cases ys with
  | nil => simp [ReprO] at hr; subst hr; simpa using repr_plus_nil xs cur x h
  | cons y ys => exact repr_plus (show Repr c rhs (y :: ys) from hr) xs cur x h

/-- `join.Next` / `toSeq.Next` / `fromSeq.Next`: the join function is called with the element
(`Value()` resp. `Key(), Value()`) of the position `lhs` has just been advanced to. -/
theorem join_next {sa sb : Sig} {c : Nat} (rhs : Elem sa → It sb) (g : Elem sa → List (Elem sb))
    {lhs : It sa} {cur : It sb} {a : Elem sa} {as : List (Elem sa)} {y : Elem sb} {ys : List (Elem sb)}
    (hl : Repr c lhs (a :: as)) (hc : as.length < c) (hk : RhsOk c rhs g as) (hcur : Repr c cur (y :: ys)) :
    Repr (c + 1) (.join cur lhs rhs) (y :: (ys ++ as.flatMap g)) :=
  repr_join rhs g as.length as lhs a (Nat.le_refl _) hl hc hk ys cur y hcur

theorem TakeWhile_spec {sg : Sig} {c : Nat} (p : Elem sg → Bool) {s : It sg} {l : List (Elem sg)}
    (h : ReprO c s l) : ∃ s', TakeWhile s p = .ok s' ∧ ReprO (c + 1) s' (l.takeWhile p) := reprO_TakeWhile p h

theorem DropWhile_spec {sg : Sig} {c C : Nat} (p : Elem sg → Bool) {s : It sg} {l : List (Elem sg)}
    (h : ReprO c s l) (hC : c ≤ C) (hl : l.length ≤ C) :
    ∃ s', DropWhile C s p = .ok s' ∧ ReprO c s' (l.dropWhile p) := reprO_DropWhile hC p h hl

theorem Filter_spec {sg : Sig} {c C : Nat} (p : Elem sg → Bool) {s : It sg} {l : List (Elem sg)}
    (h : ReprO c s l) (hC : c ≤ C) (hl : l.length ≤ c) :
    ∃ s', Filter C s p = .ok s' ∧ ReprO (c + 1) s' (l.filter p) := reprO_Filter hC p h hl

theorem PMap_spec {κ α β : Type} {c : Nat} (f : κ → α → β) {s : It (.p κ α)} {l : List (κ × α)}
    (h : ReprO (sg := .p κ α) c s l) :
    ReprO (sg := .p κ β) (c + 1) (PMap s f) (l.map (fun kv => (kv.1, f kv.1 kv.2))) := reprO_PMap f h

theorem Plus_spec {sg : Sig} {c : Nat} {l r : It sg} {xs ys : List (Elem sg)} (hl : ReprO c l xs)
    (hr : ReprO c r ys) : ReprO (c + 1) (Plus l r) (xs ++ ys) := reprO_Plus hl hr

/-- `seq.Join`, `pair.Join`, `pair.ToSeq`, `pair.FromSeq`. -/
theorem Join_spec {sa sb : Sig} {c C : Nat} (rhs : Elem sa → It sb) (g : Elem sa → List (Elem sb))
    {lhs : It sa} {l : List (Elem sa)} (h : ReprO c lhs l) (hC : c ≤ C) (hl : l.length ≤ c)
    (hk : RhsOk c rhs g l) : ∃ s', Join C lhs rhs = .ok s' ∧ ReprO (c + 1) s' (l.flatMap g) :=
  reprO_Join hC rhs g h hl hk

theorem drain_repr {sg : Sig} {c : Nat} {s : It sg} {l : List (Elem sg)} (h : ReprO c s l)
    (hl : l.length < c) : drain c s = .ok l := drain_spec h hl

theorem ForEach_repr {sg : Sig} {σ ε : Type} {c : Nat} {s : It sg} {l : List (Elem sg)}
    (f : σ → Elem sg → σ × Option ε) (acc : σ) (h : ReprO c s l) (hl : l.length < c) :
    ForEach c s f acc = .ok (visit f acc l) := forEach_spec f acc h hl

/-! ### Expressions of unbounded depth, mixing pair and plain sequences -/

theorem length_lt_cost {sg : Sig} (e : Ex sg) : (denote e).length < cost e := by
  induction e with
  | «from» v => simp [denote, cost]
  | fromSlice xs => simp [denote, cost]
  | pfrom k v => simp [denote, cost]
  | takeWhile e f ih => have := (List.takeWhile_sublist (l := denote e) f).length_le; simp [denote, cost]; omega
  | dropWhile e f ih => have := (List.dropWhile_sublist (l := denote e) f).length_le; simp [denote, cost]; omega
  | filter e f ih => have := List.length_filter_le f (denote e); simp [denote, cost]; omega
  | map e f ih => simp [denote, cost]; omega
  | pmap e f ih => simp [denote, cost]; omega
  | plus l r ihl ihr => simp [denote, cost]; omega
  | join e k ihe ihk =>
    have := length_flatMap_le (fun a => cost (k a)) (fun a => denote (k a)) (denote e)
      (fun a _ => Nat.le_of_lt (ihk a))
    simp only [denote, cost]; omega

/-- Core theorem: building any expression succeeds (no panic, fuel `cost e` suffices) and the
iterator denotes `denote e` — for pair expressions a list of `(Key(), Value())` — nil iff empty. -/
theorem build_repr {sg : Sig} (e : Ex sg) :
    ∀ c, cost e ≤ c → ∃ s, build c e = .ok s ∧ ReprO (cost e) s (denote e) := by
  induction e with
  | «from» v =>
    intro c _
    exact ⟨From v, rfl, by simpa [denote, cost, ReprO, From] using repr_element (c := 2) (by omega) v⟩
  | fromSlice xs =>
    intro c _
    exact ⟨FromSlice xs, rfl, by simpa [denote, cost] using reprO_FromSlice (c := xs.length + 2) (by omega) xs⟩
  | pfrom k v =>
    intro c _
    exact ⟨PFrom k v, rfl, by simpa [denote, cost, ReprO, PFrom] using repr_pair (c := 2) (by omega) k v⟩
  | takeWhile e f ih =>
    intro c hc
    obtain ⟨s, hb, hr⟩ := ih c (by simp [cost] at hc; omega)
    obtain ⟨s', h1, h2⟩ := reprO_TakeWhile f hr
    exact ⟨s', by simp [build, hb, h1], by simpa [denote, cost] using h2⟩
  | dropWhile e f ih =>
    intro c hc
    simp only [cost] at hc
    obtain ⟨s, hb, hr⟩ := ih c (by omega)
    have hlen := length_lt_cost e
    obtain ⟨s', h1, h2⟩ := reprO_DropWhile (C := c) (by omega) f hr (by omega)
    exact ⟨s', by simp [build, hb, h1], by simpa [denote, cost] using h2.mono (Nat.le_succ _)⟩
  | filter e f ih =>
    intro c hc
    simp only [cost] at hc
    obtain ⟨s, hb, hr⟩ := ih c (by omega)
    have hlen := length_lt_cost e
    obtain ⟨s', h1, h2⟩ := reprO_Filter (C := c) (by omega) f hr (by omega)
    exact ⟨s', by simp [build, hb, h1], by simpa [denote, cost] using h2⟩
  | map e f ih =>
    intro c hc
    simp only [cost] at hc
    obtain ⟨s, hb, hr⟩ := ih c (by omega)
    exact ⟨Map s f, by simp [build, hb], by simpa [denote, cost] using reprO_Map f hr⟩
  | pmap e f ih =>
    intro c hc
    simp only [cost] at hc
    obtain ⟨s, hb, hr⟩ := ih c (by omega)
    exact ⟨PMap s f, by simp [build, hb], by simpa [denote, cost] using reprO_PMap f hr⟩
  | plus l r ihl ihr =>
    intro c hc
    simp only [cost] at hc
    obtain ⟨sl, hbl, hrl⟩ := ihl c (by omega)
    obtain ⟨sr, hbr, hrr⟩ := ihr c (by omega)
    have := reprO_Plus (c := cost l + cost r) (hrl.mono (by omega)) (hrr.mono (by omega))
    exact ⟨Plus sl sr, by simp [build, hbl, hbr], by simpa [denote, cost] using this⟩
  | join e k ihe ihk =>
    intro c hc
    simp only [cost] at hc
    obtain ⟨s, hb, hr⟩ := ihe c (by omega)
    have hlen := length_lt_cost e
    let d := cost e + sumOver (fun a => cost (k a)) (denote e)
    have hk : RhsOk d (fun a => toFailed (build c (k a))) (fun a => denote (k a)) (denote e) := by
      intro b hbm
      have hle : cost (k b) ≤ sumOver (fun a => cost (k a)) (denote e) :=
        sumOver_mem (fun a => cost (k a)) hbm
      obtain ⟨sb, h1, h2⟩ := ihk b c (by omega)
      exact ⟨sb, call_toFailed (fun a => build c (k a)) b h1 h2, h2.mono (by simp only [d]; omega)⟩
    obtain ⟨s', h1, h2⟩ := reprO_Join (c := d) (C := c) (by simp only [d]; omega) _ _
      (hr.mono (by simp only [d]; omega)) (by simp only [d]; omega) hk
    exact ⟨s', by simp [build, hb, h1], by simpa [denote, cost, d] using h2⟩

/-- **C15, main theorem.**  For every expression tree of either kind — any depth, any key/value
types, any predicates, mappings and join functions, crossing between `pair.Seq` and `seq.Seq`
through ToSeq/FromSeq any number of times — draining with the documented loop yields exactly the
list given by the list functions; for a pair expression that is the list of `(Key(), Value())`
read at each position, so key and value always belong to the same element, and the predicates
and join functions (which `denote` applies to the list elements `(k, v)`) were given matching
keys and values. -/
theorem eval_eq_denote {sg : Sig} (e : Ex sg) : eval e = .ok (denote e) := by
  obtain ⟨s, hb, hr⟩ := build_repr e (cost e) (Nat.le_refl _)
  simp [eval, hb, drain_spec hr (length_lt_cost e)]

/-- `seq.ForEach` / `pair.ForEach` visit that list in order (the pair callback receiving
`Key(), Value()` of one position) and stop with the first error. -/
theorem forEach_stops_at_first_error {sg : Sig} {σ ε : Type} (e : Ex sg) (f : σ → Elem sg → σ × Option ε)
    (acc : σ) : evalForEach e f acc = .ok (visit f acc (denote e)) := by
  obtain ⟨s, hb, hr⟩ := build_repr e (cost e) (Nat.le_refl _)
  simp [evalForEach, hb, forEach_spec f acc hr (length_lt_cost e)]

theorem visit_log {α ε : Type} (err : α → Option ε) (l : List α) (log : List α) :
    visit (fun (lg : List α) a => (lg ++ [a], err a)) log l =
      match l.dropWhile (fun a => (err a).isNone) with
      | [] => (log ++ l, none)
      | a :: _ => (log ++ l.takeWhile (fun a => (err a).isNone) ++ [a], err a) := by
  induction l generalizing log with
  | nil => simp [visit]
  | cons x xs ih =>
    cases hx : err x with
    | none => simp [visit, hx, ih, List.dropWhile_cons, List.takeWhile_cons]
    | some e => simp [visit, hx, List.dropWhile_cons, List.takeWhile_cons]

/-- `pair.Map` changes values, never keys: the drained keys of `Map(e, f)` are the drained keys of
`e`, and each value is `f` of its own key and old value. -/
theorem map_keeps_keys {κ α β : Type} (e : Ex (.p κ α)) (f : κ → α → β) :
    ∃ l l', eval e = .ok l ∧ eval (.pmap e f) = .ok l' ∧
      l'.map Prod.fst = l.map Prod.fst ∧ l'.map Prod.snd = l.map (fun kv => f kv.1 kv.2) := by
  refine ⟨denote e, denote (.pmap e f), eval_eq_denote e, eval_eq_denote _, ?_, ?_⟩ <;>
    simp [denote, List.map_map, Function.comp_def]

/-- Callbacks receive matching keys and values.  Take as predicate "this (key, value) is one of
the pairs of the source": if a combinator ever handed a predicate or a join function a key with
another element's value (or value and key swapped), some element would be rejected — but
TakeWhile and Filter keep everything, DropWhile with the negation drops nothing, and a Join whose
function re-emits only genuine source pairs reproduces the source. -/
theorem callbacks_get_matching_pair {κ ν : Type} [DecidableEq κ] [DecidableEq ν] (e : Ex (.p κ ν)) :
    eval (.takeWhile e (fun kv => decide (kv ∈ denote e))) = .ok (denote e) ∧
    eval (.filter e (fun kv => decide (kv ∈ denote e))) = .ok (denote e) ∧
    eval (.dropWhile e (fun kv => !decide (kv ∈ denote e))) = .ok (denote e) ∧
    eval (.join e (fun kv => Ex.filter (.pfrom kv.1 kv.2) (fun kv' => decide (kv' ∈ denote e)))) = .ok (denote e) := by
  refine ⟨?_, ?_, ?_, ?_⟩
  · rw [eval_eq_denote]; simp only [denote]
    congr 1
    have : ∀ (l m : List (κ × ν)), (∀ a ∈ l, a ∈ m) → l.takeWhile (fun kv => decide (kv ∈ m)) = l := by
      intro l m
      induction l with
      | nil => simp
      | cons x xs ih =>
        intro h
        have hx : x ∈ m := h x (by simp)
        simp [List.takeWhile_cons, hx, ih (fun a ha => h a (by simp [ha]))]
    exact this (denote e) (denote e) (fun a ha => ha)
  · rw [eval_eq_denote]; simp only [denote]
    congr 1; apply List.filter_eq_self.mpr; intro a ha; simpa using ha
  · rw [eval_eq_denote]; simp only [denote]
    congr 1
    cases h : denote e with
    | nil => rfl
    | cons x xs => simp [List.dropWhile_cons]
  · rw [eval_eq_denote]; simp only [denote]
    congr 1
    have : ∀ (l m : List (κ × ν)), (∀ a ∈ l, a ∈ m) →
        l.flatMap (fun a => List.filter (fun kv' => decide (kv' ∈ m)) [(a.1, a.2)]) = l := by
      intro l m
      induction l with
      | nil => simp
      | cons x xs ih =>
        intro h
        have hx : x ∈ m := h x (by simp)
        simp only [List.flatMap_cons]
        rw [ih (fun a ha => h a (by simp [ha]))]
        simp [List.filter_cons, hx]
    exact this (denote e) (denote e) (fun a ha => ha)

/-- ToSeq / FromSeq round trip: splitting a plain sequence into pairs with `FromSeq` and reading
the pairs back with `ToSeq` hands the join function exactly the pairs that were made. -/
theorem toSeq_fromSeq {α κ ν β : Type} (e : Ex (.s α)) (mk : α → κ × ν) (g : κ → ν → β) :
    eval (.join (sa := .p κ ν) (sb := .s β)
            (.join (sa := .s α) (sb := .p κ ν) e (fun a => .pfrom (mk a).1 (mk a).2))
            (fun kv => .from (g kv.1 kv.2)))
      = .ok ((denote e).map (fun a => g (mk a).1 (mk a).2)) := by
  rw [eval_eq_denote]; simp only [denote]
  congr 1
  induction denote e with
  | nil => rfl
  | cons x xs ih => simp [List.flatMap_cons] at ih ⊢; exact ih

theorem eval_fuel_irrelevant {sg : Sig} (e : Ex sg) (c : Nat) (hc : cost e ≤ c) :
    (match build c e with | .error x => (.error x : Except Err (List (Elem sg))) | .ok s => drain c s)
      = .ok (denote e) := by
  obtain ⟨s, hb, hr⟩ := build_repr e c hc
  have := length_lt_cost e
  simp [hb, drain_spec (hr.mono hc) (by omega)]

/-! ### Non-vacuity (keys ≠ values) -/

/-- pairs (k, 10k+1) made from a slice by FromSeq, values mapped with their key, filtered on both
components, then joined back to a plain sequence by ToSeq. -/
def ex1 : Ex (.s Int) :=
  .join (sa := .p Int Int) (sb := .s Int)
    (.filter
      (.pmap (.join (sa := .s Int) (sb := .p Int Int) (.fromSlice [1, 2, 3, 4]) (fun x => .pfrom x (10 * x + 1)))
        (fun k v => v - k))
      (fun kv => kv.1 % 2 == 0 || kv.2 > 30))
    (fun kv => .fromSlice [kv.1, kv.2])

example : denote ex1 = [2, 19, 4, 37] := by decide
example : eval ex1 = .ok [2, 19, 4, 37] := eval_eq_denote ex1
example : Repr (sg := .p Int Int) 1 (PFrom 1 11) [(1, 11)] := pair_next 1 11

/-! ### algebraic laws of the pair combinators, as observed through the documented consumption loop
(corollaries of `eval_eq_denote`; they hold for plain and for pair sequences alike) -/

/-- the value map of pair sequences fuses, keys passed to both functions untouched -/
theorem pmap_pmap_fuses {κ α β γ : Type} (e : Ex (.p κ α)) (f : κ → α → β) (g : κ → β → γ) :
    eval (.pmap (.pmap e f) g) = eval (.pmap e (fun k a => g k (f k a))) := by
  simp [eval_eq_denote, denote, List.map_map, Function.comp_def]

theorem filter_filter_fuses {sg : Sig} (e : Ex sg) (p q : Elem sg → Bool) :
    eval (.filter (.filter e p) q) = eval (.filter e (fun a => p a && q a)) := by
  simp [eval_eq_denote, denote, List.filter_filter, Bool.and_comm]

theorem plus_assoc {sg : Sig} (a b c : Ex sg) :
    eval (.plus (.plus a b) c) = eval (.plus a (.plus b c)) := by
  simp [eval_eq_denote, denote, List.append_assoc]

theorem pmap_plus {κ α β : Type} (a b : Ex (.p κ α)) (f : κ → α → β) :
    eval (.pmap (.plus a b) f) = eval (.plus (.pmap a f) (.pmap b f)) := by
  simp [eval_eq_denote, denote]

theorem filter_plus {sg : Sig} (a b : Ex sg) (p : Elem sg → Bool) :
    eval (.filter (.plus a b) p) = eval (.plus (.filter a p) (.filter b p)) := by
  simp [eval_eq_denote, denote]

theorem join_plus {sa sb : Sig} (a b : Ex sa) (k : Elem sa → Ex sb) :
    eval (.join (.plus a b) k) = eval (.plus (.join a k) (.join b k)) := by
  simp [eval_eq_denote, denote]

/-- the monad laws, for `From` and for the pair `From` -/
theorem join_pfrom_left {κ ν : Type} {sb : Sig} (k : κ) (v : ν) (h : Elem (.p κ ν) → Ex sb) :
    eval (.join (.pfrom k v) h) = eval (h (k, v)) := by
  simp [eval_eq_denote, denote]

theorem join_pfrom_right {κ ν : Type} (e : Ex (.p κ ν)) :
    eval (.join e (fun kv : Elem (.p κ ν) => (.pfrom kv.1 kv.2 : Ex (.p κ ν)))) = eval e := by
  simp [eval_eq_denote, denote]

theorem join_assoc {sa sb sc : Sig} (e : Ex sa) (k : Elem sa → Ex sb) (h : Elem sb → Ex sc) :
    eval (.join (.join e k) h) = eval (.join e (fun a => .join (k a) h)) := by
  simp [eval_eq_denote, denote, List.flatMap_assoc]

theorem takeWhile_plus_dropWhile {sg : Sig} (e : Ex sg) (p : Elem sg → Bool) :
    eval (.plus (.takeWhile e p) (.dropWhile e p)) = eval e := by
  simp [eval_eq_denote, denote, List.takeWhile_append_dropWhile]

end Golem.Props.C15
