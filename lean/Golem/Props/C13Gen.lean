/-
C13, translation tie — the two goroutines of `pipe.Throttling` as REGENERATED from pipe/pipe.go on this run
(go/xlate family `sources`): the pacer's round is `ops` token pushes under select followed by the timer wait, the
data goroutine takes one token per element and forwards it, `out` has the input's capacity, `ctl` capacity `ops`,
the pacer closes `ctl`, the data goroutine closes `out` — the network `Go/Throttle.lean` all theorems of
Props/C13 are about (`Throttle.init`, `pacerNext`, `dataNext`).
-/
import Golem.Props.C13
import Golem.Props.Stage.PipeSources
namespace Golem.Props.C13
open Golem.Go Golem.Go.Throttle Golem.Model Golem.Model.DSLT Golem.Props.Stage

variable {α : Type}

/-- capacities of the regenerated stage = the model's initial network -/
theorem gen_throttling_caps (ops interval c : Nat) (errch : Nat → Nat) :
    Gen.PipeSrc.Throttling.cfg.caps c ops errch
      = [(Throttle.init (α := α) ops interval c).out.cap, (Throttle.init (α := α) ops interval c).ctl.cap] ∧
    (Throttle.init (α := α) ops interval c).inp.cap = c := ⟨rfl, rfl⟩

/-- who closes what: the pacer `ctl` (channel 1), the data goroutine `out` (channel 0) -/
theorem gen_throttling_closes : Gen.PipeSrc.Throttling.cfg.closes = [[1], [0]] := rfl

/-- the model's pacer: at `push i` with `i < ops` it offers a token under select (or leaves on Done), at `push ops`
it arms the timer `interval` from now — `pacerIter`: `ops` sends on `ctl`, then `afterSel interval` -/
theorem pacer_model_iter (p : Net α) (i : Nat) :
    (p.ops ≤ i → pacerNext { p with pc := .push i } = [{ p with pc := .wait (p.now + p.interval) }]) ∧
    (pacerIter (α := α) p.ops p.interval).1.length = p.ops + 1 := by
  refine ⟨?_, ?_⟩
  · intro h
    have : ¬ i < p.ops := by omega
    simp [pacerNext, this]
  · simp [pacerIter]

/-- the model's data goroutine: `gate a` takes a token (or passes a closed `ctl`), then `fwd a` — `dataIter` -/
theorem data_model_iter (a : α) : (dataIter a).1.length = 2 ∧ (dataIter a).2 = .cont := ⟨rfl, rfl⟩

end Golem.Props.C13
