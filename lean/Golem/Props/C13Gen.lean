/-
C13, translation tie — the two goroutines of `pipe.Throttling` as REGENERATED from pipe/pipe.go on this run
(go/xlate family `sources`): the pacer's round is `ops` token pushes under select followed by the timer wait, the
data goroutine takes one token per element and forwards it, `out` has the input's capacity, `ctl` capacity `ops`,
the pacer closes `ctl`, the data goroutine closes `out` — the network `Go/Throttle.lean` all theorems of
Props/C13 are about (`Throttle.init`, `pacerNext`, `dataNext`).
-/
import Golem.Props.C13
import Golem.Props.Stage.PipeSources
namespace Golem.Props.C13
open Golem.Go Golem.Go.Throttle Golem.Model Golem.Model.DSLT Golem.Props.Stage

variable {α : Type}

/-- capacities of the regenerated stage = the model's initial network -/
theorem gen_throttling_caps (ops interval c : Nat) (errch : Nat → Nat) :
    Gen.PipeSrc.Throttling.cfg.caps c ops errch
      = [(Throttle.init (α := α) ops interval c).out.cap, (Throttle.init (α := α) ops interval c).ctl.cap] ∧
    (Throttle.init (α := α) ops interval c).inp.cap = c := ⟨rfl, rfl⟩

/-- who closes what: the pacer `ctl` (channel 1), the data goroutine `out` (channel 0) -/
theorem gen_throttling_closes : Gen.PipeSrc.Throttling.cfg.closes = [[1], [0]] := rfl

/-- the model's pacer: at `push i` with `i < ops` it offers a token under select (or leaves on Done), at `push ops`
it arms the timer `interval` from now — `pacerIter`: `ops` sends on `ctl`, then `afterSel interval` -/
theorem pacer_model_iter (p : Net α) (i : Nat) :
    (p.ops ≤ i → pacerNext { p with pc := .push i } = [{ p with pc := .wait (p.now + p.interval) }]) ∧
    (pacerIter (α := α) p.ops p.interval).1.length = p.ops + 1 := by
  refine ⟨?_, ?_⟩
  · intro h
    have : ¬ i < p.ops := by omega
    simp [pacerNext, this]
  · simp [pacerIter]

/-- the model's data goroutine: `gate a` takes a token (or passes a closed `ctl`), then `fwd a` — `dataIter` -/
theorem data_model_iter (a : α) : (dataIter a).1.length = 2 ∧ (dataIter a).2 = .cont := ⟨rfl, rfl⟩

/-! ### the model's control-flow graph is the iteration specification -/

/-- the action a pacer control point stands for -/
def pacerAct (p : Net α) : PC → Option (Act (α ⊕ Unit))
  | .push i => if i < p.ops then some (.send 1 (.inr ()) .sel) else none
  | .wait _ => some (.afterSel p.interval)
  | _ => none

/-- the pacer walks `push 0 … push (ops-1)` (one token each, under select), arms the timer at `push ops`, waits, and
starts over — one round of `pacerIter`; the only other successors are the Done exit and the (unreachable) panic -/
theorem pacer_walk (p : Net α) :
    (∀ i, i < p.ops → ∀ q ∈ pacerNext { p with pc := .push i },
      q.panicked = true ∨ q.pc = .push (i + 1) ∨ (p.cancelled = true ∧ q.pc = .closing)) ∧
    (∀ i, p.ops ≤ i → ∀ q ∈ pacerNext { p with pc := .push i }, q.pc = .wait (p.now + p.interval)) ∧
    (∀ due, ∀ q ∈ pacerNext { p with pc := .wait due }, q.pc = .push 0 ∨ (p.cancelled = true ∧ q.pc = .closing)) := by
  refine ⟨?_, ?_, ?_⟩
  · intro i hi q hq
    simp only [pacerNext, hi, if_true, List.mem_append] at hq
    rcases hq with hq | hq
    · split at hq
      · simp at hq; subst hq; exact Or.inl rfl
      · split at hq
        · simp at hq; subst hq; exact Or.inr (Or.inl rfl)
        · simp at hq
    · split at hq
      · simp at hq; subst hq; rename_i hc; exact Or.inr (Or.inr ⟨hc, rfl⟩)
      · simp at hq
  · intro i hi q hq
    have : ¬ i < p.ops := by omega
    simp [pacerNext, this] at hq
    subst hq; rfl
  · intro due q hq
    simp only [pacerNext, List.mem_append] at hq
    rcases hq with hq | hq
    · split at hq
      · simp at hq; subst hq; exact Or.inl rfl
      · simp at hq
    · split at hq
      · simp at hq; subst hq; rename_i hc; exact Or.inr ⟨hc, rfl⟩
      · simp at hq

/-- the actions of one pacer round are `pacerIter`: each of the `ops` control points `push 0 … push (ops-1)` stands for one
token send under select, `wait` for the timer wait, and that is the specification's action list -/
theorem pacer_walk_acts (p : Net α) :
    (∀ i, i < p.ops → pacerAct p (.push i) = some (.send 1 (.inr ()) .sel)) ∧
    (∀ due, pacerAct p (.wait due) = some (.afterSel p.interval)) ∧
    (pacerIter (α := α) p.ops p.interval).1 = List.replicate p.ops (.send 1 (.inr ()) .sel) ++ [.afterSel p.interval] := by
  refine ⟨?_, ?_, rfl⟩
  · intro i hi; simp [pacerAct, hi]
  · intro due; rfl

/-- the action a control point of the data goroutine stands for -/
def dataAct : DC α → Option (Act (α ⊕ Unit))
  | .gate _ => some (.recvSel 1)
  | .fwd a => some (.send 0 (.inl a) .sel)
  | _ => none

/-- the data goroutine walks `idle → gate a → fwd a → idle` — `dataIter a` — besides the Done exits, the end of the input
and the (unreachable) panic -/
theorem data_walk (p : Net α) (a : α) :
    (∀ q ∈ dataNext { p with dc := .gate a }, q.dc = .fwd a ∨ (p.cancelled = true ∧ q.dc = .closing .done)) ∧
    (∀ q ∈ dataNext { p with dc := .fwd a },
      q.panicked = true ∨ q.dc = .idle ∨ (p.cancelled = true ∧ q.dc = .closing .done)) ∧
    [dataAct (.gate a), dataAct (.fwd a)].filterMap id = (dataIter a).1 := by
  refine ⟨?_, ?_, rfl⟩
  · intro q hq
    simp only [dataNext, List.mem_append] at hq
    rcases hq with hq | hq
    · split at hq
      · simp at hq; subst hq; exact Or.inl rfl
      · split at hq
        · simp at hq; subst hq; exact Or.inl rfl
        · simp at hq
    · split at hq
      · simp at hq; subst hq; rename_i hc; exact Or.inr ⟨hc, rfl⟩
      · simp at hq
  · intro q hq
    simp only [dataNext, List.mem_append] at hq
    rcases hq with hq | hq
    · split at hq
      · simp at hq; subst hq; exact Or.inl rfl
      · split at hq
        · simp at hq; subst hq; exact Or.inr (Or.inl rfl)
        · simp at hq
    · split at hq
      · simp at hq; subst hq; rename_i hc; exact Or.inr (Or.inr ⟨hc, rfl⟩)
      · simp at hq

end Golem.Props.C13

